#!/bin/bash
# Offline setup: generate harness/go.mod + go.sum against /repo and pre-build every property's test binary
# (warms the Go build cache so the first quick check does not pay for the standard library).
set -u
cd "$(dirname "$0")"
export GOFLAGS=-mod=mod GOPROXY=off GOSUMDB=off GOTOOLCHAIN=local TZ=UTC
REPO=${VERIF_REPO:-/repo}
sed "s#@REPO@#$REPO#" harness/go.mod.tmpl > harness/go.mod
cat "$REPO/go.sum" harness/go.sum.extra > harness/go.sum
mkdir -p .build evidence
rc=0
for d in harness/props/*/; do
  id=$(basename "$d")
  extra=""
  [ "$id" = "c16" ] && extra="-race"
  (cd harness && go test -c -tags verif -vet=off $extra -o ../.build/$id.test ./props/$id/) || { echo "setup: build of $id failed" >&2; rc=1; }
done
exit $rc
