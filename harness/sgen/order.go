package sgen

import "verifharness/gen"

// OrderCases are small programs in which every child position of every composite form of the language holds a probed
// operand (pval), alone and next to a sibling that fails: the trace shows the order in which the children were
// evaluated, that each was evaluated once, and which siblings had been evaluated when the failure ended the statement.
// Text order is evaluation order: elements left to right, a map literal entry by entry (key, then value), arguments
// left to right, the subscripts of a chain and the bounds of a slice left to right.
func OrderCases() map[string][]*gen.Node {
	p := func(k int64) *gen.Node { return gen.NCall("pval", gen.NInt(k)) }
	ps := func(s string) *gen.Node { return gen.NCall("pval", gen.NStr(s)) }
	fail := func() *gen.Node { return gen.NBin("/", p(1), p(0)) }
	id := gen.NIdent
	setup := func() []*gen.Node {
		return []*gen.Node{gen.NSet("a", gen.NList(gen.NList(gen.NInt(1), gen.NInt(2)), gen.NList(gen.NInt(3), gen.NInt(4)))), gen.NSet("l", gen.NList(gen.NInt(1), gen.NInt(2), gen.NInt(3), gen.NInt(4))),
			gen.NSet("m", gen.NMap(gen.NStr("k"), gen.NInt(1), gen.NStr("j"), gen.NMap(gen.NStr("i"), gen.NInt(2))))}
	}
	show := func(e *gen.Node) []*gen.Node {
		return append(setup(), gen.NSet("r", e), gen.NCall("probe", gen.NStr("r"), id("r")), gen.NCall("probe", gen.NStr("state"), id("a"), id("l"), id("m")))
	}
	stmt := func(s ...*gen.Node) []*gen.Node {
		return append(append(setup(), s...), gen.NCall("probe", gen.NStr("state"), id("a"), id("l"), id("m")))
	}
	out := map[string][]*gen.Node{
		"list":                 show(gen.NList(p(1), p(2), p(3))),
		"list/fail-middle":     show(gen.NList(p(1), fail(), p(3))),
		"list/nested":          show(gen.NList(p(1), gen.NList(p(2), gen.NMap(ps("k"), p(3))), p(4))),
		"map":                  show(gen.NMap(ps("a"), p(1), ps("b"), p(2))),
		"map/three":            show(gen.NMap(ps("a"), p(1), ps("b"), p(2), ps("c"), p(3))),
		"map/literal-key-first": show(gen.NMap(gen.NStr("x"), p(1), ps("k"), p(2))),
		"map/fail-value-first": show(gen.NMap(gen.NStr("a"), fail(), ps("b"), p(2))),
		"map/fail-value-last":  show(gen.NMap(ps("a"), p(1), ps("b"), fail())),
		"map/bad-key-second":   show(gen.NMap(ps("a"), p(1), p(5), p(2), ps("c"), p(3))),
		"map/bad-key-first":    show(gen.NMap(p(5), p(1), ps("b"), p(2))),
		"map/fail-key-second":  show(gen.NMap(ps("a"), p(1), gen.NBin("+", ps("b"), fail()), p(2))),
		"map/nested-values":    show(gen.NMap(ps("a"), gen.NMap(ps("b"), p(1)), ps("c"), gen.NList(p(2)))),
		"map/same-key-twice":   show(gen.NMap(ps("a"), p(1), ps("a"), p(2))),
		"args":                 stmt(gen.NCall("probe", gen.NStr("x"), p(1), p(2), p(3))),
		"args/fail-middle":     stmt(gen.NCall("probe", gen.NStr("x"), p(1), fail(), p(3))),
		"args/nested-calls":    stmt(gen.NCall("probe", gen.NStr("x"), gen.NCall("pval", p(1)), gen.NCall("len", gen.NList(p(2), p(3))))),
		"index":                show(gen.NIndex(id("a"), p(0), p(1))),
		"index/bad-first":      show(gen.NIndex(id("a"), p(9), p(1))),
		"index/fail-first":     show(gen.NIndex(id("a"), fail(), p(1))),
		"index/map-path":       show(gen.NIndex(id("m"), ps("j"), ps("i"))),
		"slice":                show(gen.NSlice(id("l"), p(0), p(3), p(2), true)),
		"slice/fail-start":     show(gen.NSlice(id("l"), fail(), p(3), p(2), true)),
		"slice/fail-end":       show(gen.NSlice(id("l"), p(0), fail(), p(2), true)),
		"slice/zero-step":      show(gen.NSlice(id("l"), p(0), p(3), p(0), true)),
		"slice/of-call":        show(gen.NSlice(gen.NCall("pval", gen.NList(p(1), p(2))), p(0), p(1), nil, false)),
		"in/list":              show(gen.NBin("in", p(2), gen.NList(p(1), p(2), p(3)))),
		"in/map":               show(gen.NBin("in", ps("a"), gen.NMap(ps("a"), p(1)))),
		"in/fail-right":        show(gen.NBin("in", p(2), gen.NList(p(1), fail()))),
		"logic":                show(gen.NBin("||", gen.NBin("&&", gen.NCall("pval", gen.NBool(true)), gen.NCall("pval", gen.NBool(false))), gen.NCall("pval", gen.NBool(true)))),
		"arith/three":          show(gen.NBin("+", gen.NBin("*", p(2), p(3)), gen.NBin("-", p(4), p(1)))),
		"compare/chain-parts":  show(gen.NBin("==", gen.NBin("+", p(1), p(2)), gen.NBin("+", p(2), p(1)))),
	}
	return out
}
