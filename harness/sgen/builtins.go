package sgen

import (
	"pgregory.net/rapid"
	"verifharness/gen"
)

// KeyPool are the keys builtin calls address: they overlap the variable pool and the generated points.
var KeyPool = []string{"a", "b", "k1", "message", "t1", "f1", "x y", "nokey"}

// KeyArg draws a key argument in one of the shapes the checkers accept:
// identifier, back-quoted identifier, attribute expression, string literal, `_`.
func (g *G) KeyArg() *gen.Node {
	k := KeyPool[g.n("key", 0, len(KeyPool)-1)]
	switch g.n("keyshape", 0, 9) {
	case 0, 1, 2, 3:
		g.Feat["key/ident"] = true
		return gen.NIdent(k)
	case 4, 5:
		g.Feat["key/string"] = true
		return gen.NStr(k)
	case 6:
		g.Feat["key/underscore"] = true
		return gen.NIdent("_")
	case 7:
		g.Feat["key/attr"] = true
		return gen.NAttr(gen.NIdent(k), gen.NIdent("sub"))
	case 8:
		g.Feat["key/attr-index"] = true
		return gen.NAttr(gen.NIdent(k), gen.NIndex(gen.NIdent("arr"), gen.NInt(0)))
	default:
		g.Feat["key/ident"] = true
		return gen.NIdent(k)
	}
}

var grokPatterns = []string{"%{INT:n}", "%{WORD:w} %{INT:num:int}", "%{NUMBER:f:float}", "%{GREEDYDATA:rest}", "%{IP:ip}", "(?P<x>a+)b", "%{DATA:d:bool}", "%{NOTSPACE:s:str} %{NOTSPACE}", "(?:%{INT:code:int} )?%{WORD:w}", "%{WORD:verb} (?:%{NUMBER:bytes:float}|-)", "%{WORD:a}(?: %{WORD:b})?"}
var formats = []string{"%v", "%d-%s", "%s", "%5.2f", "%%", "%v %v %v", "%d", "%q", "%x", "plain", "%!", "%[3]v"}

// BuiltinCall draws a call to one of the builtins in an argument shape its checker accepts.
func (g *G) BuiltinCall(d int) *gen.Node {
	val := func() *gen.Node { return g.ExprOf(TAny, 2) }
	lit := func(pool []string) *gen.Node { return gen.NStr(pool[g.n("lit", 0, len(pool)-1)]) }
	opt := func() bool { return rapid.Bool().Draw(g.T, "optional") }
	names := []string{"add_key", "add_key1", "get_key", "set_tag", "drop_key", "rename", "cast", "set_measurement", "len", "load_json",
		"strfmt", "printf", "trim", "uppercase", "url_decode", "sql_cover", "replace", "grok", "xml", "datetime", "default_time", "add_pattern"}
	name := names[g.n("builtin", 0, len(names)-1)]
	g.Feat["builtin/"+name] = true
	switch name {
	case "add_key":
		return gen.NCall("add_key", g.KeyArg(), val())
	case "add_key1":
		return gen.NCall("add_key", g.KeyArg())
	case "get_key":
		return gen.NSet(g.Names[g.n("gk", 0, len(g.Names)-1)], gen.NCall("get_key", g.KeyArg()))
	case "set_tag":
		if opt() {
			switch g.n("tagval", 0, 2) {
			case 0:
				return gen.NCall("set_tag", g.KeyArg(), g.StrLit())
			case 1:
				return gen.NCall("set_tag", g.KeyArg(), gen.NIdent(KeyPool[g.n("tv", 0, len(KeyPool)-1)]))
			default:
				return gen.NCall("set_tag", g.KeyArg(), gen.NAttr(gen.NIdent("a"), gen.NIdent("b")))
			}
		}
		return gen.NCall("set_tag", g.KeyArg())
	case "drop_key":
		return gen.NCall("drop_key", g.KeyArg())
	case "rename":
		old := gen.NIdent(KeyPool[g.n("old", 0, len(KeyPool)-1)])
		if g.pct("renattr", 15) {
			return gen.NCall("rename", g.KeyArg(), gen.NAttr(old, gen.NIdent("z")))
		}
		return gen.NCall("rename", g.KeyArg(), old)
	case "cast":
		return gen.NCall("cast", g.KeyArg(), lit([]string{"bool", "int", "float", "str"}))
	case "set_measurement":
		if opt() {
			return gen.NCall("set_measurement", g.KeyArg(), gen.NBool(rapid.Bool().Draw(g.T, "del")))
		}
		return gen.NCall("set_measurement", g.KeyArg())
	case "len":
		return gen.NSet("n", gen.NCall("len", val()))
	case "load_json":
		if g.pct("jsonlit", 60) {
			return gen.NSet(g.Names[g.n("lj", 0, len(g.Names)-1)], gen.NCall("load_json", lit([]string{`{"a":[1,2]}`, `[1,"x",null]`, `{bad`, `"s"`, `1e400`, ``, `{"a":{"b":{"c":[[]]}}}`})))
		}
		return gen.NSet(g.Names[g.n("lj", 0, len(g.Names)-1)], gen.NCall("load_json", val()))
	case "strfmt":
		args := []*gen.Node{g.KeyArg(), lit(formats)}
		for i, n := 0, g.n("nfmt", 0, 3); i < n; i++ {
			args = append(args, val())
		}
		return gen.NCall("strfmt", args...)
	case "printf":
		var first *gen.Node
		if g.pct("pfmtlit", 50) {
			first = lit([]string{"%v", "", "x%dx", "%s%s"})
		} else {
			first = g.KeyArg()
		}
		args := []*gen.Node{first}
		for i, n := 0, g.n("npf", 0, 2); i < n; i++ {
			args = append(args, val())
		}
		return gen.NCall("printf", args...)
	case "trim":
		if opt() {
			return gen.NCall("trim", g.KeyArg(), lit([]string{"", " ", "ab", "é", "\x00"}))
		}
		return gen.NCall("trim", g.KeyArg())
	case "uppercase", "url_decode", "sql_cover":
		return gen.NCall(name, g.KeyArg())
	case "replace":
		return gen.NCall("replace", g.KeyArg(), lit([]string{"a", "(", "[0-9]+", "", "^", "(a)(b)", "\\"}), lit([]string{"", "X", "$1", "${2}", "é"}))
	case "grok":
		if opt() {
			return gen.NCall("grok", g.KeyArg(), lit(grokPatterns), gen.NBool(rapid.Bool().Draw(g.T, "trimsp")))
		}
		if g.pct("grokval", 30) {
			return gen.NSet("ok", gen.NCall("grok", g.KeyArg(), lit(grokPatterns)))
		}
		return gen.NCall("grok", g.KeyArg(), lit(grokPatterns))
	case "xml":
		return gen.NCall("xml", g.KeyArg(), lit(XPaths), g.KeyArg())
	case "datetime":
		return gen.NCall("datetime", g.KeyArg(), lit([]string{"s", "ms", "us", "", "S", "MS", "Ms", "mS", "ns"}), lit([]string{"RFC3339", "ANSIC", "Kitchen", "nope", "", "rfc3339", "RFC822Z", "StampNano"}))
	case "default_time":
		if opt() {
			return gen.NCall("default_time", g.KeyArg(), lit(ZoneArgs))
		}
		return gen.NCall("default_time", g.KeyArg())
	default:
		return gen.NCall("add_pattern", lit([]string{"mypat", "p2"}), lit([]string{"[a-z]+", "%{INT}", "\\d{2}"}))
	}
}

// ValuelessExpr draws a construct that yields no value (v1: attribute expression, object-less index, call of a function returning nothing).
func (g *G) ValuelessExpr() *gen.Node {
	switch g.n("voidkind", 0, 3) {
	case 0:
		g.Feat["void/attr"] = true
		return gen.NAttr(gen.NIdent("a"), gen.NIdent("b"))
	case 1:
		g.Feat["void/objectless-index"] = true
		return gen.NIndex(nil, gen.NInt(int64(g.n("oi", -1, 2))))
	case 2:
		g.Feat["void/pvoid"] = true
		return gen.NCall("pvoid")
	default:
		g.Feat["void/attr-index"] = true
		return gen.NAttr(gen.NIdent("a"), gen.NIndex(gen.NIdent("b"), gen.NInt(0)))
	}
}

// ZoneArgs are spellings of the zone argument of default_time(): documented offsets, names, and every degenerate or
// near-miss shape (a bare sign, zero-padded hours, other letter cases, blanks, path-like names, long text).
var ZoneArgs = []string{"+8", "-3:30", "Asia/Shanghai", "UTC", "CST", "+99", "Nowhere/City", "",
	"+", "-", "+0", "-0", "+00", "+08", "-08:00", "+8:", "+:30", "+8:00", "+5:45", "+12:45", "+14", "-11", "-12", "+15", "+9", "-9:30",
	"utc", "Utc", "asia/shanghai", "ASIA/TOKYO", "Asia/Tokyo", "asia/tokyo", "Local", "local", "Z", "GMT", "EST", "cst", "Europe/London", "europe/london",
	"Etc/GMT-8", "Etc/GMT+5", "GMT+0", "GMT-0", "America/Port-au-Prince", "America/Blanc-Sablon", "Asia/Ust-Nera", "Etc/GMT-14", "Etc/GMT+12", "EST5EDT", "Nowhere/Hyphen-City", "UTC+8", "W-SU",
	" +8", "+8 ", "+\u0668", "\x00", "../UTC", "Asia/Shanghai/", "/", ".", ":", "+-8", "America/Argentina/Buenos_Aires",
	"Asia/ShanghaiAsia/ShanghaiAsia/ShanghaiAsia/ShanghaiAsia/ShanghaiAsia/ShanghaiAsia/ShanghaiAsia/ShanghaiAsia/ShanghaiAsia/ShanghaiAsia/ShanghaiAsia/ShanghaiAsia/ShanghaiAsia/ShanghaiAsia/ShanghaiAsia/ShanghaiAsia/ShanghaiAsia/ShanghaiAsia/Shanghai"}

// XPaths are XPath 1.0 expressions of every form: location paths over every axis, predicates, node tests, unions,
// and expressions that do not select nodes at all (functions, literals, arithmetic, comparisons), plus malformed ones.
var XPaths = []string{"/a", "/a/b", "//b", "//b/@id", "/a/@id", "//item[1]", "/a/text()", "//c/text()", "//*[@id='1']", "/nosuch", "//b[2]/c", "(", "", "/a[", "count(//b)", "//b | //c", "/a/b/c/item",
	"true()", "false()", "concat('a','b')", "string(/a)", "number('1')", "'lit'", "1", "1 + 1", "1 div 0", "not(/a)", "boolean(/a)", "/a = 'x'", "name(/a)", "local-name(//b)", "last()", "position()", "string-length('abc')", "normalize-space(' a ')", "sum(//b)", "floor(1.5)", "substring('abc', 2)", "contains('ab','a')", "starts-with('ab','a')", "translate('a','a','b')",
	".", "..", "/", "//", "*", "//*", "@*", "//@*", "/a/*[last()]", "/a/b[position()=1]", "//b[@id]", "//b[not(@id)]", "/a/b[c]", "//b[c='t']", "//text()", "//comment()", "//node()", "//processing-instruction()",
	"ancestor::a", "//c/ancestor::a", "//b/following-sibling::b", "//b/preceding-sibling::*", "//c/parent::b", "/a/descendant::c", "/a/descendant-or-self::*", "//b/self::b", "/a/child::b", "//b/attribute::id", "//b/following::*", "//c/preceding::*", "namespace::*",
	"(/a/b)[1]", "(//b)[last()]", "/a/b[1]/c[1]", "//b[1][@id='1']", "/a/b | /a/@id", "//b[count(c) > 0]", "//*[name()='b']", "//b[string-length(@id) > 0]", "id('1')", "$v", "/a/b[", "//b[@id=", "a b", "/a//", "///a", "/a/b[0]", "/a/b[-1]", "/a/b[1.5]", "/a/b['x']", "//b[true()]", "//b[false()]", "/a/b[1 div 0]", "concat()", "nosuchfn()", "count()", "/a/nosuch::b", "\x00", "é", "//é", "/a/b/text()[1]", "string()", "true", "/a[b and not(c)]", "//b[. = 't']"}
