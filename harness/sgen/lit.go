// Package sgen generates semantically meaningful programs (typed expression
// trees, terminating control flow, aliasing workloads) for the model-based checks.
package sgen

import (
	"fmt"
	"math"
	"sort"

	"verifharness/gen"
)

// Lit spells a Go value (nil, bool, int64, float64, string, []any, map[string]any) as an expression.
func Lit(v any) *gen.Node {
	switch x := v.(type) {
	case nil:
		return gen.NNil()
	case bool:
		return gen.NBool(x)
	case int64:
		if x == math.MinInt64 {
			return gen.NParen(gen.NBin("-", gen.NInt(-math.MaxInt64), gen.NInt(1)))
		}
		return gen.NInt(x)
	case int:
		return Lit(int64(x))
	case float64:
		return gen.NFloat(x)
	case string:
		return gen.NStr(x)
	case []any:
		l := gen.NList()
		for _, e := range x {
			l.Args = append(l.Args, Lit(e))
		}
		return l
	case map[string]any:
		m := gen.NMap()
		keys := make([]string, 0, len(x))
		for k := range x {
			keys = append(keys, k)
		}
		sort.Strings(keys)
		for _, k := range keys {
			m.Args = append(m.Args, gen.NStr(k), Lit(x[k]))
		}
		return m
	}
	panic("sgen.Lit: unsupported value")
}

// OperandValues are the 34 operand values of C02's exhaustive table.
func OperandValues() []any {
	return []any{
		nil, true, false,
		int64(0), int64(1), int64(-1), int64(2), int64(-2), int64(7),
		int64(1) << 53, -(int64(1) << 53), int64(1)<<53 + 1, -(int64(1)<<53 + 1), int64(math.MaxInt64), int64(math.MinInt64),
		0.0, math.Copysign(0, -1), 0.5, -2.5, float64(int64(1) << 53), 1e308, math.Inf(1), math.NaN(), 9223372036854775808.0, -9223372036854775808.0,
		5e-324, -1e-310, 2.2250738585072014e-308, // subnormals and the smallest normal float: non-zero divisors
		"", "a", "ab", "1", "a\U0001F600",
		[]any{}, []any{int64(1)}, []any{1.0}, []any{"a"}, []any{nil},
		map[string]any{}, map[string]any{"a": int64(1)}, map[string]any{"a": nil}, map[string]any{"b": int64(7)}, map[string]any{"a": nil, "k": int64(1)}, map[string]any{"b": nil, "k": int64(1)},
		[]any{map[string]any{"a": nil}}, []any{map[string]any{"b": int64(0)}},
	}
}

// Class names the operand class of a value (for non-triviality keys).
func Class(v any) string {
	switch x := v.(type) {
	case nil:
		return "nil"
	case bool:
		return "bool"
	case int64:
		switch {
		case x == 0:
			return "int0"
		case x == math.MaxInt64 || x == math.MinInt64:
			return "int-extreme"
		case x >= 1<<53 || x <= -(1<<53):
			return "int-2^53"
		}
		return "int"
	case float64:
		switch {
		case math.IsNaN(x):
			return "nan"
		case math.IsInf(x, 0):
			return "inf"
		case x == 0:
			return "float0"
		case x >= 1<<53:
			return "float-huge"
		}
		return "float"
	case string:
		if x == "" {
			return "str-empty"
		}
		for _, r := range x {
			if r > 0xFFFF {
				return "str-astral"
			}
		}
		return "str"
	case []any:
		if len(x) == 0 {
			return "list-empty"
		}
		if _, ok := x[0].(map[string]any); ok {
			return "list-of-map"
		}
		return "list"
	case map[string]any:
		if len(x) == 0 {
			return "map-empty"
		}
		for _, v := range x {
			if v == nil {
				return fmt.Sprintf("map-nil-valued-%d", len(x))
			}
		}
		return "map"
	}
	return "?"
}

// IsScalar reports whether v can be a point field.
func IsScalar(v any) bool {
	switch v.(type) {
	case nil, bool, int64, float64, string:
		return true
	}
	return false
}

// SharedValuePrograms builds, for every (leaf kind, shape), the statements that make `v` a finite value in which one
// collection `leaf` is reachable along two paths (a DAG, not a cycle); use(v) is appended by the caller.
func SharedValuePrograms() []struct {
	Name string
	Make func() []*gen.Node
} {
	id := gen.NIdent
	i := gen.NInt
	s := gen.NStr
	leaves := []struct {
		name string
		mk   func() *gen.Node
	}{
		{"list", func() *gen.Node { return gen.NList(i(1), i(2)) }},
		{"map", func() *gen.Node { return gen.NMap(s("x"), i(1)) }},
		{"nested", func() *gen.Node { return gen.NList(gen.NMap(s("k"), gen.NList(i(7)))) }},
		{"empty-list", func() *gen.Node { return gen.NList() }},
		{"empty-map", func() *gen.Node { return gen.NMap() }},
	}
	shapes := []struct {
		name string
		mk   func() []*gen.Node
	}{
		{"[a,a]", func() []*gen.Node { return []*gen.Node{gen.NSet("v", gen.NList(id("leaf"), id("leaf")))} }},
		{"{x:a,y:a}", func() []*gen.Node {
			return []*gen.Node{gen.NSet("v", gen.NMap(s("x"), id("leaf"), s("y"), id("leaf")))}
		}},
		{"[mid,[a]]", func() []*gen.Node {
			return []*gen.Node{gen.NSet("mid", gen.NMap(s("l"), id("leaf"))), gen.NSet("v", gen.NList(id("mid"), gen.NList(id("leaf"))))}
		}},
		{"[a,[a,[a]]]", func() []*gen.Node {
			return []*gen.Node{gen.NSet("v", gen.NList(id("leaf"), gen.NList(id("leaf"), gen.NList(id("leaf")))))}
		}},
		{"{p:a,q:[a]}", func() []*gen.Node {
			return []*gen.Node{gen.NSet("v", gen.NMap(s("p"), id("leaf"), s("q"), gen.NList(id("leaf"))))}
		}},
		{"by-writes", func() []*gen.Node {
			return []*gen.Node{gen.NSet("v", gen.NList(i(0), i(0), i(0))), gen.NAssign("=", []*gen.Node{gen.NIndex(id("v"), i(0))}, []*gen.Node{id("leaf")}), gen.NAssign("=", []*gen.Node{gen.NIndex(id("v"), i(2))}, []*gen.Node{id("leaf")})}
		}},
		{"three-levels", func() []*gen.Node {
			return []*gen.Node{gen.NSet("m1", gen.NList(id("leaf"))), gen.NSet("m2", gen.NMap(s("a"), id("m1"), s("b"), id("m1"))), gen.NSet("v", gen.NList(id("m2"), id("m1"), id("leaf")))}
		}},
	}
	var out []struct {
		Name string
		Make func() []*gen.Node
	}
	for _, l := range leaves {
		for _, sh := range shapes {
			l, sh := l, sh
			out = append(out, struct {
				Name string
				Make func() []*gen.Node
			}{l.name + "/" + sh.name, func() []*gen.Node { return append([]*gen.Node{gen.NSet("leaf", l.mk())}, sh.mk()...) }})
		}
	}
	return out
}
