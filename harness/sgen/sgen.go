package sgen

import (
	"fmt"
	"math"

	"pgregory.net/rapid"
	"verifharness/gen"
)

// Ty is the static type guess the generator tracks for names.
type Ty int

const (
	TAny Ty = iota
	TNil
	TBool
	TInt
	TFloat
	TStr
	TList
	TMap
)

var scalarTys = []Ty{TNil, TBool, TInt, TFloat, TStr}
var allTys = []Ty{TNil, TBool, TInt, TFloat, TStr, TList, TMap}

// G is a generator instance for one case.
type G struct {
	T           *rapid.T
	V2          bool
	Hostile     int  // 0..100: probability (percent) of deliberately ill-typed / extreme choices
	UniqueOrder bool // never loop over something that may be a map of two or more keys (for oracles that compare two executions verbatim)
	Probes      bool // wrap operands in pval() and insert probe() statements
	Names       []string
	Env         map[string]Ty // static guesses for variables and point keys
	Defined     map[string]bool
	PointKeys   map[string]bool // names that are keys of the input point (readable without a variable)
	Loops       bool
	Exit        bool // allow exit()
	AddKey      bool
	GetKey      bool
	Slices      bool
	EmptyBlocks bool // allow empty { } blocks in branches and loop bodies
	MaxDepth    int
	counter     int
	loopVars    int
	InLoop      int
	Feat        map[string]bool // features used (for evidence / non-triviality)
	Calls       []func(g *G, d int) *gen.Node
}

func New(t *rapid.T) *G {
	return &G{T: t, Names: []string{"a", "b", "c", "k1"}, Env: map[string]Ty{}, Defined: map[string]bool{}, MaxDepth: 3, Feat: map[string]bool{}}
}

func (g *G) n(label string, lo, hi int) int { return rapid.IntRange(lo, hi).Draw(g.T, label) }
func (g *G) pct(label string, p int) bool   { return p > 0 && rapid.IntRange(0, 99).Draw(g.T, label) < p }

var smallInts = []int64{0, 1, 2, 3, 5, 7, -1, -2, 10}
var hostileInts = []int64{0, 1, -1, 2, -2, 1 << 31, -(1 << 31), 1 << 53, 1<<53 + 1, -(1<<53 + 1), math.MaxInt64, math.MaxInt64 - 1, math.MinInt64}
var floats = []float64{0.5, 1.5, -2.5, 2.0, 0.0, 3.25}
var hostileFloats = []float64{0.0, math.Copysign(0, -1), 1e308, -1e308, math.Inf(1), math.NaN(), float64(int64(1) << 53), 5e-324}
var strs = []string{"", "a", "ab", "abc", "1", "é", "aé注", "x y", "a\U0001F600b", "\U00020000\U0010FFFF", "\U00040000x", "<b>7</b> & \"q\"", "a<b>c&d"}

func (g *G) IntLit() *gen.Node {
	if g.pct("hint", g.Hostile) {
		return Lit(hostileInts[g.n("hi", 0, len(hostileInts)-1)])
	}
	return Lit(smallInts[g.n("si", 0, len(smallInts)-1)])
}

func (g *G) FloatLit() *gen.Node {
	if g.pct("hfloat", g.Hostile) {
		return Lit(hostileFloats[g.n("hf", 0, len(hostileFloats)-1)])
	}
	return Lit(floats[g.n("sf", 0, len(floats)-1)])
}

func (g *G) StrLit() *gen.Node { return gen.NStr(strs[g.n("str", 0, len(strs)-1)]) }

// Scalar literal of a type.
func (g *G) LitOf(ty Ty, d int) *gen.Node {
	switch ty {
	case TNil:
		return gen.NNil()
	case TBool:
		return gen.NBool(rapid.Bool().Draw(g.T, "b"))
	case TInt:
		return g.IntLit()
	case TFloat:
		return g.FloatLit()
	case TStr:
		return g.StrLit()
	case TList:
		n := g.n("nl", 0, 3)
		l := gen.NList()
		for i := 0; i < n; i++ {
			l.Args = append(l.Args, g.elem(d-1))
		}
		return l
	case TMap:
		n := g.n("nm", 0, 3)
		m := gen.NMap()
		used := map[string]bool{}
		for i := 0; i < n; i++ {
			k := []string{"k", "a", "b", "é"}[g.n("mk", 0, 3)]
			if used[k] {
				continue
			}
			used[k] = true
			m.Args = append(m.Args, gen.NStr(k), g.elem(d-1))
		}
		return m
	}
	return g.LitOf(allTys[g.n("anyty", 0, len(allTys)-1)], d)
}

func (g *G) elem(d int) *gen.Node {
	if d > 0 && g.pct("nestcoll", 25) {
		return g.LitOf([]Ty{TList, TMap}[g.n("ck", 0, 1)], d)
	}
	return g.LitOf(scalarTys[g.n("ety", 0, len(scalarTys)-1)], 0)
}

func (g *G) nameOf(ty Ty) (string, bool) {
	var c []string
	for _, n := range g.Names {
		if t, ok := g.Env[n]; ok && (t == ty || ty == TAny) {
			c = append(c, n)
		}
	}
	if len(c) == 0 {
		return "", false
	}
	return c[g.n("nm", 0, len(c)-1)], true
}

func (g *G) wrap(e *gen.Node) *gen.Node {
	if g.Probes && g.pct("pval", 35) {
		g.Feat["pval"] = true
		return gen.NCall("pval", e)
	}
	return e
}

// ExprOf generates an expression that (if the static guesses hold) has type ty.
func (g *G) ExprOf(ty Ty, d int) *gen.Node {
	if g.pct("illtyped", g.Hostile/3) {
		g.Feat["ill-typed"] = true
		ty = allTys[g.n("ity", 0, len(allTys)-1)]
	}
	if d <= 0 {
		return g.leaf(ty)
	}
	switch ty {
	case TInt, TFloat:
		switch g.n("numexpr", 0, 9) {
		case 0, 1:
			return g.leaf(ty)
		case 2, 3, 4, 5:
			op := []string{"+", "-", "*", "/", "%"}[g.n("aop", 0, 4)]
			if ty == TFloat && op == "%" {
				op = "*"
			}
			l, r := g.wrap(g.ExprOf(ty, d-1)), g.wrap(g.ExprOf(g.numTy(ty), d-1))
			if op == "/" || op == "%" {
				r = g.nonZeroLit(r)
			}
			g.Feat["arith"] = true
			return gen.NBin(op, l, r)
		case 6:
			return gen.NUnary([]string{"-", "+"}[g.n("uop", 0, 1)], g.wrap(g.ExprOf(ty, d-1)))
		case 7:
			if ty == TInt {
				g.Feat["len"] = true
				return gen.NCall("len", g.ExprOf([]Ty{TStr, TList, TMap}[g.n("lenof", 0, 2)], d-1))
			}
			return g.leaf(ty)
		case 8:
			return g.indexInto(ty, d)
		default:
			return gen.NParen(g.ExprOf(ty, d-1))
		}
	case TStr:
		switch g.n("strexpr", 0, 5) {
		case 0, 1:
			return g.leaf(ty)
		case 2, 3:
			g.Feat["concat"] = true
			return gen.NBin("+", g.wrap(g.ExprOf(TStr, d-1)), g.wrap(g.ExprOf(TStr, d-1)))
		case 4:
			if g.Slices {
				return g.sliceOf(TStr, d)
			}
			return g.leaf(ty)
		default:
			return g.indexInto(ty, d)
		}
	case TBool:
		switch g.n("boolexpr", 0, 9) {
		case 0:
			return g.leaf(ty)
		case 1, 2, 3:
			op := []string{"==", "!=", "<", "<=", ">", ">="}[g.n("cop", 0, 5)]
			t := []Ty{TInt, TInt, TFloat}[g.n("cty", 0, 2)]
			if op == "==" || op == "!=" {
				t = allTys[g.n("eqty", 0, len(allTys)-1)]
			}
			g.Feat["compare"] = true
			return gen.NBin(op, g.wrap(g.ExprOf(t, d-1)), g.wrap(g.ExprOf(g.cmpPartner(t), d-1)))
		case 4, 5:
			g.Feat["logic"] = true
			return gen.NBin([]string{"&&", "||"}[g.n("lop", 0, 1)], g.wrap(g.ExprOf(TBool, d-1)), g.wrap(g.ExprOf(TBool, d-1)))
		case 6:
			return gen.NUnary("!", g.wrap(g.ExprOf(TAny, d-1)))
		case 7, 8:
			g.Feat["in"] = true
			switch g.n("inkind", 0, 2) {
			case 0:
				return gen.NBin("in", g.wrap(g.ExprOf(TStr, d-1)), g.wrap(g.ExprOf(TStr, d-1)))
			case 1:
				return gen.NBin("in", g.wrap(g.ExprOf(TStr, d-1)), g.wrap(g.ExprOf(TMap, d-1)))
			default:
				return gen.NBin("in", g.wrap(g.ExprOf(TAny, d-1)), g.wrap(g.ExprOf(TList, d-1)))
			}
		default:
			return gen.NParen(g.ExprOf(TBool, d-1))
		}
	case TList:
		switch g.n("listexpr", 0, 4) {
		case 0, 1:
			return g.leaf(ty)
		case 2:
			if g.Slices {
				return g.sliceOf(TList, d)
			}
			return g.leaf(ty)
		default:
			l := gen.NList()
			for i, n := 0, g.n("nle", 0, 3); i < n; i++ {
				l.Args = append(l.Args, g.wrap(g.ExprOf(TAny, d-1)))
			}
			return l
		}
	case TMap:
		if g.pct("mapexpr", 50) {
			return g.leaf(ty)
		}
		m := gen.NMap()
		used := map[string]bool{}
		for i, n := 0, g.n("nme", 0, 2); i < n; i++ {
			k := []string{"k", "a", "b"}[g.n("mk", 0, 2)]
			if used[k] {
				continue
			}
			used[k] = true
			var kn *gen.Node = gen.NStr(k)
			if g.pct("computedkey", 25) {
				// a key that is computed: a concatenation of strings, a parenthesised string
				g.Feat["computed-map-key"] = true
				if g.n("keyform", 0, 1) == 0 {
					kn = gen.NBin("+", gen.NStr(k), gen.NStr("_id"))
				} else {
					kn = gen.NParen(gen.NStr(k))
				}
			}
			m.Args = append(m.Args, kn, g.wrap(g.ExprOf(TAny, d-1)))
		}
		return m
	case TNil:
		return g.leaf(ty)
	}
	return g.ExprOf(allTys[g.n("anyexpr", 0, len(allTys)-1)], d)
}

func (g *G) numTy(ty Ty) Ty {
	if g.pct("mixnum", 20) {
		if ty == TInt {
			return TFloat
		}
		return TInt
	}
	return ty
}

func (g *G) cmpPartner(t Ty) Ty {
	if g.pct("cmppartner", 75) {
		if t == TInt && g.pct("intfloat", 25) {
			return TFloat
		}
		return t
	}
	return allTys[g.n("pty", 0, len(allTys)-1)]
}

// nonZeroLit replaces a literal zero divisor (rejected by the parser) by a variable-free non-literal zero or a non-zero literal.
func (g *G) nonZeroLit(r *gen.Node) *gen.Node {
	f := gen.Fold(r)
	isZero := (f.Kind == gen.Int && f.I == 0) || (f.Kind == gen.Float && f.F == 0)
	if !isZero {
		return r
	}
	if g.pct("zerodiv", g.Hostile) {
		g.Feat["zero-divisor"] = true
		return gen.NParen(gen.NBin("-", gen.NInt(1), gen.NInt(1))) // a run-time zero
	}
	return gen.NInt(2)
}

func (g *G) leaf(ty Ty) *gen.Node {
	if ty == TAny {
		ty = allTys[g.n("leafty", 0, len(allTys)-1)]
	}
	if n, ok := g.nameOf(ty); ok && g.pct("usevar", 55) {
		g.Feat["var-read"] = true
		return gen.NIdent(n)
	}
	if g.pct("undefname", g.Hostile/4) && !g.V2 {
		return gen.NIdent("undefined_name")
	}
	return g.LitOf(ty, 1)
}

// indexInto reads an element of a list/map variable (falls back to a leaf).
func (g *G) indexInto(ty Ty, d int) *gen.Node {
	if n, ok := g.nameOf(TList); ok && g.pct("idxlist", 50) {
		g.Feat["index"] = true
		return gen.NIndex(gen.NIdent(n), g.indexKey(TInt, d))
	}
	if n, ok := g.nameOf(TMap); ok {
		g.Feat["index"] = true
		return gen.NIndex(gen.NIdent(n), g.indexKey(TStr, d))
	}
	return g.leaf(ty)
}

func (g *G) indexKey(ty Ty, d int) *gen.Node {
	if g.pct("badkey", g.Hostile/2) {
		g.Feat["bad-index-key"] = true
		return g.ExprOf(TAny, 0)
	}
	if ty == TInt {
		return Lit(int64(g.n("ix", -4, 4)))
	}
	return gen.NStr([]string{"k", "a", "b", "zz"}[g.n("mkey", 0, 3)])
}

func (g *G) sliceBound() *gen.Node {
	switch g.n("bound", 0, 9) {
	case 0, 1, 2, 3:
		return nil
	case 4:
		if g.pct("hbound", g.Hostile) {
			return Lit([]int64{math.MinInt64 + 1, math.MaxInt64, math.MaxInt64 - 1, math.MinInt64, 1 << 40}[g.n("xb", 0, 4)])
		}
		fallthrough
	default:
		return Lit(int64(g.n("b", -6, 6)))
	}
}

func (g *G) sliceOf(ty Ty, d int) *gen.Node {
	g.Feat["slice"] = true
	var obj *gen.Node
	if n, ok := g.nameOf(ty); ok && g.pct("slicevar", 60) {
		obj = gen.NIdent(n)
	} else if ty == TStr {
		obj = g.StrLit()
	} else {
		obj = g.LitOf(TList, 1)
	}
	lo, hi, st := g.sliceBound(), g.sliceBound(), g.sliceBound()
	if st != nil && gen.Fold(st).I == 0 && !g.pct("zerostep", g.Hostile) {
		st = gen.NInt(1)
	}
	return gen.NSlice(obj, lo, hi, st, st != nil || g.pct("colon2", 30))
}

// ------------------------------------------------------------------ statements

func (g *G) assignStmt(d int) *gen.Node {
	name := g.Names[g.n("aname", 0, len(g.Names)-1)]
	ty := allTys[g.n("aty", 0, len(allTys)-1)]
	if g.pct("numbias", 40) {
		ty = TInt
	}
	// compound assignment to an existing numeric/string name
	if t, ok := g.Env[name]; ok && (g.Defined[name] || (g.PointKeys[name] && !g.V2)) && (t == TInt || t == TFloat || t == TStr) && g.pct("compound", 30) {
		if !g.Defined[name] {
			// no variable yet: the operand is read from the point's key, the result becomes a new variable
			g.Feat["compound-assign-on-point-key"] = true
			g.Defined[name] = true
		}
		op := []string{"+=", "-=", "*=", "/=", "%="}[g.n("cop", 0, 4)]
		if t == TStr {
			op = "+="
		}
		if t == TFloat && op == "%=" {
			op = "-="
		}
		r := g.wrap(g.ExprOf(t, d-1))
		if op == "/=" || op == "%=" {
			r = g.nonZeroLit(r)
		}
		g.Feat["compound-assign"] = true
		return gen.NAssign(op, []*gen.Node{gen.NIdent(name)}, []*gen.Node{r})
	}
	// element write
	if t, ok := g.Env[name]; ok && g.Defined[name] && (t == TList || t == TMap) && g.pct("elemwrite", 40) {
		g.Feat["index-write"] = true
		kt := TInt
		if t == TMap {
			kt = TStr
		}
		return gen.NAssign("=", []*gen.Node{gen.NIndex(gen.NIdent(name), g.indexKey(kt, d))}, []*gen.Node{g.wrap(g.ExprOf(TAny, d-1))})
	}
	e := g.wrap(g.ExprOf(ty, d))
	g.Env[name] = ty
	g.Defined[name] = true
	return gen.NAssign("=", []*gen.Node{gen.NIdent(name)}, []*gen.Node{e})
}

func (g *G) probeStmt() *gen.Node {
	g.counter++
	args := []*gen.Node{gen.NStr(fmt.Sprintf("p%d", g.counter))}
	for _, n := range g.Names {
		if g.V2 && !g.Defined[n] {
			continue
		}
		if g.pct("probevar", 60) {
			args = append(args, gen.NIdent(n))
		}
	}
	return gen.NCall("probe", args...)
}

func (g *G) cond(d int) *gen.Node {
	if g.pct("boolcond", 60) {
		return g.wrap(g.ExprOf(TBool, d))
	}
	g.Feat["truthiness-cond"] = true
	return g.wrap(g.ExprOf(allTys[g.n("condty", 0, len(allTys)-1)], d))
}

// Block generates 1..n statements.
func (g *G) Block(d, maxN int) []*gen.Node {
	n := g.n("nstmt", 1, maxN)
	if g.EmptyBlocks && g.pct("emptyblock", 12) {
		g.Feat["empty-block"] = true
		return nil
	}
	var out []*gen.Node
	// names defined inside the block vanish afterwards: restore the static env
	savedEnv, savedDef := map[string]Ty{}, map[string]bool{}
	for k, v := range g.Env {
		savedEnv[k] = v
	}
	for k, v := range g.Defined {
		savedDef[k] = v
	}
	for i := 0; i < n; i++ {
		out = append(out, g.Stmt(d)...)
	}
	for k := range g.Defined {
		if !savedDef[k] {
			delete(g.Defined, k)
			if t, ok := savedEnv[k]; ok {
				g.Env[k] = t
			} else {
				delete(g.Env, k)
			}
		}
	}
	return out
}

// Stmt generates one statement (possibly followed by a probe statement).
func (g *G) Stmt(d int) []*gen.Node {
	var s *gen.Node
	k := g.n("stmtkind", 0, 13)
	if d <= 0 && k >= 6 && k <= 10 {
		k = 0
	}
	if !g.Loops && (k == 8 || k == 9 || k == 10) {
		k = 6
	}
	switch k {
	case 0, 1, 2, 3, 4:
		s = g.assignStmt(g.MaxDepth)
	case 5:
		if g.AddKey {
			g.Feat["add_key"] = true
			key := []string{"out1", "out2", "k1", "t1"}[g.n("okey", 0, 3)]
			s = gen.NCall("add_key", gen.NIdent(key), g.wrap(g.ExprOf(TAny, g.MaxDepth-1)))
		} else {
			s = g.assignStmt(g.MaxDepth)
		}
	case 6, 7:
		g.Feat["if"] = true
		nb := g.n("nbranch", 1, 3)
		var conds []*gen.Node
		var blocks [][]*gen.Node
		for i := 0; i < nb; i++ {
			conds = append(conds, g.cond(g.MaxDepth-1))
			blocks = append(blocks, g.Block(d-1, 3))
		}
		var els []*gen.Node
		hasElse := g.pct("else", 50)
		if hasElse {
			els = g.Block(d-1, 3)
		}
		s = gen.NIf(conds, blocks, els, hasElse)
	case 8, 9:
		return g.forStmt(d)
	case 10:
		return g.forInStmt(d)
	case 11:
		if g.InLoop > 0 {
			g.Feat["break/continue"] = true
			bc := gen.NBreak()
			if g.pct("cont", 50) {
				bc = gen.NContinue()
			}
			if g.pct("guard", 75) {
				g.Feat["break/continue-under-branch"] = true
				return []*gen.Node{gen.NIf([]*gen.Node{g.cond(1)}, [][]*gen.Node{{bc}}, nil, false)}
			}
			return []*gen.Node{bc}
		}
		s = g.assignStmt(g.MaxDepth)
	case 12:
		if g.Exit && g.pct("exit", 15) {
			g.Feat["exit"] = true
			if g.pct("exitguard", 60) {
				return []*gen.Node{gen.NIf([]*gen.Node{g.cond(1)}, [][]*gen.Node{{gen.NCall("exit")}}, nil, false)}
			}
			return []*gen.Node{gen.NCall("exit")}
		}
		s = g.wrap(g.ExprOf(TAny, g.MaxDepth)) // expression statement
	default:
		if len(g.Calls) > 0 && g.pct("extra", 50) {
			s = g.Calls[g.n("extracall", 0, len(g.Calls)-1)](g, d)
		} else {
			s = g.assignStmt(g.MaxDepth)
		}
	}
	out := []*gen.Node{s}
	if g.Probes && g.pct("probeafter", 70) {
		out = append(out, g.probeStmt())
	}
	return out
}

// forStmt builds a terminating three-clause loop in one of the 8 clause shapes.
func (g *G) forStmt(d int) []*gen.Node {
	g.Feat["for"] = true
	g.loopVars++
	iv := fmt.Sprintf("i%d", g.loopVars)
	bound := int64(g.n("bound", 0, 3))
	shape := g.n("forshape", 0, 7) // bit0: init present, bit1: cond present, bit2: loop clause present
	g.Feat[fmt.Sprintf("for-shape-%d", shape)] = true
	var pre []*gen.Node
	var init, cond, loop *gen.Node
	inc := gen.NAssign("=", []*gen.Node{gen.NIdent(iv)}, []*gen.Node{gen.NBin("+", gen.NIdent(iv), gen.NInt(1))})
	if g.pct("compoundinc", 40) {
		inc = gen.NAssign("+=", []*gen.Node{gen.NIdent(iv)}, []*gen.Node{gen.NInt(1)})
	}
	if g.Probes && g.pct("observable-clause", 50) {
		// the loop clause leaves a record each time it is executed
		g.Feat["for-observable-loop-clause"] = true
		inc = gen.NAssign("=", []*gen.Node{gen.NIdent(iv)}, []*gen.Node{gen.NCall("pval", gen.NBin("+", gen.NIdent(iv), gen.NInt(1)))})
	}
	if shape&1 != 0 {
		init = gen.NSet(iv, gen.NInt(0))
	} else {
		pre = append(pre, gen.NSet(iv, gen.NInt(0)))
	}
	g.InLoop++
	var body []*gen.Node
	if shape&4 != 0 {
		loop = inc
	} else {
		body = append(body, inc) // before any continue
	}
	if shape&2 != 0 {
		cond = gen.NBin("<", gen.NIdent(iv), gen.NInt(bound))
		if g.Probes && g.pct("observable-cond", 30) {
			g.Feat["for-observable-condition"] = true
			cond = gen.NBin("<", gen.NCall("pval", gen.NIdent(iv)), gen.NInt(bound))
		}
	} else {
		limit := bound
		if shape&4 == 0 {
			limit = bound + 1 // the increment already happened
			body = append(body, gen.NIf([]*gen.Node{gen.NBin(">", gen.NIdent(iv), gen.NInt(bound))}, [][]*gen.Node{{gen.NBreak()}}, nil, false))
		} else {
			body = append(body, gen.NIf([]*gen.Node{gen.NBin(">=", gen.NIdent(iv), gen.NInt(limit))}, [][]*gen.Node{{gen.NBreak()}}, nil, false))
		}
	}
	if g.Probes {
		body = append(body, gen.NCall("probe", gen.NStr("it-"+iv), gen.NIdent(iv)))
	}
	body = append(body, g.Block(d-1, 3)...)
	g.InLoop--
	out := append(pre, gen.NFor(init, cond, loop, body))
	if g.Probes && !g.V2 {
		out = append(out, gen.NCall("probe", gen.NStr("after-"+iv), gen.NIdent(iv)))
	}
	return out
}

func (g *G) forInStmt(d int) []*gen.Node {
	g.Feat["for-in"] = true
	g.loopVars++
	var iter *gen.Node
	var kind string
	switch g.n("iterkind", 0, 5) {
	case 0, 1:
		iter, kind = g.LitOf(TList, 1), "list"
	case 2:
		iter, kind = g.StrLit(), "string"
	case 3:
		if n, ok := g.nameOf(TList); ok {
			iter, kind = gen.NIdent(n), "list-var"
		} else {
			iter, kind = g.LitOf(TList, 1), "list"
		}
	case 4:
		if n, ok := g.nameOf(TStr); ok {
			iter, kind = gen.NIdent(n), "string-var"
		} else {
			iter, kind = g.StrLit(), "string"
		}
	default:
		if g.pct("hostileiter", g.Hostile) {
			iter, kind = g.ExprOf(TAny, 1), "any"
			switch gen.Fold(iter).Kind {
			case gen.Bool, gen.Nil, gen.Int, gen.Float:
				iter = gen.NParen(iter)
			case gen.Str, gen.List:
			default:
				if g.UniqueOrder {
					// anything else may evaluate to a map of several keys, whose iteration order is not specified
					iter, kind = g.mapLitSingle(), "map"
				}
			}
		} else {
			iter, kind = g.mapLitSingle(), "map"
		}
	}
	g.Feat["for-in-"+kind] = true
	// the loop variable: a pool name (may update an outer variable) or a fresh one
	v := fmt.Sprintf("e%d", g.loopVars)
	if g.pct("poolvar", 40) {
		v = g.Names[g.n("lv", 0, len(g.Names)-1)]
		g.Feat["for-in-var-from-pool"] = true
	}
	g.InLoop++
	var body []*gen.Node
	if g.Probes {
		body = append(body, gen.NCall("probe", gen.NStr("in-"+v), gen.NIdent(v)))
	}
	saved, had := g.Env[v]
	g.Env[v] = TAny
	wasDef := g.Defined[v]
	g.Defined[v] = true
	body = append(body, g.Block(d-1, 3)...)
	if had {
		g.Env[v] = saved
	} else {
		delete(g.Env, v)
	}
	g.Defined[v] = wasDef
	g.InLoop--
	return []*gen.Node{gen.NForIn(v, iter, body)}
}

// mapLitSingle: a map with at most one key (iteration order is then unique).
func (g *G) mapLitSingle() *gen.Node {
	if g.pct("emptymap", 30) {
		return gen.NMap()
	}
	return gen.NMap(gen.NStr([]string{"k", "é"}[g.n("mk1", 0, 1)]), g.LitOf(TInt, 0))
}

// Program generates a whole program.
func (g *G) Program(maxStmts, depth int) []*gen.Node {
	var out []*gen.Node
	n := g.n("nprog", 1, maxStmts)
	for i := 0; i < n; i++ {
		out = append(out, g.Stmt(depth)...)
	}
	if g.Probes {
		out = append(out, g.probeStmt())
	}
	return gen.FixAll(out)
}
