// Package model is the reference interpreter of the platypus language, written
// from the language reference and the property statements. Where those are
// silent (the "open rows") an option selects one of the acceptable behaviours
// and the row is recorded as touched, so that the caller can accept every
// combination of acceptable behaviours (see Accept).
package model

import (
	"encoding/json"
	"errors"
	"fmt"
	"math"
	"reflect"
	"sort"
	"strings"
	"unicode/utf8"

	"github.com/spf13/cast"
	"verifharness/gen"
	"verifharness/probe"
)

// Void is the value of a construct that yields no value.
type voidT struct{}

var Void = voidT{}

func IsVoid(v any) bool { _, ok := v.(voidT); return ok }

// Open rows (reference silent). Value 0 is the behaviour observed at the pinned commit.
const (
	RowBoolArith     = "bool-in-arithmetic"      // 0: as 0/1, 1: error
	RowFloatMod      = "float-modulo"            // 0: error, 1: math.Mod
	RowBoolNumEq     = "bool-vs-number-eq"       // 0: numeric compare, 1: false
	RowIntFloatEq    = "int-vs-float-eq-inexact" // 0: compare as float64, 1: exact
	RowCollNumEq     = "numbers-in-collections"  // 0: type-strict, 1: numeric
	RowUnaryBool     = "sign-of-bool"            // 0: as 0/1, 1: error
	RowBoolCmp       = "bool-in-comparison"      // 0: as 0/1, 1: error
	RowStrSliceUnit  = "string-slice-unit"       // 0: bytes, 1: runes
	RowUndefCompound = "compound-on-undefined"   // 0: no-op, 1: error
	RowNilBound      = "nil-slice-bound"         // 0: as omitted, 1: error
	RowVoidValue     = "valueless-as-value"      // 0: treated as nil, 1: error   (v1 only)
	RowObjlessIndex  = "objectless-index"        // 0: error, 1: nil
	RowNaNInColl     = "nan-inside-collection"   // 0: unequal (IEEE), 1: equal (same object)
)

var AllRows = []string{RowBoolArith, RowFloatMod, RowBoolNumEq, RowIntFloatEq, RowCollNumEq, RowUnaryBool, RowBoolCmp, RowStrSliceUnit, RowUndefCompound, RowNilBound, RowVoidValue, RowObjlessIndex, RowNaNInColl}

// Err is a script error predicted by the model.
type Err struct {
	Msg   string
	File  string
	Stmt  *gen.Node // innermost statement executing when the error was raised
	Node  *gen.Node // the construct at fault (may be nil)
	Sites []Site    // use() call sites from the innermost caller outward
}

type Site struct {
	File string
	Call *gen.Node
}

func (e *Err) Error() string { return e.Msg }

var ErrFuel = errors.New("model: fuel exhausted")
var ErrSize = errors.New("model: size budget exhausted")
var ErrUnsupported = errors.New("model: construct outside the modelled language")
var ErrMapOrder = errors.New("model: outcome depends on the unspecified map iteration order")

// orderInsensitive: the body consists only of probe(...) calls whose arguments are literals or loop variables, and
// of nested for-in loops whose bodies are of the same kind (the multiset of records is then independent of the
// order in which the keys are visited).
func orderInsensitive(body []*gen.Node, loopVars ...string) bool {
	isVar := func(n string) bool {
		for _, v := range loopVars {
			if v == n {
				return true
			}
		}
		return false
	}
	for _, s := range body {
		if s.Kind == gen.ForIn && s.X != nil && s.Y != nil {
			switch s.Y.Kind {
			case gen.Ident, gen.Map, gen.List, gen.Str:
			default:
				return false
			}
			if isVar(s.X.Name) {
				return false
			}
			if !orderInsensitive(s.Body, append(append([]string{}, loopVars...), s.X.Name)...) {
				return false
			}
			continue
		}
		if s.Kind != gen.Call || s.Name != "probe" {
			return false
		}
		for _, a := range s.Args {
			switch a.Kind {
			case gen.Str, gen.Int, gen.Bool, gen.Nil:
			case gen.Ident:
				if !isVar(a.Name) {
					return false
				}
			default:
				return false
			}
		}
	}
	return true
}

// PKey is one key of the point model.
type PKey struct {
	Tag bool
	V   any // tag: string; field: nil, bool, int64, float64, string
}

// Point is the model of the input/output point.
type Point struct {
	Meas string
	Keys map[string]*PKey
	Time int64 // unix nanoseconds
}

func NewPoint(meas string, tags map[string]string, fields map[string]any) *Point {
	p := &Point{Meas: meas, Keys: map[string]*PKey{}}
	for k, v := range fields {
		p.Keys[k] = &PKey{V: v}
	}
	for k, v := range tags {
		p.Keys[k] = &PKey{Tag: true, V: v}
	}
	return p
}

func (p *Point) Clone() *Point {
	c := &Point{Meas: p.Meas, Time: p.Time, Keys: map[string]*PKey{}}
	for k, v := range p.Keys {
		kk := *v
		c.Keys[k] = &kk
	}
	return c
}

// Tags and Fields render the point the way the output point holds it.
func (p *Point) Tags() map[string]string {
	out := map[string]string{}
	for k, v := range p.Keys {
		if v.Tag {
			out[k], _ = v.V.(string)
		}
	}
	return out
}

func (p *Point) Fields() map[string]any {
	out := map[string]any{}
	for k, v := range p.Keys {
		if !v.Tag {
			out[k] = v.V
		}
	}
	return out
}

// ToStr is the documented string form of a value (strings as is, numbers and
// bools in their usual spelling, collections as JSON text, nil as "").
func ToStr(v any) (string, bool) {
	switch x := v.(type) {
	case nil:
		return "", true
	case voidT:
		return "", false
	case []any, map[string]any:
		b, err := json.Marshal(x)
		if err != nil {
			return "", false
		}
		return string(b), true
	default:
		return cast.ToString(v), true
	}
}

// Set writes a key the way add_key does: an existing tag stays a tag (string
// form), otherwise a field (collections as JSON text, value-less as nil).
func (p *Point) Set(k string, v any) {
	if k == "_" {
		k = "message"
	}
	cur, ok := p.Keys[k]
	if ok && cur.Tag {
		if IsVoid(v) {
			delete(p.Keys, k) // the tag disappears from the output
			return
		}
		if s, ok := ToStr(v); ok {
			cur.V = s
		}
		return
	}
	switch x := v.(type) {
	case voidT:
		p.Keys[k] = &PKey{V: nil}
	case []any, map[string]any:
		if s, ok := ToStr(x); ok {
			p.Keys[k] = &PKey{V: s}
		} else {
			p.Keys[k] = &PKey{V: nil}
		}
	default:
		p.Keys[k] = &PKey{V: v}
	}
}

func (p *Point) SetTag(k string, v any) {
	if k == "_" {
		k = "message"
	}
	s, ok := ToStr(v)
	if !ok {
		s = ""
	}
	p.Keys[k] = &PKey{Tag: true, V: s}
}

func (p *Point) Get(k string) (any, bool) {
	if k == "_" {
		k = "message"
	}
	v, ok := p.Keys[k]
	if !ok {
		return nil, false
	}
	return v.V, true
}

func (p *Point) Delete(k string) {
	if k == "_" {
		k = "message"
	}
	delete(p.Keys, k)
}

type scope map[string]*cell
type cell struct{ v any }

// Interp is one run of the reference interpreter.
type Interp struct {
	V2      bool
	Opts    map[string]int
	Touched map[string]bool
	Trace   []probe.Rec
	Pt      *Point
	Scripts map[string][]*gen.Node // for use()
	File    string
	Mode    int64 // value of pmode()
	Fuel    int
	Size    int
	MapLoop bool             // a for-in over a map with >= 2 keys was executed: trace order is not unique
	Stdout  *strings.Builder // what printf() wrote (shared with callees)

	scopes   []scope
	exit     bool
	brk      bool
	cont     bool
	stmt     *gen.Node
	depth    int
	eqDepth  int
	loopVars []string // variables of the for-in loops being executed (innermost last)

	// Builtins outside the core (field builtins etc.) are supplied by the caller.
	Extra map[string]func(in *Interp, call *gen.Node) (any, error)
}

func New(pt *Point) *Interp {
	return &Interp{Opts: map[string]int{}, Touched: map[string]bool{}, Pt: pt, Fuel: 20000, Size: 1 << 20, File: "main.p", Stdout: &strings.Builder{}}
}

func (in *Interp) opt(row string) int {
	in.Touched[row] = true
	return in.Opts[row]
}

func (in *Interp) errf(node *gen.Node, format string, args ...any) error {
	return &Err{Msg: fmt.Sprintf(format, args...), File: in.File, Stmt: in.stmt, Node: node}
}

// ---------------------------------------------------------------- scopes

func (in *Interp) push() { in.scopes = append(in.scopes, scope{}) }
func (in *Interp) pop()  { in.scopes = in.scopes[:len(in.scopes)-1] }

func canon(name string) string {
	if name == "_" {
		return "message"
	}
	return name
}

func (in *Interp) lookupVar(name string) (*cell, bool) {
	name = canon(name)
	for i := len(in.scopes) - 1; i >= 0; i-- {
		if c, ok := in.scopes[i][name]; ok {
			return c, true
		}
	}
	return nil, false
}

// GetName reads a name: variable, else (v1) point key, else nil.
func (in *Interp) GetName(name string) (any, bool) {
	if c, ok := in.lookupVar(name); ok {
		return c.v, true
	}
	if !in.V2 && in.Pt != nil {
		if v, ok := in.Pt.Get(name); ok {
			return v, true
		}
	}
	return nil, false
}

// SetVar implements the assignment rule.
func (in *Interp) SetVar(name string, v any) {
	name = canon(name)
	if c, ok := in.lookupVar(name); ok {
		c.v = v
		return
	}
	in.scopes[len(in.scopes)-1][name] = &cell{v: v}
}

// Vars returns the variables visible at the outermost level (after a run: the script's top-level variables).
func (in *Interp) Vars() map[string]any {
	out := map[string]any{}
	if len(in.scopes) > 0 {
		for k, c := range in.scopes[0] {
			out[k] = c.v
		}
	}
	return out
}

// ---------------------------------------------------------------- running

// Run executes a program; the error is *Err (script error), ErrFuel/ErrSize (discard the case) or nil.
func (in *Interp) Run(prog []*gen.Node) error {
	in.scopes = []scope{{}}
	if in.V2 {
		in.scopes = append(in.scopes, scope{})
	}
	in.exit, in.brk, in.cont = false, false, false
	return in.stmts(prog)
}

func (in *Interp) stmts(l []*gen.Node) error {
	for _, s := range l {
		if err := in.runStmt(s); err != nil {
			return err
		}
		if in.exit || in.brk || in.cont {
			return nil
		}
	}
	return nil
}

func (in *Interp) tick() error {
	in.Fuel--
	if in.Fuel < 0 {
		return ErrFuel
	}
	return nil
}

func (in *Interp) runStmt(s *gen.Node) error {
	if err := in.tick(); err != nil {
		return err
	}
	prev := in.stmt
	in.stmt = s
	defer func() { in.stmt = prev }()
	switch s.Kind {
	case gen.Assign:
		return in.assign(s)
	case gen.If:
		in.push()
		defer in.pop()
		for i, c := range s.Conds {
			v, err := in.Eval(c)
			if err != nil {
				return err
			}
			if in.V2 && (IsVoid(v) || isMulti(v)) {
				return in.errf(c, "condition does not yield one value")
			}
			if !Truthy(v) {
				continue
			}
			in.push()
			err = in.stmts(s.Blocks[i])
			in.pop()
			return err
		}
		if s.HasElse {
			in.push()
			err := in.stmts(s.Else)
			in.pop()
			return err
		}
		return nil
	case gen.For:
		in.push()
		defer in.pop()
		if s.Lo != nil {
			if err := in.clause(s.Lo); err != nil {
				return err
			}
		}
		for {
			if err := in.tick(); err != nil {
				return err
			}
			if s.Hi != nil {
				v, err := in.Eval(s.Hi)
				if err != nil {
					return err
				}
				if in.V2 && (IsVoid(v) || isMulti(v)) {
					return in.errf(s.Hi, "condition does not yield one value")
				}
				if !Truthy(v) {
					break
				}
			}
			in.push()
			err := in.stmts(s.Body)
			in.pop()
			if err != nil {
				return err
			}
			if in.brk {
				in.brk = false
				break
			}
			in.cont = false
			if in.exit {
				break
			}
			if s.Step != nil {
				if err := in.clause(s.Step); err != nil {
					return err
				}
			}
		}
		return nil
	case gen.ForIn:
		return in.forIn(s)
	case gen.Break:
		in.brk = true
		return nil
	case gen.Continue:
		in.cont = true
		return nil
	default:
		_, err := in.Eval(s)
		return err
	}
}

// clause runs an init / loop clause (expression or assignment).
func (in *Interp) clause(c *gen.Node) error {
	if c.Kind == gen.Assign {
		return in.assign(c)
	}
	_, err := in.Eval(c)
	return err
}

func (in *Interp) forIn(s *gen.Node) error {
	in.push()
	defer in.pop()
	it, err := in.Eval(s.Y)
	if err != nil {
		return err
	}
	if in.V2 && (IsVoid(it) || isMulti(it)) {
		return in.errf(s.Y, "iterable does not yield one value")
	}
	in.push()
	defer in.pop()
	in.loopVars = append(in.loopVars, s.X.Name)
	defer func() { in.loopVars = in.loopVars[:len(in.loopVars)-1] }()
	body := in.scopes[len(in.scopes)-1]
	clear := func() {
		for k := range body {
			delete(body, k)
		}
	}
	iter := func(v any) (bool, error) {
		if err := in.tick(); err != nil {
			return true, err
		}
		clear()
		in.SetVar(s.X.Name, v)
		if err := in.stmts(s.Body); err != nil {
			return true, err
		}
		clear()
		if in.brk {
			in.brk = false
			return true, nil
		}
		in.cont = false
		return in.exit, nil
	}
	switch x := it.(type) {
	case string:
		for _, r := range x {
			if stop, err := iter(string(r)); stop || err != nil {
				return err
			}
		}
	case []any:
		for i := 0; i < len(x); i++ {
			if stop, err := iter(x[i]); stop || err != nil {
				return err
			}
		}
	case map[string]any:
		keys := make([]string, 0, len(x))
		for k := range x {
			keys = append(keys, k)
		}
		sort.Strings(keys)
		if len(keys) >= 2 {
			// iteration order is unspecified: only bodies whose effect does not depend on it are modelled
			if !orderInsensitive(s.Body, in.loopVars...) {
				return ErrMapOrder
			}
			if _, outer := in.lookupVar(s.X.Name); outer {
				// the loop variable updates an enclosing variable: its final value depends on the order
				return ErrMapOrder
			}
			in.MapLoop = true
		}
		for _, k := range keys {
			stop, err := iter(k)
			if len(x) != len(keys) {
				// the map grew or shrank while it was iterated: which keys are visited is unspecified
				return ErrMapOrder
			}
			if stop || err != nil {
				return err
			}
		}
	default:
		return in.errf(s.Y, "value is not iterable")
	}
	return nil
}

// Truthy is the reference's truthiness table.
func Truthy(v any) bool {
	switch x := v.(type) {
	case nil, voidT:
		return false
	case bool:
		return x
	case int64:
		return x != 0
	case float64:
		return x != 0
	case string:
		return x != ""
	case []any:
		return len(x) != 0
	case map[string]any:
		return len(x) != 0
	}
	return false
}

// ---------------------------------------------------------------- assignment

func (in *Interp) valueOf(n *gen.Node, what string) (any, error) {
	v, err := in.Eval(n)
	if err != nil {
		return nil, err
	}
	if _, ok := v.(Multi); ok {
		return nil, in.errf(n, "%s yields several values", what)
	}
	if IsVoid(v) {
		if in.V2 {
			return nil, in.errf(n, "%s yields no value", what)
		}
		if in.opt(RowVoidValue) == 1 {
			return nil, in.errf(n, "%s yields no value", what)
		}
		return nil, nil
	}
	return v, nil
}

func (in *Interp) assign(s *gen.Node) error {
	if !in.V2 {
		if len(s.Args) != 1 || len(s.Rhs) != 1 {
			return in.errf(s, "multiple assignment is not supported")
		}
		return in.assign1(s, s.Args[0], s.Rhs[0])
	}
	// v2: evaluate the whole right side first
	var vals []any
	for _, r := range s.Rhs {
		v, err := in.Eval(r)
		if err != nil {
			return err
		}
		if m, ok := v.(Multi); ok {
			if len(s.Args) == 1 {
				return in.errf(r, "multiple return values")
			}
			vals = append(vals, m...)
			continue
		}
		if IsVoid(v) {
			return in.errf(r, "no return value")
		}
		vals = append(vals, v)
	}
	if len(vals) != len(s.Args) {
		return in.errf(s, "the number of left and right operands is not equal")
	}
	for i, l := range s.Args {
		if s.Op != "=" {
			if len(vals) != 1 {
				return in.errf(s, "can be only one right value")
			}
			cur, err := in.valueOf(l, "left operand")
			if err != nil {
				return err
			}
			nv, err := in.arith(s, strings.TrimSuffix(s.Op, "="), cur, vals[i])
			if err != nil {
				return err
			}
			if err := in.store(l, nv); err != nil {
				return err
			}
			continue
		}
		if err := in.store(l, vals[i]); err != nil {
			return err
		}
	}
	return nil
}

// Multi is the result of a v2 call returning several values.
type Multi []any

func isMulti(v any) bool { _, ok := v.(Multi); return ok }

func (in *Interp) store(l *gen.Node, v any) error {
	switch l.Kind {
	case gen.Ident:
		in.SetVar(l.Name, v)
		return nil
	case gen.Index:
		return in.indexSet(l, v)
	}
	if in.V2 {
		return in.errf(l, "unsupported assignment target")
	}
	return ErrUnsupported
}

func (in *Interp) assign1(s, l, r *gen.Node) error {
	rv, err := in.Eval(r)
	if err != nil {
		return err
	}
	if s.Op == "=" {
		if IsVoid(rv) {
			if in.opt(RowVoidValue) == 1 {
				return in.errf(r, "right side yields no value")
			}
			if l.Kind == gen.Ident {
				// an assignment is an assignment: the name becomes (or stays) a variable; reading it yields what the
				// right side yielded - no value, which the language treats like nil wherever a value is needed
				return in.store(l, Void)
			}
			return ErrUnsupported // "no value" stored into a collection is outside the modelled language
		}
		return in.store(l, rv)
	}
	op := strings.TrimSuffix(s.Op, "=")
	switch l.Kind {
	case gen.Ident:
		cur, ok := in.GetName(l.Name)
		if !ok {
			if in.opt(RowUndefCompound) == 1 {
				return in.errf(l, "name is not defined")
			}
			return nil
		}
		nv, err := in.arith(s, op, cur, rv)
		if err != nil {
			return err
		}
		in.SetVar(l.Name, nv)
		return nil
	case gen.Index:
		cur, err := in.indexGet(l)
		if err != nil {
			return err
		}
		nv, err := in.arith(s, op, cur, rv)
		if err != nil {
			return err
		}
		return in.indexSet(l, nv)
	}
	return ErrUnsupported
}

// ---------------------------------------------------------------- expressions

func (in *Interp) sizeOf(v any) int {
	switch x := v.(type) {
	case string:
		return len(x)
	case []any:
		return 8 * len(x)
	}
	return 0
}

func (in *Interp) charge(v any) error {
	in.Size -= in.sizeOf(v)
	if in.Size < 0 {
		return ErrSize
	}
	return nil
}

// Eval evaluates an expression.
func (in *Interp) Eval(n *gen.Node) (any, error) {
	if err := in.tick(); err != nil {
		return nil, err
	}
	in.depth++
	defer func() { in.depth-- }()
	if in.depth > 400 {
		return nil, ErrFuel
	}
	switch n.Kind {
	case gen.Ident:
		v, ok := in.GetName(n.Name)
		if !ok && in.V2 {
			return nil, in.errf(n, "name `%s` is not defined", n.Name)
		}
		return v, nil
	case gen.Str:
		return n.S, nil
	case gen.Int:
		return n.I, nil
	case gen.Float:
		return n.F, nil
	case gen.Bool:
		return n.B, nil
	case gen.Nil:
		return nil, nil
	case gen.Paren:
		return in.Eval(n.X)
	case gen.Assign:
		// v1: an argument written name = value is an assignment that is executed when the argument is evaluated; its
		// value is the value assigned
		if in.V2 || n.Op != "=" || len(n.Args) != 1 || len(n.Rhs) != 1 || n.Args[0].Kind != gen.Ident {
			return nil, ErrUnsupported
		}
		rv, err := in.Eval(n.Rhs[0])
		if err != nil {
			return nil, err
		}
		if IsVoid(rv) {
			return nil, ErrUnsupported
		}
		if _, multi := rv.(Multi); multi {
			return nil, ErrUnsupported
		}
		if err := in.store(n.Args[0], rv); err != nil {
			return nil, err
		}
		return rv, nil
	case gen.List:
		out := make([]any, 0, len(n.Args))
		for _, e := range n.Args {
			v, err := in.valueOf(e, "list element")
			if err != nil {
				return nil, err
			}
			out = append(out, v)
		}
		if err := in.charge(out); err != nil {
			return nil, err
		}
		return out, nil
	case gen.Map:
		out := map[string]any{}
		for i := 0; i+1 < len(n.Args); i += 2 {
			k, err := in.Eval(n.Args[i])
			if err != nil {
				return nil, err
			}
			ks, ok := k.(string)
			if !ok {
				return nil, in.errf(n.Args[i], "map key is not a string")
			}
			v, err := in.Eval(n.Args[i+1])
			if err != nil {
				return nil, err
			}
			if IsVoid(v) || isMulti(v) {
				return nil, in.errf(n.Args[i+1], "map value does not yield one value")
			}
			out[ks] = v
		}
		return out, nil
	case gen.Attr:
		return Void, nil
	case gen.Index:
		return in.indexGet(n)
	case gen.Unary:
		return in.unary(n)
	case gen.Binary:
		return in.binary(n)
	case gen.In:
		return in.inExpr(n)
	case gen.Slice:
		return in.slice(n)
	case gen.Call:
		return in.call(n)
	}
	return nil, ErrUnsupported
}

func (in *Interp) unary(n *gen.Node) (any, error) {
	v, err := in.Eval(n.X)
	if err != nil {
		return nil, err
	}
	if isMulti(v) {
		return nil, in.errf(n.X, "operand yields several values")
	}
	if IsVoid(v) {
		if in.V2 {
			return nil, in.errf(n.X, "operand yields no value")
		}
		if in.opt(RowVoidValue) == 1 {
			return nil, in.errf(n.X, "operand yields no value")
		}
		v = nil
	}
	if n.Op == "!" {
		return !Truthy(v), nil
	}
	switch x := v.(type) {
	case int64:
		if n.Op == "-" {
			return -x, nil
		}
		return x, nil
	case float64:
		if n.Op == "-" {
			return -x, nil
		}
		return x, nil
	case bool:
		if in.opt(RowUnaryBool) == 1 {
			return nil, in.errf(n, "bad operand type for unary %s", n.Op)
		}
		i := int64(0)
		if x {
			i = 1
		}
		if n.Op == "-" {
			i = -i
		}
		return i, nil
	}
	return nil, in.errf(n, "bad operand type for unary %s", n.Op)
}

func isNum(v any) bool {
	switch v.(type) {
	case int64, float64:
		return true
	}
	return false
}

func b2i(b bool) int64 {
	if b {
		return 1
	}
	return 0
}

// arith implements + - * / % on two values.
func (in *Interp) arith(n *gen.Node, op string, l, r any) (any, error) {
	if IsVoid(l) || IsVoid(r) {
		return nil, in.errf(n, "operand yields no value")
	}
	ls, lstr := l.(string)
	rs, rstr := r.(string)
	if lstr || rstr {
		// the other operand must be a string too, and the operator +
		if lstr && rstr && op == "+" {
			out := ls + rs
			if err := in.charge(out); err != nil {
				return nil, err
			}
			return out, nil
		}
		return nil, in.errf(n, "unsupported operand types for %s", op)
	}
	conv := func(v any) (any, error) {
		switch x := v.(type) {
		case int64, float64:
			return x, nil
		case bool:
			if in.opt(RowBoolArith) == 1 {
				return nil, in.errf(n, "unsupported operand type bool for %s", op)
			}
			return b2i(x), nil
		}
		return nil, in.errf(n, "unsupported operand type for %s", op)
	}
	// type errors are independent of the open rows: check both operand classes first
	for _, v := range []any{l, r} {
		switch v.(type) {
		case int64, float64, bool:
		default:
			return nil, in.errf(n, "unsupported operand type for %s", op)
		}
	}
	l, err := conv(l)
	if err != nil {
		return nil, err
	}
	r, err = conv(r)
	if err != nil {
		return nil, err
	}
	lf, lIsF := l.(float64)
	rf, rIsF := r.(float64)
	if lIsF || rIsF {
		if !lIsF {
			lf = float64(l.(int64))
		}
		if !rIsF {
			rf = float64(r.(int64))
		}
		switch op {
		case "+":
			return lf + rf, nil
		case "-":
			return lf - rf, nil
		case "*":
			return lf * rf, nil
		case "/":
			if rf == 0 {
				return nil, in.errf(n, "float division by zero")
			}
			return lf / rf, nil
		case "%":
			if in.opt(RowFloatMod) == 1 {
				if rf == 0 {
					return nil, in.errf(n, "float modulo by zero")
				}
				return math.Mod(lf, rf), nil
			}
			return nil, in.errf(n, "float does not support modulo")
		}
	}
	li, ri := l.(int64), r.(int64)
	switch op {
	case "+":
		return li + ri, nil
	case "-":
		return li - ri, nil
	case "*":
		return li * ri, nil
	case "/":
		if ri == 0 {
			return nil, in.errf(n, "integer division by zero")
		}
		if li == math.MinInt64 && ri == -1 {
			return li, nil
		}
		return li / ri, nil
	case "%":
		if ri == 0 {
			return nil, in.errf(n, "integer modulo by zero")
		}
		if ri == -1 {
			return int64(0), nil
		}
		return li % ri, nil
	}
	return nil, in.errf(n, "unknown operator %s", op)
}

func exactFloatInt(i int64) bool {
	f := float64(i)
	return f < 9.3e18 && f > -9.3e18 && int64(f) == i
}

// numEq compares two numbers (int64/float64/bool) for equality.
func (in *Interp) numEq(l, r any) bool {
	_, lb := l.(bool)
	_, rb := r.(bool)
	if lb != rb { // bool against a number
		if in.opt(RowBoolNumEq) == 1 {
			return false
		}
	}
	toNum := func(v any) any {
		if b, ok := v.(bool); ok {
			return b2i(b)
		}
		return v
	}
	l, r = toNum(l), toNum(r)
	li, lInt := l.(int64)
	ri, rInt := r.(int64)
	if lInt && rInt {
		return li == ri
	}
	if lInt || rInt { // mixed int / float
		i, f := li, 0.0
		if lInt {
			f = r.(float64)
		} else {
			i, f = ri, l.(float64)
		}
		if exactFloatInt(i) {
			return float64(i) == f
		}
		if float64(i) != f {
			return false
		}
		// equal only through float rounding
		if in.opt(RowIntFloatEq) == 1 {
			return false
		}
		return true
	}
	return l.(float64) == r.(float64)
}

// DeepEq is structural equality of collections.
func (in *Interp) DeepEq(l, r any) bool {
	in.eqDepth++
	defer func() { in.eqDepth-- }()
	if in.eqDepth > 64 { // self-containing collections: give the case up (fuel exhaustion)
		in.Fuel = -1
		return false
	}
	switch x := l.(type) {
	case []any:
		y, ok := r.([]any)
		if !ok || len(x) != len(y) {
			return false
		}
		for i := range x {
			if !in.DeepEq(x[i], y[i]) {
				return false
			}
		}
		return true
	case map[string]any:
		y, ok := r.(map[string]any)
		if !ok || len(x) != len(y) {
			return false
		}
		for k, v := range x {
			w, ok := y[k]
			if !ok || !in.DeepEq(v, w) {
				return false
			}
		}
		return true
	}
	// scalars inside collections
	if reflect.TypeOf(l) == reflect.TypeOf(r) {
		if f, ok := l.(float64); ok {
			g := r.(float64)
			if f != f || g != g {
				// a NaN inside compared collections: structural equality of the same object says equal,
				// IEEE comparison says different; the reference is silent
				return in.opt(RowNaNInColl) == 1
			}
			return f == g
		}
		return l == r
	}
	if (isNum(l) || isBool(l)) && (isNum(r) || isBool(r)) {
		if in.opt(RowCollNumEq) == 1 {
			return in.numEq(l, r)
		}
		return false
	}
	return false
}

func isBool(v any) bool { _, ok := v.(bool); return ok }

func (in *Interp) equal(l, r any) bool {
	switch x := l.(type) {
	case nil:
		return r == nil
	case string:
		y, ok := r.(string)
		return ok && x == y
	case int64, float64, bool:
		switch r.(type) {
		case int64, float64, bool:
			return in.numEq(l, r)
		}
		return false
	case []any, map[string]any:
		return in.DeepEq(l, r)
	}
	return false
}

func (in *Interp) binary(n *gen.Node) (any, error) {
	l, err := in.Eval(n.X)
	if err != nil {
		return nil, err
	}
	if isMulti(l) {
		return nil, in.errf(n.X, "operand yields several values")
	}
	if IsVoid(l) {
		if in.V2 || in.opt(RowVoidValue) == 1 {
			return nil, in.errf(n.X, "operand yields no value")
		}
		return nil, ErrUnsupported
	}
	if n.Op == "&&" || n.Op == "||" {
		if b, ok := l.(bool); ok {
			if n.Op == "||" && b {
				return true, nil
			}
			if n.Op == "&&" && !b {
				return false, nil
			}
		}
	}
	r, err := in.Eval(n.Y)
	if err != nil {
		return nil, err
	}
	if isMulti(r) {
		return nil, in.errf(n.Y, "operand yields several values")
	}
	if IsVoid(r) {
		if in.V2 || in.opt(RowVoidValue) == 1 {
			return nil, in.errf(n.Y, "operand yields no value")
		}
		return nil, ErrUnsupported
	}
	switch n.Op {
	case "+", "-", "*", "/", "%":
		return in.arith(n, n.Op, l, r)
	case "==":
		return in.equal(l, r), nil
	case "!=":
		return !in.equal(l, r), nil
	case "&&", "||":
		lb, lok := l.(bool)
		rb, rok := r.(bool)
		if !lok || !rok {
			return nil, in.errf(n, "unsupported operand types for %s", n.Op)
		}
		if n.Op == "&&" {
			return lb && rb, nil
		}
		return lb || rb, nil
	case "<", "<=", ">", ">=":
		for _, v := range []any{l, r} {
			switch v.(type) {
			case int64, float64, bool:
			default:
				return nil, in.errf(n, "not comparable")
			}
		}
		if isBool(l) || isBool(r) {
			if in.opt(RowBoolCmp) == 1 {
				return nil, in.errf(n, "not comparable")
			}
			if b, ok := l.(bool); ok {
				l = b2i(b)
			}
			if b, ok := r.(bool); ok {
				r = b2i(b)
			}
		}
		li, lInt := l.(int64)
		ri, rInt := r.(int64)
		if lInt && rInt {
			switch n.Op {
			case "<":
				return li < ri, nil
			case "<=":
				return li <= ri, nil
			case ">":
				return li > ri, nil
			default:
				return li >= ri, nil
			}
		}
		lf, rf := toF(l), toF(r)
		switch n.Op {
		case "<":
			return lf < rf, nil
		case "<=":
			return lf <= rf, nil
		case ">":
			return lf > rf, nil
		default:
			return lf >= rf, nil
		}
	}
	return nil, in.errf(n, "unknown operator %s", n.Op)
}

func toF(v any) float64 {
	switch x := v.(type) {
	case int64:
		return float64(x)
	case float64:
		return x
	}
	return 0
}

func (in *Interp) inExpr(n *gen.Node) (any, error) {
	l, err := in.valueOfStrict(n.X)
	if err != nil {
		return nil, err
	}
	r, err := in.valueOfStrict(n.Y)
	if err != nil {
		return nil, err
	}
	switch y := r.(type) {
	case string:
		x, ok := l.(string)
		if !ok {
			return nil, in.errf(n, "left operand of in must be a string")
		}
		return strings.Contains(y, x), nil
	case map[string]any:
		x, ok := l.(string)
		if !ok {
			return nil, in.errf(n, "left operand of in must be a string")
		}
		_, has := y[x]
		return has, nil
	case []any:
		for _, e := range y {
			if in.memberEq(l, e) {
				return true, nil
			}
		}
		return false, nil
	}
	return nil, in.errf(n, "right operand of in is not a string, list or map")
}

// memberEq is list membership: structural equality (numbers of different type: open row).
func (in *Interp) memberEq(l, e any) bool {
	if (isNum(l) || isBool(l)) && (isNum(e) || isBool(e)) && reflect.TypeOf(l) != reflect.TypeOf(e) {
		if in.opt(RowCollNumEq) == 1 {
			return in.numEq(l, e)
		}
		return false
	}
	if isNum(l) && isNum(e) {
		if f, ok := l.(float64); ok {
			return f == e.(float64)
		}
		return l == e
	}
	return in.DeepEq(l, e)
}

func (in *Interp) valueOfStrict(n *gen.Node) (any, error) {
	v, err := in.Eval(n)
	if err != nil {
		return nil, err
	}
	if _, ok := v.(Multi); ok {
		return nil, in.errf(n, "operand yields several values")
	}
	if IsVoid(v) {
		if in.V2 || in.opt(RowVoidValue) == 1 {
			return nil, in.errf(n, "operand yields no value")
		}
		return nil, ErrUnsupported
	}
	return v, nil
}

// ---------------------------------------------------------------- indexing

func (in *Interp) indexBase(n *gen.Node) (any, error) {
	if n.X == nil {
		if in.opt(RowObjlessIndex) == 1 {
			return nil, nil
		}
		return nil, in.errf(n, "index expression without object")
	}
	v, ok := in.GetName(n.X.Name)
	if !ok {
		return nil, in.errf(n.X, "name is not defined")
	}
	switch v.(type) {
	case []any, map[string]any:
		return v, nil
	}
	return nil, in.errf(n.X, "value is not indexable")
}

func normIndex(k any, n int) (int, string) {
	i, ok := k.(int64)
	if !ok {
		return 0, "list index is not an integer"
	}
	if i < 0 {
		i += int64(n)
	}
	if i < 0 || i >= int64(n) {
		return 0, "list index out of range"
	}
	return int(i), ""
}

func (in *Interp) indexGet(n *gen.Node) (any, error) {
	cur, err := in.indexBase(n)
	if err != nil {
		return nil, err
	}
	if n.X == nil {
		return Void, nil
	}
	for _, ix := range n.Args {
		k, err := in.valueOfStrict(ix)
		if err != nil {
			return nil, err
		}
		switch c := cur.(type) {
		case map[string]any:
			ks, ok := k.(string)
			if !ok {
				return nil, in.errf(ix, "map key is not a string")
			}
			v, has := c[ks]
			if !has {
				return nil, nil
			}
			cur = v
		case []any:
			i, msg := normIndex(k, len(c))
			if msg != "" {
				return nil, in.errf(ix, "%s", msg)
			}
			cur = c[i]
		default:
			return nil, in.errf(ix, "value is not indexable")
		}
	}
	return cur, nil
}

func (in *Interp) indexSet(n *gen.Node, v any) error {
	cur, err := in.indexBase(n)
	if err != nil {
		return err
	}
	if n.X == nil {
		return ErrUnsupported
	}
	for j, ix := range n.Args {
		k, err := in.valueOfStrict(ix)
		if err != nil {
			return err
		}
		last := j == len(n.Args)-1
		switch c := cur.(type) {
		case map[string]any:
			ks, ok := k.(string)
			if !ok {
				return in.errf(ix, "map key is not a string")
			}
			if last {
				c[ks] = v
				return nil
			}
			nx, has := c[ks]
			if !has {
				return in.errf(ix, "key not found")
			}
			cur = nx
		case []any:
			i, msg := normIndex(k, len(c))
			if msg != "" {
				return in.errf(ix, "%s", msg)
			}
			if last {
				c[i] = v
				return nil
			}
			cur = c[i]
		default:
			return in.errf(ix, "value is not indexable")
		}
	}
	return nil
}

// ---------------------------------------------------------------- slices

// SliceIndices is CPython's PySlice_AdjustIndices + element enumeration, in
// saturating arithmetic. has* tell which bounds were given.
func SliceIndices(length int, start, end, step int64, hasStart, hasEnd, hasStep bool) []int {
	n := int64(length)
	if !hasStep {
		step = 1
	}
	var s, e int64
	if !hasStart {
		if step > 0 {
			s = 0
		} else {
			s = n - 1
		}
	} else {
		s = start
		if s < 0 {
			s = satAdd(s, n)
			if s < 0 {
				if step < 0 {
					s = -1
				} else {
					s = 0
				}
			}
		} else if s >= n {
			if step < 0 {
				s = n - 1
			} else {
				s = n
			}
		}
	}
	if !hasEnd {
		if step > 0 {
			e = n
		} else {
			e = -1
		}
	} else {
		e = end
		if e < 0 {
			e = satAdd(e, n)
			if e < 0 {
				if step < 0 {
					e = -1
				} else {
					e = 0
				}
			}
		} else if e >= n {
			if step < 0 {
				e = n - 1
			} else {
				e = n
			}
		}
	}
	var out []int
	if step > 0 {
		for i := s; i < e; {
			out = append(out, int(i))
			if i > math.MaxInt64-step {
				break
			}
			i += step
		}
	} else {
		for i := s; i > e; {
			out = append(out, int(i))
			if i < math.MinInt64-step {
				break
			}
			i += step
		}
	}
	return out
}

func satAdd(a, b int64) int64 {
	c := a + b
	if a > 0 && b > 0 && c < 0 {
		return math.MaxInt64
	}
	if a < 0 && b < 0 && c >= 0 {
		return math.MinInt64
	}
	return c
}

func (in *Interp) slice(n *gen.Node) (any, error) {
	obj, err := in.valueOfStrict(n.X)
	if err != nil {
		return nil, err
	}
	var vals [3]any
	var has [3]bool
	for i, b := range []*gen.Node{n.Lo, n.Hi, n.Step} {
		if b == nil {
			continue
		}
		v, err := in.valueOfStrict(b)
		if err != nil {
			return nil, err
		}
		vals[i], has[i] = v, true
	}
	switch obj.(type) {
	case string, []any:
	default:
		return nil, in.errf(n.X, "value cannot be sliced")
	}
	var iv [3]int64
	// order of the type checks follows the evaluation order of the reference: step, start, end are all
	// validated; any failure is an error, so the order is unobservable.
	for _, i := range []int{2, 0, 1} {
		if !has[i] {
			continue
		}
		if vals[i] == nil {
			if in.opt(RowNilBound) == 1 {
				return nil, in.errf(n, "slice bound is nil")
			}
			has[i] = false
			continue
		}
		x, ok := vals[i].(int64)
		if !ok {
			return nil, in.errf(n, "slice bound is not an integer")
		}
		iv[i] = x
		if i == 2 && x == 0 {
			return nil, in.errf(n, "slice step must be non-zero")
		}
	}
	switch o := obj.(type) {
	case []any:
		idx := SliceIndices(len(o), iv[0], iv[1], iv[2], has[0], has[1], has[2])
		out := make([]any, 0, len(idx))
		for _, i := range idx {
			out = append(out, o[i])
		}
		if err := in.charge(out); err != nil {
			return nil, err
		}
		return out, nil
	case string:
		if !isASCII(o) && utf8.ValidString(o) && in.opt(RowStrSliceUnit) == 1 {
			rs := []rune(o)
			idx := SliceIndices(len(rs), iv[0], iv[1], iv[2], has[0], has[1], has[2])
			var b strings.Builder
			for _, i := range idx {
				b.WriteRune(rs[i])
			}
			return b.String(), nil
		}
		idx := SliceIndices(len(o), iv[0], iv[1], iv[2], has[0], has[1], has[2])
		out := make([]byte, 0, len(idx))
		for _, i := range idx {
			out = append(out, o[i])
		}
		return string(out), nil
	}
	return nil, ErrUnsupported
}

func isASCII(s string) bool {
	for i := 0; i < len(s); i++ {
		if s[i] >= 0x80 {
			return false
		}
	}
	return true
}

// ---------------------------------------------------------------- calls

// KeyName is the key-argument rule: identifier, attribute expression or string literal.
func KeyName(n *gen.Node) (string, bool) {
	switch n.Kind {
	case gen.Ident:
		return n.Name, true
	case gen.Str:
		return n.S, true
	case gen.Attr:
		return attrText(n), true
	}
	return "", false
}

func attrText(n *gen.Node) string {
	switch n.Kind {
	case gen.Ident:
		return n.Name
	case gen.Attr:
		return attrText(n.X) + "." + attrText(n.Y)
	case gen.Index:
		s := ""
		if n.X != nil {
			s = n.X.Name
		}
		for _, ix := range n.Args {
			s += "[" + exprText(ix) + "]"
		}
		return s
	}
	return exprText(n)
}

// exprText mirrors the tree's String() rendering only for the forms used inside attribute keys.
func exprText(n *gen.Node) string {
	switch n.Kind {
	case gen.Int:
		return fmt.Sprintf("%d", n.I)
	case gen.Str:
		return "'" + n.S + "'"
	case gen.Ident:
		return n.Name
	}
	return gen.PrintExpr(n)
}

func (in *Interp) record(r probe.Rec) { in.Trace = append(in.Trace, r) }

func (in *Interp) call(n *gen.Node) (any, error) {
	switch n.Name {
	case "probe":
		r := probe.Rec{Label: "probe"}
		for i, a := range n.Args {
			if in.V2 {
				// v2 probe: first parameter is the label (any string expression), the rest are values
				v, err := in.Eval(a)
				if err != nil {
					return nil, err
				}
				if IsVoid(v) {
					return nil, in.errf(a, "argument yields no value")
				}
				if _, ok := v.(Multi); ok {
					return nil, in.errf(a, "argument yields several values")
				}
				if i == 0 {
					s, ok := v.(string)
					if !ok {
						return nil, in.errf(a, "label must be a string")
					}
					r.Label = s
					continue
				}
				r.Vals = append(r.Vals, probe.Render(v))
				continue
			}
			v, err := in.Eval(a)
			if err != nil {
				return nil, err
			}
			if i == 0 && a.Kind == gen.Str {
				r.Label = a.S
				continue
			}
			if IsVoid(v) {
				r.Vals = append(r.Vals, "void")
			} else {
				r.Vals = append(r.Vals, probe.Render(v))
			}
		}
		in.record(r)
		return Void, nil
	case "pval":
		if len(n.Args) != 1 {
			return nil, ErrUnsupported
		}
		v, err := in.Eval(n.Args[0])
		if err != nil {
			return nil, err
		}
		if IsVoid(v) {
			if in.V2 {
				return nil, in.errf(n.Args[0], "argument yields no value")
			}
			in.record(probe.Rec{Label: "pval", Vals: []string{"void"}})
			return Void, nil
		}
		if _, ok := v.(Multi); ok {
			return nil, in.errf(n.Args[0], "argument yields several values")
		}
		in.record(probe.Rec{Label: "pval", Vals: []string{probe.Render(v)}})
		return v, nil
	case "pvoid":
		in.record(probe.Rec{Label: "pvoid"})
		return Void, nil
	case "pmode":
		if len(n.Args) != 0 {
			return nil, ErrUnsupported
		}
		return in.Mode, nil
	case "pvoid1":
		v, err := in.Eval(n.Args[0])
		if err != nil {
			return nil, err
		}
		if IsVoid(v) {
			return nil, in.errf(n.Args[0], "argument yields no value")
		}
		if _, ok := v.(Multi); ok {
			return nil, in.errf(n.Args[0], "argument yields several values")
		}
		in.record(probe.Rec{Label: "pvoid1", Vals: []string{probe.Render(v)}})
		return Void, nil
	case "pvoidv":
		r := probe.Rec{Label: "pvoidv"}
		for _, a := range n.Args {
			v, err := in.Eval(a)
			if err != nil {
				return nil, err
			}
			if IsVoid(v) {
				return nil, in.errf(a, "argument yields no value")
			}
			if _, ok := v.(Multi); ok {
				return nil, in.errf(a, "argument yields several values")
			}
			r.Vals = append(r.Vals, probe.Render(v))
		}
		in.record(r)
		return Void, nil
	case "pmulti":
		var out Multi
		r := probe.Rec{Label: "pmulti"}
		for _, a := range n.Args {
			v, err := in.Eval(a)
			if err != nil {
				return nil, err
			}
			if IsVoid(v) {
				return nil, in.errf(a, "argument yields no value")
			}
			if _, ok := v.(Multi); ok {
				return nil, in.errf(a, "argument yields several values")
			}
			out = append(out, v)
			r.Vals = append(r.Vals, probe.Render(v))
		}
		in.record(r)
		switch len(out) {
		case 0:
			return Void, nil
		case 1:
			return out[0], nil
		}
		return out, nil
	case "perr":
		in.record(probe.Rec{Label: "perr"})
		return nil, in.errf(n, "perr: injected failure")
	case "len":
		if len(n.Args) != 1 {
			return nil, ErrUnsupported
		}
		v, err := in.Eval(n.Args[0])
		if err != nil {
			return nil, err
		}
		if in.V2 && (IsVoid(v) || isMulti(v)) {
			return nil, in.errf(n.Args[0], "argument does not yield one value")
		}
		switch x := v.(type) {
		case string:
			return int64(len(x)), nil
		case []any:
			return int64(len(x)), nil
		case map[string]any:
			return int64(len(x)), nil
		}
		return int64(0), nil
	case "load_json":
		if len(n.Args) != 1 {
			return nil, ErrUnsupported
		}
		v, err := in.Eval(n.Args[0])
		if err != nil {
			return nil, err
		}
		s, ok := v.(string)
		if !ok {
			return nil, in.errf(n.Args[0], "load_json expects a string")
		}
		var out any
		if json.Unmarshal([]byte(s), &out) != nil {
			return nil, in.errf(n.Args[0], "invalid JSON")
		}
		return out, nil
	case "add_key":
		if len(n.Args) < 1 || len(n.Args) > 2 {
			return nil, ErrUnsupported
		}
		key, ok := KeyName(n.Args[0])
		if !ok {
			return nil, ErrUnsupported
		}
		if len(n.Args) == 1 {
			v, ok := in.GetName(key)
			if !ok {
				return Void, nil
			}
			in.Pt.Set(key, v)
			return Void, nil
		}
		v, err := in.Eval(n.Args[1])
		if err != nil {
			if e, ok := err.(*Err); ok && e.File == in.File {
				// add_key appends its own call site to errors raised while evaluating its value
				_ = e
			}
			return nil, err
		}
		in.Pt.Set(key, v)
		return Void, nil
	case "get_key":
		if len(n.Args) != 1 {
			return nil, ErrUnsupported
		}
		key, ok := KeyName(n.Args[0])
		if !ok {
			return nil, ErrUnsupported
		}
		v, _ := in.Pt.Get(key)
		return v, nil
	case "exit":
		in.exit = true
		return Void, nil
	case "use":
		return in.use(n)
	}
	if f, ok := in.Extra[n.Name]; ok {
		return f(in, n)
	}
	return nil, ErrUnsupported
}

// use runs the named script against the same point with a fresh variable scope.
func (in *Interp) use(n *gen.Node) (any, error) {
	if len(n.Args) != 1 || n.Args[0].Kind != gen.Str {
		return nil, ErrUnsupported
	}
	body, ok := in.Scripts[n.Args[0].S]
	if !ok {
		return nil, ErrUnsupported
	}
	sub := &Interp{V2: in.V2, Opts: in.Opts, Touched: in.Touched, Pt: in.Pt, Scripts: in.Scripts, File: n.Args[0].S,
		Fuel: in.Fuel, Size: in.Size, Extra: in.Extra, depth: in.depth + 5, Stdout: in.Stdout}
	sub.Trace = in.Trace
	if sub.depth > 300 {
		return nil, ErrFuel
	}
	err := sub.Run(body)
	in.Trace = sub.Trace
	in.Fuel, in.Size = sub.Fuel, sub.Size
	in.MapLoop = in.MapLoop || sub.MapLoop
	if err != nil {
		if e, ok := err.(*Err); ok {
			e.Sites = append(e.Sites, Site{File: in.File, Call: n})
		}
		return nil, err
	}
	return Void, nil
}

// Errf lets builtin models raise a script error located at node.
func (in *Interp) Errf(node *gen.Node, format string, args ...any) error {
	return in.errf(node, format, args...)
}

// Exit marks the current script as finished (exit()).
func (in *Interp) Exit() { in.exit = true }
