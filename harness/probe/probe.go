// Package probe supplies the probe builtins the harness registers through the
// interpreters' function tables, and the counting cancellation signal. The
// probes make evaluation order, evaluation count, value and Go type of every
// operand observable without touching /repo.
package probe

import (
	"fmt"
	"math"
	"sort"
	"strconv"
	"strings"
	"sync"
	"sync/atomic"

	"github.com/GuanceCloud/platypus/pkg/ast"
	plrt "github.com/GuanceCloud/platypus/pkg/engine/runtime"
	"github.com/GuanceCloud/platypus/pkg/engine/runtimev2"
	"github.com/GuanceCloud/platypus/pkg/errchain"
)

// Rec is one probe call as observed.
type Rec struct {
	Label string   `json:"label"`
	Vals  []string `json:"vals"` // canonical renderings (value and Go type)
	Poll  int      `json:"poll"` // polls of the signal seen so far
	Fired bool     `json:"fired"`
}

func (r Rec) String() string {
	return r.Label + "(" + strings.Join(r.Vals, ", ") + ")"
}

// Render gives a canonical text for a value including its dynamic Go type, so
// int vs int64 or a stray Go type is visible. Lists and maps are rendered deeply.
func Render(v any) string {
	var b strings.Builder
	render(&b, v, 0)
	return b.String()
}

func render(b *strings.Builder, v any, depth int) {
	if depth > 12 {
		b.WriteString("...")
		return
	}
	switch x := v.(type) {
	case nil:
		b.WriteString("nil")
	case bool:
		b.WriteString("b:")
		b.WriteString(strconv.FormatBool(x))
	case int64:
		b.WriteString("i:")
		b.WriteString(strconv.FormatInt(x, 10))
	case float64:
		if math.IsNaN(x) {
			b.WriteString("f:NaN")
		} else {
			b.WriteString("f:")
			b.WriteString(strconv.FormatFloat(x, 'g', -1, 64))
			if x == 0 && math.Signbit(x) {
				b.WriteString("(neg0)")
			}
		}
	case string:
		b.WriteString("s:")
		b.WriteString(strconv.Quote(x))
	case []any:
		b.WriteString("[")
		for i, e := range x {
			if i > 0 {
				b.WriteString(" ")
			}
			render(b, e, depth+1)
		}
		b.WriteString("]")
	case map[string]any:
		keys := make([]string, 0, len(x))
		for k := range x {
			keys = append(keys, k)
		}
		sort.Strings(keys)
		b.WriteString("{")
		for i, k := range keys {
			if i > 0 {
				b.WriteString(" ")
			}
			b.WriteString(strconv.Quote(k))
			b.WriteString(":")
			render(b, x[k], depth+1)
		}
		b.WriteString("}")
	default:
		fmt.Fprintf(b, "GO<%T>:%v", v, v)
	}
}

// RenderTyped adds the interpreter's declared type tag when it disagrees with the value's Go type.
func RenderTyped(v any, dt ast.DType) string {
	s := Render(v)
	want := ast.Invalid
	switch v.(type) {
	case nil:
		want = ast.Nil
	case bool:
		want = ast.Bool
	case int64:
		want = ast.Int
	case float64:
		want = ast.Float
	case string:
		want = ast.String
	case []any:
		want = ast.List
	case map[string]any:
		want = ast.Map
	}
	if dt == ast.Void && v == nil {
		return "void"
	}
	if want != dt {
		return fmt.Sprintf("%s<tagged %s>", s, dt)
	}
	return s
}

// Sig is the counting cancellation signal: it reports true from the FireAt-th
// poll on (FireAt <= 0: never). It also carries the trace, so probes running in
// a callee reached through use() append to the caller's trace.
type Sig struct {
	mu       sync.Mutex
	FireAt   int
	Polls    int
	Fired    bool
	Trace    []Rec
	Runaway  bool
	MaxPolls int
	AfterHit int // probe calls that happened after the signal was observed true
	Limit    int // max probe calls after firing before the probe aborts the run (0 = 100)
	// RaiseAtRec > 0: the host raises the flag while the RaiseAtRec-th probe call is executing (between two
	// polls); every later poll reports true. AfterRaise counts the probe calls made after that moment.
	RaiseAtRec int
	Raised     bool
	AfterRaise int
}

// NilSig is a signal type whose method works on a nil receiver (its state lives in a package variable): hosts
// may hand the interpreters (*NilSig)(nil). NilSigFireAt / NilSigPolls are reset by the test before each run.
type NilSig struct{ _ int }

var NilSigFireAt, NilSigPolls int64

func (s *NilSig) ExitSignal() bool {
	n := atomic.AddInt64(&NilSigPolls, 1)
	return NilSigFireAt > 0 && n >= NilSigFireAt
}

type abortRun struct{}

func (abortRun) String() string { return "verif-probe-abort" }

// AbortSentinel is the panic value used to stop a run that keeps executing after the signal fired.
var AbortSentinel = abortRun{}

// RunawayPolls bounds a run whose signal never fires: a run that is still polling after this many
// polls is stopped and marked Runaway (the reference terminated long before).
const RunawayPolls = 3_000_000

// MaxPolls, when > 0, replaces RunawayPolls for this signal (cases that are long on purpose).

func (s *Sig) ExitSignal() bool {
	s.mu.Lock()
	defer s.mu.Unlock()
	s.Polls++
	if s.FireAt > 0 && s.Polls >= s.FireAt {
		s.Fired = true
	}
	if s.Raised {
		s.Fired = true
	}
	lim := RunawayPolls
	if s.MaxPolls > 0 {
		lim = s.MaxPolls
	}
	if s.FireAt <= 0 && !s.Raised && s.Polls > lim {
		s.Runaway = true
		return true
	}
	return s.Fired
}

func (s *Sig) add(r Rec) {
	s.mu.Lock()
	r.Poll = s.Polls
	r.Fired = s.Fired
	s.Trace = append(s.Trace, r)
	abort := len(s.Trace) > 200000 // runaway run: stop it before it exhausts memory
	if s.Raised {
		s.AfterRaise++
		lim := s.Limit
		if lim == 0 {
			lim = 100
		}
		abort = abort || s.AfterRaise >= lim
	}
	if s.RaiseAtRec > 0 && len(s.Trace) == s.RaiseAtRec {
		s.Raised = true
	}
	if s.Fired {
		s.AfterHit++
		lim := s.Limit
		if lim == 0 {
			lim = 100
		}
		abort = abort || s.AfterHit >= lim
	}
	s.mu.Unlock()
	if abort {
		panic(AbortSentinel)
	}
}

func sigOf(ctx *plrt.Task) *Sig {
	if s, ok := ctx.Signal().(*Sig); ok {
		return s
	}
	return nil
}

// Note records r in the trace of the run ctx belongs to (harness-side observations).
func Note(ctx *plrt.Task, r Rec) {
	if s := sigOf(ctx); s != nil {
		s.Trace = append(s.Trace, r)
	}
}

func anyCheck(*plrt.Task, *ast.CallExpr) *errchain.PlError { return nil }

// V1 returns the probe functions for the v1 interpreter.
//
//	probe(label, e...)  evaluates e... left to right and records them; returns nothing
//	pval(e)             records e and returns its value
//	pvoid()             records and returns nothing
//	perr()              records and fails with a run-time error
//	pmulti(e...)        (v2 only)
func V1() (map[string]plrt.FuncCall, map[string]plrt.FuncCheck) {
	call := map[string]plrt.FuncCall{
		"probe": func(ctx *plrt.Task, e *ast.CallExpr) *errchain.PlError {
			r := Rec{Label: "probe"}
			for i, p := range e.Param {
				v, dt, err := plrt.RunStmt(ctx, p)
				if err != nil {
					return err
				}
				if i == 0 {
					if s, ok := v.(string); ok && p.NodeType == ast.TypeStringLiteral {
						r.Label = s
						continue
					}
				}
				r.Vals = append(r.Vals, RenderTyped(v, dt))
			}
			if s := sigOf(ctx); s != nil {
				s.add(r)
			}
			return nil
		},
		"pval": func(ctx *plrt.Task, e *ast.CallExpr) *errchain.PlError {
			v, dt, err := plrt.RunStmt(ctx, e.Param[0])
			if err != nil {
				return err
			}
			if s := sigOf(ctx); s != nil {
				s.add(Rec{Label: "pval", Vals: []string{RenderTyped(v, dt)}})
			}
			ctx.Regs.ReturnAppend(v, dt)
			return nil
		},
		"pvoid": func(ctx *plrt.Task, e *ast.CallExpr) *errchain.PlError {
			if s := sigOf(ctx); s != nil {
				s.add(Rec{Label: "pvoid"})
			}
			return nil
		},
		"perr": func(ctx *plrt.Task, e *ast.CallExpr) *errchain.PlError {
			if s := sigOf(ctx); s != nil {
				s.add(Rec{Label: "perr"})
			}
			return plrt.NewRunError(ctx, "perr: injected failure", e.NamePos)
		},
	}
	check := map[string]plrt.FuncCheck{
		"probe": anyCheck,
		"pval": func(ctx *plrt.Task, e *ast.CallExpr) *errchain.PlError {
			if len(e.Param) != 1 {
				return plrt.NewRunError(ctx, "pval expects 1 argument", e.NamePos)
			}
			return nil
		},
		"pvoid": anyCheck,
		"perr":  anyCheck,
	}
	return call, check
}

// ------------------------------------------------------------------ v2

// TraceKey is the private key under which a v2 run finds its trace.
const TraceKey runtimev2.TaskP = "verif-trace"

// Trace2 is the v2 trace holder.
type Trace2 struct {
	mu    sync.Mutex
	Trace []Rec
	Sig   *Sig  // optional: the signal of the run, so records know whether it had fired
	Mode  int64 // what pmode() returns during this run
}

func (t *Trace2) add(r Rec) {
	if t.Sig != nil {
		t.Sig.mu.Lock()
		r.Poll, r.Fired = t.Sig.Polls, t.Sig.Fired
		abort := false
		if t.Sig.Fired {
			t.Sig.AfterHit++
			lim := t.Sig.Limit
			if lim == 0 {
				lim = 100
			}
			abort = t.Sig.AfterHit >= lim
		}
		if t.Sig.Raised {
			t.Sig.AfterRaise++
			lim := t.Sig.Limit
			if lim == 0 {
				lim = 100
			}
			abort = abort || t.Sig.AfterRaise >= lim
		}
		t.mu.Lock()
		t.Trace = append(t.Trace, r)
		if len(t.Trace) > 200000 {
			abort = true
		}
		if t.Sig.RaiseAtRec > 0 && len(t.Trace) == t.Sig.RaiseAtRec {
			t.Sig.Raised = true
		}
		t.mu.Unlock()
		t.Sig.mu.Unlock()
		if abort {
			panic(AbortSentinel)
		}
		return
	}
	t.mu.Lock()
	t.Trace = append(t.Trace, r)
	t.mu.Unlock()
}

func trace2(ctx *runtimev2.Task) *Trace2 {
	if v, ok := ctx.PValue(TraceKey); ok {
		if t, ok := v.(*Trace2); ok {
			return t
		}
	}
	return nil
}

func dtypeOf(v any) ast.DType {
	_, dt := ast.DectDataType(v)
	return dt
}

// V2 returns the probe functions for the v2 interpreter; arguments are read
// through the declared-parameter binder (GetParam), which is what real v2
// builtins do.
func V2() map[string]*runtimev2.Fn {
	variadic := []*runtimev2.Param{{Name: "label", Typs: []ast.DType{ast.String}}, {Name: "vals", Variable: true}}
	one := []*runtimev2.Param{{Name: "v"}}
	none := []*runtimev2.Param{}
	chk := func(params []*runtimev2.Param) runtimev2.FnCall {
		return func(ctx *runtimev2.Task, e *ast.CallExpr) *errchain.PlError {
			return runtimev2.CheckPassParam(ctx, e, params)
		}
	}
	fns := map[string]*runtimev2.Fn{}
	fns["probe"] = &runtimev2.Fn{
		CallCheck: chk(variadic),
		Call: func(ctx *runtimev2.Task, e *ast.CallExpr) *errchain.PlError {
			lbl, err := runtimev2.GetParamString(ctx, e, variadic, 0)
			if err != nil {
				return err
			}
			vals, err := runtimev2.GetParam(ctx, e, variadic, 1)
			if err != nil {
				return err
			}
			r := Rec{Label: lbl}
			if l, ok := vals.([]any); ok {
				for _, v := range l {
					r.Vals = append(r.Vals, Render(v))
				}
			}
			if t := trace2(ctx); t != nil {
				t.add(r)
			}
			return nil
		},
		Desc: runtimev2.FnDesc{Name: "probe", Params: variadic},
	}
	fns["pval"] = &runtimev2.Fn{
		CallCheck: chk(one),
		Call: func(ctx *runtimev2.Task, e *ast.CallExpr) *errchain.PlError {
			v, err := runtimev2.GetParam(ctx, e, one, 0)
			if err != nil {
				return err
			}
			if t := trace2(ctx); t != nil {
				t.add(Rec{Label: "pval", Vals: []string{Render(v)}})
			}
			ctx.Regs.ReturnAppend(runtimev2.V{V: v, T: dtypeOf(v)})
			return nil
		},
		Desc: runtimev2.FnDesc{Name: "pval", Params: one},
	}
	// pvoid() returns nothing and, like a real builtin that only has side effects, does not touch the result registers.
	fns["pvoid"] = &runtimev2.Fn{
		CallCheck: chk(none),
		Call: func(ctx *runtimev2.Task, e *ast.CallExpr) *errchain.PlError {
			if t := trace2(ctx); t != nil {
				t.add(Rec{Label: "pvoid"})
			}
			return nil
		},
		Desc: runtimev2.FnDesc{Name: "pvoid", Params: none},
	}
	// pvoid1(v) reads one argument and returns nothing.
	fns["pvoid1"] = &runtimev2.Fn{
		CallCheck: chk(one),
		Call: func(ctx *runtimev2.Task, e *ast.CallExpr) *errchain.PlError {
			v, err := runtimev2.GetParam(ctx, e, one, 0)
			if err != nil {
				return err
			}
			if t := trace2(ctx); t != nil {
				t.add(Rec{Label: "pvoid1", Vals: []string{Render(v)}})
			}
			return nil
		},
		Desc: runtimev2.FnDesc{Name: "pvoid1", Params: one},
	}
	// pvoidv(v...) reads a variadic parameter and returns nothing.
	varOnly := []*runtimev2.Param{{Name: "vals", Variable: true}}
	fns["pvoidv"] = &runtimev2.Fn{
		CallCheck: chk(varOnly),
		Call: func(ctx *runtimev2.Task, e *ast.CallExpr) *errchain.PlError {
			vals, err := runtimev2.GetParam(ctx, e, varOnly, 0)
			if err != nil {
				return err
			}
			r := Rec{Label: "pvoidv"}
			if l, ok := vals.([]any); ok {
				for _, v := range l {
					r.Vals = append(r.Vals, Render(v))
				}
			}
			if t := trace2(ctx); t != nil {
				t.add(r)
			}
			return nil
		},
		Desc: runtimev2.FnDesc{Name: "pvoidv", Params: varOnly},
	}
	fns["perr"] = &runtimev2.Fn{
		CallCheck: chk(none),
		Call: func(ctx *runtimev2.Task, e *ast.CallExpr) *errchain.PlError {
			if t := trace2(ctx); t != nil {
				t.add(Rec{Label: "perr"})
			}
			return runtimev2.NewRunError(ctx, "perr: injected failure", e.NamePos)
		},
		Desc: runtimev2.FnDesc{Name: "perr", Params: none},
	}
	// pmulti(v...) returns all its arguments as separate values.
	multi := []*runtimev2.Param{{Name: "vals", Variable: true}}
	// ppoll() is a host function that itself asks whether the run has been told to stop (a long-running builtin would)
	// and returns the answer.
	fns["ppoll"] = &runtimev2.Fn{
		CallCheck: chk(none),
		Call: func(ctx *runtimev2.Task, e *ast.CallExpr) *errchain.PlError {
			stop := ctx.ProcExit()
			if t := trace2(ctx); t != nil {
				t.add(Rec{Label: "ppoll", Vals: []string{Render(stop)}})
			}
			ctx.Regs.ReturnAppend(runtimev2.V{V: stop, T: ast.Bool})
			return nil
		},
		Desc: runtimev2.FnDesc{Name: "ppoll", Params: none},
	}
	// pmode() returns a number the harness chooses per run: the same loaded script takes another path the next time.
	fns["pmode"] = &runtimev2.Fn{
		CallCheck: chk(none),
		Call: func(ctx *runtimev2.Task, e *ast.CallExpr) *errchain.PlError {
			var m int64
			if t := trace2(ctx); t != nil {
				m = t.Mode
			}
			ctx.Regs.ReturnAppend(runtimev2.V{V: m, T: ast.Int})
			return nil
		},
		Desc: runtimev2.FnDesc{Name: "pmode", Params: none},
	}
	fns["pmulti"] = &runtimev2.Fn{
		CallCheck: chk(multi),
		Call: func(ctx *runtimev2.Task, e *ast.CallExpr) *errchain.PlError {
			vals, err := runtimev2.GetParam(ctx, e, multi, 0)
			if err != nil {
				return err
			}
			var out []runtimev2.V
			r := Rec{Label: "pmulti"}
			if l, ok := vals.([]any); ok {
				for _, v := range l {
					out = append(out, runtimev2.V{V: v, T: dtypeOf(v)})
					r.Vals = append(r.Vals, Render(v))
				}
			}
			if t := trace2(ctx); t != nil {
				t.add(r)
			}
			ctx.Regs.ReturnAppend(out...)
			return nil
		},
		Desc: runtimev2.FnDesc{Name: "pmulti", Params: multi},
	}
	// plen(v): length of string/list/map, the one value builtin shared with v1 programs.
	fns["len"] = &runtimev2.Fn{
		CallCheck: chk(one),
		Call: func(ctx *runtimev2.Task, e *ast.CallExpr) *errchain.PlError {
			v, err := runtimev2.GetParam(ctx, e, one, 0)
			if err != nil {
				return err
			}
			n := int64(0)
			switch x := v.(type) {
			case string:
				n = int64(len(x))
			case []any:
				n = int64(len(x))
			case map[string]any:
				n = int64(len(x))
			}
			ctx.Regs.ReturnAppend(runtimev2.V{V: n, T: ast.Int})
			return nil
		},
		Desc: runtimev2.FnDesc{Name: "len", Params: one},
	}
	return fns
}
