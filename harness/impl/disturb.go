package impl

import (
	"sync"
	"sync/atomic"

	plrt "github.com/GuanceCloud/platypus/pkg/engine/runtime"
	"github.com/GuanceCloud/platypus/pkg/inimpl/guancecloud/funcs"
	"github.com/GuanceCloud/platypus/pkg/parser"
)

// Disturbances: operations that are unrelated to the case under test and that are executed right before
// it (a parse of a malformed text before a parse, a failing or cancelled run of another script between the
// load and the run of the case's script). By the properties every operation's outcome is a function of
// its own inputs, so a disturbance can never change a verdict on code where the properties hold; it makes
// the per-case oracles sensitive to state that one operation leaves behind for the next (pooled lexers,
// parsers and tasks, caches keyed too coarsely).

var badTexts = []string{
	"f(a, g(b",
	"x = [1, {\"k\": [2, 3",
	"if a { f(\"abc) }",
	"a = 1 @ 2",
	"\"unterminated",
	"'''never closed",
	"a = = 1\n\n\n\nb = 2\n",
	"x = 1e",
	"x = \"\\q\"",
	"a[",
	"for x in [1, 2 { }",
	"f(a=)",
	"if { }",
	"k = a[1:2:3:4]",
	"# only a comment",
	"a\n=\n1\n+\n(\n2\n",
	"x = 1 y = 2 z = 3 x = 1 y = 2 z = 3 x = 1 y = 2 z = 3 x = 1 y = 2 z = 3 x = 1 y = 2 z = 3 x = 1 y = 2 z = 3 x = 1 y = 2 z = 3 x = 1 y = 2 z = 3 x = 1 y = 2 z = 3 x = (",
	"\n\n\n\n\n\n\n\n\n\n\n\n\n\n\n\n\n\n\n\n\n\n\n\n\n\n\n\n\n\n\n\n\n\n\n\n\n\n\n\nq = ]",
	"x = 0x",
	"s = \"\\u12\"",
	"m = {1: 2}",
	"else { }",
}

var parseTick atomic.Int64

// DisturbParse parses one malformed (or awkward) text; the result is ignored, a panic is swallowed (C05
// reports those on its own inputs).
func DisturbParse() {
	k := parseTick.Add(1)
	src := badTexts[int(k)%len(badTexts)]
	func() {
		defer func() { _ = recover() }()
		_, _ = parser.ParsePipeline("disturb.p", src)
	}()
}

const leakNames = "a = \"LEAK-a\"\nb = \"LEAK-b\"\nc = \"LEAK-c\"\nd = \"LEAK-d\"\nk1 = \"LEAK-k1\"\nk2 = \"LEAK-k2\"\nx = \"LEAK-x\"\ny = \"LEAK-y\"\nz = \"LEAK-z\"\nv = \"LEAK-v\"\nw = \"LEAK-w\"\ni = \"LEAK-i\"\nj = \"LEAK-j\"\nt = \"LEAK-t\"\ns = \"LEAK-s\"\nl = [\"LEAK-l\"]\nm = {\"LEAK\": \"m\"}\nmessage = \"LEAK-message\"\nf = \"LEAK-f\"\ng = \"LEAK-g\"\nn = \"LEAK-n\"\ne = \"LEAK-e\"\np1 = \"LEAK-p1\"\np2 = \"LEAK-p2\"\nr = \"LEAK-r\"\nk = \"LEAK-k\"\nk2 = \"LEAK-k2\"\nkx = \"LEAK-kx\"\nkeep = \"LEAK-keep\"\nout = \"LEAK-out\"\nts = \"LEAK-ts\"\nsrc = \"LEAK-src\"\nq = \"LEAK-q\"\nn1 = \"LEAK-n1\"\nf1 = \"LEAK-f1\"\nt1 = \"LEAK-t1\"\nother = \"LEAK-other\"\ntotal = \"LEAK-total\"\npk = \"LEAK-pk\"\nacc = \"LEAK-acc\"\nthreshold = 7\nunit = \"LEAK-unit\"\nadd_key(leak_field, \"LEAK\")\n"

var disturbSrc = map[string]string{
	"d0.p": leakNames + "l5 = [1]\nif true {\n  q = 1\n  r = l5[5]\n}\n",
	"d1.p": leakNames + "mk = {\"k\": 1}\nfor i = 0; i < 3; i = i + 1 {\n  q = i\n  if i == 1 { r = mk[\"k\"][0] }\n}\n",
	"d2.p": leakNames + "for q in [1, 2, 3] {\n  if q == 2 { exit() }\n}\n",
	"d3.p": leakNames + "for q in \"abc\" {\n  for r in [1, 2] {\n    if r == 2 { break }\n    continue\n  }\n  u = 1 / (len(q) - 1)\n}\n",
	"d4.p": leakNames + "add_pattern(\"leakpat\", \"[a-z]+\")\nif true {\n  add_pattern(\"leakin\", \"\\\\d+\")\n  grok(_, \"%{leakpat:leak_g} %{leakin:leak_n}\")\n  z0 = 0\n  x = 1 % z0\n}\n",
	"d5.p": leakNames + "use(\"d0.p\")\n",
	"d6.p": leakNames + "for i = 0; i < 20000; i = i + 1 {\n  q = 1\n}\n",
}

var disturbScripts []*plrt.Script
var runTick atomic.Int64
var disturbOnce sync.Once

type fireSig struct{ left int }

func (s *fireSig) ExitSignal() bool { s.left--; return s.left < 0 }

// DisturbRun runs one of a few fixed scripts that assign the names the generators draw from and then end
// abnormally inside a block (run-time error, exit(), cancellation); outcome ignored.
func DisturbRun() {
	disturbOnce.Do(func() {
		ok, _, _ := LoadV1(disturbSrc, funcs.FuncsMap, funcs.FuncsCheckMap)
		for _, n := range []string{"d0.p", "d1.p", "d2.p", "d3.p", "d4.p", "d5.p", "d6.p"} {
			if s := ok[n]; s != nil {
				disturbScripts = append(disturbScripts, s)
			}
		}
	})
	if len(disturbScripts) == 0 {
		return
	}
	k := int(runTick.Add(1))
	s := disturbScripts[k%len(disturbScripts)]
	pt := NewPoint("leak_m", map[string]string{"leak_tag": "LEAK"}, map[string]any{"message": "abc 123", "leak_f": int64(1)})
	// the signal fires late: after the assignments and inside the loops (d6 is ended by it, the others end on their own)
	_, _ = RunV1(s, pt, &fireSig{left: 400 + k%7})
}

// DisturbCount reports how many disturbance scripts loaded (for evidence).
func DisturbCount() int {
	DisturbRun()
	return len(disturbScripts)
}
