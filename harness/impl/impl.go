// Package impl is the only place where the harness touches the implementation
// under test. Every entry point recovers panics and reports them as data, so a
// crash inside platypus is an observation, not a harness failure.
package impl

import (
	"fmt"
	"runtime/debug"
	"sync/atomic"

	"github.com/GuanceCloud/platypus/pkg/ast"
	"github.com/GuanceCloud/platypus/pkg/engine"
	plrt "github.com/GuanceCloud/platypus/pkg/engine/runtime"
	"github.com/GuanceCloud/platypus/pkg/engine/runtimev2"
	"github.com/GuanceCloud/platypus/pkg/errchain"
	"github.com/GuanceCloud/platypus/pkg/inimpl/guancecloud/funcs"
	"github.com/GuanceCloud/platypus/pkg/inimpl/guancecloud/input"
	"github.com/GuanceCloud/platypus/pkg/parser"
	"go.uber.org/zap"
)

func init() {
	nop := zap.NewNop().Sugar()
	funcs.InitLog(nop)
	parser.InitLog(nop)
}

// Crash describes a recovered panic.
type Crash struct {
	Value string
	Stack string
}

func (c *Crash) String() string {
	if c == nil {
		return ""
	}
	return "panic: " + c.Value + "\n" + c.Stack
}

func catch(c **Crash) {
	if r := recover(); r != nil {
		*c = &Crash{Value: fmt.Sprint(r), Stack: string(debug.Stack())}
	}
}

// DisturbEvery > 0 makes every n-th Parse be preceded by a parse of an unrelated malformed text.
var DisturbEvery int64
var parseCalls atomic.Int64

// Parse calls parser.ParsePipeline.
func Parse(name, src string) (stmts ast.Stmts, err error, crash *Crash) {
	if DisturbEvery > 0 && parseCalls.Add(1)%DisturbEvery == 0 {
		DisturbParse()
	}
	defer catch(&crash)
	stmts, err = parser.ParsePipeline(name, src)
	return
}

// FuncTables returns copies of the builtin tables extended with extra functions.
func FuncTables(call map[string]plrt.FuncCall, check map[string]plrt.FuncCheck) (map[string]plrt.FuncCall, map[string]plrt.FuncCheck) {
	c := map[string]plrt.FuncCall{}
	k := map[string]plrt.FuncCheck{}
	for n, f := range funcs.FuncsMap {
		c[n] = f
	}
	for n, f := range funcs.FuncsCheckMap {
		k[n] = f
	}
	for n, f := range call {
		c[n] = f
	}
	for n, f := range check {
		k[n] = f
	}
	return c, k
}

// LoadV1 calls engine.ParseScript.
func LoadV1(scripts map[string]string, call map[string]plrt.FuncCall, check map[string]plrt.FuncCheck) (ok map[string]*plrt.Script, errs map[string]error, crash *Crash) {
	if DisturbEvery > 0 && parseCalls.Add(1)%DisturbEvery == 0 {
		DisturbParse()
	}
	defer catch(&crash)
	ok, errs = engine.ParseScript(scripts, call, check)
	return
}

// LoadV1Own does what engine.ParseScript does, except that every script gets the function table table(name) of its
// own: parse, Check, then the exported linker over the whole set.
func LoadV1Own(scripts map[string]string, table func(name string) map[string]plrt.FuncCall, check map[string]plrt.FuncCheck) (ok map[string]*plrt.Script, errs map[string]error, crash *Crash) {
	if DisturbEvery > 0 && parseCalls.Add(1)%DisturbEvery == 0 {
		DisturbParse()
	}
	defer catch(&crash)
	ok, errs = map[string]*plrt.Script{}, map[string]error{}
	for name, content := range scripts {
		stmts, err := parser.ParsePipeline(name, content)
		if err != nil {
			errs[name] = err
			continue
		}
		s := &plrt.Script{FuncCall: table(name), Name: name, Content: content, Ast: stmts}
		if err := s.Check(check); err != nil {
			errs[name] = err
			continue
		}
		ok[name] = s
	}
	ok2, errs2 := engine.EngineCallRefLinkAndCheck(ok, errs)
	for k, v := range errs2 {
		errs[k] = v
	}
	return ok2, errs, nil
}

// Load1 loads a single v1 script named name.
func Load1(name, src string, call map[string]plrt.FuncCall, check map[string]plrt.FuncCheck) (*plrt.Script, error, *Crash) {
	ok, errs, crash := LoadV1(map[string]string{name: src}, call, check)
	if crash != nil {
		return nil, nil, crash
	}
	if e, bad := errs[name]; bad {
		return nil, e, nil
	}
	s := ok[name]
	if s == nil {
		return nil, fmt.Errorf("script neither accepted nor rejected"), nil
	}
	return s, nil, nil
}

// RunV1 runs a loaded script.
func RunV1(s *plrt.Script, pt *input.Point, sig plrt.Signal) (err *errchain.PlError, crash *Crash) {
	defer catch(&crash)
	err = s.Run(pt, sig)
	return
}

// LoadV2 calls engine.ParseV2.
func LoadV2(name, src string, fn map[string]*runtimev2.Fn) (s *runtimev2.Script, err error, crash *Crash) {
	if DisturbEvery > 0 && parseCalls.Add(1)%DisturbEvery == 0 {
		DisturbParse()
	}
	defer catch(&crash)
	s, err = engine.ParseV2(name, src, fn)
	return
}

// RunV2 runs a v2 script.
func RunV2(s *runtimev2.Script, sig runtimev2.Signal, opt ...runtimev2.Opt) (err *errchain.PlError, crash *Crash) {
	defer catch(&crash)
	err = s.Run(sig, opt...)
	return
}

// PlErr extracts a *errchain.PlError from an error value (nil if it is none).
func PlErr(err error) *errchain.PlError {
	if err == nil {
		return nil
	}
	if e, ok := err.(*errchain.PlError); ok {
		return e
	}
	return nil
}

// LnCol is the independent line/column computation: line = 1 + number of
// newlines before pos, column = bytes since the line start + 1.
func LnCol(src string, pos int) (int, int) {
	ln, last := 1, -1
	for i := 0; i < pos && i < len(src); i++ {
		if src[i] == '\n' {
			ln++
			last = i
		}
	}
	return ln, pos - last
}

// NewPoint builds an input point the documented way.
func NewPoint(measurement string, tags map[string]string, fields map[string]any) *input.Point {
	pt := input.GetPoint() // from the pool, as a host does
	t := map[string]string{}
	for k, v := range tags {
		t[k] = v
	}
	f := map[string]any{}
	for k, v := range fields {
		f[k] = v
	}
	return input.InitPt(pt, measurement, t, f, fixedTime)
}

var fixedTime = timeUnix(1_600_000_000)

// ReleasePoint returns a point to the pool (the maps it held stay with the caller).
func ReleasePoint(pt *input.Point) { input.PutPoint(pt) }
