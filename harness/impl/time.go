package impl

import "time"

func timeUnix(s int64) time.Time { return time.Unix(s, 0).UTC() }

// FixedTime is the time every generated input point carries.
func FixedTime() time.Time { return fixedTime }
