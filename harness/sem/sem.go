// Package sem runs one generated case on the implementation (v1 or v2) and on
// the reference model and compares the observable outcomes: probe trace, error
// (presence, file, statement at fault, use() call-site chain), final point.
package sem

import (
	"fmt"
	"github.com/GuanceCloud/platypus/pkg/ast"
	"sort"
	"strings"
	"time"

	plrt "github.com/GuanceCloud/platypus/pkg/engine/runtime"
	"github.com/GuanceCloud/platypus/pkg/engine/runtimev2"
	"github.com/GuanceCloud/platypus/pkg/errchain"
	"github.com/GuanceCloud/platypus/pkg/inimpl/guancecloud/input"
	"verifharness/evid"
	"verifharness/gen"
	"verifharness/impl"
	"verifharness/model"
	"verifharness/probe"
)

// Case is one generated test case: a set of scripts (root "main.p") and an input point.
type Case struct {
	Scripts map[string][]*gen.Node
	Root    string
	Texts   map[string]string
	Meas    string
	Tags    map[string]string
	Fields  map[string]any
	V2      bool
	// Between is a case that is loaded and run between the first and the second run of this case's loaded
	// scripts (set on replays of "earlier script re-run" failures).
	Between *Case
	// Fuel > 0 replaces the model's default statement budget (long-running cases).
	Fuel int
	// RaiseAtRec > 0: the signal of the run is raised while the RaiseAtRec-th probe call executes (see probe.Sig).
	RaiseAtRec int
	// NoHistory switches the second-run checks of Decide off (signal-driven cases, v1/v2 differentials).
	NoHistory bool
	// OwnTables: every script is parsed and checked on its own, given a function table of its own (same functions,
	// each probe function checks that it is running on behalf of the script whose table it sits in), and the set is
	// then linked with the exported linker - what an embedder with per-script tables does.
	OwnTables bool
	// Mode is what pmode() returns (v2 probe table); Modes, when set, is the sequence of modes of successive runs of
	// the one loaded script (see LoadedV2), Mode being the current one.
	Mode     int64
	Modes    []int64
	reportAs *Case
}

func NewCase(prog []*gen.Node) *Case {
	return &Case{Scripts: map[string][]*gen.Node{"main.p": prog}, Root: "main.p", Meas: "m"}
}

// Print renders all scripts (minimal layout unless lay is given) and records positions in the trees.
func (c *Case) Print(lay func() gen.Layout) {
	c.Texts = map[string]string{}
	for name, prog := range c.Scripts {
		var l gen.Layout = gen.Minimal{}
		if lay != nil {
			l = lay()
		}
		c.Texts[name] = gen.Print(prog, l)
		if len(prog) == 0 {
			// a script without statements is a text of its own kind: a comment and a line end (the empty text is no script)
			c.Texts[name] = "# nothing to do here\n"
		}
	}
}

// Replay is the JSON form of a case.
type Replay struct {
	Texts  map[string]string `json:"scripts"`
	Root   string            `json:"root"`
	Meas   string            `json:"measurement"`
	Tags   map[string]string `json:"tags"`
	Fields map[string]string `json:"fields_rendered"`
	V2     bool              `json:"v2,omitempty"`
	Note   string            `json:"note,omitempty"`
	// Between: a case loaded and run between two runs of this case's loaded scripts.
	Between   *Replay `json:"run_between,omitempty"`
	OwnTables bool    `json:"own_function_tables,omitempty"`
	Modes     []int64 `json:"pmode_per_run,omitempty"`
}

func (c *Case) Replay(note string) Replay {
	if c.reportAs != nil {
		r := c.reportAs
		c.reportAs = nil
		return r.Replay(note)
	}
	if c.Between != nil {
		b := c.Between.Replay("")
		f := map[string]string{}
		for k, v := range c.Fields {
			f[k] = probe.Render(v)
		}
		return Replay{Texts: c.Texts, Root: c.Root, Meas: c.Meas, Tags: c.Tags, Fields: f, V2: c.V2, Note: note, Between: &b, OwnTables: c.OwnTables, Modes: c.Modes}
	}
	f := map[string]string{}
	for k, v := range c.Fields {
		f[k] = probe.Render(v)
	}
	return Replay{Texts: c.Texts, Root: c.Root, Meas: c.Meas, Tags: c.Tags, Fields: f, V2: c.V2, Note: note, OwnTables: c.OwnTables, Modes: c.Modes}
}

// ImplOut is what the implementation did.
type ImplOut struct {
	LoadErrs   map[string]error
	Crash      *impl.Crash
	Err        *errchain.PlError
	Trace      []probe.Rec
	Tags       map[string]string
	Fields     map[string]any
	Meas       string
	Time       time.Time
	Polls      int
	After      int // probe calls after the signal was observed true
	AfterRaise int // probe calls after the flag was raised from inside a probe call
	Aborted    bool
	// Again runs the already loaded root script once more on a fresh point with the given fields.
	Again func(fields map[string]any) ImplOut
}

var v1call, v1check = func() (map[string]plrt.FuncCall, map[string]plrt.FuncCheck) {
	c, k := probe.V1()
	return impl.FuncTables(c, k)
}()

// ownTable is script owner's private copy of the function table: the probe functions record a "WRONG-FUNCTION-TABLE"
// entry when they are reached while another script's statements run (a script runs with its own table; the task
// reports the name of the script it runs).
func ownTable(owner string) map[string]plrt.FuncCall {
	t := make(map[string]plrt.FuncCall, len(v1call))
	for n, f := range v1call {
		t[n] = f
	}
	for _, n := range []string{"probe", "pval", "pvoid", "perr"} {
		inner := v1call[n]
		t[n] = func(ctx *plrt.Task, e *ast.CallExpr) *errchain.PlError {
			if ctx.Name() != owner {
				probe.Note(ctx, probe.Rec{Label: "WRONG-FUNCTION-TABLE", Vals: []string{"table of " + owner, "statements of " + ctx.Name()}})
			}
			return inner(ctx, e)
		}
	}
	return t
}

// V1Tables exposes the function tables (builtins + probes).
func V1Tables() (map[string]plrt.FuncCall, map[string]plrt.FuncCheck) { return v1call, v1check }

// RunV1 loads all scripts together and runs the root on a fresh point.
func RunV1(c *Case, fireAt int) ImplOut {
	var out ImplOut
	var ok map[string]*plrt.Script
	var errs map[string]error
	var crash *impl.Crash
	if c.OwnTables {
		ok, errs, crash = impl.LoadV1Own(c.Texts, ownTable, v1check)
	} else {
		ok, errs, crash = impl.LoadV1(c.Texts, v1call, v1check)
	}
	if crash != nil {
		out.Crash = crash
		return out
	}
	if len(errs) > 0 {
		out.LoadErrs = errs
		if _, bad := errs[c.Root]; bad {
			return out
		}
	}
	s := ok[c.Root]
	if s == nil {
		out.LoadErrs = map[string]error{c.Root: fmt.Errorf("root script neither accepted nor rejected")}
		return out
	}
	// an unrelated failing / cancelled run between this load and this run: it must not matter
	impl.DisturbRun()
	errs0 := out.LoadErrs
	out = runLoadedV1(c, s, c.Fields, fireAt)
	out.LoadErrs = errs0
	out.Again = func(fields map[string]any) ImplOut {
		o := runLoadedV1(c, s, fields, fireAt)
		o.LoadErrs = errs0
		return o
	}
	return out
}

func runLoadedV1(c *Case, s *plrt.Script, fields map[string]any, fireAt int) ImplOut {
	var out ImplOut
	pt := impl.NewPoint(c.Meas, c.Tags, fields)
	sig := &probe.Sig{FireAt: fireAt, RaiseAtRec: c.RaiseAtRec}
	if c.Fuel > 3_000_000 {
		sig.MaxPolls = 4 * c.Fuel // a case that is long on purpose
	}
	func() {
		defer func() {
			if r := recover(); r != nil {
				if r == probe.AbortSentinel {
					out.Aborted = true
					return
				}
				panic(r)
			}
		}()
		out.Err, out.Crash = impl.RunV1(s, pt, sig)
	}()
	if out.Crash != nil && strings.Contains(out.Crash.Value, "verif-probe-abort") {
		out.Crash, out.Aborted = nil, true
	}
	if sig.Runaway {
		out.Aborted = true
	}
	out.Trace = sig.Trace
	out.Polls = sig.Polls
	out.After = sig.AfterHit
	out.AfterRaise = sig.AfterRaise
	out.Tags, out.Fields, out.Meas, out.Time = pt.Tags, pt.Fields, pt.Measurement, pt.Time
	if out.Crash == nil {
		impl.ReleasePoint(pt)
	}
	return out
}

var v2fns = probe.V2()

func V2Fns() map[string]*runtimev2.Fn { return v2fns }

// RunV2 loads and runs the root script with the v2 interpreter.
func RunV2(c *Case, sig runtimev2.Signal) ImplOut {
	var out ImplOut
	s, err, crash := impl.LoadV2(c.Root, c.Texts[c.Root], v2fns)
	if crash != nil {
		out.Crash = crash
		return out
	}
	if err != nil {
		out.LoadErrs = map[string]error{c.Root: err}
		return out
	}
	out = runLoadedV2(c, s, sig)
	out.Again = func(map[string]any) ImplOut {
		var sig2 runtimev2.Signal
		if ps, ok := sig.(*probe.Sig); ok {
			sig2 = &probe.Sig{FireAt: ps.FireAt}
		} else if sig != nil {
			sig2 = sig
		}
		return runLoadedV2(c, s, sig2)
	}
	return out
}

// LoadedV2 is a v2 script loaded once and run several times.
type LoadedV2 struct {
	s   *runtimev2.Script
	out ImplOut // load failure
}

func LoadV2(c *Case) *LoadedV2 {
	s, err, crash := impl.LoadV2(c.Root, c.Texts[c.Root], v2fns)
	l := &LoadedV2{s: s}
	if crash != nil {
		l.out.Crash = crash
	} else if err != nil {
		l.out.LoadErrs = map[string]error{c.Root: err}
	}
	return l
}

// Run runs the loaded script once more (pmode() returns c.Mode).
func (l *LoadedV2) Run(c *Case, sig runtimev2.Signal) ImplOut {
	if l.s == nil || l.out.Crash != nil || l.out.LoadErrs != nil {
		return l.out
	}
	return runLoadedV2(c, l.s, sig)
}

func runLoadedV2(c *Case, s *runtimev2.Script, sig runtimev2.Signal) ImplOut {
	var out ImplOut
	tr := &probe.Trace2{Mode: c.Mode}
	if ps, ok := sig.(*probe.Sig); ok {
		tr.Sig = ps
	}
	out.Err, out.Crash = impl.RunV2(s, sig, runtimev2.WithPrivate(map[runtimev2.TaskP]any{probe.TraceKey: tr}))
	if out.Crash != nil && strings.Contains(out.Crash.Value, "verif-probe-abort") {
		out.Crash, out.Aborted = nil, true
	}
	out.Trace = tr.Trace
	if ps, ok := sig.(*probe.Sig); ok {
		out.Polls, out.After = ps.Polls, ps.AfterHit
		out.AfterRaise = ps.AfterRaise
	}
	return out
}

// ModelOut is what the reference predicts.
type ModelOut struct {
	Stdout  string
	Trace   []probe.Rec
	Err     *model.Err
	Pt      *model.Point
	Touched map[string]bool
	MapLoop bool
	Discard error // fuel / size / unsupported: the case is dropped
}

func RunModel(c *Case, opts map[string]int, extra map[string]func(*model.Interp, *gen.Node) (any, error)) ModelOut {
	pt := model.NewPoint(c.Meas, c.Tags, c.Fields)
	in := model.New(pt)
	in.V2 = c.V2
	in.Opts = opts
	in.Scripts = c.Scripts
	in.File = c.Root
	in.Extra = extra
	in.Mode = c.Mode
	if c.Fuel > 0 {
		in.Fuel = c.Fuel
	}
	err := in.Run(c.Scripts[c.Root])
	out := ModelOut{Trace: in.Trace, Pt: pt, Touched: in.Touched, MapLoop: in.MapLoop, Stdout: in.Stdout.String()}
	if err != nil {
		if me, ok := err.(*model.Err); ok {
			out.Err = me
		} else {
			out.Discard = err
		}
	}
	return out
}

func traceStrings(tr []probe.Rec) []string {
	out := make([]string, len(tr))
	for i, r := range tr {
		out[i] = r.String()
	}
	return out
}

// CompareTrace returns "" when the traces agree (as multisets when unordered).
func CompareTrace(want, got []probe.Rec, unordered bool) string {
	w, g := traceStrings(want), traceStrings(got)
	if unordered {
		w, g = append([]string(nil), w...), append([]string(nil), g...)
		sort.Strings(w)
		sort.Strings(g)
	}
	for i := 0; i < len(w) || i < len(g); i++ {
		switch {
		case i >= len(w):
			return fmt.Sprintf("trace has %d records, reference predicts %d; first extra: %s", len(g), len(w), g[i])
		case i >= len(g):
			return fmt.Sprintf("trace has %d records, reference predicts %d; first missing: %s", len(g), len(w), w[i])
		case w[i] != g[i]:
			return fmt.Sprintf("trace record %d is %s, reference predicts %s", i, g[i], w[i])
		}
	}
	return ""
}

// ComparePoint compares the output point with the model's.
func ComparePoint(m *model.Point, tags map[string]string, fields map[string]any, meas string) string {
	wt, wf := m.Tags(), m.Fields()
	for k, v := range wt {
		g, ok := tags[k]
		if !ok {
			return fmt.Sprintf("tag %q missing from the output (reference: %q)", k, v)
		}
		if g != v {
			return fmt.Sprintf("tag %q = %q, reference predicts %q", k, g, v)
		}
	}
	for k := range tags {
		if _, ok := wt[k]; !ok {
			return fmt.Sprintf("unexpected tag %q = %q in the output", k, tags[k])
		}
	}
	for k, v := range wf {
		g, ok := fields[k]
		if !ok {
			return fmt.Sprintf("field %q missing from the output (reference: %s)", k, probe.Render(v))
		}
		if probe.Render(g) != probe.Render(v) {
			return fmt.Sprintf("field %q = %s, reference predicts %s", k, probe.Render(g), probe.Render(v))
		}
	}
	for k := range fields {
		if _, ok := wf[k]; !ok {
			return fmt.Sprintf("unexpected field %q = %s in the output", k, probe.Render(fields[k]))
		}
	}
	if meas != m.Meas {
		return fmt.Sprintf("measurement %q, reference predicts %q", meas, m.Meas)
	}
	return ""
}

// CompareErr checks error presence and location. texts/positions come from the printed trees.
func CompareErr(c *Case, want *model.Err, got *errchain.PlError, checkPos bool) string {
	if want == nil && got == nil {
		return ""
	}
	if want == nil {
		return fmt.Sprintf("run failed with %q, reference predicts success", got.Error())
	}
	if got == nil {
		return fmt.Sprintf("run succeeded, reference predicts an error (%s) in statement %q", want.Msg, stmtText(c, want))
	}
	if !checkPos {
		return ""
	}
	if len(got.PosChain) == 0 {
		return fmt.Sprintf("error %q carries no position", got.Err)
	}
	// the rendered text is the message at the first position, then one line per further position
	{
		text := fmt.Sprintf("%s:%d:%d: %s", got.PosChain[0].File, got.PosChain[0].Ln, got.PosChain[0].Col, got.Err)
		for _, q := range got.PosChain[1:] {
			text += fmt.Sprintf("\n%s:%d:%d:", q.File, q.Ln, q.Col)
		}
		if r := got.Error(); r != text {
			return fmt.Sprintf("the error renders as %q, its message and positions say %q", r, text)
		}
	}
	p0 := got.PosChain[0]
	if p0.File != want.File {
		return fmt.Sprintf("error %q is attributed to %q, the failing construct is in %q", got.Err, p0.File, want.File)
	}
	if want.Stmt != nil && want.Stmt.P.Start >= 0 {
		if p0.Pos < want.Stmt.P.Start || p0.Pos >= want.Stmt.P.End {
			return fmt.Sprintf("error %q is located at %s:%d (offset %d), outside the failing statement %q [%d,%d)", got.Err, p0.File, p0.Ln, p0.Pos, stmtText(c, want), want.Stmt.P.Start, want.Stmt.P.End)
		}
	}
	// the tail of the chain: use() call sites from the innermost outward (builtins may insert their own
	// call site inside the failing statement before them: those entries stay inside the statement)
	sites := want.Sites
	tail := got.PosChain[1:]
	// drop leading entries that are still inside the failing statement of the callee
	for len(tail) > len(sites) {
		q := tail[0]
		if q.File == want.File && want.Stmt != nil && q.Pos >= want.Stmt.P.Start && q.Pos < want.Stmt.P.End {
			tail = tail[1:]
			continue
		}
		break
	}
	if len(tail) != len(sites) {
		return fmt.Sprintf("error chain %q has %d outer call sites, the call tree has %d", got.Error(), len(tail), len(sites))
	}
	for i, s := range sites {
		q := tail[i]
		if q.File != s.File || q.Pos != s.Call.P.Tok {
			return fmt.Sprintf("call site %d of the error chain is %s offset %d, the use() call is in %s at offset %d; chain: %q", i, q.File, q.Pos, s.File, s.Call.P.Tok, got.Error())
		}
		ln, col := impl.LnCol(c.Texts[s.File], q.Pos)
		if ln != q.Ln || col != q.Col {
			return fmt.Sprintf("call site %d says %d:%d, offset %d is at %d:%d", i, q.Ln, q.Col, q.Pos, ln, col)
		}
	}
	return ""
}

func stmtText(c *Case, e *model.Err) string {
	if e.Stmt == nil || e.Stmt.P.Start < 0 {
		return "?"
	}
	src := c.Texts[e.File]
	if e.Stmt.P.End <= len(src) {
		s := src[e.Stmt.P.Start:e.Stmt.P.End]
		if len(s) > 80 {
			s = s[:80] + "..."
		}
		return s
	}
	return "?"
}

// Verdict of one case.
type Verdict struct {
	Msg     string // "" = agrees
	Weak    bool   // an open row was consulted
	Discard error
	Model   ModelOut
	Impl    ImplOut
	Rows    []string
}

// Quiet wraps the additional runs Decide makes (packages that capture standard output replace it).
var Quiet = func(f func()) { f() }

type remembered struct {
	c                    *Case
	pre                  ModelOut
	again                func(map[string]any) ImplOut
	extra                map[string]func(*model.Interp, *gen.Node) (any, error)
	checkPoint, checkPos bool
}

// ring holds the most recent cases whose scripts stay loaded: after a later case has run, one of them is
// run again and must still behave as its own text and point say.
var ring []*remembered
var ringNext int

const ringSize = 6

// Decide runs the case on both sides and accepts if the implementation matches the reference under
// some assignment of the open rows the reference consulted. Having matched, it looks at the history
// around the case as well: the same loaded script run a second time on the same point, run on a point
// whose fields changed type, and an earlier case's loaded script run again after this one - each run
// must match the reference for its own text and point (a loaded script's behaviour is a function of its
// text and the point, not of what ran before).
func Decide(c *Case, run func() ImplOut, extra map[string]func(*model.Interp, *gen.Node) (any, error), checkPoint, checkPos bool) Verdict {
	var v Verdict
	// the reference runs first: a case that exhausts its fuel / size budget is dropped before the
	// implementation is run at all (exponential string growth is a resource limit, not platypus logic)
	pre := RunModel(c, map[string]int{}, extra)
	if pre.Discard != nil {
		v.Model = pre
		v.Discard = pre.Discard
		return v
	}
	io := run()
	v.Impl = io
	firstErrText := ""
	if io.Err != nil {
		firstErrText = io.Err.Error()
	}
	v.Msg, v.Model, v.Rows = match(c, io, pre, extra, checkPoint, checkPos)
	v.Weak = len(v.Rows) > 0
	if v.Msg != "" && c.Between == nil && len(ring) > 0 && !c.NoHistory {
		// should the difference stem from what ran before, the replay can show it: the case that ran just
		// before this one is saved with it and is run between two runs of this case
		prev := ring[(ringNext-1+len(ring))%len(ring)]
		if prev.c.V2 == c.V2 && prev.c != c {
			rep := *c
			pc := *prev.c
			pc.Between, pc.reportAs = nil, nil
			rep.Between = &pc
			rep.reportAs = nil
			c.reportAs = &rep
		}
	}
	if v.Msg != "" || io.Again == nil || c.NoHistory || len(io.LoadErrs) > 0 {
		return v
	}
	// (a) between the two runs of this case, the replayed disturbing case (if any)
	if c.Between != nil {
		b := c.Between
		Quiet(func() {
			if b.V2 {
				RunV2(b, &probe.Sig{})
			} else {
				RunV1(b, 0)
			}
		})
	}
	// (b) second run, same point
	var io2 ImplOut
	Quiet(func() { io2 = io.Again(c.Fields) })
	evid.Label("history/second-run-same-point")
	// whatever the check compares of an error: the second run reports what the first run reported, and the first run's
	// error value is still what it was when it was returned
	if io.Err != nil && io2.Err != nil {
		first := firstErrText
		if io2.Err.Error() != first || io.Err.Error() != first {
			v.Msg = fmt.Sprintf("a second run of the same loaded script on an equal point reports another error than the first run: first %q, second %q, the first run's error value now reads %q", first, io2.Err.Error(), io.Err.Error())
			return v
		}
	}
	if msg, _, _ := match(c, io2, pre, extra, checkPoint, checkPos); msg != "" {
		what := "a second run of the same loaded script on an equal point"
		if c.Between != nil {
			what = "a second run of the same loaded script on an equal point, after another script was loaded and run in between,"
		}
		v.Msg = what + " differs from the reference (the first run agreed): " + msg
		return v
	}
	// (c) the same loaded script on a point whose fields changed type
	if !c.V2 && len(c.Fields) > 0 {
		c2 := *c
		c2.Fields = retyped(c.Fields)
		pre2 := RunModel(&c2, map[string]int{}, extra)
		if pre2.Discard == nil {
			var io3 ImplOut
			Quiet(func() { io3 = io.Again(c2.Fields) })
			evid.Label("history/run-on-retyped-point")
			if msg, _, _ := match(&c2, io3, pre2, extra, checkPoint, checkPos); msg != "" {
				v.Msg = fmt.Sprintf("a further run of the same loaded script on a point with fields %s differs from the reference (the first run agreed): %s", renderMap(c2.Fields), msg)
				return v
			}
		}
	}
	// (d) an earlier case's loaded script, run again after this case
	if len(ring) > 0 && c.Between == nil {
		e := ring[ringNext%len(ring)]
		if e.c.V2 == c.V2 {
			pe := e.pre
			{
				var io4 ImplOut
				Quiet(func() { io4 = e.again(e.c.Fields) })
				evid.Label("history/earlier-script-rerun")
				if msg, _, _ := match(e.c, io4, pe, e.extra, e.checkPoint, e.checkPos); msg != "" {
					rep := *e.c
					rep.Between = c
					rep.reportAs = nil
					c.reportAs = &rep
					v.Msg = fmt.Sprintf("an earlier loaded script, run again on an equal point after the present case had run, differs from the reference (its first run agreed): %s\nearlier script:\n%s\nearlier point: tags %v fields %s", msg, e.c.Texts[e.c.Root], e.c.Tags, renderMap(e.c.Fields))
					return v
				}
			}
		}
	}
	if c.Between == nil {
		r := &remembered{c: c, pre: pre, again: io.Again, extra: extra, checkPoint: checkPoint, checkPos: checkPos}
		if len(ring) < ringSize {
			ring = append(ring, r)
		} else {
			ring[ringNext%ringSize] = r
		}
		ringNext++
	}
	return v
}

func renderMap(f map[string]any) string {
	ks := make([]string, 0, len(f))
	for k := range f {
		ks = append(ks, k)
	}
	sort.Strings(ks)
	var b strings.Builder
	b.WriteString("{")
	for i, k := range ks {
		if i > 0 {
			b.WriteString(", ")
		}
		b.WriteString(k + ": " + probe.Render(f[k]))
	}
	b.WriteString("}")
	return b.String()
}

// retyped changes the type of every field value: int <-> float, string -> int, bool -> string.
func retyped(f map[string]any) map[string]any {
	out := map[string]any{}
	for k, v := range f {
		switch x := v.(type) {
		case int64:
			out[k] = float64(x) + 0.5
		case float64:
			if x != x || x > 1e18 || x < -1e18 {
				out[k] = int64(0)
			} else {
				out[k] = int64(x)
			}
		case string:
			out[k] = int64(len(x))
		case bool:
			if x {
				out[k] = "true"
			} else {
				out[k] = ""
			}
		default:
			out[k] = v
		}
	}
	return out
}

// match compares one implementation outcome with the reference; pre is the reference under the default
// rows. It returns "" and the matching reference outcome, or the first difference.
func match(c *Case, io ImplOut, pre ModelOut, extra map[string]func(*model.Interp, *gen.Node) (any, error), checkPoint, checkPos bool) (string, ModelOut, []string) {
	if io.Crash != nil {
		return "implementation crashed: " + io.Crash.Value + "\n" + firstLines(io.Crash.Stack, 14), pre, nil
	}
	if io.Aborted {
		return "the run did not terminate (stopped after 200000 probe records / 3000000 polls) although the reference terminates", pre, nil
	}
	cmp := func(m ModelOut) string {
		if len(io.LoadErrs) > 0 {
			for n, e := range io.LoadErrs {
				return fmt.Sprintf("valid script %s rejected at load: %v", n, e)
			}
		}
		if s := CompareTrace(m.Trace, io.Trace, m.MapLoop); s != "" {
			return s
		}
		if s := CompareErr(c, m.Err, io.Err, checkPos); s != "" {
			return s
		}
		if checkPoint && !c.V2 {
			if s := ComparePoint(m.Pt, io.Tags, io.Fields, io.Meas); s != "" {
				return s
			}
		}
		return ""
	}
	m := pre
	first := cmp(m)
	rows := touchedRows(m.Touched)
	if first == "" {
		return "", m, rows
	}
	if len(rows) == 0 {
		return first, m, rows
	}
	// explore assignments of the open rows (rows touched may grow as behaviour changes)
	seen := map[string]bool{"": true}
	all := map[string]bool{}
	for _, r := range rows {
		all[r] = true
	}
	for round := 0; round < 3; round++ {
		rs := make([]string, 0, len(all))
		for r := range all {
			rs = append(rs, r)
		}
		sort.Strings(rs)
		if len(rs) > 7 {
			rs = rs[:7]
		}
		grew := false
		for mask := 1; mask < 1<<len(rs); mask++ {
			o := map[string]int{}
			key := ""
			for i, r := range rs {
				if mask&(1<<i) != 0 {
					o[r] = 1
					key += r + ","
				}
			}
			if seen[key] {
				continue
			}
			seen[key] = true
			mm := RunModel(c, o, extra)
			if mm.Discard != nil {
				continue
			}
			if cmp(mm) == "" {
				return "", mm, rows
			}
			for r := range mm.Touched {
				if !all[r] {
					all[r] = true
					grew = true
				}
			}
		}
		if !grew {
			break
		}
	}
	return first + fmt.Sprintf(" (no assignment of the open rows %v matches either)", rows), m, rows
}

func touchedRows(t map[string]bool) []string {
	var out []string
	for r := range t {
		out = append(out, r)
	}
	sort.Strings(out)
	return out
}

func firstLines(s string, n int) string {
	l := strings.Split(s, "\n")
	if len(l) > n {
		l = l[:n]
	}
	return strings.Join(l, "\n")
}

// InputPoint is re-exported for packages that build points directly.
type InputPoint = input.Point

// ParseRendered inverts probe.Render for scalar values.
func ParseRendered(s string) (any, error) {
	switch {
	case s == "nil":
		return nil, nil
	case strings.HasPrefix(s, "b:"):
		return s == "b:true", nil
	case strings.HasPrefix(s, "i:"):
		var i int64
		_, err := fmt.Sscanf(s[2:], "%d", &i)
		return i, err
	case strings.HasPrefix(s, "f:"):
		t := strings.TrimSuffix(s[2:], "(neg0)")
		if t == "NaN" {
			return nanValue(), nil
		}
		f, err := parseFloat(t)
		if strings.HasSuffix(s, "(neg0)") {
			f = negZero()
		}
		return f, err
	case strings.HasPrefix(s, "s:"):
		return unquote(s[2:])
	}
	return nil, fmt.Errorf("cannot parse rendered value %q", s)
}

// FromReplay rebuilds a case from its JSON form: the scripts are re-parsed with the implementation's
// parser and converted, so the model runs on exactly the saved text.
func FromReplay(r Replay) (*Case, error) {
	c := &Case{Scripts: map[string][]*gen.Node{}, Root: r.Root, Texts: r.Texts, Meas: r.Meas, Tags: r.Tags, V2: r.V2, OwnTables: r.OwnTables, Modes: r.Modes, Fields: map[string]any{}}
	for k, v := range r.Fields {
		x, err := ParseRendered(v)
		if err != nil {
			return nil, err
		}
		c.Fields[k] = x
	}
	for name, src := range r.Texts {
		stmts, err, crash := impl.Parse(name, src)
		if crash != nil || err != nil {
			return nil, fmt.Errorf("script %s does not parse: %v %v", name, err, crash)
		}
		tree, cv := convStmts(stmts)
		if cv != nil {
			return nil, cv
		}
		fillSpans(tree, src)
		c.Scripts[name] = tree
	}
	if r.Between != nil {
		b, err := FromReplay(*r.Between)
		if err != nil {
			return nil, err
		}
		c.Between = b
	}
	return c, nil
}
