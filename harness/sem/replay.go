package sem

import (
	"math"
	"strconv"

	"github.com/GuanceCloud/platypus/pkg/ast"
	"verifharness/conv"
	"verifharness/gen"
)

func nanValue() float64                    { return math.NaN() }
func negZero() float64                     { return math.Copysign(0, -1) }
func parseFloat(s string) (float64, error) { return strconv.ParseFloat(s, 64) }
func unquote(s string) (any, error)        { return strconv.Unquote(s) }

func convStmts(stmts ast.Stmts) ([]*gen.Node, error) {
	tree, c := conv.Stmts(stmts)
	return tree, c.Err
}

// fillSpans gives converted statements a span: from their start position to the start of the next
// top-level token sequence (conservatively: to the next sibling's start or the end of the enclosing text).
func fillSpans(prog []*gen.Node, src string) {
	var walk func(l []*gen.Node, end int)
	walk = func(l []*gen.Node, end int) {
		for i, s := range l {
			if s == nil {
				continue
			}
			st := startOf(s)
			s.P.Start = st
			e := end
			if i+1 < len(l) && l[i+1] != nil {
				if ns := startOf(l[i+1]); ns > st {
					e = ns
				}
			}
			s.P.End = e
			for bi, b := range s.Blocks {
				be := e
				if bi < len(s.P.BlockR) {
					be = s.P.BlockR[bi] + 1
				}
				walk(b, be)
			}
			if s.HasElse && len(s.P.BlockR) > 0 {
				walk(s.Else, s.P.BlockR[len(s.P.BlockR)-1]+1)
			}
			if len(s.Body) > 0 && len(s.P.BlockR) > 0 {
				walk(s.Body, s.P.BlockR[len(s.P.BlockR)-1]+1)
			}
		}
	}
	walk(prog, len(src))
}

func startOf(n *gen.Node) int {
	if n == nil {
		return -1
	}
	switch n.Kind {
	case gen.Binary, gen.In, gen.Assign, gen.Slice, gen.Attr, gen.Index:
		if n.Kind == gen.Assign && len(n.Args) > 0 {
			return startOf(n.Args[0])
		}
		if n.X != nil {
			return startOf(n.X)
		}
		if n.Kind == gen.Index && len(n.P.Ls) > 0 {
			return n.P.Ls[0] - 1
		}
	}
	if n.P.Start >= 0 {
		return n.P.Start
	}
	return n.P.Tok
}
