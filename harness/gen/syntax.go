package gen

import (
	"math"
	"strconv"
	"strings"

	"pgregory.net/rapid"
)

// Profile configures the purely syntactic program generator.
type Profile struct {
	Idents   []string
	Funcs    []string
	Strs     []string
	MaxDepth int
	MaxStmts int
	NoAttr   bool
	NoStmts  bool // expressions/assignments only at statement level
}

// OddRunes: one or more representatives of every class of character a lexer may single out: format characters
// (zero-width, directional, tags), space and line separators, combining marks, private use, non-characters, the last
// code point, digits and letters of other scripts that fold to ASCII, full-width forms of the language's own
// punctuation, and characters whose low byte equals an ASCII character that means something (blank, tab, CR, LF,
// quotes, brackets, '#', '=', '.', a digit, a letter) - what a truncating conversion would take them for.
var OddRunes = []rune{
	0x061C, 0x200B, 0x200C, 0x200D, 0x200E, 0x200F, 0x202A, 0x202B, 0x202C, 0x202D, 0x202E, 0x2060, 0x2066, 0x2067, 0x2068, 0x2069, 0xFEFF, 0xE0001, 0xE0020,
	0x00A0, 0x1680, 0x2003, 0x202F, 0x3000, 0x2028, 0x2029, 0x0085,
	0x0301, 0x20DD, 0xE000, 0xF8FF, 0xFFFE, 0xFFFF, 0xFFFD, 0x10FFFF, 0x1FFFE, 0x10000, 0x3FFFF, 0x40000,
	0x0661, 0xFF11, 0x212A, 0x017F, 0x0130, 0x0131, 0xFF41, 0xFF1D, 0xFF08, 0xFF3B, 0xFF5B, 0xFF02, 0xFF0E,
	0x0120, 0x0109, 0x010D, 0x010A, 0x0122, 0x0127, 0x0123, 0x0128, 0x015B, 0x017B, 0x0130, 0x0141, 0x0161, 0x013D, 0x0160, 0x015C, 0x012E, 0x012C, 0x013A, 0x013B,
	0x4E09, 0x4E0D, 0x2020, 0x1F609, 0x1F60D, 0x0420, 0x2009, 0x200A, 0x2022, 0x2027, 0x205F,
	// letters whose lower- or upper-case form has another length in bytes, or is an ASCII letter
	0x023A, 0x023E, 0x1E9E, 0x2126, 0x212B, 0x0390, 0x00DF, 0x0149, 0x01F0, 0xFB00, 0x2C65, 0x2C66,
}

// CaseShiftingWords: names of 8..12 bytes that hold one letter whose case mapping changes its length in bytes: what a
// fixed buffer sized for the longest keyword sees at and around its limit.
func CaseShiftingWords() []string {
	var out []string
	for _, r := range []rune{0x023A, 0x023E, 0x1E9E, 0x0130, 0x2126, 0x212A, 0x00DF, 0x0149} {
		w := len(string(r))
		for total := 8; total <= 12; total++ {
			if total-w < 1 {
				continue
			}
			pad := strings.Repeat("a", total-w)
			out = append(out, pad+string(r), string(r)+pad, pad[:len(pad)/2]+string(r)+pad[len(pad)/2:])
		}
		out = append(out, strings.Repeat(string(r), 4), strings.Repeat(string(r), 5), "rate_"+string(r)+string(r))
	}
	return out
}

// OddIdents are identifiers that begin with, end with or consist of one odd rune.
func OddIdents() []string {
	var out []string
	for _, r := range OddRunes {
		out = append(out, string(r)+"a", "a"+string(r), string(r))
	}
	return out
}

func ProfileSyntax() *Profile {
	return &Profile{
		Idents: []string{"a", "b", "c", "x1", "_", "_v", "msg", "é", "a b", "1x", "if", "IN", "ü_1", "注", "\ufeffa", "\ufeff", "\u200bq", "\U0001F600",
			// words that start or end like a reserved word
			"identifiers", "identifier_id", "IdentifierCount", "iffy", "format", "inner", "elsewhere", "breaks", "continued", "truely", "nilx", "nullable", "infx", "nanx", "in1", "xif", "bfor", "_in", "elif2", "Trueish",
			// a reserved word directly followed by a character beyond ASCII
			"for\u00eat", "str\u00f6mung", "int\u00e9r\u00eat", "nil\u00fcfer", "in\u00f6n\u00fc", "inf\u00e9", "if\u00e9", "elif\u00e9", "break\u00f1", "true\u00e9", "FOR\u00eat", "else\u6ce8", "continue\u00e9", "nan\u00e9", "false\u00df", "list\u00f3n", "map\u00e9", "bool\u00e9", "float\u00e9"},
		Funcs:    []string{"f", "g", "len", "add_key", "my fn"},
		Strs:     []string{"", "a", "ab", "a\"b", "it's", "é", "\n", "\\", "#", "x y", "\x00", "k"},
		MaxDepth: 5,
		MaxStmts: 6,
	}
}

var binOps = []string{"+", "-", "*", "/", "%", "==", "!=", "<", "<=", ">", ">=", "&&", "||", "in"}
var unOps = []string{"-", "+", "!"}
var assignOps = []string{"=", "=", "=", "+=", "-=", "*=", "/=", "%="}

func pick[T any](t *rapid.T, label string, xs []T) T {
	return xs[rapid.IntRange(0, len(xs)-1).Draw(t, label)]
}

var intPool = []int64{0, 1, 2, 3, 7, 10, 42, 255, 1 << 31, 1 << 53, math.MaxInt64, 14, 30, 254, 0xbe, 0x1e2e, 0xabcde, 0xe0e, 1 << 62}
var floatPool = []float64{975.2416188605783, 0.9007199254740993, 361.80548048031693, 123456.78901234567, 0.1234567890123456, 9007199254740.993, 0.5, 1.5, 2.0, 1e10, 1e-7, 3.141592653589793, 1e308, math.Inf(1), 0.0, 9223372036854775808.0, 18446744073709551616.0, 4294967296.0, 5e-324}

func (p *Profile) literal(t *rapid.T) *Node {
	switch rapid.IntRange(0, 7).Draw(t, "lit") {
	case 0, 1:
		n := NInt(pick(t, "int", intPool))
		switch rapid.IntRange(0, 9).Draw(t, "hex") {
		case 0, 1:
			n.Raw = hexText(n.I)
		case 2:
			n.Raw = "0X" + strings.ToUpper(hexText(n.I)[2:])
		case 3:
			n.Raw = "0x" + strings.ToUpper(hexText(n.I)[2:])
		case 4:
			// a leading zero: the digits are octal
			if n.I > 0 {
				n.Raw = "0" + strconv.FormatInt(n.I, 8)
			}
		}
		return n
	case 2:
		return NFloat(pick(t, "float", floatPool))
	case 3, 4:
		n := NStr(pick(t, "str", p.Strs))
		switch rapid.IntRange(0, 3).Draw(t, "quote") {
		case 0:
			n.Raw = QuoteSingle(n.S)
		case 1:
			if raw, ok := TripleQuote(n.S, '"'); ok {
				n.Raw = raw
			}
		}
		return n
	case 5:
		n := NBool(rapid.Bool().Draw(t, "bool"))
		if rapid.IntRange(0, 4).Draw(t, "case") == 0 {
			n.Raw = "TRUE"
			if !n.B {
				n.Raw = "False"
			}
		}
		return n
	default:
		n := NNil()
		if rapid.Bool().Draw(t, "null") {
			n.Raw = "null"
		}
		return n
	}
}

func hexText(i int64) string {
	const d = "0123456789abcdef"
	if i == 0 {
		return "0x0"
	}
	var b []byte
	for u := uint64(i); u > 0; u >>= 4 {
		b = append([]byte{d[u&15]}, b...)
	}
	return "0x" + string(b)
}

// TripleQuote spells s as a raw triple-quoted literal if that is unambiguous
// (no quote characters and not empty).
func TripleQuote(s string, q byte) (string, bool) {
	if s == "" {
		return "", false
	}
	for i := 0; i < len(s); i++ {
		if s[i] == '"' || s[i] == '\'' {
			return "", false
		}
	}
	qq := string([]byte{q, q, q})
	return qq + s + qq, true
}

var oddIdents = append(OddIdents(), CaseShiftingWords()...)

func (p *Profile) identName(t *rapid.T) string {
	if rapid.IntRange(0, 9).Draw(t, "oddident") == 0 {
		return pick(t, "oddname", oddIdents)
	}
	return pick(t, "ident", p.Idents)
}

func (p *Profile) ident(t *rapid.T) *Node { return NIdent(p.identName(t)) }

// indexExpr builds ident[i][j]...
func (p *Profile) indexExpr(t *rapid.T, d int) *Node {
	n := rapid.IntRange(1, 3).Draw(t, "nidx")
	idx := make([]*Node, n)
	for i := range idx {
		idx[i] = p.Expr(t, d-1)
	}
	if rapid.IntRange(0, 7).Draw(t, "rootless") == 0 {
		// the root-less form .[i][j]
		return NIndex(nil, idx...)
	}
	return NIndex(p.ident(t), idx...)
}

func (p *Profile) attrExpr(t *rapid.T, d int) *Node {
	part := func() *Node {
		if d > 1 && rapid.IntRange(0, 3).Draw(t, "attridx") == 0 {
			return p.indexExpr(t, 1)
		}
		return p.ident(t)
	}
	n := NAttr(part(), part())
	for rapid.IntRange(0, 2).Draw(t, "more") == 0 {
		n = NAttr(n, part())
	}
	return n
}

func (p *Profile) sliceBound(t *rapid.T, d int) *Node {
	if rapid.IntRange(0, 2).Draw(t, "omit") == 0 {
		return nil
	}
	for tries := 0; tries < 4; tries++ {
		e := Fold(p.Expr(t, d-1))
		switch e.Kind {
		case Float, List, Str: // rejected by the parser as literal bounds (documented restriction)
			continue
		}
		return e
	}
	return NInt(1)
}

func (p *Profile) sliceExpr(t *rapid.T, d int) *Node {
	var obj *Node
	switch rapid.IntRange(0, 5).Draw(t, "sobj") {
	case 0, 1:
		obj = p.ident(t)
	case 2:
		obj = NStr(pick(t, "str", p.Strs))
	case 3:
		obj = p.listLit(t, d-1)
	case 4:
		obj = p.call(t, d-1)
	default:
		if d > 1 {
			obj = p.sliceExpr(t, d-1)
		} else {
			obj = p.ident(t)
		}
	}
	lo, hi, st := p.sliceBound(t, d), p.sliceBound(t, d), p.sliceBound(t, d)
	c2 := st != nil || rapid.Bool().Draw(t, "colon2")
	return NSlice(obj, lo, hi, st, c2)
}

func (p *Profile) listLit(t *rapid.T, d int) *Node {
	n := rapid.IntRange(0, 3).Draw(t, "nlist")
	l := NList()
	for i := 0; i < n; i++ {
		l.Args = append(l.Args, p.Expr(t, d-1))
	}
	l.Trailing = n > 0 && rapid.IntRange(0, 3).Draw(t, "trail") == 0
	return l
}

func (p *Profile) mapLit(t *rapid.T, d int) *Node {
	n := rapid.IntRange(0, 3).Draw(t, "nmap")
	m := NMap()
	for i := 0; i < n; i++ {
		var k *Node
		if rapid.IntRange(0, 3).Draw(t, "kexpr") == 0 {
			k = p.Expr(t, d-1)
		} else {
			k = NStr(pick(t, "str", p.Strs))
		}
		m.Args = append(m.Args, k, p.Expr(t, d-1))
	}
	m.Trailing = n > 0 && rapid.IntRange(0, 3).Draw(t, "trail") == 0
	return m
}

func (p *Profile) call(t *rapid.T, d int) *Node {
	n := rapid.IntRange(0, 3).Draw(t, "nargs")
	c := NCall(pick(t, "fn", p.Funcs))
	named := false
	for i := 0; i < n; i++ {
		if named || rapid.IntRange(0, 4).Draw(t, "named") == 0 {
			named = true
			c.Args = append(c.Args, NAssign("=", []*Node{p.ident(t)}, []*Node{p.Expr(t, d-1)}))
		} else {
			c.Args = append(c.Args, p.Expr(t, d-1))
		}
	}
	c.Trailing = n > 0 && rapid.IntRange(0, 4).Draw(t, "trail") == 0
	return c
}

func zeroLiteral(n *Node) bool {
	switch n.Kind {
	case Int:
		return n.I == 0
	case Float:
		return n.F == 0
	}
	return false
}

// Expr generates a random expression of depth <= d. The result still needs Fix.
func (p *Profile) Expr(t *rapid.T, d int) *Node {
	if d <= 0 {
		if rapid.Bool().Draw(t, "leafid") {
			return p.ident(t)
		}
		return p.literal(t)
	}
	switch rapid.IntRange(0, 15).Draw(t, "expr") {
	case 0, 1:
		return p.ident(t)
	case 2, 3:
		return p.literal(t)
	case 4, 5, 6, 7:
		op := pick(t, "binop", binOps)
		x, y := p.Expr(t, d-1), p.Expr(t, d-1)
		if (op == "/" || op == "%") && zeroLiteral(Fold(y)) {
			y = NInt(2) // a literal zero divisor is rejected by the parser (documented)
		}
		return NBin(op, x, y)
	case 8:
		return NUnary(pick(t, "unop", unOps), p.Expr(t, d-1))
	case 9:
		return p.call(t, d)
	case 10:
		return p.indexExpr(t, d)
	case 11:
		return p.sliceExpr(t, d)
	case 12:
		return p.listLit(t, d)
	case 13:
		return p.mapLit(t, d)
	case 14:
		return NParen(p.Expr(t, d-1))
	default:
		if p.NoAttr {
			return p.ident(t)
		}
		return p.attrExpr(t, d)
	}
}

func (p *Profile) assignTarget(t *rapid.T, d int) *Node {
	if rapid.IntRange(0, 3).Draw(t, "tidx") == 0 {
		return p.indexExpr(t, d)
	}
	return p.ident(t)
}

func (p *Profile) assign(t *rapid.T, d int) *Node {
	op := pick(t, "aop", assignOps)
	if op == "=" && rapid.IntRange(0, 5).Draw(t, "multi") == 0 {
		n := rapid.IntRange(2, 3).Draw(t, "nmulti")
		var l, r []*Node
		for i := 0; i < n; i++ {
			l = append(l, p.assignTarget(t, d))
			r = append(r, p.Expr(t, d-1))
		}
		return NAssign(op, l, r)
	}
	return NAssign(op, []*Node{p.assignTarget(t, d)}, []*Node{p.Expr(t, d-1)})
}

func (p *Profile) block(t *rapid.T, d int, inLoop bool) []*Node {
	n := rapid.IntRange(0, 3).Draw(t, "nblock")
	var b []*Node
	for i := 0; i < n; i++ {
		b = append(b, p.Stmt(t, d-1, inLoop))
	}
	return b
}

func (p *Profile) forClause(t *rapid.T, d int) *Node {
	switch rapid.IntRange(0, 2).Draw(t, "clause") {
	case 0:
		return nil
	case 1:
		return p.assign(t, d)
	default:
		return p.Expr(t, d-1)
	}
}

// Stmt generates a random statement.
func (p *Profile) Stmt(t *rapid.T, d int, inLoop bool) *Node {
	k := rapid.IntRange(0, 11).Draw(t, "stmt")
	if d <= 0 || p.NoStmts {
		if k%2 == 0 {
			return p.assign(t, maxInt(d, 1))
		}
		return p.Expr(t, maxInt(d, 1))
	}
	switch k {
	case 0, 1, 2:
		return p.assign(t, d)
	case 3, 4:
		return p.Expr(t, d)
	case 5, 6:
		n := rapid.IntRange(1, 3).Draw(t, "nif")
		var conds []*Node
		var blocks [][]*Node
		for i := 0; i < n; i++ {
			conds = append(conds, p.Expr(t, d-1))
			blocks = append(blocks, p.block(t, d, inLoop))
		}
		hasElse := rapid.Bool().Draw(t, "else")
		var els []*Node
		if hasElse {
			els = p.block(t, d, inLoop)
		}
		return NIf(conds, blocks, els, hasElse)
	case 7:
		var cond *Node
		if rapid.Bool().Draw(t, "hascond") {
			cond = p.Expr(t, d-1)
		}
		return NFor(p.forClause(t, d), cond, p.forClause(t, d), p.block(t, d, true))
	case 8:
		iter := p.Expr(t, d-1)
		switch Fold(iter).Kind {
		case Bool, Nil, Int, Float: // literal iterables of these kinds are rejected by the parser (documented)
			iter = p.ident(t)
		}
		return NForIn(p.identName(t), iter, p.block(t, d, true))
	case 9:
		if inLoop {
			return NBreak()
		}
		return p.Expr(t, d)
	case 10:
		if inLoop {
			return NContinue()
		}
		return p.assign(t, d)
	default:
		return p.call(t, d)
	}
}

func maxInt(a, b int) int {
	if a > b {
		return a
	}
	return b
}

// Program generates a syntactically valid program (already parenthesised by Fix).
func Program(t *rapid.T, p *Profile) []*Node {
	n := rapid.IntRange(1, p.MaxStmts).Draw(t, "nstmts")
	d := rapid.IntRange(1, p.MaxDepth).Draw(t, "depth")
	var prog []*Node
	for i := 0; i < n; i++ {
		prog = append(prog, p.Stmt(t, d, false))
	}
	return FixAll(prog)
}

// RandomLayout draws an admissible layout.
func RandomLayout(t *rapid.T) *Choices {
	mode := rapid.IntRange(0, 3).Draw(t, "laymode")
	switch mode {
	case 0:
		return &Choices{C: []int{0}}
	case 1:
		return &Choices{C: []int{1}}
	}
	return &Choices{C: rapid.SliceOfN(rapid.IntRange(0, 23), 24, 24).Draw(t, "layout"), KW: rapid.SampledFrom([]int{0, 0, 0, 0, 1, 2, 3}).Draw(t, "kwcase")}
}
