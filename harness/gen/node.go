// Package gen holds the harness's own syntax tree for platypus programs, a
// printer that records the byte offset of every token, a layout engine that
// knows where the grammar admits blanks, line breaks and comments, and random
// program generators.
package gen

import (
	"fmt"
	"math"
	"strings"
)

type Kind uint8

const (
	KInvalid Kind = iota
	Ident
	Str
	Int
	Float
	Bool
	Nil
	List
	Map
	Paren
	Attr
	Index
	Unary
	Binary // arithmetic and conditional operators
	In
	Call
	Slice
	Assign
	If
	For
	ForIn
	Break
	Continue
)

var kindNames = map[Kind]string{
	Ident: "Ident", Str: "Str", Int: "Int", Float: "Float", Bool: "Bool", Nil: "Nil", List: "List", Map: "Map",
	Paren: "Paren", Attr: "Attr", Index: "Index", Unary: "Unary", Binary: "Binary", In: "In", Call: "Call",
	Slice: "Slice", Assign: "Assign", If: "If", For: "For", ForIn: "ForIn", Break: "Break", Continue: "Continue",
}

func (k Kind) String() string {
	if s, ok := kindNames[k]; ok {
		return s
	}
	return fmt.Sprintf("Kind(%d)", int(k))
}

// Pos holds the byte offsets the printer recorded (or conv copied from the
// parsed tree). -1 = not recorded / not applicable.
type Pos struct {
	Start, End int   // text span of the node [Start,End)
	Tok        int   // the node's primary token (see printer)
	L, R       int   // opening / closing bracket of call, paren, list, map, slice
	Ls, Rs     []int // index chain brackets
	Ifs        []int // if / elif keywords
	ElsePos    int
	InPos      int
	BlockL     []int // opening braces of the node's blocks (if blocks..., else / loop body)
	BlockR     []int
}

func noPos() Pos { return Pos{Start: -1, End: -1, Tok: -1, L: -1, R: -1, ElsePos: -1, InPos: -1} }

type Node struct {
	Kind  Kind
	Name  string   // Ident: name; Call: function name
	S     string   // Str: value
	I     int64    // Int
	F     float64  // Float
	B     bool     // Bool
	Raw   string   // optional literal spelling (printed instead of the canonical one)
	Signs []string // sign tokens folded into a numeric literal, outermost first (the value already includes them)
	Op    string   // Unary, Binary, Assign operator text

	X, Y *Node // Unary: X; Binary/In: X op Y; Paren: X; Attr: X.Y; Slice: X[...]; Index: X (Ident, nil for `.[i]`); ForIn: X in Y

	Lo, Hi, Step *Node // Slice bounds; For: Lo=init, Hi=cond, Step=loop clause
	Colon2       bool  // Slice: second colon present

	Args []*Node // List elements; Call arguments; Index chain; Map k0,v0,k1,v1,...; Assign left side
	Rhs  []*Node // Assign right side

	Conds   []*Node   // If: conditions of if / elif
	Blocks  [][]*Node // If: one block per condition
	Else    []*Node
	HasElse bool
	Body    []*Node // For, ForIn

	Trailing bool // trailing comma in list, map, call

	P Pos
}

func mk(k Kind) *Node { return &Node{Kind: k, P: noPos()} }

func NIdent(name string) *Node { n := mk(Ident); n.Name = name; return n }
func NStr(s string) *Node      { n := mk(Str); n.S = s; return n }
func NInt(i int64) *Node       { n := mk(Int); n.I = i; return n }
func NFloat(f float64) *Node   { n := mk(Float); n.F = f; return n }
func NBool(b bool) *Node       { n := mk(Bool); n.B = b; return n }
func NNil() *Node              { return mk(Nil) }
func NList(e ...*Node) *Node   { n := mk(List); n.Args = e; return n }
func NMap(kv ...*Node) *Node   { n := mk(Map); n.Args = kv; return n }
func NParen(x *Node) *Node     { n := mk(Paren); n.X = x; return n }
func NAttr(x, y *Node) *Node   { n := mk(Attr); n.X = x; n.Y = y; return n }
func NIndex(obj *Node, idx ...*Node) *Node {
	n := mk(Index)
	n.X = obj
	n.Args = idx
	return n
}
func NUnary(op string, x *Node) *Node { n := mk(Unary); n.Op = op; n.X = x; return n }
func NBin(op string, x, y *Node) *Node {
	n := mk(Binary)
	if op == "in" {
		n.Kind = In
	}
	n.Op = op
	n.X = x
	n.Y = y
	return n
}
func NCall(name string, args ...*Node) *Node { n := mk(Call); n.Name = name; n.Args = args; return n }
func NSlice(obj, lo, hi, step *Node, colon2 bool) *Node {
	n := mk(Slice)
	n.X, n.Lo, n.Hi, n.Step = obj, lo, hi, step
	n.Colon2 = colon2 || step != nil
	return n
}
func NAssign(op string, l, r []*Node) *Node {
	n := mk(Assign)
	n.Op = op
	n.Args = l
	n.Rhs = r
	return n
}
func NSet(name string, v *Node) *Node { return NAssign("=", []*Node{NIdent(name)}, []*Node{v}) }
func NIf(conds []*Node, blocks [][]*Node, els []*Node, hasElse bool) *Node {
	n := mk(If)
	n.Conds, n.Blocks, n.Else, n.HasElse = conds, blocks, els, hasElse
	return n
}
func NFor(init, cond, loop *Node, body []*Node) *Node {
	n := mk(For)
	n.Lo, n.Hi, n.Step, n.Body = init, cond, loop, body
	return n
}
func NForIn(v string, iter *Node, body []*Node) *Node {
	n := mk(ForIn)
	n.X, n.Y, n.Body = NIdent(v), iter, body
	return n
}
func NBreak() *Node    { return mk(Break) }
func NContinue() *Node { return mk(Continue) }

// IsStmtOnly reports whether the node can only stand as a statement.
func (n *Node) IsStmtOnly() bool {
	switch n.Kind {
	case Assign, If, For, ForIn, Break, Continue:
		return true
	}
	return false
}

// Clone makes a deep copy (positions included).
func (n *Node) Clone() *Node {
	if n == nil {
		return nil
	}
	c := *n
	c.X, c.Y, c.Lo, c.Hi, c.Step = n.X.Clone(), n.Y.Clone(), n.Lo.Clone(), n.Hi.Clone(), n.Step.Clone()
	c.Args = cloneList(n.Args)
	c.Rhs = cloneList(n.Rhs)
	c.Conds = cloneList(n.Conds)
	c.Else = cloneList(n.Else)
	c.Body = cloneList(n.Body)
	if n.Blocks != nil {
		c.Blocks = make([][]*Node, len(n.Blocks))
		for i, b := range n.Blocks {
			c.Blocks[i] = cloneList(b)
		}
	}
	c.P.Ls = append([]int(nil), n.P.Ls...)
	c.P.Rs = append([]int(nil), n.P.Rs...)
	c.P.Ifs = append([]int(nil), n.P.Ifs...)
	c.P.BlockL = append([]int(nil), n.P.BlockL...)
	c.P.BlockR = append([]int(nil), n.P.BlockR...)
	return &c
}

func cloneList(l []*Node) []*Node {
	if l == nil {
		return nil
	}
	o := make([]*Node, len(l))
	for i, x := range l {
		o[i] = x.Clone()
	}
	return o
}

// Children calls f for every direct child expression/statement (nil children skipped).
func (n *Node) Children(f func(*Node)) {
	each := func(l []*Node) {
		for _, x := range l {
			if x != nil {
				f(x)
			}
		}
	}
	for _, x := range []*Node{n.X, n.Y, n.Lo, n.Hi, n.Step} {
		if x != nil {
			f(x)
		}
	}
	each(n.Args)
	each(n.Rhs)
	for i := range n.Conds {
		if n.Conds[i] != nil {
			f(n.Conds[i])
		}
		if i < len(n.Blocks) {
			each(n.Blocks[i])
		}
	}
	each(n.Else)
	each(n.Body)
}

// Walk visits n and all descendants in pre-order.
func Walk(n *Node, f func(*Node)) {
	if n == nil {
		return
	}
	f(n)
	n.Children(func(c *Node) { Walk(c, f) })
}

func WalkAll(p []*Node, f func(*Node)) {
	for _, s := range p {
		Walk(s, f)
	}
}

// Shape renders the tree without positions and spellings: used for structural
// comparison, hashing and messages.
func (n *Node) Shape() string {
	var b strings.Builder
	shape(&b, n)
	return b.String()
}

func ShapeAll(p []*Node) string {
	var b strings.Builder
	for i, s := range p {
		if i > 0 {
			b.WriteString("; ")
		}
		shape(&b, s)
	}
	return b.String()
}

func shapeList(b *strings.Builder, l []*Node) {
	for i, x := range l {
		if i > 0 {
			b.WriteString(" ")
		}
		shape(b, x)
	}
}

func shape(b *strings.Builder, n *Node) {
	if n == nil {
		b.WriteString("_")
		return
	}
	switch n.Kind {
	case Ident:
		fmt.Fprintf(b, "id:%q", n.Name)
	case Str:
		fmt.Fprintf(b, "s:%q", n.S)
	case Int:
		fmt.Fprintf(b, "i:%d", n.I)
	case Float:
		if math.IsNaN(n.F) {
			b.WriteString("f:NaN")
		} else {
			fmt.Fprintf(b, "f:%x", math.Float64bits(n.F))
		}
	case Bool:
		fmt.Fprintf(b, "b:%v", n.B)
	case Nil:
		b.WriteString("nil")
	case List:
		b.WriteString("(list ")
		shapeList(b, n.Args)
		b.WriteString(")")
	case Map:
		b.WriteString("(map ")
		shapeList(b, n.Args)
		b.WriteString(")")
	case Paren:
		b.WriteString("(paren ")
		shape(b, n.X)
		b.WriteString(")")
	case Attr:
		b.WriteString("(attr ")
		shape(b, n.X)
		b.WriteString(" ")
		shape(b, n.Y)
		b.WriteString(")")
	case Index:
		b.WriteString("(index ")
		shape(b, n.X)
		b.WriteString(" ")
		shapeList(b, n.Args)
		b.WriteString(")")
	case Unary:
		fmt.Fprintf(b, "(u%s ", n.Op)
		shape(b, n.X)
		b.WriteString(")")
	case Binary, In:
		fmt.Fprintf(b, "(%s ", n.Op)
		shape(b, n.X)
		b.WriteString(" ")
		shape(b, n.Y)
		b.WriteString(")")
	case Call:
		fmt.Fprintf(b, "(call %q ", n.Name)
		shapeList(b, n.Args)
		b.WriteString(")")
	case Slice:
		fmt.Fprintf(b, "(slice%v ", n.Colon2)
		shape(b, n.X)
		b.WriteString(" ")
		shape(b, n.Lo)
		b.WriteString(" ")
		shape(b, n.Hi)
		b.WriteString(" ")
		shape(b, n.Step)
		b.WriteString(")")
	case Assign:
		fmt.Fprintf(b, "(assign%s [", n.Op)
		shapeList(b, n.Args)
		b.WriteString("] [")
		shapeList(b, n.Rhs)
		b.WriteString("])")
	case If:
		b.WriteString("(if")
		for i := range n.Conds {
			b.WriteString(" ")
			shape(b, n.Conds[i])
			b.WriteString(" {")
			shapeList(b, n.Blocks[i])
			b.WriteString("}")
		}
		if n.HasElse {
			b.WriteString(" else {")
			shapeList(b, n.Else)
			b.WriteString("}")
		}
		b.WriteString(")")
	case For:
		b.WriteString("(for ")
		shape(b, n.Lo)
		b.WriteString(" ")
		shape(b, n.Hi)
		b.WriteString(" ")
		shape(b, n.Step)
		b.WriteString(" {")
		shapeList(b, n.Body)
		b.WriteString("})")
	case ForIn:
		b.WriteString("(forin ")
		shape(b, n.X)
		b.WriteString(" ")
		shape(b, n.Y)
		b.WriteString(" {")
		shapeList(b, n.Body)
		b.WriteString("})")
	case Break:
		b.WriteString("break")
	case Continue:
		b.WriteString("continue")
	default:
		fmt.Fprintf(b, "?%d", n.Kind)
	}
}

// Skeleton is Shape with leaf values blanked: the "shape hash" used for distinct counts.
func Skeleton(p []*Node) string {
	var b strings.Builder
	for _, s := range p {
		skel(&b, s)
		b.WriteByte(';')
	}
	return b.String()
}

func skel(b *strings.Builder, n *Node) {
	if n == nil {
		b.WriteByte('_')
		return
	}
	switch n.Kind {
	case Ident:
		b.WriteByte('v')
	case Str:
		b.WriteByte('s')
	case Int:
		b.WriteByte('i')
	case Float:
		b.WriteByte('f')
	case Bool:
		b.WriteByte('b')
	case Nil:
		b.WriteByte('n')
	default:
		b.WriteByte('(')
		b.WriteString(n.Kind.String())
		b.WriteString(n.Op)
		if n.Kind == Call {
			b.WriteString(n.Name)
		}
		if n.Kind == Slice {
			for _, x := range []*Node{n.Lo, n.Hi, n.Step} {
				if x == nil {
					b.WriteByte('-')
				} else {
					b.WriteByte('+')
				}
			}
		}
		n.Children(func(c *Node) { skel(b, c) })
		if n.Kind == If && n.HasElse {
			b.WriteByte('E')
		}
		b.WriteByte(')')
	}
}
