package gen

import (
	"math"
	"strconv"
	"strings"
	"unicode/utf8"
)

// GapClass says what the grammar admits between two tokens.
type GapClass uint8

const (
	GB      GapClass = iota // blanks only (space, tab, CR); may be empty
	GN                      // blanks, line breaks and comments
	GS                      // statement separator: at least one line break or ';'
	GBeg                    // start of file
	GEnd                    // end of file
	GBlk                    // before the '}' of a non-empty block: optional separators
	GBlkBeg                 // after the '{' of a non-empty block: blanks, line breaks, comments and empty statements
)

// Layout chooses the text of each gap.
type Layout interface {
	Gap(c GapClass) string
}

// Minimal is the canonical layout: nothing, except one "\n" between statements.
type Minimal struct{}

func (Minimal) Gap(c GapClass) string {
	if c == GS {
		return "\n"
	}
	return ""
}

// Broken puts exactly one line break into every gap that admits one (after a binary operator, inside brackets ...):
// every operand starts on the line directly below its operator.
type Broken struct{}

func (Broken) Gap(c GapClass) string {
	switch c {
	case GS, GN:
		return "\n"
	}
	return ""
}

// Spaced puts one blank in every gap (and "\n" between statements).
type Spaced struct{}

func (Spaced) Gap(c GapClass) string {
	switch c {
	case GS:
		return "\n"
	case GBeg, GEnd:
		return ""
	}
	return " "
}

// Choices is a layout driven by a pre-drawn list of small integers.
type Choices struct {
	C []int
	i int
	// KW: letter case of the keywords (0 = as usual, 1 = upper, 2 = capitalised, 3 = every second letter upper)
	KW int
	// Stats
	NL, Comments, Multibyte int
}

var blankChoices = []string{"", " ", "", " ", "  ", "\t", "\r", " \t "}
var nlChoices = []string{"", " ", "\n", "\n", " \n ", "\n\n", "#c\n", " # é comment\n  ", "\r\n", "\n\t", "#\n"}
var sepChoices = []string{"\n", "\n", ";", "; ", "\n\n", " # c\n", ";\n", "\n;", "\r\n", " ;; ", "\n  ", "\n# 注\n"}
var begChoices = []string{"", "", "\n", " ", "# head\n", "\n\n", ";", "\r\n"}
var endChoices = []string{"", "", "\n", " ", "# tail", ";", "\n\n", " # é"}
var blkChoices = []string{"", " ", "\n", ";", "\n  ", "; # c\n", ";;", "\r\n"}
var blkBegChoices = []string{"", " ", "\n", ";", "", "; ", "\n", ";\n", "\n;", "#c\n", ";;", " \n "}

func (l *Choices) KeywordCase() int { return l.KW }

func (l *Choices) next() int {
	if len(l.C) == 0 {
		return 0
	}
	v := l.C[l.i%len(l.C)]
	l.i++
	return v
}

func (l *Choices) Gap(c GapClass) string {
	var s string
	k := l.next()
	switch c {
	case GB:
		s = blankChoices[k%len(blankChoices)]
	case GN:
		s = nlChoices[k%len(nlChoices)]
	case GS:
		s = sepChoices[k%len(sepChoices)]
	case GBeg:
		s = begChoices[k%len(begChoices)]
	case GEnd:
		s = endChoices[k%len(endChoices)]
	case GBlk:
		s = blkChoices[k%len(blkChoices)]
	case GBlkBeg:
		s = blkBegChoices[k%len(blkBegChoices)]
	}
	if strings.Contains(s, "\n") {
		l.NL++
	}
	if strings.Contains(s, "#") {
		l.Comments++
	}
	return s
}

type printer struct {
	b   strings.Builder
	lay Layout
}

func isWordByte(c byte) bool {
	return c == '_' || c >= 0x80 || (c >= '0' && c <= '9') || (c >= 'a' && c <= 'z') || (c >= 'A' && c <= 'Z')
}

// tok emits the gap of class c and then the token; returns the token's offset.
// keywordCaser is implemented by layouts that also choose the letter case of keywords (they match in any case).
type keywordCaser interface{ KeywordCase() int }

var caseableKeywords = map[string]bool{"if": true, "elif": true, "else": true, "for": true, "in": true, "break": true, "continue": true, "true": true, "false": true, "nil": true, "null": true}

func (p *printer) tok(c GapClass, text string) int {
	if kc, ok := p.lay.(keywordCaser); ok && caseableKeywords[text] {
		switch kc.KeywordCase() {
		case 1:
			text = strings.ToUpper(text)
		case 2:
			text = strings.ToUpper(text[:1]) + text[1:]
		case 3:
			b := []byte(text)
			for i := range b {
				if i%2 == 1 {
					b[i] -= 32
				}
			}
			text = string(b)
		}
	}
	g := p.lay.Gap(c)
	cur := p.b.String()
	if g == "" && len(cur) > 0 && len(text) > 0 {
		a, z := cur[len(cur)-1], text[0]
		if isWordByte(a) && isWordByte(z) {
			g = " "
		}
		// a number followed by '.' would lex as one number ("1." + "x"): keep apart
		if (a >= '0' && a <= '9') && z == '.' {
			g = " "
		}
	}
	p.b.WriteString(g)
	off := p.b.Len()
	p.b.WriteString(text)
	return off
}

// signed emits the sign tokens of a folded numeric literal and then its magnitude; returns the offset of the first token.
func (p *printer) signed(c GapClass, signs []string, mag string) int {
	if len(signs) == 0 {
		return p.tok(c, mag)
	}
	first := p.tok(c, signs[0])
	for _, sg := range signs[1:] {
		g := p.lay.Gap(GB)
		if g == "" {
			g = " " // two adjacent sign characters would read as another token
		}
		p.b.WriteString(g)
		p.b.WriteString(sg)
	}
	p.b.WriteString(p.lay.Gap(GB))
	p.b.WriteString(mag)
	return first
}

// Print renders a program and records positions into the nodes.
func Print(prog []*Node, lay Layout) string {
	p := &printer{lay: lay}
	if lay == nil {
		p.lay = Minimal{}
	}
	p.b.WriteString(p.lay.Gap(GBeg))
	for i, s := range prog {
		c := GS
		if i == 0 {
			c = GB
		}
		p.stmt(c, s)
	}
	p.b.WriteString(p.lay.Gap(GEnd))
	return p.b.String()
}

// PrintExpr renders one expression in the minimal layout (no positions kept meaningful).
func PrintExpr(n *Node) string {
	p := &printer{lay: Minimal{}}
	p.expr(GB, n)
	return p.b.String()
}

// stmt prints a statement; c is the class of the gap before its first token.
func (p *printer) stmt(c GapClass, n *Node) { p.expr(c, n) }

func (p *printer) block(n *Node, body []*Node) {
	l := p.tok(GB, "{")
	n.P.BlockL = append(n.P.BlockL, l)
	if len(body) == 0 {
		r := p.tok(GN, "}")
		n.P.BlockR = append(n.P.BlockR, r)
		return
	}
	for i, s := range body {
		c := GS
		if i == 0 {
			c = GBlkBeg
		}
		p.stmt(c, s)
	}
	r := p.tok(GBlk, "}")
	n.P.BlockR = append(n.P.BlockR, r)
}

// first is a helper: record Start at the first emitted token of a node.
func (p *printer) expr(c GapClass, n *Node) {
	if n == nil {
		return
	}
	n.P = noPos()
	switch n.Kind {
	case Ident:
		n.P.Tok = p.tok(c, IdentText(n.Name))
		n.P.Start = n.P.Tok
	case Str:
		s := n.Raw
		if s == "" {
			s = QuoteDouble(n.S)
		}
		n.P.Tok = p.tok(c, s)
		n.P.Start = n.P.Tok
	case Int:
		mag := n.I
		for _, sg := range n.Signs {
			if sg == "-" {
				mag = -mag
			}
		}
		s := n.Raw
		if s == "" || len(n.Signs) == 0 && n.I < 0 {
			s = strconv.FormatInt(mag, 10)
		}
		n.P.Tok = p.signed(c, n.Signs, s)
		n.P.Start = n.P.Tok
	case Float:
		mag := n.F
		for _, sg := range n.Signs {
			if sg == "-" {
				mag = -mag
			}
		}
		s := n.Raw
		if s == "" {
			s = FloatText(mag)
		}
		n.P.Tok = p.signed(c, n.Signs, s)
		n.P.Start = n.P.Tok
	case Bool:
		s := n.Raw
		if s == "" {
			s = "false"
			if n.B {
				s = "true"
			}
		}
		n.P.Tok = p.tok(c, s)
		n.P.Start = n.P.Tok
	case Nil:
		s := n.Raw
		if s == "" {
			s = "nil"
		}
		n.P.Tok = p.tok(c, s)
		n.P.Start = n.P.Tok
	case List:
		n.P.L = p.tok(c, "[")
		n.P.Tok, n.P.Start = n.P.L, n.P.L
		for i, e := range n.Args {
			if i > 0 {
				p.tok(GN, ",") // list_literal_start EOL: a line break is admitted before the comma
			}
			p.expr(GN, e)
		}
		if n.Trailing && len(n.Args) > 0 {
			p.tok(GN, ",")
		}
		n.P.R = p.tok(GN, "]")
	case Map:
		n.P.L = p.tok(c, "{")
		n.P.Tok, n.P.Start = n.P.L, n.P.L
		for i := 0; i+1 < len(n.Args); i += 2 {
			if i > 0 {
				p.tok(GB, ",")
			}
			p.expr(GN, n.Args[i])
			p.tok(GB, ":")
			p.expr(GN, n.Args[i+1])
		}
		if n.Trailing && len(n.Args) > 0 {
			p.tok(GB, ",")
		}
		n.P.R = p.tok(GN, "}")
	case Paren:
		n.P.L = p.tok(c, "(")
		n.P.Tok, n.P.Start = n.P.L, n.P.L
		p.expr(GN, n.X)
		n.P.R = p.tok(GN, ")")
	case Attr:
		p.expr(c, n.X)
		n.P.Start = n.X.P.Start
		n.P.Tok = p.tok(GB, ".")
		p.expr(GB, n.Y)
	case Index:
		if n.X == nil {
			n.P.Start = p.tok(c, ".")
		} else {
			p.expr(c, n.X)
			n.P.Start = n.X.P.Start
		}
		n.P.Tok = n.P.Start
		for _, ix := range n.Args {
			n.P.Ls = append(n.P.Ls, p.tok(GB, "["))
			p.expr(GN, ix)
			n.P.Rs = append(n.P.Rs, p.tok(GN, "]"))
		}
	case Unary:
		n.P.Tok = p.tok(c, n.Op)
		n.P.Start = n.P.Tok
		p.expr(GB, n.X)
	case Binary, In:
		p.expr(c, n.X)
		n.P.Start = n.X.P.Start
		n.P.Tok = p.tok(GB, n.Op)
		p.expr(GN, n.Y)
	case Call:
		n.P.Tok = p.tok(c, IdentText(n.Name))
		n.P.Start = n.P.Tok
		n.P.L = p.tok(GB, "(")
		for i, a := range n.Args {
			if i > 0 {
				p.tok(GB, ",")
			}
			p.expr(GN, a)
		}
		if n.Trailing && len(n.Args) > 0 {
			p.tok(GB, ",")
		}
		n.P.R = p.tok(GN, ")")
	case Slice:
		p.expr(c, n.X)
		n.P.Start = n.X.P.Start
		n.P.L = p.tok(GB, "[")
		n.P.Tok = n.P.L
		last := GN // class of the gap before the next token when nothing but '[' or ':' precedes
		if n.Lo != nil {
			p.expr(GN, n.Lo)
			last = GB
		}
		p.tok(last, ":")
		last = GN
		if n.Hi != nil {
			p.expr(GN, n.Hi)
			last = GB
		}
		if n.Colon2 || n.Step != nil {
			p.tok(last, ":")
			last = GN
			if n.Step != nil {
				p.expr(GN, n.Step)
				last = GB
			}
		}
		n.P.R = p.tok(last, "]")
	case Assign:
		for i, l := range n.Args {
			if i > 0 {
				p.tok(GB, ",")
				p.expr(GN, l)
			} else {
				p.expr(c, l)
			}
		}
		if len(n.Args) > 0 {
			n.P.Start = n.Args[0].P.Start
		}
		n.P.Tok = p.tok(GB, n.Op)
		for i, r := range n.Rhs {
			if i > 0 {
				p.tok(GB, ",")
			}
			p.expr(GN, r)
		}
	case If:
		for i := range n.Conds {
			kw := "if"
			g := c
			if i > 0 {
				kw, g = "elif", GB
			}
			o := p.tok(g, kw)
			if i == 0 {
				n.P.Start, n.P.Tok = o, o
			}
			n.P.Ifs = append(n.P.Ifs, o)
			p.expr(GB, n.Conds[i])
			p.block(n, n.Blocks[i])
		}
		if n.HasElse {
			n.P.ElsePos = p.tok(GB, "else")
			p.block(n, n.Else)
		}
	case For:
		n.P.Tok = p.tok(c, "for")
		n.P.Start = n.P.Tok
		if n.Lo != nil {
			p.expr(GB, n.Lo)
		}
		p.tok(GB, ";")
		if n.Hi != nil {
			p.expr(GB, n.Hi)
		}
		p.tok(GB, ";")
		if n.Step != nil {
			p.expr(GB, n.Step)
		}
		p.block(n, n.Body)
	case ForIn:
		n.P.Tok = p.tok(c, "for")
		n.P.Start = n.P.Tok
		p.expr(GB, n.X)
		n.P.InPos = p.tok(GB, "in")
		p.expr(GN, n.Y)
		p.block(n, n.Body)
	case Break:
		n.P.Tok = p.tok(c, "break")
		n.P.Start = n.P.Tok
	case Continue:
		n.P.Tok = p.tok(c, "continue")
		n.P.Start = n.P.Tok
	}
	n.P.End = p.b.Len()
}

var reserved = map[string]bool{
	"if": true, "elif": true, "else": true, "for": true, "in": true, "while": true, "break": true, "continue": true,
	"return": true, "true": true, "false": true, "nil": true, "null": true, "identifier": true, "str": true, "bool": true,
	"int": true, "float": true, "list": true, "map": true, "inf": true, "nan": true,
}

// IsReserved reports whether the lexer treats the word as a keyword or number.
func IsReserved(w string) bool { return reserved[strings.ToLower(w)] }

// PlainIdent reports whether name can be written without back quotes.
func PlainIdent(name string) bool {
	if name == "" || IsReserved(name) || !utf8.ValidString(name) {
		return false
	}
	for i, r := range name {
		switch {
		case r == '_' || (r >= 'a' && r <= 'z') || (r >= 'A' && r <= 'Z'):
		case r >= '0' && r <= '9':
			if i == 0 {
				return false
			}
		case r >= 0x80 && r != utf8.RuneError:
		default:
			return false
		}
	}
	return true
}

// IdentText spells an identifier, back-quoted when necessary.
func IdentText(name string) string {
	if PlainIdent(name) {
		return name
	}
	return "`" + name + "`"
}

// QuoteDouble spells a byte string as a double-quoted platypus literal.
func QuoteDouble(s string) string { return quoteWith(s, '"') }

// QuoteSingle spells a byte string as a single-quoted platypus literal.
func QuoteSingle(s string) string { return quoteWith(s, '\'') }

func quoteWith(s string, q byte) string {
	var b strings.Builder
	b.WriteByte(q)
	for i := 0; i < len(s); {
		c := s[i]
		if c >= utf8.RuneSelf {
			r, w := utf8.DecodeRuneInString(s[i:])
			if r == utf8.RuneError && w == 1 {
				b.WriteString(`\x`)
				b.WriteString(hex2(c))
				i++
				continue
			}
			if r == utf8.RuneError { // a literal U+FFFD: spell it as an escape
				b.WriteString("\\ufffd")
				i += w
				continue
			}
			b.WriteString(s[i : i+w])
			i += w
			continue
		}
		switch {
		case c == q:
			b.WriteByte('\\')
			b.WriteByte(c)
		case c == '\\':
			b.WriteString(`\\`)
		case c == '\n':
			b.WriteString(`\n`)
		case c == '\r':
			b.WriteString(`\r`)
		case c == '\t':
			b.WriteString(`\t`)
		case c < 0x20 || c == 0x7f:
			b.WriteString(`\x`)
			b.WriteString(hex2(c))
		default:
			b.WriteByte(c)
		}
		i++
	}
	b.WriteByte(q)
	return b.String()
}

func hex2(c byte) string {
	const d = "0123456789abcdef"
	return string([]byte{d[c>>4], d[c&15]})
}

// FloatText spells a float64 so that it lexes as one NUMBER token that is not an integer.
func FloatText(f float64) string {
	switch {
	case math.IsNaN(f):
		return "nan"
	case math.IsInf(f, 1):
		return "inf"
	case math.IsInf(f, -1):
		return "-inf"
	}
	s := strconv.FormatFloat(f, 'g', -1, 64)
	if !strings.ContainsAny(s, ".e") {
		s += ".0"
	}
	return s
}
