package gen

import "math"

// Precedence levels from the reference's operator table (1 lowest) plus the two
// rows the grammar declares and the reference omits: `in` between && and the
// comparisons, unary + - ! above * / %.
const (
	PrecOr = iota + 1
	PrecAnd
	PrecIn
	PrecCmp
	PrecAdd
	PrecMul
	PrecUnary
	PrecPostfix
)

func OpPrec(op string) int {
	switch op {
	case "||":
		return PrecOr
	case "&&":
		return PrecAnd
	case "in":
		return PrecIn
	case "==", "!=", "<", "<=", ">", ">=":
		return PrecCmp
	case "+", "-":
		return PrecAdd
	case "*", "/", "%":
		return PrecMul
	}
	return 0
}

// Prec is the precedence of the node's outermost construct.
func Prec(n *Node) int {
	switch n.Kind {
	case Binary, In:
		return OpPrec(n.Op)
	case Unary:
		return PrecUnary
	case Int:
		if n.I < 0 {
			return PrecUnary
		}
	case Float:
		if n.F < 0 || math.IsInf(n.F, -1) || (n.F == 0 && math.Signbit(n.F)) {
			return PrecUnary
		}
	}
	return PrecPostfix
}

func paren(n *Node) *Node { return NParen(n) }

// Fold applies the one documented normalisation: a sign applied directly to a
// numeric literal is part of the literal.
func Fold(n *Node) *Node {
	if n == nil {
		return nil
	}
	if n.Kind == Unary && (n.Op == "-" || n.Op == "+") {
		x := Fold(n.X)
		switch x.Kind {
		case Int:
			c := *x
			if c.I == math.MinInt64 || len(c.Signs) >= 3 {
				break // keep the operator node: the magnitude has no int64 spelling / enough signs
			}
			if n.Op == "-" {
				c.I = -c.I
			}
			// the literal is printed as its sign tokens followed by the magnitude (gaps between them are the layout's)
			c.Signs = append([]string{n.Op}, x.Signs...)
			return &c
		case Float:
			c := *x
			if len(c.Signs) >= 3 {
				break
			}
			if n.Op == "-" {
				c.F = -c.F
			}
			c.Signs = append([]string{n.Op}, x.Signs...)
			return &c
		}
		n.X = x
		return n
	}
	return n
}

// Fix inserts the parentheses the precedence table requires (and only those)
// and folds signed numeric literals. It rewrites the tree in place and returns it.
func Fix(n *Node) *Node {
	if n == nil {
		return nil
	}
	n = Fold(n)
	switch n.Kind {
	case Binary, In:
		n.X = Fix(n.X)
		n.Y = Fix(n.Y)
		p := OpPrec(n.Op)
		if Prec(n.X) < p {
			n.X = paren(n.X)
		}
		if Prec(n.Y) <= p {
			n.Y = paren(n.Y)
		}
	case Unary:
		n.X = Fix(n.X)
		if n.X.Kind == Binary || n.X.Kind == In {
			n.X = paren(n.X)
		}
	case ForIn:
		n.Y = Fix(n.Y)
		if Prec(n.Y) <= PrecIn {
			n.Y = paren(n.Y)
		}
		fixList(n.Body)
	default:
		n.X, n.Y = Fix(n.X), Fix(n.Y)
		n.Lo, n.Hi, n.Step = Fix(n.Lo), Fix(n.Hi), Fix(n.Step)
		fixList(n.Args)
		fixList(n.Rhs)
		fixList(n.Conds)
		for _, b := range n.Blocks {
			fixList(b)
		}
		fixList(n.Else)
		fixList(n.Body)
	}
	return n
}

func fixList(l []*Node) {
	for i := range l {
		l[i] = Fix(l[i])
	}
}

func FixAll(p []*Node) []*Node {
	fixList(p)
	return p
}

// StripParens removes all Paren nodes (used to compare "redundant parentheses
// add only paren nodes").
func StripParens(n *Node) *Node {
	if n == nil {
		return nil
	}
	for n.Kind == Paren {
		n = n.X
	}
	n.X, n.Y = StripParens(n.X), StripParens(n.Y)
	n.Lo, n.Hi, n.Step = StripParens(n.Lo), StripParens(n.Hi), StripParens(n.Step)
	strip := func(l []*Node) {
		for i := range l {
			l[i] = StripParens(l[i])
		}
	}
	strip(n.Args)
	strip(n.Rhs)
	strip(n.Conds)
	for _, b := range n.Blocks {
		strip(b)
	}
	strip(n.Else)
	strip(n.Body)
	return n
}
