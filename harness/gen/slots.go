package gen

// Slot is one expression position of a program (a place where any expression may stand).
type Slot struct {
	Path   string // kinds from the statement down to the slot, e.g. "If.cond/Binary.rhs/Call.arg"
	Depth  int    // number of enclosing constructs
	InLoop bool
	Get    func() *Node
	Set    func(*Node)
}

// ExprSlots enumerates every general expression position of the program: conditions, each for
// clause, for-in iterable, list elements, map keys and values, each index, slice object and bounds,
// call arguments (positional and named), both sides of assignments (left side: the index keys),
// both operands of binary and in expressions, unary operand, parenthesised expression, statement-level expressions.
func ExprSlots(prog []*Node) []Slot {
	var out []Slot
	var expr func(get func() *Node, set func(*Node), path string, depth int, inLoop, general bool)
	list := func(l []*Node, what, path string, depth int, inLoop bool) {
		for i := range l {
			i := i
			expr(func() *Node { return l[i] }, func(n *Node) { l[i] = n }, path+"."+what, depth, inLoop, true)
		}
	}
	var stmts func(l []*Node, path string, depth int, inLoop bool)
	expr = func(get func() *Node, set func(*Node), path string, depth int, inLoop, general bool) {
		n := get()
		if n == nil {
			return
		}
		if general {
			out = append(out, Slot{Path: path, Depth: depth, InLoop: inLoop, Get: get, Set: set})
		}
		p := path + "/" + n.Kind.String()
		d := depth + 1
		switch n.Kind {
		case Paren:
			expr(func() *Node { return n.X }, func(x *Node) { n.X = x }, p+".inner", d, inLoop, true)
		case Unary:
			expr(func() *Node { return n.X }, func(x *Node) { n.X = x }, p+".operand", d, inLoop, true)
		case Binary, In:
			expr(func() *Node { return n.X }, func(x *Node) { n.X = x }, p+".lhs", d, inLoop, true)
			expr(func() *Node { return n.Y }, func(x *Node) { n.Y = x }, p+".rhs", d, inLoop, true)
		case List:
			list(n.Args, "elem", p, d, inLoop)
		case Map:
			for i := range n.Args {
				i := i
				what := ".key"
				if i%2 == 1 {
					what = ".value"
				}
				expr(func() *Node { return n.Args[i] }, func(x *Node) { n.Args[i] = x }, p+what, d, inLoop, true)
			}
		case Index:
			list(n.Args, "key", p, d, inLoop)
		case Slice:
			expr(func() *Node { return n.X }, func(x *Node) { n.X = x }, p+".object", d, inLoop, false) // restricted position: descend only
			expr(func() *Node { return n.Lo }, func(x *Node) { n.Lo = x }, p+".start", d, inLoop, true)
			expr(func() *Node { return n.Hi }, func(x *Node) { n.Hi = x }, p+".end", d, inLoop, true)
			expr(func() *Node { return n.Step }, func(x *Node) { n.Step = x }, p+".step", d, inLoop, true)
		case Call:
			for i := range n.Args {
				i := i
				if n.Args[i] != nil && n.Args[i].Kind == Assign {
					a := n.Args[i]
					for j := range a.Rhs {
						j := j
						expr(func() *Node { return a.Rhs[j] }, func(x *Node) { a.Rhs[j] = x }, p+".named-arg", d, inLoop, true)
					}
					continue
				}
				expr(func() *Node { return n.Args[i] }, func(x *Node) { n.Args[i] = x }, p+".arg", d, inLoop, true)
			}
		case Attr:
			// attribute parts are restricted positions: descend only (the keys of an indexed part are ordinary slots)
			expr(func() *Node { return n.X }, func(x *Node) { n.X = x }, p+".attr-object", d, inLoop, false)
			expr(func() *Node { return n.Y }, func(x *Node) { n.Y = x }, p+".attr-part", d, inLoop, false)
		case Assign:
			for i := range n.Args {
				i := i
				expr(func() *Node { return n.Args[i] }, func(x *Node) { n.Args[i] = x }, p+".target", d, inLoop, false)
			}
			list(n.Rhs, "source", p, d, inLoop)
		}
	}
	stmts = func(l []*Node, path string, depth int, inLoop bool) {
		for i := range l {
			i := i
			s := l[i]
			p := path + "/" + s.Kind.String()
			switch s.Kind {
			case If:
				for ci := range s.Conds {
					ci := ci
					expr(func() *Node { return s.Conds[ci] }, func(x *Node) { s.Conds[ci] = x }, p+".cond", depth+1, inLoop, true)
					stmts(s.Blocks[ci], p+".block", depth+1, inLoop)
				}
				stmts(s.Else, p+".else", depth+1, inLoop)
			case For:
				for _, c := range []struct {
					get  func() *Node
					set  func(*Node)
					what string
				}{
					{func() *Node { return s.Lo }, func(x *Node) { s.Lo = x }, ".init"},
					{func() *Node { return s.Hi }, func(x *Node) { s.Hi = x }, ".cond"},
					{func() *Node { return s.Step }, func(x *Node) { s.Step = x }, ".loop"},
				} {
					if n := c.get(); n != nil {
						expr(c.get, c.set, p+c.what, depth+1, inLoop, n.Kind != Assign)
					}
				}
				stmts(s.Body, p+".body", depth+1, true)
			case ForIn:
				expr(func() *Node { return s.Y }, func(x *Node) { s.Y = x }, p+".iter", depth+1, inLoop, true)
				stmts(s.Body, p+".body", depth+1, true)
			case Assign:
				expr(func() *Node { return l[i] }, func(x *Node) { l[i] = x }, path, depth, inLoop, false)
			case Break, Continue:
			default:
				expr(func() *Node { return l[i] }, func(x *Node) { l[i] = x }, path+".stmt", depth, inLoop, true)
			}
		}
	}
	stmts(prog, "", 0, false)
	return out
}

// StmtSlot is an insertion point in a statement list.
type StmtSlot struct {
	List   *[]*Node
	At     int
	InLoop bool
	Depth  int
	Path   string
}

// StmtSlots enumerates every insertion position of every statement list.
func StmtSlots(prog *[]*Node) []StmtSlot {
	var out []StmtSlot
	var walk func(l *[]*Node, path string, depth int, inLoop bool)
	walk = func(l *[]*Node, path string, depth int, inLoop bool) {
		for at := 0; at <= len(*l); at++ {
			out = append(out, StmtSlot{List: l, At: at, InLoop: inLoop, Depth: depth, Path: path})
		}
		for _, s := range *l {
			switch s.Kind {
			case If:
				for i := range s.Blocks {
					walk(&s.Blocks[i], path+"/If.block", depth+1, inLoop)
				}
				if s.HasElse {
					walk(&s.Else, path+"/If.else", depth+1, inLoop)
				}
			case For:
				walk(&s.Body, path+"/For.body", depth+1, true)
			case ForIn:
				walk(&s.Body, path+"/ForIn.body", depth+1, true)
			}
		}
	}
	walk(prog, "", 0, false)
	return out
}

// CloneProg deep-copies a program.
func CloneProg(p []*Node) []*Node {
	out := make([]*Node, len(p))
	for i := range p {
		out[i] = p[i].Clone()
	}
	return out
}
