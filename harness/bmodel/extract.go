package bmodel

import (
	"fmt"
	"strings"
	"time"

	"github.com/DataDog/datadog-agent/pkg/obfuscate"
	"github.com/GuanceCloud/grok"
	"github.com/antchfx/xmlquery"
	"github.com/antchfx/xpath"
	"github.com/araddon/dateparse"
	"github.com/spf13/cast"
	"verifharness/gen"
	"verifharness/model"
)

// GrokStatic is the result of the load-time pattern resolution the reference performs on its own
// lexical-scope model: add_pattern definitions are visible after their statement, inside the block
// that declares them and in nested blocks; then the global table.
type GrokStatic struct {
	Compiled map[*gen.Node]*grok.GrokRegexp
	LoadErr  string // non-empty: the script must be rejected at load
	ErrNode  *gen.Node
}

var globalPatterns = grok.CopyDenormalizedDefalutPatterns()

// AnalyzeGrok walks the program with a lexical scope stack of pattern tables.
func AnalyzeGrok(prog []*gen.Node) *GrokStatic {
	gs := &GrokStatic{Compiled: map[*gen.Node]*grok.GrokRegexp{}}
	scopes := []map[string]*grok.GrokPattern{{}}
	storage := func() grok.PatternStorage {
		ps := grok.PatternStorage{}
		for i := len(scopes) - 1; i >= 0; i-- {
			ps = append(ps, scopes[i])
		}
		return append(ps, globalPatterns)
	}
	push := func() { scopes = append(scopes, map[string]*grok.GrokPattern{}) }
	pop := func() { scopes = scopes[:len(scopes)-1] }
	fail := func(n *gen.Node, msg string) {
		if gs.LoadErr == "" {
			gs.LoadErr, gs.ErrNode = msg, n
		}
	}
	var expr func(n *gen.Node)
	expr = func(n *gen.Node) {
		if n == nil || gs.LoadErr != "" {
			return
		}
		if n.Kind == gen.Call {
			for _, a := range n.Args {
				expr(a)
			}
			switch n.Name {
			case "add_pattern":
				if len(n.Args) == 2 && n.Args[0].Kind == gen.Str && n.Args[1].Kind == gen.Str {
					p, err := grok.DenormalizePattern(n.Args[1].S, storage())
					if err != nil {
						fail(n, err.Error())
						return
					}
					scopes[len(scopes)-1][n.Args[0].S] = p
				}
			case "grok":
				if len(n.Args) >= 2 && n.Args[1].Kind == gen.Str {
					re, err := grok.CompilePattern(n.Args[1].S, storage())
					if err != nil {
						fail(n, err.Error())
						return
					}
					gs.Compiled[n] = re
				}
			}
			return
		}
		n.Children(expr)
	}
	var stmts func(l []*gen.Node)
	stmts = func(l []*gen.Node) {
		for _, s := range l {
			if gs.LoadErr != "" {
				return
			}
			switch s.Kind {
			case gen.If:
				push()
				for i, c := range s.Conds {
					expr(c)
					push()
					stmts(s.Blocks[i])
					pop()
				}
				if s.HasElse {
					push()
					stmts(s.Else)
					pop()
				}
				pop()
			case gen.For:
				push()
				for _, c := range []*gen.Node{s.Lo, s.Hi} {
					if c != nil {
						if c.Kind == gen.Assign {
							for _, r := range c.Rhs {
								expr(r)
							}
						} else {
							expr(c)
						}
					}
				}
				push()
				stmts(s.Body)
				pop()
				if s.Step != nil {
					if s.Step.Kind == gen.Assign {
						for _, r := range s.Step.Rhs {
							expr(r)
						}
					} else {
						expr(s.Step)
					}
				}
				pop()
			case gen.ForIn:
				push()
				expr(s.Y)
				push()
				stmts(s.Body)
				pop()
				pop()
			case gen.Assign:
				for _, x := range s.Args {
					expr(x)
				}
				for _, x := range s.Rhs {
					expr(x)
				}
			default:
				expr(s)
			}
		}
	}
	stmts(prog)
	return gs
}

// Extraction returns the models of grok, add_pattern, xml, datetime, default_time and sql_cover.
func Extraction(gs *GrokStatic) map[string]fn {
	m := map[string]fn{
		"add_pattern": func(in *model.Interp, c *gen.Node) (any, error) { return model.Void, nil },
		"xml":         xmlFn, "datetime": datetime, "default_time": defaultTime, "sql_cover": sqlCover,
	}
	m["grok"] = func(in *model.Interp, c *gen.Node) (any, error) {
		re := gs.Compiled[c]
		if re == nil {
			return nil, model.ErrUnsupported
		}
		k, err := key(c.Args[0])
		if err != nil {
			return nil, err
		}
		s, ok := subjectStr(in, k)
		if !ok {
			return false, nil
		}
		trimSpace := true
		if len(c.Args) == 3 {
			if c.Args[2].Kind != gen.Bool {
				return nil, model.ErrUnsupported
			}
			trimSpace = c.Args[2].B
		}
		caps, _, gerr := re.RunWithTypeInfo(s, trimSpace)
		if gerr != nil {
			return false, nil
		}
		for name, v := range caps {
			if name == "_" {
				name = "message" // the alias of the message key, as for every other key argument
			}
			switch v.(type) {
			case nil, int64, float64, string, bool:
				in.Pt.Set(name, v)
			}
		}
		return true, nil
	}
	return m
}

func queryNode(doc *xmlquery.Node, expr string) (n *xmlquery.Node, err error) {
	defer func() {
		if r := recover(); r != nil {
			n, err = nil, fmt.Errorf("xpath %q: %v", expr, r)
		}
	}()
	// compiled afresh: the engine's cache of compiled expressions is not part of the reference
	exp, cerr := xpath.Compile(expr)
	if cerr != nil {
		return nil, cerr
	}
	return xmlquery.QuerySelector(doc, exp), nil
}

func xmlFn(in *model.Interp, c *gen.Node) (any, error) {
	if len(c.Args) != 3 || c.Args[1].Kind != gen.Str {
		return nil, model.ErrUnsupported
	}
	k, err := key(c.Args[0])
	if err != nil {
		return nil, err
	}
	dst, err := key(c.Args[2])
	if err != nil {
		return nil, err
	}
	s, ok := subjectStr(in, k)
	if !ok {
		return model.Void, nil
	}
	doc, perr := xmlquery.Parse(strings.NewReader(s))
	if perr != nil {
		return model.Void, nil
	}
	// an expression the engine cannot evaluate to a node - also one it gives up on abnormally - selects nothing
	node, qerr := queryNode(doc, c.Args[1].S)
	if qerr != nil || node == nil {
		return model.Void, nil
	}
	in.Pt.Set(dst, node.InnerText())
	return model.Void, nil
}

// DateLayouts is an independent copy of the documented layout-name table of datetime().
var DateLayouts = map[string]string{
	"ANSIC": "Mon Jan _2 15:04:05 2006", "UnixDate": "Mon Jan _2 15:04:05 MST 2006", "RubyDate": "Mon Jan 02 15:04:05 -0700 2006",
	"RFC822": "02 Jan 06 15:04 MST", "RFC822Z": "02 Jan 06 15:04 -0700", "RFC850": "Monday, 02-Jan-06 15:04:05 MST",
	"RFC1123": "Mon, 02 Jan 2006 15:04:05 MST", "RFC1123Z": "Mon, 02 Jan 2006 15:04:05 -0700", "RFC3339": "2006-01-02T15:04:05Z07:00",
	"RFC3339Nano": "2006-01-02T15:04:05.999999999Z07:00", "Kitchen": "3:04PM", "Stamp": "Jan _2 15:04:05", "StampMilli": "Jan _2 15:04:05.000",
	"StampMicro": "Jan _2 15:04:05.000000", "StampNano": "Jan _2 15:04:05.000000000",
}

func datetime(in *model.Interp, c *gen.Node) (any, error) {
	if len(c.Args) != 3 || c.Args[1].Kind != gen.Str || c.Args[2].Kind != gen.Str {
		return nil, model.ErrUnsupported
	}
	k, err := key(c.Args[0])
	if err != nil {
		return nil, err
	}
	v, ok := in.GetName(k)
	if !ok {
		return model.Void, nil
	}
	if model.IsVoid(v) {
		v = nil
	}
	n := cast.ToInt64(v)
	var t time.Time
	switch c.Args[1].S {
	case "s":
		t = time.Unix(n, 0)
	case "ms":
		t = time.Unix(0, n*int64(time.Millisecond))
	}
	layout, known := DateLayouts[c.Args[2].S]
	if !known {
		return nil, in.Errf(c, "unknown datetime format")
	}
	in.Pt.Set(k, t.Format(layout))
	return model.Void, nil
}

// ZoneTable is an independent copy of the documented numeric-offset table of default_time().
var ZoneTable = map[string]string{
	"-11": "Pacific/Midway", "-10": "Pacific/Honolulu", "-9:30": "Pacific/Marquesas", "-9": "America/Anchorage", "-8": "America/Los_Angeles",
	"-7": "America/Phoenix", "-6": "America/Chicago", "-5": "America/New_York", "-4": "America/Santiago", "-3:30": "America/St_Johns",
	"-3": "America/Sao_Paulo", "-2": "America/Noronha", "-1": "America/Scoresbysund", "+0": "Europe/London", "+1": "Europe/Vatican",
	"+2": "Europe/Kiev", "+3": "Europe/Moscow", "+3:30": "Asia/Tehran", "+4": "Asia/Dubai", "+4:30": "Asia/Kabul", "+5": "Asia/Samarkand",
	"+5:30": "Asia/Kolkata", "+5:45": "Asia/Kathmandu", "+6": "Asia/Almaty", "+6:30": "Asia/Yangon", "+7": "Asia/Jakarta", "+8": "Asia/Shanghai",
	"+8:45": "Australia/Eucla", "+9": "Asia/Tokyo", "+9:30": "Australia/Darwin", "+10": "Australia/Sydney", "+10:30": "Australia/Lord_Howe",
	"+11": "Pacific/Guadalcanal", "+12": "Pacific/Auckland", "+12:45": "Pacific/Chatham", "+13": "Pacific/Apia", "+14": "Pacific/Kiritimati",
	"CST": "Asia/Shanghai", "UTC": "Europe/London",
}

// ResolveZone maps a zone argument to a location the documented way ("" = the process's local zone).
func ResolveZone(tz string) (*time.Location, error) {
	if tz == "" {
		return time.Local, nil
	}
	if tz[0] == '+' || tz[0] == '-' {
		n, ok := ZoneTable[tz]
		if !ok {
			return nil, fmt.Errorf("unknown offset %s", tz)
		}
		tz = n
	}
	return time.LoadLocation(tz)
}

// HouseLayouts is an independent copy of the documented house patterns tried before the general parser.
var HouseLayouts = []struct {
	Layout      string
	DefaultYear bool
}{
	{"02/Jan/2006:15:04:05 -0700", false}, {"02 Jan 2006 15:04:05.000", false}, {"02 Jan 15:04:05.000 2006", true}, {"060102 15:04:05", false},
	{"2006/01/02 - 15:04:05", false}, {"Mon Jan 2 15:04:05.000000 2006", false}, {"2006-01-02 15:04:05.000 UTC", false},
}

// ParseTime is the reference's reading of the documented default_time() algorithm, built on the same engines.
func ParseTime(value string, loc *time.Location) (time.Time, error) {
	for _, h := range HouseLayouts {
		v := value
		if h.DefaultYear {
			v = fmt.Sprintf("%s %d", value, time.Now().Year())
		}
		if tm, err := time.ParseInLocation(h.Layout, v, loc); err == nil && tm.UnixNano() > 0 {
			return tm, nil
		}
	}
	return dateparse.ParseIn(value, loc)
}

func defaultTime(in *model.Interp, c *gen.Node) (any, error) {
	if len(c.Args) < 1 {
		return nil, model.ErrUnsupported
	}
	k, err := key(c.Args[0])
	if err != nil {
		return nil, err
	}
	s, ok := subjectStr(in, k)
	if !ok {
		return model.Void, nil
	}
	tz := ""
	if len(c.Args) > 1 {
		if c.Args[1].Kind != gen.Str {
			return nil, model.ErrUnsupported
		}
		tz = c.Args[1].S
	}
	fail := func(e error) (any, error) {
		in.Pt.Set("pl_msg", fmt.Sprintf("time convert failed: %v", e))
		return model.Void, nil
	}
	loc, zerr := ResolveZone(tz)
	if zerr != nil {
		return fail(zerr)
	}
	tm, perr := ParseTime(s, loc)
	if perr != nil {
		return fail(perr)
	}
	in.Pt.Delete(k)
	in.Pt.Time = tm.UnixNano()
	return model.Void, nil
}

func sqlCover(in *model.Interp, c *gen.Node) (any, error) {
	if len(c.Args) != 1 {
		return nil, model.ErrUnsupported
	}
	k, err := key(c.Args[0])
	if err != nil {
		return nil, err
	}
	s, ok := subjectStr(in, k)
	if !ok {
		return model.Void, nil
	}
	o := obfuscate.NewObfuscator(obfuscate.Config{})
	oq, oerr := o.ObfuscateSQLString(s)
	if oerr != nil {
		return model.Void, nil
	}
	in.Pt.Set(k, oq.Query)
	return model.Void, nil
}
