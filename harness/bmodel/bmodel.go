// Package bmodel holds the reference models of the field-manipulating builtins,
// written from the builtin reference (fn.md) and the property statements: subject
// lookup (script variable first, then the point; `_` is `message`; get_key and
// rename read the point only), computed result, destination. The string
// conversions and the cast table use the primitives the reference names
// (spf13/cast, fmt, strings, regexp, net/url): those are trusted, the plumbing
// around them is what is checked.
package bmodel

import (
	"fmt"
	"net/url"
	"regexp"
	"strings"

	"github.com/spf13/cast"
	"verifharness/gen"
	"verifharness/model"
)

type fn = func(in *model.Interp, call *gen.Node) (any, error)

// Field returns the models of the field builtins that are not part of the core model.
func Field() map[string]fn {
	return map[string]fn{
		"set_tag": setTag, "drop_key": dropKey, "rename": rename, "cast": castFn, "set_measurement": setMeasurement,
		"strfmt": strfmt, "printf": printf, "trim": trim, "uppercase": uppercase, "replace": replace, "url_decode": urlDecode,
	}
}

func key(n *gen.Node) (string, error) {
	k, ok := model.KeyName(n)
	if !ok {
		return "", model.ErrUnsupported
	}
	return k, nil
}

// subjectStr: string form of the subject, variable first, then point; ok=false when absent.
func subjectStr(in *model.Interp, k string) (string, bool) {
	v, ok := in.GetName(k)
	if !ok {
		return "", false
	}
	s, ok := model.ToStr(v)
	return s, ok
}

func evalOrNil(in *model.Interp, n *gen.Node) (any, error) {
	v, err := in.Eval(n)
	if err != nil {
		return nil, err
	}
	return v, nil
}

func setTag(in *model.Interp, c *gen.Node) (any, error) {
	if len(c.Args) < 1 || len(c.Args) > 2 {
		return nil, model.ErrUnsupported
	}
	k, err := key(c.Args[0])
	if err != nil {
		return nil, err
	}
	if len(c.Args) == 2 {
		v, err := in.Eval(c.Args[1])
		if err != nil {
			return nil, err
		}
		in.Pt.SetTag(k, v) // a value without string form becomes ""
		return model.Void, nil
	}
	v, ok := in.GetName(k)
	if !ok {
		in.Pt.SetTag(k, "")
		return model.Void, nil
	}
	in.Pt.SetTag(k, v)
	return model.Void, nil
}

func dropKey(in *model.Interp, c *gen.Node) (any, error) {
	if len(c.Args) != 1 {
		return nil, model.ErrUnsupported
	}
	k, err := key(c.Args[0])
	if err != nil {
		return nil, err
	}
	in.Pt.Delete(k)
	return model.Void, nil
}

func canon(k string) string {
	if k == "_" {
		return "message"
	}
	return k
}

func rename(in *model.Interp, c *gen.Node) (any, error) {
	if len(c.Args) != 2 {
		return nil, model.ErrUnsupported
	}
	to, err := key(c.Args[0])
	if err != nil {
		return nil, err
	}
	from, err := key(c.Args[1])
	if err != nil {
		return nil, err
	}
	to, from = canon(to), canon(from)
	if to == from {
		return model.Void, nil
	}
	old, ok := in.Pt.Keys[from]
	if !ok {
		return model.Void, nil
	}
	delete(in.Pt.Keys, from)
	in.Pt.Keys[to] = old
	return model.Void, nil
}

func castFn(in *model.Interp, c *gen.Node) (any, error) {
	if len(c.Args) != 2 || c.Args[1].Kind != gen.Str {
		return nil, model.ErrUnsupported
	}
	k, err := key(c.Args[0])
	if err != nil {
		return nil, err
	}
	v, ok := in.GetName(k)
	if !ok {
		return model.Void, nil
	}
	if model.IsVoid(v) {
		v = nil
	}
	var out any
	switch strings.ToLower(c.Args[1].S) {
	case "bool":
		out = cast.ToBool(v)
	case "int":
		out = cast.ToInt64(cast.ToFloat64(v))
	case "float":
		out = cast.ToFloat64(v)
	case "str":
		out = cast.ToString(v)
	default:
		return nil, model.ErrUnsupported
	}
	in.Pt.Set(k, out)
	return model.Void, nil
}

func setMeasurement(in *model.Interp, c *gen.Node) (any, error) {
	if len(c.Args) < 1 || len(c.Args) > 2 {
		return nil, model.ErrUnsupported
	}
	v, err := in.Eval(c.Args[0])
	if err == nil {
		if s, ok := v.(string); ok {
			in.Pt.Meas = s
		}
	} else if _, isScript := err.(*model.Err); !isScript {
		return nil, err
	} else {
		return model.Void, nil // an unevaluable name argument is ignored
	}
	if len(c.Args) == 2 && c.Args[1].Kind == gen.Bool && c.Args[1].B {
		switch c.Args[0].Kind {
		case gen.Ident, gen.Attr:
			if k, ok := model.KeyName(c.Args[0]); ok {
				in.Pt.Delete(k)
			}
		}
	}
	return model.Void, nil
}

func argValues(in *model.Interp, args []*gen.Node, strict bool) ([]any, error) {
	var out []any
	for _, a := range args {
		v, err := in.Eval(a)
		if err != nil {
			if _, isScript := err.(*model.Err); isScript && !strict {
				// strfmt ignores a failing argument; which value it formats instead is not documented
				return nil, model.ErrUnsupported
			}
			return nil, err
		}
		if model.IsVoid(v) {
			v = nil
		}
		out = append(out, v)
	}
	return out, nil
}

func strfmt(in *model.Interp, c *gen.Node) (any, error) {
	if len(c.Args) < 2 || c.Args[1].Kind != gen.Str {
		return nil, model.ErrUnsupported
	}
	k, err := key(c.Args[0])
	if err != nil {
		return nil, err
	}
	vals, err := argValues(in, c.Args[2:], false)
	if err != nil {
		return nil, err
	}
	in.Pt.Set(k, fmt.Sprintf(c.Args[1].S, vals...))
	return model.Void, nil
}

func printf(in *model.Interp, c *gen.Node) (any, error) {
	if len(c.Args) < 1 {
		return nil, model.ErrUnsupported
	}
	f := ""
	v, err := in.Eval(c.Args[0])
	if err != nil {
		if _, isScript := err.(*model.Err); !isScript {
			return nil, err
		}
	} else if s, ok := v.(string); ok {
		f = s
	}
	if f == "" {
		return model.Void, nil
	}
	vals, err := argValues(in, c.Args[1:], true)
	if err != nil {
		return nil, err
	}
	fmt.Fprintf(in.Stdout, f, vals...)
	return model.Void, nil
}

func strOp(in *model.Interp, c *gen.Node, f func(string) (string, error)) (any, error) {
	k, err := key(c.Args[0])
	if err != nil {
		return nil, err
	}
	s, ok := subjectStr(in, k)
	if !ok {
		return model.Void, nil
	}
	out, err := f(s)
	if err != nil {
		return nil, in.Errf(c, "%v", err)
	}
	in.Pt.Set(k, out)
	return model.Void, nil
}

func trim(in *model.Interp, c *gen.Node) (any, error) {
	if len(c.Args) < 1 || len(c.Args) > 2 || (len(c.Args) == 2 && c.Args[1].Kind != gen.Str) {
		return nil, model.ErrUnsupported
	}
	cut := ""
	if len(c.Args) == 2 {
		cut = c.Args[1].S
	}
	return strOp(in, c, func(s string) (string, error) {
		if cut == "" {
			return strings.TrimSpace(s), nil
		}
		return strings.Trim(s, cut), nil
	})
}

func uppercase(in *model.Interp, c *gen.Node) (any, error) {
	if len(c.Args) != 1 {
		return nil, model.ErrUnsupported
	}
	return strOp(in, c, func(s string) (string, error) { return strings.ToUpper(s), nil })
}

func replace(in *model.Interp, c *gen.Node) (any, error) {
	if len(c.Args) != 3 || c.Args[1].Kind != gen.Str || c.Args[2].Kind != gen.Str {
		return nil, model.ErrUnsupported
	}
	re, err := regexp.Compile(c.Args[1].S)
	if err != nil {
		return nil, in.Errf(c.Args[1], "bad regular expression")
	}
	return strOp(in, c, func(s string) (string, error) { return re.ReplaceAllString(s, c.Args[2].S), nil })
}

func urlDecode(in *model.Interp, c *gen.Node) (any, error) {
	if len(c.Args) != 1 {
		return nil, model.ErrUnsupported
	}
	return strOp(in, c, func(s string) (string, error) { return url.QueryUnescape(s) })
}
