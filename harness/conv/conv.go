// Package conv converts the implementation's syntax tree into the harness's
// own tree type (values and recorded positions), so that trees can be compared
// structurally and arbitrary accepted source text can be fed to the model.
package conv

import (
	"fmt"

	"github.com/GuanceCloud/platypus/pkg/ast"
	"github.com/GuanceCloud/platypus/pkg/token"
	"verifharness/gen"
)

// LnCol triple as stored in the tree, keyed by what it describes.
type PosRec struct {
	What string
	Kind string
	P    token.LnColPos
}

type Conv struct {
	// All position fields met during conversion (for C17's Ln/Col consistency check).
	All []PosRec
	Err error
	// depth of the node being converted; on guards against a "tree" in which a node is reachable from itself
	depth int
	on    map[*ast.Node]bool
}

func (c *Conv) pos(what, kind string, p token.LnColPos) int {
	c.All = append(c.All, PosRec{what, kind, p})
	return int(p.Pos)
}

func (c *Conv) fail(format string, args ...any) *gen.Node {
	if c.Err == nil {
		c.Err = fmt.Errorf(format, args...)
	}
	return nil
}

func Stmts(stmts ast.Stmts) ([]*gen.Node, *Conv) {
	c := &Conv{}
	return c.list(stmts), c
}

func (c *Conv) list(l []*ast.Node) []*gen.Node {
	if l == nil {
		return nil
	}
	out := make([]*gen.Node, 0, len(l))
	for _, n := range l {
		out = append(out, c.Node(n))
	}
	return out
}

func (c *Conv) block(n *gen.Node, b *ast.BlockStmt) []*gen.Node {
	if b == nil {
		c.fail("nil block")
		return nil
	}
	n.P.BlockL = append(n.P.BlockL, c.pos("LBracePos", "Block", b.LBracePos))
	n.P.BlockR = append(n.P.BlockR, c.pos("RBracePos", "Block", b.RBracePos))
	return c.list(b.Stmts)
}

func (c *Conv) Node(a *ast.Node) (out *gen.Node) {
	if a == nil {
		return nil
	}
	if c.on == nil {
		c.on = map[*ast.Node]bool{}
	}
	if c.on[a] {
		return c.fail("the tree is not a tree: a node of type %s is reachable from itself", a.NodeType)
	}
	if c.depth > 500000 {
		return c.fail("the tree is deeper than 500000 nodes")
	}
	c.on[a] = true
	c.depth++
	defer func() {
		c.depth--
		delete(c.on, a)
		if r := recover(); r != nil {
			out = c.fail("malformed node of type %s: %v", a.NodeType, r)
		}
	}()
	switch a.NodeType {
	case ast.TypeIdentifier:
		n := gen.NIdent(a.Identifier().Name)
		n.P.Tok = c.pos("Start", "Identifier", a.Identifier().Start)
		n.P.Start = n.P.Tok
		return n
	case ast.TypeStringLiteral:
		n := gen.NStr(a.StringLiteral().Val)
		n.P.Tok = c.pos("Start", "StringLiteral", a.StringLiteral().Start)
		n.P.Start = n.P.Tok
		return n
	case ast.TypeIntegerLiteral:
		n := gen.NInt(a.IntegerLiteral().Val)
		n.P.Tok = c.pos("Start", "IntegerLiteral", a.IntegerLiteral().Start)
		n.P.Start = n.P.Tok
		return n
	case ast.TypeFloatLiteral:
		n := gen.NFloat(a.FloatLiteral().Val)
		n.P.Tok = c.pos("Start", "FloatLiteral", a.FloatLiteral().Start)
		n.P.Start = n.P.Tok
		return n
	case ast.TypeBoolLiteral:
		n := gen.NBool(a.BoolLiteral().Val)
		n.P.Tok = c.pos("Start", "BoolLiteral", a.BoolLiteral().Start)
		n.P.Start = n.P.Tok
		return n
	case ast.TypeNilLiteral:
		n := gen.NNil()
		n.P.Tok = c.pos("Start", "NilLiteral", a.NilLiteral().Start)
		n.P.Start = n.P.Tok
		return n
	case ast.TypeListLiteral:
		e := a.ListLiteral()
		n := gen.NList(c.list(e.List)...)
		n.P.L = c.pos("LBracket", "ListLiteral", e.LBracket)
		n.P.R = c.pos("RBracket", "ListLiteral", e.RBracket)
		n.P.Tok, n.P.Start = n.P.L, n.P.L
		return n
	case ast.TypeMapLiteral:
		e := a.MapLiteral()
		n := gen.NMap()
		for _, kv := range e.KeyValeList {
			n.Args = append(n.Args, c.Node(kv[0]), c.Node(kv[1]))
		}
		n.P.L = c.pos("LBrace", "MapLiteral", e.LBrace)
		n.P.R = c.pos("RBrace", "MapLiteral", e.RBrace)
		n.P.Tok, n.P.Start = n.P.L, n.P.L
		return n
	case ast.TypeParenExpr:
		e := a.ParenExpr()
		n := gen.NParen(c.Node(e.Param))
		n.P.L = c.pos("LParen", "ParenExpr", e.LParen)
		n.P.R = c.pos("RParen", "ParenExpr", e.RParen)
		n.P.Tok, n.P.Start = n.P.L, n.P.L
		return n
	case ast.TypeAttrExpr:
		e := a.AttrExpr()
		n := gen.NAttr(c.Node(e.Obj), c.Node(e.Attr))
		n.P.Start = c.pos("Start", "AttrExpr", e.Start)
		return n
	case ast.TypeIndexExpr:
		e := a.IndexExpr()
		var obj *gen.Node
		if e.Obj != nil {
			obj = gen.NIdent(e.Obj.Name)
			obj.P.Tok = c.pos("Start", "Identifier", e.Obj.Start)
			obj.P.Start = obj.P.Tok
		}
		n := gen.NIndex(obj, c.list(e.Index)...)
		if obj != nil {
			n.P.Start = obj.P.Start
		} else {
			// the root-less form starts at its dot (what the tree reports as the node's start)
			n.P.Start = c.pos("StartPos", "IndexExpr", a.StartPos())
		}
		for _, p := range e.LBracket {
			n.P.Ls = append(n.P.Ls, c.pos("LBracket", "IndexExpr", p))
		}
		for _, p := range e.RBracket {
			n.P.Rs = append(n.P.Rs, c.pos("RBracket", "IndexExpr", p))
		}
		return n
	case ast.TypeUnaryExpr:
		e := a.UnaryExpr()
		n := gen.NUnary(string(e.Op), c.Node(e.RHS))
		n.P.Tok = c.pos("OpPos", "UnaryExpr", e.OpPos)
		n.P.Start = n.P.Tok
		return n
	case ast.TypeArithmeticExpr:
		e := a.ArithmeticExpr()
		n := gen.NBin(string(e.Op), c.Node(e.LHS), c.Node(e.RHS))
		n.Kind = gen.Binary
		n.P.Tok = c.pos("OpPos", "ArithmeticExpr", e.OpPos)
		return n
	case ast.TypeConditionalExpr:
		e := a.ConditionalExpr()
		n := gen.NBin(string(e.Op), c.Node(e.LHS), c.Node(e.RHS))
		n.Kind = gen.Binary
		n.P.Tok = c.pos("OpPos", "ConditionalExpr", e.OpPos)
		return n
	case ast.TypeInExpr:
		e := a.InExpr()
		n := gen.NBin("in", c.Node(e.LHS), c.Node(e.RHS))
		n.Op = string(e.Op) // the label the parser gave the node ("in", however the keyword was spelled)
		n.P.Tok = c.pos("OpPos", "InExpr", e.OpPos)
		return n
	case ast.TypeAssignmentExpr:
		e := a.AssignmentExpr()
		n := gen.NAssign(string(e.Op), c.list(e.LHS), c.list(e.RHS))
		n.P.Tok = c.pos("OpPos", "AssignmentExpr", e.OpPos)
		return n
	case ast.TypeCallExpr:
		e := a.CallExpr()
		n := gen.NCall(e.Name, c.list(e.Param)...)
		n.P.Tok = c.pos("NamePos", "CallExpr", e.NamePos)
		n.P.Start = n.P.Tok
		n.P.L = c.pos("LParen", "CallExpr", e.LParen)
		n.P.R = c.pos("RParen", "CallExpr", e.RParen)
		return n
	case ast.TypeSliceExpr:
		e := a.SliceExpr()
		n := gen.NSlice(c.Node(e.Obj), c.Node(e.Start), c.Node(e.End), c.Node(e.Step), e.Colon2)
		n.Colon2 = e.Colon2
		n.P.L = c.pos("LBracket", "SliceExpr", e.LBracket)
		n.P.R = c.pos("RBracket", "SliceExpr", e.RBracket)
		n.P.Tok = n.P.L
		return n
	case ast.TypeIfelseStmt:
		e := a.IfelseStmt()
		n := gen.NIf(nil, nil, nil, false)
		for _, el := range e.IfList {
			if el == nil {
				return c.fail("nil if element")
			}
			n.P.Ifs = append(n.P.Ifs, c.pos("Start", "IfStmtElem", el.Start))
			n.Conds = append(n.Conds, c.Node(el.Condition))
			n.Blocks = append(n.Blocks, c.block(n, el.Block))
		}
		if len(n.P.Ifs) > 0 {
			n.P.Start, n.P.Tok = n.P.Ifs[0], n.P.Ifs[0]
		}
		if e.Else != nil {
			n.HasElse = true
			n.P.ElsePos = c.pos("ElsePos", "IfelseStmt", e.ElsePos)
			n.Else = c.block(n, e.Else)
		}
		return n
	case ast.TypeForStmt:
		e := a.ForStmt()
		n := gen.NFor(c.Node(e.Init), c.Node(e.Cond), c.Node(e.Loop), nil)
		n.P.Tok = c.pos("ForPos", "ForStmt", e.ForPos)
		n.P.Start = n.P.Tok
		n.Body = c.block(n, e.Body)
		return n
	case ast.TypeForInStmt:
		e := a.ForInStmt()
		v := c.Node(e.Varb)
		n := gen.NForIn("", c.Node(e.Iter), nil)
		n.X = v
		n.P.Tok = c.pos("ForPos", "ForInStmt", e.ForPos)
		n.P.Start = n.P.Tok
		n.P.InPos = c.pos("InPos", "ForInStmt", e.InPos)
		n.Body = c.block(n, e.Body)
		return n
	case ast.TypeBreakStmt:
		n := gen.NBreak()
		n.P.Tok = c.pos("Start", "BreakStmt", a.BreakStmt().Start)
		n.P.Start = n.P.Tok
		return n
	case ast.TypeContinueStmt:
		n := gen.NContinue()
		n.P.Tok = c.pos("Start", "ContinueStmt", a.ContinueStmt().Start)
		n.P.Start = n.P.Tok
		return n
	}
	return c.fail("unexpected node type %s", a.NodeType)
}
