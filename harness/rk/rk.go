// Package rk wraps rapid so that every check derives its seed from VERIF_SEED,
// never leaves rapid fail files behind, and records its shrunk failing case as a
// replay file of our own.
package rk

import (
	"flag"
	"fmt"
	"os"
	"strconv"
	"testing"

	"pgregory.net/rapid"
	"verifharness/evid"
)

// Check runs prop n times under a sub-test named slot.
func Check(t *testing.T, slot string, salt, n int, prop func(*rapid.T)) bool {
	t.Helper()
	_ = os.RemoveAll("testdata/rapid")
	_ = flag.Set("rapid.checks", strconv.Itoa(n))
	_ = flag.Set("rapid.seed", strconv.FormatUint(evid.RapidSeed(salt), 10))
	_ = flag.Set("rapid.nofailfile", "true")
	_ = flag.Set("rapid.shrinktime", "20s")
	ok := t.Run(slot, func(t *testing.T) { rapid.Check(t, prop) })
	_ = os.RemoveAll("testdata/rapid")
	return ok
}

// Failer is the part of *rapid.T and *testing.T we need.
type Failer interface {
	Fatalf(format string, args ...any)
	Helper()
}

// Fail records the replay for slot and fails the current case.
func Fail(t Failer, slot string, replay any, format string, args ...any) {
	t.Helper()
	msg := fmt.Sprintf(format, args...)
	evid.Pending(slot, map[string]any{"slot": slot, "message": msg, "case": replay})
	t.Fatalf("%s", msg)
}
