package c09

import (
	"encoding/json"
	"fmt"
	"os"
	"path/filepath"
	"sort"
	"strings"
	"testing"

	"github.com/GuanceCloud/platypus/pkg/ast"
	"github.com/GuanceCloud/platypus/pkg/engine"
	plrt "github.com/GuanceCloud/platypus/pkg/engine/runtime"
	"github.com/GuanceCloud/platypus/pkg/errchain"
	"pgregory.net/rapid"
	"verifharness/evid"
	"verifharness/impl"
	"verifharness/rk"
)

const prop = "C09"

func TestMain(m *testing.M) {
	evid.Init(prop, "exploration",
		"script sets s0..s(n-1), n<=4; each script is valid with 0..2 use() calls to any member (itself included, the same callee twice included) or to a missing name, or unparsable, or check-failing; n<=3: all 23^3 configurations; n=4: all 33^4 in the thorough tier (sampled in quick); every configuration is loaded under every insertion order of the source map and repeatedly (Go's map iteration start is random, so insertion order x repetition reaches every visiting order). Oracle: a graph model (DFS on the harness's own graph): accepted iff parses, checks, every script reachable through use exists and is accepted, no use chain returns to a script on the chain; the two returned maps must partition the set exactly as predicted on every load; every use call of an accepted script is bound to the accepted Script of that name; a rejected script's PosChain is the predicted chain of (file, offset): own error for parse/check failures, callee's error followed by the call sites outward, the call site naming a missing script, and for cycles the call sites from the closing call outward (first entry: the rejected script at one of its use calls, or the closing call). Non-trivial: a script reachable along two paths, a repeated use, a cycle not through the root, or a failing callee at depth>=2; distinct by configuration.",
		"the visiting order cannot be chosen directly through the public API; it is sampled through insertion order x repeated loads (no hook is used)")
	code := m.Run()
	evid.Flush(code == 0)
	os.Exit(code)
}

type kind int

const (
	kValid kind = iota
	kUnparsable
	kCheckFail
)

type script struct {
	K     kind
	Calls []int // target indices; n = missing
}

type config []script

// name gives script i of a set of n its name. Sets of even size use names that contain one another (lib.p,
// my-lib.p, x-my-lib.p, ...; the missing script's name is a suffix of all of them): name handling must compare whole names.
func name(i, n int) string {
	if n == 2 || n == 7 {
		// names with characters that mean something to a formatter
		if i >= n {
			return "miss%s.p"
		}
		return []string{"cpu%.p", "100%done.p", "load%d.p", "%v.p", "a%%b.p", "x%!.p", "{}.p"}[i%7]
	}
	if n == 3 || n == 5 {
		// names with directories and equal base names
		if i >= n {
			return "b.p"
		}
		return strings.Repeat("lib/", i+1) + "b.p"
	}
	if n%2 == 0 {
		if i >= n {
			// a name that no script has - also one that differs from a member's name only by blanks at its ends
			switch n {
			case 4:
				return "lib.p "
			case 6:
				return "\tmy-lib.p"
			case 8:
				return "\nlib.p\n"
			}
			return "b.p"
		}
		if i == 0 {
			return "lib.p"
		}
		if i == 1 {
			return "my-lib.p"
		}
		return strings.Repeat("x-", i-1) + "my-lib.p"
	}
	if i >= n {
		if n == 1 {
			return "" // the empty name is a name no script has
		}
		return "missing.p"
	}
	return fmt.Sprintf("s%d.p", i)
}

// text renders a script and returns the offsets of its use() calls.
func text(s script, n int, variant int) (string, []int) {
	switch s.K {
	case kUnparsable:
		// one error; and texts in which the parser records several (a grammar error, later a character the lexer refuses)
		return []string{"x = = 1", "a[", "y = 1\nz = \"unterminated", "if x { use(\"s0.p\") ", "a b\nc = 1 $ 2", "x = = 1\ny = = 2\nz = \"open", "f(\n) )\n@"}[variant%7], nil
	case kCheckFail:
		// failures at different depths of the expression tree: the script's own error has 1, 2, 3, 4 positions
		return []string{"y = 2\nnosuch()", "y = 2\nx = len(nosuch())", "x = len(len(nosuch()))", "if true {\n  z = [1, {\"k\": len(len(len(nosuch2())))}]\n}", "for i in [1] { add_key() }", "x = 1\nbreak", "for i in [1] { }\nif true { continue }", "for ;; { for e in [1] { nosuch() } }", "x = pval(pval(pval(pval(pval(nosuch()))))))"[:40] + ")"}[variant%9], nil
	}
	var b strings.Builder
	var offs []int
	b.WriteString("x = 1")
	for i, c := range s.Calls {
		v := (variant + i) % 7
		switch v {
		case 0:
			b.WriteString("; ")
		case 1:
			b.WriteString("\n")
		case 2:
			b.WriteString("\n  # é\n  if x == 1 { ")
		case 3:
			// in a loop body, after a conditional continue
			b.WriteString("\nfor i = 0; i < 1; i = i + 1 {\n  if x == 2 { continue }\n  ")
		case 4:
			// in a for-in body, after a conditional break
			b.WriteString("\nfor e in [1] {\n  if x == 2 { break }\n  y = e\n  ")
		case 5:
			// in the else branch of an if nested in a loop that also breaks
			b.WriteString("\nfor ;; {\n  if x == 2 { continue } elif x == 3 { break } else {\n    ")
		default:
			b.WriteString("\nif false { } elif x == 1 {\n  ")
		}
		offs = append(offs, b.Len())
		fmt.Fprintf(&b, "use(%q)", name(c, n))
		switch v {
		case 2:
			b.WriteString(" }")
		case 3, 4, 6:
			b.WriteString("\n}")
		case 5:
			b.WriteString("\n  }\n  break\n}")
		}
	}
	return b.String(), offs
}

type site struct {
	File string
	Pos  int
}

// predict computes for script r: accepted, or the expected error chain.
// cycle=true means the chain's first entry has the tolerant form.
type prediction struct {
	Accepted bool
	Kind     string // "own", "missing", "callee-invalid", "cycle"
	Callee   int    // for callee-invalid: the invalid script
	Tail     []site // call sites from the innermost outward (for own: empty)
}

func predict(cfg config, offs [][]int, r int) prediction {
	n := len(cfg)
	if cfg[r].K != kValid {
		return prediction{Kind: "own"}
	}
	var visit func(i int, path []int) *prediction
	visit = func(i int, path []int) *prediction {
		for ci, t := range cfg[i].Calls {
			here := site{name(i, n), offs[i][ci]}
			if t >= n {
				return &prediction{Kind: "missing", Tail: []site{here}}
			}
			if cfg[t].K != kValid {
				return &prediction{Kind: "callee-invalid", Callee: t, Tail: []site{here}}
			}
			onPath := false
			for _, p := range path {
				if p == t {
					onPath = true
				}
			}
			if onPath {
				return &prediction{Kind: "cycle", Tail: []site{here}}
			}
			if p := visit(t, append(append([]int{}, path...), t)); p != nil {
				p.Tail = append(p.Tail, here)
				return p
			}
		}
		return nil
	}
	if p := visit(r, []int{r}); p != nil {
		return *p
	}
	return prediction{Accepted: true}
}

func nontrivial(cfg config) bool {
	n := len(cfg)
	indeg := make([]int, n)
	for i, s := range cfg {
		if s.K != kValid {
			continue
		}
		seen := map[int]bool{}
		for _, c := range s.Calls {
			if c < n {
				if seen[c] {
					return true // repeated use
				}
				seen[c] = true
				indeg[c]++
				if c == i {
					return true // self cycle
				}
			}
		}
	}
	for _, d := range indeg {
		if d >= 2 {
			return true // reachable along two paths (or part of a non-trivial cycle structure)
		}
	}
	// failing callee at depth >= 2
	for i, s := range cfg {
		if s.K != kValid {
			continue
		}
		for _, c := range s.Calls {
			if c < n && cfg[c].K == kValid {
				for _, c2 := range cfg[c].Calls {
					if c2 >= n || cfg[c2].K != kValid {
						_ = i
						return true
					}
				}
			}
		}
	}
	return false
}

type replay struct {
	Scripts map[string]string `json:"scripts"`
	Order   []string          `json:"insertion_order"`
	Config  string            `json:"config"`
}

var call, check = impl.FuncTables(nil, nil)

func chainOf(e error) []errchain.Position {
	if pe := impl.PlErr(e); pe != nil {
		return pe.PosChain
	}
	return nil
}

func fmtChain(c []errchain.Position) string {
	var p []string
	for _, x := range c {
		p = append(p, fmt.Sprintf("%s@%d", x.File, x.Pos))
	}
	return strings.Join(p, " <- ")
}

// loadAndCheck loads cfg with the given insertion order once and checks everything.
func loadAndCheck(t rk.Failer, slot string, cfg config, texts []string, offs [][]int, preds []prediction, order []int) {
	n := len(cfg)
	src := make(map[string]string, n)
	var ord []string
	for _, i := range order {
		src[name(i, n)] = texts[i]
		ord = append(ord, name(i, n))
	}
	rp := replay{Scripts: src, Order: ord, Config: fmt.Sprint(cfg)}
	ok, errs, crash := impl.LoadV1(src, call, check)
	if crash != nil {
		rk.Fail(t, slot, rp, "loader panicked: %s", crash.Value)
	}
	for i := 0; i < n; i++ {
		nm := name(i, n)
		s, isOK := ok[nm]
		e, isErr := errs[nm]
		if isOK == isErr {
			rk.Fail(t, slot, rp, "script %s is in %s of the two result maps", nm, map[bool]string{true: "both", false: "neither"}[isOK])
		}
		p := preds[i]
		if p.Accepted != isOK {
			if isOK {
				rk.Fail(t, slot, rp, "script %s was accepted; the set makes it unloadable (%s) [insertion order %v]", nm, p.Kind, ord)
			}
			rk.Fail(t, slot, rp, "script %s was rejected (%v); it parses, checks and everything it uses resolves without a cycle [insertion order %v]", nm, e, ord)
		}
		if isOK {
			if s == nil {
				rk.Fail(t, slot, rp, "accepted script %s is nil", nm)
			}
			// every use call is bound to the accepted script of that name
			calls := useCalls(s)
			if len(calls) != len(cfg[i].Calls) {
				rk.Fail(t, slot, rp, "script %s records %d use calls, source has %d", nm, len(calls), len(cfg[i].Calls))
			}
			for ci, ce := range calls {
				want := ok[name(cfg[i].Calls[ci], n)]
				got, _ := ce.PrivateData.(*plrt.Script)
				if got == nil || got != want {
					rk.Fail(t, slot, rp, "use call %d of %s is not bound to the loaded script %s", ci, nm, name(cfg[i].Calls[ci], n))
				}
			}
			continue
		}
		chain := chainOf(e)
		if chain == nil {
			rk.Fail(t, slot, rp, "error of %s is not a positioned script error: %v", nm, e)
		}
		for _, c := range chain {
			srcText, known := src[c.File]
			if !known {
				rk.Fail(t, slot, rp, "error chain of %s names %q, not a member of the set: %s", nm, c.File, fmtChain(chain))
			}
			if c.Pos < 0 || c.Pos > len(srcText) {
				rk.Fail(t, slot, rp, "error chain of %s has offset %d outside %s (len %d): %s", nm, c.Pos, c.File, len(srcText), fmtChain(chain))
			}
			ln, col := impl.LnCol(srcText, c.Pos)
			if ln != c.Ln || col != c.Col {
				rk.Fail(t, slot, rp, "error chain of %s: %s offset %d says %d:%d, is at %d:%d", nm, c.File, c.Pos, c.Ln, c.Col, ln, col)
			}
		}
		var wantTail []site
		switch p.Kind {
		case "own":
			if chain[0].File != nm {
				rk.Fail(t, slot, rp, "own error of %s is attributed to %s", nm, chain[0].File)
			}
			// a failure nested inside calls of the script's own text lists the enclosing calls: all in this script
			for _, q := range chain {
				if q.File != nm {
					rk.Fail(t, slot, rp, "own error of %s lists a position in another script: %s", nm, fmtChain(chain))
				}
			}
			continue
		case "missing":
			wantTail = p.Tail
			// the whole chain is the tail
			if !tailEq(chain, wantTail) {
				rk.Fail(t, slot, rp, "error of %s (missing script): chain %s, want %s [order %v]", nm, fmtChain(chain), fmtSites(wantTail), ord)
			}
		case "callee-invalid":
			own := chainOf(errs[name(p.Callee, n)])
			if len(chain) != len(own)+len(p.Tail) {
				rk.Fail(t, slot, rp, "error of %s (callee %s fails): chain %s, want the callee's error (%s) followed by %s [order %v]", nm, name(p.Callee, n), fmtChain(chain), fmtChain(own), fmtSites(p.Tail), ord)
			}
			for k := range own {
				if chain[k] != own[k] {
					rk.Fail(t, slot, rp, "error of %s does not start with the callee's own error: %s vs %s", nm, fmtChain(chain), fmtChain(own))
				}
			}
			if !tailEq(chain[len(own):], p.Tail) {
				rk.Fail(t, slot, rp, "error of %s (callee %s fails): call sites %s, want %s [order %v]", nm, name(p.Callee, n), fmtChain(chain[len(own):]), fmtSites(p.Tail), ord)
			}
		case "cycle":
			// the head entry of a cycle error is not pinned by the property beyond "root cause": accepted are the
			// call sites alone, or one of the call sites on the offending chain repeated in front of them (a use
			// call of the rejected script that does not lead into the cycle is not the root cause)
			okForm := false
			if tailEq(chain, p.Tail) {
				okForm = true
			}
			if len(chain) == len(p.Tail)+1 && tailEq(chain[1:], p.Tail) {
				for _, s := range p.Tail {
					if s.File == chain[0].File && s.Pos == chain[0].Pos {
						okForm = true
					}
				}
			}
			if !okForm {
				rk.Fail(t, slot, rp, "error of %s (cycle): chain %s, want [one of the call sites of the offending chain] followed by the call sites %s [order %v] (script %s)", nm, fmtChain(chain), fmtSites(p.Tail), ord, nm)
			}
			if msg := impl.PlErr(e).Err; strings.Contains(msg, "%!") || strings.Contains(msg, "(MISSING)") || strings.Contains(msg, "(EXTRA") {
				rk.Fail(t, slot, rp, "error text of %s is mangled by a formatter: %q", nm, msg)
			}
			if msg := impl.PlErr(e).Err; !strings.Contains(msg, nm) {
				rk.Fail(t, slot, rp, "the circular-dependency error of %s does not name it: %q", nm, msg)
			}
			if !strings.Contains(impl.PlErr(e).Err, "circular") {
				rk.Fail(t, slot, rp, "error of %s should report a circular dependency, got %q", nm, impl.PlErr(e).Err)
			}
		}
	}
}

func tailEq(c []errchain.Position, s []site) bool {
	if len(c) != len(s) {
		return false
	}
	for i := range c {
		if c[i].File != s[i].File || c[i].Pos != s[i].Pos {
			return false
		}
	}
	return true
}

func fmtSites(s []site) string {
	var p []string
	for _, x := range s {
		p = append(p, fmt.Sprintf("%s@%d", x.File, x.Pos))
	}
	return strings.Join(p, " <- ")
}

func useCalls(s *plrt.Script) []*ast.CallExpr { return s.CallRef }

func perms(n int) [][]int {
	var out [][]int
	var rec func(cur []int, used int)
	rec = func(cur []int, used int) {
		if len(cur) == n {
			out = append(out, append([]int{}, cur...))
			return
		}
		for i := 0; i < n; i++ {
			if used&(1<<i) == 0 {
				rec(append(cur, i), used|1<<i)
			}
		}
	}
	rec(nil, 0)
	return out
}

// options enumerates the per-script choices for a set of n scripts.
func options(n int) []script {
	out := []script{{K: kUnparsable}, {K: kCheckFail}, {K: kValid}}
	for a := 0; a <= n; a++ {
		out = append(out, script{K: kValid, Calls: []int{a}})
		for b := 0; b <= n; b++ {
			out = append(out, script{K: kValid, Calls: []int{a, b}})
		}
	}
	return out
}

func runConfig(t rk.Failer, slot string, cfg config, loads int, orders [][]int, variant int) {
	n := len(cfg)
	texts := make([]string, n)
	offs := make([][]int, n)
	for i, s := range cfg {
		texts[i], offs[i] = text(s, n, variant+i)
	}
	preds := make([]prediction, n)
	for i := range cfg {
		preds[i] = predict(cfg, offs, i)
	}
	for _, o := range orders {
		for l := 0; l < loads; l++ {
			loadAndCheck(t, slot, cfg, texts, offs, preds, o)
		}
	}
	nt := nontrivial(cfg)
	lab := fmt.Sprintf("n=%d", n)
	evid.Case(fmt.Sprint(cfg), nt, lab)
	if nt && (variant%211 == 0) {
		m := map[string]string{}
		acc := []string{}
		for i := range cfg {
			m[name(i, n)] = texts[i]
			if preds[i].Accepted {
				acc = append(acc, name(i, n))
			}
		}
		evid.Sample(map[string]any{"scripts": m, "accepted": acc})
	}
}

func TestExhaustiveSmallSets(t *testing.T) {
	total := 0
	for n := 1; n <= 3; n++ {
		opts := options(n)
		ps := perms(n)
		idx := make([]int, n)
		cnt := 0
		for {
			cnt++
			if cnt%evid.NShards() == evid.Shard() {
				cfg := make(config, n)
				for i := range idx {
					cfg[i] = opts[idx[i]]
				}
				runConfig(t, "small", cfg, evid.Scale(2, 4), ps, cnt)
				total++
			}
			k := 0
			for k < n {
				idx[k]++
				if idx[k] < len(opts) {
					break
				}
				idx[k] = 0
				k++
			}
			if k == n {
				break
			}
		}
	}
	evid.Exhaustive("all script sets of 1..3 scripts x all insertion orders", total)
}

func TestFourScripts(t *testing.T) {
	opts := options(4)
	ps := perms(4)
	if evid.Thorough() {
		// complete enumeration, sharded
		total, cnt := 0, 0
		for a := range opts {
			for b := range opts {
				for c := range opts {
					for d := range opts {
						cnt++
						if cnt%evid.NShards() != evid.Shard() {
							continue
						}
						// rotate through the insertion orders: 6 per configuration
						var ord [][]int
						for k := 0; k < 6; k++ {
							ord = append(ord, ps[(cnt+k*4)%len(ps)])
						}
						runConfig(t, "four", config{opts[a], opts[b], opts[c], opts[d]}, 1, ord, cnt)
						total++
					}
				}
			}
		}
		evid.Exhaustive("all script sets of 4 scripts (6 insertion orders each)", total)
		return
	}
	rk.Check(t, "four", 1, 4000, func(t *rapid.T) {
		cfg := make(config, 4)
		for i := range cfg {
			cfg[i] = opts[rapid.IntRange(0, len(opts)-1).Draw(t, "opt")]
		}
		runConfig(t, "four", cfg, 2, ps, rapid.IntRange(0, 1000).Draw(t, "variant"))
	})
}

// TestDiamondsAndRepeats: the shapes the repository's tests do not have, loaded many times.
func TestDiamondsAndRepeats(t *testing.T) {
	v := func(c ...int) script { return script{K: kValid, Calls: c} }
	cfgs := []config{
		{v(1, 2), v(), v(1)},          // diamond s0->s1, s0->s2, s2->s1
		{v(1, 1), v()},                // repeated use
		{v(1, 2), v(3), v(3), v()},    // diamond of depth 2
		{v(2, 1), v(2), v()},          // triangle
		{v(1), v(2, 2), v()},          // repeated use at depth 1
		{v(1, 2), v(2), v(3), v()},    // two paths to s2 and s3
		{v(1), v(2), v(1)},            // cycle not through the root
		{v(0)},                        // self use
		{v(1, 0), v()},                // valid call then self cycle
		{v(1, 2), v(), v(0)},          // cycle through the second call
		{v(1), v(2), {K: kCheckFail}}, // failing callee at depth 2
		{v(1), v(2), v(4)},            // missing script at depth 2
	}
	for ci, cfg := range cfgs {
		runConfig(t, "diamonds", cfg, 12, perms(len(cfg)), ci)
	}
}

// TestLongChains: use() chains of 5..40 scripts ending in a valid script, a failing one (own error chain of 1..4
// positions), a missing one, or a call back into the chain; plus wide fans. The error of every script on the chain
// lists the root cause and then every call site up to that script - also when that is more than 16 or 32 entries.
func TestLongChains(t *testing.T) {
	v := func(c ...int) script { return script{K: kValid, Calls: c} }
	n := 0
	for _, ln := range []int{5, 8, 15, 16, 17, 18, 31, 32, 33, 40} {
		for end := 0; end < 6; end++ {
			if (ln+end)%evid.NShards() != evid.Shard() {
				continue
			}
			cfg := make(config, ln)
			for i := 0; i < ln-1; i++ {
				cfg[i] = v(i + 1)
			}
			switch end {
			case 0:
				cfg[ln-1] = v()
			case 1:
				cfg[ln-1] = script{K: kCheckFail}
			case 2:
				cfg[ln-1] = script{K: kUnparsable}
			case 3:
				cfg[ln-1] = v(ln) // missing
			case 4:
				cfg[ln-1] = v(ln / 2) // back into the chain
			default:
				cfg[ln-1] = v(0) // back to the start
			}
			id := make([]int, ln)
			rev := make([]int, ln)
			mid := make([]int, ln)
			for i := range id {
				id[i], rev[i], mid[i] = i, ln-1-i, (i+ln/2)%ln
			}
			for variant := 0; variant < 6; variant++ {
				runConfig(t, "long", cfg, 2, [][]int{id, rev, mid}, variant)
				n++
			}
		}
	}
	// a long chain that is entered twice in one walk: the same callee used twice, a diamond onto the chain, a script in
	// the middle of the chain used twice - all valid; the loader visits scripts in map order, so every set is loaded 8 times
	for _, ln := range []int{8, 9, 10, 12, 17, 33} {
		for shape := 0; shape < 5; shape++ {
			if (ln+shape)%evid.NShards() != evid.Shard() {
				continue
			}
			cfg := make(config, ln+1)
			for i := 0; i < ln-1; i++ {
				cfg[i] = v(i + 1)
			}
			cfg[ln-1] = v()
			cfg[ln] = v() // an extra script outside the chain
			switch shape {
			case 0:
				cfg[0] = v(1, 1)
			case 1:
				cfg[0] = v(1, ln)
				cfg[ln] = v(1) // diamond: root -> c1, root -> d -> c1
			case 2:
				cfg[0] = v(1, ln)
				cfg[ln] = v(3) // root -> chain, root -> d -> c3
			case 3:
				cfg[2] = v(3, 3)
			default:
				cfg[0] = v(ln, 1, ln, 1)
				cfg[ln] = v(ln - 1)
			}
			id := make([]int, ln+1)
			rev := make([]int, ln+1)
			for i := range id {
				id[i], rev[i] = i, ln-i
			}
			for rep := 0; rep < 8; rep++ {
				runConfig(t, "long", cfg, 2, [][]int{id, rev}, rep%6)
				n++
			}
		}
	}
	// wide: one script using many others (twice each), some of which fail
	for _, w := range []int{6, 17, 33} {
		cfg := make(config, w+1)
		var calls []int
		for i := 1; i <= w; i++ {
			calls = append(calls, i, i)
			cfg[i] = v()
		}
		cfg[0] = v(calls...)
		id := make([]int, w+1)
		for i := range id {
			id[i] = i
		}
		runConfig(t, "long", cfg, 2, [][]int{id}, w)
		cfg[w] = script{K: kCheckFail}
		runConfig(t, "long", cfg, 2, [][]int{id}, w+1)
		n += 2
	}
	evid.Exhaustive("use chains of 5..40 scripts x 6 endings x 6 text variants x 3 insertion orders; chains entered twice (5 shapes x 8 loads); wide fans", n)
}

// TestRelink: the exported linker is given a set in which some scripts come from an earlier load (kept in memory)
// and one script of the chain was replaced by a newly loaded version of the same name. Every use call of the set
// that was linked is bound to the script of that name in that set: running the root executes the new version.
// TestIdenticalTexts: several scripts of one set have byte-identical texts (copies under other names, in other
// directories): each is judged and reported under its own name - a parse error, a check error, a missing callee, a
// cycle through itself.
func TestIdenticalTexts(t *testing.T) {
	texts := []struct {
		src    string
		reject bool
	}{
		{"x = = 1", true}, {"y = 1\nz = \"unterminated", true}, {"a b\nc = 1 $ 2", true}, {"y = 2\nnosuch()", true}, {"x = len(len(nosuch()))", true}, {"use(\"missing.p\")", true}, {"use(\"\")", true}, {"use('')", true}, {"x = 1\nuse(\"\"\"\"\"\")", true}, {"use(\" \")", true},
		{"x = 1\nbreak", true}, {"add_key(k, 1)", false}, {"use(\"ok.p\")", false}, {"x = 1\nuse(\"bad.p\")", true},
	}
	names := [][]string{{"a.p", "b.p"}, {"logging/nginx.p", "metric/nginx.p", "nginx.p"}, {"one.p", "two.p", "three.p", "four.p"}}
	n := 0
	for ti, tx := range texts {
		for ni, ns := range names {
			for rep := 0; rep < 4; rep++ {
				set := map[string]string{"ok.p": "add_key(ok, 1)", "bad.p": "nosuch2()"}
				for _, nm := range ns {
					set[nm] = tx.src
				}
				ok, errs, crash := impl.LoadV1(set, call, check)
				rp := map[string]any{"scripts": set}
				if crash != nil {
					rk.Fail(t, "identical", rp, "ParseScript panicked: %s", crash.Value)
				}
				for _, nm := range ns {
					e, bad := errs[nm]
					if bad != tx.reject || (ok[nm] != nil) == tx.reject {
						rk.Fail(t, "identical", rp, "script %s (text %q, one of %d copies): rejected=%v, want %v", nm, tx.src, len(ns), bad, tx.reject)
					}
					if !bad {
						continue
					}
					pe := impl.PlErr(e)
					if pe == nil || len(pe.PosChain) == 0 {
						rk.Fail(t, "identical", rp, "script %s: rejection without positions: %v", nm, e)
					}
					if last := pe.PosChain[len(pe.PosChain)-1]; last.File != nm {
						rk.Fail(t, "identical", rp, "script %s is reported with an error whose outermost position is in %s (the set holds %d scripts with this text)\nerror: %v", nm, last.File, len(ns), e)
					}
					if first := pe.PosChain[0]; first.File != nm && first.File != "bad.p" {
						rk.Fail(t, "identical", rp, "script %s is reported with an error that starts in %s\nerror: %v", nm, first.File, e)
					}
					for _, other := range ns {
						if other != nm && len(other) > 3 && strings.Contains(e.Error(), other+":") && !strings.Contains(nm, other) {
							rk.Fail(t, "identical", rp, "the error of script %s mentions its namesake %s\nerror: %v", nm, other, e)
						}
					}
					// an error value belongs to one script: extending one script's error leaves the others' alone
					for _, other := range ns {
						if other != nm && errs[other] == e {
							rk.Fail(t, "identical", rp, "scripts %s and %s share one error value", nm, other)
						}
					}
				}
				evid.Case(fmt.Sprintf("identical/%d/%d/%d", ti, ni, rep), true, "identical-texts")
				n++
			}
		}
	}
	evid.Exhaustive("text (unparsable, check-failing, missing callee, valid) x number of copies x repeated loads", n)
}

// TestFromFiles: a set read from a directory is the set that was written there: every script's text byte for byte
// (blank lines and indentation at its start, blanks at its end, a script of nothing but line ends), and loading it
// gives what loading the same texts directly gives - verdicts, error texts, positions.
func TestFromFiles(t *testing.T) {
	sets := []map[string]string{
		{"a.p": "\n\nuse(\"b.p\")\n", "b.p": "add_key(b, 1)"},
		{"a.p": "   use(\"b.p\")", "b.p": "\n\n"},
		{"a.p": "\n\n  use(\"c.p\")\n\n", "c.p": "\t\n  nosuch()\n"},
		{"a.p": "\r\n\r\nx = = 1\r\n", "b.p": " \n use(\"a.p\")"},
		{"a.p": "# head\n\nuse(\"a.p\")  \n\n", "b.ppl": "\n \t\n", "c.p": "\n\n\nuse(\"b.ppl\")\nuse(\"missing.p\")"},
		{"a.p": "x = \"\"\"\n text \n\"\"\"  \n\n", "b.p": "\n"},
		// script files whose names begin with a dot, or are nothing but an extension
		{"a.p": "use(\".common.p\")\nuse(\".lib.ppl\")", ".common.p": "add_key(c, 1)", ".lib.ppl": "use(\".common.p\")"},
		{".p": "add_key(dot, 1)", "user.p": "use(\".p\")", "..p": "use(\"user.p\")", ".ppl": "use(\"missing.p\")"},
		{".#a.p": "x = = 1", "a.p": "use(\".#a.p\")", "~b.p": "add_key(t, 1)", "#c.p#.p": "use(\"~b.p\")", "-d.p": "use(\"#c.p#.p\")"},
	}
	// an interpreter line at the top (a comment to the language, part of the file); files larger than a mebibyte whose
	// use calls and last statement lie behind that mark
	filler := strings.Repeat("# filler line of a long generated header .............\n", 21000) // about 1.1 MiB
	sets = append(sets,
		map[string]string{"a.p": "#!/usr/bin/env platypus\n\nuse(\"b.p\")\nnosuch()\n", "b.p": "#! interpreter\nadd_key(b, 1)"},
		map[string]string{"a.p": "#!x\nuse(\"a.p\")", "b.p": "#!\n#!\n  use(\"missing.p\")"},
		map[string]string{"big.p": filler + "use(\"missing.p\")\n", "user.p": "use(\"big.p\")", "late.p": filler + "x = \"a string that ends behind the mark\"\nuse(\"b.p\")\n", "b.p": "add_key(b, 1)"},
	)
	n := 0
	for si0 := 0; si0 < 3*len(sets); si0++ {
		si, variant := si0/3, si0%3
		set := sets[si]
		dir, err := os.MkdirTemp("", "c09files")
		if err != nil {
			t.Fatalf("harness: %v", err)
		}
		outside := ""
		var snames []string
		for nm := range set {
			snames = append(snames, nm)
		}
		sort.Strings(snames)
		for i, nm := range snames {
			txt := set[nm]
			target := filepath.Join(dir, nm)
			if variant == 2 && (i == len(snames)-1 || i == 0 && len(snames) > 2) {
				// the script is present as a symbolic link to a file kept elsewhere (a library shared between workspaces)
				if outside == "" {
					if outside, err = os.MkdirTemp("", "c09shared"); err != nil {
						t.Fatalf("harness: %v", err)
					}
				}
				real := filepath.Join(outside, "shared-"+nm)
				if werr := os.WriteFile(real, []byte(txt), 0o644); werr != nil {
					t.Fatalf("harness: %v", werr)
				}
				if lerr := os.Symlink(real, target); lerr != nil {
					t.Fatalf("harness: %v", lerr)
				}
				continue
			}
			if werr := os.WriteFile(target, []byte(txt), 0o644); werr != nil {
				t.Fatalf("harness: %v", werr)
			}
		}
		if variant == 1 {
			// things in the directory that are not scripts of the set: sub-directories (also one named like a script) holding
			// script files - with names the set uses, names the set misses, names of members - and files with other extensions
			for _, sub := range []string{"old", "archive", "zlib.p", ".hidden"} {
				_ = os.MkdirAll(filepath.Join(dir, sub, "deeper"), 0o755)
				for _, nm := range []string{"b.p", "missing.p", "a.p", "c.p", "b.ppl", "extra.p"} {
					_ = os.WriteFile(filepath.Join(dir, sub, nm), []byte("add_key(from_subdirectory, 1)\nuse(\"a.p\")\n"), 0o644)
					_ = os.WriteFile(filepath.Join(dir, sub, "deeper", nm), []byte("x = = 1"), 0o644)
				}
			}
			for _, nm := range []string{"notes.txt", "a.p.bak", "b.p~", "missing.p.txt", "missing", "p", "ppl", "README.ppl.md"} {
				_ = os.WriteFile(filepath.Join(dir, nm), []byte("add_key(not_a_script, 1)"), 0o644)
			}
		}
		got, paths, rerr := engine.ReadPlScriptFromDir(dir)
		_ = os.RemoveAll(dir)
		if outside != "" {
			_ = os.RemoveAll(outside)
		}
		rp := map[string]any{"files": set, "directory": []string{"only the scripts", "plus sub-directories with script files and files with other extensions", "some scripts are symbolic links to files elsewhere"}[variant]}
		if rerr != nil {
			rk.Fail(t, "from-files", rp, "ReadPlScriptFromDir failed: %v", rerr)
		}
		if len(got) != len(set) || len(paths) != len(set) {
			rk.Fail(t, "from-files", rp, "the directory holds %d scripts, %d were read", len(set), len(got))
		}
		for nm, txt := range set {
			if got[nm] != txt {
				rk.Fail(t, "from-files", rp, "script %s was written as %q and read as %q", nm, txt, got[nm])
			}
		}
		ok1, errs1, crash1 := impl.LoadV1(got, call, check)
		ok2, errs2, crash2 := impl.LoadV1(set, call, check)
		if crash1 != nil || crash2 != nil {
			rk.Fail(t, "from-files", rp, "ParseScript panicked: %v %v", crash1, crash2)
		}
		for nm := range set {
			if (ok1[nm] != nil) != (ok2[nm] != nil) {
				rk.Fail(t, "from-files", rp, "script %s: accepted=%v when read from the directory, %v when loaded from the same text", nm, ok1[nm] != nil, ok2[nm] != nil)
			}
			e1, e2 := errs1[nm], errs2[nm]
			if (e1 == nil) != (e2 == nil) || (e1 != nil && e1.Error() != e2.Error()) {
				rk.Fail(t, "from-files", rp, "script %s: error %v when read from the directory, %v when loaded from the same text", nm, e1, e2)
			}
		}
		evid.Case(fmt.Sprintf("fromfiles/%d/%d", si, variant), true, "from-files", []string{"from-files/plain", "from-files/with-subdirectories-and-other-files", "from-files/symbolic-links"}[variant])
		n++
	}
	evid.Exhaustive("sets with blank lines, indentation and blank-only scripts read back from a directory", n)
}

// TestEarlierLoadsKeepTheirBindings: a host keeps the scripts of an earlier load while it loads newer versions of the
// set (callers byte-identical, a callee edited - or broken, so that the newer load is rejected): the scripts of every
// load stay bound to the scripts of THEIR load and run them.
func TestEarlierLoadsKeepTheirBindings(t *testing.T) {
	callers := []map[string]string{
		{"main.p": "use(\"lib.p\")\nadd_key(done, 1)"},
		{"main.p": "use(\"mid.p\")\nadd_key(done, 1)", "mid.p": "use(\"lib.p\")\nuse(\"lib.p\")"},
		{"main.p": "if true {\n  use(\"lib.p\")\n}\nuse(\"mid.p\")", "mid.p": "for i in [1] { use(\"lib.p\") }"},
	}
	libs := []string{"add_key(v, 1)", "add_key(v, 2)", "x = = 1", "add_key(v, 4)\nnosuch()", "add_key(v, 5)", "use(\"main.p\")", "add_key(v, 1)"}
	n := 0
	for ci, caller := range callers {
		type loaded struct {
			ok   map[string]*plrt.Script
			want string // value of v the callee of this load writes
			set  map[string]string
		}
		var kept []loaded
		for li, lib := range libs {
			set := map[string]string{"lib.p": lib}
			for k, v := range caller {
				set[k] = v
			}
			ok, errs, crash := impl.LoadV1(set, call, check)
			if crash != nil {
				rk.Fail(t, "earlier-loads", set, "load %d panicked: %s", li, crash.Value)
			}
			if len(errs) == 0 {
				kept = append(kept, loaded{ok, lib[len("add_key(v, ") : len("add_key(v, ")+1], set})
			}
			// every load kept so far: still bound to its own scripts, still running its own callee
			for ki, l := range kept {
				for name, sc := range l.ok {
					for cj, ce := range sc.CallRef {
						b, _ := ce.PrivateData.(*plrt.Script)
						if b == nil || b != l.ok[b.Name] {
							rk.Fail(t, "earlier-loads", map[string]any{"kept_load": l.set, "later_load": set}, "after load %d (lib.p = %q): use call %d of %s from kept load %d is no longer bound to the %s of its own load", li, lib, cj, name, ki, func() string {
								if b == nil {
									return "script"
								}
								return b.Name
							}())
						}
					}
				}
				pt := impl.NewPoint("m", nil, map[string]any{})
				if err, crash := impl.RunV1(l.ok["main.p"], pt, nil); err != nil || crash != nil {
					rk.Fail(t, "earlier-loads", map[string]any{"kept_load": l.set, "later_load": set}, "after load %d: main.p of kept load %d fails: %v %v", li, ki, err, crash)
				}
				if got := fmt.Sprint(pt.Fields["v"]); got != l.want {
					rk.Fail(t, "earlier-loads", map[string]any{"kept_load": l.set, "later_load": set}, "after load %d (lib.p = %q): main.p of kept load %d (lib.p = %q) leaves v = %s, its own callee writes %s", li, lib, ki, l.set["lib.p"], got, l.want)
				}
				n++
			}
		}
		evid.Case(fmt.Sprintf("earlier-loads/%d", ci), true, "earlier-loads-keep-their-bindings")
	}
	evid.Exhaustive("caller set x sequence of loads with an edited / broken callee: every kept load re-examined after every load", n)
}

// TestRelinkWithFailedCallee: the error table of an earlier load - its errors already rendered and encoded, as a host
// that logs them does - is handed to the exported linker together with a newly checked script that uses one of the
// failed scripts: the new script is rejected with the callee's error followed by its own call site, in the position
// chain and in the rendered text alike, and the stored errors stay what they were.
func TestRelinkWithFailedCallee(t *testing.T) {
	bads := []string{"x = = 1", "y = 2\nnosuch()", "x = len(len(nosuch()))", "if true {\n  z = [1, {\"k\": len(len(len(nosuch2())))}]\n}", "use(\"missing.p\")", "a b\nc = 1 $ 2", "use(\"\")", "if true { use('') }"}
	mains := []string{"use(\"lib.p\")", "x = 1\n  use(\"lib.p\")", "if true {\n  use(\"lib.p\")\n}\nuse(\"ok.p\")", "use(\"ok.p\")\nfor i in [1] { use(\"lib.p\") }"}
	render := func(pe *errchain.PlError) string {
		if pe == nil || len(pe.PosChain) == 0 {
			return "<no positions>"
		}
		out := fmt.Sprintf("%s:%d:%d: %s", pe.PosChain[0].File, pe.PosChain[0].Ln, pe.PosChain[0].Col, pe.Err)
		for _, p := range pe.PosChain[1:] {
			out += fmt.Sprintf("\n%s:%d:%d:", p.File, p.Ln, p.Col)
		}
		return out
	}
	n := 0
	for bi, bad := range bads {
		for mi, mainSrc := range mains {
			for _, rendered := range []bool{true, false} {
				set1 := map[string]string{"lib.p": bad, "ok.p": "add_key(ok, 1)"}
				ok1, errs1, crash := impl.LoadV1(set1, call, check)
				rp := map[string]any{"first_load": set1, "then_linked": map[string]string{"main.p": mainSrc}, "errors_rendered_in_between": rendered}
				if crash != nil || errs1["lib.p"] == nil || ok1["ok.p"] == nil {
					rk.Fail(t, "relink-failed", rp, "harness: first load: %v %v", errs1, crash)
				}
				libErr := impl.PlErr(errs1["lib.p"])
				if libErr == nil {
					rk.Fail(t, "relink-failed", rp, "the load error of lib.p is not a positioned script error: %v", errs1["lib.p"])
				}
				libText, libN := render(libErr), len(libErr.PosChain)
				if rendered {
					for _, e := range errs1 {
						_ = e.Error()
						_, _ = json.Marshal(e)
					}
				}
				stmts, perr, pcrash := impl.Parse("main.p", mainSrc)
				if perr != nil || pcrash != nil {
					t.Fatalf("harness: %v %v", perr, pcrash)
				}
				ms := &plrt.Script{FuncCall: call, Name: "main.p", Content: mainSrc, Ast: stmts}
				if cerr := ms.Check(check); cerr != nil {
					t.Fatalf("harness: %v", cerr)
				}
				all := map[string]*plrt.Script{"main.p": ms}
				for k, v := range ok1 {
					all[k] = v
				}
				var okr map[string]*plrt.Script
				var errr map[string]error
				func() {
					defer func() {
						if r := recover(); r != nil {
							rk.Fail(t, "relink-failed", rp, "EngineCallRefLinkAndCheck panicked: %v", r)
						}
					}()
					okr, errr = engine.EngineCallRefLinkAndCheck(all, errs1)
				}()
				if okr["main.p"] != nil || errr["main.p"] == nil {
					rk.Fail(t, "relink-failed", rp, "main.p uses the failed script lib.p but was accepted by the linker (%v)", errr)
				}
				me := impl.PlErr(errr["main.p"])
				if me == nil || len(me.PosChain) != libN+1 {
					rk.Fail(t, "relink-failed", rp, "error of main.p: %v, want the %d position(s) of lib.p's error followed by main.p's call site", errr["main.p"], libN)
				}
				at := strings.Index(mainSrc, "use(\"lib.p\")")
				if last := me.PosChain[libN]; last.File != "main.p" || last.Pos != at {
					rk.Fail(t, "relink-failed", rp, "error of main.p ends with %s offset %d, want main.p offset %d (its use call)", last.File, last.Pos, at)
				}
				if got := errr["main.p"].Error(); got != render(me) {
					rk.Fail(t, "relink-failed", rp, "the text of main.p's error does not show its position chain:\ntext:  %q\nchain: %q", got, render(me))
				}
				if !strings.HasPrefix(errr["main.p"].Error(), libText) {
					rk.Fail(t, "relink-failed", rp, "the text of main.p's error %q does not begin with the callee's error %q", errr["main.p"].Error(), libText)
				}
				if render(impl.PlErr(errs1["lib.p"])) != libText || errs1["lib.p"].Error() != libText {
					rk.Fail(t, "relink-failed", rp, "the stored error of lib.p changed while main.p was linked: %q -> %q", libText, errs1["lib.p"].Error())
				}
				evid.Case(fmt.Sprintf("relinkfailed/%d/%d/%v", bi, mi, rendered), true, "relink-with-failed-callee")
				n++
			}
		}
	}
	evid.Exhaustive("failing callee x caller text x {errors rendered before linking, not rendered}", n)
}

func TestRelink(t *testing.T) {
	rk.Check(t, "relink", 11, evid.Scale(400, 4000), func(t *rapid.T) {
		n := rapid.IntRange(2, 6).Draw(t, "n")
		nm := func(i int) string { return name(i, n|1) }
		src := func(i, ver int) string {
			s := fmt.Sprintf("add_key(v%d, %d)\n", i, ver)
			if i+1 < n {
				s += fmt.Sprintf("use(%q)\n", nm(i+1))
				if i+2 < n && i%2 == 0 {
					s += fmt.Sprintf("if v%d == %d { use(%q) }\n", i, ver, nm(i+2))
				}
			}
			return s + fmt.Sprintf("add_key(done%d, %d)", i, ver)
		}
		texts := map[string]string{}
		for i := 0; i < n; i++ {
			texts[nm(i)] = src(i, 1)
		}
		call, check := impl.FuncTables(nil, nil)
		ok1, errs1, crash := impl.LoadV1(texts, call, check)
		if crash != nil || len(errs1) != 0 {
			rk.Fail(t, "relink", texts, "harness: first load failed: %v %v", errs1, crash)
		}
		run := func(s *plrt.Script) map[string]any {
			pt := impl.NewPoint("m", nil, map[string]any{})
			if err, crash := impl.RunV1(s, pt, nil); err != nil || crash != nil {
				rk.Fail(t, "relink", texts, "run failed: %v %v", err, crash)
			}
			return pt.Fields
		}
		want := func(vers []int) string {
			m := map[string]any{}
			for i := 0; i < n; i++ {
				m[fmt.Sprintf("v%d", i)] = int64(vers[i])
				m[fmt.Sprintf("done%d", i)] = int64(vers[i])
			}
			return fmt.Sprint(m)
		}
		vers := make([]int, n)
		for i := range vers {
			vers[i] = 1
		}
		if got := fmt.Sprint(run(ok1[nm(0)])); got != want(vers) {
			rk.Fail(t, "relink", texts, "first load: root left %s, want %s", got, want(vers))
		}
		// checking an accepted, linked script again (the exported Check) changes nothing: it is still accepted and
		// its use calls are still bound
		if rapid.Bool().Draw(t, "recheck") {
			k := rapid.IntRange(0, n-1).Draw(t, "rechecked")
			var cerr error
			func() {
				defer func() {
					if r := recover(); r != nil {
						cerr = fmt.Errorf("panic: %v", r)
					}
				}()
				if e := ok1[nm(k)].Check(check); e != nil {
					cerr = e
				}
			}()
			if cerr != nil {
				rk.Fail(t, "relink", texts, "Check on the accepted script %s fails: %v", nm(k), cerr)
			}
			for ci, ce := range ok1[nm(k)].CallRef {
				if b, _ := ce.PrivateData.(*plrt.Script); b == nil || b != ok1[b.Name] {
					rk.Fail(t, "relink", texts, "after Check on the linked script %s its use call %d is no longer bound to the script of that name", nm(k), ci)
				}
			}
			if got := fmt.Sprint(run(ok1[nm(0)])); got != want(vers) {
				rk.Fail(t, "relink", texts, "after Check on the linked script %s: the root left %s, want %s", nm(k), got, want(vers))
			}
			evid.Label("relink/check-again-on-linked-script")
		}
		set := map[string]*plrt.Script{}
		for k, v := range ok1 {
			set[k] = v
		}
		// replace 1..3 scripts, one after the other, each time relinking the whole set
		for round, nr := 0, rapid.IntRange(1, 3).Draw(t, "rounds"); round < nr; round++ {
			k := rapid.IntRange(1, n-1).Draw(t, "replaced")
			vers[k] = round + 2
			one, errs, crash := impl.LoadV1(map[string]string{nm(k): func() string {
				// the replaced script is loaded alone: its own use calls are re-bound by the relink
				return src(k, vers[k])
			}()}, call, check)
			_ = errs // alone, its callees are missing: take the parsed script from whichever map holds it
			if crash != nil {
				rk.Fail(t, "relink", texts, "loading the new version panicked: %s", crash.Value)
			}
			var nu *plrt.Script
			if one[nm(k)] != nil {
				nu = one[nm(k)]
			} else {
				// a script whose callees are absent is rejected when loaded alone: load it together with stubs of its callees
				stub := map[string]string{nm(k): src(k, vers[k])}
				for j := k + 1; j < n; j++ {
					stub[nm(j)] = "x = 1"
				}
				both, e2, c2 := impl.LoadV1(stub, call, check)
				if c2 != nil || len(e2) != 0 {
					rk.Fail(t, "relink", texts, "harness: loading the new version with stubs failed: %v %v", e2, c2)
				}
				nu = both[nm(k)]
			}
			set[nm(k)] = nu
			var okr map[string]*plrt.Script
			var errr map[string]error
			func() {
				defer func() {
					if r := recover(); r != nil {
						rk.Fail(t, "relink", texts, "EngineCallRefLinkAndCheck panicked: %v", r)
					}
				}()
				okr, errr = engine.EngineCallRefLinkAndCheck(set, map[string]error{})
			}()
			if len(errr) != 0 || len(okr) != n {
				rk.Fail(t, "relink", texts, "relink after replacing %s: accepted %d of %d, errors %v", nm(k), len(okr), n, errr)
			}
			for i := 0; i < n; i++ {
				for ci, ce := range okr[nm(i)].CallRef {
					b, _ := ce.PrivateData.(*plrt.Script)
					if b == nil || b != okr[b.Name] {
						rk.Fail(t, "relink", texts, "after replacing %s (round %d): use call %d of %s is bound to a script object that is not the script of that name in the linked set (nil: %v)", nm(k), round, ci, nm(i), b == nil)
					}
				}
			}
			if got := fmt.Sprint(run(okr[nm(0)])); got != want(vers) {
				rk.Fail(t, "relink", texts, "after replacing %s by version %d and relinking: the root left %s, want %s", nm(k), vers[k], got, want(vers))
			}
			set = map[string]*plrt.Script{}
			for k2, v := range okr {
				set[k2] = v
			}
		}
		evid.Case(fmt.Sprintf("relink/%d/%v", n, vers), true, "relink")
	})
}

func TestReplays(t *testing.T) {
	files, _ := filepath.Glob(filepath.Join(evid.Dir(), "replays", prop, "*.json"))
	if r := os.Getenv("VERIF_REPLAY"); r != "" {
		files = []string{r}
	}
	for _, f := range files {
		b, err := os.ReadFile(f)
		if err != nil {
			continue
		}
		var r struct {
			Case replay `json:"case"`
		}
		if json.Unmarshal(b, &r) != nil || len(r.Case.Scripts) == 0 {
			continue
		}
		t.Run(filepath.Base(f), func(t *testing.T) {
			cfg, ok := parseConfig(r.Case)
			if !ok {
				t.Skip("replay does not describe a generated configuration")
			}
			runConfig(t, "replay", cfg, 16, perms(len(cfg)), 0)
		})
	}
}

// parseConfig recovers the configuration from the script texts of a replay.
func parseConfig(r replay) (config, bool) {
	names := make([]string, 0, len(r.Scripts))
	for k := range r.Scripts {
		names = append(names, k)
	}
	sort.Strings(names)
	n := len(names)
	cfg := make(config, n)
	for i, nm := range names {
		if nm != name(i, n) {
			return nil, false
		}
		src := r.Scripts[nm]
		switch {
		case strings.Contains(src, "= ="):
			cfg[i] = script{K: kUnparsable}
		case strings.Contains(src, "nosuch"):
			cfg[i] = script{K: kCheckFail}
		default:
			s := script{K: kValid}
			rest := src
			for {
				j := strings.Index(rest, "use(\"")
				if j < 0 {
					break
				}
				rest = rest[j+5:]
				e := strings.Index(rest, "\"")
				tn := rest[:e]
				if tn == "missing.p" || tn == "" {
					s.Calls = append(s.Calls, n)
				} else {
					var ti int
					fmt.Sscanf(tn, "s%d.p", &ti)
					s.Calls = append(s.Calls, ti)
				}
			}
			cfg[i] = s
		}
	}
	return cfg, true
}
