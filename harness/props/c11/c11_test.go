package c11

import (
	"encoding/json"
	"fmt"
	"os"
	"path/filepath"
	"strings"
	"testing"

	"pgregory.net/rapid"
	"verifharness/bmodel"
	"verifharness/evid"
	"verifharness/gen"
	"verifharness/impl"
	"verifharness/rk"
	"verifharness/sem"
	"verifharness/sgen"
)

const prop = "C11"

func TestMain(m *testing.M) {
	evid.Init(prop, "exploration",
		"(1) complete cross product: each of the 15 field builtins x each argument shape its checker accepts (identifier, back-quoted identifier, attribute expression, string literal, `_`; optional arguments present/absent) x subject situation {script variable of that name, field, tag, variable and point key, absent} x subject value of every type (nil, bool, int, float, strings incl. empty/blank/url-escaped/invalid escapes/JSON, list, map), each on a point with unrelated keys; (2) random compositions of 2..6 builtin calls interleaved with assignments. Oracle: reference model of each builtin written from fn.md (subject lookup: variable first, then point, `_` = message, get_key/rename read the point only; computed result; destination field / existing tag stays tag / measurement / stdout / return value); compared: the whole final point (measurement, tags, fields with Go types, time unchanged - the frame condition), captured standard output, value returned to the script, error presence. Non-trivial: the subject is not a plain string field called message (variable shadows key, tag destination, `_`, non-string subject, absent subject, data error); distinct by (builtin, shape, situation, value kind).",
		"string conversions and the cast table use the primitives the reference names (spf13/cast, fmt, strings, regexp, net/url, encoding/json): trusted",
		"printf output is captured by swapping os.Stdout for a file in-process")
	sem.Quiet = func(f func()) { captured(f) }
	code := m.Run()
	evid.Flush(code == 0)
	os.Exit(code)
}

var extra = bmodel.Field()

func id(s string) *gen.Node  { return gen.NIdent(s) }
func str(s string) *gen.Node { return gen.NStr(s) }

var stdoutFile *os.File

func captured(f func()) string {
	if stdoutFile == nil {
		stdoutFile, _ = os.CreateTemp("", "c11-stdout")
		if stdoutFile != nil {
			os.Remove(stdoutFile.Name()) // stays usable while open; nothing is left behind in the temp directory
		}
	}
	st, _ := stdoutFile.Stat()
	off := st.Size()
	old := os.Stdout
	os.Stdout = stdoutFile
	f()
	os.Stdout = old
	st, _ = stdoutFile.Stat()
	if st.Size() == off {
		return ""
	}
	buf := make([]byte, st.Size()-off)
	_, _ = stdoutFile.ReadAt(buf, off)
	return string(buf)
}

func judge(t rk.Failer, slot string, c *sem.Case, key string, nontrivial bool, labels ...string) {
	c.Print(nil)
	var out string
	var io sem.ImplOut
	run := func() sem.ImplOut {
		out = captured(func() { io = sem.RunV1(c, 0) })
		return io
	}
	v := sem.Decide(c, run, extra, true, false)
	if v.Discard != nil {
		evid.Discard(v.Discard.Error())
		return
	}
	if v.Msg != "" {
		rk.Fail(t, slot, c.Replay(""), "%s\nscript:\n%s\npoint: tags %v fields %v", v.Msg, c.Texts[c.Root], c.Tags, renderFields(c.Fields))
	}
	if !v.Weak && out != v.Model.Stdout {
		rk.Fail(t, slot, c.Replay(""), "standard output is %q, reference predicts %q\nscript:\n%s", out, v.Model.Stdout, c.Texts[c.Root])
	}
	if !io.Time.Equal(impl.FixedTime()) {
		rk.Fail(t, slot, c.Replay(""), "the point's time changed from %v to %v\nscript:\n%s", impl.FixedTime(), io.Time, c.Texts[c.Root])
	}
	if v.Model.Err != nil {
		labels = append(labels, "outcome/error")
	}
	evid.Case(key, nontrivial, labels...)
	if nontrivial && len(key)%13 == 0 {
		evid.Sample(map[string]any{"script": c.Texts[c.Root], "tags": c.Tags, "fields": renderFields(c.Fields), "reference_fields": renderFields(v.Model.Pt.Fields()), "reference_tags": v.Model.Pt.Tags(), "reference_measurement": v.Model.Pt.Meas})
	}
}

func renderFields(f map[string]any) map[string]string {
	out := map[string]string{}
	for k, v := range f {
		out[k] = fmt.Sprintf("%T:%v", v, v)
	}
	return out
}

// ------------------------------------------------------------------ the cross product

var shapes = []struct {
	name string
	key  func(base string) string
	node func(base string) *gen.Node
}{
	{"ident", func(b string) string { return b }, func(b string) *gen.Node { return id(b) }},
	{"string-literal", func(b string) string { return b }, func(b string) *gen.Node { return str(b) }},
	{"backquoted", func(b string) string { return b + " q" }, func(b string) *gen.Node { return id(b + " q") }},
	{"attr", func(b string) string { return b + ".sub" }, func(b string) *gen.Node { return gen.NAttr(id(b), id("sub")) }},
	{"underscore", func(b string) string { return "message" }, func(b string) *gen.Node { return id("_") }},
}

var situations = []string{"variable", "field", "tag", "variable+field", "variable+tag", "absent",
	// the variable lives in a block between the top level and the block of the call
	"variable@outer-block", "variable@for-in", "variable@for-init", "variable@top-from-depth2", "variable@outer-block+field"}

var values = []any{nil, true, int64(5), int64(0), 2.5, "plain", "", "  padded \t", "a%20b%2Fc", "%zz", "1%2B1%3D2 c%2b%2b a+b %25 %2520", "{\"a\": 1}", "MiXed é", []any{int64(1), "x"}, map[string]any{"k": 2.0}}

type builtin struct {
	name string
	// calls builds the statements for one cell; k is the key node factory (fresh node per use)
	calls func(k func() *gen.Node) [][]*gen.Node
}

func one(s ...*gen.Node) [][]*gen.Node { return [][]*gen.Node{s} }

var builtins = []builtin{
	{"add_key", func(k func() *gen.Node) [][]*gen.Node {
		return [][]*gen.Node{{gen.NCall("add_key", k())}, {gen.NCall("add_key", k(), gen.NInt(9))}, {gen.NCall("add_key", k(), gen.NList(gen.NInt(1), gen.NStr("z")))},
			{gen.NCall("add_key", k(), gen.NBin("+", gen.NStr("x"), gen.NStr("y")))}, {gen.NCall("add_key", k(), gen.NNil())}}
	}},
	{"get_key", func(k func() *gen.Node) [][]*gen.Node {
		return one(gen.NSet("got", gen.NCall("get_key", k())), gen.NCall("probe", str("got"), id("got")))
	}},
	{"set_tag", func(k func() *gen.Node) [][]*gen.Node {
		return [][]*gen.Node{{gen.NCall("set_tag", k())}, {gen.NCall("set_tag", k(), str("lit"))}, {gen.NCall("set_tag", k(), id("other"))}, {gen.NCall("set_tag", k(), gen.NAttr(id("o"), id("p")))}}
	}},
	{"drop_key", func(k func() *gen.Node) [][]*gen.Node { return one(gen.NCall("drop_key", k())) }},
	{"rename-to", func(k func() *gen.Node) [][]*gen.Node { return one(gen.NCall("rename", k(), id("other"))) }},
	{"rename-from", func(k func() *gen.Node) [][]*gen.Node {
		kk := k()
		if kk.Kind == gen.Str { // the old key must be an identifier or attribute expression
			return nil
		}
		return [][]*gen.Node{{gen.NCall("rename", id("fresh"), kk)}, {gen.NCall("rename", str("other"), k())}}
	}},
	{"cast", func(k func() *gen.Node) [][]*gen.Node {
		return [][]*gen.Node{{gen.NCall("cast", k(), str("bool"))}, {gen.NCall("cast", k(), str("int"))}, {gen.NCall("cast", k(), str("float"))}, {gen.NCall("cast", k(), str("str"))}}
	}},
	{"set_measurement", func(k func() *gen.Node) [][]*gen.Node {
		return [][]*gen.Node{{gen.NCall("set_measurement", k())}, {gen.NCall("set_measurement", k(), gen.NBool(true))}, {gen.NCall("set_measurement", k(), gen.NBool(false))}}
	}},
	{"len", func(k func() *gen.Node) [][]*gen.Node {
		kk := k()
		if kk.Kind == gen.Attr {
			return nil // an attribute expression has no value
		}
		return one(gen.NCall("probe", str("len"), gen.NCall("len", kk)))
	}},
	{"load_json", func(k func() *gen.Node) [][]*gen.Node {
		kk := k()
		if kk.Kind == gen.Attr {
			return nil
		}
		return one(gen.NSet("j", gen.NCall("load_json", kk)), gen.NCall("probe", str("json"), id("j")))
	}},
	{"strfmt", func(k func() *gen.Node) [][]*gen.Node {
		return [][]*gen.Node{{gen.NCall("strfmt", k(), str("%v-%v"), id("other"), gen.NInt(3))}, {gen.NCall("strfmt", k(), str("%d|%s|%5.1f"), gen.NInt(3), str("s"), gen.NFloat(2.25))},
			{gen.NCall("strfmt", k(), str("no verbs"))}, {gen.NCall("strfmt", k(), str("%d"), str("wrong"))}}
	}},
	{"printf", func(k func() *gen.Node) [][]*gen.Node {
		kk := k()
		if kk.Kind == gen.Attr {
			return [][]*gen.Node{{gen.NCall("printf", kk, gen.NInt(1))}}
		}
		return [][]*gen.Node{{gen.NCall("printf", kk)}, {gen.NCall("printf", k(), id("other"), gen.NInt(7))}, {gen.NCall("printf", str("[%v|%v]\n"), k(), gen.NList(gen.NInt(1)))}}
	}},
	{"trim", func(k func() *gen.Node) [][]*gen.Node {
		return [][]*gen.Node{{gen.NCall("trim", k())}, {gen.NCall("trim", k(), str("pa \t"))}, {gen.NCall("trim", k(), str(""))}}
	}},
	{"uppercase", func(k func() *gen.Node) [][]*gen.Node { return one(gen.NCall("uppercase", k())) }},
	{"replace", func(k func() *gen.Node) [][]*gen.Node {
		return [][]*gen.Node{{gen.NCall("replace", k(), str("[a-z]+"), str("<$0>"))}, {gen.NCall("replace", k(), str("("), str("x"))}, {gen.NCall("replace", k(), str(""), str("-"))},
			// the failing call as the value of another builtin: the error is reported through that call
			{gen.NCall("add_key", id("o2"), gen.NCall("replace", k(), str("a(b"), str("x")))}, {gen.NIf([]*gen.Node{gen.NBool(true)}, [][]*gen.Node{{gen.NCall("add_key", id("o2"), gen.NCall("replace", k(), str("[z-a]"), str("x")))}}, nil, false)}}
	}},
	{"url_decode", func(k func() *gen.Node) [][]*gen.Node { return one(gen.NCall("url_decode", k())) }},
}

func isScalar(v any) bool { return sgen.IsScalar(v) }

func TestCrossProduct(t *testing.T) {
	n, idx := 0, 0
	for _, b := range builtins {
		for _, sh := range shapes {
			for _, sit := range situations {
				for vi, v := range values {
					idx++
					if idx%evid.NShards() != evid.Shard() {
						continue
					}
					inPoint := sit == "field" || sit == "tag" || sit == "variable+field" || sit == "variable+tag"
					if inPoint && (sit == "field" || sit == "variable+field") && !isScalar(v) {
						continue // a point field is a scalar
					}
					if (sit == "tag" || sit == "variable+tag") && fmt.Sprintf("%T", v) != "string" {
						continue // a tag is a string
					}
					k := sh.key("kx")
					cells := b.calls(func() *gen.Node { return sh.node("kx") })
					for ci, stmts := range cells {
						var prog []*gen.Node
						fields := map[string]any{"message": "the message", "other": "other value", "keep": int64(42)}
						tags := map[string]string{"keeptag": "kt"}
						switch sit {
						case "variable":
							prog = append(prog, gen.NSet(k, sgen.Lit(v)))
						case "field":
							fields[k] = v
						case "tag":
							delete(fields, k)
							tags[k] = v.(string)
						case "variable+field":
							fields[k] = v
							prog = append(prog, gen.NSet(k, gen.NStr("from variable")))
						case "variable+tag":
							delete(fields, k)
							tags[k] = v.(string)
							prog = append(prog, gen.NSet(k, gen.NInt(77)))
						case "absent":
							if sh.name == "underscore" {
								delete(fields, "message")
							}
							if vi > 0 {
								continue // the value does not matter when the subject is absent
							}
						}
						body := append([]*gen.Node{}, stmts...)
						// follow-up: read the subject key back the way later statements of a script would
						body = append(body, gen.NCall("probe", str("after-get_key"), gen.NCall("get_key", gen.NStr(k))))
						if sh.name != "attr" {
							body = append(body, gen.NCall("probe", str("after-read"), gen.NIdent(k), gen.NCall("len", gen.NIdent(k))),
								gen.NCall("uppercase", gen.NStr(k)), gen.NCall("probe", str("after-upper"), gen.NCall("get_key", gen.NStr(k))))
						}
						inIf := func(b []*gen.Node) *gen.Node { return gen.NIf([]*gen.Node{gen.NBool(true)}, [][]*gen.Node{b}, nil, false) }
						switch sit {
						case "variable@outer-block", "variable@outer-block+field":
							if sit == "variable@outer-block+field" {
								if !isScalar(v) {
									continue
								}
								fields[k] = "from the point"
							}
							prog = append(prog, inIf([]*gen.Node{gen.NSet(k, sgen.Lit(v)), inIf(body)}))
						case "variable@for-in":
							prog = append(prog, gen.NForIn(k, gen.NList(sgen.Lit(v)), []*gen.Node{inIf(body)}))
						case "variable@for-init":
							prog = append(prog, gen.NFor(gen.NSet(k, sgen.Lit(v)), gen.NBin("<", id("pass"), gen.NInt(1)), gen.NSet("pass", gen.NInt(1)), []*gen.Node{inIf(body)}))
							prog = append([]*gen.Node{gen.NSet("pass", gen.NInt(0))}, prog...)
						case "variable@top-from-depth2":
							prog = append(prog, gen.NSet(k, sgen.Lit(v)), inIf([]*gen.Node{gen.NSet("mid", gen.NInt(1)), inIf(body)}))
						default:
							prog = append(prog, body...)
						}
						c := sem.NewCase(gen.FixAll(prog))
						c.Fields, c.Tags = fields, tags
						nt := !(sit == "field" && sh.name == "underscore" && fmt.Sprintf("%T", v) == "string")
						key := fmt.Sprintf("%s/%d/%s/%s/%T:%v", b.name, ci, sh.name, sit, v, v)
						judge(t, "cross", c, key, nt, "builtin/"+b.name, "shape/"+sh.name, "situation/"+sit)
						n++
					}
				}
			}
		}
	}
	evid.Exhaustive("builtin x argument shape x subject situation x value", n)
}

// TestSharedSubvalues: a finite value in which one collection is reachable along two paths is formatted, printed and
// cast like any other finite value (only a value that contains itself is refused).
func TestSharedSubvalues(t *testing.T) {
	uses := []struct {
		name string
		mk   func() []*gen.Node
	}{
		{"strfmt-v", func() []*gen.Node { return []*gen.Node{gen.NCall("strfmt", id("out"), str("%v"), id("v"))} }},
		{"strfmt-mixed", func() []*gen.Node {
			return []*gen.Node{gen.NCall("strfmt", id("out"), str("%s|%v|%d"), id("v"), id("leaf"), id("v"))}
		}},
		{"printf", func() []*gen.Node { return []*gen.Node{gen.NCall("printf", str("%v %v\n"), id("v"), id("leaf"))} }},
		{"cast-str", func() []*gen.Node { return []*gen.Node{gen.NCall("cast", id("v"), str("str")), gen.NCall("probe", str("v"), id("v"))} }},
		{"cast-int", func() []*gen.Node { return []*gen.Node{gen.NCall("cast", id("v"), str("int")), gen.NCall("probe", str("v"), id("v"))} }},
		{"strfmt-twice", func() []*gen.Node {
			return []*gen.Node{gen.NCall("strfmt", id("out"), str("%v"), id("v")), gen.NCall("strfmt", id("out2"), str("%v%v"), id("v"), id("v"))}
		}},
	}
	n := 0
	for _, sv := range sgen.SharedValuePrograms() {
		for _, u := range uses {
			prog := append(sv.Make(), u.mk()...)
			prog = append(prog, gen.NCall("probe", str("after"), id("keep")))
			c := sem.NewCase(gen.FixAll(prog))
			c.Fields = map[string]any{"keep": int64(42)}
			judge(t, "shared-subvalue", c, "shared/"+sv.Name+"/"+u.name, true, "shared-subvalue")
			n++
		}
	}
	evid.Exhaustive("leaf kind x shape with one collection on two paths x {strfmt, printf, cast}", n)
}

// TestEditedCollectionSubjects: a text builtin applied to a list/map variable works from the variable's contents at the
// moment of the call: applied, the collection edited in place (element assignment, compound assignment, through a
// second name, in a loop), applied again.
func TestEditedCollectionSubjects(t *testing.T) {
	set1 := func(l, r *gen.Node) *gen.Node { return gen.NAssign("=", []*gen.Node{l}, []*gen.Node{r}) }
	inits := []struct {
		name string
		mk   func() *gen.Node
		key  func() *gen.Node
	}{
		{"list", func() *gen.Node { return gen.NList(str(" x%20a "), str("y"), gen.NInt(3)) }, func() *gen.Node { return gen.NInt(0) }},
		{"list-last", func() *gen.Node { return gen.NList(str("p"), str("q")) }, func() *gen.Node { return gen.NInt(-1) }},
		{"map", func() *gen.Node { return gen.NMap(str("k"), str(" v%41 "), str("n"), gen.NInt(1)) }, func() *gen.Node { return str("k") }},
		{"map-new-key", func() *gen.Node { return gen.NMap(str("n"), gen.NInt(1)) }, func() *gen.Node { return str("k") }},
		{"nested", func() *gen.Node { return gen.NMap(str("k"), gen.NList(str("in")), str("n"), gen.NInt(1)) }, func() *gen.Node { return str("k") }},
	}
	texts := []struct {
		name string
		mk   func(v string) *gen.Node
	}{
		{"uppercase", func(v string) *gen.Node { return gen.NCall("uppercase", id(v)) }},
		{"lowercase", func(v string) *gen.Node { return gen.NCall("lowercase", id(v)) }},
		{"trim", func(v string) *gen.Node { return gen.NCall("trim", id(v)) }},
		{"replace", func(v string) *gen.Node { return gen.NCall("replace", id(v), str("[a-z]"), str("_")) }},
		{"url_decode", func(v string) *gen.Node { return gen.NCall("url_decode", id(v)) }},
	}
	edits := []struct {
		name string
		mk   func(key func() *gen.Node) []*gen.Node
	}{
		{"element", func(key func() *gen.Node) []*gen.Node { return []*gen.Node{set1(gen.NIndex(id("a"), key()), str("zed%42"))} }},
		{"compound", func(key func() *gen.Node) []*gen.Node {
			return []*gen.Node{set1(gen.NIndex(id("a"), key()), str("q")), gen.NAssign("+=", []*gen.Node{gen.NIndex(id("a"), key())}, []*gen.Node{str("more")})}
		}},
		{"second-name", func(key func() *gen.Node) []*gen.Node {
			return []*gen.Node{gen.NSet("b", id("a")), set1(gen.NIndex(id("b"), key()), str("via b"))}
		}},
		{"in-loop", func(key func() *gen.Node) []*gen.Node {
			return []*gen.Node{gen.NForIn("i", gen.NList(str("one"), str("two")), []*gen.Node{set1(gen.NIndex(id("a"), key()), id("i"))})}
		}},
		{"whole", func(key func() *gen.Node) []*gen.Node { return []*gen.Node{gen.NSet("a", gen.NList(str("fresh")))} }},
		{"none", func(key func() *gen.Node) []*gen.Node { return nil }},
	}
	n := 0
	for _, in := range inits {
		for t1i, t1 := range texts {
			for t2i, t2 := range texts {
				if t1i != t2i && (t1i+t2i)%2 == 0 && t1i != 0 {
					continue // every builtin twice, every pair with uppercase, half of the remaining pairs
				}
				for _, e := range edits {
					prog := []*gen.Node{gen.NSet("a", in.mk()), t1.mk("a"), gen.NCall("probe", str("first"), gen.NCall("get_key", str("a")), id("a"))}
					prog = append(prog, e.mk(in.key)...)
					prog = append(prog, t2.mk("a"), gen.NCall("probe", str("second"), gen.NCall("get_key", str("a")), id("a"), id("keep")))
					c := sem.NewCase(gen.FixAll(prog))
					c.Fields = map[string]any{"keep": int64(42)}
					judge(t, "edited-collection", c, "edited/"+in.name+"/"+t1.name+"/"+e.name+"/"+t2.name, true, "edited-collection-subject")
					n++
				}
			}
		}
	}
	evid.Exhaustive("collection variable x text builtin x in-place edit x text builtin again", n)
}

// TestAbsentKeyResults: get_key of a key the point lacks has the value nil; every consumer treats it as nil (an existing
// tag written with it is blanked, not removed; a variable holding it is an existing subject).
func TestAbsentKeyResults(t *testing.T) {
	absent := func() *gen.Node { return gen.NCall("get_key", id("nosuch")) }
	uses := []struct {
		name string
		mk   func() []*gen.Node
	}{
		{"add_key-tag", func() []*gen.Node { return []*gen.Node{gen.NCall("add_key", id("host"), absent())} }},
		{"add_key-field", func() []*gen.Node { return []*gen.Node{gen.NCall("add_key", id("other"), absent())} }},
		{"add_key-new", func() []*gen.Node { return []*gen.Node{gen.NCall("add_key", id("fresh"), absent())} }},
		{"add_key-var-tag", func() []*gen.Node { return []*gen.Node{gen.NSet("host", absent()), gen.NCall("add_key", id("host"))} }},
		{"set_tag", func() []*gen.Node { return []*gen.Node{gen.NSet("x", absent()), gen.NCall("set_tag", id("host"), id("x"))} }},
		{"set_tag-var", func() []*gen.Node { return []*gen.Node{gen.NSet("x", absent()), gen.NCall("set_tag", id("x"))} }},
		{"uppercase-var", func() []*gen.Node { return []*gen.Node{gen.NSet("x", absent()), gen.NCall("uppercase", id("x"))} }},
		{"trim-var", func() []*gen.Node { return []*gen.Node{gen.NSet("x", absent()), gen.NCall("trim", id("x"))} }},
		{"replace-var", func() []*gen.Node { return []*gen.Node{gen.NSet("x", absent()), gen.NCall("replace", id("x"), str("a"), str("b"))} }},
		{"url_decode-var", func() []*gen.Node { return []*gen.Node{gen.NSet("x", absent()), gen.NCall("url_decode", id("x"))} }},
		{"lowercase-var-tag", func() []*gen.Node { return []*gen.Node{gen.NSet("host", absent()), gen.NCall("lowercase", id("host"))} }},
		{"cast-var", func() []*gen.Node { return []*gen.Node{gen.NSet("x", absent()), gen.NCall("cast", id("x"), str("str")), gen.NCall("probe", str("x"), id("x"))} }},
		{"strfmt", func() []*gen.Node { return []*gen.Node{gen.NCall("strfmt", id("host"), str("%v|%s"), absent(), absent())} }},
		{"compare", func() []*gen.Node {
			return []*gen.Node{gen.NCall("probe", str("cmp"), gen.NBin("==", absent(), gen.NNil()), gen.NBin("!=", absent(), gen.NNil()), gen.NCall("len", absent()))}
		}},
		{"in-list", func() []*gen.Node {
			return []*gen.Node{gen.NSet("l", gen.NList(absent(), gen.NInt(1))), gen.NCall("probe", str("l"), id("l")), gen.NCall("add_key", id("host"), gen.NIndex(id("l"), gen.NInt(0)))}
		}},
		{"exists-after-delete", func() []*gen.Node {
			return []*gen.Node{gen.NCall("drop_key", id("other")), gen.NCall("add_key", id("host"), gen.NCall("get_key", id("other")))}
		}},
		{"variable-of-that-name", func() []*gen.Node {
			return []*gen.Node{gen.NSet("nosuch", str("a variable")), gen.NCall("add_key", id("host"), absent())}
		}},
	}
	n := 0
	for _, u := range uses {
		for sit := 0; sit < 3; sit++ {
			prog := append(u.mk(), gen.NCall("probe", str("after"), gen.NCall("get_key", str("host")), gen.NCall("get_key", str("x")), id("keep")))
			c := sem.NewCase(gen.FixAll(prog))
			c.Fields = map[string]any{"other": "other value", "keep": int64(42)}
			c.Tags = map[string]string{"host": "h1", "keeptag": "kt"}
			switch sit {
			case 1:
				delete(c.Tags, "host")
				c.Fields["host"] = "a field"
			case 2:
				c.Tags["x"] = "x as a tag"
			}
			judge(t, "absent-key-result", c, fmt.Sprintf("absentkey/%s/%d", u.name, sit), true, "absent-key-result")
			n++
		}
	}
	evid.Exhaustive("consumer of get_key(absent key) x where the destination lives", n)
}

// TestRenameAlias: `_` is another spelling of message in every argument of rename: renaming the key onto itself under
// either spelling changes nothing; renaming between `_` and other keys moves message.
func TestRenameAlias(t *testing.T) {
	calls := []func() *gen.Node{
		func() *gen.Node { return gen.NCall("rename", id("_"), id("message")) },
		func() *gen.Node { return gen.NCall("rename", id("message"), id("_")) },
		func() *gen.Node { return gen.NCall("rename", str("_"), id("message")) },
		func() *gen.Node { return gen.NCall("rename", id("_"), id("_")) },
		func() *gen.Node { return gen.NCall("rename", id("message"), id("message")) },
		func() *gen.Node { return gen.NCall("rename", id("other"), id("_")) },
		func() *gen.Node { return gen.NCall("rename", id("_"), id("other")) },
		func() *gen.Node { return gen.NCall("rename", id("fresh"), id("_")) },
		func() *gen.Node { return gen.NCall("rename", id("other"), id("other")) },
		func() *gen.Node { return gen.NCall("rename", id("keeptag"), id("keeptag")) },
	}
	n := 0
	for ci, mk := range calls {
		for sit := 0; sit < 4; sit++ {
			c := sem.NewCase(nil)
			c.Fields = map[string]any{"other": "other value", "keep": int64(42)}
			c.Tags = map[string]string{"keeptag": "kt"}
			var prog []*gen.Node
			switch sit {
			case 0:
				c.Fields["message"] = "the message"
			case 1:
				c.Tags["message"] = "message as a tag"
			case 2: // no message at all
			default:
				c.Fields["message"] = "the message"
				prog = append(prog, gen.NSet("_", gen.NStr("a variable called message")))
			}
			prog = append(prog, mk(), gen.NCall("probe", str("after"), gen.NCall("get_key", gen.NStr("message")), gen.NCall("get_key", gen.NStr("other")), gen.NCall("len", id("_"))), gen.NCall("uppercase", id("_")), gen.NCall("probe", str("upper"), gen.NCall("get_key", gen.NStr("message"))))
			c.Scripts[c.Root] = gen.FixAll(prog)
			judge(t, "rename-alias", c, fmt.Sprintf("renamealias/%d/%d", ci, sit), true, "rename-alias")
			n++
		}
	}
	evid.Exhaustive("rename call over the spellings _ / message / other keys x where message lives", n)
}

// TestArgumentTables: the non-subject arguments of replace / trim / strfmt over their own domains (the cross
// product above holds them at a few representative values): regular expression x replacement template x subject,
// cut set x subject, format verbs x argument values.
func TestArgumentTables(t *testing.T) {
	n := 0
	run := func(key string, fields map[string]any, prog ...*gen.Node) {
		prog = append(prog, gen.NCall("probe", str("after"), gen.NCall("get_key", gen.NStr("kx")), id("keep")))
		c := sem.NewCase(gen.FixAll(prog))
		c.Fields = fields
		c.Tags = map[string]string{"keeptag": "kt"}
		judge(t, "args", c, key, true, "argument-table")
		n++
	}
	pats := []string{"[a-z]+", "e", "the", " ", "USD", "-", "(\\w)(\\w)", "(?P<w>t)h", ".", "\\d+", "^", "$", "a|e", "", "(", "é", "20 ", "t+?", "\\.", "."}
	reps := []string{"<$0>", "x", "", "$1", "${1}!", "$$", "$w", "$", "[$0]", "$2$1", "\\0", "$10", "${w}-", "é$0"}
	subjects := []any{"the theme 20 USD a-b.c", "", "été 3.5", int64(20)}
	for pi, p := range pats {
		for ri, r := range reps {
			for si, subj := range subjects {
				if (pi+ri+si)%evid.NShards() != evid.Shard() {
					continue
				}
				run(fmt.Sprintf("replace/%d/%d/%d", pi, ri, si), map[string]any{"kx": subj, "keep": int64(42)},
					gen.NCall("replace", id("kx"), str(p), str(r)))
			}
		}
	}
	cuts := []string{"", " ", "ab", "\t\n ", "é", "ba", "a-c", "]", "abcdefghijklmnopqrstuvwxyz", "\U0001F600", "é\u4e2d", "\u00a9x"}
	tsubj := []any{"  ab hello ba  ", "", "aaa", "\tx\n", "ééxé", "-a-", int64(101), 1.5, true,
		// every white space character beyond ASCII at the ends (an empty cut set removes all white space), also shielding ASCII
		// blanks behind it; and format characters that are not white space (they stay)
		"\u00a0x\u00a0", "\u3000 x \u3000", " \u2028x\u2029 ", "\u0085x\u0085", "\u1680x\u2000\u2001\u2002\u2003\u2004\u2005\u2006\u2007\u2008\u2009\u200a", "\u202fx\u205f", "\v\fx\r\n",
		" \u200bx\u200b ", "\ufeff x \ufeff", "\u00a0", "x\u3000y",
		// edge characters that share their first or last byte with a character of a cut set without being in it
		"èabc", "abc©", "abcĩ", "\U0001F601x", "x\U0001F640", "\u4e2dx\u4e01", "\u6587\u4e2d", "éèé", "\xc3abc\xa9", "©é©"}
	for ci, cs := range cuts {
		for si, subj := range tsubj {
			for side := 0; side < 2; side++ {
				if (ci+si)%evid.NShards() != evid.Shard() {
					continue
				}
				call := gen.NCall("trim", id("kx"), str(cs))
				if side == 1 && ci == 0 {
					call = gen.NCall("trim", id("kx"))
				} else if side == 1 {
					continue
				}
				run(fmt.Sprintf("trim/%d/%d/%d", ci, si, side), map[string]any{"kx": subj, "keep": int64(42)}, call)
			}
		}
	}
	// cast: numeric-looking strings in every spelling a conversion routine might read differently
	csubj := []any{"010", "0755", "-012", "012.0", "0x1F", "0X1f", "0b101", "0o17", "007", "08", "09", "+12.6", "-12.6", "1e3", "1E-2", " 12", "12 ", "1_000", "1,000", "12abc", "", ".5", "5.", "-.5e1", "inf", "-Inf", "NaN", "nan",
		"9223372036854775807", "9223372036854775808", "-9223372036854775808", "-9223372036854775809", "1e19", "18446744073709551615", "0.1e-400", "true", "True", "TRUE", "t", "T", "1", "0", "f", "false", "F", "yes", "no", "on", "off", "null", "nil",
		int64(0), int64(-3), int64(1) << 53, 2.5, -0.0, 1e19, -1e19, 0.99999, true, false}
	for si, subj := range csubj {
		for ti, ty := range []string{"int", "float", "bool", "str"} {
			if (si+ti)%evid.NShards() != evid.Shard() {
				continue
			}
			run(fmt.Sprintf("cast/%d/%d", si, ti), map[string]any{"kx": subj, "keep": int64(42)}, gen.NCall("cast", id("kx"), str(ty)))
			run(fmt.Sprintf("castvar/%d/%d", si, ti), map[string]any{"keep": int64(42)}, gen.NSet("kx", sgen.Lit(subj)), gen.NCall("cast", id("kx"), str(ty)))
		}
	}
	// subject classes: characters of 1-4 bytes, bytes that are not UTF-8, NUL, line ends, a 70000-byte subject
	ssubj := []any{"a\U0001F600é\U00020000z", "ab\xffcd\xc3", "nul\x00inside", "line1\r\nline2\n", strings.Repeat("aB é", 17500), " \t\U0001F600 \t", "%F0%9F%98%80+%41%zz", "İıŉǅ ß ﬁ", "\ufeffbom"}
	scalls := []func() *gen.Node{
		func() *gen.Node { return gen.NCall("uppercase", id("kx")) },
		func() *gen.Node { return gen.NCall("trim", id("kx")) },
		func() *gen.Node { return gen.NCall("trim", id("kx"), str("a\U0001F600 \t")) },
		func() *gen.Node { return gen.NCall("replace", id("kx"), str("."), str("x")) },
		func() *gen.Node { return gen.NCall("replace", id("kx"), str("é|\\x{1F600}"), str("<$0>")) },
		func() *gen.Node { return gen.NCall("url_decode", id("kx")) },
		func() *gen.Node { return gen.NCall("cast", id("kx"), str("str")) },
		func() *gen.Node {
			return gen.NCall("strfmt", id("out"), str("[%s|%q|%v|%5.3s]"), id("kx"), id("kx"), id("kx"), id("kx"))
		},
		func() *gen.Node { return gen.NCall("probe", str("len"), gen.NCall("len", id("kx"))) },
		func() *gen.Node { return gen.NCall("set_tag", id("kx")) },
		func() *gen.Node { return gen.NCall("set_measurement", id("kx"), gen.NBool(true)) },
		func() *gen.Node { return gen.NCall("rename", id("k2"), id("kx")) },
	}
	for si, subj := range ssubj {
		for ci, mk := range scalls {
			if (si+ci)%evid.NShards() != evid.Shard() {
				continue
			}
			run(fmt.Sprintf("subjclass/%d/%d", si, ci), map[string]any{"kx": subj, "keep": int64(42)}, mk(), gen.NCall("probe", str("k2/out"), gen.NCall("get_key", str("k2")), gen.NCall("get_key", str("out"))))
		}
	}
	// load_json: the decoded document is a fresh value each time - a script may write to it; the subject text is untouched
	for di, doc := range []string{"{\"a\": 1, \"items\": [1, 2]}", "[1, [2, 3], {\"k\": null}]", "{}", "[]", "\"str\"", "12", "null", "{\"a\": {\"b\": {\"c\": [true]}}}", "{bad", "", "[1, 2", "{\"dup\": 1, \"dup\": 2}", "1e400", "[1.0, 2.50, 1e2, -0.0]", "{\"a\": 1}}", "{\"a\": 1} }", "[1, 2]]", "\"x\"]", "1}", "{\"a\": 1} x", "{\"a\": 1}{\"b\": 2}", "1 2", "[1, 2] ,", "{\"a\": 1}\n", " \t{\"a\": 1} \n", "\ufeff{\"a\": 1}", "{\"a\": 1,}", "[1, 2,]", "{'a': 1}", "NaN", "Infinity", "-0", "01", "\"\\x41\"", "\"\\ud83d\\ude00 \\u00e9\""} {
		if di%evid.NShards() != evid.Shard() {
			continue
		}
		run(fmt.Sprintf("load_json/%d", di), map[string]any{"kx": doc, "keep": int64(42)},
			gen.NSet("d", gen.NCall("load_json", id("kx"))), gen.NCall("probe", str("first"), id("d")),
			gen.NIf([]*gen.Node{gen.NBool(true)}, [][]*gen.Node{{gen.NAssign("=", []*gen.Node{gen.NIndex(id("d"), str("extra"))}, []*gen.Node{gen.NBool(true)})}}, nil, false),
			gen.NSet("e", gen.NCall("load_json", id("kx"))), gen.NCall("probe", str("again"), id("e"), id("kx")))
		run(fmt.Sprintf("load_json-list/%d", di), map[string]any{"kx": doc, "keep": int64(42)},
			gen.NSet("d", gen.NCall("load_json", id("kx"))), gen.NCall("probe", str("first"), id("d")),
			gen.NIf([]*gen.Node{gen.NBool(true)}, [][]*gen.Node{{gen.NAssign("=", []*gen.Node{gen.NIndex(id("d"), gen.NInt(0))}, []*gen.Node{str("w")})}}, nil, false),
			gen.NSet("e", gen.NCall("load_json", id("kx"))), gen.NCall("probe", str("again"), id("e")))
	}
	verbs := []string{"%v", "%d", "%s", "%5.1f", "%q", "%x", "%t", "%08.3f", "%-6d|", "%+d", "%%", "%5s|", "%T", "%c", "%e"}
	fargs := []func() *gen.Node{
		func() *gen.Node { return gen.NInt(42) }, func() *gen.Node { return gen.NFloat(2.25) }, func() *gen.Node { return str("s é") },
		func() *gen.Node { return gen.NBool(true) }, func() *gen.Node { return gen.NNil() }, func() *gen.Node { return id("keep") },
		func() *gen.Node { return id("absent") }, func() *gen.Node { return gen.NList(gen.NInt(1), str("a")) },
	}
	for vi, vb := range verbs {
		for ai, a := range fargs {
			if (vi+ai)%evid.NShards() != evid.Shard() {
				continue
			}
			run(fmt.Sprintf("strfmt/%d/%d", vi, ai), map[string]any{"keep": int64(42)}, gen.NCall("strfmt", id("kx"), str("<"+vb+">"), a()))
			if vb == "%%" {
				continue
			}
			run(fmt.Sprintf("strfmt2/%d/%d", vi, ai), map[string]any{"keep": int64(42)}, gen.NCall("strfmt", id("kx"), str(vb+" and "+vb), a(), a()))
		}
	}
	evid.Exhaustive("replace: pattern x replacement template x subject; trim: cut set x subject; strfmt: verb x argument", n)
}

// TestValuelessBuiltinsAsValues: a builtin that returns nothing has no value wherever it is used as one - assignment
// source, argument, list element, map value, condition, operand - whatever a builtin that does return a value (len,
// get_key, load_json) left behind earlier in the run or earlier in the same argument list. (What "no value" reads as is
// an open row: nil, or an error; never the value of the earlier call.)
func TestValuelessBuiltinsAsValues(t *testing.T) {
	voids := []func() *gen.Node{
		func() *gen.Node { return gen.NCall("add_key", id("k"), gen.NCall("len", id("word"))) },
		func() *gen.Node { return gen.NCall("add_key", id("k"), gen.NInt(1)) },
		func() *gen.Node { return gen.NCall("drop_key", id("nosuchkey")) },
		func() *gen.Node { return gen.NCall("drop_key", id("word")) },
		func() *gen.Node { return gen.NCall("set_tag", id("tg"), str("v")) },
		func() *gen.Node { return gen.NCall("rename", id("w2"), id("word")) },
		func() *gen.Node { return gen.NCall("cast", id("num"), str("int")) },
		func() *gen.Node { return gen.NCall("uppercase", id("word")) },
		func() *gen.Node { return gen.NCall("trim", id("word")) },
		func() *gen.Node { return gen.NCall("replace", id("word"), str("b"), str("x")) },
		func() *gen.Node { return gen.NCall("url_decode", id("word")) },
		func() *gen.Node { return gen.NCall("strfmt", id("out"), str("%v"), gen.NCall("len", id("word"))) },
		func() *gen.Node { return gen.NCall("printf", str("%v\n"), gen.NCall("get_key", id("word"))) },
		func() *gen.Node { return gen.NCall("set_measurement", str("m2")) },
	}
	before := [][]*gen.Node{
		nil,
		{gen.NSet("n", gen.NCall("len", id("word")))},
		{gen.NSet("n", gen.NCall("get_key", id("word")))},
		{gen.NSet("n", gen.NCall("load_json", str("[1, 2]")))},
		{gen.NIf([]*gen.Node{gen.NBin("==", gen.NCall("len", id("word")), gen.NInt(4))}, [][]*gen.Node{{gen.NSet("q", gen.NInt(1))}}, nil, false)},
		{gen.NSet("n", gen.NBool(true)), gen.NCall("probe", str("pre"), gen.NCall("len", id("word")))},
	}
	n := 0
	for vi, mk := range voids {
		for bi := range before {
			for pos := 0; pos < 8; pos++ {
				if (vi+bi+pos)%evid.NShards() != evid.Shard() {
					continue
				}
				var prog []*gen.Node
				for _, b := range before[bi] {
					prog = append(prog, b.Clone())
				}
				v := mk()
				switch pos {
				case 0:
					prog = append(prog, gen.NSet("r", v), gen.NCall("probe", str("r"), id("r")))
				case 1:
					prog = append(prog, gen.NCall("add_key", id("r"), v), gen.NCall("probe", str("r"), gen.NCall("get_key", id("r"))))
				case 2:
					prog = append(prog, gen.NCall("probe", str("elem"), gen.NList(gen.NInt(0), v)))
				case 3:
					prog = append(prog, gen.NCall("probe", str("mapval"), gen.NMap(str("k"), v)))
				case 4:
					prog = append(prog, gen.NIf([]*gen.Node{v}, [][]*gen.Node{{gen.NCall("probe", str("then"))}}, []*gen.Node{gen.NCall("probe", str("else"))}, true))
				case 5:
					prog = append(prog, gen.NCall("probe", str("operand"), gen.NBin("==", v, gen.NInt(4))))
				case 6:
					prog = append(prog, gen.NCall("probe", str("arg"), gen.NCall("len", id("word")), v))
				case 7:
					prog = append(prog, gen.NFor(nil, v, nil, []*gen.Node{gen.NCall("probe", str("body")), gen.NBreak()}))
				}
				prog = append(prog, gen.NCall("probe", str("after"), gen.NCall("get_key", str("k")), gen.NCall("get_key", str("word")), gen.NCall("get_key", str("r")), id("keep")))
				c := sem.NewCase(gen.FixAll(prog))
				c.Fields = map[string]any{"word": "abcd", "num": "12", "keep": int64(42)}
				c.Tags = map[string]string{"keeptag": "kt"}
				judge(t, "voidvalue", c, fmt.Sprintf("voidvalue/%d/%d/%d", vi, bi, pos), true, "valueless-builtin-as-value")
				n++
			}
		}
	}
	evid.Exhaustive("builtin without a value x earlier value-returning call x consuming position", n)
}

// ------------------------------------------------------------------ random compositions

func TestRandomCompositions(t *testing.T) {
	rk.Check(t, "random", 1, evid.Scale(3000, 25000), func(t *rapid.T) {
		g := sgen.New(t)
		g.Hostile = rapid.SampledFrom([]int{0, 20}).Draw(t, "hostile")
		g.Probes = true
		g.AddKey = true
		g.MaxDepth = 2
		g.Names = []string{"a", "b", "k1", "message"}
		builtinCall := func(g *sgen.G, d int) *gen.Node {
			for {
				c := g.BuiltinCall(d)
				n := c
				if c.Kind == gen.Assign {
					n = c.Rhs[0]
				}
				switch n.Name {
				case "grok", "xml", "datetime", "default_time", "add_pattern", "sql_cover": // C12's
					continue
				}
				return c
			}
		}
		g.Calls = []func(*sgen.G, int) *gen.Node{builtinCall, builtinCall, builtinCall}
		c := sem.NewCase(nil)
		c.Fields = map[string]any{}
		c.Tags = map[string]string{}
		for _, k := range sgen.KeyPool {
			switch rapid.IntRange(0, 3).Draw(t, "place") {
			case 0:
				c.Fields[k] = rapid.SampledFrom(values[:12]).Draw(t, "fv")
				switch c.Fields[k].(type) {
				case int64:
					g.Env[k] = sgen.TInt
				case float64:
					g.Env[k] = sgen.TFloat
				case string:
					g.Env[k] = sgen.TStr
				case bool:
					g.Env[k] = sgen.TBool
				}
			case 1:
				c.Tags[k] = rapid.SampledFrom([]string{"", "tagval", "a%20b", " x "}).Draw(t, "tv")
				g.Env[k] = sgen.TStr
			}
		}
		prog := g.Program(rapid.IntRange(2, 6).Draw(t, "size"), 1)
		c.Scripts[c.Root] = prog
		var labels []string
		for f := range g.Feat {
			labels = append(labels, "feat/"+f)
		}
		judge(t, "random", c, gen.ShapeAll(prog), true, labels...)
	})
}

func TestReplays(t *testing.T) {
	files, _ := filepath.Glob(filepath.Join(evid.Dir(), "replays", prop, "*.json"))
	if r := os.Getenv("VERIF_REPLAY"); r != "" {
		files = []string{r}
	}
	for _, f := range files {
		b, err := os.ReadFile(f)
		if err != nil {
			continue
		}
		var r struct {
			Case sem.Replay `json:"case"`
		}
		if json.Unmarshal(b, &r) != nil || len(r.Case.Texts) == 0 {
			continue
		}
		t.Run(filepath.Base(f), func(t *testing.T) {
			c, err := sem.FromReplay(r.Case)
			if err != nil {
				t.Skipf("replay not loadable: %v", err)
			}
			judgeLoaded(t, c)
		})
	}
}

func judgeLoaded(t rk.Failer, c *sem.Case) {
	var out string
	var io sem.ImplOut
	v := sem.Decide(c, func() sem.ImplOut { out = captured(func() { io = sem.RunV1(c, 0) }); return io }, extra, true, false)
	if v.Msg != "" {
		rk.Fail(t, "replay", c.Replay(""), "%s\nscript:\n%s", v.Msg, c.Texts[c.Root])
	}
	if v.Discard == nil && !v.Weak && out != v.Model.Stdout {
		rk.Fail(t, "replay", c.Replay(""), "standard output is %q, reference predicts %q", out, v.Model.Stdout)
	}
	evid.Case("replay:"+c.Texts[c.Root], true, "replay")
}
