package c14

import (
	"sort"
	"encoding/json"
	"fmt"
	"github.com/GuanceCloud/platypus/pkg/ast"
	"github.com/GuanceCloud/platypus/pkg/errchain"
	plrt "github.com/GuanceCloud/platypus/pkg/engine/runtime"
	"github.com/GuanceCloud/platypus/pkg/engine/runtimev2"
	"os"
	"path/filepath"
	"strings"
	"sync"
	"sync/atomic"
	"testing"
	"time"

	"pgregory.net/rapid"
	"verifharness/evid"
	"verifharness/gen"
	"verifharness/impl"
	"verifharness/model"
	"verifharness/probe"
	"verifharness/rk"
	"verifharness/sem"
	"verifharness/sgen"
)

const prop = "C14"

func TestMain(m *testing.M) {
	evid.Init(prop, "fault_enumeration",
		"loop-bearing programs (terminating: generated nested for / for-in / branches with probes, also inside a callee reached through use(); non-terminating: for ;; {...}, for ; true ; {...}, nested infinite loops, empty bodies, continue-only bodies, infinite loop inside a callee) x every poll index k at which the harness-owned counting signal first reports true (k = 1..number of polls of the uninterrupted run; k <= 200 for non-terminating programs), for both interpreters (v2 without use). Oracle: the run returns nil; its probe trace is a prefix of the uninterrupted trace (non-terminating programs: of the reference model's trace); no probe executes after the poll that returned true; termination: a probe called 100 times after the signal fired aborts the run (violation without any clock), empty-bodied loops fall back to a 20 s watchdog (expected run time < 1 ms). Non-trivial: the interrupted trace is a proper, non-empty prefix (the signal fired strictly inside the run) or the program does not terminate on its own; distinct by (program, k).",
		"the harness, not the scheduler, owns the moment the signal fires: the k-th poll",
		"wall-clock time is evidence only for empty-bodied infinite loops (watchdog 20 s, 4-5 orders of magnitude above the expected run time)")
	code := m.Run()
	evid.Flush(code == 0)
	os.Exit(code)
}

func id(s string) *gen.Node { return gen.NIdent(s) }

type replay struct {
	sem.Replay
	K int `json:"fire_at_poll"`
}

// runWatched runs f under the watchdog; on expiry the violation is recorded and the process exits.
func runWatched(slot string, c *sem.Case, k int, f func() sem.ImplOut) sem.ImplOut {
	done := make(chan sem.ImplOut, 1)
	go func() { done <- f() }()
	select {
	case o := <-done:
		return o
	case <-time.After(20 * time.Second):
		evid.Pending(slot, map[string]any{"slot": slot, "message": fmt.Sprintf("run did not return within 20 s after the signal fired at poll %d (expected < 1 ms)", k), "case": replay{c.Replay(""), k}})
		evid.Flush(false)
		fmt.Printf("watchdog: run did not stop after the signal fired at poll %d\nscript:\n%s\n", k, c.Texts[c.Root])
		os.Exit(1)
	}
	return sem.ImplOut{}
}

func run(c *sem.Case, k int) sem.ImplOut {
	if c.V2 {
		var sig *probe.Sig = &probe.Sig{FireAt: k, RaiseAtRec: c.RaiseAtRec}
		return sem.RunV2(c, sig)
	}
	return sem.RunV1(c, k)
}

func isPrefix(a, b []probe.Rec) (bool, string) {
	if len(a) > len(b) {
		return false, fmt.Sprintf("interrupted trace has %d records, the uninterrupted one %d", len(a), len(b))
	}
	for i := range a {
		if a[i].String() != b[i].String() {
			return false, fmt.Sprintf("record %d is %s, uninterrupted run has %s", i, a[i], b[i])
		}
	}
	return true, ""
}

// checkAt runs the case with the signal firing at poll k and checks the oracle against the full trace.
func checkAt(t rk.Failer, slot string, c *sem.Case, k int, full []probe.Rec, infinite bool) (proper bool) {
	o := runWatched(slot, c, k, func() sem.ImplOut { return run(c, k) })
	rp := replay{c.Replay(""), k}
	who := "v1"
	if c.V2 {
		who = "v2"
	}
	if o.Crash != nil {
		rk.Fail(t, slot, rp, "%s: run crashed with the signal firing at poll %d: %s\nscript:\n%s", who, k, o.Crash.Value, c.Texts[c.Root])
	}
	if len(o.LoadErrs) > 0 {
		rk.Fail(t, slot, rp, "%s: harness: program rejected at load: %v", who, o.LoadErrs)
	}
	if o.Aborted {
		rk.Fail(t, slot, rp, "%s: the run kept executing after the signal fired at poll %d (100 probe calls later it was still running)\nscript:\n%s", who, k, c.Texts[c.Root])
	}
	for i, r := range o.Trace {
		if r.Fired {
			rk.Fail(t, slot, rp, "%s: probe %s (record %d) executed after the signal was observed true at poll %d\nscript:\n%s", who, r, i, k, c.Texts[c.Root])
		}
	}
	if o.Polls >= k && o.Err != nil {
		rk.Fail(t, slot, rp, "%s: cancelled run returned an error: %v\nscript:\n%s", who, o.Err, c.Texts[c.Root])
	}
	if o.Polls < k && !infinite {
		// the run ended before the k-th poll: it is the uninterrupted run
		if ok, why := isPrefix(full, o.Trace); !ok || len(full) != len(o.Trace) {
			rk.Fail(t, slot, rp, "%s: run with the signal never firing (k=%d beyond the last poll) differs from the uninterrupted run: %s", who, k, why)
		}
		return false
	}
	if o.Polls < k && infinite {
		rk.Fail(t, slot, rp, "%s: non-terminating program returned after %d polls without the signal (k=%d)\nscript:\n%s", who, o.Polls, k, c.Texts[c.Root])
	}
	cmpTrace := o.Trace
	if infinite && len(cmpTrace) > len(full) {
		cmpTrace = cmpTrace[:len(full)] // the reference of a non-terminating program ends where the model's fuel ended
	}
	if ok, why := isPrefix(cmpTrace, full); !ok {
		rk.Fail(t, slot, rp, "%s: effects of the cancelled run (signal at poll %d) are not a prefix of the uninterrupted run: %s\nscript:\n%s", who, k, why, c.Texts[c.Root])
	}
	return len(o.Trace) > 0 && len(o.Trace) < len(full)
}

func genTerminating(t *rapid.T, v2 bool) *sem.Case {
	g := sgen.New(t)
	g.V2 = v2
	g.Probes = true
	g.Loops = true
	g.Hostile = 0
	g.MaxDepth = 2
	g.Exit = false
	var prog []*gen.Node
	if v2 {
		for _, n := range g.Names {
			prog = append(prog, gen.NSet(n, g.LitOf(sgen.TInt, 0)))
			g.Env[n], g.Defined[n] = sgen.TInt, true
		}
	}
	// force at least one loop
	loopy := func(g *sgen.G, d int) *gen.Node {
		return gen.NForIn("q", gen.NList(gen.NInt(1), gen.NInt(2), gen.NInt(3)), []*gen.Node{gen.NCall("probe", gen.NStr("q"), id("q"))})
	}
	g.Calls = []func(*sgen.G, int) *gen.Node{loopy}
	prog = append(prog, g.Program(rapid.IntRange(2, 5).Draw(t, "size"), rapid.IntRange(2, 3).Draw(t, "nest"))...)
	c := sem.NewCase(gen.FixAll(prog))
	c.V2 = v2
	if !v2 && rapid.Bool().Draw(t, "callee") {
		// move a loop into a callee
		c.Scripts["s1.p"] = gen.FixAll([]*gen.Node{
			gen.NFor(gen.NSet("j", gen.NInt(0)), gen.NBin("<", id("j"), gen.NInt(3)), gen.NSet("j", gen.NBin("+", id("j"), gen.NInt(1))),
				[]*gen.Node{gen.NCall("probe", gen.NStr("callee-it"), id("j")), gen.NForIn("e", gen.NStr("ab"), []*gen.Node{gen.NCall("probe", gen.NStr("callee-in"), id("e"))})}),
			gen.NCall("probe", gen.NStr("callee-end")),
		})
		at := rapid.IntRange(0, len(c.Scripts["main.p"])).Draw(t, "useat")
		p := c.Scripts["main.p"]
		c.Scripts["main.p"] = append(append(append([]*gen.Node{}, p[:at]...), gen.NCall("use", gen.NStr("s1.p"))), p[at:]...)
	}
	return c
}

func TestTerminatingPrograms(t *testing.T) {
	for _, v2 := range []bool{false, true} {
		v2 := v2
		name := map[bool]string{false: "term-v1", true: "term-v2"}[v2]
		rk.Check(t, name, map[bool]int{false: 1, true: 2}[v2], evid.Scale(250, 2500), func(t *rapid.T) {
			c := genTerminating(t, v2)
			c.Print(nil)
			base := run(c, 0)
			if base.Crash != nil || len(base.LoadErrs) > 0 || base.Err != nil {
				evid.Discard("uninterrupted-run-fails") // only runs that succeed on their own are interrupted here
				return
			}
			n := base.Polls
			if v2 && n == 0 {
				// an interpreter that never polls: one probe at k=1 decides below
				n = 1
			}
			if n > 400 {
				n = 400
			}
			skel := gen.Skeleton(c.Scripts[c.Root])
			for k := 1; k <= n+1; k++ {
				proper := checkAt(t, name, c, k, base.Trace, false)
				evid.Case(fmt.Sprintf("%s/%s/%d", name, skel, k), proper, name)
			}
			if base.Polls == 0 && len(c.Scripts[c.Root]) > 0 {
				rk.Fail(t, name, replay{c.Replay(""), 1}, "%s: the signal was never polled during a run with %d probe records\nscript:\n%s", name, len(base.Trace), c.Texts[c.Root])
			}
			evid.Sample(map[string]any{"interpreter": name, "script": c.Texts[c.Root], "polls": base.Polls, "probe_records": len(base.Trace)})
		})
	}
}

func infinitePrograms() []struct {
	name string
	prog map[string][]*gen.Node
	v2ok bool
} {
	inc := func(n string) *gen.Node { return gen.NSet(n, gen.NBin("+", id(n), gen.NInt(1))) }
	return []struct {
		name string
		prog map[string][]*gen.Node
		v2ok bool
	}{
		{"counting", map[string][]*gen.Node{"main.p": {gen.NSet("n", gen.NInt(0)), gen.NFor(nil, nil, nil, []*gen.Node{inc("n"), gen.NCall("probe", gen.NStr("it"), id("n"))})}}, true},
		{"empty-body", map[string][]*gen.Node{"main.p": {gen.NCall("probe", gen.NStr("start")), gen.NFor(nil, nil, nil, nil)}}, true},
		{"cond-true-empty", map[string][]*gen.Node{"main.p": {gen.NFor(nil, gen.NBool(true), nil, nil)}}, true},
		{"nested-empty", map[string][]*gen.Node{"main.p": {gen.NFor(nil, nil, nil, []*gen.Node{gen.NFor(nil, nil, nil, nil)})}}, true},
		{"inner-finite", map[string][]*gen.Node{"main.p": {gen.NSet("n", gen.NInt(0)), gen.NFor(nil, nil, nil, []*gen.Node{
			gen.NFor(gen.NSet("j", gen.NInt(0)), gen.NBin("<", id("j"), gen.NInt(3)), inc("j"), []*gen.Node{gen.NCall("probe", gen.NStr("in"), id("j"))}), inc("n"), gen.NCall("probe", gen.NStr("out"), id("n"))})}}, true},
		{"continue-only", map[string][]*gen.Node{"main.p": {gen.NFor(nil, nil, nil, []*gen.Node{gen.NIf([]*gen.Node{gen.NBool(true)}, [][]*gen.Node{{gen.NContinue()}}, nil, false), gen.NCall("probe", gen.NStr("never"))})}}, true},
		{"forin-outer", map[string][]*gen.Node{"main.p": {gen.NForIn("x", gen.NList(gen.NInt(1), gen.NInt(2)), []*gen.Node{gen.NCall("probe", gen.NStr("x"), id("x")), gen.NFor(nil, nil, nil, nil)})}}, true},
		{"loop-clause-only", map[string][]*gen.Node{"main.p": {gen.NSet("n", gen.NInt(0)), gen.NFor(nil, nil, inc("n"), []*gen.Node{gen.NCall("probe", gen.NStr("it"), id("n"))})}}, true},
		{"in-callee", map[string][]*gen.Node{"main.p": {gen.NCall("probe", gen.NStr("before")), gen.NCall("use", gen.NStr("s1.p")), gen.NCall("probe", gen.NStr("after"))},
			"s1.p": {gen.NSet("n", gen.NInt(0)), gen.NFor(nil, nil, nil, []*gen.Node{inc("n"), gen.NCall("probe", gen.NStr("callee"), id("n"))})}}, false},
		{"in-callee-empty", map[string][]*gen.Node{"main.p": {gen.NCall("use", gen.NStr("s1.p")), gen.NCall("probe", gen.NStr("after"))}, "s1.p": {gen.NFor(nil, nil, nil, nil)}}, false},
		{"in-callee-depth2", map[string][]*gen.Node{"main.p": {gen.NForIn("r", gen.NList(gen.NInt(1)), []*gen.Node{gen.NCall("use", gen.NStr("s1.p"))}), gen.NCall("probe", gen.NStr("after"))},
			"s1.p": {gen.NCall("use", gen.NStr("s2.p")), gen.NCall("probe", gen.NStr("after-s2"))}, "s2.p": {gen.NFor(nil, gen.NBin("==", gen.NInt(1), gen.NInt(1)), nil, []*gen.Node{gen.NCall("probe", gen.NStr("deep"))})}}, false},
	}
}

// TestRaisedDuringBuiltin: the host raises the flag while a builtin (the n-th probe call) is executing - between two
// polls, at any distance from the start of the run. The run returns without error after at most the statement in
// progress: in these programs every simple statement holds at most one probe call, so no probe call may follow.
func TestRaisedDuringBuiltin(t *testing.T) {
	inc := func(n string) *gen.Node { return gen.NSet(n, gen.NBin("+", id(n), gen.NInt(1))) }
	warm := func(w int64) *gen.Node {
		return gen.NFor(gen.NSet("i", gen.NInt(0)), gen.NBin("<", id("i"), gen.NInt(w)), inc("i"), []*gen.Node{gen.NSet("x", id("i"))})
	}
	type prog struct {
		name    string
		scripts map[string][]*gen.Node
		v2ok    bool
		at      []int
	}
	far := []int{1, 2, 3, 10, 100, 2047, 2048, 2049, 2050, 3001, 4095, 4096, 4097, 5001, 5002, 5003, 5007, 8191, 8193, 20011, 65537}
	progs := []prog{
		{"counting", map[string][]*gen.Node{"main.p": {gen.NSet("n", gen.NInt(0)), gen.NFor(nil, nil, nil, []*gen.Node{inc("n"), gen.NCall("probe", gen.NStr("it"), id("n"))})}}, true, far},
		{"probe-only", map[string][]*gen.Node{"main.p": {gen.NFor(nil, nil, nil, []*gen.Node{gen.NCall("probe", gen.NStr("tock"))})}}, true, far},
		{"assign-from-call-then-probe", map[string][]*gen.Node{"main.p": {gen.NSet("n", gen.NInt(0)), gen.NFor(nil, nil, nil, []*gen.Node{inc("n"), gen.NSet("y", gen.NCall("pval", id("n"))), gen.NCall("probe", gen.NStr("after-assign"), id("n")), gen.NSet("z", gen.NCall("pval", id("y"))), gen.NSet("w", id("z")), gen.NCall("probe", gen.NStr("end"), id("w"))})}}, true, far},
		{"compound-assign-from-call", map[string][]*gen.Node{"main.p": {gen.NSet("n", gen.NInt(0)), gen.NFor(nil, nil, nil, []*gen.Node{gen.NAssign("+=", []*gen.Node{id("n")}, []*gen.Node{gen.NCall("pval", gen.NInt(1))}), gen.NCall("probe", gen.NStr("it"), id("n"))})}}, true, far},
		{"three-clause", map[string][]*gen.Node{"main.p": {gen.NFor(gen.NSet("n", gen.NInt(0)), gen.NBin(">=", id("n"), gen.NInt(0)), inc("n"), []*gen.Node{gen.NCall("probe", gen.NStr("it"), id("n")), gen.NSet("y", id("n"))})}}, true, far},
		{"for-in-inside", map[string][]*gen.Node{"main.p": {gen.NFor(nil, nil, nil, []*gen.Node{gen.NForIn("e", gen.NList(gen.NInt(1), gen.NInt(2), gen.NInt(3)), []*gen.Node{gen.NCall("probe", gen.NStr("e"), id("e"))})})}}, true, far},
		{"in-callee", map[string][]*gen.Node{"main.p": {gen.NCall("probe", gen.NStr("before")), gen.NCall("use", gen.NStr("s1.p")), gen.NCall("probe", gen.NStr("after"))},
			"s1.p": {gen.NSet("n", gen.NInt(0)), gen.NFor(nil, nil, nil, []*gen.Node{inc("n"), gen.NCall("probe", gen.NStr("callee"), id("n"))})}}, false, far},
		// terminating programs: only for-in loops; no loop at all; a for-in over a string; nested for-in
		{"only-for-in", map[string][]*gen.Node{"main.p": {gen.NForIn("e", gen.NList(gen.NInt(1), gen.NInt(2), gen.NInt(3), gen.NInt(4), gen.NInt(5), gen.NInt(6), gen.NInt(7), gen.NInt(8)), []*gen.Node{gen.NCall("probe", gen.NStr("tick"), id("e"))}), gen.NCall("probe", gen.NStr("after"))}}, true, []int{1, 2, 3, 7, 8}},
		{"straight-line", map[string][]*gen.Node{"main.p": {gen.NCall("probe", gen.NStr("a")), gen.NSet("x", gen.NInt(1)), gen.NCall("probe", gen.NStr("b")), gen.NCall("probe", gen.NStr("c")), gen.NIf([]*gen.Node{gen.NBool(true)}, [][]*gen.Node{{gen.NCall("probe", gen.NStr("d")), gen.NCall("probe", gen.NStr("e"))}}, nil, false), gen.NCall("probe", gen.NStr("f"))}}, true, []int{1, 2, 3, 4, 5}},
		{"for-in-string-nested", map[string][]*gen.Node{"main.p": {gen.NForIn("c", gen.NStr("abcd"), []*gen.Node{gen.NForIn("k", gen.NMap(gen.NStr("only"), gen.NInt(1)), []*gen.Node{gen.NCall("probe", gen.NStr("in"), id("c"), id("k"))}), gen.NCall("probe", gen.NStr("out"), id("c"))})}}, true, []int{1, 2, 3, 4, 5, 6}},
	}
	// the flag is raised while a loop header is evaluated for the last time (an iterable that yields nothing, the
	// final condition, the final loop clause): the loop statement is the statement in progress, what follows it must not run
	after := func() []*gen.Node {
		return []*gen.Node{gen.NCall("probe", gen.NStr("after-1")), gen.NCall("probe", gen.NStr("after-2"))}
	}
	hdr := []prog{
		{"for-in-empty-iterable", map[string][]*gen.Node{"main.p": append([]*gen.Node{gen.NCall("probe", gen.NStr("a")), gen.NForIn("x", gen.NCall("pval", gen.NList()), []*gen.Node{gen.NCall("probe", gen.NStr("body"))})}, after()...)}, true, []int{2}},
		{"for-in-empty-string", map[string][]*gen.Node{"main.p": append([]*gen.Node{gen.NForIn("x", gen.NCall("pval", gen.NStr("")), []*gen.Node{gen.NCall("probe", gen.NStr("body"))})}, after()...)}, true, []int{1}},
		{"for-in-empty-map", map[string][]*gen.Node{"main.p": append([]*gen.Node{gen.NForIn("x", gen.NCall("pval", gen.NMap()), []*gen.Node{gen.NCall("probe", gen.NStr("body"))})}, after()...)}, true, []int{1}},
		{"for-final-condition", map[string][]*gen.Node{"main.p": append([]*gen.Node{gen.NFor(gen.NSet("i", gen.NInt(0)), gen.NBin("<", gen.NCall("pval", id("i")), gen.NInt(2)), inc("i"), []*gen.Node{gen.NCall("probe", gen.NStr("b"), id("i"))})}, after()...)}, true, []int{5}},
		{"for-final-clause", map[string][]*gen.Node{"main.p": append([]*gen.Node{gen.NFor(gen.NSet("i", gen.NInt(0)), gen.NBin("<", id("i"), gen.NInt(2)), gen.NSet("i", gen.NCall("pval", gen.NBin("+", id("i"), gen.NInt(1)))), []*gen.Node{gen.NCall("probe", gen.NStr("b"), id("i"))})}, after()...)}, true, []int{4}},
		{"for-false-at-once", map[string][]*gen.Node{"main.p": append([]*gen.Node{gen.NFor(nil, gen.NCall("pval", gen.NBool(false)), nil, []*gen.Node{gen.NCall("probe", gen.NStr("b"))})}, after()...)}, true, []int{1}},
		{"for-init-only", map[string][]*gen.Node{"main.p": append([]*gen.Node{gen.NFor(gen.NSet("i", gen.NCall("pval", gen.NInt(5))), gen.NBin("<", id("i"), gen.NInt(2)), inc("i"), []*gen.Node{gen.NCall("probe", gen.NStr("b"))})}, after()...)}, true, []int{1}},
		{"inner-loop-ends-in-outer-body", map[string][]*gen.Node{"main.p": {gen.NFor(gen.NSet("o", gen.NInt(0)), gen.NBin("<", id("o"), gen.NInt(3)), inc("o"), append([]*gen.Node{gen.NForIn("x", gen.NCall("pval", gen.NList()), []*gen.Node{gen.NCall("probe", gen.NStr("body"))})}, after()...)), gen.NCall("probe", gen.NStr("end"))}}, true, []int{1, 2}},
		{"if-condition", map[string][]*gen.Node{"main.p": append([]*gen.Node{gen.NIf([]*gen.Node{gen.NCall("pval", gen.NBool(false)), gen.NCall("pval", gen.NBool(false))}, [][]*gen.Node{{gen.NCall("probe", gen.NStr("then"))}, {gen.NCall("probe", gen.NStr("elif"))}}, nil, false)}, after()...)}, true, []int{2}},
		{"callee-loop-ends", map[string][]*gen.Node{"main.p": append([]*gen.Node{gen.NCall("use", gen.NStr("s1.p"))}, after()...),
			"s1.p": {gen.NForIn("x", gen.NCall("pval", gen.NList()), []*gen.Node{gen.NCall("probe", gen.NStr("body"))}), gen.NCall("probe", gen.NStr("callee-after"))}}, false, []int{1}},
	}
	progs = append(progs, hdr...)
	// the flag is raised during a call that is nested in a statement that is only an expression: the statement after it must not run
	wrap := map[string]func(c *gen.Node) *gen.Node{
		"paren":      func(c *gen.Node) *gen.Node { return gen.NParen(c) },
		"minus":      func(c *gen.Node) *gen.Node { return gen.NUnary("-", c) },
		"not":        func(c *gen.Node) *gen.Node { return gen.NUnary("!", c) },
		"plus-one":   func(c *gen.Node) *gen.Node { return gen.NBin("+", c, gen.NInt(1)) },
		"one-plus":   func(c *gen.Node) *gen.Node { return gen.NBin("+", gen.NInt(1), c) },
		"equals":     func(c *gen.Node) *gen.Node { return gen.NBin("==", c, gen.NInt(0)) },
		"and":        func(c *gen.Node) *gen.Node { return gen.NBin("&&", gen.NBool(true), gen.NBin("==", c, gen.NInt(1))) },
		"in-list":    func(c *gen.Node) *gen.Node { return gen.NBin("in", c, gen.NList(gen.NInt(0), gen.NInt(1))) },
		"list":       func(c *gen.Node) *gen.Node { return gen.NList(c) },
		"map-value":  func(c *gen.Node) *gen.Node { return gen.NMap(gen.NStr("k"), c) },
		"index":      func(c *gen.Node) *gen.Node { return gen.NIndex(id("lst"), c) },
		"slice":      func(c *gen.Node) *gen.Node { return gen.NSlice(id("lst"), c, nil, nil, false) },
		"ident-call": func(c *gen.Node) *gen.Node { return c },
		"nested-arg": func(c *gen.Node) *gen.Node { return gen.NBin("+", gen.NCall("len", gen.NList(c)), gen.NInt(1)) },
	}
	var wnames []string
	for k := range wrap {
		wnames = append(wnames, k)
	}
	sort.Strings(wnames)
	for _, wn := range wnames {
		stmt := wrap[wn](gen.NCall("pval", gen.NInt(1)))
		progs = append(progs, prog{"expression-statement-" + wn, map[string][]*gen.Node{"main.p": append([]*gen.Node{gen.NSet("lst", gen.NList(gen.NInt(5), gen.NInt(6))), gen.NCall("probe", gen.NStr("a")), stmt}, after()...)}, wn != "map-value", []int{2}})
		progs = append(progs, prog{"expression-statement-in-loop-" + wn, map[string][]*gen.Node{"main.p": {gen.NSet("lst", gen.NList(gen.NInt(5), gen.NInt(6))),
			gen.NFor(nil, nil, nil, append([]*gen.Node{wrap[wn](gen.NCall("pval", gen.NInt(1)))}, after()...))}}, wn != "map-value", []int{1, 4, 7}})
	}
	for _, w := range []int64{0, 10, 1000, 3000, 5000, 9000} {
		// a caller that has been running for a while, then a callee in which the flag is raised, then three more statements
		progs = append(progs, prog{fmt.Sprintf("warm-%d-then-callee", w), map[string][]*gen.Node{
			"main.p": {warm(w), gen.NCall("use", gen.NStr("s1.p")), gen.NCall("probe", gen.NStr("t1")), gen.NCall("probe", gen.NStr("t2")), gen.NCall("probe", gen.NStr("t3"))},
			"s1.p":   {gen.NCall("probe", gen.NStr("in-callee")), gen.NSet("z", gen.NInt(1))}}, false, []int{1}})
		progs = append(progs, prog{fmt.Sprintf("warm-%d-then-statements", w), map[string][]*gen.Node{
			"main.p": {warm(w), gen.NCall("probe", gen.NStr("t1")), gen.NCall("probe", gen.NStr("t2")), gen.NCall("probe", gen.NStr("t3"))}}, true, []int{1, 2}})
	}
	n := 0
	for _, p := range progs {
		for _, v2 := range []bool{false, true} {
			if v2 && !p.v2ok {
				continue
			}
			for ai, at := range p.at {
				if (ai+n)%evid.NShards() != evid.Shard() && len(p.at) > 2 {
					continue
				}
				c := &sem.Case{Scripts: map[string][]*gen.Node{}, Root: "main.p", Meas: "m", V2: v2, RaiseAtRec: at}
				for k, sc := range p.scripts {
					c.Scripts[k] = gen.FixAll(gen.CloneProg(sc))
				}
				c.Print(nil)
				who := map[bool]string{false: "v1", true: "v2"}[v2]
				slot := fmt.Sprintf("raise-%s-%s", p.name, who)
				o := runWatched(slot, c, 0, func() sem.ImplOut { return run(c, 0) })
				rp := replay{c.Replay(fmt.Sprintf("flag raised during probe call %d", at)), -at}
				switch {
				case o.Crash != nil:
					rk.Fail(t, slot, rp, "%s: run crashed: %s", who, o.Crash.Value)
				case len(o.LoadErrs) > 0:
					rk.Fail(t, slot, rp, "harness: %v", o.LoadErrs)
				case o.Aborted:
					rk.Fail(t, slot, rp, "%s: the run kept executing after the flag was raised during probe call %d (100 probe calls later it was still running)\nscript:\n%s", who, at, c.Texts[c.Root])
				case o.Err != nil:
					rk.Fail(t, slot, rp, "%s: cancelled run returned an error: %v", who, o.Err)
				case o.Polls == 0:
					rk.Fail(t, slot, rp, "%s: the signal given to the run was never polled (the program has %d statements at top level)\nscript:\n%s", who, len(c.Scripts[c.Root]), c.Texts[c.Root])
				case len(o.Trace) >= at && o.AfterRaise > 0:
					rk.Fail(t, slot, rp, "%s: %d probe call(s) executed after the flag was raised during probe call %d (each statement holds one probe call: at most the statement in progress may finish)\nlast records: %v\nscript:\n%s", who, o.AfterRaise, at, o.Trace[len(o.Trace)-min(len(o.Trace), 4):], c.Texts[c.Root])
				}
				evid.Case(fmt.Sprintf("%s/%d", slot, at), true, "raised-during-builtin/"+who)
				n++
			}
		}
	}
	evid.Exhaustive("programs x interpreter x probe call during which the flag is raised (up to call 65537)", n)
}

// TestOrderDependentPrograms: loops over a map that the body itself grows (which keys are visited is unspecified, so
// there is no single uninterrupted trace to compare with) and long runs interrupted at high poll indices: the
// order-free part of the oracle applies - no probe call after the signal was observed, no error, termination.
func TestOrderDependentPrograms(t *testing.T) {
	grow := func(first *gen.Node) []*gen.Node {
		return []*gen.Node{gen.NSet("m", gen.NMap(gen.NStr("a"), gen.NInt(1), gen.NStr("b"), gen.NInt(2))), gen.NSet("n", gen.NInt(0)),
			gen.NForIn("k", id("m"), []*gen.Node{first,
				gen.NAssign("=", []*gen.Node{gen.NIndex(id("m"), gen.NBin("+", id("k"), gen.NStr("x")))}, []*gen.Node{gen.NInt(1)}),
				gen.NSet("n", gen.NBin("+", id("n"), gen.NInt(1))),
				gen.NIf([]*gen.Node{gen.NBin(">", id("n"), gen.NInt(12))}, [][]*gen.Node{{gen.NBreak()}}, nil, false),
				gen.NCall("probe", gen.NStr("end-of-pass"))}),
			gen.NCall("probe", gen.NStr("after"))}
	}
	progs := map[string][]*gen.Node{
		"grow-probe-first":  grow(gen.NCall("probe", gen.NStr("pass"), id("k"))),
		"grow-assign-first": grow(gen.NSet("z", gen.NCall("pval", id("k")))),
		"nested-grow": {gen.NSet("m", gen.NMap(gen.NStr("a"), gen.NInt(1))), gen.NSet("n", gen.NInt(0)), gen.NForIn("o", gen.NList(gen.NInt(1), gen.NInt(2)), []*gen.Node{
			gen.NForIn("k", id("m"), []*gen.Node{gen.NCall("probe", gen.NStr("pass"), id("o")), gen.NAssign("=", []*gen.Node{gen.NIndex(id("m"), gen.NBin("+", id("k"), gen.NStr("y")))}, []*gen.Node{id("o")}),
				gen.NSet("n", gen.NBin("+", id("n"), gen.NInt(1))), gen.NIf([]*gen.Node{gen.NBin(">", id("n"), gen.NInt(10))}, [][]*gen.Node{{gen.NBreak()}}, nil, false)})})},
	}
	// strings that mix one-byte and longer characters (and bytes that are no character at all), two statements per pass
	two := func(v string) []*gen.Node {
		return []*gen.Node{gen.NCall("probe", gen.NStr("p"), id(v)), gen.NCall("probe", gen.NStr("q"), id(v))}
	}
	progs["mixed-string"] = []*gen.Node{gen.NForIn("c", gen.NStr("ab\u00e9\u4e16\U0001F600xy"), two("c")), gen.NCall("probe", gen.NStr("after"))}
	progs["mixed-string-invalid-bytes"] = []*gen.Node{gen.NForIn("c", gen.NStr("ab\xffcd\u00e9\xf0\x9f"), two("c")), gen.NCall("probe", gen.NStr("after"))}
	progs["mixed-string-nested"] = []*gen.Node{gen.NForIn("c", gen.NStr("a\u00e9"), []*gen.Node{gen.NForIn("d", gen.NStr("b\u00e9\U0001F600z"), two("d")), gen.NCall("probe", gen.NStr("outer"), id("c"))}), gen.NCall("probe", gen.NStr("after"))}
	// loops over maps of several keys whose passes end in continue / break / an if without else: whichever key comes
	// first, nothing of the next pass runs once the stop was observed
	m4 := func() *gen.Node {
		return gen.NMap(gen.NStr("a"), gen.NInt(1), gen.NStr("b"), gen.NInt(2), gen.NStr("c"), gen.NInt(3), gen.NStr("d"), gen.NInt(4))
	}
	progs["map-pass-ends-in-continue"] = []*gen.Node{gen.NForIn("k", m4(), []*gen.Node{gen.NCall("probe", gen.NStr("head")), gen.NContinue()}), gen.NCall("probe", gen.NStr("after"))}
	progs["map-pass-continue-in-branch"] = []*gen.Node{gen.NSet("m", m4()), gen.NForIn("k", id("m"), []*gen.Node{gen.NCall("probe", gen.NStr("head")), gen.NIf([]*gen.Node{gen.NBin("!=", id("k"), gen.NStr("zz"))}, [][]*gen.Node{{gen.NContinue()}}, nil, false), gen.NCall("probe", gen.NStr("tail"))}), gen.NCall("probe", gen.NStr("after"))}
	progs["map-nested-continue"] = []*gen.Node{gen.NForIn("o", gen.NList(gen.NInt(1), gen.NInt(2)), []*gen.Node{gen.NForIn("k", m4(), []*gen.Node{gen.NCall("probe", gen.NStr("head"), id("o")), gen.NIf([]*gen.Node{gen.NBool(true)}, [][]*gen.Node{{gen.NIf([]*gen.Node{gen.NBool(true)}, [][]*gen.Node{{gen.NContinue()}}, nil, false)}}, nil, false)}), gen.NCall("probe", gen.NStr("outer"), id("o"))}), gen.NCall("probe", gen.NStr("after"))}
	progs["map-pass-plain"] = []*gen.Node{gen.NForIn("k", m4(), []*gen.Node{gen.NCall("probe", gen.NStr("head")), gen.NSet("x", gen.NInt(1))}), gen.NCall("probe", gen.NStr("after"))}
	progs["list-pass-ends-in-continue"] = []*gen.Node{gen.NForIn("k", gen.NList(gen.NInt(1), gen.NInt(2), gen.NInt(3)), []*gen.Node{gen.NCall("probe", gen.NStr("head"), id("k")), gen.NContinue()}), gen.NCall("probe", gen.NStr("after"))}
	progs["string-pass-ends-in-continue"] = []*gen.Node{gen.NForIn("k", gen.NStr("a\u00e9z"), []*gen.Node{gen.NCall("probe", gen.NStr("head"), id("k")), gen.NIf([]*gen.Node{gen.NBool(true)}, [][]*gen.Node{{gen.NContinue()}}, nil, false)}), gen.NCall("probe", gen.NStr("after"))}
	progs["multibyte-first"] = []*gen.Node{gen.NForIn("c", gen.NStr("\u4e16ab\u00e9c"), two("c")), gen.NCall("probe", gen.NStr("after"))}
	n := 0
	for name, p := range progs {
		for _, v2 := range []bool{false, true} {
			c := &sem.Case{Scripts: map[string][]*gen.Node{"main.p": gen.FixAll(gen.CloneProg(p))}, Root: "main.p", Meas: "m", V2: v2}
			c.Print(nil)
			who := map[bool]string{false: "v1", true: "v2"}[v2]
			slot := "orderfree-" + name + "-" + who
			for rep := 0; rep < evid.Scale(6, 30); rep++ {
				for k := 1; k <= 70; k++ {
					o := runWatched(slot, c, k, func() sem.ImplOut { return run(c, k) })
					rp := replay{c.Replay(""), k}
					if o.Crash != nil || len(o.LoadErrs) > 0 {
						rk.Fail(t, slot, rp, "%s: %v %v\nscript:\n%s", who, o.Crash, o.LoadErrs, c.Texts[c.Root])
					}
					if o.Aborted {
						rk.Fail(t, slot, rp, "%s: the run kept executing after the signal fired at poll %d\nscript:\n%s", who, k, c.Texts[c.Root])
					}
					for i, r := range o.Trace {
						if r.Fired {
							rk.Fail(t, slot, rp, "%s: probe %s (record %d) executed after the signal was observed true at poll %d\nscript:\n%s", who, r, i, k, c.Texts[c.Root])
						}
					}
					if o.Polls >= k && o.Err != nil {
						rk.Fail(t, slot, rp, "%s: cancelled run returned an error: %v", who, o.Err)
					}
					n++
				}
			}
			evid.Case(slot, true, "order-dependent/"+who)
		}
	}
	evid.LabelN("order-dependent-runs", n)
}

// TestNilReceiverSignal: a host may pass a typed nil pointer whose ExitSignal method works on a nil receiver (the
// repository's own signal test uses that shape): it is a signal like any other and must be polled.
// richSig is a host signal that is more than a signal: it also has the methods of a context (its Done channel is never
// closed: this host stops runs through ExitSignal alone), a Stringer, a closer. The interpreters are given a Signal and
// use it as one.
type richSig struct {
	n, fireAt int64
	ch        chan struct{}
}

func (s *richSig) ExitSignal() bool            { return atomic.AddInt64(&s.n, 1) >= s.fireAt }
func (s *richSig) Done() <-chan struct{}       { return s.ch }
func (s *richSig) Err() error                  { return nil }
func (s *richSig) Deadline() (time.Time, bool) { return time.Time{}, false }
func (s *richSig) Value(any) any               { return nil }
func (s *richSig) String() string              { return "rich signal" }
func (s *richSig) Close() error                { return nil }
func (s *richSig) Stop()                       {}
func (s *richSig) Cancel()                     {}
func (s *richSig) Wait()                       {}

// funcSig is a signal that is a function; valueSig is a signal passed by value whose fields include a slice: neither
// type can be compared with ==, and nothing in the Signal contract says a signal can.
type funcSig func() bool

func (f funcSig) ExitSignal() bool { return f() }

type valueSig struct {
	n      *int64
	fireAt int64
	notes  []string
	extra  map[string]int
}

func (s valueSig) ExitSignal() bool { return atomic.AddInt64(s.n, 1) >= s.fireAt }

func TestSignalWithOtherMethods(t *testing.T) {
	inc := func(n string) *gen.Node { return gen.NSet(n, gen.NBin("+", id(n), gen.NInt(1))) }
	progs := map[string]map[string][]*gen.Node{
		"counting":   {"main.p": {gen.NSet("n", gen.NInt(0)), gen.NFor(nil, nil, nil, []*gen.Node{inc("n"), gen.NCall("probe", gen.NStr("it"), id("n"))})}},
		"empty-body": {"main.p": {gen.NFor(nil, nil, nil, nil)}},
		"for-in":     {"main.p": {gen.NFor(nil, nil, nil, []*gen.Node{gen.NForIn("e", gen.NList(gen.NInt(1), gen.NInt(2)), []*gen.Node{gen.NCall("probe", gen.NStr("e"), id("e"))})})}},
		"only-ifs":   {"main.p": {gen.NSet("halt", gen.NBool(false)), gen.NFor(nil, nil, nil, []*gen.Node{gen.NIf([]*gen.Node{id("halt")}, [][]*gen.Node{{gen.NBreak()}}, nil, false), gen.NIf([]*gen.Node{gen.NBool(true)}, [][]*gen.Node{{}}, nil, false)})}},
		"in-callee":  {"main.p": {gen.NCall("use", gen.NStr("s1.p")), gen.NCall("probe", gen.NStr("after"))}, "s1.p": {gen.NFor(nil, nil, nil, []*gen.Node{gen.NCall("probe", gen.NStr("callee"))})}},
	}
	n := 0
	for name, scripts := range progs {
		for _, v2 := range []bool{false, true} {
			if v2 && len(scripts) > 1 {
				continue
			}
			c := &sem.Case{Scripts: map[string][]*gen.Node{}, Root: "main.p", Meas: "m", V2: v2}
			for k, sc := range scripts {
				c.Scripts[k] = gen.FixAll(gen.CloneProg(sc))
			}
			c.Print(nil)
			who := map[bool]string{false: "v1", true: "v2"}[v2]
			slot := "richsig-" + name + "-" + who
			for ki, k := range []int64{1, 3, 50, 5000, 2, 7, 60, 4} {
				counter := new(int64)
				var sig interface{ ExitSignal() bool }
				polls := func() int64 { return atomic.LoadInt64(counter) }
				switch ki % 3 {
				case 0:
					rs := &richSig{fireAt: k, ch: make(chan struct{})}
					sig = rs
					polls = func() int64 { return atomic.LoadInt64(&rs.n) }
				case 1:
					kk := k
					sig = funcSig(func() bool { return atomic.AddInt64(counter, 1) >= kk })
				default:
					sig = valueSig{n: counter, fireAt: k, notes: []string{"a"}, extra: map[string]int{}}
				}
				rp := replay{c.Replay("the signal's type has more methods than a Signal needs, or is a function, or a struct passed by value with slice and map fields; only ExitSignal says when to stop"), int(k)}
				done := make(chan string, 1)
				evid.Watch(slot, "run with a signal that has other methods as well", rp)
				go func() {
					defer func() {
						if r := recover(); r != nil {
							done <- fmt.Sprint("panic: ", r)
						}
					}()
					if v2 {
						s, err, crash := impl.LoadV2("main.p", c.Texts["main.p"], sem.V2Fns())
						if err != nil || crash != nil {
							done <- fmt.Sprint("load: ", err, crash)
							return
						}
						rerr, crash := impl.RunV2(s, sig)
						done <- fmt.Sprint(rerr == nil && crash == nil)
						return
					}
					call, check := sem.V1Tables()
					ok, errs, crash := impl.LoadV1(c.Texts, call, check)
					if len(errs) > 0 || crash != nil {
						done <- fmt.Sprint("load: ", errs, crash)
						return
					}
					rerr, crash := impl.RunV1(ok["main.p"], impl.NewPoint("m", nil, map[string]any{}), sig)
					done <- fmt.Sprint(rerr == nil && crash == nil)
				}()
				res := <-done
				evid.Unwatch()
				if res != "true" {
					rk.Fail(t, slot, rp, "%s: run with the signal firing at poll %d: %s", who, k, res)
				}
				if np := polls(); np < k {
					rk.Fail(t, slot, rp, "%s: the run returned after %d polls although the signal fires at poll %d (non-terminating program)", who, np, k)
				}
				evid.Case(fmt.Sprintf("%s/%d", slot, k), true, "signal-with-other-methods/"+who)
				n++
			}
		}
	}
	evid.Exhaustive("non-terminating program x interpreter x poll at which a signal with a larger method set fires", n)
}

// TestHostKeepsOneTask: a host that takes one task from the pool and initialises it again for every run (the exported
// GetContext / InitCtx / RunStmts), each run with a signal object of its own: every run - the scripts it reaches
// through use() included - polls the signal of that run, and stops when it fires.
func TestHostKeepsOneTask(t *testing.T) {
	call, check := sem.V1Tables()
	sets := []map[string]string{
		{"main.p": "probe(\"start\")\nuse(\"s1.p\")\nprobe(\"after\")", "s1.p": "for ;; {\n  probe(\"callee\")\n}"},
		{"main.p": "for ;; {\n  use(\"s1.p\")\n}", "s1.p": "probe(\"once\")\nfor x in [1, 2, 3] {\n  probe(\"x\", x)\n}"},
		{"main.p": "use(\"s1.p\")", "s1.p": "use(\"s2.p\")", "s2.p": "for ;; { }"},
		{"main.p": "for ;; {\n  probe(\"top\")\n}"},
	}
	n := 0
	for si, set := range sets {
		ok, errs, crash := impl.LoadV1(set, call, check)
		if len(errs) > 0 || crash != nil {
			t.Fatalf("harness: set %d does not load: %v %v", si, errs, crash)
		}
		script := ok["main.p"]
		rp := replay{(&sem.Case{Texts: set, Root: "main.p"}).Replay("one task, initialised again for every run with a signal of its own"), 0}
		done := make(chan string, 1)
		evid.Watch(fmt.Sprintf("one-task-%d", si), "runs on one re-initialised task", rp)
		go func() {
			defer func() {
				if r := recover(); r != nil {
					done <- fmt.Sprint("panic: ", r)
				}
			}()
			task := plrt.GetContext()
			var sigs []*probe.Sig
			for run, k := range []int{7, 3, 50, 1, 20} {
				sig := &probe.Sig{FireAt: k}
				sigs = append(sigs, sig)
				pt := impl.NewPoint("m", nil, map[string]any{})
				plrt.InitCtx(task, pt, script, sig)
				if err := plrt.RunStmts(task, script.Ast); err != nil {
					done <- fmt.Sprintf("run %d returned an error: %v", run+1, err)
					return
				}
				if sig.Polls < k {
					done <- fmt.Sprintf("run %d returned after %d polls of its signal, which fires at poll %d (the program does not terminate by itself)", run+1, sig.Polls, k)
					return
				}
				if sig.AfterHit > 0 {
					done <- fmt.Sprintf("run %d: %d probe call(s) executed after its signal had fired", run+1, sig.AfterHit)
					return
				}
				for prev, ps := range sigs[:run] {
					if ps.Polls > []int{7, 3, 50, 1, 20}[prev]+8 {
						done <- fmt.Sprintf("run %d kept polling the signal of run %d (%d polls by now)", run+1, prev+1, ps.Polls)
						return
					}
				}
			}
			plrt.PutContext(task)
			done <- "ok"
		}()
		res := <-done
		evid.Unwatch()
		if res != "ok" {
			rk.Fail(t, fmt.Sprintf("one-task-%d", si), rp, "v1, one task re-initialised per run: %s", res)
		}
		evid.Case(fmt.Sprintf("onetask/%d", si), true, "host-keeps-one-task")
		n++
	}
	evid.Exhaustive("script set x five runs on one re-initialised task, each with its own signal", n)
}

// TestPollFromHostFunction (v2): a host function that asks the task whether it has been told to stop - and so observes
// the signal in the middle of a statement - does not change what a cancelled run is: it returns without an error after
// at most the statement in progress; nothing of a later statement runs.
func TestPollFromHostFunction(t *testing.T) {
	stmts := []string{
		"x = [ppoll(), pval(1)]", "a, b = ppoll(), pval(2)", "if ppoll() == pval(true) { probe(\"s-then\") }", "y = pval(ppoll())", "z = {\"k\": ppoll(), \"j\": pval(3)}",
		"for i = 0; pval(i) < 2 && ppoll() == false; i = pval(i + 1) { probe(\"s-body\", i) }", "w = pval(1) + pval(2) * pval(3)\nv = ppoll() || pval(false)",
	}
	n := 0
	for si, st := range stmts {
		// the statement under test sits between numbered statements, inside a loop that runs three times
		src := "probe(\"s0\")\nfor r = 0; r < 3; r = r + 1 {\n  probe(\"s1\", r)\n  " + strings.ReplaceAll(st, "\n", "\n  ") + "\n  probe(\"s2\", r)\n}\nprobe(\"s3\")"
		s, err, crash := impl.LoadV2("main.p", src, sem.V2Fns())
		if err != nil || crash != nil {
			t.Fatalf("harness: %q does not load: %v %v", src, err, crash)
		}
		full := &probe.Trace2{}
		if rerr, crash := impl.RunV2(s, nil, runtimev2.WithPrivate(map[runtimev2.TaskP]any{probe.TraceKey: full})); rerr != nil || crash != nil {
			t.Fatalf("harness: uninterrupted run of %q fails: %v %v", src, rerr, crash)
		}
		for k := 1; k <= 80; k++ {
			sig := &probe.Sig{FireAt: k}
			tr := &probe.Trace2{Sig: sig}
			rp := replay{(&sem.Case{Texts: map[string]string{"main.p": src}, Root: "main.p", V2: true}).Replay("a host function polls the task in the middle of a statement"), k}
			rerr, crash := impl.RunV2(s, sig, runtimev2.WithPrivate(map[runtimev2.TaskP]any{probe.TraceKey: tr}))
			if crash != nil {
				rk.Fail(t, "host-poll", rp, "v2: run crashed: %s", crash.Value)
			}
			if rerr != nil {
				rk.Fail(t, "host-poll", rp, "v2: a run cancelled at poll %d returned an error instead of nothing: %v\nscript:\n%s", k, rerr, src)
			}
			// after the first record that saw the signal fired, only records of the statement in progress may follow:
			// never a record of the numbered statements s1 / s2 / s3
			seenFired := false
			for _, r := range tr.Trace {
				if seenFired && (r.Label == "s1" || r.Label == "s2" || r.Label == "s3") {
					rk.Fail(t, "host-poll", rp, "v2: statement %s ran after the signal had been observed (poll %d)\ntrace: %v\nscript:\n%s", r.Label, k, tr.Trace, src)
				}
				if r.Fired {
					seenFired = true
				}
			}
			if sig.Polls < k && len(tr.Trace) < len(full.Trace) {
				rk.Fail(t, "host-poll", rp, "v2: the run stopped after %d polls although the signal fires at poll %d", sig.Polls, k)
			}
			n++
		}
		evid.Case(fmt.Sprintf("hostpoll/%d", si), true, "poll-from-host-function")
	}
	evid.Exhaustive("statement with a polling host function x poll index 1..80", n)
}

// TestPollFromHostBuiltinV1: the same for the v1 interpreter: a host builtin that waits - it asks the task up to 5000
// times whether the run has been told to stop - is told so by the question at which the host's signal first says so
// (poll k <= 80), wherever the call sits (top level, loop, branch, used script); the run then returns without an error
// and nothing of a later statement runs.
func TestPollFromHostBuiltinV1(t *testing.T) {
	v1call, v1check := sem.V1Tables()
	call, check := map[string]plrt.FuncCall{}, map[string]plrt.FuncCheck{}
	for k, v := range v1call {
		call[k] = v
	}
	for k, v := range v1check {
		check[k] = v
	}
	type waitRec struct {
		asked   int
		stopped bool
	}
	var waits []waitRec
	call["pwait"] = func(ctx *plrt.Task, e *ast.CallExpr) *errchain.PlError {
		w := waitRec{}
		for w.asked < 5000 && !w.stopped {
			w.asked++
			w.stopped = ctx.ProcExit()
		}
		waits = append(waits, w)
		return nil
	}
	check["pwait"] = func(ctx *plrt.Task, e *ast.CallExpr) *errchain.PlError { return nil }
	sets := []map[string]string{
		{"main.p": "probe(\"s0\")\npwait()\nprobe(\"s1\")\nprobe(\"s2\")"},
		{"main.p": "probe(\"s0\")\nfor r = 0; r < 3; r = r + 1 {\n  probe(\"s1\", r)\n  pwait()\n  probe(\"s2\", r)\n}\nprobe(\"s3\")"},
		{"main.p": "probe(\"s0\")\nif true {\n  for e in [1, 2] {\n    pwait()\n    probe(\"s1\", e)\n  }\n}\nprobe(\"s2\")"},
		{"main.p": "probe(\"s0\")\nuse(\"lib.p\")\nprobe(\"s2\")", "lib.p": "probe(\"s1\")\npwait()\nprobe(\"s1\", 2)"},
		{"main.p": "probe(\"s0\")\nx = [pval(1), pwait(), pval(2)]\nprobe(\"s1\")"},
		// the waiting builtin is the first to learn that the run was told to stop, and the statement it belongs to goes on
		// to enter a script that never ends by itself: the callee must learn it too
		{"main.p": "probe(\"s0\")\nx = [pwait(), use(\"spin.p\")]\nprobe(\"s1\")", "spin.p": "for ;; {\n  probe(\"spin\")\n}"},
		{"main.p": "probe(\"s0\")\nif pwait() == nil {\n  use(\"spin.p\")\n}\nprobe(\"s1\")", "spin.p": "n = 0\nfor ; true; n = n + 1 {\n  probe(\"spin\", n)\n}"},
		{"main.p": "probe(\"s0\")\nuse(\"mid.p\")\nprobe(\"s1\")", "mid.p": "y = [[pwait()], [use(\"spin.p\")]]\nprobe(\"s2\")", "spin.p": "for ;; {\n  for e in [1, 2] {\n    probe(\"spin\", e)\n  }\n}"},
		{"main.p": "probe(\"s0\")\nfor r = 0; r < 2; r = r + 1 {\n  pwait() in [use(\"spin.p\")]\n  probe(\"s1\", r)\n}\nprobe(\"s2\")", "spin.p": "for ;; {\n  probe(\"spin\")\n}"},
	}
	n := 0
	for si, set := range sets {
		ok, errs, crash := impl.LoadV1(set, call, check)
		if crash != nil || len(errs) > 0 {
			t.Fatalf("harness: set %d does not load: %v %v", si, errs, crash)
		}
		for k := 1; k <= 80; k++ {
			waits = nil
			sig := &probe.Sig{FireAt: k}
			pt := impl.NewPoint("m", map[string]string{"t": "v"}, map[string]any{"message": "m"})
			rp := replay{(&sem.Case{Texts: set, Root: "main.p"}).Replay("a host builtin waits, asking the task whether the run was told to stop"), k}
			// a run that never comes back is a violation of its own (a callee that was not told about the stop spins for ever)
			evid.Watch("host-wait-v1", fmt.Sprintf("a v1 run whose signal says stop from poll %d on (a waiting host builtin sees it first)", k), rp)
			rerr, crash := impl.RunV1(ok["main.p"], pt, sig)
			evid.Unwatch()
			if crash != nil && strings.Contains(crash.Value, "verif-probe-abort") {
				rk.Fail(t, "host-wait-v1", rp, "v1: the run was still executing 100 probe calls after the signal had been observed true (poll %d, seen first by a waiting host builtin)\nscripts: %v", k, set)
			}
			if crash != nil {
				rk.Fail(t, "host-wait-v1", rp, "v1: run crashed: %s", crash.Value)
			}
			if rerr != nil {
				rk.Fail(t, "host-wait-v1", rp, "v1: a run cancelled at poll %d returned an error instead of nothing: %v", k, rerr)
			}
			for _, w := range waits {
				if !w.stopped {
					rk.Fail(t, "host-wait-v1", rp, "v1: the waiting builtin asked ctx.ProcExit() %d times and was never told to stop, although the host's signal says stop from its poll %d on (it was polled %d times in the whole run)\nscripts: %v", w.asked, k, sig.Polls, set)
				}
			}
			seenFired := false
			for _, r := range sig.Trace {
				if seenFired && (r.Label == "s1" || r.Label == "s2" || r.Label == "s3") {
					rk.Fail(t, "host-wait-v1", rp, "v1: statement %s ran after the signal had been observed (poll %d)\ntrace: %v", r.Label, k, sig.Trace)
				}
				if r.Fired {
					seenFired = true
				}
			}
			n++
		}
		evid.Case(fmt.Sprintf("hostwait-v1/%d", si), true, "poll-from-host-builtin-v1")
	}
	evid.Exhaustive("place of a waiting host builtin x poll index 1..80 (v1)", n)
}

func TestNilReceiverSignal(t *testing.T) {
	inc := func(n string) *gen.Node { return gen.NSet(n, gen.NBin("+", id(n), gen.NInt(1))) }
	progs := map[string]map[string][]*gen.Node{
		"counting":   {"main.p": {gen.NSet("n", gen.NInt(0)), gen.NFor(nil, nil, nil, []*gen.Node{inc("n"), gen.NCall("probe", gen.NStr("it"), id("n"))})}},
		"empty-body": {"main.p": {gen.NFor(nil, nil, nil, nil)}},
		"for-in":     {"main.p": {gen.NFor(nil, nil, nil, []*gen.Node{gen.NForIn("e", gen.NList(gen.NInt(1), gen.NInt(2)), []*gen.Node{gen.NCall("probe", gen.NStr("e"), id("e"))})})}},
		"in-callee":  {"main.p": {gen.NCall("use", gen.NStr("s1.p")), gen.NCall("probe", gen.NStr("after"))}, "s1.p": {gen.NFor(nil, nil, nil, []*gen.Node{gen.NCall("probe", gen.NStr("callee"))})}},
	}
	n := 0
	for name, scripts := range progs {
		for _, v2 := range []bool{false, true} {
			if v2 && len(scripts) > 1 {
				continue
			}
			c := &sem.Case{Scripts: map[string][]*gen.Node{}, Root: "main.p", Meas: "m", V2: v2}
			for k, sc := range scripts {
				c.Scripts[k] = gen.FixAll(gen.CloneProg(sc))
			}
			c.Print(nil)
			who := map[bool]string{false: "v1", true: "v2"}[v2]
			slot := "nilsig-" + name + "-" + who
			for _, k := range []int64{1, 2, 3, 7, 50} {
				probe.NilSigFireAt, probe.NilSigPolls = k, 0
				var sig *probe.NilSig
				rp := replay{c.Replay("signal is a typed nil pointer with a nil-receiver ExitSignal"), int(k)}
				done := make(chan string, 1)
				evid.Watch(slot, "run with a nil-receiver signal", rp)
				go func() {
					defer func() {
						if r := recover(); r != nil {
							done <- fmt.Sprint("panic: ", r)
						}
					}()
					if v2 {
						s, err, crash := impl.LoadV2("main.p", c.Texts["main.p"], sem.V2Fns())
						if err != nil || crash != nil {
							done <- fmt.Sprint("load: ", err, crash)
							return
						}
						rerr, crash := impl.RunV2(s, sig)
						done <- fmt.Sprint(rerr == nil && crash == nil)
						return
					}
					call, check := sem.V1Tables()
					ok, errs, crash := impl.LoadV1(c.Texts, call, check)
					if len(errs) > 0 || crash != nil {
						done <- fmt.Sprint("load: ", errs, crash)
						return
					}
					rerr, crash := impl.RunV1(ok["main.p"], impl.NewPoint("m", nil, map[string]any{}), sig)
					done <- fmt.Sprint(rerr == nil && crash == nil)
				}()
				res := <-done
				evid.Unwatch()
				if res != "true" {
					rk.Fail(t, slot, rp, "%s: run with a nil-receiver signal firing at poll %d: %s", who, k, res)
				}
				if polls := probe.NilSigPolls; polls < k {
					rk.Fail(t, slot, rp, "%s: the run returned after %d polls although the signal fires at poll %d (non-terminating program)", who, polls, k)
				}
				evid.Case(fmt.Sprintf("%s/%d", slot, k), true, "nil-receiver-signal/"+who)
				n++
			}
		}
	}
	evid.Exhaustive("non-terminating programs x interpreter x poll index with a typed-nil signal", n)
}

// TestConcurrentRunsOwnSignal: two overlapping runs, each with its own signal - and, for v2, with one option slice of
// spare capacity passed to both, as a host that builds its options once would do: every run polls its own signal.
func TestConcurrentRunsOwnSignal(t *testing.T) {
	src := "n = 0\nfor i = 0; i < 3000; i = i + 1 {\n  n = n + 1\n}\n"
	n := 0
	for rep := 0; rep < evid.Scale(30, 200); rep++ {
		// v2
		s, err, crash := impl.LoadV2("main.p", src, sem.V2Fns())
		if err != nil || crash != nil {
			t.Fatalf("harness: %v %v", err, crash)
		}
		// the host's own option is a rendezvous: both runs are inside Run, applying their options, at the same time
		opts := make([]runtimev2.Opt, 1, 8)
		var arrived sync.WaitGroup
		arrived.Add(2)
		opts[0] = func(*runtimev2.Task) {
			arrived.Done()
			arrived.Wait()
		}
		sigA, sigB := &probe.Sig{FireAt: 3}, &probe.Sig{FireAt: 1000000}
		var wg sync.WaitGroup
		start := make(chan struct{})
		for _, sg := range []*probe.Sig{sigA, sigB} {
			wg.Add(1)
			go func(sg *probe.Sig) {
				defer wg.Done()
				<-start
				_, _ = impl.RunV2(s, sg, opts...)
			}(sg)
		}
		close(start)
		wg.Wait()
		rp := map[string]any{"script": src, "runs": "v2, one shared option slice (len 1, cap 8), signals firing at poll 3 and never"}
		if sigA.Polls < 3 || sigA.Polls > 50 {
			rk.Fail(t, "own-signal", rp, "v2: the run whose signal fires at its 3rd poll polled it %d times (the other run's signal was polled %d times): every run must poll the signal it was given", sigA.Polls, sigB.Polls)
		}
		if sigB.Polls < 3000 {
			rk.Fail(t, "own-signal", rp, "v2: the run whose signal never fires polled it only %d times in a loop of 3000 passes", sigB.Polls)
		}
		// v1: two runs of one loaded script on private points
		call, check := sem.V1Tables()
		ok, errs, c2 := impl.LoadV1(map[string]string{"main.p": src}, call, check)
		if len(errs) > 0 || c2 != nil {
			t.Fatalf("harness: %v %v", errs, c2)
		}
		s1A, s1B := &probe.Sig{FireAt: 3}, &probe.Sig{FireAt: 1000000}
		start = make(chan struct{})
		for _, sg := range []*probe.Sig{s1A, s1B} {
			wg.Add(1)
			go func(sg *probe.Sig) {
				defer wg.Done()
				<-start
				_, _ = impl.RunV1(ok["main.p"], impl.NewPoint("m", nil, map[string]any{}), sg)
			}(sg)
		}
		close(start)
		wg.Wait()
		if s1A.Polls < 3 || s1A.Polls > 50 || s1B.Polls < 3000 {
			rk.Fail(t, "own-signal", map[string]any{"script": src, "runs": "v1, two runs of one loaded script"}, "v1: polls of the run cancelled at poll 3: %d; of the run never cancelled: %d", s1A.Polls, s1B.Polls)
		}
		n++
	}
	evid.Case("own-signal", true, "concurrent-runs-own-signal")
	evid.LabelN("concurrent-run-pairs", n)
}

func TestNonTerminatingPrograms(t *testing.T) {
	n := 0
	for _, ip := range infinitePrograms() {
		for _, v2 := range []bool{false, true} {
			if v2 && !ip.v2ok {
				continue
			}
			c := &sem.Case{Scripts: map[string][]*gen.Node{}, Root: "main.p", Meas: "m", V2: v2}
			for k, p := range ip.prog {
				cp := make([]*gen.Node, len(p))
				for i := range p {
					cp[i] = p[i].Clone()
				}
				c.Scripts[k] = gen.FixAll(cp)
			}
			c.Print(nil)
			// the reference trace: the model run until its fuel is gone
			m := sem.RunModel(c, map[string]int{}, nil)
			if m.Discard != model.ErrFuel {
				t.Fatalf("harness: program %s terminates in the model (%v)", ip.name, m.Discard)
			}
			slot := fmt.Sprintf("inf-%s-%v", ip.name, v2)
			kmax := evid.Scale(60, 200)
			ks := []int{}
			for k := 1; k <= kmax; k++ {
				ks = append(ks, k)
			}
			// far into the run: around powers of two and a few primes (a poll counter, a stride, a cache size)
			ks = append(ks, 255, 256, 257, 1023, 1024, 1025, 4095, 4096, 4097, 4099, 5003, 8191, 8192, 8193, 16411, 40009)
			for _, k := range ks {
				checkAt(t, slot, c, k, m.Trace, true)
				evid.Case(fmt.Sprintf("%s/%d", slot, k), true, map[bool]string{false: "nonterminating-v1", true: "nonterminating-v2"}[v2])
				n++
			}
			evid.Sample(map[string]any{"program": ip.name, "v2": v2, "scripts": c.Texts})
		}
	}
	evid.Exhaustive("non-terminating programs x poll index", n)
}

func TestReplays(t *testing.T) {
	files, _ := filepath.Glob(filepath.Join(evid.Dir(), "replays", prop, "*.json"))
	if r := os.Getenv("VERIF_REPLAY"); r != "" {
		files = []string{r}
	}
	for _, f := range files {
		b, err := os.ReadFile(f)
		if err != nil {
			continue
		}
		var r struct {
			Case replay `json:"case"`
		}
		if json.Unmarshal(b, &r) != nil || len(r.Case.Texts) == 0 {
			continue
		}
		t.Run(filepath.Base(f), func(t *testing.T) {
			c, err := sem.FromReplay(r.Case.Replay)
			if err != nil {
				t.Skipf("replay not loadable: %v", err)
			}
			if r.Case.K < 0 {
				// the flag is raised during probe call -K
				c.RaiseAtRec = -r.Case.K
				o := runWatched("replay", c, 0, func() sem.ImplOut { return run(c, 0) })
				if o.Crash != nil || o.Aborted || o.Err != nil || (len(o.Trace) >= c.RaiseAtRec && o.AfterRaise > 0) {
					rk.Fail(t, "replay", r.Case, "flag raised during probe call %d: crash=%v aborted=%v err=%v probe calls after the raise=%d", c.RaiseAtRec, o.Crash, o.Aborted, o.Err, o.AfterRaise)
				}
				evid.Case(fmt.Sprint("replay:", c.Texts[c.Root], r.Case.K), true, "replay")
				return
			}
			m := sem.RunModel(c, map[string]int{}, nil)
			infinite := m.Discard == model.ErrFuel
			full := m.Trace
			if !infinite {
				full = run(c, 0).Trace
			}
			checkAt(t, "replay", c, r.Case.K, full, infinite)
			evid.Case(fmt.Sprint("replay:", c.Texts[c.Root], r.Case.K), true, "replay")
		})
	}
}

var _ = impl.LnCol
