package c13

import (
	"encoding/json"
	"fmt"
	"os"
	"path/filepath"
	"sort"
	"testing"

	"pgregory.net/rapid"
	"verifharness/bmodel"
	"verifharness/evid"
	"verifharness/gen"
	"verifharness/rk"
	"verifharness/sem"
	"verifharness/sgen"
)

const prop = "C13"

func TestMain(m *testing.M) {
	evid.Init(prop, "exploration",
		"call trees of depth<=3 over 2..4 generated scripts: every body reads and writes variables and point keys from one shared 4-name pool (caller and callee collide on purpose), contains use() calls at random statement positions (top level, branches, loops), probes after statements; then exit() and a failing statement (perr() / ill-typed operation) are inserted at every statement position of every script (bounded sample per set). Oracle: reference model - use(n) runs n's statements against the same point with an empty variable environment and then resumes the caller with the caller's environment intact; an error in the callee aborts all callers and the PosChain is [position inside the failing statement in the callee's file, then each use call site from the innermost caller outward, exact offsets]; after exit() nothing later in that script has any effect while callers continue. Compared: ordered probe trace, error chain, final point. Non-trivial: caller and callee assign the same name, or the exit/error sits at call depth>=2 or inside a loop/branch; distinct by (set skeleton, inserted statement, position).",
		"scripts are loaded together through ParseScript; call graphs are acyclic by construction (C09 owns link-time behaviour)")
	code := m.Run()
	evid.Flush(code == 0)
	os.Exit(code)
}

func id(s string) *gen.Node { return gen.NIdent(s) }

// name schemes of a script set: plain; names with directories and equal base names; names contained in one another
var nameSchemes = [][]string{
	{"main.p", "s1.p", "s2.p", "s3.p"},
	{"main.p", "lib/b.p", "b.p", "x/lib/b.p"},
	{"main.p", "in-main.p", "ain.p", "n.p"},
	{"main.p", "s 1.p", "S1.P", "s1.ppl"},
	{"main.p", "cpu%usage.p", "50%d.p", "%s%v.p"},
}

type setInfo struct {
	depth      map[string]int // call depth at which a script is (first) reached
	sharedName bool
}

func genSet(t *rapid.T) (*sem.Case, *setInfo, map[string]bool) {
	n := rapid.IntRange(2, 4).Draw(t, "nscripts")
	names := nameSchemes[rapid.SampledFrom([]int{0, 0, 1, 2, 3, 4}).Draw(t, "namescheme")]
	c := &sem.Case{Scripts: map[string][]*gen.Node{}, Root: "main.p", Meas: "m"}
	feat := map[string]bool{}
	// half of the sets are loaded the way an embedder with per-script function tables loads them
	c.OwnTables = rapid.Bool().Draw(t, "owntables")
	if c.OwnTables {
		feat["own-function-tables"] = true
	}
	assigned := map[string]map[string]bool{}
	calls := map[string][]string{}
	for i := n - 1; i >= 0; i-- {
		g := sgen.New(t)
		g.Probes = true
		g.Loops = rapid.Bool().Draw(t, "loops")
		g.AddKey = true
		g.Hostile = rapid.SampledFrom([]int{0, 0, 10}).Draw(t, "hostile")
		g.MaxDepth = 2
		self := names[i]
		if i < n-1 {
			useCall := func(g *sgen.G, d int) *gen.Node {
				j := rapid.IntRange(i+1, n-1).Draw(g.T, "callee")
				calls[self] = append(calls[self], names[j])
				g.Feat["use"] = true
				if g.InLoop > 0 {
					g.Feat["use-in-loop"] = true
				}
				return gen.NCall("use", gen.NStr(names[j]))
			}
			g.Calls = []func(*sgen.G, int) *gen.Node{useCall, useCall}
		}
		prog := g.Program(rapid.IntRange(1, 5).Draw(t, "size"), rapid.IntRange(1, 2).Draw(t, "nest"))
		if i < n-1 && !g.Feat["use"] {
			j := rapid.IntRange(i+1, n-1).Draw(t, "callee0")
			calls[self] = append(calls[self], names[j])
			at := rapid.IntRange(0, len(prog)).Draw(t, "useat")
			prog = append(prog[:at:at], append([]*gen.Node{gen.NCall("use", gen.NStr(names[j]))}, prog[at:]...)...)
		}
		// record who assigns what (for the non-triviality rule)
		assigned[self] = map[string]bool{}
		gen.WalkAll(prog, func(x *gen.Node) {
			if x.Kind == gen.Assign {
				for _, l := range x.Args {
					if l.Kind == gen.Ident {
						assigned[self][l.Name] = true
					}
				}
			}
		})
		// every script ends by probing the whole pool as it sees it
		prog = append(prog, gen.NCall("probe", gen.NStr("end-"+self), id("a"), id("b"), id("c"), id("k1")))
		c.Scripts[self] = gen.FixAll(prog)
		for f := range g.Feat {
			feat[f] = true
		}
	}
	info := &setInfo{depth: map[string]int{"main.p": 0}}
	var walk func(s string, d int)
	walk = func(s string, d int) {
		for _, cal := range calls[s] {
			if old, ok := info.depth[cal]; !ok || d+1 > old {
				info.depth[cal] = d + 1
				walk(cal, d+1)
			}
			for nm := range assigned[s] {
				if assigned[cal][nm] {
					info.sharedName = true
				}
			}
		}
	}
	walk("main.p", 0)
	c.Fields = map[string]any{"k1": rapid.SampledFrom([]any{int64(1), "s", nil}).Draw(t, "k1")}
	c.Tags = map[string]string{"t1": "tv"}
	return c, info, feat
}

// builtinModels: reference models of the field builtins (failing statements built from them)
var builtinModels = bmodel.Field()

var stdoutFile *os.File

// captured returns what f wrote to standard output.
func captured(f func()) string {
	if stdoutFile == nil {
		stdoutFile, _ = os.CreateTemp("", "c13-stdout")
		if stdoutFile != nil {
			os.Remove(stdoutFile.Name()) // stays usable while open; nothing is left behind in the temp directory
		}
	}
	if stdoutFile == nil {
		f()
		return ""
	}
	st, _ := stdoutFile.Stat()
	off := st.Size()
	old := os.Stdout
	os.Stdout = stdoutFile
	f()
	os.Stdout = old
	st, _ = stdoutFile.Stat()
	if st.Size() == off {
		return ""
	}
	buf := make([]byte, st.Size()-off)
	_, _ = stdoutFile.ReadAt(buf, off)
	return string(buf)
}

func judge(t rk.Failer, slot string, c *sem.Case, key string, nontrivial bool, labels ...string) {
	c.Print(nil)
	var out string
	first := true
	v := sem.Decide(c, func() sem.ImplOut {
		var io sem.ImplOut
		o := captured(func() { io = sem.RunV1(c, 0) })
		if first {
			out, first = o, false
		}
		return io
	}, builtinModels, true, true)
	if v.Discard != nil {
		evid.Discard(v.Discard.Error())
		return
	}
	if v.Msg != "" {
		rk.Fail(t, slot, c.Replay(""), "%s\nscripts:\n%s", v.Msg, dump(c))
	}
	// what the scripts printed, in the order of the statements across the script boundaries
	if !v.Weak && out != v.Model.Stdout {
		rk.Fail(t, slot, c.Replay(""), "standard output is %q, the statements in their order print %q\nscripts:\n%s", out, v.Model.Stdout, dump(c))
	}
	if v.Model.Stdout != "" {
		labels = append(labels, "prints")
	}
	if v.Model.Err != nil {
		labels = append(labels, fmt.Sprintf("error-chain-len/%d", 1+len(v.Model.Err.Sites)))
	}
	evid.Case(key, nontrivial, labels...)
	if nontrivial && v.Model.Err != nil && len(v.Model.Err.Sites) > 0 {
		evid.Sample(map[string]any{"scripts": c.Texts, "reference_error_in": v.Model.Err.File, "call_sites": len(v.Model.Err.Sites)})
	}
}

func dump(c *sem.Case) string {
	var ks []string
	for k := range c.Texts {
		ks = append(ks, k)
	}
	sort.Strings(ks)
	s := ""
	for _, k := range ks {
		s += "--- " + k + "\n" + c.Texts[k] + "\n"
	}
	return s
}

func cloneCase(c *sem.Case) *sem.Case {
	d := &sem.Case{Scripts: map[string][]*gen.Node{}, Root: c.Root, Meas: c.Meas, Tags: c.Tags, Fields: c.Fields, OwnTables: c.OwnTables}
	for k, p := range c.Scripts {
		cp := make([]*gen.Node, len(p))
		for i := range p {
			cp[i] = p[i].Clone()
		}
		d.Scripts[k] = cp
	}
	return d
}

// slots enumerates (list pointer, nesting info) for every statement list of a program.
type slot struct {
	list   *[]*gen.Node
	nested bool
}

func slots(prog *[]*gen.Node) []slot {
	var out []slot
	var walk func(l *[]*gen.Node, nested bool)
	walk = func(l *[]*gen.Node, nested bool) {
		out = append(out, slot{l, nested})
		for _, s := range *l {
			switch s.Kind {
			case gen.If:
				for i := range s.Blocks {
					walk(&s.Blocks[i], true)
				}
				if s.HasElse {
					walk(&s.Else, true)
				}
			case gen.For, gen.ForIn:
				walk(&s.Body, true)
			}
		}
	}
	walk(prog, false)
	return out
}

func TestCallTrees(t *testing.T) {
	rk.Check(t, "trees", 1, evid.Scale(1500, 12000), func(t *rapid.T) {
		c, info, feat := genSet(t)
		var labels []string
		for f := range feat {
			labels = append(labels, "feat/"+f)
		}
		maxDepth := 0
		for _, d := range info.depth {
			if d > maxDepth {
				maxDepth = d
			}
		}
		labels = append(labels, fmt.Sprintf("call-depth/%d", maxDepth))
		skel := ""
		var nms []string
		for nm := range c.Scripts {
			nms = append(nms, nm)
		}
		sort.Strings(nms)
		for _, nm := range nms {
			skel += nm + ":" + gen.Skeleton(c.Scripts[nm]) + "|"
		}
		judge(t, "trees", cloneCase(c), "base:"+skel, info.sharedName, labels...)

		// insert exit() / a failing statement at sampled statement positions of every script
		type pos struct {
			script string
			si, at int
			nested bool
		}
		var all []pos
		for nm := range c.Scripts {
			p := c.Scripts[nm]
			for si, s := range slots(&p) {
				for at := 0; at <= len(*s.list); at++ {
					all = append(all, pos{nm, si, at, s.nested})
				}
			}
		}
		sort.Slice(all, func(i, j int) bool {
			if all[i].script != all[j].script {
				return all[i].script < all[j].script
			}
			if all[i].si != all[j].si {
				return all[i].si < all[j].si
			}
			return all[i].at < all[j].at
		})
		k := evid.Scale(6, 16)
		for i := 0; i < k && len(all) > 0; i++ {
			p := all[rapid.IntRange(0, len(all)-1).Draw(t, "pos")]
			what := rapid.IntRange(0, 4).Draw(t, "what")
			cc := cloneCase(c)
			prog := cc.Scripts[p.script]
			sl := slots(&prog)[p.si]
			var ins *gen.Node
			var lab string
			switch what {
			case 0:
				ins, lab = gen.NCall("exit"), "insert/exit"
			case 3:
				// exit() evaluated inside a statement of another kind: a value statement, an assignment source, a
				// condition, an argument - the script still ends with that statement
				lab = "insert/exit-inside-expression"
				switch rapid.IntRange(0, 8).Draw(t, "exitform") {
				case 0:
					ins = gen.NParen(gen.NCall("exit"))
				case 1:
					ins = gen.NList(gen.NCall("exit"))
				case 2:
					ins = gen.NUnary("!", gen.NCall("exit"))
				case 3:
					ins = gen.NBin("==", gen.NCall("exit"), gen.NNil())
				case 4:
					ins = gen.NBin("in", gen.NCall("exit"), gen.NList(gen.NNil()))
				case 5:
					ins = gen.NSet("zz", gen.NCall("exit"))
				case 6:
					ins = gen.NCall("add_key", id("zz"), gen.NCall("exit"))
				case 7:
					ins = gen.NIf([]*gen.Node{gen.NBin("==", gen.NCall("exit"), gen.NNil())}, [][]*gen.Node{{gen.NCall("probe", gen.NStr("in-branch-after-exit"))}}, nil, false)
				default:
					ins = gen.NMap(gen.NStr("k"), gen.NCall("exit"))
				}
			case 1:
				ins, lab = gen.NCall("perr"), "insert/perr"
			case 2:
				// a builtin whose argument is fixed in the text and refused only when the statement runs
				ins, lab = []*gen.Node{gen.NCall("replace", id("k1"), gen.NStr("("), gen.NStr("x")), gen.NSet("zz", gen.NCall("load_json", gen.NStr("{bad"))), gen.NCall("add_key", id("zz"), gen.NCall("load_json", gen.NStr("[1,")))}[rapid.IntRange(0, 2).Draw(t, "builtinfail")], "insert/failing-builtin"
			default:
				ins, lab = gen.NSet("zz", gen.NBin("+", gen.NInt(1), gen.NStr("x"))), "insert/ill-typed"
			}
			l := *sl.list
			nl := append(append(append([]*gen.Node{}, l[:p.at]...), ins), l[p.at:]...)
			*sl.list = nl
			cc.Scripts[p.script] = prog
			d := info.depth[p.script]
			nt := info.sharedName || d >= 2 || p.nested
			judge(t, "trees", cc, fmt.Sprintf("%s:%s:%d:%d:%s", lab, p.script, p.si, p.at, skel), nt, lab, fmt.Sprintf("insert-depth/%d", d), map[bool]string{true: "insert-nested", false: "insert-top"}[p.nested])
		}
	})
}

// TestFixedScenarios: the rows of the language reference about use() and exit().
func TestFixedScenarios(t *testing.T) {
	mk := func(scripts map[string][]*gen.Node) *sem.Case {
		c := &sem.Case{Scripts: map[string][]*gen.Node{}, Root: "main.p", Meas: "m", Fields: map[string]any{"k1": int64(1)}}
		for k, p := range scripts {
			c.Scripts[k] = gen.FixAll(p)
		}
		return c
	}
	probeAll := func(l string) *gen.Node { return gen.NCall("probe", gen.NStr(l), id("v"), id("w"), id("k1")) }
	cases := []*sem.Case{
		mk(map[string][]*gen.Node{
			"main.p": {gen.NSet("v", gen.NInt(1)), gen.NCall("use", gen.NStr("s1.p")), probeAll("caller-after")},
			"s1.p":   {probeAll("callee-start"), gen.NSet("v", gen.NInt(2)), gen.NSet("w", gen.NInt(3)), gen.NCall("add_key", id("k1"), gen.NInt(9)), gen.NCall("exit"), probeAll("never")},
		}),
		mk(map[string][]*gen.Node{
			"main.p": {gen.NForIn("i", gen.NList(gen.NInt(1), gen.NInt(2)), []*gen.Node{gen.NCall("use", gen.NStr("s1.p")), gen.NCall("probe", gen.NStr("loop"), id("i"), id("k1"))})},
			"s1.p":   {gen.NCall("add_key", id("k1"), gen.NBin("+", id("k1"), gen.NInt(1))), gen.NCall("use", gen.NStr("s2.p"))},
			"s2.p":   {gen.NIf([]*gen.Node{gen.NBin(">", id("k1"), gen.NInt(2))}, [][]*gen.Node{{gen.NCall("perr")}}, nil, false), gen.NCall("probe", gen.NStr("s2"), id("k1"))},
		}),
		mk(map[string][]*gen.Node{
			"main.p": {gen.NCall("use", gen.NStr("s1.p")), gen.NCall("use", gen.NStr("s1.p")), gen.NCall("exit"), gen.NCall("probe", gen.NStr("never"))},
			"s1.p":   {gen.NCall("probe", gen.NStr("s1"), id("k1")), gen.NIf([]*gen.Node{gen.NBool(true)}, [][]*gen.Node{{gen.NCall("exit")}}, nil, false), gen.NCall("probe", gen.NStr("never"))},
		}),
	}
	// a callee that assigns nothing and only reads: it reads the point, never the caller's variables - also the caller's
	// block and loop variables that are alive at the call
	cases = append(cases,
		mk(map[string][]*gen.Node{
			"main.p": {gen.NSet("v", gen.NInt(1)), gen.NSet("k1", gen.NStr("caller's")), gen.NForIn("w", gen.NList(gen.NInt(7)), []*gen.Node{gen.NIf([]*gen.Node{gen.NBool(true)}, [][]*gen.Node{{gen.NSet("blk", gen.NInt(3)), gen.NCall("use", gen.NStr("s1.p"))}}, nil, false)}), probeAll("caller-after")},
			"s1.p":   {gen.NCall("probe", gen.NStr("callee-reads"), id("v"), id("w"), id("k1"), id("blk")), gen.NCall("use", gen.NStr("s2.p"))},
			"s2.p":   {gen.NIf([]*gen.Node{gen.NBin("==", id("k1"), gen.NInt(1))}, [][]*gen.Node{{gen.NCall("probe", gen.NStr("deep-sees-the-point"))}}, []*gen.Node{gen.NCall("probe", gen.NStr("deep-sees"), id("k1"), id("v"))}, true), gen.NCall("add_key", id("seen"), id("k1"))},
		}),
		// a for-in over a map whose body fails - directly, in a nested block, through a callee: the error reaches the caller
		mk(map[string][]*gen.Node{
			"main.p": {gen.NCall("probe", gen.NStr("before")), gen.NForIn("k", gen.NMap(gen.NStr("only"), gen.NInt(1)), []*gen.Node{gen.NCall("probe", gen.NStr("in-loop"), id("k")), gen.NCall("perr")}), probeAll("never")},
		}),
		mk(map[string][]*gen.Node{
			"main.p": {gen.NCall("use", gen.NStr("s1.p")), probeAll("never")},
			"s1.p":   {gen.NForIn("k", gen.NMap(gen.NStr("only"), gen.NInt(1)), []*gen.Node{gen.NIf([]*gen.Node{gen.NBool(true)}, [][]*gen.Node{{gen.NCall("use", gen.NStr("s2.p"))}}, nil, false)}), gen.NCall("probe", gen.NStr("never-in-s1"))},
			"s2.p":   {gen.NSet("zz", gen.NBin("+", gen.NInt(1), gen.NStr("x")))},
		}),
		mk(map[string][]*gen.Node{
			"main.p": {gen.NForIn("k", id("mm"), []*gen.Node{gen.NCall("probe", gen.NStr("k"), id("k"))}), gen.NSet("mm", gen.NMap(gen.NStr("a"), gen.NList(gen.NInt(1)))), gen.NForIn("k", id("mm"), []*gen.Node{gen.NSet("q", gen.NIndex(id("mm"), id("k"), gen.NInt(5)))}), probeAll("never")},
		}),
		// a callee without statements (a comment, blank lines, empty statements), then chains of ordinary callees whose
		// callers go on using their variables
		mk(map[string][]*gen.Node{
			"main.p": {gen.NSet("v", gen.NInt(1)), gen.NCall("use", gen.NStr("s1.p")), gen.NCall("use", gen.NStr("s1.p")), probeAll("after-empty")},
			"s1.p":   {},
		}),
		mk(map[string][]*gen.Node{
			"main.p": {gen.NSet("v", gen.NInt(1)), gen.NCall("use", gen.NStr("s1.p")), gen.NSet("v", gen.NBin("+", id("v"), gen.NInt(1))), probeAll("top-after")},
			"s1.p":   {gen.NSet("w", gen.NInt(10)), gen.NCall("use", gen.NStr("s2.p")), gen.NSet("w", gen.NBin("+", id("w"), gen.NInt(1))), probeAll("mid-after")},
			"s2.p":   {gen.NSet("v", gen.NStr("leaf")), gen.NCall("use", gen.NStr("s3.p")), probeAll("leaf-after")},
			"s3.p":   {},
		}),
	)
	// callees that read names before they assign them, used several times in one run (the same one twice, in a loop, two
	// different ones, nested): every call starts with no variables at all
	{
		reads := func(l string) *gen.Node { return gen.NCall("probe", gen.NStr(l), id("seen"), id("v"), id("w"), id("blk")) }
		lib1 := func() []*gen.Node {
			return []*gen.Node{reads("s1-start"), gen.NIf([]*gen.Node{gen.NBin("==", id("seen"), gen.NNil())}, [][]*gen.Node{{gen.NCall("probe", gen.NStr("s1-first"))}}, []*gen.Node{gen.NCall("probe", gen.NStr("s1-again"), id("seen"))}, true),
				gen.NSet("seen", gen.NStr("set by s1")), gen.NSet("w", gen.NInt(5)), gen.NIf([]*gen.Node{gen.NBool(true)}, [][]*gen.Node{{gen.NSet("blk", gen.NInt(1)), gen.NSet("seen", gen.NStr("set in a block of s1"))}}, nil, false)}
		}
		lib2 := func() []*gen.Node {
			return []*gen.Node{reads("s2-start"), gen.NAssign("+=", []*gen.Node{id("k1")}, []*gen.Node{gen.NInt(1)}), gen.NSet("seen", gen.NStr("set by s2")), gen.NCall("probe", gen.NStr("s2-k1"), id("k1"))}
		}
		cases = append(cases,
			mk(map[string][]*gen.Node{"main.p": {gen.NCall("use", gen.NStr("s1.p")), gen.NCall("use", gen.NStr("s1.p")), reads("caller")}, "s1.p": lib1()}),
			mk(map[string][]*gen.Node{"main.p": {gen.NForIn("i", gen.NList(gen.NInt(1), gen.NInt(2), gen.NInt(3)), []*gen.Node{gen.NCall("use", gen.NStr("s1.p"))}), reads("caller")}, "s1.p": lib1()}),
			mk(map[string][]*gen.Node{"main.p": {gen.NCall("use", gen.NStr("s1.p")), gen.NCall("use", gen.NStr("s2.p")), gen.NCall("use", gen.NStr("s1.p")), reads("caller")}, "s1.p": lib1(), "s2.p": lib2()}),
			mk(map[string][]*gen.Node{"main.p": {gen.NSet("seen", gen.NStr("caller's")), gen.NCall("use", gen.NStr("s2.p")), gen.NCall("use", gen.NStr("s3.p")), gen.NCall("use", gen.NStr("s2.p")), reads("caller")},
				"s2.p": lib2(), "s3.p": append([]*gen.Node{gen.NCall("use", gen.NStr("s1.p")), gen.NCall("use", gen.NStr("s1.p"))}, reads("s3-after")), "s1.p": lib1()}),
			mk(map[string][]*gen.Node{"main.p": {gen.NFor(gen.NSet("i", gen.NInt(0)), gen.NBin("<", id("i"), gen.NInt(2)), gen.NSet("i", gen.NBin("+", id("i"), gen.NInt(1))), []*gen.Node{gen.NCall("use", gen.NStr("s1.p")), gen.NCall("use", gen.NStr("s2.p"))}), reads("caller")}, "s1.p": lib1(), "s2.p": lib2()}),
		)
	}
	// exit() evaluated inside a statement that goes on to call use(): the callee still runs (the statement is completed),
	// then the caller ends - it has not forgotten its own exit
	for form := 0; form < 4; form++ {
		stmt := func() *gen.Node {
			switch form {
			case 0:
				return gen.NSet("x", gen.NList(gen.NCall("exit"), gen.NCall("use", gen.NStr("s1.p"))))
			case 1:
				return gen.NSet("x", gen.NBin("==", gen.NCall("exit"), gen.NCall("use", gen.NStr("s1.p"))))
			case 2:
				return gen.NCall("add_key", id("made"), gen.NList(gen.NCall("exit"), gen.NCall("use", gen.NStr("s1.p"))))
			default:
				return gen.NCall("probe", gen.NStr("args"), gen.NCall("exit"), gen.NCall("use", gen.NStr("s1.p")))
			}
		}
		cases = append(cases,
			mk(map[string][]*gen.Node{
				"main.p": {gen.NSet("v", gen.NInt(1)), stmt(), probeAll("never-after-exit"), gen.NCall("add_key", id("k1"), gen.NInt(77))},
				"s1.p":   {gen.NCall("probe", gen.NStr("callee-runs"), id("k1")), gen.NCall("add_key", id("from_callee"), gen.NInt(9))},
			}),
			mk(map[string][]*gen.Node{
				"main.p": {gen.NCall("use", gen.NStr("mid.p")), probeAll("top-goes-on")},
				"mid.p":  {gen.NSet("v", gen.NInt(1)), stmt(), probeAll("never-in-mid")},
				"s1.p":   {gen.NCall("probe", gen.NStr("callee-runs"), id("k1")), gen.NIf([]*gen.Node{gen.NBool(true)}, [][]*gen.Node{{gen.NCall("exit")}}, nil, false), gen.NCall("probe", gen.NStr("never-in-callee"))},
			}),
			mk(map[string][]*gen.Node{
				"main.p": {gen.NForIn("i", gen.NList(gen.NInt(1), gen.NInt(2)), []*gen.Node{stmt(), probeAll("never-in-loop")}), probeAll("never-after-loop")},
				"s1.p":   {gen.NCall("probe", gen.NStr("callee-runs"), id("k1"))},
			}))
	}
	// printing on both sides of the script boundary: the output is in the order of the statements
	{
		pr := func(s string) *gen.Node { return gen.NCall("printf", gen.NStr(s+" %v\n"), id("k1")) }
		cases = append(cases,
			mk(map[string][]*gen.Node{"main.p": {pr("a1"), gen.NCall("use", gen.NStr("s1.p")), pr("a2")}, "s1.p": {pr("b1"), gen.NCall("use", gen.NStr("s2.p")), pr("b2")}, "s2.p": {pr("c1"), gen.NCall("add_key", id("k1"), gen.NInt(5))}}),
			mk(map[string][]*gen.Node{"main.p": {gen.NForIn("i", gen.NList(gen.NInt(1), gen.NInt(2)), []*gen.Node{pr("loop"), gen.NCall("use", gen.NStr("s1.p"))}), pr("end")}, "s1.p": {pr("callee"), gen.NCall("add_key", id("k1"), gen.NBin("+", id("k1"), gen.NInt(1)))}}),
			mk(map[string][]*gen.Node{"main.p": {pr("before"), gen.NCall("use", gen.NStr("s1.p")), pr("never")}, "s1.p": {pr("callee"), gen.NCall("perr"), pr("never-callee")}}),
			mk(map[string][]*gen.Node{"main.p": {pr("before"), gen.NCall("use", gen.NStr("s1.p")), pr("after-callee-exit")}, "s1.p": {pr("callee"), gen.NCall("exit"), pr("never-callee")}}),
			mk(map[string][]*gen.Node{"main.p": {gen.NCall("use", gen.NStr("s1.p")), pr("only-after")}, "s1.p": {pr("callee-first")}}),
		)
	}
	// caller and callee decode the same document from the shared point: each has a document of its own
	for _, doc := range []string{"{\"n\": 0, \"l\": [1, 2]}", "[1, [2, 3]]"} {
		first := gen.NStr("n")
		if doc[0] == '[' {
			first = gen.NInt(0)
		}
		lj := func() *gen.Node { return gen.NSet("d", gen.NCall("load_json", id("_"))) }
		wr := func(v int64) *gen.Node { return gen.NAssign("=", []*gen.Node{gen.NIndex(id("d"), first.Clone())}, []*gen.Node{gen.NInt(v)}) }
		for order := 0; order < 2; order++ {
			mainBody := []*gen.Node{lj(), wr(100), gen.NCall("use", gen.NStr("s1.p")), gen.NCall("probe", gen.NStr("caller"), id("d"))}
			if order == 1 {
				mainBody = []*gen.Node{lj(), gen.NCall("use", gen.NStr("s1.p")), gen.NCall("probe", gen.NStr("caller"), id("d")), gen.NCall("use", gen.NStr("s1.p"))}
			}
			cs := mk(map[string][]*gen.Node{
				"main.p": mainBody,
				"s1.p":   {lj(), gen.NCall("probe", gen.NStr("callee-sees"), id("d")), wr(200), gen.NCall("use", gen.NStr("s2.p"))},
				"s2.p":   {lj(), gen.NCall("probe", gen.NStr("deep-sees"), id("d")), wr(300)},
			})
			cs.Fields = map[string]any{"message": doc, "k1": int64(1)}
			cases = append(cases, cs)
		}
	}
	// scripts that consist of nothing but one use() call - aliases - between a caller and a callee that fails, exits or succeeds
	for _, bottom := range [][]*gen.Node{
		{gen.NCall("probe", gen.NStr("bottom")), gen.NCall("perr")},
		{gen.NCall("probe", gen.NStr("bottom")), gen.NSet("zz", gen.NBin("+", gen.NInt(1), gen.NStr("x")))},
		{gen.NCall("probe", gen.NStr("bottom")), gen.NCall("exit"), gen.NCall("probe", gen.NStr("never"))},
		{gen.NCall("add_key", id("k1"), gen.NInt(5))},
	} {
		for aliases := 1; aliases <= 3; aliases++ {
			scripts := map[string][]*gen.Node{"main.p": {gen.NSet("v", gen.NInt(1)), gen.NCall("probe", gen.NStr("before")), gen.NCall("use", gen.NStr("al1.p")), probeAll("caller-after")}}
			for a := 1; a <= aliases; a++ {
				next := fmt.Sprintf("al%d.p", a+1)
				if a == aliases {
					next = "bottom.p"
				}
				scripts[fmt.Sprintf("al%d.p", a)] = []*gen.Node{gen.NCall("use", gen.NStr(next))}
			}
			scripts["bottom.p"] = gen.CloneProg(bottom)
			cases = append(cases, mk(scripts))
			// the alias inside a block, and an alias that also holds a comment-like empty statement list around the call
			s2 := map[string][]*gen.Node{}
			for k, v := range scripts {
				s2[k] = gen.CloneProg(v)
			}
			s2["al1.p"] = []*gen.Node{gen.NIf([]*gen.Node{gen.NBool(true)}, [][]*gen.Node{{gen.NCall("use", gen.NStr(map[bool]string{true: "bottom.p", false: "al2.p"}[aliases == 1]))}}, nil, false)}
			cases = append(cases, mk(s2))
		}
	}
	// something that ends the statement - a failing callee, an exiting callee, a failing expression, exit() - in every
	// header position: the three clauses of a for, an if and an elif condition, a for-in iterable, an element, an argument
	{
		whats := map[string]func() *gen.Node{
			"use-failing":  func() *gen.Node { return gen.NCall("use", gen.NStr("bad.p")) },
			"use-exiting":  func() *gen.Node { return gen.NCall("use", gen.NStr("quit.p")) },
			"use-fine":     func() *gen.Node { return gen.NCall("use", gen.NStr("fine.p")) },
			"division":     func() *gen.Node { return gen.NBin("/", gen.NInt(1), id("z")) },
			"exit":         func() *gen.Node { return gen.NCall("exit") },
			"perr":         func() *gen.Node { return gen.NCall("perr") },
			"use-deep-bad": func() *gen.Node { return gen.NCall("use", gen.NStr("mid.p")) },
		}
		inc := func() *gen.Node { return gen.NSet("i", gen.NBin("+", id("i"), gen.NInt(1))) }
		places := map[string]func(w *gen.Node) *gen.Node{
			"for-init":        func(w *gen.Node) *gen.Node { return gen.NFor(w, gen.NBool(false), nil, []*gen.Node{gen.NCall("probe", gen.NStr("body"))}) },
			"for-init-assign": func(w *gen.Node) *gen.Node { return gen.NFor(gen.NSet("y", w), gen.NBool(false), nil, []*gen.Node{gen.NCall("probe", gen.NStr("body"))}) },
			"for-cond":        func(w *gen.Node) *gen.Node { return gen.NFor(nil, gen.NBin("==", w, gen.NInt(5)), nil, []*gen.Node{gen.NCall("probe", gen.NStr("body")), gen.NBreak()}) },
			"for-post":        func(w *gen.Node) *gen.Node { return gen.NFor(gen.NSet("i", gen.NInt(0)), gen.NBin("<", id("i"), gen.NInt(2)), w, []*gen.Node{gen.NCall("probe", gen.NStr("body"), id("i")), inc()}) },
			"if-cond":         func(w *gen.Node) *gen.Node { return gen.NIf([]*gen.Node{gen.NBin("==", w, gen.NInt(5))}, [][]*gen.Node{{gen.NCall("probe", gen.NStr("then"))}}, []*gen.Node{gen.NCall("probe", gen.NStr("else"))}, true) },
			"elif-cond":       func(w *gen.Node) *gen.Node { return gen.NIf([]*gen.Node{gen.NBool(false), gen.NBin("==", w, gen.NInt(5))}, [][]*gen.Node{{}, {gen.NCall("probe", gen.NStr("then"))}}, []*gen.Node{gen.NCall("probe", gen.NStr("else"))}, true) },
			"for-in-iterable": func(w *gen.Node) *gen.Node { return gen.NForIn("e", gen.NList(gen.NInt(1), w), []*gen.Node{gen.NCall("probe", gen.NStr("pass"))}) },
			"argument":        func(w *gen.Node) *gen.Node { return gen.NCall("probe", gen.NStr("arg"), gen.NList(w)) },
			"nested-loop-init": func(w *gen.Node) *gen.Node { return gen.NForIn("o", gen.NList(gen.NInt(1), gen.NInt(2)), []*gen.Node{gen.NFor(w, gen.NBool(false), nil, nil), gen.NCall("probe", gen.NStr("outer"), id("o"))}) },
		}
		var wn, pn []string
		for k := range whats {
			wn = append(wn, k)
		}
		for k := range places {
			pn = append(pn, k)
		}
		sort.Strings(wn)
		sort.Strings(pn)
		for _, w := range wn {
			for _, p := range pn {
				for _, depth := range []int{0, 1} {
					stmt := places[p](whats[w]())
					body := []*gen.Node{gen.NSet("z", gen.NInt(0)), gen.NSet("v", gen.NInt(1)), gen.NCall("probe", gen.NStr("before")), stmt, probeAll("after")}
					scripts := map[string][]*gen.Node{
						"bad.p":  {gen.NCall("probe", gen.NStr("bad-start")), gen.NIf([]*gen.Node{gen.NBool(true)}, [][]*gen.Node{{gen.NSet("q", gen.NBin("+", gen.NInt(1), gen.NStr("s")))}}, nil, false), gen.NCall("probe", gen.NStr("never"))},
						"quit.p": {gen.NCall("probe", gen.NStr("quit-start")), gen.NCall("exit"), gen.NCall("probe", gen.NStr("never"))},
						"fine.p": {gen.NCall("add_key", id("k1"), gen.NInt(2))},
						"mid.p":  {gen.NSet("v", gen.NInt(7)), gen.NCall("use", gen.NStr("bad.p")), gen.NCall("probe", gen.NStr("never-mid"))},
					}
					if depth == 0 {
						scripts["main.p"] = body
					} else {
						scripts["main.p"] = []*gen.Node{gen.NSet("v", gen.NInt(5)), gen.NCall("use", gen.NStr("inner.p")), probeAll("main-after")}
						scripts["inner.p"] = body
					}
					cases = append(cases, mk(scripts))
				}
			}
		}
	}
	for i, c := range cases {
		judge(t, "fixed", c, fmt.Sprint("fixed/", i), true, "fixed")
	}
}

// TestDeepChains: use() chains of depth 5..40; every level sets the same variable names and one point key; at the
// bottom: nothing, exit(), a failing statement. The caller at every level continues with its own variables, the
// error chain lists every call site.
func TestDeepChains(t *testing.T) {
	n := 0
	for _, depth := range []int{5, 15, 16, 17, 31, 32, 33, 40} {
		for bottom := 0; bottom < 4; bottom++ {
			scripts := map[string][]*gen.Node{}
			name := func(i int) string {
				if i == 0 {
					return "main.p"
				}
				return fmt.Sprintf("s%d.p", i)
			}
			for i := 0; i < depth; i++ {
				body := []*gen.Node{gen.NSet("v", gen.NInt(int64(i))), gen.NSet("w", gen.NStr(name(i))),
					gen.NCall("add_key", id("k1"), gen.NBin("+", id("k1"), gen.NInt(1)))}
				call := gen.NCall("use", gen.NStr(name(i+1)))
				switch i % 3 {
				case 0:
					body = append(body, call)
				case 1:
					body = append(body, gen.NIf([]*gen.Node{gen.NBin("==", id("v"), gen.NInt(int64(i)))}, [][]*gen.Node{{call}}, nil, false))
				default:
					body = append(body, gen.NForIn("e", gen.NList(gen.NInt(1)), []*gen.Node{call}))
				}
				body = append(body, gen.NCall("probe", gen.NStr("back-in-"+name(i)), id("v"), id("w"), id("k1")))
				scripts[name(i)] = body
			}
			last := []*gen.Node{gen.NCall("probe", gen.NStr("bottom"), id("v"), id("w"), id("k1"))}
			switch bottom {
			case 1:
				last = append(last, gen.NCall("exit"), gen.NCall("probe", gen.NStr("never")))
			case 2:
				last = append(last, gen.NCall("perr"), gen.NCall("probe", gen.NStr("never")))
			case 3:
				last = append(last, gen.NIf([]*gen.Node{gen.NBool(true)}, [][]*gen.Node{{gen.NSet("q", gen.NBin("+", gen.NInt(1), gen.NStr("a")))}}, nil, false))
			}
			scripts[name(depth)] = last
			c := &sem.Case{Scripts: map[string][]*gen.Node{}, Root: "main.p", Meas: "m", Fields: map[string]any{"k1": int64(1)}}
			for k, p := range scripts {
				c.Scripts[k] = gen.FixAll(p)
			}
			judge(t, "deep", c, fmt.Sprintf("deep/%d/%d", depth, bottom), true, "deep-chain", fmt.Sprintf("call-depth/%d", depth))
			n++
		}
	}
	evid.Exhaustive("use chains of depth 5..40 x {plain, exit, perr, ill-typed} at the bottom", n)
}

func TestReplays(t *testing.T) {
	files, _ := filepath.Glob(filepath.Join(evid.Dir(), "replays", prop, "*.json"))
	if r := os.Getenv("VERIF_REPLAY"); r != "" {
		files = []string{r}
	}
	for _, f := range files {
		b, err := os.ReadFile(f)
		if err != nil {
			continue
		}
		var r struct {
			Case sem.Replay `json:"case"`
		}
		if json.Unmarshal(b, &r) != nil || len(r.Case.Texts) == 0 {
			continue
		}
		t.Run(filepath.Base(f), func(t *testing.T) {
			c, err := sem.FromReplay(r.Case)
			if err != nil {
				t.Skipf("replay not loadable: %v", err)
			}
			v := sem.Decide(c, func() sem.ImplOut { return sem.RunV1(c, 0) }, nil, true, true)
			if v.Msg != "" {
				rk.Fail(t, "replay", r.Case, "%s\nscripts:\n%s", v.Msg, dump(c))
			}
			evid.Case("replay:"+dump(c), true, "replay")
		})
	}
}
