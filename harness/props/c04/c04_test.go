package c04

import (
	"sort"
	"encoding/json"
	"fmt"
	"math"
	"os"
	"path/filepath"
	"strings"
	"testing"

	"pgregory.net/rapid"
	"verifharness/evid"
	"verifharness/gen"
	"verifharness/rk"
	"verifharness/sem"
	"verifharness/sgen"
)

const prop = "C04"

func TestMain(m *testing.M) {
	evid.Init(prop, "exploration",
		"(1) exhaustive slices: every list of length 0..5 and every string of length 0..5 (ASCII, plus a two-rune non-ASCII alphabet) x every (start,end,step) with each bound omitted, in -8..8 or one of {MinInt64, MinInt64+1, MaxInt64-1, MaxInt64}, over the 12 syntactic slice forms, the admissible slice objects (identifier, literal, list literal, call result, nested slice) and literal/variable bounds; (2) exhaustive index paths of depth<=3 over two nested list/map shapes with in-range, negative, out-of-range and wrongly typed keys, as read, write and compound write; (3) random programs interleaving aliasing (b = a, b = a[k], collections inside collections), mutation through any alias, in, len(), load_json() values and add_key snapshots. Oracle: reference model (CPython slice algorithm in saturating arithmetic; collections shared by reference; add_key stores the JSON text of that moment); values and Go types compared through probes, snapshots as point fields. Non-trivial: slice with start>end, bound beyond +-len, negative step with an omitted bound, or non-ASCII subject; index path with a negative or failing key; alias program with a write after an alias was taken. Distinct by case text.",
		"for non-ASCII strings the reference does not say whether slice elements are bytes or characters: both are accepted (open row); len() is documented as bytes",
		"a nil-valued bound is accepted as 'omitted' or as an error (open row: Python treats None as omitted)")
	code := m.Run()
	evid.Flush(code == 0)
	os.Exit(code)
}

func id(s string) *gen.Node { return gen.NIdent(s) }

func judge(t rk.Failer, slot string, c *sem.Case, key string, nontrivial bool, labels ...string) {
	c.Print(nil)
	v := sem.Decide(c, func() sem.ImplOut { return sem.RunV1(c, 0) }, nil, true, true)
	if v.Discard != nil {
		evid.Discard(v.Discard.Error())
		return
	}
	if v.Msg != "" {
		rk.Fail(t, slot, c.Replay(""), "%s\nscript: %q", v.Msg, c.Texts[c.Root])
	}
	if v.Weak {
		labels = append(labels, "open-row")
	}
	evid.Case(key, nontrivial, labels...)
	if nontrivial {
		tr := ""
		if len(v.Model.Trace) > 0 {
			tr = v.Model.Trace[len(v.Model.Trace)-1].String()
		}
		if v.Model.Err != nil {
			tr = "error: " + v.Model.Err.Msg
		}
		evid.Sample(map[string]any{"script": c.Texts[c.Root], "reference": tr})
	}
}

type bound struct {
	omit bool
	v    int64
}

func bounds() []bound {
	out := []bound{{omit: true}}
	for i := int64(-8); i <= 8; i++ {
		out = append(out, bound{v: i})
	}
	for _, x := range []int64{math.MinInt64, math.MinInt64 + 1, math.MaxInt64 - 1, math.MaxInt64} {
		out = append(out, bound{v: x})
	}
	return out
}

func subjects() []any {
	var out []any
	for n := 0; n <= 5; n++ {
		l := []any{}
		for i := 0; i < n; i++ {
			l = append(l, int64(10+i))
		}
		out = append(out, l)
		out = append(out, "abcde"[:n])
	}
	out = append(out, "é", "aé", "é注", "aé注b", []any{"x", nil, []any{int64(1)}})
	return out
}

func extreme(b bound) bool { return !b.omit && (b.v > 8 || b.v < -8) }

func sliceNontrivial(subj any, lo, hi, st bound) bool {
	n := int64(0)
	switch x := subj.(type) {
	case string:
		n = int64(len(x))
		for i := 0; i < len(x); i++ {
			if x[i] >= 0x80 {
				return true
			}
		}
	case []any:
		n = int64(len(x))
	}
	if !lo.omit && !hi.omit && lo.v > hi.v {
		return true
	}
	for _, b := range []bound{lo, hi} {
		if !b.omit && (b.v > n || b.v < -n) {
			return true
		}
	}
	if !st.omit && st.v < 0 && (lo.omit || hi.omit) {
		return true
	}
	return false
}

// sliceCase builds one script for (subject, bounds) in the syntactic form selected by variant.
func sliceCase(subj any, lo, hi, st bound, variant int) *sem.Case {
	var prog []*gen.Node
	bnode := func(name string, b bound, viaVar bool) *gen.Node {
		if b.omit {
			return nil
		}
		if viaVar || b.v == math.MinInt64 {
			prog = append(prog, gen.NSet(name, sgen.Lit(b.v)))
			return id(name)
		}
		return sgen.Lit(b.v)
	}
	viaVar := variant&1 == 1
	l, h, s := bnode("s", lo, viaVar), bnode("e", hi, viaVar), bnode("t", st, viaVar)
	colon2 := s != nil || variant&2 != 0
	var obj *gen.Node
	switch (variant >> 2) % 4 {
	case 0:
		prog = append(prog, gen.NSet("x", sgen.Lit(subj)))
		obj = id("x")
	case 1:
		obj = sgen.Lit(subj) // literal / list literal object
	case 2:
		obj = gen.NCall("pval", sgen.Lit(subj)) // call result
	default:
		prog = append(prog, gen.NSet("x", sgen.Lit(subj)))
		obj = gen.NSlice(id("x"), nil, nil, nil, variant&2 != 0) // nested slice x[:][...]
	}
	prog = append(prog, gen.NCall("probe", gen.NStr("r"), gen.NSlice(obj, l, h, s, colon2)))
	return sem.NewCase(gen.FixAll(prog))
}

func TestSlicesExhaustive(t *testing.T) {
	bs := bounds()
	subs := subjects()
	stride := evid.Scale(8, 1)
	n, idx := 0, 0
	for si, subj := range subs {
		for _, lo := range bs {
			for _, hi := range bs {
				for _, st := range bs {
					idx++
					ext := extreme(lo) || extreme(hi) || extreme(st)
					if !ext && stride > 1 && (idx+int(evid.Seed()))%stride != 0 {
						continue
					}
					if idx%evid.NShards() != evid.Shard() {
						continue
					}
					variant := idx % 16
					c := sliceCase(subj, lo, hi, st, variant)
					key := fmt.Sprintf("sl/%d/%v/%v/%v/%d", si, lo, hi, st, variant)
					lab := "slice/list"
					if _, ok := subj.(string); ok {
						lab = "slice/string"
					}
					judge(t, "slices", c, key, sliceNontrivial(subj, lo, hi, st), lab, fmt.Sprintf("slice-form-%d", variant))
					n++
				}
			}
		}
	}
	if stride == 1 {
		evid.Exhaustive("slices: subjects x 22^3 bounds", n)
	} else {
		evid.Exhaustive(fmt.Sprintf("slices: all extreme-bound cases + 1/%d stride of the rest", stride), n)
	}
}

// ---------------------------------------------------------------- index paths

func shapes() []any {
	return []any{
		[]any{int64(10), []any{int64(20), int64(21)}, map[string]any{"k": []any{int64(30), int64(31)}, "m": map[string]any{"z": int64(1)}}},
		map[string]any{"a": []any{int64(1), map[string]any{"b": int64(2)}}, "c": map[string]any{"d": []any{int64(5)}}, "n": nil, "k": "str"},
	}
}

func keys() []any {
	return []any{int64(0), int64(1), int64(2), int64(-1), int64(-3), int64(3), int64(-4), int64(5),
		"k", "a", "c", "zz", "m", "d", "b",
		1.5, true, nil, []any{int64(0)}}
}

func pathNontrivial(path []any) bool {
	for _, k := range path {
		switch x := k.(type) {
		case int64:
			if x < 0 || x >= 3 {
				return true
			}
		case string:
			if x == "zz" {
				return true
			}
		default:
			return true
		}
	}
	return false
}

func TestIndexPathsExhaustive(t *testing.T) {
	ks := keys()
	n, idx := 0, 0
	for si, sh := range shapes() {
		var rec func(path []any)
		rec = func(path []any) {
			if len(path) > 0 {
				idx++
				if idx%evid.NShards() == evid.Shard() {
					for op := 0; op < 7; op++ {
						var ix []*gen.Node
						for _, k := range path {
							ix = append(ix, sgen.Lit(k))
						}
						prog := []*gen.Node{gen.NSet("o", sgen.Lit(sh))}
						switch op {
						case 4, 5, 6:
							// the keys are expressions that leave a record, fail, or write the point when they are evaluated:
							// a path is followed key by key, and the keys behind the step that ends it are not evaluated
							if len(path) < 2 {
								continue
							}
							var kx []*gen.Node
							for ki, k := range path {
								switch {
								case op == 4 || ki == 0:
									kx = append(kx, gen.NCall("pval", sgen.Lit(k)))
								case op == 5:
									kx = append(kx, gen.NBin("+", sgen.Lit(k), gen.NBin("*", gen.NBin("/", gen.NInt(1), id("z0")), gen.NInt(0))))
								default:
									kx = append(kx, gen.NBin("+", sgen.Lit(k), gen.NCall("len", gen.NCall("add_key", id(fmt.Sprintf("leak%d", ki)), gen.NInt(1)))))
								}
							}
							if op == 5 || op == 6 {
								if _, isStr := path[len(path)-1].(string); isStr {
									continue // the failing key is built with arithmetic on an integer key
								}
								if _, isStr := path[1].(string); isStr && len(path) > 2 {
									continue
								}
								prog = append(prog, gen.NSet("z0", gen.NInt(0)))
							}
							prog = append(prog, gen.NSet("r", gen.NIndex(id("o"), kx...)), gen.NCall("probe", gen.NStr("r"), id("r")))
						case 0:
							prog = append(prog, gen.NCall("probe", gen.NStr("r"), gen.NIndex(id("o"), ix...)))
						case 1:
							prog = append(prog, gen.NAssign("=", []*gen.Node{gen.NIndex(id("o"), ix...)}, []*gen.Node{gen.NStr("W")}),
								gen.NCall("probe", gen.NStr("r"), id("o")))
						case 2:
							prog = append(prog, gen.NAssign("+=", []*gen.Node{gen.NIndex(id("o"), ix...)}, []*gen.Node{gen.NInt(100)}),
								gen.NCall("probe", gen.NStr("r"), id("o")))
						default: // through an alias of an inner collection
							if len(path) < 2 {
								continue
							}
							prog = append(prog, gen.NSet("al", gen.NIndex(id("o"), ix[0])),
								gen.NAssign("=", []*gen.Node{gen.NIndex(id("al"), ix[1:]...)}, []*gen.Node{gen.NInt(-7)}),
								gen.NCall("probe", gen.NStr("r"), id("o"), id("al")))
						}
						c := sem.NewCase(gen.FixAll(prog))
						judge(t, "paths", c, fmt.Sprintf("path/%d/%v/%d", si, path, op), pathNontrivial(path), fmt.Sprintf("index-op-%d", op))
						n++
					}
				}
			}
			if len(path) == 3 {
				return
			}
			for _, k := range ks {
				rec(append(append([]any{}, path...), k))
			}
		}
		rec(nil)
	}
	evid.Exhaustive("index paths depth<=3 x {read, write, compound write, write through alias}", n)
}

// ---------------------------------------------------------------- random alias programs

func loadJSONCall(g *sgen.G, d int) *gen.Node {
	g.Feat["load_json"] = true
	docs := []string{`{"a": [1, 2, {"b": "x"}], "n": null, "f": 1.5}`, `[1, "two", [3], {"k": true}]`, `"just a string"`, `42`, `{}`, `[]`, `{"é": [0]}`}
	name := g.Names[rapid.IntRange(0, len(g.Names)-1).Draw(g.T, "jname")]
	doc := docs[rapid.IntRange(0, len(docs)-1).Draw(g.T, "jdoc")]
	switch doc[0] {
	case '{':
		g.Env[name] = sgen.TMap
	case '[':
		g.Env[name] = sgen.TList
	case '"':
		g.Env[name] = sgen.TStr
	default:
		g.Env[name] = sgen.TFloat
	}
	g.Defined[name] = true
	return gen.NSet(name, gen.NCall("load_json", gen.NStr(doc)))
}

func aliasStmt(g *sgen.G, d int) *gen.Node {
	// b = a   or   b = a[k]   or   a[k] = b (collections inside collections)
	var colls []string
	for _, n := range g.Names {
		if t, ok := g.Env[n]; ok && g.Defined[n] && (t == sgen.TList || t == sgen.TMap) {
			colls = append(colls, n)
		}
	}
	if len(colls) == 0 {
		name := g.Names[rapid.IntRange(0, len(g.Names)-1).Draw(g.T, "cname")]
		ty := []sgen.Ty{sgen.TList, sgen.TMap}[rapid.IntRange(0, 1).Draw(g.T, "cty")]
		g.Env[name], g.Defined[name] = ty, true
		return gen.NSet(name, g.LitOf(ty, 2))
	}
	src := colls[rapid.IntRange(0, len(colls)-1).Draw(g.T, "asrc")]
	dst := g.Names[rapid.IntRange(0, len(g.Names)-1).Draw(g.T, "adst")]
	key := func(n string) *gen.Node {
		if g.Env[n] == sgen.TList {
			return sgen.Lit(int64(rapid.IntRange(-3, 3).Draw(g.T, "akey")))
		}
		return gen.NStr([]string{"k", "a", "b"}[rapid.IntRange(0, 2).Draw(g.T, "amkey")])
	}
	g.Feat["alias"] = true
	switch rapid.IntRange(0, 4).Draw(g.T, "akind") {
	case 3:
		g.Env[dst], g.Defined[dst] = sgen.TList, true
		g.Feat["collection-in-collection"] = true
		return gen.NSet(dst, gen.NList(id(src), gen.NInt(0)))
	case 4:
		g.Env[dst], g.Defined[dst] = sgen.TMap, true
		g.Feat["collection-in-collection"] = true
		return gen.NSet(dst, gen.NMap(gen.NStr("k"), id(src)))
	case 0:
		g.Env[dst], g.Defined[dst] = g.Env[src], true
		return gen.NSet(dst, id(src))
	case 1:
		g.Env[dst], g.Defined[dst] = sgen.TAny, true
		return gen.NSet(dst, gen.NIndex(id(src), key(src)))
	default:
		other := colls[rapid.IntRange(0, len(colls)-1).Draw(g.T, "aother")]
		g.Feat["collection-in-collection"] = true
		return gen.NAssign("=", []*gen.Node{gen.NIndex(id(src), key(src))}, []*gen.Node{id(other)})
	}
}

func TestRandomAliasPrograms(t *testing.T) {
	rk.Check(t, "alias", 1, evid.Scale(2500, 20000), func(t *rapid.T) {
		g := sgen.New(t)
		g.Probes = true
		g.Slices = true
		g.AddKey = true
		g.Loops = rapid.Bool().Draw(t, "loops")
		g.Hostile = rapid.SampledFrom([]int{0, 15}).Draw(t, "hostile")
		g.MaxDepth = 2
		g.Calls = []func(*sgen.G, int) *gen.Node{loadJSONCall, aliasStmt, aliasStmt, aliasStmt}
		prog := []*gen.Node{gen.NSet("a", g.LitOf(sgen.TList, 2)), gen.NSet("b", g.LitOf(sgen.TMap, 2))}
		g.Env["a"], g.Env["b"] = sgen.TList, sgen.TMap
		g.Defined["a"], g.Defined["b"] = true, true
		prog = append(prog, g.Program(8, 2)...)
		c := sem.NewCase(gen.FixAll(prog))
		c.Fields = map[string]any{"k1": int64(1)}
		c.Tags = map[string]string{"t1": "v"}
		nt := g.Feat["alias"] && (g.Feat["index-write"] || g.Feat["collection-in-collection"])
		var labels []string
		for f := range g.Feat {
			labels = append(labels, "feat/"+f)
		}
		judge(t, "alias", c, "alias:"+gen.ShapeAll(c.Scripts[c.Root]), nt, labels...)
	})
}

// TestSnapshots: add_key of a collection stores its JSON text of that moment.
func TestSnapshots(t *testing.T) {
	rk.Check(t, "snapshots", 2, evid.Scale(800, 8000), func(t *rapid.T) {
		g := sgen.New(t)
		coll := g.LitOf([]sgen.Ty{sgen.TList, sgen.TMap}[rapid.IntRange(0, 1).Draw(t, "ty")], 2)
		prog := []*gen.Node{gen.NSet("a", coll), gen.NSet("al", id("a")), gen.NCall("add_key", id("snap1"), id("a"))}
		if coll.Kind == gen.List {
			prog = append(prog, gen.NAssign("=", []*gen.Node{gen.NIndex(id("al"), sgen.Lit(int64(rapid.IntRange(-2, 2).Draw(t, "ix"))))}, []*gen.Node{g.LitOf(sgen.TAny, 1)}))
		} else {
			prog = append(prog, gen.NAssign("=", []*gen.Node{gen.NIndex(id("al"), gen.NStr([]string{"k", "a", "new"}[rapid.IntRange(0, 2).Draw(t, "mk")]))}, []*gen.Node{g.LitOf(sgen.TAny, 1)}))
		}
		prog = append(prog, gen.NCall("add_key", id("snap2"), id("a")), gen.NCall("add_key", id("n"), gen.NCall("len", id("a"))),
			gen.NCall("probe", gen.NStr("r"), id("a"), id("al"), gen.NBin("in", gen.NStr("k"), id("a"))))
		c := sem.NewCase(gen.FixAll(prog))
		judge(t, "snapshots", c, "snap:"+gen.ShapeAll(prog), true, "snapshot")
	})
}

// TestAliasTable: every way of taking an alias x every way of writing through it, observed through every name.
func TestAliasTable(t *testing.T) {
	type aliasWay struct {
		name string
		take func() *gen.Node            // defines `al` from `a`
		path func(k *gen.Node) *gen.Node // the element of a[...] as reached through al
	}
	inner := func() *gen.Node {
		return sgen.Lit([]any{int64(1), []any{int64(2), int64(3)}, map[string]any{"k": []any{int64(4)}}})
	}
	ways := []aliasWay{
		{"direct", func() *gen.Node { return gen.NSet("al", id("a")) }, func(k *gen.Node) *gen.Node { return gen.NIndex(id("al"), k) }},
		{"in-list-literal", func() *gen.Node { return gen.NSet("al", gen.NList(gen.NInt(0), id("a"))) }, func(k *gen.Node) *gen.Node { return gen.NIndex(id("al"), gen.NInt(1), k) }},
		{"in-map-literal", func() *gen.Node { return gen.NSet("al", gen.NMap(gen.NStr("m"), id("a"))) }, func(k *gen.Node) *gen.Node { return gen.NIndex(id("al"), gen.NStr("m"), k) }},
		{"stored-into-list", func() *gen.Node {
			return gen.NIf([]*gen.Node{gen.NBool(true)}, [][]*gen.Node{{gen.NSet("al", gen.NList(gen.NNil())), gen.NAssign("=", []*gen.Node{gen.NIndex(id("al"), gen.NInt(0))}, []*gen.Node{id("a")})}}, nil, false)
		}, func(k *gen.Node) *gen.Node { return gen.NIndex(id("al"), gen.NInt(0), k) }},
		{"stored-into-map", func() *gen.Node {
			return gen.NIf([]*gen.Node{gen.NBool(true)}, [][]*gen.Node{{gen.NSet("al", gen.NMap()), gen.NAssign("=", []*gen.Node{gen.NIndex(id("al"), gen.NStr("z"))}, []*gen.Node{id("a")})}}, nil, false)
		}, func(k *gen.Node) *gen.Node { return gen.NIndex(id("al"), gen.NStr("z"), k) }},
		{"through-slice", func() *gen.Node { return gen.NSet("al", gen.NSlice(id("a"), nil, nil, nil, false)) }, func(k *gen.Node) *gen.Node { return gen.NIndex(id("al"), k) }},
		{"loop-variable", func() *gen.Node { return gen.NSet("al", gen.NList(id("a"))) }, nil},
	}
	n := 0
	for _, w := range ways {
		for wi := 0; wi < 4; wi++ {
			prog := []*gen.Node{gen.NSet("a", inner())}
			// the definition must be at top level: the `if true {...}` wrappers above define `al` inside a block, so predefine it
			prog = append(prog, gen.NSet("al", gen.NNil()), w.take())
			var write *gen.Node
			if w.path == nil {
				// for e in [a] { e[0] = 9 }
				write = gen.NForIn("e", id("al"), []*gen.Node{gen.NAssign("=", []*gen.Node{gen.NIndex(id("e"), gen.NInt(0))}, []*gen.Node{gen.NInt(9)})})
				if wi > 0 {
					continue
				}
			} else {
				tgt := w.path(gen.NInt(int64(wi % 2))) // element 0 (scalar) or 1 (nested list)
				switch wi {
				case 0:
					write = gen.NAssign("=", []*gen.Node{tgt}, []*gen.Node{gen.NStr("W")})
				case 1:
					tgt.Args = append(tgt.Args, gen.NInt(-1))
					write = gen.NAssign("=", []*gen.Node{tgt}, []*gen.Node{gen.NStr("deep")})
				case 2:
					write = gen.NAssign("+=", []*gen.Node{tgt}, []*gen.Node{gen.NInt(100)})
				default:
					tgt.Args = append(tgt.Args, gen.NInt(0))
					write = gen.NAssign("*=", []*gen.Node{tgt}, []*gen.Node{gen.NInt(7)})
				}
			}
			prog = append(prog, write, gen.NCall("probe", gen.NStr("r"), id("a"), id("al")), gen.NCall("add_key", id("snap"), id("a")))
			c := sem.NewCase(gen.FixAll(prog))
			judge(t, "aliastable", c, fmt.Sprintf("alias/%s/%d", w.name, wi), w.name != "through-slice" || wi == 1 || wi == 3, "alias-table/"+w.name)
			n++
		}
	}
	evid.Exhaustive("alias ways x write ways", n)
}

// TestEmptyCollectionsKeepIdentity: an empty map is a collection like any other - read out of a list or a map (by an
// index, by a path of indices, as the element a for-in delivers, through a slice of its parent) it is the very map the
// parent holds, so a key stored through the name it was read into shows in the parent, and the other way round.
func TestEmptyCollectionsKeepIdentity(t *testing.T) {
	set := func(obj *gen.Node, k string, v *gen.Node) *gen.Node {
		return gen.NAssign("=", []*gen.Node{gen.NIndex(obj, gen.NStr(k))}, []*gen.Node{v})
	}
	cases := map[string][]*gen.Node{
		"map-in-map/index": {gen.NSet("p", gen.NMap(gen.NStr("a"), gen.NMap())), gen.NSet("x", gen.NIndex(id("p"), gen.NStr("a"))), set(id("x"), "k", gen.NInt(1))},
		"map-in-list/index": {gen.NSet("p", gen.NList(gen.NMap(), gen.NMap())), gen.NSet("x", gen.NIndex(id("p"), gen.NInt(-1))), set(id("x"), "k", gen.NInt(1))},
		"map-in-list/for-in": {gen.NSet("p", gen.NList(gen.NMap(), gen.NMap(gen.NStr("z"), gen.NInt(0)), gen.NMap())), gen.NForIn("r", id("p"), []*gen.Node{set(id("r"), "k", gen.NInt(1))}), gen.NSet("x", gen.NNil())},
		"map-in-map-in-map/path": {gen.NSet("p", gen.NMap(gen.NStr("a"), gen.NMap(gen.NStr("b"), gen.NMap()))), gen.NSet("x", gen.NIndex(id("p"), gen.NStr("a"), gen.NStr("b"))), set(id("x"), "k", gen.NList())},
		"map-in-list-in-list/path": {gen.NSet("p", gen.NList(gen.NList(gen.NMap()))), gen.NSet("x", gen.NIndex(id("p"), gen.NInt(0), gen.NInt(0))), set(id("x"), "k", gen.NInt(1))},
		"map-in-list/through-slice": {gen.NSet("p", gen.NList(gen.NInt(0), gen.NMap())), gen.NSet("s", gen.NSlice(id("p"), gen.NInt(1), nil, nil, false)), gen.NSet("x", gen.NIndex(id("s"), gen.NInt(0))), set(id("x"), "k", gen.NInt(1))},
		"named-then-stored": {gen.NSet("x", gen.NMap()), gen.NSet("p", gen.NMap(gen.NStr("a"), id("x"))), gen.NAssign("=", []*gen.Node{gen.NIndex(id("p"), gen.NStr("a"), gen.NStr("k"))}, []*gen.Node{gen.NInt(1)})},
		"read-twice": {gen.NSet("p", gen.NMap(gen.NStr("a"), gen.NMap())), gen.NSet("x", gen.NIndex(id("p"), gen.NStr("a"))), gen.NSet("y", gen.NIndex(id("p"), gen.NStr("a"))), set(id("y"), "k", gen.NInt(1)), gen.NCall("probe", gen.NStr("y"), id("y"))},
		"nested-for-in": {gen.NSet("p", gen.NList(gen.NList(gen.NMap()), gen.NList(gen.NMap(), gen.NMap()))), gen.NForIn("row", id("p"), []*gen.Node{gen.NForIn("cell", id("row"), []*gen.Node{set(id("cell"), "k", gen.NCall("len", id("row")))})}), gen.NSet("x", gen.NNil())},
		"emptied-then-read": {gen.NSet("p", gen.NMap(gen.NStr("a"), gen.NMap())), gen.NSet("x", gen.NIndex(id("p"), gen.NStr("a"))), set(id("x"), "k", gen.NMap()), gen.NSet("x", gen.NIndex(id("x"), gen.NStr("k"))), set(id("x"), "deep", gen.NBool(true))},
	}
	var names []string
	for k := range cases {
		names = append(names, k)
	}
	sort.Strings(names)
	n := 0
	for _, name := range names {
		prog := gen.CloneProg(cases[name])
		prog = append(prog, gen.NCall("probe", gen.NStr("r"), id("p"), id("x")), gen.NCall("add_key", id("snap"), id("p")))
		judge(t, "emptyidentity", sem.NewCase(gen.FixAll(prog)), "emptyidentity/"+name, true, "empty-collection-identity")
		n++
	}
	evid.Exhaustive("empty maps read out of their parents, written through the name", n)
}

// TestLiteralReevaluation: a collection literal that is evaluated more than once (in a loop, in two statements)
// yields a fresh collection each time: a write through one result is not visible in the next.
func TestLiteralReevaluation(t *testing.T) {
	lits := []func() *gen.Node{
		func() *gen.Node { return gen.NList(gen.NInt(10), gen.NInt(20)) },
		func() *gen.Node { return gen.NList(gen.NStr("a"), gen.NFloat(0.5), gen.NBool(true), gen.NNil()) },
		func() *gen.Node { return gen.NList(gen.NList(gen.NInt(1), gen.NInt(2)), gen.NInt(3)) },
		func() *gen.Node { return gen.NMap(gen.NStr("k"), gen.NInt(1), gen.NStr("j"), gen.NStr("s")) },
		func() *gen.Node { return gen.NMap(gen.NStr("k"), gen.NList(gen.NInt(1), gen.NInt(2))) },
		func() *gen.Node { return gen.NList(gen.NMap(gen.NStr("k"), gen.NInt(1))) },
		func() *gen.Node { return gen.NList() },
		func() *gen.Node { return gen.NMap() },
		// a decoded document is a fresh value on every call as well
		func() *gen.Node { return gen.NCall("load_json", gen.NStr("[10, [20, 21], {\"k\": 1}]")) },
		func() *gen.Node { return gen.NCall("load_json", gen.NStr("{\"k\": [1, 2], \"j\": \"s\"}")) },
	}
	// writes applicable to each literal (index path of the written element)
	paths := [][][]*gen.Node{
		{{gen.NInt(1)}, {gen.NInt(-2)}},
		{{gen.NInt(0)}, {gen.NInt(3)}},
		{{gen.NInt(0), gen.NInt(1)}, {gen.NInt(1)}, {gen.NInt(0)}},
		{{gen.NStr("k")}, {gen.NStr("new")}},
		{{gen.NStr("k"), gen.NInt(0)}, {gen.NStr("k")}},
		{{gen.NInt(0), gen.NStr("k")}, {gen.NInt(0), gen.NStr("z")}},
		{},
		{{gen.NStr("z")}},
		{{gen.NInt(0)}, {gen.NInt(1), gen.NInt(0)}, {gen.NInt(2), gen.NStr("k")}, {gen.NInt(2), gen.NStr("new")}},
		{{gen.NStr("k"), gen.NInt(0)}, {gen.NStr("extra")}, {gen.NStr("j")}},
	}
	n := 0
	for li, lit := range lits {
		for _, path := range paths[li] {
			for loop := 0; loop < 4; loop++ {
				for _, op := range []string{"=", "+="} {
					idx := func() *gen.Node {
						var ix []*gen.Node
						for _, p := range path {
							ix = append(ix, p.Clone())
						}
						return gen.NIndex(id("x"), ix...)
					}
					body := []*gen.Node{
						gen.NSet("x", lit()),
						gen.NCall("probe", gen.NStr("fresh"), id("x")),
						gen.NAssign(op, []*gen.Node{idx()}, []*gen.Node{gen.NInt(100)}),
						gen.NCall("probe", gen.NStr("written"), id("x")),
					}
					var prog []*gen.Node
					switch loop {
					case 0:
						prog = []*gen.Node{gen.NForIn("e", gen.NList(gen.NInt(1), gen.NInt(2), gen.NInt(3)), body)}
					case 1:
						prog = []*gen.Node{gen.NFor(gen.NSet("i", gen.NInt(0)), gen.NBin("<", id("i"), gen.NInt(3)), gen.NSet("i", gen.NBin("+", id("i"), gen.NInt(1))), body)}
					case 2:
						prog = append(append([]*gen.Node{}, body...), gen.NSet("y", lit()), gen.NCall("probe", gen.NStr("second literal"), id("y"), id("x")))
					default:
						// the literal as an operand: keep = [] ; keep grows with each pass's collection
						prog = []*gen.Node{gen.NSet("keep", gen.NList(gen.NNil(), gen.NNil(), gen.NNil())),
							gen.NFor(gen.NSet("i", gen.NInt(0)), gen.NBin("<", id("i"), gen.NInt(3)), gen.NSet("i", gen.NBin("+", id("i"), gen.NInt(1))),
								append(body, gen.NAssign("=", []*gen.Node{gen.NIndex(id("keep"), id("i"))}, []*gen.Node{id("x")}))),
							gen.NCall("probe", gen.NStr("kept"), id("keep"))}
					}
					c := sem.NewCase(gen.FixAll(prog))
					judge(t, "literal-reeval", c, fmt.Sprintf("reeval/%d/%s/%d/%s", li, gen.Print([]*gen.Node{idx()}, gen.Minimal{}), loop, op), true, "literal-reevaluation")
					n++
				}
			}
		}
	}
	evid.Exhaustive("collection literal evaluated repeatedly x written element x loop form x {=, +=}", n)
}

// TestLargeSubjects: slices and index reads / writes on lists and strings of 31 .. 1000 elements (and strings with
// characters of 1-4 bytes), with bounds at and around both ends, the middle and the length.
func TestLargeSubjects(t *testing.T) {
	n := 0
	for li, ln := range []int{31, 32, 33, 63, 64, 65, 127, 128, 129, 255, 256, 257, 1000} {
		if li%evid.NShards() != evid.Shard() {
			continue
		}
		lst := make([]any, ln)
		var sb strings.Builder
		for i := range lst {
			lst[i] = int64(i)
			sb.WriteString([]string{"a", "é", "注", "\U0001F600", "b"}[i%5])
		}
		L := int64(ln)
		bs := []bound{{omit: true}, {v: 0}, {v: 1}, {v: -1}, {v: L - 1}, {v: L}, {v: L + 1}, {v: -L}, {v: -L - 1}, {v: -L + 1}, {v: L / 2}, {v: -L / 2}}
		steps := []bound{{omit: true}, {v: 1}, {v: 2}, {v: -1}, {v: -2}, {v: L - 1}, {v: L}, {v: -L}, {v: 7}}
		for _, subj := range []any{lst, sb.String()[:len(sb.String())], strings.Repeat("ab", ln/2)} {
			for _, lo := range bs {
				for _, hi := range bs {
					for si, st := range steps {
						if (si != 0 && si != 1) && ((lo.v+hi.v)%3 != 0) {
							continue // a third of the bound pairs for the unusual steps
						}
						c := sliceCase(subj, lo, hi, st, 0)
						judge(t, "large", c, fmt.Sprintf("large/%d/%T/%v/%v/%v", ln, subj, lo, hi, st), true, "large-subject/slice")
						n++
					}
				}
			}
		}
		// index reads and writes at the same offsets
		for _, ix := range bs[1:] {
			prog := []*gen.Node{gen.NSet("x", sgen.Lit(lst)), gen.NCall("probe", gen.NStr("r"), gen.NIndex(id("x"), sgen.Lit(ix.v))),
				gen.NAssign("=", []*gen.Node{gen.NIndex(id("x"), sgen.Lit(ix.v))}, []*gen.Node{gen.NStr("w")}), gen.NCall("probe", gen.NStr("len"), gen.NCall("len", id("x")), gen.NIndex(id("x"), gen.NInt(0)), gen.NIndex(id("x"), gen.NInt(-1)))}
			judge(t, "large", sem.NewCase(gen.FixAll(prog)), fmt.Sprintf("large-index/%d/%v", ln, ix), true, "large-subject/index")
			n++
		}
	}
	evid.Exhaustive("subjects of 31..1000 elements x bounds around both ends x steps; index read/write", n)
}

// TestMutationDuringIteration: a for-in over a list sees the list itself, not a copy: a write to a position the
// loop has not reached yet - directly, through an alias, through an outer container - is seen by the later pass.
func TestMutationDuringIteration(t *testing.T) {
	i := func(v int64) *gen.Node { return gen.NInt(v) }
	n := 0
	for via := 0; via < 4; via++ {
		for off := int64(1); off <= 2; off++ {
			for _, op := range []string{"=", "+="} {
				var pre []*gen.Node
				target := "l"
				switch via {
				case 1:
					pre = []*gen.Node{gen.NSet("m", id("l"))}
					target = "m"
				case 2:
					pre = []*gen.Node{gen.NSet("box", gen.NMap(gen.NStr("k"), id("l"))), gen.NSet("m", gen.NIndex(id("box"), gen.NStr("k")))}
					target = "m"
				case 3:
					pre = []*gen.Node{gen.NSet("box", gen.NList(id("l"), i(0)))}
				}
				var write *gen.Node
				idx := gen.NBin("+", id("p"), i(off))
				if via == 3 {
					write = gen.NAssign(op, []*gen.Node{gen.NIndex(id("box"), i(0), idx)}, []*gen.Node{gen.NBin("+", id("x"), i(100))})
				} else {
					write = gen.NAssign(op, []*gen.Node{gen.NIndex(id(target), idx)}, []*gen.Node{gen.NBin("+", id("x"), i(100))})
				}
				prog := append([]*gen.Node{gen.NSet("l", gen.NList(i(1), i(2), i(3), i(4), i(5))), gen.NSet("p", i(0))}, pre...)
				prog = append(prog, gen.NForIn("x", id("l"), []*gen.Node{
					gen.NCall("probe", gen.NStr("pass"), id("p"), id("x")),
					gen.NIf([]*gen.Node{gen.NBin("<", idx.Clone(), i(5))}, [][]*gen.Node{{write}}, nil, false),
					gen.NSet("p", gen.NBin("+", id("p"), i(1)))}),
					gen.NCall("probe", gen.NStr("after"), id("l")))
				judge(t, "iter-mutation", sem.NewCase(gen.FixAll(prog)), fmt.Sprintf("itermut/%d/%d/%s", via, off, op), true, "mutation-during-iteration")
				n++
			}
		}
	}
	// rows: the loop variable is itself a list that is written through; a later row is replaced while iterating
	progs := [][]*gen.Node{
		{gen.NSet("rows", gen.NList(gen.NList(i(1)), gen.NList(i(1)), gen.NList(i(1)))), gen.NSet("p", i(0)),
			gen.NForIn("r", id("rows"), []*gen.Node{gen.NAssign("+=", []*gen.Node{gen.NIndex(id("r"), i(0))}, []*gen.Node{id("p")}),
				gen.NIf([]*gen.Node{gen.NBin("==", id("p"), i(0))}, [][]*gen.Node{{gen.NAssign("=", []*gen.Node{gen.NIndex(id("rows"), i(2))}, []*gen.Node{gen.NList(i(50))})}}, nil, false),
				gen.NSet("p", gen.NBin("+", id("p"), i(1)))}), gen.NCall("probe", gen.NStr("rows"), id("rows"))},
		{gen.NSet("l", gen.NList(i(1), i(2), i(3))), gen.NSet("s", gen.NSlice(id("l"), nil, nil, nil, false)),
			gen.NForIn("x", id("l"), []*gen.Node{gen.NAssign("=", []*gen.Node{gen.NIndex(id("s"), i(2))}, []*gen.Node{i(9)}), gen.NCall("probe", gen.NStr("x"), id("x"))}), gen.NCall("probe", gen.NStr("l-s"), id("l"), id("s"))},
	}
	for k, p := range progs {
		judge(t, "iter-mutation", sem.NewCase(gen.FixAll(p)), fmt.Sprintf("itermut/rows/%d", k), true, "mutation-during-iteration")
		n++
	}
	evid.Exhaustive("write to a later position during for-in: via x offset x operator; rows", n)
}

// TestSharedSubvalues: a finite value in which one collection is reachable along two paths is an ordinary value:
// copied into the point it is the JSON text of the whole value, it compares, measures and iterates like any other.
func TestSharedSubvalues(t *testing.T) {
	uses := []struct {
		name string
		mk   func() []*gen.Node
	}{
		{"add_key", func() []*gen.Node { return []*gen.Node{gen.NCall("add_key", id("snap"), id("v"))} }},
		{"add_key-then-write", func() []*gen.Node {
			return []*gen.Node{gen.NCall("add_key", id("snap"), id("v")), gen.NCall("add_key", id("snap2"), id("leaf"))}
		}},
		{"probe", func() []*gen.Node {
			return []*gen.Node{gen.NCall("probe", gen.NStr("v"), id("v"), gen.NCall("len", id("v")))}
		}},
		{"equal", func() []*gen.Node {
			return []*gen.Node{gen.NSet("w", id("v")), gen.NCall("probe", gen.NStr("eq"), gen.NBin("==", id("v"), id("w")), gen.NBin("in", id("leaf"), id("v")))}
		}},
		{"for-in", func() []*gen.Node {
			return []*gen.Node{gen.NForIn("e", id("v"), []*gen.Node{gen.NCall("add_key", id("last"), id("e"))})}
		}},
	}
	n := 0
	for _, sv := range sgen.SharedValuePrograms() {
		for _, u := range uses {
			prog := append(sv.Make(), u.mk()...)
			judge(t, "shared-subvalue", sem.NewCase(gen.FixAll(prog)), "shared/"+sv.Name+"/"+u.name, true, "shared-subvalue")
			n++
		}
	}
	evid.Exhaustive("leaf kind x shape with one collection on two paths x use", n)
}

// TestCollectionVariableNames: a list or map is read and written through its variable whatever the variable is
// called: `_` (the spelling of the variable message), message, a back-quoted name, the name of a point key.
func TestCollectionVariableNames(t *testing.T) {
	n := 0
	for _, name := range []string{"_", "message", "a b", "k1", "é", "l"} {
		for _, mk := range []func() *gen.Node{
			func() *gen.Node { return gen.NList(gen.NInt(1), gen.NInt(2), gen.NInt(3)) },
			func() *gen.Node { return gen.NMap(gen.NStr("k"), gen.NList(gen.NInt(1))) },
		} {
			coll := mk()
			var key, key2 *gen.Node
			if coll.Kind == gen.List {
				key, key2 = gen.NInt(0), gen.NInt(-1)
			} else {
				key, key2 = gen.NStr("new"), gen.NStr("k")
			}
			for form := 0; form < 5; form++ {
				prog := []*gen.Node{gen.NSet(name, coll.Clone())}
				switch form {
				case 0:
					prog = append(prog, gen.NAssign("=", []*gen.Node{gen.NIndex(id(name), key.Clone())}, []*gen.Node{gen.NInt(9)}))
				case 1:
					if coll.Kind == gen.List {
						prog = append(prog, gen.NAssign("+=", []*gen.Node{gen.NIndex(id(name), key2.Clone())}, []*gen.Node{gen.NInt(5)}))
					} else {
						prog = append(prog, gen.NAssign("+=", []*gen.Node{gen.NIndex(id(name), key2.Clone(), gen.NInt(0))}, []*gen.Node{gen.NInt(5)}))
					}
				case 2: // written through the other spelling of the same variable
					other := name
					if name == "_" {
						other = "message"
					} else if name == "message" {
						other = "_"
					}
					prog = append(prog, gen.NAssign("=", []*gen.Node{gen.NIndex(id(other), key.Clone())}, []*gen.Node{gen.NStr("w")}))
				case 3: // inside a block
					prog = append(prog, gen.NIf([]*gen.Node{gen.NBool(true)}, [][]*gen.Node{{gen.NAssign("=", []*gen.Node{gen.NIndex(id(name), key.Clone())}, []*gen.Node{gen.NInt(9)})}}, nil, false))
				default: // through an alias
					prog = append(prog, gen.NSet("al", id(name)), gen.NAssign("=", []*gen.Node{gen.NIndex(id("al"), key.Clone())}, []*gen.Node{gen.NInt(9)}))
				}
				prog = append(prog, gen.NCall("probe", gen.NStr("r"), id(name), gen.NIndex(id(name), key.Clone()), gen.NCall("len", id(name))), gen.NCall("add_key", id("snap"), id(name)))
				c := sem.NewCase(gen.FixAll(prog))
				c.Fields = map[string]any{"message": "the point's message", "k1": int64(5)}
				judge(t, "varnames", c, fmt.Sprintf("varnames/%s/%s/%d", name, coll.Kind, form), true, "collection-variable-names")
				n++
			}
		}
	}
	evid.Exhaustive("variable name x {list, map} x {write, compound write, other spelling, in a block, through an alias}", n)
}

// TestFailingPathsAsArguments: an index path that fails (out of range, wrongly typed key, an element that cannot be
// indexed) fails wherever it stands - also as the argument of len() and of the other builtins that take a value.
func TestFailingPathsAsArguments(t *testing.T) {
	paths := []func() *gen.Node{
		func() *gen.Node { return gen.NIndex(id("l"), gen.NInt(3)) },
		func() *gen.Node { return gen.NIndex(id("l"), gen.NInt(-4)) },
		func() *gen.Node { return gen.NIndex(id("l"), gen.NStr("k")) },
		func() *gen.Node { return gen.NIndex(id("m"), gen.NInt(0)) },
		func() *gen.Node { return gen.NIndex(id("m"), gen.NStr("a"), gen.NInt(5)) },
		func() *gen.Node { return gen.NIndex(id("l"), gen.NInt(0), gen.NInt(0)) },
		func() *gen.Node { return gen.NIndex(id("l"), gen.NBin("/", gen.NInt(1), id("z0"))) },
		// paths that do not fail: a missing map key is nil, an in-range element
		func() *gen.Node { return gen.NIndex(id("m"), gen.NStr("nokey")) },
		func() *gen.Node { return gen.NIndex(id("m"), gen.NStr("a")) },
		func() *gen.Node { return gen.NIndex(id("l"), gen.NInt(2)) },
	}
	uses := []func(p *gen.Node) []*gen.Node{
		func(p *gen.Node) []*gen.Node { return []*gen.Node{gen.NSet("n", gen.NCall("len", p)), gen.NCall("probe", gen.NStr("n"), id("n"))} },
		func(p *gen.Node) []*gen.Node { return []*gen.Node{gen.NCall("add_key", id("k"), gen.NCall("len", p))} },
		func(p *gen.Node) []*gen.Node { return []*gen.Node{gen.NCall("add_key", id("k"), p)} },
		func(p *gen.Node) []*gen.Node {
			return []*gen.Node{gen.NFor(gen.NSet("i", gen.NInt(0)), gen.NBin("<", id("i"), gen.NCall("len", p)), gen.NSet("i", gen.NBin("+", id("i"), gen.NInt(1))), []*gen.Node{gen.NCall("probe", gen.NStr("pass"), id("i"))})}
		},
		func(p *gen.Node) []*gen.Node { return []*gen.Node{gen.NIf([]*gen.Node{gen.NBin("==", gen.NCall("len", p), gen.NInt(0))}, [][]*gen.Node{{gen.NCall("probe", gen.NStr("empty"))}}, nil, false)} },
		func(p *gen.Node) []*gen.Node { return []*gen.Node{gen.NSet("d", gen.NCall("load_json", p))} },
		func(p *gen.Node) []*gen.Node { return []*gen.Node{gen.NSet("x", gen.NList(gen.NCall("len", gen.NList(p))))} },
	}
	n := 0
	for pi, mk := range paths {
		for ui, u := range uses {
			prog := []*gen.Node{gen.NSet("l", gen.NList(gen.NInt(1), gen.NStr("two"), gen.NList(gen.NInt(3)))), gen.NSet("m", gen.NMap(gen.NStr("a"), gen.NList(gen.NInt(1)))), gen.NSet("z0", gen.NInt(0)), gen.NCall("probe", gen.NStr("before"))}
			prog = append(prog, u(mk())...)
			prog = append(prog, gen.NCall("probe", gen.NStr("after")))
			judge(t, "failing-paths", sem.NewCase(gen.FixAll(prog)), fmt.Sprintf("failingpaths/%d/%d", pi, ui), true, "failing-path-as-argument")
			n++
		}
	}
	evid.Exhaustive("index path (failing and not) x builtin / construct that takes it as an argument", n)
}

// TestTargetResolvedAfterSource (v1): the container an index target writes into is the one its root name designates
// when the right side has been evaluated - a named argument on the right side is an assignment and may rebind it.
func TestTargetResolvedAfterSource(t *testing.T) {
	named := func(nm string, v *gen.Node) *gen.Node { return gen.NAssign("=", []*gen.Node{id(nm)}, []*gen.Node{v}) }
	progs := [][]*gen.Node{
		{gen.NSet("l", gen.NList(gen.NInt(1), gen.NInt(2))), gen.NSet("m", gen.NList(gen.NInt(7), gen.NInt(8))), gen.NAssign("=", []*gen.Node{gen.NIndex(id("l"), gen.NInt(0))}, []*gen.Node{gen.NCall("len", named("l", id("m")))}), gen.NCall("probe", gen.NStr("r"), id("l"), id("m"))},
		{gen.NSet("a", gen.NList(gen.NInt(1), gen.NInt(2))), gen.NSet("b", gen.NList(gen.NInt(5), gen.NInt(6))), gen.NSet("keep", id("a")), gen.NAssign("+=", []*gen.Node{gen.NIndex(id("a"), gen.NInt(1))}, []*gen.Node{gen.NCall("len", named("a", id("b")))}), gen.NCall("probe", gen.NStr("r"), id("a"), id("b"), id("keep"))},
		{gen.NAssign("=", []*gen.Node{gen.NIndex(id("q"), gen.NInt(0))}, []*gen.Node{gen.NCall("len", named("q", gen.NList(gen.NInt(5), gen.NInt(6))))}), gen.NCall("probe", gen.NStr("q"), id("q"))},
		{gen.NSet("x", gen.NCall("len", named("q", gen.NList(gen.NInt(5), gen.NInt(6))))), gen.NCall("probe", gen.NStr("x"), id("x"), id("q"))},
		{gen.NSet("mm", gen.NMap(gen.NStr("k"), gen.NInt(1))), gen.NSet("nn", gen.NMap()), gen.NAssign("=", []*gen.Node{gen.NIndex(id("mm"), gen.NStr("new"))}, []*gen.Node{gen.NCall("len", named("mm", id("nn")))}), gen.NCall("probe", gen.NStr("r"), id("mm"), id("nn"))},
		{gen.NSet("l", gen.NList(gen.NInt(1))), gen.NIf([]*gen.Node{gen.NBool(true)}, [][]*gen.Node{{gen.NAssign("=", []*gen.Node{gen.NIndex(id("l"), gen.NInt(0))}, []*gen.Node{gen.NCall("len", named("l", gen.NList(gen.NInt(0), gen.NInt(0), gen.NInt(0))))})}}, nil, false), gen.NCall("probe", gen.NStr("l"), id("l"))},
	}
	for i, p := range progs {
		judge(t, "target-after-source", sem.NewCase(gen.FixAll(p)), fmt.Sprintf("targetaftersource/%d", i), true, "target-resolved-after-source")
	}
	evid.Exhaustive("index writes whose right side rebinds the root of the target through a named argument", len(progs))
}

// TestCollectionsOutliveTheirBlock: a list or map created under a block-local name and stored into an outer
// container (or assigned to an outer variable, or aliasing an outer list) stays what it is after the block has
// ended, whatever collections are created afterwards.
func TestCollectionsOutliveTheirBlock(t *testing.T) {
	i := func(v int64) *gen.Node { return gen.NInt(v) }
	later := func() []*gen.Node {
		return []*gen.Node{gen.NSet("z1", gen.NList(i(7), i(8), i(9))), gen.NSet("z2", gen.NList(i(70), i(80))), gen.NSet("z3", gen.NList(i(700))), gen.NSet("z4", gen.NMap(gen.NStr("z"), i(1))),
			gen.NAssign("=", []*gen.Node{gen.NIndex(id("z1"), i(0))}, []*gen.Node{i(-1)}), gen.NAssign("=", []*gen.Node{gen.NIndex(id("z2"), i(0))}, []*gen.Node{i(-2)})}
	}
	blocks := []func(body []*gen.Node) *gen.Node{
		func(b []*gen.Node) *gen.Node {
			return gen.NIf([]*gen.Node{gen.NBool(true)}, [][]*gen.Node{b}, nil, false)
		},
		func(b []*gen.Node) *gen.Node {
			return gen.NIf([]*gen.Node{gen.NBool(false)}, [][]*gen.Node{{gen.NSet("u", i(0))}}, b, true)
		},
		func(b []*gen.Node) *gen.Node { return gen.NForIn("it", gen.NList(i(0), i(1), i(2)), b) },
		func(b []*gen.Node) *gen.Node {
			return gen.NFor(gen.NSet("it", i(0)), gen.NBin("<", id("it"), i(3)), gen.NSet("it", gen.NBin("+", id("it"), i(1))), b)
		},
	}
	bodies := []func() []*gen.Node{
		// stored into a slot of an outer list
		func() []*gen.Node {
			return []*gen.Node{gen.NSet("loc", gen.NList(id("it2"), gen.NBin("*", id("it2"), i(10)), i(3))), gen.NAssign("=", []*gen.Node{gen.NIndex(id("out"), id("it2"))}, []*gen.Node{id("loc")}), gen.NSet("it2", gen.NBin("+", id("it2"), i(1)))}
		},
		// stored into a map slot, and the local is written to afterwards
		func() []*gen.Node {
			return []*gen.Node{gen.NSet("loc", gen.NList(i(1), i(2), i(3))), gen.NAssign("=", []*gen.Node{gen.NIndex(id("box"), gen.NStr("k"))}, []*gen.Node{id("loc")}), gen.NAssign("=", []*gen.Node{gen.NIndex(id("loc"), i(0))}, []*gen.Node{i(100)})}
		},
		// assigned to an existing outer variable
		func() []*gen.Node {
			return []*gen.Node{gen.NSet("loc", gen.NList(i(4), i(5))), gen.NSet("keep", id("loc")), gen.NSet("loc2", gen.NMap(gen.NStr("m"), gen.NList(i(6)))), gen.NSet("keepm", id("loc2"))}
		},
		// the local only aliases an outer list
		func() []*gen.Node {
			return []*gen.Node{gen.NSet("loc", id("outer")), gen.NAssign("=", []*gen.Node{gen.NIndex(id("loc"), i(1))}, []*gen.Node{i(55)})}
		},
	}
	n := 0
	for bi, blk := range blocks {
		for wi, body := range bodies {
			prog := []*gen.Node{gen.NSet("out", gen.NList(gen.NNil(), gen.NNil(), gen.NNil(), gen.NNil())), gen.NSet("box", gen.NMap()), gen.NSet("keep", gen.NNil()), gen.NSet("keepm", gen.NNil()), gen.NSet("outer", gen.NList(i(1), i(2), i(3))), gen.NSet("it2", i(0)),
				blk(body())}
			prog = append(prog, gen.NCall("probe", gen.NStr("right-after"), id("out"), id("box"), id("keep"), id("keepm"), id("outer")))
			prog = append(prog, later()...)
			prog = append(prog, gen.NCall("probe", gen.NStr("after-more-literals"), id("out"), id("box"), id("keep"), id("keepm"), id("outer"), id("z1"), id("z2")))
			judge(t, "outlive", sem.NewCase(gen.FixAll(prog)), fmt.Sprintf("outlive/%d/%d", bi, wi), true, "collection-outlives-block")
			n++
		}
	}
	evid.Exhaustive("block kind x way the block-local collection stays reachable", n)
}

// TestNilBounds: a slice bound that evaluates to nil - the literal, a variable holding nil, a name that is not
// defined, a missing key - is treated as omitted or is an error (open row), for every bound position and step sign.
func TestNilBounds(t *testing.T) {
	nils := []func() (pre []*gen.Node, b *gen.Node){
		func() ([]*gen.Node, *gen.Node) { return nil, gen.NNil() },
		func() ([]*gen.Node, *gen.Node) { return []*gen.Node{gen.NSet("nv", gen.NNil())}, id("nv") },
		func() ([]*gen.Node, *gen.Node) { return nil, id("never_assigned") },
		func() ([]*gen.Node, *gen.Node) { return nil, gen.NCall("get_key", gen.NStr("no_such_key")) },
	}
	subj := []any{[]any{int64(1), int64(2), int64(3), int64(4), int64(5)}, "hello", []any{}, ""}
	ints := []*gen.Node{nil, gen.NInt(0), gen.NInt(2), gen.NInt(-1), gen.NInt(-2), gen.NInt(1)}
	n := 0
	for ni, mk := range nils {
		for si, sv := range subj {
			for pos := 0; pos < 7; pos++ { // bit0: start is nil, bit1: end is nil, bit2: step is nil
				p := pos + 1
				for oi, other := range ints {
					if (ni+si+p+oi)%evid.NShards() != evid.Shard() {
						continue
					}
					var pre []*gen.Node
					bound := func(isNil bool) *gen.Node {
						if isNil {
							q, b := mk()
							pre = append(pre, q...)
							return b
						}
						if other == nil {
							return nil
						}
						return other.Clone()
					}
					lo, hi, st := bound(p&1 != 0), bound(p&2 != 0), bound(p&4 != 0)
					if st != nil && st.Kind == gen.Int && st.I == 0 {
						st = gen.NInt(1)
					}
					prog := append([]*gen.Node{gen.NSet("x", sgen.Lit(sv))}, pre...)
					prog = append(prog, gen.NCall("probe", gen.NStr("r"), gen.NSlice(id("x"), lo, hi, st, st != nil || oi%2 == 0)), gen.NCall("probe", gen.NStr("len"), gen.NCall("len", gen.NSlice(id("x"), lo, hi, st, st != nil))))
					judge(t, "nil-bounds", sem.NewCase(gen.FixAll(gen.CloneProg(prog))), fmt.Sprintf("nilbound/%d/%d/%d/%d", ni, si, p, oi), true, "nil-valued-bound")
					n++
				}
			}
		}
	}
	evid.Exhaustive("nil delivery x subject x nil positions x other bounds", n)
}

func TestReplays(t *testing.T) {
	files, _ := filepath.Glob(filepath.Join(evid.Dir(), "replays", prop, "*.json"))
	if r := os.Getenv("VERIF_REPLAY"); r != "" {
		files = []string{r}
	}
	for _, f := range files {
		b, err := os.ReadFile(f)
		if err != nil {
			continue
		}
		var r struct {
			Case sem.Replay `json:"case"`
		}
		if json.Unmarshal(b, &r) != nil || len(r.Case.Texts) == 0 {
			continue
		}
		t.Run(filepath.Base(f), func(t *testing.T) {
			c, err := sem.FromReplay(r.Case)
			if err != nil {
				t.Skipf("replay not loadable: %v", err)
			}
			v := sem.Decide(c, func() sem.ImplOut { return sem.RunV1(c, 0) }, nil, true, true)
			if v.Msg != "" {
				rk.Fail(t, "replay", r.Case, "%s\nscript: %q", v.Msg, c.Texts[c.Root])
			}
			evid.Case("replay:"+c.Texts[c.Root], true, "replay")
		})
	}
}
