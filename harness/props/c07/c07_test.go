package c07

import (
	"errors"
	"github.com/GuanceCloud/platypus/pkg/errchain"
	"encoding/json"
	"fmt"
	"math"
	"os"
	"path/filepath"
	"strconv"
	"strings"
	"sync"
	"testing"
	"unicode/utf8"

	"github.com/GuanceCloud/platypus/pkg/parser"
	"pgregory.net/rapid"
	"verifharness/conv"
	"verifharness/evid"
	"verifharness/gen"
	"verifharness/impl"
	"verifharness/rk"
)

const prop = "C07"

func TestMain(m *testing.M) {
	evid.Init(prop, "exploration",
		"literal spellings: (1) exhaustively every body of length 0..L (L=4 quick, 5 thorough) over the alphabet {a \" ' \\ LF NUL é n x 0 u {} inside the five quoting forms; (2) random bodies of up to 12 escape-form fragments (valid, truncated, out-of-range, surrogate); (3) random byte-string values printed by four independent encoders and back-quoted identifiers; (4) integers at every power of two and ten +-1 up to 2^64, decimal and hex, signed and unsigned; (5) random float64 bit patterns printed in g/e/f formats and the forms 1. 1e5 1E+5; (6) keywords true/false/nil/null in every letter-case pattern. Oracle: a reference decoder written from Go's escape rules (self-checked against strconv.Unquote on the double-quoted subset): accepted spellings must parse to exactly the denoted byte string, rejected ones must be rejected; numbers: int64 exact up to MaxInt64, otherwise strconv.ParseFloat's nearest float64, sign negates. Non-trivial: spelling has an escape, a multi-byte rune, a quote of the other kind or a line break; numeric boundary cases; distinct by spelling.",
		"source text is valid UTF-8 (the property's precondition)",
		"triple-quoted bodies that contain or touch quote characters, raw NUL bytes and the empty back-quoted identifier get the weak oracle {rejected, exact value}: the reference does not define them",
		"leading-zero decimals (017) are not generated: the reference documents plain decimal only")
	impl.DisturbEvery = 3 // every third parse/load is preceded by a parse of an unrelated malformed text
	code := m.Run()
	evid.Flush(code == 0)
	os.Exit(code)
}

// ------------------------------------------------------------ reference decoder

func hexv(c byte) int {
	switch {
	case c >= '0' && c <= '9':
		return int(c - '0')
	case c >= 'a' && c <= 'f':
		return int(c-'a') + 10
	case c >= 'A' && c <= 'F':
		return int(c-'A') + 10
	}
	return -1
}

// decode interprets the body of a single-line quoted literal under Go's escape
// rules with q as the only quote that may (and must) be escaped.
func decode(body string, q byte) (string, bool) {
	var out []byte
	for i := 0; i < len(body); {
		c := body[i]
		if c == q || c == '\n' {
			return "", false
		}
		if c != '\\' {
			out = append(out, c)
			i++
			continue
		}
		if i+1 >= len(body) {
			return "", false
		}
		e := body[i+1]
		i += 2
		hexN := func(n int) (int64, bool) {
			if i+n > len(body) {
				return 0, false
			}
			var v int64
			for k := 0; k < n; k++ {
				h := hexv(body[i+k])
				if h < 0 {
					return 0, false
				}
				v = v<<4 | int64(h)
			}
			i += n
			return v, true
		}
		switch e {
		case 'a':
			out = append(out, 7)
		case 'b':
			out = append(out, 8)
		case 'f':
			out = append(out, 12)
		case 'n':
			out = append(out, 10)
		case 'r':
			out = append(out, 13)
		case 't':
			out = append(out, 9)
		case 'v':
			out = append(out, 11)
		case '\\':
			out = append(out, '\\')
		case '"', '\'':
			if e != q {
				return "", false
			}
			out = append(out, e)
		case 'x':
			v, ok := hexN(2)
			if !ok {
				return "", false
			}
			out = append(out, byte(v))
		case 'u', 'U':
			n := 4
			if e == 'U' {
				n = 8
			}
			v, ok := hexN(n)
			if !ok || v > utf8.MaxRune || (v >= 0xD800 && v < 0xE000) {
				return "", false
			}
			out = utf8.AppendRune(out, rune(v))
		case '0', '1', '2', '3', '4', '5', '6', '7':
			if i+2 > len(body) {
				return "", false
			}
			v := int(e - '0')
			for k := 0; k < 2; k++ {
				d := body[i+k]
				if d < '0' || d > '7' {
					return "", false
				}
				v = v*8 + int(d-'0')
			}
			i += 2
			if v > 255 {
				return "", false
			}
			out = append(out, byte(v))
		default:
			return "", false
		}
	}
	return string(out), true
}

type verdict int

const (
	vReject verdict = iota // must be rejected
	vAccept                // must be accepted with exactly Value
	vWeak                  // {rejected, exactly Value}
	vSkip                  // not a single literal: no expectation
)

type expect struct {
	V     verdict
	Value string
}

// classifyQuoted gives the expectation for text q+body+q offered as one literal.
func classifyQuoted(body string, q byte) expect {
	// does an unescaped quote end the literal early, or is the closing quote escaped?
	for i := 0; i < len(body); i++ {
		switch body[i] {
		case '\\':
			i++
			if i >= len(body) { // the closing quote is escaped: unterminated
				return expect{V: vReject}
			}
		case q:
			return expect{V: vSkip}
		case '\n':
			return expect{V: vReject} // raw line break in a single-line form
		}
	}
	v, ok := decode(body, q)
	if !ok {
		return expect{V: vReject}
	}
	if strings.IndexByte(body, 0) >= 0 {
		return expect{V: vWeak, Value: v}
	}
	return expect{V: vAccept, Value: v}
}

func classifyTriple(body string) expect {
	if strings.ContainsAny(body, "\"'") {
		return expect{V: vWeak, Value: body}
	}
	if strings.IndexByte(body, 0) >= 0 {
		return expect{V: vWeak, Value: body}
	}
	return expect{V: vAccept, Value: body}
}

func classifyBackquote(body string) expect {
	if strings.Contains(body, "`") {
		return expect{V: vSkip}
	}
	if body == "" || strings.IndexByte(body, 0) >= 0 {
		return expect{V: vWeak, Value: body}
	}
	return expect{V: vAccept, Value: body}
}

// ------------------------------------------------------------ observation

type replay struct {
	Src    string `json:"src"`
	Expect string `json:"expect"`
	Value  string `json:"value,omitempty"`
	ValHex string `json:"value_hex,omitempty"`
	Kind   string `json:"kind"`
}

// observe parses src (one assignment `x = <lit>` or `<ident> = 1`) and returns the
// literal node found (nil if rejected) and the statement count.
func observe(src string, ident bool) (*gen.Node, int, string) {
	stmts, err, crash := impl.Parse("c07.p", src)
	if crash != nil {
		return nil, 0, "parser panicked: " + crash.Value
	}
	if err != nil {
		return nil, 0, ""
	}
	tree, c := conv.Stmts(stmts)
	if c.Err != nil {
		return nil, 0, "malformed tree: " + c.Err.Error()
	}
	if len(tree) == 0 {
		return nil, 0, ""
	}
	last := tree[len(tree)-1] // the literal under test sits in the last statement (earlier ones are context)
	if last == nil || last.Kind != gen.Assign || len(last.Args) != 1 || len(last.Rhs) != 1 {
		return nil, len(tree), ""
	}
	if ident {
		return last.Args[0], len(tree), ""
	}
	return last.Rhs[0], len(tree), ""
}

func judgeString(t rk.Failer, slot, kind, src string, ex expect, ident bool, nontrivial bool) {
	if ex.V == vSkip {
		evid.Discard("not-a-single-literal")
		return
	}
	node, nst, bad := observe(src, ident)
	rp := replay{Src: src, Kind: kind, Value: ex.Value, ValHex: fmt.Sprintf("%x", ex.Value)}
	if bad != "" {
		rp.Expect = "no crash"
		rk.Fail(t, slot, rp, "%s\nsource: %q", bad, src)
	}
	wantKind := gen.Str
	if ident {
		wantKind = gen.Ident
	}
	val := func() (string, bool) {
		if node == nil || node.Kind != wantKind {
			return "", false
		}
		if ident {
			return node.Name, true
		}
		return node.S, true
	}
	switch ex.V {
	case vReject:
		if node != nil || nst > 0 {
			got, _ := val()
			rp.Expect = "rejected"
			rk.Fail(t, slot, rp, "malformed %s spelling was accepted (value %q)\nsource: %q", kind, got, src)
		}
	case vAccept:
		got, ok := val()
		rp.Expect = "accepted"
		if !ok {
			rk.Fail(t, slot, rp, "valid %s spelling was not parsed to a literal (want %q)\nsource: %q", kind, ex.Value, src)
		}
		if got != ex.Value {
			rk.Fail(t, slot, rp, "%s spelling denotes %q (% x) but parsed to %q (% x)\nsource: %q", kind, ex.Value, ex.Value, got, got, src)
		}
	case vWeak:
		// the weak expectation only applies when the lexer takes the whole spelling as ONE literal token
		// (a body with quote characters may end the literal early and continue as other tokens or a comment)
		if nst == 1 && singleLiteralToken(src) {
			if got, ok := val(); ok && got != ex.Value {
				rp.Expect = "rejected-or-exact"
				rk.Fail(t, slot, rp, "%s spelling parsed to a wrong value %q, want rejection or %q\nsource: %q", kind, got, ex.Value, src)
			}
		}
		nontrivial = false
	}
	evid.Case(src, nontrivial, kind+"/"+[]string{"reject", "accept", "weak", "skip"}[ex.V])
	if nontrivial {
		evid.Sample(map[string]any{"kind": kind, "src": src, "expect": []string{"rejected", "accepted", "weak"}[ex.V], "value": ex.Value})
	}
}

// singleLiteralToken: the source lexes to exactly three tokens (two for the literal and its partner, one operator) and nothing else.
func singleLiteralToken(src string) (single bool) {
	defer func() {
		if recover() != nil {
			single = false
		}
	}()
	l := parser.Lex(src)
	var it parser.Item
	n := 0
	for i := 0; i <= len(src)+1; i++ {
		l.NextItem(&it)
		if it.Typ == parser.EOF {
			return n == 3
		}
		if it.Typ == parser.ERROR || it.Typ == parser.COMMENT {
			return false
		}
		n++
	}
	return false
}

func interesting(body string, q byte) bool {
	other := byte('\'')
	if q == '\'' {
		other = '"'
	}
	return strings.ContainsAny(body, "\\\n") || strings.IndexByte(body, other) >= 0 || !isASCII(body)
}

func isASCII(s string) bool {
	for i := 0; i < len(s); i++ {
		if s[i] >= 0x80 {
			return false
		}
	}
	return true
}

// checkBody runs one body through the five quoting forms.
// contexts: statements that precede the literal under test in the same script (literals of the other kinds: what a
// literal denotes does not depend on the tokens before it).
var contexts = []string{"`k q` = 1\n", "z = 'single \\' one'\n", "z = \"double \\\" one\"\n", "z = \"\"\"triple\nbody\"\"\"\n", "z = '''tri \"\" ple'''\n", "# a comment with ` ' \" quotes\n", "a.`b c` = [1, \"x\"]\n"}

var ctxTurn int

func checkBody(t rk.Failer, slot, body string) {
	ctxTurn++
	if ctxTurn%4 == 0 {
		// every fourth body also after a context statement
		ctx := contexts[(ctxTurn/4)%len(contexts)]
		judgeString(t, slot, "double-after-context", ctx+"x = \""+body+"\"", classifyQuoted(body, '"'), false, interesting(body, '"'))
		judgeString(t, slot, "single-after-context", ctx+"x = '"+body+"'", classifyQuoted(body, '\''), false, interesting(body, '\''))
		judgeString(t, slot, "backquote-after-context", ctx+"`"+body+"` = 1", classifyBackquote(body), true, interesting(body, 0))
	}
	if ctxTurn%4 == 1 && !strings.Contains(body, "`") && body != "" {
		// the same characters as a back-quoted name (raw) and as a quoted literal (escapes decoded) in one script:
		// each keeps its own meaning, whichever comes first
		judgeString(t, slot, "double-after-same-body-name", "`"+body+"` = 1\nx = \""+body+"\"", classifyQuoted(body, '"'), false, interesting(body, '"'))
		judgeString(t, slot, "single-after-same-body-name", "`"+body+"` = 1\nx = '"+body+"'", classifyQuoted(body, '\''), false, interesting(body, '\''))
		if classifyQuoted(body, '"').V == vAccept && !strings.Contains(body, "\n") {
			judgeString(t, slot, "name-after-same-body-double", "x = \""+body+"\"\n`"+body+"` = 1", classifyBackquote(body), true, interesting(body, 0))
		}
		if classifyQuoted(body, '\'').V == vAccept && !strings.Contains(body, "\n") {
			judgeString(t, slot, "name-after-same-body-single", "x = '"+body+"'\n`"+body+"` = 1", classifyBackquote(body), true, interesting(body, 0))
		}
	}
	judgeString(t, slot, "double", "x = \""+body+"\"", classifyQuoted(body, '"'), false, interesting(body, '"'))
	judgeString(t, slot, "single", "x = '"+body+"'", classifyQuoted(body, '\''), false, interesting(body, '\''))
	judgeString(t, slot, "triple-double", "x = \"\"\""+body+"\"\"\"", classifyTriple(body), false, interesting(body, 0))
	judgeString(t, slot, "triple-single", "x = '''"+body+"'''", classifyTriple(body), false, interesting(body, 0))
	judgeString(t, slot, "backquote", "`"+body+"` = 1", classifyBackquote(body), true, interesting(body, 0))
}

// ------------------------------------------------------------ tests

func TestDecoderSelfCheck(t *testing.T) {
	// the oracle itself agrees with strconv.Unquote on double-quoted spellings
	rk.Check(t, "selfcheck", 9, evid.Scale(3000, 20000), func(t *rapid.T) {
		body := genBody(t)
		if !utf8.ValidString(body) || strings.ContainsRune(body, utf8.RuneError) {
			return
		}
		ex := classifyQuoted(body, '"')
		if ex.V == vSkip {
			return
		}
		g, err := strconv.Unquote("\"" + body + "\"")
		mine := ex.V == vAccept || ex.V == vWeak
		if mine != (err == nil) || (mine && g != ex.Value) {
			t.Fatalf("harness bug: reference decoder disagrees with strconv.Unquote on %q: mine=%v %q, strconv=%v %q", body, mine, ex.Value, err, g)
		}
	})
}

var alpha = []string{"a", "\"", "'", "\\", "\n", "\x00", "é", "n", "x", "0", "u", "{", "\r"}

func TestExhaustiveStrings(t *testing.T) {
	L := evid.Scale(5, 6)
	idx := 0
	total := 0
	var rec func(prefix string, depth int)
	rec = func(prefix string, depth int) {
		if idx%evid.NShards() == evid.Shard() {
			checkBody(t, "exhaustive", prefix)
			total++
		}
		idx++
		if depth == L {
			return
		}
		for _, a := range alpha {
			rec(prefix+a, depth+1)
		}
	}
	rec("", 0)
	evid.Exhaustive(fmt.Sprintf("string-bodies-len<=%d-x5-forms", L), total*5)
}

var frags = []string{
	"a", "Z", " ", "é", "👍", "�", "\"", "'", "`", "\n", "\t", "\x00", "#", "{", "%",
	`\a`, `\b`, `\f`, `\n`, `\r`, `\t`, `\v`, `\\`, `\"`, `\'`, "\\`",
	`\0`, `\7`, `\00`, `\000`, `\101`, `\377`, `\400`, `\777`, `\08`, `\8`,
	`\x`, `\x4`, `\x41`, `\xff`, `\xFF`, `\xg1`, `\X41`,
	`\u`, `\u00e`, `\u00e9`, `\u00E9`, `\ud800`, `\udfff`, `\uffff`, `\ufffd`,
	`\U`, `\U0001F44`, `\U0001F44D`, `\U0010FFFF`, `\U00110000`, `\UFFFFFFFF`, `\U0000D800`,
	`\q`, `\ `, `\é`, "\\\n", "\\",
}

func genBody(t *rapid.T) string {
	n := rapid.IntRange(0, 12).Draw(t, "nfrag")
	var b strings.Builder
	for i := 0; i < n; i++ {
		b.WriteString(frags[rapid.IntRange(0, len(frags)-1).Draw(t, "frag")])
	}
	return b.String()
}

func TestRandomSpellings(t *testing.T) {
	rk.Check(t, "spellings", 1, evid.Scale(8000, 120000), func(t *rapid.T) {
		checkBody(t, "spellings", genBody(t))
	})
}

func genValue(t *rapid.T) string {
	if rapid.Bool().Draw(t, "unicode") {
		return rapid.StringOfN(rapid.RuneFrom([]rune("ab \"'`\\\n\t\x00é👍�{}%#$")), 0, 20, -1).Draw(t, "uval")
	}
	return string(rapid.SliceOfN(rapid.Byte(), 0, 16).Draw(t, "bval"))
}

func TestValueRoundTrip(t *testing.T) {
	rk.Check(t, "values", 2, evid.Scale(6000, 100000), func(t *rapid.T) {
		v := genValue(t)
		nt := interesting(v, 0)
		acc := expect{V: vAccept, Value: v}
		judgeString(t, "values", "enc-double", "x = "+gen.QuoteDouble(v), acc, false, nt)
		judgeString(t, "values", "enc-single", "x = "+gen.QuoteSingle(v), acc, false, nt)
		if utf8.ValidString(v) {
			judgeString(t, "values", "enc-strconv", "x = "+strconv.Quote(v), acc, false, nt)
			judgeString(t, "values", "enc-ascii", "x = "+strconv.QuoteToASCII(v), acc, false, nt)
			if raw, ok := gen.TripleQuote(v, '"'); ok && strings.IndexByte(v, 0) < 0 {
				judgeString(t, "values", "enc-triple", "x = "+raw, acc, false, nt)
			}
			if raw, ok := gen.TripleQuote(v, '\''); ok && strings.IndexByte(v, 0) < 0 {
				judgeString(t, "values", "enc-triple1", "x = "+raw, acc, false, nt)
			}
			if v != "" && !strings.ContainsAny(v, "`\x00") {
				judgeString(t, "values", "enc-backquote", "`"+v+"` = 1", acc, true, nt)
			}
		}
	})
}

// ------------------------------------------------------------ numbers

type numExpect struct {
	isInt   bool
	i       int64
	f       float64
	reject  bool // must be rejected
	weak    bool // {rejected, float f}
	paren   bool // the literal is parenthesised: fold before comparing
	weakInt bool // {rejected, int i}
}

func judgeNumber(t rk.Failer, slot, spelling, sign string, ex numExpect, nontrivial bool) {
	src := "x = " + sign + spelling
	node, _, bad := observe(src, false)
	rp := replay{Src: src, Kind: "number"}
	if bad != "" {
		rk.Fail(t, slot, rp, "%s\nsource: %q", bad, src)
	}
	neg := strings.Count(sign, "-")%2 == 1
	if node != nil && (len(strings.TrimSpace(sign)) > 1 || ex.paren) {
		node = gen.Fold(gen.StripParens(node.Clone())) // several signs / parentheses: the value of the whole operand
	}
	if ex.reject {
		if node != nil {
			rk.Fail(t, slot, rp, "malformed number %q was accepted as %s", src, node.Shape())
		}
		evid.Case(src, nontrivial, "number/reject")
		return
	}
	if node == nil {
		if ex.weak || ex.weakInt {
			evid.Case(src, false, "number/weak-rejected")
			return
		}
		rk.Fail(t, slot, rp, "numeric literal was rejected\nsource: %q", src)
	}
	if ex.isInt {
		want := ex.i
		if neg {
			want = -want
		}
		rp.Expect = fmt.Sprint("int ", want)
		if node.Kind != gen.Int || node.I != want {
			rk.Fail(t, slot, rp, "integer literal %q parsed to %s, want int %d", src, node.Shape(), want)
		}
	} else {
		want := ex.f
		if neg {
			want = -want
		}
		rp.Expect = fmt.Sprint("float ", want)
		same := node.Kind == gen.Float && (math.Float64bits(node.F) == math.Float64bits(want) || (math.IsNaN(node.F) && math.IsNaN(want)))
		if !same {
			rk.Fail(t, slot, rp, "numeric literal %q parsed to %s, want float %v (bits %x)", src, node.Shape(), want, math.Float64bits(want))
		}
	}
	lab := "number/float"
	if ex.isInt {
		lab = "number/int"
	}
	evid.Case(src, nontrivial, lab)
	if nontrivial {
		evid.Sample(map[string]any{"kind": "number", "src": src, "expect": rp.Expect})
	}
}

// TestLongLiterals: literal bodies of 255 .. 70000 bytes built from repeated fragments (plain text, escapes of every
// kind, multi-byte characters), in all five quoting forms; numerals of hundreds of digits.
func TestLongLiterals(t *testing.T) {
	frs := []string{"a", "ab ", "\\n", "\\x41", "\\u00e9", "\\U0001F600", "\\101", "\\\\", "é", "注", "\U0001F600", "\\t\\\"", "a\\'b", "\ufffd", "\\ufffd"}
	n := 0
	for fi, fr := range frs {
		for li, ln := range []int{255, 256, 257, 4095, 4096, 4097, 65535, 65536, 65537, 70000} {
			if (fi+li)%evid.NShards() != evid.Shard() {
				continue
			}
			body := strings.Repeat(fr, ln/len(fr)+1)
			checkBody(t, "long", body)
			// a different fragment at the very end and at the very start
			checkBody(t, "long", body+"\\x5a")
			checkBody(t, "long", "\\x5a"+body)
			n += 3
		}
	}
	for _, digits := range []int{20, 21, 39, 100, 308, 309, 310, 400, 1000} {
		dec := "1" + strings.Repeat("0", digits-1)
		f, err := strconv.ParseFloat(dec, 64)
		for _, sign := range []string{"", "-"} {
			judgeNumber(t, "long", dec, sign, numExpect{f: f, weak: err != nil}, err == nil)
			judgeNumber(t, "long", "0."+strings.Repeat("0", digits)+"1", sign, numExpect{f: mustFloat("0." + strings.Repeat("0", digits) + "1")}, true)
			judgeNumber(t, "long", strings.Repeat("9", digits)+".5e-"+fmt.Sprint(digits), sign, numExpect{f: mustFloat(strings.Repeat("9", digits) + ".5e-" + fmt.Sprint(digits))}, true)
			n += 3
		}
	}
	evid.Exhaustive("fragment x body length 255..70000 x five quoting forms; numerals of 19..1000 digits", n)
}

func mustFloat(s string) float64 {
	f, _ := strconv.ParseFloat(s, 64)
	return f
}

func TestIntegerBoundaries(t *testing.T) {
	n := 0
	try := func(u uint64, over bool, dec string) {
		// u is the magnitude when !over; when over the decimal text dec exceeds uint64
		for _, sign := range []string{"", "-", "+"} {
			var ex numExpect
			if !over && u <= math.MaxInt64 {
				ex = numExpect{isInt: true, i: int64(u)}
			} else {
				f, _ := strconv.ParseFloat(dec, 64)
				ex = numExpect{f: f}
			}
			judgeNumber(t, "ints", dec, sign, ex, true)
			n++
			if !over {
				hex := "0x" + strconv.FormatUint(u, 16)
				hx := ex
				if !ex.isInt {
					hx = numExpect{f: float64(u), weak: true}
				}
				judgeNumber(t, "ints", hex, sign, hx, true)
				judgeNumber(t, "ints", "0X"+strings.ToUpper(strconv.FormatUint(u, 16)), sign, hx, true)
				n += 2
			}
		}
	}
	seen := map[uint64]bool{}
	add := func(u uint64) {
		if !seen[u] {
			seen[u] = true
			try(u, false, strconv.FormatUint(u, 10))
		}
	}
	for k := 0; k < 64; k++ {
		p := uint64(1) << uint(k)
		add(p - 1)
		add(p)
		add(p + 1)
	}
	add(math.MaxUint64)
	p10 := uint64(1)
	for k := 0; k < 20; k++ {
		add(p10 - 1)
		add(p10)
		add(p10 + 1)
		if k < 19 {
			p10 *= 10
		}
	}
	for _, dec := range []string{"18446744073709551616", "18446744073709551617", "99999999999999999999", "100000000000000000000", "340282366920938463463374607431768211456",
		"1" + strings.Repeat("0", 308), "1" + strings.Repeat("0", 309), "17976931348623157" + strings.Repeat("0", 292)} {
		f, err := strconv.ParseFloat(dec, 64)
		for _, sign := range []string{"", "-"} {
			if err != nil { // beyond float64 range: ParseFloat gives +-Inf with a range error; the reference says "nearest float64"
				judgeNumber(t, "ints", dec, sign, numExpect{f: f, weak: true}, false)
			} else {
				judgeNumber(t, "ints", dec, sign, numExpect{f: f}, true)
			}
			n++
		}
	}
	evid.Exhaustive("integer-boundaries", n)
}

func TestFloats(t *testing.T) {
	for _, c := range []struct {
		s string
		f float64
	}{{"1.", 1}, {"1e5", 1e5}, {"1E+5", 1e5}, {"1e-5", 1e-5}, {"0.5", 0.5}, {"1.5e3", 1500}, {"0.0", 0}, {"10.25", 10.25}, {"1E5", 1e5}, {"2.5E-3", 0.0025}, {"0e0", 0}, {"123456789.125", 123456789.125},
		// values at the integer boundaries written as floats, zeros in every spelling, underflow to zero, the largest finite values
		{"9223372036854775808.0", 9223372036854775808}, {"9.223372036854775808e18", 9223372036854775808}, {"9223372036854775807.0", 9223372036854775807}, {"18446744073709551616.0", 18446744073709551616},
		{"4294967296.0", 4294967296}, {"2147483648.0", 2147483648}, {"9007199254740993.0", 9007199254740992}, {"0.", 0}, {"0E+5", 0}, {"0.000", 0}, {"1e-400", 0}, {"0.1e-999", 0}, {"4.9e-324", 5e-324}, {"2.4e-324", 0},
		{"1.7976931348623157e308", math.MaxFloat64}, {"0.1", 0.1}, {"0.30000000000000004", 0.30000000000000004}, {"1e23", 1e23}, {"8.41e21", 8.41e21}} {
		for _, sign := range []string{"", "-", "+", "- -", "-+", "+-", "- - -", "-(", "--"} {
			if sign == "-(" {
				// a parenthesised literal under a sign
				judgeNumber(t, "floats", "("+c.s+")", "-", numExpect{f: c.f, weak: false, paren: true}, true)
				continue
			}
			if sign == "--" {
				continue // "--" is not an operator; covered by the malformed table of C05
			}
			judgeNumber(t, "floats", c.s, sign, numExpect{f: c.f}, true)
		}
	}
	rk.Check(t, "floats", 3, evid.Scale(6000, 100000), func(t *rapid.T) {
		var f float64
		if rapid.Bool().Draw(t, "bits") {
			f = math.Float64frombits(rapid.Uint64().Draw(t, "fbits"))
		} else {
			f = rapid.Float64().Draw(t, "fval")
		}
		if math.IsNaN(f) || math.IsInf(f, 0) {
			return
		}
		f = math.Abs(f)
		var s string
		switch rapid.IntRange(0, 3).Draw(t, "fmt") {
		case 0:
			s = strconv.FormatFloat(f, 'g', -1, 64)
		case 1:
			s = strconv.FormatFloat(f, 'e', -1, 64)
		case 2:
			s = strconv.FormatFloat(f, 'E', rapid.IntRange(0, 20).Draw(t, "prec"), 64)
		default:
			if f > 1e25 || (f != 0 && f < 1e-25) {
				s = strconv.FormatFloat(f, 'e', -1, 64)
			} else {
				s = strconv.FormatFloat(f, 'f', -1, 64)
			}
		}
		if !strings.ContainsAny(s, ".eE") {
			s += ".0"
		}
		want, err := strconv.ParseFloat(s, 64)
		if err != nil {
			return
		}
		sign := rapid.SampledFrom([]string{"", "-", "+"}).Draw(t, "sign")
		judgeNumber(t, "floats", s, sign, numExpect{f: want}, true)
	})
	for _, c := range []struct {
		s string
		f float64
	}{{"inf", math.Inf(1)}, {"Inf", math.Inf(1)}, {"nan", math.NaN()}, {"NaN", math.NaN()}} {
		judgeNumber(t, "floats", c.s, "", numExpect{f: c.f, weak: true}, false)
	}
}

// TestNumberAdjacency: a numeral directly followed by an operator and another operand, without blanks: the numeral
// ends where its spelling ends (a hexadecimal digit e / E is a digit, not an exponent mark; a complete exponent is
// not extended by a following sign).
func TestNumberAdjacency(t *testing.T) {
	type num struct {
		s     string
		isInt bool
		i     int64
		f     float64
	}
	nums := []num{{"0", true, 0, 0}, {"7", true, 7, 0}, {"0x1e", true, 30, 0}, {"0xE", true, 14, 0}, {"0xfe", true, 254, 0}, {"0XBE", true, 190, 0}, {"0x1e5", true, 0x1e5, 0}, {"0xee", true, 0xee, 0}, {"0xabcde", true, 0xabcde, 0},
		{"0x7ffffffffffffffe", true, 0x7ffffffffffffffe, 0}, {"1e5", false, 0, 1e5}, {"1E5", false, 0, 1e5}, {"2.5e-3", false, 0, 2.5e-3}, {"1e+5", false, 0, 1e5}, {"1.", false, 0, 1}, {"0.5", false, 0, 0.5}, {"10", true, 10, 0}}
	rights := []string{"1", "0x1", "a", "1e2", "(2)", "0xe"}
	n := 0
	for _, l := range nums {
		for _, op := range []string{"+", "-", "*", "/", "%", "==", "<", ">=", "!="} {
			for _, r := range rights {
				for _, gap := range []string{"", " "} {
					if op == "/" || op == "%" {
						if r == "(2)" {
							continue
						}
					}
					src := "x = " + l.s + gap + op + gap + r
					node, _, bad := observe(src, false)
					rp := replay{Src: src, Kind: "number-adjacency"}
					if bad != "" {
						rk.Fail(t, "adjacency", rp, "%s\nsource: %q", bad, src)
					}
					if node == nil {
						rk.Fail(t, "adjacency", rp, "numeral followed by an operator was rejected\nsource: %q", src)
					}
					if node.Kind != gen.Binary || node.Op != op || node.X == nil {
						rk.Fail(t, "adjacency", rp, "%q parsed to %s, want a %s expression with the numeral %s on the left", src, node.Shape(), op, l.s)
					}
					x := node.X
					okNum := (l.isInt && x.Kind == gen.Int && x.I == l.i) || (!l.isInt && x.Kind == gen.Float && math.Float64bits(x.F) == math.Float64bits(l.f))
					if !okNum {
						rk.Fail(t, "adjacency", rp, "%q: left operand parsed to %s, want the numeral %s", src, x.Shape(), l.s)
					}
					evid.Case(src, gap == "", "number/adjacent-operator")
					n++
				}
			}
		}
	}
	evid.Exhaustive("numeral x operator x right operand x {no blank, blank}", n)
}

// TestShiftedFloatSpellings: one value, many spellings: the decimal point moved to the left or right by k places and
// the exponent adjusted by k - leading zeros after the point, trailing zeros before it, exponents far beyond the
// float64 range that the mantissa brings back into it. Oracle: strconv.ParseFloat of the very spelling.
func TestShiftedFloatSpellings(t *testing.T) {
	digits := []string{"1", "17976931348623157", "22250738585072014", "5", "49406564584124654", "123456789", "9007199254740993", "1797693134862315708145274237317043567981"}
	exps := []int{-330, -324, -323, -308, -307, -20, -1, 0, 1, 15, 22, 23, 290, 300, 307, 308}
	n := 0
	for _, d := range digits {
		for _, e := range exps {
			for _, k := range []int{0, 1, 2, 3, 5, 17, 30, 310, 340} {
				for _, dir := range []int{-1, 1} {
					var sp string
					if dir < 0 {
						// 0.000ddd e(E+k+len)
						sp = "0." + strings.Repeat("0", k) + d + "e" + fmt.Sprint(e+k+len(d))
					} else {
						// ddd000 e(E-k)
						sp = d + strings.Repeat("0", k) + "e" + fmt.Sprint(e-k)
						if k%2 == 1 {
							sp = d + strings.Repeat("0", k) + ".0E" + fmt.Sprint(e-k)
						}
					}
					want, err := strconv.ParseFloat(sp, 64)
					if err != nil {
						continue // out of range: the spelling denotes no float64
					}
					for _, sign := range []string{"", "-"} {
						judgeNumber(t, "shifted-floats", sp, sign, numExpect{f: want}, true)
						n++
					}
				}
			}
		}
	}
	evid.Exhaustive("digit string x exponent x shift of the decimal point (both directions) x sign", n)
}

// TestUnicodeEscapePlanes: \UHHHHHHHH over all seventeen planes (and the first value beyond them) at the low halves
// where a sixteen-bit view of the number would see a surrogate or a boundary; \uHHHH over the same low halves.
func TestUnicodeEscapePlanes(t *testing.T) {
	lows := []int{0x0000, 0x0041, 0xD7FF, 0xD800, 0xD801, 0xDBFF, 0xDC00, 0xDFFF, 0xE000, 0xFFFD, 0xFFFE, 0xFFFF}
	n := 0
	for plane := 0; plane <= 17; plane++ {
		for _, low := range lows {
			cp := plane<<16 | low
			valid := cp <= 0x10FFFF && !(cp >= 0xD800 && cp <= 0xDFFF)
			ex := expect{V: vReject}
			if valid {
				ex = expect{V: vAccept, Value: "a" + string(rune(cp)) + "z"}
			}
			for _, q := range []string{"\"", "'"} {
				for _, hexf := range []string{"%08X", "%08x"} {
					src := "x = " + q + "a\\U" + fmt.Sprintf(hexf, cp) + "z" + q
					judgeString(t, "unicode-planes", "unicode-escape", src, ex, false, true)
					n++
				}
			}
			if plane == 0 {
				src := "x = \"a\\u" + fmt.Sprintf("%04X", cp) + "z\""
				judgeString(t, "unicode-planes", "unicode-escape", src, ex, false, true)
				n++
			}
		}
	}
	evid.Exhaustive("plane 0..17 x low half x quote x hex case", n)
}

// TestFloatGrammar: every combination of integer part, fraction (absent, empty, digits) and exponent (absent, either
// letter case, either sign, zero, leading zero) - also a dot without fraction digits followed by an exponent.
func TestFloatGrammar(t *testing.T) {
	ints := []string{"0", "5", "12", "9007199254740993"}
	fracs := []string{"", ".", ".0", ".5", ".25", ".000", ".10"}
	exps := []string{"", "e3", "E3", "e+3", "E-2", "e0", "E+0", "e-0", "e03", "e+03", "e308", "e-324"}
	n := 0
	for _, ip := range ints {
		for _, fr := range fracs {
			for _, ex := range exps {
				if fr == "" && ex == "" {
					continue // an integer
				}
				sp := ip + fr + ex
				want, err := strconv.ParseFloat(sp, 64)
				if err != nil {
					continue
				}
				for _, sign := range []string{"", "-"} {
					judgeNumber(t, "float-grammar", sp, sign, numExpect{f: want}, true)
					n++
				}
			}
		}
	}
	evid.Exhaustive("integer part x fraction x exponent x sign", n)
}

// TestLeadingZeros: a numeral that starts with 0 and goes on with digits follows Go's base rule (the digits are
// octal; with an 8 or 9 among them the spelling is not an integer and denotes the decimal float); 0 alone, 00 and
// spellings with a fraction or exponent are decimal.
func TestLeadingZeros(t *testing.T) {
	n := 0
	for _, c := range []struct {
		s  string
		ex numExpect
	}{
		{"010", numExpect{isInt: true, i: 8}}, {"0755", numExpect{isInt: true, i: 493}}, {"017", numExpect{isInt: true, i: 15}}, {"007", numExpect{isInt: true, i: 7}}, {"00", numExpect{isInt: true, i: 0}}, {"000", numExpect{isInt: true, i: 0}},
		{"0777777777777777777777", numExpect{isInt: true, i: math.MaxInt64}}, {"01000000000000000000000", numExpect{f: 1e21}},
		{"08", numExpect{f: 8}}, {"009", numExpect{f: 9}}, {"0189", numExpect{f: 189}}, {"010.0", numExpect{f: 10}}, {"010.5", numExpect{f: 10.5}}, {"01e1", numExpect{f: 10}}, {"00.5", numExpect{f: 0.5}}, {"0e0", numExpect{f: 0}},
		{"0o17", numExpect{isInt: true, i: 15}}, {"0O17", numExpect{isInt: true, i: 15}}, {"0b101", numExpect{isInt: true, i: 5}}, {"0B11", numExpect{isInt: true, i: 3}}, {"1_000", numExpect{isInt: true, i: 1000}}, {"0x_ff", numExpect{isInt: true, i: 255}},
	} {
		for _, sign := range []string{"", "-", "+", "- -"} {
			ex := c.ex
			if strings.ContainsAny(c.s, "oObB_") {
				// forms the reference does not mention: accepted with Go's value or rejected
				ex.weakInt = true
			}
			judgeNumber(t, "leading-zero", c.s, sign, ex, true)
			n++
		}
		// as a slice bound and an index: an integer is admitted there, a float is not
		if c.ex.isInt && !strings.ContainsAny(c.s, "oObB_") {
			src := "x = a[" + c.s + ":]"
			if _, _, bad := observe(src, false); bad != "" {
				rk.Fail(t, "leading-zero", replay{Src: src, Kind: "number"}, "%s", bad)
			}
			node, _, _ := observe(src, false)
			if node == nil || node.Kind != gen.Slice || node.Lo == nil || node.Lo.Kind != gen.Int || node.Lo.I != c.ex.i {
				rk.Fail(t, "leading-zero", replay{Src: src, Kind: "number"}, "slice bound %s did not parse to the integer %d: %v", c.s, c.ex.i, node)
			}
			n++
		}
	}
	evid.Exhaustive("leading-zero numerals x signs", n)
}

func TestMalformedNumbers(t *testing.T) {
	for _, s := range []string{"0x", "0X", "1e", "1e+", "1E-", "0xg", "1.2.3", "1a", "0x1.8", "1e5e5", "1__0", "0b12", "1_0"} {
		judgeNumber(t, "badnum", s, "", numExpect{reject: true}, true)
		judgeNumber(t, "badnum", s, "-", numExpect{reject: true}, true)
	}
}

func listElem(r *gen.Node, i int) *gen.Node {
	if r != nil && (r.Kind == gen.List || r.Kind == gen.Call) && len(r.Args) > i {
		return r.Args[i]
	}
	return nil
}

func binY(r *gen.Node) *gen.Node {
	if r != nil && r.Kind == gen.Binary {
		return r.Y
	}
	return nil
}

// TestTripleQuoteDelimiters: a triple-quoted literal is closed by the delimiter that opened it. Any other run of three
// quote characters does not close it: the spelling is malformed (or unterminated) and is rejected, whatever the body -
// the empty body included.
func TestTripleQuoteDelimiters(t *testing.T) {
	n := 0
	for _, open := range []string{"\"\"\"", "'''"} {
		for mask := 0; mask < 8; mask++ {
			cl := make([]byte, 3)
			for i := range cl {
				cl[i] = '"'
				if mask&(1<<i) != 0 {
					cl[i] = '\''
				}
			}
			closer := string(cl)
			for _, body := range []string{"", "a", "a\nb", "é", " ", "\\", "a\nb\r", "\r", "x\ty\r", "a\r\nb\r", "\n\r"} {
				for _, tail := range []string{"", "\n", "\ny = 2"} {
					src := "x = " + open + body + closer + tail
					node, _, bad := observeFirst(src)
					rp := replay{Src: src, Kind: "triple-quote-delimiters", Value: body}
					if bad != "" {
						rk.Fail(t, "delimiters", rp, "%s\nsource: %q", bad, src)
					}
					if closer == open {
						if body == "\\" {
							// a lone backslash in a body is outside this table (escape rules are covered elsewhere)
							continue
						}
						if node == nil || node.Kind != gen.Str || node.S != body {
							got := "rejected"
							if node != nil {
								got = node.Shape()
							}
							rp.Expect = "accepted"
							rk.Fail(t, "delimiters", rp, "%q: a literal closed by its own delimiter parsed to %s, want the string %q", src, got, body)
						}
					} else if node != nil {
						rp.Expect = "rejected"
						rk.Fail(t, "delimiters", rp, "%q is accepted (as %s): the literal opened by %s is never closed by %s", src, node.Shape(), open, open)
					}
					evid.Case("delim/"+src, closer != open, "triple-quote-delimiters")
					n++
				}
			}
		}
	}
	evid.Exhaustive("opening delimiter x every run of three quote characters as closer x body x what follows", n)
}

// observeFirst parses src and returns the right side of its first statement (nil if the text is rejected).
func observeFirst(src string) (*gen.Node, int, string) {
	stmts, err, crash := impl.Parse("c07.p", src)
	if crash != nil {
		return nil, 0, "parser panicked: " + crash.Value
	}
	if err != nil {
		return nil, 0, ""
	}
	tree, c := conv.Stmts(stmts)
	if c.Err != nil {
		return nil, 0, "malformed tree: " + c.Err.Error()
	}
	if len(tree) == 0 || tree[0] == nil || tree[0].Kind != gen.Assign || len(tree[0].Rhs) != 1 {
		return nil, len(tree), ""
	}
	return tree[0].Rhs[0], len(tree), ""
}

func TestKeywordCase(t *testing.T) {
	n := 0
	for _, kw := range []struct {
		w    string
		kind gen.Kind
		b    bool
	}{{"true", gen.Bool, true}, {"false", gen.Bool, false}, {"nil", gen.Nil, false}, {"null", gen.Nil, false}} {
		for mask := 0; mask < 1<<len(kw.w); mask++ {
			b := []byte(kw.w)
			for i := range b {
				if mask&(1<<i) != 0 {
					b[i] -= 32
				}
			}
			src := "x = " + string(b)
			node, _, bad := observe(src, false)
			if bad != "" {
				rk.Fail(t, "keywords", replay{Src: src, Kind: "keyword"}, "%s", bad)
			}
			if node == nil || node.Kind != kw.kind || (kw.kind == gen.Bool && node.B != kw.b) {
				got := "rejected"
				if node != nil {
					got = node.Shape()
				}
				rk.Fail(t, "keywords", replay{Src: src, Kind: "keyword", Expect: kw.w}, "keyword spelling %q parsed to %s, want %s", string(b), got, kw.w)
			}
			evid.Case(src, mask != 0, "keyword")
			n++
			// the same spelling inside a larger expression, right behind the tokens that may precede a word: a dot
			// followed by a bracket or a back-quoted name, other literals, operators, brackets
			for ci, ctx := range []struct {
				pre, post string
				dig       func(r *gen.Node) *gen.Node
			}{
				{"x = [.[0], ", "]", func(r *gen.Node) *gen.Node { return listElem(r, 1) }},
				{"x = .[0][1] == ", "", func(r *gen.Node) *gen.Node { return binY(r) }},
				{"x = a.`b c` == ", "", func(r *gen.Node) *gen.Node { return binY(r) }},
				{"x = [a.`b`, ", "]", func(r *gen.Node) *gen.Node { return listElem(r, 1) }},
				{"x = [\"s\", ", ", 1]", func(r *gen.Node) *gen.Node { return listElem(r, 1) }},
				{"x = [1.5, ", "]", func(r *gen.Node) *gen.Node { return listElem(r, 1) }},
				{"x = `k q` != ", "", func(r *gen.Node) *gen.Node { return binY(r) }},
				{"x = a.b == ", "", func(r *gen.Node) *gen.Node { return binY(r) }},
				{"x = m[\"k\"] == ", "", func(r *gen.Node) *gen.Node { return binY(r) }},
				{"x = f(.[0], ", ")", func(r *gen.Node) *gen.Node { return listElem(r, 1) }},
			} {
				if mask%3 != ci%3 && mask != 0 && mask != 1<<len(kw.w)-1 {
					continue
				}
				src := ctx.pre + string(b) + ctx.post
				node, _, bad := observe(src, false)
				if bad != "" {
					rk.Fail(t, "keywords", replay{Src: src, Kind: "keyword"}, "%s", bad)
				}
				if node != nil {
					node = ctx.dig(node)
				}
				if node == nil || node.Kind != kw.kind || (kw.kind == gen.Bool && node.B != kw.b) {
					got := "rejected or another tree"
					if node != nil {
						got = node.Shape()
					}
					rk.Fail(t, "keywords", replay{Src: src, Kind: "keyword", Expect: kw.w}, "keyword spelling %q in %q parsed to %s, want %s", string(b), src, got, kw.w)
				}
				evid.Case(src, true, "keyword-in-context")
				n++
			}
		}
	}
	evid.Exhaustive("keyword-case-patterns, alone and behind 10 preceding token sequences", n)
}

// TestLiteralsUnderConcurrentParses: the value of a literal is determined by its spelling - not by what other texts
// are being parsed at the same moment, nor by rejected texts parsed before: after a round of rejected texts, several
// goroutines parse scripts whose literals (strings with escapes, integers, floats) spell out which script they belong
// to; every literal comes back with the value of its own spelling.
func TestLiteralsUnderConcurrentParses(t *testing.T) {
	const G = 8
	rounds := evid.Scale(400, 4000)
	rejected := []string{"x = = 1", "a[", "z = \"unterminated", "f(\n) )\n@", "x = '''open", "y = 0x", "if { }", "k = \"\\q\""}
	mk := func(g, r int) (string, []string) {
		s := fmt.Sprintf("w%d r%d \\\"q\\\" \\n \\u00e9 tail", g, r)
		val := fmt.Sprintf("w%d r%d \"q\" \n \u00e9 tail", g, r)
		i := int64(g)*1000003 + int64(r)
		f := float64(g) + float64(r)/1024
		fs := strconv.FormatFloat(f, 'f', -1, 64)
		if f == math.Trunc(f) {
			fs += ".0"
		}
		src := fmt.Sprintf("a = \"%s\"\nb = %d\nc = %s\nd = '%d-%d'\ne = 0x%x", s, i, fs, g, r, i)
		return src, []string{"s:" + val, fmt.Sprint("i:", i), fmt.Sprint("f:", f), fmt.Sprintf("s:%d-%d", g, r), fmt.Sprint("i:", i)}
	}
	render := func(n *gen.Node) string {
		if n == nil {
			return "<nil>"
		}
		switch n.Kind {
		case gen.Str:
			return "s:" + n.S
		case gen.Int:
			return fmt.Sprint("i:", n.I)
		case gen.Float:
			return fmt.Sprint("f:", n.F)
		}
		return "other:" + gen.ShapeAll([]*gen.Node{n})
	}
	check := func(src string, want []string) string {
		stmts, err, crash := impl.Parse("c07.p", src)
		if crash != nil {
			return "parser panicked: " + crash.Value
		}
		if err != nil {
			return "rejected: " + err.Error()
		}
		tree, c := conv.Stmts(stmts)
		if c.Err != nil {
			return "malformed tree: " + c.Err.Error()
		}
		if len(tree) != len(want) {
			return fmt.Sprintf("%d statements, the text has %d", len(tree), len(want))
		}
		for i, st := range tree {
			if st == nil || st.Kind != gen.Assign || len(st.Rhs) != 1 {
				return fmt.Sprintf("statement %d is not the assignment of the text", i+1)
			}
			if got := render(gen.Fold(st.Rhs[0])); got != want[i] {
				return fmt.Sprintf("literal %d has the value %q, its spelling says %q", i+1, got, want[i])
			}
		}
		return ""
	}
	// alone first
	for g := 0; g < G; g++ {
		src, want := mk(g, 0)
		if msg := check(src, want); msg != "" {
			rk.Fail(t, "concurrent-literals", replay{Src: src, Expect: "accept", Kind: "concurrent-literals"}, "parsed alone: %s\nsource: %q", msg, src)
		}
	}
	n := 0
	for phase := 0; phase < 3; phase++ {
		for k := 0; k <= phase*4; k++ { // phase 0: one round of rejected texts, then five, then nine
			for _, bad := range rejected {
				if _, err, _ := impl.Parse("bad.p", bad); err == nil {
					rk.Fail(t, "concurrent-literals", replay{Src: bad, Expect: "rejected-text", Kind: "malformed"}, "malformed text was accepted (no tree of its statements, no diagnostic)\nsource: %q", bad)
				}
			}
		}
		var mu sync.Mutex
		var firstSrc, firstMsg string
		var wg sync.WaitGroup
		for g := 0; g < G; g++ {
			wg.Add(1)
			go func(g int) {
				defer wg.Done()
				for r := 0; r < rounds; r++ {
					src, want := mk(g, r+phase*rounds)
					if msg := check(src, want); msg != "" {
						mu.Lock()
						if firstMsg == "" {
							firstSrc, firstMsg = src, msg
						}
						mu.Unlock()
						return
					}
				}
			}(g)
		}
		wg.Wait()
		if firstMsg != "" {
			rk.Fail(t, "concurrent-literals", replay{Src: firstSrc, Expect: "accept", Kind: "concurrent-literals"}, "parsed next to %d other parsing goroutines (after rejected texts had been parsed): %s\nsource: %q", G-1, firstMsg, firstSrc)
		}
		n += G * rounds
		evid.Case(fmt.Sprintf("concurrent-literals/%d", phase), true, "literals-under-concurrent-parses")
	}
	evid.Exhaustive("goroutine x round: a script of five literals parsed next to 7 other parses, after rejected texts", n)
}

func TestReplays(t *testing.T) {
	files, _ := filepath.Glob(filepath.Join(evid.Dir(), "replays", prop, "*.json"))
	if r := os.Getenv("VERIF_REPLAY"); r != "" {
		files = []string{r}
	}
	for _, f := range files {
		b, err := os.ReadFile(f)
		if err != nil {
			continue
		}
		var r struct {
			Case replay `json:"case"`
		}
		if json.Unmarshal(b, &r) != nil || r.Case.Src == "" {
			continue
		}
		c := r.Case
		t.Run(filepath.Base(f), func(t *testing.T) {
			val := c.Value
			if c.ValHex != "" {
				var raw []byte
				if _, err := fmt.Sscanf(c.ValHex, "%x", &raw); err == nil {
					val = string(raw)
				}
			}
			switch c.Expect {
			case "accepted":
				judgeString(t, "replay", c.Kind, c.Src, expect{V: vAccept, Value: val}, strings.HasPrefix(c.Src, "`"), true)
			case "rejected":
				judgeString(t, "replay", c.Kind, c.Src, expect{V: vReject}, strings.HasPrefix(c.Src, "`"), true)
			case "rejected-or-exact":
				judgeString(t, "replay", c.Kind, c.Src, expect{V: vWeak, Value: val}, strings.HasPrefix(c.Src, "`"), true)
			case "rejected-text":
				if stmts, err, crash := impl.Parse("c07.p", c.Src); crash == nil && err == nil {
					rk.Fail(t, "replay", c, "malformed text was accepted as a program of %d statements\nsource: %q", len(stmts), c.Src)
				}
			default:
				if _, _, bad := observe(c.Src, false); bad != "" {
					rk.Fail(t, "replay", c, "%s", bad)
				}
			}
		})
	}
}

// TestMalformedNumerals: a numeral cut short or continued wrongly (an exponent without digits, a hexadecimal prefix
// without digits, a hexadecimal numeral with a fraction, two dots) is not a numeric literal: the text is rejected with a
// diagnostic - or, should a spelling be read as something, the tree still has one statement per statement of the text.
// Never "accepted, and the statements are gone". The numeral stands alone, behind signs, as an operand, an element, an
// argument, after valid statements and after an earlier malformed string literal.
func TestMalformedNumerals(t *testing.T) {
	nums := []string{"1e", "1E", "1e+", "1E-", "2.5e", "2.5E+", "7.e", "0x", "0X", "0x.", "0x1.8", "0xA.b", "0x1e+", "1.2.3", "1..2", "1e5e", "1e1.5", "0xg", "00x1", "1_000", "1e٣", "0x١"}
	ctx := []string{"x = %s", "x = -%s", "x = - -%s", "x = 1 + %s", "x = %s + 1", "x = [%s]", "x = [1, %s, 2]", "x = f(%s)", "x = {\"k\": %s}", "x = a[%s]", "x = a[1:%s]", "if %s {\n}", "for ; %s; {\n}",
		"a = 1\nb = 2\nx = %s", "x = %s\na = 1\nb = 2", "a = \"\\X41\"\nx = %s", "x = %s # c", "x = (%s)"}
	n := 0
	for _, num := range nums {
		for ci, cx := range ctx {
			src := fmt.Sprintf(cx, num)
			want := strings.Count(src, "\n") + 1
			if strings.HasPrefix(cx, "if") || strings.HasPrefix(cx, "for") {
				want = 1
			}
			stmts, err, crash := impl.Parse("c07.p", src)
			rp := replay{Src: src, Expect: "rejected-text", Kind: "malformed-numeral"}
			switch {
			case crash != nil:
				rk.Fail(t, "malformed-numeral", rp, "parser crashed: %v\nsource: %q", crash, src)
			case err == nil && len(stmts) != want:
				rk.Fail(t, "malformed-numeral", rp, "text with the malformed numeral %q was accepted as a program of %d statements (it has %d)\nsource: %q", num, len(stmts), want, src)
			case err != nil:
				var pe *errchain.PlError
				if !errors.As(err, &pe) || len(pe.PosChain) == 0 {
					rk.Fail(t, "malformed-numeral", rp, "rejected without a positioned diagnostic: %v\nsource: %q", err, src)
				}
			}
			evid.Case(fmt.Sprintf("badnum/%s/%d", num, ci), true, map[bool]string{true: "malformed-numeral/rejected", false: "malformed-numeral/read-as-something"}[err != nil])
			n++
		}
	}
	evid.Exhaustive("malformed numerals x contexts", n)
}

// FuzzLiteral: native coverage-guided search over literal bodies (thorough tier).
func FuzzLiteral(f *testing.F) {
	for _, s := range frags {
		f.Add(s)
	}
	f.Add(`a\x41é\U0001F44D\101\n`)
	f.Fuzz(func(t *testing.T, body string) {
		if len(body) > 256 || !utf8.ValidString(body) {
			return
		}
		checkBody(t, "fuzz", body)
	})
}
