package c10

import (
	"encoding/json"
	"fmt"
	"math"
	"os"
	"path/filepath"
	"sort"
	"strings"
	"testing"

	"github.com/GuanceCloud/platypus/pkg/ast"
	plrt "github.com/GuanceCloud/platypus/pkg/engine/runtime"
	"github.com/GuanceCloud/platypus/pkg/inimpl/guancecloud/input"
	"pgregory.net/rapid"
	"verifharness/evid"
	"verifharness/gen"
	"verifharness/impl"
	"verifharness/probe"
	"verifharness/rk"
	"verifharness/sem"
)

const prop = "C10"

func TestMain(m *testing.M) {
	evid.Init(prop, "exploration",
		"state-machine search over the real point driven through the builtins (one-statement scripts): add_key(k, v) for v of every kind (nil, bool, int, float, string, time-like string, list, map), add_key(k) from a variable, set_tag(k), set_tag(k, v), drop_key(k), rename(k1, k2), cast(k, bool|int|float|str), set_measurement(k, true), trim/uppercase/replace(k), default_time(k) over the keys {initial field f, initial tag t, message, fresh x, fresh y}; breadth-first exploration with de-duplication on the abstract state (per key: absent / tag / field-of-type, index entry kind) to depth 3 (quick) / 4 (thorough), then random operation sequences of length <= 40. Oracle (invariants after every step): every key in tags or fields is read by a script and by Point.Get with exactly the stored value and type; a key in neither map reads nil; no key is both tag and field; tag values are strings, field values int64/float64/bool/string/nil; drop_key(k) removes k from both maps; rename(new, old) of a present key makes new hold old's value and kind and removes old; add_key/set_tag leave the documented state. Non-trivial: the sequence contains a rename, a move-to-tag or a drop followed by a later access to an affected key; distinct by abstract-state path.",
		"the abstract state used for de-duplication reads Point.Meta; the oracle itself uses only Tags, Fields, Point.Get and script reads")
	code := m.Run()
	evid.Flush(code == 0)
	os.Exit(code)
}

var keys = []string{"f", "t", "message", "x", "y", "u"}

type op struct {
	Text string // the script
	Kind string // add, addvar, settag, settagv, drop, rename, cast, setmeas, strfn, deftime
	K    string // subject key
	K2   string // rename: old key
	V    any    // value for add
}

func valText(v any) string {
	switch x := v.(type) {
	case nil:
		return "nil"
	case bool:
		return fmt.Sprint(x)
	case int64:
		return fmt.Sprint(x)
	case float64:
		if x == 0 {
			if math.Signbit(x) {
				return "-0.0"
			}
			return "0.0"
		}
		return gen.FloatText(x)
	case string:
		return fmt.Sprintf("%q", x)
	case []any:
		var parts []string
		for _, e := range x {
			if es, ok := e.(string); ok {
				parts = append(parts, gen.QuoteDouble(es))
			} else {
				parts = append(parts, valText(e))
			}
		}
		return "[" + strings.Join(parts, ", ") + "]"
	case map[string]any:
		return "{\"a\": 1}"
	case unencodable:
		return "[1, inf]"
	}
	return "nil"
}

type unencodable struct{} // a list that JSON cannot encode: [1, inf]

var addVals = []any{nil, true, int64(5), 2.5, 0.0, math.Copysign(0, -1), "s", "2021-05-27 06:54:14.760 UTC", []any{int64(1), "a"}, map[string]any{"a": int64(1)}, unencodable{},
	// lists of plain strings: invalid UTF-8, the line and paragraph separators (what an encoder escapes or replaces)
	[]any{"a\xffb", "x"}, []any{"l\u2028s", "p\u2029"}, []any{"\xf0\x9f", "ok", ""}, []any{"plain", "strings"}, "NaN", "-Infinity", "1e999", "12abc",
	// whole numbers that a detour through float64 would round: as a tag they are their decimal text, digit for digit
	int64(1)<<53 + 1, int64(1700000000123456789), int64(math.MaxInt64), int64(-math.MaxInt64),
	// further floats: as tag text each is its own text, whatever float became a tag before or after it
	0.125, 12.5}

func allOps() []op {
	var out []op
	for _, k := range keys {
		for _, v := range addVals {
			out = append(out, op{Text: fmt.Sprintf("add_key(%s, %s)", k, valText(v)), Kind: "add", K: k, V: v})
		}
		for _, v := range []any{int64(7), "var", nil} {
			out = append(out, op{Text: fmt.Sprintf("%s = %s\nadd_key(%s)", k, valText(v), k), Kind: "addvar", K: k, V: v})
		}
		// a value argument that has no value: an attribute expression, a variable holding one, a collection containing itself
		for _, pre := range []string{"set_tag(%s, cfg.host)", "v = cfg.host\nset_tag(%s, v)", "l = [1]\nl[0] = l\nset_tag(%s, l)", "add_key(%s, cfg.host)", "v = cfg.host\nadd_key(%s, v)", "l = [1]\nl[0] = l\nadd_key(%s, l)"} {
			out = append(out, op{Text: fmt.Sprintf(pre, k), Kind: "valueless", K: k})
		}
		out = append(out, op{Text: fmt.Sprintf("set_tag(%s)", k), Kind: "settag", K: k})
		out = append(out, op{Text: fmt.Sprintf("set_tag(%s, \"tv\")", k), Kind: "settagv", K: k, V: "tv"})
		out = append(out, op{Text: fmt.Sprintf("drop_key(%s)", k), Kind: "drop", K: k})
		for _, k2 := range keys {
			if k2 != k {
				out = append(out, op{Text: fmt.Sprintf("rename(%s, %s)", k, k2), Kind: "rename", K: k, K2: k2})
			}
		}
		for _, ty := range []string{"bool", "int", "float", "str"} {
			out = append(out, op{Text: fmt.Sprintf("cast(%s, %q)", k, ty), Kind: "cast", K: k})
		}
		out = append(out, op{Text: fmt.Sprintf("set_measurement(%s, true)", k), Kind: "setmeas", K: k})
		out = append(out, op{Text: fmt.Sprintf("trim(%s)", k), Kind: "strfn", K: k})
		out = append(out, op{Text: fmt.Sprintf("uppercase(%s)", k), Kind: "strfn", K: k})
		out = append(out, op{Text: fmt.Sprintf("replace(%s, \"s\", \"z\")", k), Kind: "strfn", K: k})
		out = append(out, op{Text: fmt.Sprintf("default_time(%s)", k), Kind: "deftime", K: k})
		out = append(out, op{Text: fmt.Sprintf("default_time(%s, \"Nowhere/City\")", k), Kind: "deftime", K: k})
		// extraction into this key (plain and typed), with a second capture named like the message alias
		out = append(out, op{Text: fmt.Sprintf("add_key(src_g, \"first 42\")\ngrok(src_g, \"%%{WORD:%s} %%{INT:_}\")\ndrop_key(src_g)", k), Kind: "grok", K: k})
		out = append(out, op{Text: fmt.Sprintf("add_key(src_g, \"first 42\")\ngrok(src_g, \"%%{WORD} %%{INT:%s:int}\")\ndrop_key(src_g)", k), Kind: "grok", K: k})
		out = append(out, op{Text: fmt.Sprintf("inf2 = 1.0e308 * 10.0\nadd_key(%s, inf2 - inf2)\ncast(%s, \"int\")", k, k), Kind: "castnan", K: k})
	}
	// the key the builtins themselves write their run message to (a failing default_time): it may be a tag already
	const pm = "pl_msg"
	out = append(out, op{Text: "set_tag(pl_msg, \"tv\")", Kind: "settagv", K: pm, V: "tv"}, op{Text: "set_tag(pl_msg)", Kind: "settag", K: pm},
		op{Text: "drop_key(pl_msg)", Kind: "drop", K: pm}, op{Text: "add_key(pl_msg, 5)", Kind: "add", K: pm, V: int64(5)},
		op{Text: "rename(pl_msg, f)", Kind: "rename", K: pm, K2: "f"}, op{Text: "rename(f, pl_msg)", Kind: "rename", K: "f", K2: pm}, op{Text: "rename(pl_msg, t)", Kind: "rename", K: pm, K2: "t"},
		op{Text: "cast(pl_msg, \"int\")", Kind: "cast", K: pm}, op{Text: "set_measurement(pl_msg, true)", Kind: "setmeas", K: pm})
	// the key message under its other spelling `_`, in every argument position
	const msg = "message"
	out = append(out, op{Text: "rename(_, f)", Kind: "rename", K: msg, K2: "f"}, op{Text: "rename(_, t)", Kind: "rename", K: msg, K2: "t"}, op{Text: "rename(\"_\", f)", Kind: "rename", K: msg, K2: "f"},
		op{Text: "rename(x, _)", Kind: "rename", K: "x", K2: msg}, op{Text: "rename(t, _)", Kind: "rename", K: "t", K2: msg}, op{Text: "rename(_, x)", Kind: "rename", K: msg, K2: "x"},
		op{Text: "drop_key(_)", Kind: "drop", K: msg}, op{Text: "add_key(_, 5)", Kind: "add", K: msg, V: int64(5)}, op{Text: "set_tag(_, \"tv\")", Kind: "settagv", K: msg, V: "tv"}, op{Text: "set_tag(_)", Kind: "settag", K: msg},
		op{Text: "cast(_, \"int\")", Kind: "cast", K: msg}, op{Text: "uppercase(_)", Kind: "strfn", K: msg})
	return out
}

var call, check = sem.V1Tables()
var cache = map[string]*plrt.Script{}

func load(t rk.Failer, text string) *plrt.Script {
	if s, ok := cache[text]; ok {
		return s
	}
	s, err, crash := impl.Load1("op.p", text, call, check)
	if err != nil || crash != nil {
		t.Fatalf("harness: operation script %q does not load: %v %v", text, err, crash)
	}
	cache[text] = s
	return s
}

var reader = "probe(\"r\", f, t, message, x, y, u)"

func newPoint() *input.Point {
	return impl.NewPoint("m", map[string]string{"t": "tagval", "u": "second tag"}, map[string]any{"f": int64(1), "message": "msg s"})
}

// startVariants: how the host created the point - with tags and fields, without tags (a nil map), without fields,
// with neither.
var startVariants = []string{"", "", "no-tags", "no-fields", "bare", "no-tags", "empty-tag", "empty-values"}

func newPointVariant(v string) *input.Point {
	pt := input.GetPoint()
	switch v {
	case "no-tags":
		return input.InitPt(pt, "m", nil, map[string]any{"f": int64(1), "message": "msg s"}, impl.FixedTime())
	case "no-fields":
		return input.InitPt(pt, "m", map[string]string{"t": "tagval", "u": "second tag"}, nil, impl.FixedTime())
	case "bare":
		return input.InitPt(pt, "m", nil, nil, impl.FixedTime())
	case "empty-tag": // a tag whose value is the empty text
		return input.InitPt(pt, "m", map[string]string{"t": "", "u": "second tag"}, map[string]any{"f": int64(1), "message": "msg s"}, impl.FixedTime())
	case "empty-values":
		return input.InitPt(pt, "m", map[string]string{"t": "", "u": ""}, map[string]any{"f": "", "message": ""}, impl.FixedTime())
	}
	input.PutPoint(pt)
	return newPoint()
}

func clonePoint(p *input.Point) *input.Point {
	c := &input.Point{Measurement: p.Measurement, Time: p.Time, Drop: p.Drop, Tags: map[string]string{}, Fields: map[string]any{}, Meta: map[string]*input.TFMeta{}}
	for k, v := range p.Tags {
		c.Tags[k] = v
	}
	for k, v := range p.Fields {
		c.Fields[k] = v
	}
	for k, v := range p.Meta {
		m := *v
		c.Meta[k] = &m
	}
	return c
}

func abstract(p *input.Point) string {
	var b strings.Builder
	for _, k := range append(append([]string{}, keys...), "pl_msg") {
		b.WriteString(k)
		b.WriteByte('=')
		if v, ok := p.Tags[k]; ok {
			b.WriteString("T")
			if strings.Contains(v, "2021") {
				b.WriteString("time")
			} else if v == "" {
				b.WriteString("empty")
			}
		}
		if v, ok := p.Fields[k]; ok {
			fmt.Fprintf(&b, "F%T", v)
			if s, ok := v.(string); ok && strings.Contains(s, "2021") {
				b.WriteString("time")
			}
		}
		if m, ok := p.Meta[k]; ok {
			fmt.Fprintf(&b, "/m%d.%d", m.PtFlag, m.DType)
		}
		b.WriteByte(';')
	}
	return b.String()
}

type step struct {
	Op     string `json:"op"`
	Before string `json:"state_before,omitempty"`
}

type replay struct {
	Ops []string `json:"ops"`
	// Unobserved lists the steps after which the point was NOT read back (reads may touch lookup state
	// inside the point; a sequence must also hold when nobody looks in between).
	Unobserved []int `json:"unobserved_steps,omitempty"`
	// Start: how the point was created ("" = with tags and fields; see startVariants)
	Start string `json:"start,omitempty"`
}

func dtypeOf(v any) ast.DType {
	switch v.(type) {
	case nil:
		return ast.Nil
	case bool:
		return ast.Bool
	case int64:
		return ast.Int
	case float64:
		return ast.Float
	case string:
		return ast.String
	}
	return ast.Invalid
}

// invariants checks the point after a step; returns "" or the violated invariant.
func invariants(t rk.Failer, p *input.Point) string {
	for k, v := range p.Tags {
		if _, both := p.Fields[k]; both {
			return fmt.Sprintf("key %q is both a tag (%q) and a field (%s)", k, v, probe.Render(p.Fields[k]))
		}
	}
	for k, v := range p.Fields {
		switch v.(type) {
		case nil, bool, int64, float64, string:
		default:
			return fmt.Sprintf("field %q holds a %T (%v): fields are int64, float64, bool, string or nil", k, v, v)
		}
	}
	// Point.Get
	for _, k := range keys {
		gv, gt, gerr := p.Get(k)
		if tv, ok := p.Tags[k]; ok {
			if gerr != nil || gt != ast.String || gv != any(tv) {
				return fmt.Sprintf("Point.Get(%q) = %s/%s/%v, the output point holds tag %q", k, probe.Render(gv), gt, gerr, tv)
			}
			continue
		}
		if fv, ok := p.Fields[k]; ok {
			if gerr != nil || probe.Render(gv) != probe.Render(fv) || gt != dtypeOf(fv) {
				return fmt.Sprintf("Point.Get(%q) = %s typed %s (err %v), the output point holds field %s", k, probe.Render(gv), gt, gerr, probe.Render(fv))
			}
			continue
		}
		if gerr == nil && gv != nil {
			return fmt.Sprintf("Point.Get(%q) = %s but the output point holds no such key", k, probe.Render(gv))
		}
	}
	// keys outside the fixed set (created by captures etc.): Point.Get and a script read agree with the output as well
	known := map[string]bool{}
	for _, k := range keys {
		known[k] = true
	}
	var extra []string
	for k := range p.Tags {
		if !known[k] {
			extra = append(extra, k)
		}
	}
	for k := range p.Fields {
		if !known[k] {
			extra = append(extra, k)
		}
	}
	sort.Strings(extra)
	for _, k := range extra {
		want := "nil"
		if tv, ok := p.Tags[k]; ok {
			want = probe.Render(tv)
		} else {
			want = probe.Render(p.Fields[k])
		}
		gv, _, gerr := p.Get(k)
		if gerr != nil || probe.Render(gv) != want {
			return fmt.Sprintf("Point.Get(%q) = %s (err %v), the output point holds %s", k, probe.Render(gv), gerr, want)
		}
		s2 := &probe.Sig{}
		if err, crash := impl.RunV1(load(t, "probe(\"r\", `"+k+"`)"), p, s2); err != nil || crash != nil || len(s2.Trace) != 1 {
			return fmt.Sprintf("reading key %q from a script failed: %v %v", k, err, crash)
		}
		if got := s2.Trace[0].Vals[0]; got != want {
			return fmt.Sprintf("a script reads key %q as %s, the output point holds %s", k, got, want)
		}
	}
	// script read
	sig := &probe.Sig{}
	if err, crash := impl.RunV1(load(t, reader), p, sig); err != nil || crash != nil {
		return fmt.Sprintf("reading all keys from a script failed: %v %v", err, crash)
	}
	if len(sig.Trace) != 1 || len(sig.Trace[0].Vals) != len(keys) {
		return "reader script produced no record"
	}
	for i, k := range keys {
		got := sig.Trace[0].Vals[i]
		want := "nil"
		if tv, ok := p.Tags[k]; ok {
			want = probe.Render(tv)
		} else if fv, ok := p.Fields[k]; ok {
			want = probe.Render(fv)
		}
		if got != want {
			return fmt.Sprintf("a script reads key %q as %s, the output point holds %s", k, got, want)
		}
	}
	return ""
}

type snapshot struct {
	tags   map[string]string
	fields map[string]any
}

func snap(p *input.Point) snapshot {
	s := snapshot{map[string]string{}, map[string]any{}}
	for k, v := range p.Tags {
		s.tags[k] = strings.Clone(v) // a copy of the bytes: the snapshot must not change when the point's own text does
	}
	for k, v := range p.Fields {
		s.fields[k] = v
	}
	return s
}

func present(s snapshot, k string) bool {
	_, a := s.tags[k]
	_, b := s.fields[k]
	return a || b
}

// apply runs one operation and checks its postcondition and the invariants.
func apply(t rk.Failer, p *input.Point, o op) string { return applyObs(t, p, o, true) }

func applyObs(t rk.Failer, p *input.Point, o op, observe bool) string {
	before := snap(p)
	err, crash := impl.RunV1(load(t, o.Text), p, nil)
	if crash != nil {
		return "operation panicked: " + crash.Value
	}
	_ = err // data errors (cast of a list etc.) are legal
	after := snap(p)
	switch o.Kind {
	case "drop":
		if present(after, o.K) {
			return fmt.Sprintf("drop_key(%s) left the key in the output point (tag %v field %v)", o.K, after.tags[o.K], after.fields[o.K])
		}
	case "rename":
		if present(before, o.K2) {
			if present(after, o.K2) {
				return fmt.Sprintf("rename(%s, %s): the old key is still in the output point", o.K, o.K2)
			}
			if tv, ok := before.tags[o.K2]; ok {
				if got, ok := after.tags[o.K]; !ok || got != tv {
					return fmt.Sprintf("rename(%s, %s): old key was tag %q, new key is tag %v / field %v", o.K, o.K2, tv, after.tags[o.K], after.fields[o.K])
				}
			} else {
				fv := before.fields[o.K2]
				got, ok := after.fields[o.K]
				if !ok || probe.Render(got) != probe.Render(fv) {
					return fmt.Sprintf("rename(%s, %s): old key was field %s, new key is field %s / tag %v", o.K, o.K2, probe.Render(fv), probe.Render(got), after.tags[o.K])
				}
			}
		}
	case "add":
		if _, wasTag := before.tags[o.K]; wasTag {
			tv, still := after.tags[o.K]
			if !still {
				return fmt.Sprintf("add_key(%s, ...) on a tag: the key is no longer a tag", o.K)
			}
			switch x := o.V.(type) {
			case int64, bool, string:
				if tv != fmt.Sprint(x) {
					return fmt.Sprintf("add_key(%s, %s) on a tag: the tag holds %q, want the text %q", o.K, valText(o.V), tv, fmt.Sprint(x))
				}
			}
		} else {
			got, ok := after.fields[o.K]
			if !ok {
				return fmt.Sprintf("add_key(%s, %s): no such field afterwards", o.K, valText(o.V))
			}
			want := o.V
			switch x := o.V.(type) {
			case []any, map[string]any:
				b, _ := json.Marshal(x)
				want = string(b)
			case unencodable:
				want = nil // a collection without JSON text is stored as nil
			}
			if probe.Render(got) != probe.Render(want) {
				return fmt.Sprintf("add_key(%s, %s): field holds %s, want %s", o.K, valText(o.V), probe.Render(got), probe.Render(want))
			}
		}
	case "settag", "settagv":
		if _, ok := after.tags[o.K]; !ok {
			return fmt.Sprintf("%s: the key is not a tag afterwards", o.Text)
		}
		if o.Kind == "settagv" && after.tags[o.K] != "tv" {
			return fmt.Sprintf("%s: tag holds %q", o.Text, after.tags[o.K])
		}
		if o.Kind == "settag" {
			// a field moved to the tags keeps its value as text: exact for whole numbers, booleans and strings
			switch x := before.fields[o.K].(type) {
			case int64, bool, string:
				if after.tags[o.K] != fmt.Sprint(x) {
					return fmt.Sprintf("%s: the field held %s, the tag holds %q", o.Text, probe.Render(x), after.tags[o.K])
				}
			}
		}
	case "setmeas":
		if s, ok := before.fields[o.K].(string); ok {
			if p.Measurement != s {
				return fmt.Sprintf("%s: measurement is %q, the key held %q", o.Text, p.Measurement, s)
			}
			if present(after, o.K) {
				return fmt.Sprintf("%s: the key was not deleted", o.Text)
			}
		}
	}
	// the keys the operation does not name keep their values (the builtins with side keys - message, pl_msg, the scratch
	// key of the grok operations - excepted): the text of a tag is its own, not a view of something the next write reuses
	for k, was := range before.tags {
		if k == o.K || k == o.K2 || k == "message" || k == "pl_msg" || k == "src_g" || k == "_" {
			continue
		}
		if now, ok := p.Tags[k]; ok && now != was {
			return fmt.Sprintf("%s changed the tag %q, which it does not name: it held %q and now holds %q", o.Text, k, was, now)
		}
	}
	if !observe {
		return ""
	}
	return invariants(t, p)
}

func affects(o op) bool {
	switch o.Kind {
	case "rename", "settag", "settagv", "drop", "setmeas", "deftime":
		return true
	}
	return false
}

func TestBreadthFirst(t *testing.T) {
	ops := allOps()
	depth := evid.Scale(3, 4)
	type node struct {
		p    *input.Point
		path []string
		hot  bool // path contains a rename / move-to-tag / drop
	}
	if msg := invariants(t, newPoint()); msg != "" {
		rk.Fail(t, "bfs", replay{}, "initial point: %s", msg)
	}
	frontier := []node{{p: newPoint()}}
	seen := map[string]bool{abstract(frontier[0].p): true}
	states, transitions := 1, 0
	for d := 0; d < depth; d++ {
		var next []node
		for ni, n := range frontier {
			if d == depth-1 && ni%evid.NShards() != evid.Shard() {
				continue
			}
			for _, o := range ops {
				p := clonePoint(n.p)
				path := append(append([]string{}, n.path...), o.Text)
				if msg := apply(t, p, o); msg != "" {
					rk.Fail(t, "bfs", replay{Ops: path}, "%s\noperations: %s", msg, strings.Join(path, " ; "))
				}
				transitions++
				hot := n.hot || affects(o)
				evid.Case(abstract(n.p)+"->"+o.Text, n.hot, "bfs-depth-"+fmt.Sprint(d+1))
				a := abstract(p)
				if !seen[a] {
					seen[a] = true
					states++
					next = append(next, node{p, path, hot})
					if states%400 == 0 {
						evid.Sample(map[string]any{"operations": path, "abstract_state": a})
					}
				}
			}
		}
		frontier = next
	}
	evid.Extra("bfs_abstract_states", states)
	evid.Exhaustive(fmt.Sprintf("operation sequences to depth %d with abstract-state de-duplication", depth), transitions)
}

// TestEveryStartEveryOperation: every way the host may have created the point (no tags, no fields, empty-valued tags
// and fields) x every operation, and every ordered pair of index-moving operations: the invariants hold right after
// InitPt and after each step.
func TestEveryStartEveryOperation(t *testing.T) {
	ops := allOps()
	n := 0
	for _, start := range []string{"no-tags", "no-fields", "bare", "empty-tag", "empty-values"} {
		p0 := newPointVariant(start)
		if msg := invariants(t, p0); msg != "" {
			rk.Fail(t, "starts", replay{Start: start}, "right after InitPt (%q): %s", start, msg)
		}
		for oi, o := range ops {
			p := newPointVariant(start)
			if msg := apply(t, p, o); msg != "" {
				rk.Fail(t, "starts", replay{Ops: []string{o.Text}, Start: start}, "%s\nstart: %q operation: %s", msg, start, o.Text)
			}
			evid.Case("start/"+start+"/"+o.Text, true, "start-variant-x-operation")
			n++
			if !affects(o) || (oi%evid.NShards()) != evid.Shard() {
				continue
			}
			for _, o2 := range ops {
				if !affects(o2) {
					continue
				}
				q := newPointVariant(start)
				path := []string{o.Text, o2.Text}
				for _, st := range []op{o, o2} {
					if msg := apply(t, q, st); msg != "" {
						rk.Fail(t, "starts", replay{Ops: path, Start: start}, "%s\nstart: %q operations: %s", msg, start, strings.Join(path, " ; "))
					}
				}
				n++
			}
		}
	}
	evid.Exhaustive("point creation variant x operation, and x ordered pairs of index-moving operations", n)
}

// TestUnobservedSequences: every sequence of up to three operations from a reduced operation set (two keys,
// one value per kind), executed without reading the point back in between; the invariants are evaluated at the
// end only. No de-duplication: the point may hold lookup state that the abstract state does not show.
func TestUnobservedSequences(t *testing.T) {
	pick := map[string]bool{}
	for _, k := range []string{"f", "x", "t"} {
		for _, s := range []string{
			"add_key(%s, 5)", "add_key(%s, \"s\")", "add_key(%s, nil)", "set_tag(%s)", "set_tag(%s, \"tv\")", "drop_key(%s)", "cast(%s, \"str\")", "cast(%s, \"int\")", "uppercase(%s)", "set_measurement(%s, true)",
		} {
			pick[fmt.Sprintf(s, k)] = true
		}
	}
	for _, r := range []string{"rename(x, f)", "rename(f, x)", "rename(f, t)", "rename(t, f)", "rename(x, t)", "rename(t, x)", "rename(y, f)"} {
		pick[r] = true
	}
	var ops []op
	for _, o := range allOps() {
		if pick[o.Text] {
			ops = append(ops, o)
		}
	}
	n := 0
	depth := evid.Scale(3, 4)
	var rec func(p *input.Point, path []string, hot bool)
	rec = func(p *input.Point, path []string, hot bool) {
		if len(path) == depth {
			return
		}
		for oi, o := range ops {
			if len(path) == 0 && oi%evid.NShards() != evid.Shard() {
				continue
			}
			// the point is rebuilt from scratch for every sequence: a clone would not carry hidden lookup state
			q := newPoint()
			np := append(append([]string{}, path...), o.Text)
			var unobs []int
			msg := ""
			for i, txt := range np {
				var oo op
				for _, c := range ops {
					if c.Text == txt {
						oo = c
					}
				}
				last := i == len(np)-1
				if !last {
					unobs = append(unobs, i)
				}
				if msg = applyObs(t, q, oo, last); msg != "" {
					break
				}
			}
			if msg != "" {
				rk.Fail(t, "unobserved", replay{Ops: np, Unobserved: unobs}, "%s\noperations (point read back only at the end): %s", msg, strings.Join(np, " ; "))
			}
			h := hot || affects(o)
			evid.Case("unobserved:"+strings.Join(np, ";"), h, fmt.Sprintf("unobserved-depth-%d", len(np)))
			n++
			rec(q, np, h)
		}
	}
	rec(newPoint(), nil, false)
	evid.Exhaustive(fmt.Sprintf("%d reduced operations, all sequences up to length %d, read back only at the end", len(ops), depth), n)
}

// TestManyKeys: the same invariants on points with 150 / 1500 keys (map growth, pooled index entries recycled in
// bulk): random operations over the whole key range, then every key of the output is read back through Point.Get
// and through a script.
func TestManyKeys(t *testing.T) {
	rk.Check(t, "manykeys", 9, evid.Scale(60, 600), func(t *rapid.T) {
		nf := rapid.SampledFrom([]int{30, 100, 1000}).Draw(t, "nfields")
		nt := nf / 2
		fields, tags := map[string]any{}, map[string]string{}
		vals := []any{int64(1), 2.5, "s", true, nil, ""}
		for i := 0; i < nf; i++ {
			fields[fmt.Sprintf("f%d", i)] = vals[i%len(vals)]
		}
		for i := 0; i < nt; i++ {
			tags[fmt.Sprintf("t%d", i)] = fmt.Sprintf("tv%d", i)
		}
		p := impl.NewPoint("m", tags, fields)
		key := func(l string) string {
			switch rapid.IntRange(0, 3).Draw(t, l+"kind") {
			case 0:
				return fmt.Sprintf("f%d", rapid.IntRange(0, nf-1).Draw(t, l))
			case 1:
				return fmt.Sprintf("t%d", rapid.IntRange(0, nt-1).Draw(t, l))
			case 2:
				return fmt.Sprintf("n%d", rapid.IntRange(0, 20).Draw(t, l))
			}
			return []string{"f0", "t0", "n0", "f1"}[rapid.IntRange(0, 3).Draw(t, l)]
		}
		var path []string
		nops := rapid.IntRange(10, 200).Draw(t, "nops")
		for i := 0; i < nops; i++ {
			var txt string
			switch rapid.IntRange(0, 7).Draw(t, "op") {
			case 0, 1:
				txt = fmt.Sprintf("rename(%s, %s)", key("new"), key("old"))
			case 2:
				txt = fmt.Sprintf("drop_key(%s)", key("k"))
			case 3:
				txt = fmt.Sprintf("set_tag(%s)", key("k"))
			case 4:
				txt = fmt.Sprintf("add_key(%s, %s)", key("k"), valText(addVals[rapid.IntRange(0, len(addVals)-1).Draw(t, "v")]))
			case 5:
				txt = fmt.Sprintf("cast(%s, %q)", key("k"), []string{"int", "str", "bool", "float"}[rapid.IntRange(0, 3).Draw(t, "ty")])
			case 6:
				txt = fmt.Sprintf("add_key(%s, cfg.host)", key("k"))
			default:
				txt = fmt.Sprintf("set_measurement(%s, true)", key("k"))
			}
			path = append(path, txt)
			if _, crash := impl.RunV1(load(t, txt), p, nil); crash != nil {
				rk.Fail(t, "manykeys", replay{Ops: path}, "operation panicked: %s\noperations: %s", crash.Value, strings.Join(path, " ; "))
			}
		}
		// every key of the output: not both kinds, right value types, Point.Get agrees
		for k, v := range p.Tags {
			if _, both := p.Fields[k]; both {
				rk.Fail(t, "manykeys", replay{Ops: path}, "key %q is both a tag and a field\noperations: %s", k, strings.Join(path, " ; "))
			}
			gv, gt, gerr := p.Get(k)
			if gerr != nil || gt != ast.String || gv != any(v) {
				rk.Fail(t, "manykeys", replay{Ops: path}, "Point.Get(%q) = %s/%s/%v, the output point holds tag %q\noperations: %s", k, probe.Render(gv), gt, gerr, v, strings.Join(path, " ; "))
			}
		}
		var names []string
		for k, v := range p.Fields {
			switch v.(type) {
			case nil, bool, int64, float64, string:
			default:
				rk.Fail(t, "manykeys", replay{Ops: path}, "field %q holds a %T", k, v)
			}
			gv, gt, gerr := p.Get(k)
			if gerr != nil || probe.Render(gv) != probe.Render(v) || gt != dtypeOf(v) {
				rk.Fail(t, "manykeys", replay{Ops: path}, "Point.Get(%q) = %s typed %s (err %v), the output point holds field %s\noperations: %s", k, probe.Render(gv), gt, gerr, probe.Render(v), strings.Join(path, " ; "))
			}
			names = append(names, k)
		}
		// a script reads a sample of the keys and drops them again
		sort.Strings(names)
		for i, k := range names {
			if i%7 != 0 {
				continue
			}
			sig := &probe.Sig{}
			want := probe.Render(p.Fields[k])
			if err, crash := impl.RunV1(load(t, fmt.Sprintf("probe(\"r\", %s)\ndrop_key(%s)", k, k)), p, sig); err != nil || crash != nil || len(sig.Trace) != 1 {
				rk.Fail(t, "manykeys", replay{Ops: path}, "reading and dropping %q failed: %v %v", k, err, crash)
			}
			if got := sig.Trace[0].Vals[0]; got != want {
				rk.Fail(t, "manykeys", replay{Ops: path}, "a script reads field %q as %s, the output point holds %s\noperations: %s", k, got, want, strings.Join(path, " ; "))
			}
			if _, still := p.Fields[k]; still {
				rk.Fail(t, "manykeys", replay{Ops: path}, "drop_key(%s) left the field in the output\noperations: %s", k, strings.Join(path, " ; "))
			}
		}
		evid.Case(fmt.Sprintf("manykeys/%d/%d/%s", nf, nops, path[0]), true, fmt.Sprintf("many-keys/%d", nf))
	})
}

// TestInputKinds: the input maps may hold numbers of any Go kind; InitPt normalises them, and the index entry agrees
// with what the output then holds (a value at the edge of a kind's range included).
func TestInputKinds(t *testing.T) {
	vals := map[string]any{
		"i8": int8(-128), "i16": int16(32767), "i32": int32(-2147483648), "iplain": int(-7), "i64min": int64(math.MinInt64), "i64max": int64(math.MaxInt64),
		"u8": uint8(255), "u16": uint16(65535), "u32": uint32(4294967295), "uplain": uint(7), "u64small": uint64(12), "u64half": uint64(1) << 63, "u64half1": uint64(1)<<63 - 1, "u64max": uint64(math.MaxUint64), "ubig": uint(1) << 63,
		"f32": float32(1.5), "f32big": float32(3.4e38), "f64": 2.5, "fnan": math.NaN(), "finf": math.Inf(-1), "b": true, "s": "str", "n": nil,
	}
	mk := func() *input.Point {
		f := map[string]any{}
		for k, v := range vals {
			f[k] = v
		}
		return impl.NewPoint("m", map[string]string{"tg": "v"}, f)
	}
	check := func(p *input.Point, what string) {
		for k, v := range p.Fields {
			switch v.(type) {
			case nil, bool, int64, float64, string:
			default:
				rk.Fail(t, "kinds", replay{Ops: []string{what}}, "%s: field %q holds a %T (%v): fields are int64, float64, bool, string or nil", what, k, v, v)
			}
			gv, gt, gerr := p.Get(k)
			if gerr != nil || probe.Render(gv) != probe.Render(v) || gt != dtypeOf(v) {
				rk.Fail(t, "kinds", replay{Ops: []string{what}}, "%s: Point.Get(%q) = %s typed %s (err %v), the output point holds field %s", what, k, probe.Render(gv), gt, gerr, probe.Render(v))
			}
		}
	}
	n := 0
	p := mk()
	check(p, "InitPt")
	// the values a script sees, and what the usual operations make of them
	var names []string
	for k := range vals {
		names = append(names, k)
	}
	sort.Strings(names)
	for _, k := range names {
		for _, opText := range []string{"probe(\"r\", %s)", "add_key(copy, %s)", "rename(moved, %s)", "cast(%s, \"str\")", "cast(%s, \"int\")", "set_tag(%s)", "x = 0 - %s\nadd_key(neg, x)", "drop_key(%s)"} {
			p := mk()
			txt := fmt.Sprintf(opText, k)
			sig := &probe.Sig{}
			if _, crash := impl.RunV1(load(t, txt), p, sig); crash != nil {
				rk.Fail(t, "kinds", replay{Ops: []string{txt}}, "operation panicked on an input field of kind %T: %s", vals[k], crash.Value)
			}
			if msg := invariantsAllKeys(t, p); msg != "" {
				rk.Fail(t, "kinds", replay{Ops: []string{txt}}, "input field %s of kind %T, after %q: %s", k, vals[k], txt, msg)
			}
			if strings.HasPrefix(opText, "probe") && len(sig.Trace) == 1 {
				if got, want := sig.Trace[0].Vals[0], probe.Render(p.Fields[k]); got != want {
					rk.Fail(t, "kinds", replay{Ops: []string{txt}}, "a script reads the input field %s (kind %T) as %s, the point holds %s", k, vals[k], got, want)
				}
			}
			evid.Case("kinds/"+txt, true, "input-kinds")
			n++
		}
	}
	evid.Exhaustive("input field kinds x operations", n)
}

// invariantsAllKeys: the generic part of the invariants for every key of the output.
func invariantsAllKeys(t rk.Failer, p *input.Point) string {
	for k, v := range p.Tags {
		if _, both := p.Fields[k]; both {
			return fmt.Sprintf("key %q is both a tag and a field", k)
		}
		gv, gt, gerr := p.Get(k)
		if gerr != nil || gt != ast.String || gv != any(v) {
			return fmt.Sprintf("Point.Get(%q) = %s/%s/%v, the output point holds tag %q", k, probe.Render(gv), gt, gerr, v)
		}
	}
	for k, v := range p.Fields {
		switch v.(type) {
		case nil, bool, int64, float64, string:
		default:
			return fmt.Sprintf("field %q holds a %T", k, v)
		}
		gv, gt, gerr := p.Get(k)
		if gerr != nil || probe.Render(gv) != probe.Render(v) || gt != dtypeOf(v) {
			return fmt.Sprintf("Point.Get(%q) = %s typed %s (err %v), the output point holds field %s", k, probe.Render(gv), gt, gerr, probe.Render(v))
		}
	}
	return ""
}

// TestReinitialisedPoint: a host may keep one Point value and initialise it again for the next record, without
// returning it to the pool in between: nothing of the previous record survives - neither keys nor index entries.
func TestReinitialisedPoint(t *testing.T) {
	ops := allOps()
	rk.Check(t, "reinit", 13, evid.Scale(300, 3000), func(t *rapid.T) {
		p := newPoint()
		var path []string
		for i, n := 0, rapid.IntRange(0, 6).Draw(t, "before"); i < n; i++ {
			o := ops[rapid.IntRange(0, len(ops)-1).Draw(t, "op")]
			path = append(path, o.Text)
			if _, crash := impl.RunV1(load(t, o.Text), p, nil); crash != nil {
				rk.Fail(t, "reinit", replay{Ops: path}, "operation panicked: %s", crash.Value)
			}
		}
		// the next record: other keys (some names change kind, some disappear)
		tags := map[string]string{}
		fields := map[string]any{}
		for _, k := range keys {
			switch rapid.IntRange(0, 3).Draw(t, "next-"+k) {
			case 0:
				tags[k] = "next tag " + k
			case 1:
				fields[k] = rapid.SampledFrom([]any{int64(9), "next", 1.5, nil, true}).Draw(t, "val-"+k)
			}
		}
		path = append(path, fmt.Sprintf("InitPt again with tags %v fields %v", tags, fields))
		input.InitPt(p, "m2", tags, fields, impl.FixedTime())
		if msg := invariants(t, p); msg != "" {
			rk.Fail(t, "reinit", replay{Ops: path}, "right after the second InitPt: %s\nhistory: %s", msg, strings.Join(path, " ; "))
		}
		for k := range p.Meta {
			if _, a := p.Tags[k]; !a {
				if _, b := p.Fields[k]; !b {
					rk.Fail(t, "reinit", replay{Ops: path}, "after the second InitPt the index still holds %q, which is neither a tag nor a field of the new record\nhistory: %s", k, strings.Join(path, " ; "))
				}
			}
		}
		for i, n := 0, rapid.IntRange(1, 6).Draw(t, "after"); i < n; i++ {
			o := ops[rapid.IntRange(0, len(ops)-1).Draw(t, "op2")]
			path = append(path, o.Text)
			if msg := apply(t, p, o); msg != "" {
				rk.Fail(t, "reinit", replay{Ops: path}, "%s\nhistory: %s", msg, strings.Join(path, " ; "))
			}
		}
		evid.Case("reinit/"+strings.Join(path, ";"), true, "reinitialised-point")
	})
}

func TestRandomSequences(t *testing.T) {
	ops := allOps()
	rk.Check(t, "random", 1, evid.Scale(600, 6000), func(t *rapid.T) {
		start := rapid.SampledFrom(startVariants).Draw(t, "start")
		p := newPointVariant(start)
		if msg := invariants(t, p); msg != "" {
			rk.Fail(t, "random", replay{Start: start}, "right after InitPt (%q): %s", start, msg)
		}
		n := rapid.IntRange(4, 40).Draw(t, "len")
		var path []string
		hot := false
		hotAccess := false
		touched := map[string]bool{}
		var unobs []int
		for i := 0; i < n; i++ {
			o := ops[rapid.IntRange(0, len(ops)-1).Draw(t, "op")]
			if rapid.IntRange(0, 2).Draw(t, "bias") == 0 {
				// bias towards the index-moving operations
				for !affects(o) {
					o = ops[rapid.IntRange(0, len(ops)-1).Draw(t, "op2")]
				}
			}
			path = append(path, o.Text)
			if touched[o.K] || touched[o.K2] {
				hotAccess = true
			}
			observe := i == n-1 || rapid.IntRange(0, 2).Draw(t, "observe") == 0
			if !observe {
				unobs = append(unobs, i)
			}
			if msg := applyObs(t, p, o, observe); msg != "" {
				rk.Fail(t, "random", replay{Ops: path, Unobserved: unobs, Start: start}, "%s\nstart: %q operations: %s\n(point not read back after steps %v)", msg, start, strings.Join(path, " ; "), unobs)
			}
			if affects(o) {
				hot = true
				touched[o.K] = true
				if o.K2 != "" {
					touched[o.K2] = true
				}
			}
		}
		evid.Case(strings.Join(path, ";")+fmt.Sprint(unobs), hot && hotAccess, "random-sequence")
		evid.LabelN("random-steps-not-read-back", len(unobs))
		if hot && hotAccess && n < 10 {
			var ks []string
			for k := range p.Tags {
				ks = append(ks, k+"(tag)")
			}
			for k := range p.Fields {
				ks = append(ks, k+"(field)")
			}
			sort.Strings(ks)
			evid.Sample(map[string]any{"operations": path, "final_keys": ks})
		}
	})
}

func TestReplays(t *testing.T) {
	files, _ := filepath.Glob(filepath.Join(evid.Dir(), "replays", prop, "*.json"))
	if r := os.Getenv("VERIF_REPLAY"); r != "" {
		files = []string{r}
	}
	byText := map[string]op{}
	for _, o := range allOps() {
		byText[o.Text] = o
	}
	for _, f := range files {
		b, err := os.ReadFile(f)
		if err != nil {
			continue
		}
		var r struct {
			Case replay `json:"case"`
		}
		if json.Unmarshal(b, &r) != nil || len(r.Case.Ops) == 0 {
			continue
		}
		t.Run(filepath.Base(f), func(t *testing.T) {
			p := newPointVariant(r.Case.Start)
			if msg := invariants(t, p); msg != "" {
				rk.Fail(t, "replay", r.Case, "right after InitPt (%q): %s", r.Case.Start, msg)
			}
			for i, txt := range r.Case.Ops {
				o, ok := byText[txt]
				if !ok {
					o = op{Text: txt, Kind: "other"}
				}
				observe := true
				for _, u := range r.Case.Unobserved {
					if u == i {
						observe = false
					}
				}
				if msg := applyObs(t, p, o, observe); msg != "" {
					rk.Fail(t, "replay", r.Case, "step %d (%s): %s", i, txt, msg)
				}
			}
			evid.Case("replay:"+strings.Join(r.Case.Ops, ";"), true, "replay")
		})
	}
}
