package c18

import (
	"strings"
	"sort"
	"encoding/json"
	"fmt"
	"os"
	"path/filepath"
	"sync"
	"testing"
	"verifharness/conv"
	"verifharness/impl"

	"pgregory.net/rapid"
	"verifharness/evid"
	"verifharness/gen"
	"verifharness/probe"
	"verifharness/rk"
	"verifharness/sem"
	"verifharness/sgen"
)

const prop = "C18"

func TestMain(m *testing.M) {
	evid.Init(prop, "exploration",
		"(1) exhaustive table: value-less constructs (call of a function returning nothing with and without arguments, attribute expression, object-less index, call returning several values where one is needed) x consuming positions (if / elif / for condition, binary operand left and right, unary operand, probe and pval argument, assignment and compound-assignment source, index key, slice object/bound/step, list element, map key and value, for-in iterable, `in` operands) x predecessor kinds (a preceding expression of a distinguishable value, so that a stale result register is observable); (2) random v2 programs over expressions, collections, slices, control flow, scoping, multi-assignment incl. swaps and function results spread over several targets, probe functions returning 0, 1 and n values supplied through the function table. Oracle: reference model in the v2 dialect (undefined name is an error; a, b = x, y evaluates the whole right side first; a value-less construct in a value position is an error, never an earlier value); compared: values received by the variadic probe, control flow (trace), error presence and location. Differential: programs inside the common language are also run on the v1 interpreter and must give the same trace. Non-trivial: a value-less construct in a consuming position, or a multi-assignment whose sides overlap; distinct by (construct, position, predecessor) resp. program skeleton.",
		"v2 has no point: programs use variables only; builtins come from the harness's function table (probe, pval, pvoid, pvoid1, pmulti, perr, len)")
	code := m.Run()
	evid.Flush(code == 0)
	os.Exit(code)
}

func id(s string) *gen.Node  { return gen.NIdent(s) }
func i64(i int64) *gen.Node  { return gen.NInt(i) }
func str(s string) *gen.Node { return gen.NStr(s) }

func judge(t rk.Failer, slot string, c *sem.Case, key string, nontrivial bool, labels ...string) sem.Verdict {
	c.V2 = true
	c.Print(nil)
	v := sem.Decide(c, func() sem.ImplOut { return sem.RunV2(c, &probe.Sig{}) }, nil, false, true)
	if v.Discard != nil {
		evid.Discard(v.Discard.Error())
		return v
	}
	if v.Msg != "" {
		rk.Fail(t, slot, c.Replay(""), "v2: %s\nscript:\n%s", v.Msg, c.Texts[c.Root])
	}
	evid.Case(key, nontrivial, labels...)
	return v
}

var voids = []struct {
	name string
	e    func() *gen.Node
}{
	{"pvoid()", func() *gen.Node { return gen.NCall("pvoid") }},
	{"pvoid1(arg)", func() *gen.Node { return gen.NCall("pvoid1", i64(77)) }},
	{"attr", func() *gen.Node { return gen.NAttr(id("o"), id("fld")) }},
	{"objless-index", func() *gen.Node { return gen.NIndex(nil, i64(0)) }},
	{"pvoidv(args)", func() *gen.Node { return gen.NCall("pvoidv", i64(41), i64(42)) }},
	{"pvoidv()", func() *gen.Node { return gen.NCall("pvoidv") }},
	{"probe(args)", func() *gen.Node { return gen.NCall("probe", str("as-value"), i64(43)) }},
	{"pmulti(2)", func() *gen.Node { return gen.NCall("pmulti", i64(8), i64(9)) }},
	{"pmulti(0)", func() *gen.Node { return gen.NCall("pmulti") }},
	{"nested-void-arg", func() *gen.Node { return gen.NCall("pval", gen.NCall("pvoid")) }},
}

var positions = []struct {
	name string
	s    func(v *gen.Node) []*gen.Node
}{
	{"if-cond", func(v *gen.Node) []*gen.Node {
		return []*gen.Node{gen.NIf([]*gen.Node{v}, [][]*gen.Node{{gen.NCall("probe", str("then"))}}, []*gen.Node{gen.NCall("probe", str("else"))}, true)}
	}},
	{"elif-cond", func(v *gen.Node) []*gen.Node {
		return []*gen.Node{gen.NIf([]*gen.Node{gen.NBool(false), v}, [][]*gen.Node{{}, {gen.NCall("probe", str("then"))}}, []*gen.Node{gen.NCall("probe", str("else"))}, true)}
	}},
	{"for-cond", func(v *gen.Node) []*gen.Node {
		return []*gen.Node{gen.NFor(nil, v, nil, []*gen.Node{gen.NCall("probe", str("body")), gen.NBreak()})}
	}},
	{"binary-left", func(v *gen.Node) []*gen.Node {
		return []*gen.Node{gen.NSet("r", gen.NBin("+", v, i64(1))), gen.NCall("probe", str("r"), id("r"))}
	}},
	{"binary-right", func(v *gen.Node) []*gen.Node {
		return []*gen.Node{gen.NSet("r", gen.NBin("+", i64(1), v)), gen.NCall("probe", str("r"), id("r"))}
	}},
	{"compare", func(v *gen.Node) []*gen.Node {
		return []*gen.Node{gen.NSet("r", gen.NBin("==", v, i64(5))), gen.NCall("probe", str("r"), id("r"))}
	}},
	{"logic-right", func(v *gen.Node) []*gen.Node {
		return []*gen.Node{gen.NSet("r", gen.NBin("&&", gen.NBool(true), v)), gen.NCall("probe", str("r"), id("r"))}
	}},
	{"unary-minus", func(v *gen.Node) []*gen.Node {
		return []*gen.Node{gen.NSet("r", gen.NUnary("-", v)), gen.NCall("probe", str("r"), id("r"))}
	}},
	{"unary-not", func(v *gen.Node) []*gen.Node {
		return []*gen.Node{gen.NSet("r", gen.NUnary("!", v)), gen.NCall("probe", str("r"), id("r"))}
	}},
	{"probe-arg", func(v *gen.Node) []*gen.Node { return []*gen.Node{gen.NCall("probe", str("arg"), v)} }},
	{"probe-2nd-arg", func(v *gen.Node) []*gen.Node { return []*gen.Node{gen.NCall("probe", str("arg"), i64(3), v)} }},
	{"pval-arg", func(v *gen.Node) []*gen.Node {
		return []*gen.Node{gen.NSet("r", gen.NCall("pval", v)), gen.NCall("probe", str("r"), id("r"))}
	}},
	{"assign-source", func(v *gen.Node) []*gen.Node {
		return []*gen.Node{gen.NSet("r", v), gen.NCall("probe", str("r"), id("r"))}
	}},
	{"assign-source-2nd", func(v *gen.Node) []*gen.Node {
		return []*gen.Node{gen.NAssign("=", []*gen.Node{id("r"), id("s")}, []*gen.Node{i64(3), v}), gen.NCall("probe", str("r"), id("r"), id("s"))}
	}},
	{"compound-source", func(v *gen.Node) []*gen.Node {
		return []*gen.Node{gen.NSet("r", i64(1)), gen.NAssign("+=", []*gen.Node{id("r")}, []*gen.Node{v}), gen.NCall("probe", str("r"), id("r"))}
	}},
	{"index-key", func(v *gen.Node) []*gen.Node {
		return []*gen.Node{gen.NSet("l", gen.NList(i64(10), i64(11), i64(12), i64(13), i64(14), i64(15))), gen.NSet("r", gen.NIndex(id("l"), v)), gen.NCall("probe", str("r"), id("r"))}
	}},
	{"index-write-key", func(v *gen.Node) []*gen.Node {
		return []*gen.Node{gen.NSet("l", gen.NList(i64(10), i64(11), i64(12), i64(13), i64(14), i64(15))), gen.NAssign("=", []*gen.Node{gen.NIndex(id("l"), v)}, []*gen.Node{i64(0)}), gen.NCall("probe", str("l"), id("l"))}
	}},
	{"slice-start", func(v *gen.Node) []*gen.Node {
		return []*gen.Node{gen.NSet("l", gen.NList(i64(10), i64(11), i64(12), i64(13), i64(14), i64(15))), gen.NSet("r", gen.NSlice(id("l"), gen.NParen(v), nil, nil, false)), gen.NCall("probe", str("r"), id("r"))}
	}},
	{"slice-end", func(v *gen.Node) []*gen.Node {
		return []*gen.Node{gen.NSet("l", gen.NList(i64(10), i64(11), i64(12), i64(13), i64(14), i64(15))), gen.NSet("r", gen.NSlice(id("l"), nil, gen.NParen(v), nil, false)), gen.NCall("probe", str("r"), id("r"))}
	}},
	{"slice-step", func(v *gen.Node) []*gen.Node {
		return []*gen.Node{gen.NSet("l", gen.NList(i64(10), i64(11), i64(12), i64(13), i64(14), i64(15))), gen.NSet("r", gen.NSlice(id("l"), nil, nil, gen.NParen(v), true)), gen.NCall("probe", str("r"), id("r"))}
	}},
	{"list-element", func(v *gen.Node) []*gen.Node {
		return []*gen.Node{gen.NSet("r", gen.NList(i64(1), v)), gen.NCall("probe", str("r"), id("r"))}
	}},
	{"map-value", func(v *gen.Node) []*gen.Node {
		return []*gen.Node{gen.NSet("r", gen.NMap(str("k"), v)), gen.NCall("probe", str("r"), id("r"))}
	}},
	{"map-key", func(v *gen.Node) []*gen.Node {
		return []*gen.Node{gen.NSet("r", gen.NMap(gen.NParen(v), i64(1))), gen.NCall("probe", str("r"), id("r"))}
	}},
	{"forin-iter", func(v *gen.Node) []*gen.Node {
		return []*gen.Node{gen.NForIn("q", gen.NParen(v), []*gen.Node{gen.NCall("probe", str("q"), id("q"))})}
	}},
	{"in-left", func(v *gen.Node) []*gen.Node {
		return []*gen.Node{gen.NSet("r", gen.NBin("in", v, gen.NList(i64(5), str("prev")))), gen.NCall("probe", str("r"), id("r"))}
	}},
	{"in-right", func(v *gen.Node) []*gen.Node {
		return []*gen.Node{gen.NSet("r", gen.NBin("in", str("p"), v)), gen.NCall("probe", str("r"), id("r"))}
	}},
	{"len-arg", func(v *gen.Node) []*gen.Node {
		return []*gen.Node{gen.NSet("r", gen.NCall("len", v)), gen.NCall("probe", str("r"), id("r"))}
	}},
}

// predecessors leave a distinguishable value in the result register right before the consumer
var preds = []struct {
	name string
	s    func() []*gen.Node
}{
	{"none", func() []*gen.Node { return nil }},
	{"int-expr-stmt", func() []*gen.Node { return []*gen.Node{i64(5)} }},
	{"true-expr-stmt", func() []*gen.Node { return []*gen.Node{gen.NBool(true)} }},
	{"string-assign", func() []*gen.Node { return []*gen.Node{gen.NSet("prev", str("prev"))} }},
	{"list-expr-stmt", func() []*gen.Node { return []*gen.Node{gen.NList(i64(1), i64(2))} }},
	{"pval-call", func() []*gen.Node { return []*gen.Node{gen.NCall("pval", i64(2))} }},
	{"comparison", func() []*gen.Node { return []*gen.Node{gen.NBin("<", i64(1), i64(2))} }},
}

func TestValuelessTable(t *testing.T) {
	n := 0
	for _, vd := range voids {
		for _, pos := range positions {
			for _, pr := range preds {
				prog := []*gen.Node{gen.NSet("o", gen.NMap(str("fld"), i64(1)))}
				prog = append(prog, pr.s()...)
				prog = append(prog, pos.s(vd.e())...)
				prog = append(prog, gen.NCall("probe", str("end")))
				c := sem.NewCase(gen.FixAll(prog))
				key := fmt.Sprintf("%s/%s/%s", vd.name, pos.name, pr.name)
				v := judge(t, "table", c, key, true, "table/"+vd.name)
				if n%53 == 0 && v.Msg == "" && v.Discard == nil {
					evid.Sample(map[string]any{"construct": vd.name, "position": pos.name, "predecessor": pr.name, "script": c.Texts[c.Root], "reference": outcome(v)})
				}
				n++
			}
		}
	}
	evid.Exhaustive("value-less construct x consuming position x predecessor", n)
}

func outcome(v sem.Verdict) string {
	if v.Model.Err != nil {
		return "error: " + v.Model.Err.Msg
	}
	return "ok"
}

func multiAssign(g *sgen.G, d int) *gen.Node {
	defined := []string{}
	for _, n := range g.Names {
		if g.Defined[n] {
			defined = append(defined, n)
		}
	}
	pick := func(label string) string { return g.Names[rapid.IntRange(0, len(g.Names)-1).Draw(g.T, label)] }
	a, b := pick("ma"), pick("mb")
	g.Feat["multi-assign"] = true
	switch rapid.IntRange(0, 8).Draw(g.T, "makind") {
	case 6: // a multi-value call first, then a scalar: the collected values must survive the later evaluation
		g.Feat["spread-multi"] = true
		g.Feat["multi-then-scalar"] = true
		c := g.Names[rapid.IntRange(0, len(g.Names)-1).Draw(g.T, "mc")]
		g.Env[a], g.Env[b], g.Env[c] = sgen.TInt, sgen.TInt, sgen.TInt
		g.Defined[a], g.Defined[b], g.Defined[c] = true, true, true
		return gen.NAssign("=", []*gen.Node{id(a), id(b), id(c)}, []*gen.Node{gen.NCall("pmulti", g.ExprOf(sgen.TInt, 1), g.ExprOf(sgen.TInt, 1)), g.ExprOf(sgen.TInt, 2)})
	case 7: // two multi-value calls
		g.Feat["spread-multi"] = true
		g.Feat["multi-then-multi"] = true
		g.Env["m1"], g.Env["m2"], g.Env["m3"], g.Env["m4"] = sgen.TInt, sgen.TStr, sgen.TInt, sgen.TStr
		g.Defined["m1"], g.Defined["m2"], g.Defined["m3"], g.Defined["m4"] = true, true, true, true
		return gen.NAssign("=", []*gen.Node{id("m1"), id("m2"), id("m3"), id("m4")}, []*gen.Node{gen.NCall("pmulti", i64(10), str("x")), gen.NCall("pmulti", g.ExprOf(sgen.TInt, 1), g.ExprOf(sgen.TStr, 1))})
	case 8: // scalar, multi, scalar
		g.Feat["spread-multi"] = true
		g.Env["m1"], g.Env["m2"], g.Env["m3"], g.Env["m4"] = sgen.TInt, sgen.TInt, sgen.TInt, sgen.TInt
		g.Defined["m1"], g.Defined["m2"], g.Defined["m3"], g.Defined["m4"] = true, true, true, true
		return gen.NAssign("=", []*gen.Node{id("m1"), id("m2"), id("m3"), id("m4")}, []*gen.Node{g.ExprOf(sgen.TInt, 1), gen.NCall("pmulti", i64(20), i64(30)), g.ExprOf(sgen.TInt, 1)})
	case 0:
		if len(defined) >= 2 {
			x, y := defined[0], defined[len(defined)-1]
			g.Feat["swap"] = true
			g.Env[x], g.Env[y] = g.Env[y], g.Env[x]
			return gen.NAssign("=", []*gen.Node{id(x), id(y)}, []*gen.Node{id(y), id(x)})
		}
		fallthrough
	case 1:
		g.Feat["spread-multi"] = true
		g.Env[a], g.Env[b], g.Defined[a], g.Defined[b] = sgen.TInt, sgen.TStr, true, true
		return gen.NAssign("=", []*gen.Node{id(a), id(b)}, []*gen.Node{gen.NCall("pmulti", g.ExprOf(sgen.TInt, 1), g.ExprOf(sgen.TStr, 1))})
	case 2:
		if len(defined) >= 1 {
			x := defined[0]
			g.Feat["overlap"] = true
			t := g.Env[x]
			g.Env[a], g.Defined[a] = t, true
			g.Env[x] = sgen.TInt
			return gen.NAssign("=", []*gen.Node{id(x), id(a)}, []*gen.Node{g.ExprOf(sgen.TInt, 1), id(x)})
		}
		fallthrough
	case 3:
		g.Feat["count-mismatch"] = true
		return gen.NAssign("=", []*gen.Node{id(a), id(b)}, []*gen.Node{g.ExprOf(sgen.TInt, 1)})
	case 4:
		g.Feat["element-targets"] = true
		g.Env["ml"], g.Defined["ml"] = sgen.TList, true
		return gen.NAssign("=", []*gen.Node{id("ml")}, []*gen.Node{gen.NList(i64(1), i64(2), i64(3))})
	default:
		g.Env[a], g.Env[b], g.Defined[a], g.Defined[b] = sgen.TInt, sgen.TInt, true, true
		return gen.NAssign("=", []*gen.Node{id(a), id(b)}, []*gen.Node{g.ExprOf(sgen.TInt, 2), g.ExprOf(sgen.TInt, 2)})
	}
}

func voidStmt(g *sgen.G, d int) *gen.Node {
	vd := voids[rapid.IntRange(0, len(voids)-1).Draw(g.T, "void")]
	pos := positions[rapid.IntRange(0, len(positions)-1).Draw(g.T, "position")]
	g.Feat["valueless-in-value-position"] = true
	ss := pos.s(vd.e())
	if len(ss) == 1 {
		return ss[0]
	}
	return gen.NIf([]*gen.Node{gen.NBool(true)}, [][]*gen.Node{ss}, nil, false)
}

func genProgram(t *rapid.T) ([]*gen.Node, *sgen.G) {
	g := sgen.New(t)
	g.V2 = true
	g.Probes = true
	g.Loops = true
	g.Slices = true
	g.Hostile = rapid.SampledFrom([]int{0, 0, 10}).Draw(t, "hostile")
	g.MaxDepth = rapid.IntRange(2, 3).Draw(t, "depth")
	g.Calls = []func(*sgen.G, int) *gen.Node{multiAssign, multiAssign}
	if rapid.IntRange(0, 3).Draw(t, "withvoid") == 0 {
		g.Calls = append(g.Calls, voidStmt)
	}
	var prog []*gen.Node
	for _, n := range g.Names[:rapid.IntRange(1, len(g.Names)).Draw(t, "predefined")] {
		ty := []sgen.Ty{sgen.TInt, sgen.TInt, sgen.TStr, sgen.TList, sgen.TMap, sgen.TFloat, sgen.TBool}[rapid.IntRange(0, 6).Draw(t, "ty")]
		prog = append(prog, gen.NSet(n, g.LitOf(ty, 1)))
		g.Env[n], g.Defined[n] = ty, true
	}
	prog = append(prog, g.Program(rapid.IntRange(2, 7).Draw(t, "size"), rapid.IntRange(1, 3).Draw(t, "nest"))...)
	return gen.FixAll(prog), g
}

// commonLanguage: the program stays inside what v1 and v2 share (single assignments, no v2-only functions).
func commonLanguage(prog []*gen.Node) bool {
	ok := true
	gen.WalkAll(prog, func(n *gen.Node) {
		switch n.Kind {
		case gen.Assign:
			if len(n.Args) != 1 || len(n.Rhs) != 1 {
				ok = false
			}
		case gen.Call:
			switch n.Name {
			case "pmulti", "pvoid1", "pvoidv":
				ok = false
			}
		case gen.Attr:
			ok = false
		case gen.Index:
			if n.X == nil {
				ok = false
			}
		}
	})
	return ok
}

func TestRandomPrograms(t *testing.T) {
	rk.Check(t, "random", 1, evid.Scale(5000, 30000), func(t *rapid.T) {
		prog, g := genProgram(t)
		c := sem.NewCase(prog)
		var labels []string
		for f := range g.Feat {
			labels = append(labels, "feat/"+f)
		}
		nt := g.Feat["valueless-in-value-position"] || g.Feat["swap"] || g.Feat["overlap"] || g.Feat["spread-multi"]
		v := judge(t, "random", c, gen.Skeleton(prog), nt, labels...)
		if v.Discard != nil {
			return
		}
		if nt && v.Model.Err == nil {
			evid.Sample(map[string]any{"script": c.Texts[c.Root], "probe_records": len(v.Model.Trace)})
		}
		// differential against v1 inside the common language, when v2 ran without error and no name was read undefined
		if v.Model.Err == nil && commonLanguage(prog) && !v.Weak {
			c1 := sem.NewCase(prog)
			c1.Texts = c.Texts
			o1 := sem.RunV1(c1, 0)
			if o1.Crash != nil || o1.Err != nil || len(o1.LoadErrs) > 0 {
				rk.Fail(t, "random", c.Replay("differential v1"), "v1 fails on a program v2 and the reference run without error: %v %v %v\nscript:\n%s", o1.Crash, o1.Err, o1.LoadErrs, c.Texts[c.Root])
			}
			if s := sem.CompareTrace(v.Impl.Trace, o1.Trace, v.Model.MapLoop); s != "" {
				rk.Fail(t, "random", c.Replay("differential v1"), "v1 and v2 disagree: v1 %s\nscript:\n%s", s, c.Texts[c.Root])
			}
			evid.Label("differential-v1-v2")
		}
	})
}

// TestLoopScopeTableV2: a name first assigned inside a loop body belongs to that pass: reading it in a later pass
// before it is assigned again is a read of an undefined name (an error in v2), never the previous pass's value.
func TestLoopScopeTableV2(t *testing.T) {
	loops := []struct {
		name string
		mk   func(body []*gen.Node) []*gen.Node
	}{
		{"for-3", func(b []*gen.Node) []*gen.Node {
			return []*gen.Node{gen.NFor(gen.NSet("i", i64(0)), gen.NBin("<", id("i"), i64(3)), gen.NSet("i", gen.NBin("+", id("i"), i64(1))), b)}
		}},
		{"for-cond-only", func(b []*gen.Node) []*gen.Node {
			return []*gen.Node{gen.NSet("i", i64(-1)), gen.NFor(nil, gen.NBin("<", id("i"), i64(2)), nil, append([]*gen.Node{gen.NSet("i", gen.NBin("+", id("i"), i64(1)))}, b...))}
		}},
		{"for-bare-break", func(b []*gen.Node) []*gen.Node {
			return []*gen.Node{gen.NSet("i", i64(-1)), gen.NFor(nil, nil, nil, append(append([]*gen.Node{gen.NSet("i", gen.NBin("+", id("i"), i64(1)))}, b...), gen.NIf([]*gen.Node{gen.NBin(">=", id("i"), i64(2))}, [][]*gen.Node{{gen.NBreak()}}, nil, false)))}
		}},
		{"for-in-list", func(b []*gen.Node) []*gen.Node {
			return []*gen.Node{gen.NForIn("i", gen.NList(i64(0), i64(1), i64(2)), b)}
		}},
		{"for-in-string", func(b []*gen.Node) []*gen.Node {
			return []*gen.Node{gen.NSet("i", i64(-1)), gen.NForIn("ch", str("abc"), append([]*gen.Node{gen.NSet("i", gen.NBin("+", id("i"), i64(1)))}, b...))}
		}},
		{"nested-inner", func(b []*gen.Node) []*gen.Node {
			return []*gen.Node{gen.NForIn("o", gen.NList(i64(7)), []*gen.Node{gen.NFor(gen.NSet("i", i64(0)), gen.NBin("<", id("i"), i64(3)), gen.NSet("i", gen.NBin("+", id("i"), i64(1))), b)})}
		}},
	}
	assigns := []struct {
		name string
		mk   func() []*gen.Node
	}{
		{"plain", func() []*gen.Node { return []*gen.Node{gen.NSet("loc", gen.NBin("*", id("i"), i64(10)))} }},
		{"multi", func() []*gen.Node {
			return []*gen.Node{gen.NAssign("=", []*gen.Node{id("loc"), id("loc2")}, []*gen.Node{gen.NBin("*", id("i"), i64(10)), i64(1)})}
		}},
		{"in-if", func() []*gen.Node {
			return []*gen.Node{gen.NIf([]*gen.Node{gen.NBool(true)}, [][]*gen.Node{{gen.NSet("loc", i64(5)), gen.NCall("probe", str("inner"), id("loc"))}}, nil, false), gen.NSet("loc", i64(6))}
		}},
		{"from-call", func() []*gen.Node { return []*gen.Node{gen.NSet("loc", gen.NCall("pval", id("i")))} }},
	}
	n := 0
	for _, lp := range loops {
		for _, as := range assigns {
			for readAt := 1; readAt <= 2; readAt++ {
				for esc := 0; esc < 3; esc++ {
					// pass 0 assigns; pass readAt reads before assigning; esc: how passes between end (normal / continue right after the assignment / continue before it in pass 1)
					body := []*gen.Node{gen.NCall("probe", str("pass"), id("i")),
						gen.NIf([]*gen.Node{gen.NBin("==", id("i"), i64(int64(readAt)))}, [][]*gen.Node{{gen.NCall("probe", str("stale?"), id("loc"))}}, nil, false)}
					if esc == 2 {
						body = append(body, gen.NIf([]*gen.Node{gen.NBin("==", id("i"), i64(1))}, [][]*gen.Node{{gen.NContinue()}}, nil, false))
					}
					body = append(body, as.mk()...)
					body = append(body, gen.NCall("probe", str("assigned"), id("loc")))
					for tail := 0; tail < 5; tail++ {
						// what the pass does after the assignment: nothing more; an inner loop left by break / continue / run to its end
						b2 := gen.CloneProg(body)
						switch tail {
						case 1:
							b2 = append(b2, gen.NForIn("x", gen.NList(i64(1), i64(2)), []*gen.Node{gen.NBreak()}))
						case 2:
							b2 = append(b2, gen.NForIn("x", str("ab"), []*gen.Node{gen.NSet("inner", id("x")), gen.NIf([]*gen.Node{gen.NBool(true)}, [][]*gen.Node{{gen.NBreak()}}, nil, false)}))
						case 3:
							b2 = append(b2, gen.NFor(gen.NSet("j", i64(0)), gen.NBin("<", id("j"), i64(2)), gen.NSet("j", gen.NBin("+", id("j"), i64(1))), []*gen.Node{gen.NSet("inner", id("j")), gen.NBreak()}))
						case 4:
							b2 = append(b2, gen.NForIn("x", gen.NList(i64(1), i64(2)), []*gen.Node{gen.NContinue()}), gen.NForIn("k", gen.NMap(str("only"), i64(1)), []*gen.Node{gen.NBreak()}))
						}
						if esc == 1 {
							b2 = append(b2, gen.NContinue())
						}
						prog := append(lp.mk(b2), gen.NCall("probe", str("done")))
						c := sem.NewCase(gen.FixAll(prog))
						judge(t, "loop-scope", c, fmt.Sprintf("loopscope/%s/%s/%d/%d/%d", lp.name, as.name, readAt, esc, tail), true, "loop-scope-v2")
						n++
					}
				}
			}
		}
	}
	evid.Exhaustive("v2 loop kinds x assignment forms x pass that reads x how passes end: body-local name read in a later pass", n)
}

// TestSliceCopyTableV2: a slice of a list is a new list in v2 as well: a write through the slice does not reach the
// source, and a write to the source does not reach the slice - for every bound form, step 1 included.
func TestSliceCopyTableV2(t *testing.T) {
	type sl struct {
		lo, hi, st *gen.Node
		colon2     bool
	}
	i := func(v int64) *gen.Node { return i64(v) }
	slices := []sl{{i(1), i(3), nil, false}, {nil, nil, nil, false}, {i(2), nil, nil, false}, {nil, i(2), nil, false}, {i(0), i(4), i(1), true}, {nil, nil, i(1), true}, {nil, nil, i(2), true}, {nil, nil, i(-1), true}, {i(-3), i(-1), nil, false}, {i(1), i(3), nil, true}}
	writes := []func(target string, k int64) *gen.Node{
		func(tg string, k int64) *gen.Node {
			return gen.NAssign("=", []*gen.Node{gen.NIndex(id(tg), i(k))}, []*gen.Node{i(99)})
		},
		func(tg string, k int64) *gen.Node {
			return gen.NAssign("+=", []*gen.Node{gen.NIndex(id(tg), i(k))}, []*gen.Node{i(100)})
		},
		func(tg string, k int64) *gen.Node {
			return gen.NAssign("=", []*gen.Node{gen.NIndex(id(tg), i(k)), id("z")}, []*gen.Node{i(77), i(0)})
		},
	}
	n := 0
	for si, s := range slices {
		for wi, w := range writes {
			for _, target := range []string{"a", "b"} {
				for _, k := range []int64{0, 1, -1} {
					for nest := 0; nest < 3; nest++ {
						mk := func(obj *gen.Node) *gen.Node {
							var lo, hi, st *gen.Node
							if s.lo != nil {
								lo = s.lo.Clone()
							}
							if s.hi != nil {
								hi = s.hi.Clone()
							}
							if s.st != nil {
								st = s.st.Clone()
							}
							return gen.NSlice(obj, lo, hi, st, s.colon2)
						}
						var prog []*gen.Node
						switch nest {
						case 0:
							prog = []*gen.Node{gen.NSet("a", gen.NList(i(1), i(2), i(3), i(4))), gen.NSet("b", mk(id("a")))}
						case 1:
							// the source sits inside a map and is reached through it: t = m["k"]; b = t[..]; a is the same list
							prog = []*gen.Node{gen.NSet("a", gen.NList(i(1), i(2), i(3), i(4))), gen.NSet("m", gen.NMap(str("k"), id("a"))), gen.NSet("t", gen.NIndex(id("m"), str("k"))), gen.NSet("b", mk(id("t")))}
						default:
							// a slice of a slice
							prog = []*gen.Node{gen.NSet("c", gen.NList(i(0), i(1), i(2), i(3), i(4), i(5))), gen.NSet("a", gen.NSlice(id("c"), i(1), i(5), nil, false)), gen.NSet("b", mk(id("a")))}
						}
						prog = append(prog, gen.NCall("probe", str("before"), id("a"), id("b")), w(target, k), gen.NCall("probe", str("after"), id("a"), id("b")))
						c := sem.NewCase(gen.FixAll(prog))
						judge(t, "slice-copy", c, fmt.Sprintf("slicecopy/%d/%d/%s/%d/%d", si, wi, target, k, nest), true, "slice-copy-v2")
						n++
					}
				}
			}
		}
	}
	evid.Exhaustive("v2: slice form x write form x written side x index x nesting of the source", n)
}

// TestIndexPathsV2: reads through index paths of depth 1..3 over a nested value: a key that is absent - at the end of
// the path or before it - gives nil like in the reference semantics; the keys are evaluated once, left to right,
// as far as the path is followed.
func TestIndexPathsV2(t *testing.T) {
	shape := func() *gen.Node {
		return gen.NMap(str("a"), gen.NMap(str("b"), i64(1), str("n"), gen.NNil()), str("l"), gen.NList(gen.NMap(str("c"), i64(2)), gen.NList(i64(3), i64(4))), str("s"), str("str"), str("z"), gen.NNil())
	}
	keys := []func() *gen.Node{
		func() *gen.Node { return str("a") }, func() *gen.Node { return str("b") }, func() *gen.Node { return str("l") }, func() *gen.Node { return str("zz") }, func() *gen.Node { return str("z") }, func() *gen.Node { return str("s") },
		func() *gen.Node { return i64(0) }, func() *gen.Node { return i64(1) }, func() *gen.Node { return i64(-1) }, func() *gen.Node { return i64(5) }, func() *gen.Node { return str("c") }, func() *gen.Node { return str("n") },
	}
	n := 0
	var rec func(path []int)
	rec = func(path []int) {
		if len(path) > 0 {
			for form := 0; form < 3; form++ {
				var ix []*gen.Node
				for _, k := range path {
					kn := keys[k]()
					if form == 1 {
						kn = gen.NCall("pval", kn) // every key leaves a record when it is evaluated
					}
					ix = append(ix, kn)
				}
				var prog []*gen.Node
				switch form {
				case 2:
					prog = []*gen.Node{gen.NSet("m", shape()), gen.NIf([]*gen.Node{gen.NIndex(id("m"), ix...)}, [][]*gen.Node{{gen.NCall("probe", str("then"))}}, []*gen.Node{gen.NCall("probe", str("else"))}, true)}
				default:
					prog = []*gen.Node{gen.NSet("m", shape()), gen.NSet("r", gen.NIndex(id("m"), ix...)), gen.NCall("probe", str("r"), id("r"))}
				}
				c := sem.NewCase(gen.FixAll(prog))
				judge(t, "index-paths", c, fmt.Sprintf("indexpath/%v/%d", path, form), true, "index-paths-v2")
				n++
			}
		}
		if len(path) == 3 {
			return
		}
		for k := range keys {
			if len(path) == 2 && k%2 == 1 {
				continue // half of the keys at the third level
			}
			rec(append(append([]int{}, path...), k))
		}
	}
	rec(nil)
	evid.Exhaustive("v2 index paths of depth 1..3 over a nested value x {plain keys, recorded keys, as a condition}", n)
}

// judgeRuns loads the script once and runs it len(c.Modes) times, pmode() returning c.Modes[k] in run k; every run is
// compared with the reference started from nothing.
func judgeRuns(t rk.Failer, slot string, c *sem.Case, key string, labels ...string) {
	c.V2 = true
	c.NoHistory = true
	c.Print(nil)
	var ld *sem.LoadedV2
	for k, m := range c.Modes {
		c.Mode = m
		v := sem.Decide(c, func() sem.ImplOut {
			if ld == nil {
				ld = sem.LoadV2(c)
			}
			return ld.Run(c, &probe.Sig{})
		}, nil, false, true)
		if v.Discard != nil {
			evid.Discard(v.Discard.Error())
			return
		}
		if v.Msg != "" {
			rk.Fail(t, slot, c.Replay(fmt.Sprintf("run %d of the loaded script, pmode()=%d, modes of the runs %v", k+1, m, c.Modes)), "v2, run %d (pmode()=%d of %v): %s\nscript:\n%s", k+1, m, c.Modes, v.Msg, c.Texts[c.Root])
		}
		oc := "ok"
		if v.Model.Err != nil {
			oc = "error"
		}
		labels = append(labels, fmt.Sprintf("rerun/run-%d/%s", k+1, oc))
	}
	evid.Case(key, true, labels...)
}

var modeSeqs = [][]int64{{1, 2}, {1, 0}, {0, 1, 2}, {1, 1, 2}, {2, 1, 0}, {1, 2, 0}, {0, 2}, {1, 0, 2, 1}}

// TestRunAgainOtherPath: a loaded v2 script is run again and takes another path (pmode() tells it which): a run that
// failed inside a block after assigning names at the top level is followed by a run that reads such a name before
// assigning it - an error in v2, whatever ran before - and by runs that go through; every run equals the reference
// started from nothing.
func TestRunAgainOtherPath(t *testing.T) {
	rk.Check(t, "rerun", 7, evid.Scale(500, 5000), func(t *rapid.T) {
		g := sgen.New(t)
		g.V2 = true
		g.Probes = true
		g.Loops = true
		g.Slices = true
		g.MaxDepth = 2
		g.Calls = []func(*sgen.G, int) *gen.Node{multiAssign}
		pm := func(k int64) *gen.Node { return gen.NBin("==", gen.NCall("pmode"), i64(k)) }
		var pre []*gen.Node
		npre := rapid.IntRange(1, len(g.Names)).Draw(t, "predefined")
		for _, n := range g.Names[:npre] {
			ty := []sgen.Ty{sgen.TInt, sgen.TInt, sgen.TStr, sgen.TList, sgen.TMap, sgen.TFloat, sgen.TBool}[rapid.IntRange(0, 6).Draw(t, "ty")]
			pre = append(pre, gen.NSet(n, g.LitOf(ty, 1)))
			g.Env[n], g.Defined[n] = ty, true
		}
		victim := g.Names[rapid.IntRange(0, npre-1).Draw(t, "victim")]
		body := g.Program(rapid.IntRange(1, 4).Draw(t, "size"), rapid.IntRange(1, 2).Draw(t, "nest"))
		// the failing statement of mode 1, inside a block, after assignments in that block as well
		fails := []func() []*gen.Node{
			func() []*gen.Node { return []*gen.Node{gen.NCall("perr")} },
			func() []*gen.Node {
				return []*gen.Node{gen.NSet("z0", i64(0)), gen.NSet("q", gen.NBin("%", i64(1), id("z0")))}
			},
			func() []*gen.Node { return []*gen.Node{gen.NSet("q", id("never_defined"))} },
			func() []*gen.Node {
				return []*gen.Node{gen.NSet("l5", gen.NList(i64(1))), gen.NSet("q", gen.NBin("+", gen.NIndex(id("l5"), i64(5)), i64(1)))}
			},
			func() []*gen.Node { return []*gen.Node{gen.NSet("q", gen.NCall("pvoid"))} },
		}
		fk := rapid.IntRange(0, len(fails)-1).Draw(t, "fail")
		inner := append([]*gen.Node{gen.NSet("blk1", i64(1)), gen.NSet(victim, i64(-7))}, fails[fk]()...)
		wraps := []func(b []*gen.Node) *gen.Node{
			func(b []*gen.Node) *gen.Node { return gen.NIf([]*gen.Node{pm(1)}, [][]*gen.Node{b}, nil, false) },
			func(b []*gen.Node) *gen.Node {
				return gen.NFor(gen.NSet("it", i64(0)), gen.NBin("<", id("it"), i64(3)), gen.NSet("it", gen.NBin("+", id("it"), i64(1))),
					[]*gen.Node{gen.NIf([]*gen.Node{gen.NBin("&&", pm(1), gen.NBin("==", id("it"), i64(1)))}, [][]*gen.Node{b}, nil, false)})
			},
			func(b []*gen.Node) *gen.Node {
				return gen.NForIn("el", gen.NList(i64(1), i64(2)), []*gen.Node{gen.NIf([]*gen.Node{pm(1)}, [][]*gen.Node{b}, nil, false)})
			},
			func(b []*gen.Node) *gen.Node {
				return gen.NIf([]*gen.Node{gen.NBool(true)}, [][]*gen.Node{{gen.NSet("outer1", i64(1)), gen.NIf([]*gen.Node{pm(0)}, [][]*gen.Node{{gen.NCall("probe", str("mode0"))}}, b, true)}}, nil, false)
			},
		}
		wk := rapid.IntRange(0, len(wraps)-1).Draw(t, "wrap")
		tail := wraps[wk](inner)
		at := rapid.IntRange(0, len(body)).Draw(t, "at")
		prog := []*gen.Node{gen.NIf([]*gen.Node{pm(2)}, [][]*gen.Node{{gen.NCall("probe", str("early"), id(victim))}}, nil, false)}
		prog = append(prog, pre...)
		prog = append(prog, body[:at]...)
		prog = append(prog, tail)
		prog = append(prog, body[at:]...)
		end := gen.NCall("probe", str("end"))
		for _, n := range g.Names[:npre] {
			end.Args = append(end.Args, id(n))
		}
		prog = append(prog, end)
		c := sem.NewCase(gen.FixAll(prog))
		mk := rapid.IntRange(0, len(modeSeqs)-1).Draw(t, "modes")
		c.Modes = modeSeqs[mk]
		judgeRuns(t, "rerun", c, fmt.Sprintf("rerun/%d/%d/%d/%s", fk, wk, mk, gen.Print(c.Scripts[c.Root], gen.Minimal{})), "rerun-other-path", fmt.Sprintf("rerun/fail-%d", fk), fmt.Sprintf("rerun/block-%d", wk), fmt.Sprintf("rerun/modes-%v", c.Modes))
	})
}

// TestMutationDuringIterationV2: a for-in over a list sees what its body writes to positions it has not reached yet -
// through the list's name, through an alias, through a container that holds it; `=` and `+=`.
func TestMutationDuringIterationV2(t *testing.T) {
	i := i64
	n := 0
	for via := 0; via < 4; via++ {
		for off := int64(1); off <= 2; off++ {
			for _, op := range []string{"=", "+="} {
				var pre []*gen.Node
				target := "l"
				switch via {
				case 1:
					pre = []*gen.Node{gen.NSet("m", id("l"))}
					target = "m"
				case 2:
					pre = []*gen.Node{gen.NSet("box", gen.NMap(str("k"), id("l"))), gen.NSet("m", gen.NIndex(id("box"), str("k")))}
					target = "m"
				case 3:
					pre = []*gen.Node{gen.NSet("box", gen.NList(id("l"), i(0)))}
				}
				var write *gen.Node
				idx := gen.NBin("+", id("p"), i(off))
				if via == 3 {
					write = gen.NAssign(op, []*gen.Node{gen.NIndex(id("box"), i(0), idx)}, []*gen.Node{gen.NBin("+", id("x"), i(100))})
				} else {
					write = gen.NAssign(op, []*gen.Node{gen.NIndex(id(target), idx)}, []*gen.Node{gen.NBin("+", id("x"), i(100))})
				}
				prog := append([]*gen.Node{gen.NSet("l", gen.NList(i(1), i(2), i(3), i(4), i(5))), gen.NSet("p", i(0))}, pre...)
				prog = append(prog, gen.NForIn("x", id("l"), []*gen.Node{
					gen.NCall("probe", str("pass"), id("p"), id("x")),
					gen.NIf([]*gen.Node{gen.NBin("<", idx.Clone(), i(5))}, [][]*gen.Node{{write}}, nil, false),
					gen.NSet("p", gen.NBin("+", id("p"), i(1)))}),
					gen.NCall("probe", str("after"), id("l")))
				judge(t, "iter-mutation", sem.NewCase(gen.FixAll(prog)), fmt.Sprintf("itermut/%d/%d/%s", via, off, op), true, "mutation-during-iteration-v2")
				n++
			}
		}
	}
	progs := [][]*gen.Node{
		{gen.NSet("rows", gen.NList(gen.NList(i(1)), gen.NList(i(1)), gen.NList(i(1)))), gen.NSet("p", i(0)),
			gen.NForIn("r", id("rows"), []*gen.Node{gen.NAssign("+=", []*gen.Node{gen.NIndex(id("r"), i(0))}, []*gen.Node{id("p")}),
				gen.NIf([]*gen.Node{gen.NBin("==", id("p"), i(0))}, [][]*gen.Node{{gen.NAssign("=", []*gen.Node{gen.NIndex(id("rows"), i(2))}, []*gen.Node{gen.NList(i(50))})}}, nil, false),
				gen.NSet("p", gen.NBin("+", id("p"), i(1)))}), gen.NCall("probe", str("rows"), id("rows"))},
		{gen.NSet("l", gen.NList(i(1), i(2), i(3))), gen.NSet("s", gen.NSlice(id("l"), nil, nil, nil, false)),
			gen.NForIn("x", id("l"), []*gen.Node{gen.NAssign("=", []*gen.Node{gen.NIndex(id("s"), i(2))}, []*gen.Node{i(9)}), gen.NCall("probe", str("x"), id("x"))}), gen.NCall("probe", str("l-s"), id("l"), id("s"))},
		// a map under iteration: a value written for a key that is (only one key left) certainly still to come
		{gen.NSet("l", gen.NList(str("a"), str("b"), str("c"))), gen.NSet("k", i(0)),
			gen.NForIn("x", id("l"), []*gen.Node{gen.NCall("probe", str("x"), id("x")), gen.NIf([]*gen.Node{gen.NBin("<", id("k"), i(2))}, [][]*gen.Node{{gen.NAssign("=", []*gen.Node{gen.NIndex(id("l"), gen.NBin("+", id("k"), i(1)))}, []*gen.Node{gen.NBin("+", id("x"), str("!"))})}}, nil, false),
				gen.NSet("k", gen.NBin("+", id("k"), i(1)))})},
	}
	for k, p := range progs {
		judge(t, "iter-mutation", sem.NewCase(gen.FixAll(p)), fmt.Sprintf("itermut/rows/%d", k), true, "mutation-during-iteration-v2")
		n++
	}
	evid.Exhaustive("v2: write to a later position during for-in: via x offset x operator; rows", n)
}

// TestMultiAssignTargetsV2: the targets of `a, b = x, y` are assigned from left to right after the whole right side
// was evaluated: a later index target sees what an earlier target bound, an index key names are looked up when their
// target is assigned, aliases stay aliases.
func TestMultiAssignTargetsV2(t *testing.T) {
	ix := func(n string, k *gen.Node) *gen.Node { return gen.NIndex(id(n), k) }
	l78 := func() *gen.Node { return gen.NList(i64(7), i64(8)) }
	type cs struct {
		name string
		pre  []string // which of l, m, o, a are defined beforehand
		lhs  []*gen.Node
		rhs  []*gen.Node
	}
	cases := []cs{
		{"name-then-its-element", []string{"l"}, []*gen.Node{id("l"), ix("l", i64(0))}, []*gen.Node{l78(), i64(5)}},
		{"element-then-name", []string{"l"}, []*gen.Node{ix("l", i64(0)), id("l")}, []*gen.Node{i64(5), l78()}},
		{"fresh-name-then-its-element", nil, []*gen.Node{id("l"), ix("l", i64(0))}, []*gen.Node{l78(), i64(5)}},
		{"fresh-map-then-its-key", nil, []*gen.Node{id("m"), ix("m", str("k"))}, []*gen.Node{gen.NMap(str("a"), i64(1)), i64(2)}},
		{"map-then-its-key", []string{"m"}, []*gen.Node{id("m"), ix("m", str("k"))}, []*gen.Node{gen.NMap(str("z"), i64(0)), i64(2)}},
		{"alias-then-element-of-source", []string{"l", "o"}, []*gen.Node{id("l"), ix("o", i64(0))}, []*gen.Node{id("o"), i64(4)}},
		{"element-of-source-then-alias", []string{"l", "o"}, []*gen.Node{ix("o", i64(0)), id("l")}, []*gen.Node{i64(4), id("o")}},
		{"swap-elements", []string{"l"}, []*gen.Node{ix("l", i64(0)), ix("l", i64(1))}, []*gen.Node{ix("l", i64(1)), ix("l", i64(0))}},
		{"name-and-two-elements", []string{"l"}, []*gen.Node{id("l"), ix("l", i64(0)), ix("l", i64(1))}, []*gen.Node{gen.NList(i64(0), i64(0)), i64(1), i64(2)}},
		{"key-name-bound-earlier", []string{"l", "a"}, []*gen.Node{id("a"), ix("l", id("a"))}, []*gen.Node{i64(1), i64(70)}},
		{"key-name-bound-later", []string{"l", "a"}, []*gen.Node{ix("l", id("a")), id("a")}, []*gen.Node{i64(70), i64(1)}},
		{"same-name-twice", nil, []*gen.Node{id("x"), id("x")}, []*gen.Node{i64(1), i64(2)}},
		{"element-of-undefined", nil, []*gen.Node{id("q"), ix("nolist", i64(0))}, []*gen.Node{i64(1), i64(2)}},
		{"nested-element-after-rebind", []string{"l"}, []*gen.Node{id("l"), gen.NIndex(id("l"), i64(0), i64(1))}, []*gen.Node{gen.NList(gen.NList(i64(1), i64(2))), i64(9)}},
		{"element-out-of-range-after-rebind", []string{"l"}, []*gen.Node{id("l"), ix("l", i64(2))}, []*gen.Node{l78(), i64(5)}},
		{"from-multi-value-call", []string{"l"}, []*gen.Node{id("l"), ix("l", i64(1))}, []*gen.Node{gen.NCall("pmulti", l78(), i64(5))}},
	}
	n := 0
	for _, c := range cases {
		for where := 0; where < 3; where++ {
			var prog []*gen.Node
			has := map[string]bool{}
			for _, p := range c.pre {
				has[p] = true
			}
			if has["l"] {
				prog = append(prog, gen.NSet("l", gen.NList(i64(1), i64(2), i64(3))), gen.NSet("keep", id("l")))
			}
			if has["m"] {
				prog = append(prog, gen.NSet("m", gen.NMap(str("a"), i64(1))), gen.NSet("keepm", id("m")))
			}
			if has["o"] {
				prog = append(prog, gen.NSet("o", gen.NList(i64(9), i64(9))))
			}
			if has["a"] {
				prog = append(prog, gen.NSet("a", i64(0)))
			}
			var lhs, rhs []*gen.Node
			for _, x := range c.lhs {
				lhs = append(lhs, x.Clone())
			}
			for _, x := range c.rhs {
				rhs = append(rhs, x.Clone())
			}
			asg := gen.NAssign("=", lhs, rhs)
			var seen []*gen.Node
			for _, nm := range []string{"l", "m", "o", "a", "x", "q", "keep", "keepm"} {
				if has[nm] || nm == "keep" && has["l"] || nm == "keepm" && has["m"] {
					seen = append(seen, id(nm))
					continue
				}
				for _, tg := range c.lhs {
					if tg.Kind == gen.Ident && tg.Name == nm {
						seen = append(seen, id(nm))
						break
					}
				}
			}
			after := gen.NCall("probe", append([]*gen.Node{str("after")}, seen...)...)
			switch where {
			case 0:
				prog = append(prog, asg, after)
			case 1: // inside a block: names defined before are updated, not shadowed
				prog = append(prog, gen.NIf([]*gen.Node{gen.NBool(true)}, [][]*gen.Node{{asg, after.Clone()}}, nil, false))
				if len(c.pre) > 0 {
					var outer []*gen.Node
					for _, p := range c.pre {
						outer = append(outer, id(p))
					}
					prog = append(prog, gen.NCall("probe", append([]*gen.Node{str("outside")}, outer...)...))
				}
			default: // twice in a loop
				prog = append(prog, gen.NForIn("it", gen.NList(i64(1), i64(2)), []*gen.Node{asg, after}))
			}
			judge(t, "multi-targets", sem.NewCase(gen.FixAll(prog)), fmt.Sprintf("multitargets/%s/%d", c.name, where), true, "multi-assign-targets-v2")
			n++
		}
	}
	evid.Exhaustive("v2 multi-assignment: target combinations (names, elements through the same name, aliases, key names) x {top level, block, loop}", n)
}

// TestStringMembershipV2: `needle in haystack` on strings is byte-wise containment, also for needles and haystacks
// that are not valid UTF-8, for U+FFFD, for parts of a character, and for the per-character values a for-in delivers.
func TestStringMembershipV2(t *testing.T) {
	strs := []string{"", "a", "abc", "caf\xc3\xa9", "\xff", "\xfe", "a\xfeb", "x\xfe", "\xc3", "\xa9", "\xef\xbf\xbd", "a\xef\xbf\xbdb", "\xf0\x9f\x98\x80", "\xf0\x9f", "\x98\x80", "\x00", "a\x00b", "é", "e"}
	n := 0
	for _, needle := range strs {
		for _, hay := range strs {
			prog := []*gen.Node{gen.NCall("probe", str("in"), gen.NBin("in", str(needle), str(hay))),
				gen.NSet("nd", str(needle)), gen.NSet("hs", str(hay)), gen.NCall("probe", str("in-vars"), gen.NBin("in", id("nd"), id("hs")))}
			judge(t, "string-in", sem.NewCase(gen.FixAll(prog)), fmt.Sprintf("strin/%x/%x", needle, hay), true, "string-membership-v2")
			n++
		}
		// every character of the needle, as a for-in delivers it, against every haystack
		var body []*gen.Node
		for hi, hay := range strs {
			body = append(body, gen.NCall("probe", str(fmt.Sprint("c-in-", hi)), id("c"), gen.NBin("in", id("c"), str(hay))))
		}
		if needle != "" {
			prog := []*gen.Node{gen.NForIn("c", str(needle), body)}
			judge(t, "string-in", sem.NewCase(gen.FixAll(prog)), fmt.Sprintf("strin-forin/%x", needle), true, "string-membership-v2")
			n++
		}
	}
	evid.Exhaustive("needle x haystack over valid, invalid and partial encodings; for-in characters as needles", n)
}

// TestConcurrentRunsV2: one loaded v2 script run by several goroutines at once, each run with an input of its own
// (pmode()): every run computes what the reference computes for its input - the runs share the program, nothing else.
func TestConcurrentRunsV2(t *testing.T) {
	src := "m = pmode()\nacc = 0\nx = 0\ns = \"\"\nfor i = 0; i < 150; i = i + 1 {\n  acc = acc + (m * 3 + i) % 7\n  if (m + i) % 2 == 0 || acc < 0 {\n    acc = acc + 1\n  }\n  l = [m, i, acc]\n  x = l[0] + l[1] + len(l)\n  s = \"v\" + \"w\"\n}\nprobe(\"r\", m, acc, x, s)"
	stmts, perr, crash := impl.Parse("main.p", src)
	if perr != nil || crash != nil {
		t.Fatalf("harness: %v %v", perr, crash)
	}
	tree, cv := conv.Stmts(stmts)
	if cv.Err != nil {
		t.Fatalf("harness: %v", cv.Err)
	}
	base := sem.NewCase(tree)
	base.V2 = true
	base.Texts = map[string]string{"main.p": src}
	base.Fuel = 100000
	ld := sem.LoadV2(base)
	want := map[int64]string{}
	for m := int64(0); m < 8; m++ {
		c := *base
		c.Mode = m
		mo := sem.RunModel(&c, map[string]int{}, nil)
		if mo.Err != nil || mo.Discard != nil || len(mo.Trace) != 1 {
			t.Fatalf("harness: reference run failed: %v %v", mo.Err, mo.Discard)
		}
		want[m] = mo.Trace[0].String()
	}
	n := 0
	for rep := 0; rep < evid.Scale(40, 400); rep++ {
		var wg sync.WaitGroup
		got := make([]string, 8)
		start := make(chan struct{})
		for g := 0; g < 8; g++ {
			wg.Add(1)
			go func(g int) {
				defer wg.Done()
				c := *base
				c.Mode = int64(g)
				<-start
				io := ld.Run(&c, &probe.Sig{})
				switch {
				case io.Crash != nil:
					got[g] = "CRASH " + io.Crash.Value
				case io.Err != nil:
					got[g] = "ERR " + io.Err.Error()
				case len(io.Trace) != 1:
					got[g] = fmt.Sprintf("%d records", len(io.Trace))
				default:
					got[g] = io.Trace[0].String()
				}
			}(g)
		}
		close(start)
		wg.Wait()
		for g := 0; g < 8; g++ {
			if got[g] != want[int64(g)] {
				rk.Fail(t, "concurrent-v2", base.Replay(fmt.Sprintf("eight overlapping runs of one loaded script, pmode() = 0..7; the run with pmode() = %d", g)), "v2: a run that overlaps other runs of the same loaded script computed %s, the reference computes %s\nscript:\n%s", got[g], want[int64(g)], src)
			}
			n++
		}
	}
	evid.Case("concurrent-v2", true, "concurrent-runs-v2")
	evid.Exhaustive("eight overlapping runs of one loaded v2 script x repetitions", n)
}

// TestBreakAndPostClauseV2: a three-clause loop left through break does not evaluate its post clause again; continue
// does evaluate it; what the post clause does is visible afterwards (a counter declared before the loop, a probe, a
// failing expression).
func TestBreakAndPostClauseV2(t *testing.T) {
	posts := []func() *gen.Node{
		func() *gen.Node { return gen.NSet("i", gen.NBin("+", id("i"), i64(1))) },
		func() *gen.Node { return gen.NSet("i", gen.NCall("pval", gen.NBin("+", id("i"), i64(1)))) },
		func() *gen.Node { return gen.NAssign("+=", []*gen.Node{id("i")}, []*gen.Node{i64(1)}) },
		func() *gen.Node {
			return gen.NSet("i", gen.NBin("+", id("i"), gen.NBin("/", i64(1), gen.NBin("-", i64(2), id("i")))))
		}, // fails when i == 2
	}
	bodies := []func() []*gen.Node{
		func() []*gen.Node {
			return []*gen.Node{gen.NIf([]*gen.Node{gen.NBin("==", id("i"), i64(2))}, [][]*gen.Node{{gen.NBreak()}}, nil, false), gen.NCall("probe", str("pass"), id("i"))}
		},
		func() []*gen.Node { return []*gen.Node{gen.NBreak()} },
		func() []*gen.Node {
			return []*gen.Node{gen.NCall("probe", str("pass"), id("i")), gen.NIf([]*gen.Node{gen.NBin("==", id("i"), i64(1))}, [][]*gen.Node{{gen.NContinue()}}, nil, false), gen.NIf([]*gen.Node{gen.NBin(">=", id("i"), i64(2))}, [][]*gen.Node{{gen.NIf([]*gen.Node{gen.NBool(true)}, [][]*gen.Node{{gen.NBreak()}}, nil, false)}}, nil, false), gen.NSet("acc", gen.NBin("+", id("acc"), id("i")))}
		},
		func() []*gen.Node {
			return []*gen.Node{gen.NForIn("e", gen.NList(i64(1), i64(2)), []*gen.Node{gen.NIf([]*gen.Node{gen.NBin("==", id("e"), i64(2))}, [][]*gen.Node{{gen.NBreak()}}, nil, false)}), gen.NIf([]*gen.Node{gen.NBin("==", id("i"), i64(1))}, [][]*gen.Node{{gen.NBreak()}}, nil, false)}
		},
	}
	n := 0
	for pi, post := range posts {
		for bi, body := range bodies {
			for _, outside := range []bool{true, false} {
				var prog []*gen.Node
				if outside {
					prog = []*gen.Node{gen.NSet("i", i64(0)), gen.NSet("acc", i64(0)), gen.NFor(nil, gen.NBin("<", id("i"), i64(10)), post(), body()), gen.NCall("probe", str("after"), id("i"), id("acc"))}
				} else {
					prog = []*gen.Node{gen.NSet("acc", i64(0)), gen.NFor(gen.NSet("i", i64(0)), gen.NBin("<", id("i"), i64(10)), post(), body()), gen.NCall("probe", str("after"), id("acc"))}
				}
				judge(t, "break-post", sem.NewCase(gen.FixAll(prog)), fmt.Sprintf("breakpost/%d/%d/%v", pi, bi, outside), true, "break-and-post-clause-v2")
				n++
			}
		}
	}
	evid.Exhaustive("post clause x body with break / continue x counter declared before or in the loop", n)
}

// TestBigIntComparisonsV2: comparisons of integers are exact at every magnitude; integers that round to the same
// float64 are still different integers.
func TestBigIntComparisonsV2(t *testing.T) {
	pairs := [][2]int64{{9007199254740993, 9007199254740992}, {9223372036854775807, 9223372036854775806}, {-9007199254740993, -9007199254740992}, {9007199254740992, 9007199254740992}, {1600000000000000001, 1600000000000000000}, {-9223372036854775807, -9223372036854775806}, {5, 5}, {3, 4}}
	n := 0
	for pi, pr := range pairs {
		for _, op := range []string{"==", "!=", "<", "<=", ">", ">="} {
			prog := []*gen.Node{gen.NSet("a", i64(pr[0])), gen.NSet("b", i64(pr[1])),
				gen.NCall("probe", str("lit"), gen.NBin(op, i64(pr[0]), i64(pr[1])), gen.NBin(op, i64(pr[1]), i64(pr[0]))),
				gen.NCall("probe", str("var"), gen.NBin(op, id("a"), id("b")), gen.NBin(op, id("b"), id("a")), gen.NBin(op, id("a"), id("a"))),
				gen.NIf([]*gen.Node{gen.NBin(op, id("a"), id("b"))}, [][]*gen.Node{{gen.NCall("probe", str("then"))}}, []*gen.Node{gen.NCall("probe", str("else"))}, true),
				gen.NCall("probe", str("in"), gen.NBin("in", id("a"), gen.NList(id("b"))), gen.NBin("in", id("a"), gen.NList(id("b"), id("a"))))}
			judge(t, "bigint-cmp", sem.NewCase(gen.FixAll(prog)), fmt.Sprintf("bigintcmp/%d/%s", pi, op), true, "big-int-comparisons-v2")
			n++
		}
	}
	evid.Exhaustive("integer pair (neighbours beyond 2^53 and at the int64 limits) x comparison operator", n)
}

// TestEvaluationOrderOfComposites: sgen.OrderCases - every composite form with a probed operand in every child position,
// alone and next to a failing sibling - under the v2 interpreter: children are evaluated in text order, each once, and a
// failure ends the statement with exactly the earlier siblings evaluated.
func TestEvaluationOrderOfComposites(t *testing.T) {
	cases := sgen.OrderCases()
	var names []string
	for k := range cases {
		names = append(names, k)
	}
	sort.Strings(names)
	for _, name := range names {
		judge(t, "order", sem.NewCase(gen.FixAll(gen.CloneProg(cases[name]))), "order/"+name, true, "evaluation-order/"+strings.SplitN(name, "/", 2)[0])
	}
	evid.Exhaustive("composite form x probed child positions x failing sibling (v2)", len(names))
}

func TestFixedDialect(t *testing.T) {
	cases := [][]*gen.Node{
		{gen.NCall("probe", str("x"), id("undefined_name"))},
		{gen.NSet("a", i64(1)), gen.NSet("b", i64(2)), gen.NAssign("=", []*gen.Node{id("a"), id("b")}, []*gen.Node{id("b"), id("a")}), gen.NCall("probe", str("swap"), id("a"), id("b"))},
		{gen.NSet("a", i64(1)), gen.NAssign("=", []*gen.Node{id("a"), id("b")}, []*gen.Node{i64(10), gen.NBin("+", id("a"), i64(1))}), gen.NCall("probe", str("rhs-first"), id("a"), id("b"))},
		{gen.NAssign("=", []*gen.Node{id("a"), id("b"), id("c")}, []*gen.Node{gen.NCall("pmulti", i64(1), i64(2), i64(3))}), gen.NCall("probe", str("spread"), id("a"), id("b"), id("c"))},
		{gen.NAssign("=", []*gen.Node{id("a"), id("b"), id("c")}, []*gen.Node{i64(0), gen.NCall("pmulti", i64(2), i64(3))}), gen.NCall("probe", str("spread2"), id("a"), id("b"), id("c"))},
		{gen.NSet("a", i64(5)), gen.NSet("b", gen.NCall("pvoid")), gen.NCall("probe", str("stale"), id("b"))},
		{gen.NAssign("=", []*gen.Node{id("a"), id("b"), id("c")}, []*gen.Node{gen.NCall("pmulti", i64(10), i64(20)), i64(5)}), gen.NCall("probe", str("multi-first"), id("a"), id("b"), id("c"))},
		{gen.NAssign("=", []*gen.Node{id("a"), id("b"), id("c"), id("d")}, []*gen.Node{gen.NCall("pmulti", i64(10), i64(20)), gen.NCall("pmulti", i64(30), i64(40))}), gen.NCall("probe", str("multi-multi"), id("a"), id("b"), id("c"), id("d"))},
		{gen.NSet("a", i64(5)), gen.NSet("b", gen.NCall("pvoidv", i64(1), i64(2))), gen.NCall("probe", str("stale"), id("b"))},
		{gen.NIf([]*gen.Node{gen.NCall("pvoidv", i64(0))}, [][]*gen.Node{{gen.NCall("probe", str("then"))}}, []*gen.Node{gen.NCall("probe", str("else"))}, true)},
		{gen.NSet("a", i64(5)), gen.NSet("b", gen.NCall("pvoid1", i64(6))), gen.NCall("probe", str("stale"), id("b"))},
		{gen.NSet("o", gen.NMap()), i64(5), gen.NSet("x", gen.NAttr(id("o"), id("b"))), gen.NCall("probe", str("stale"), id("x"))},
		{gen.NSet("l", gen.NList(i64(1))), gen.NAssign("=", []*gen.Node{gen.NIndex(id("l"), i64(0)), id("z")}, []*gen.Node{i64(7), gen.NIndex(id("l"), i64(0))}), gen.NCall("probe", str("elem"), id("l"), id("z"))},
		{gen.NIf([]*gen.Node{gen.NBool(true)}, [][]*gen.Node{{gen.NSet("inner", i64(1))}}, nil, false), gen.NCall("probe", str("gone"), id("inner"))},
		// the loop clause runs in the scope of the for statement: a name it creates is seen by later passes, a body-local name is gone
		{gen.NFor(gen.NSet("i", i64(0)), gen.NBin("<", id("i"), i64(4)), gen.NSet("n", gen.NBin("*", id("i"), i64(10))), []*gen.Node{gen.NIf([]*gen.Node{gen.NBin(">", id("i"), i64(0))}, [][]*gen.Node{{gen.NCall("probe", str("clause-name"), id("i"), id("n"))}}, nil, false), gen.NSet("i", gen.NBin("+", id("i"), i64(1)))})},
		{gen.NFor(gen.NSet("i", i64(0)), gen.NBin("<", id("i"), i64(6)), gen.NSet("i", gen.NBin("+", gen.NBin("+", id("i"), i64(1)), gen.NCall("len", id("tmp")))), []*gen.Node{gen.NSet("tmp", str("xx")), gen.NCall("probe", str("body"), id("i"), id("tmp"))}), gen.NCall("probe", str("after"))},
		{gen.NSet("acc", i64(0)), gen.NFor(gen.NSet("i", i64(0)), gen.NBin("<", id("i"), i64(4)), gen.NSet("acc", gen.NBin("+", id("acc"), id("i"))), []*gen.Node{gen.NCall("probe", str("body"), id("i"), id("acc")), gen.NSet("i", gen.NBin("+", id("i"), i64(1))), gen.NSet("loc", id("i"))}), gen.NCall("probe", str("after"), id("acc"))},
		// the whole right side is evaluated before any target is written: element swap, aliases, slices of a target
		{gen.NSet("a", gen.NList(i64(1), i64(2), i64(3))), gen.NAssign("=", []*gen.Node{gen.NIndex(id("a"), i64(0)), gen.NIndex(id("a"), i64(2))}, []*gen.Node{gen.NIndex(id("a"), i64(2)), gen.NIndex(id("a"), i64(0))}), gen.NCall("probe", str("elem-swap"), id("a"))},
		{gen.NSet("s2", gen.NList(i64(7), i64(8))), gen.NSet("s", id("s2")), gen.NAssign("=", []*gen.Node{gen.NIndex(id("s"), i64(0)), gen.NIndex(id("s"), i64(1))}, []*gen.Node{gen.NIndex(id("s2"), i64(1)), gen.NIndex(id("s2"), i64(0))}), gen.NCall("probe", str("alias-swap"), id("s"), id("s2"))},
		{gen.NSet("u", gen.NList(i64(1), i64(2), i64(3))), gen.NAssign("=", []*gen.Node{gen.NIndex(id("u"), i64(0)), id("w")}, []*gen.Node{i64(9), gen.NSlice(id("u"), nil, i64(2), nil, false)}), gen.NCall("probe", str("slice-after-target"), id("u"), id("w"))},
		{gen.NSet("m", gen.NMap(str("k"), i64(1), str("j"), i64(2))), gen.NAssign("=", []*gen.Node{gen.NIndex(id("m"), str("k")), gen.NIndex(id("m"), str("j")), id("n")}, []*gen.Node{gen.NIndex(id("m"), str("j")), gen.NIndex(id("m"), str("k")), gen.NCall("len", id("m"))}), gen.NCall("probe", str("map-swap"), id("m"), id("n"))},
		{gen.NSet("x", i64(1)), gen.NSet("y", i64(2)), gen.NSet("z", i64(3)), gen.NAssign("=", []*gen.Node{id("x"), id("y"), id("z")}, []*gen.Node{id("z"), id("x"), id("y")}), gen.NCall("probe", str("rotate"), id("x"), id("y"), id("z"))},
	}
	for i, p := range cases {
		judge(t, "fixed", sem.NewCase(gen.FixAll(p)), fmt.Sprint("fixed/", i), true, "fixed")
	}
}

func TestReplays(t *testing.T) {
	files, _ := filepath.Glob(filepath.Join(evid.Dir(), "replays", prop, "*.json"))
	if r := os.Getenv("VERIF_REPLAY"); r != "" {
		files = []string{r}
	}
	for _, f := range files {
		b, err := os.ReadFile(f)
		if err != nil {
			continue
		}
		var r struct {
			Case sem.Replay `json:"case"`
		}
		if json.Unmarshal(b, &r) != nil || len(r.Case.Texts) == 0 {
			continue
		}
		t.Run(filepath.Base(f), func(t *testing.T) {
			c, err := sem.FromReplay(r.Case)
			if err != nil {
				t.Skipf("replay not loadable: %v", err)
			}
			c.V2 = true
			if len(c.Modes) > 0 {
				judgeRuns(t, "replay", c, "replay:"+c.Texts[c.Root], "replay")
				return
			}
			v := sem.Decide(c, func() sem.ImplOut { return sem.RunV2(c, nil) }, nil, false, true)
			if v.Msg != "" {
				rk.Fail(t, "replay", r.Case, "v2: %s\nscript:\n%s", v.Msg, c.Texts[c.Root])
			}
			evid.Case("replay:"+c.Texts[c.Root], true, "replay")
		})
	}
}
