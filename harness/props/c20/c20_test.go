package c20

import (
	"bytes"
	"encoding/json"
	"fmt"
	"io"
	"os"
	"os/exec"
	"path/filepath"
	"sort"
	"strconv"
	"strings"
	"syscall"
	"testing"
	"time"

	"github.com/GuanceCloud/platypus/pkg/inimpl/guancecloud/input"
	"github.com/influxdata/influxdb1-client/models"
	influxdb "github.com/influxdata/influxdb1-client/v2"
	"pgregory.net/rapid"
	"verifharness/evid"
	"verifharness/impl"
	"verifharness/rk"
)

const prop = "C20"
const marker = "Platypus Output Data:\n"

var binary string

func TestMain(m *testing.M) {
	evid.Init(prop, "exploration",
		"generated scripts (field builtins, set_measurement, default_time, set_tag, drop_key, rename, use() of sibling scripts, scripts failing at run time, scripts failing the load-time check) x input {text file => message; line protocol with measurement, tags, typed fields and explicit timestamp; no input file} x {workspace directory of .p/.ppl files incl. unrelated and broken siblings; single file with -w \"\" given as bare name or as a path} x {json, lineprotocol} output; the binary is rebuilt from cmd/platypus at the start of the check and run as a subprocess. Oracle (differential against the library): the harness builds the same point with the documented constructors (influx line-protocol parser for the first point of the file; text => message), runs the same script through engine.ParseScript + Script.Run and compares with what the binary printed after the marker 'Platypus Output Data:' - line protocol text exactly, JSON structurally with exact numbers; time exactly when the input or the script fixes it, otherwise inside the harness's timestamps around the subprocess; load / run errors: the binary prints the library's error text and no output block; no input file: no output block and no error for a valid script. Non-trivial: the script changes measurement, time or a tag, uses a sibling, or fails; distinct by (script, input kind, mode, format).",
		"the measurement the CLI gives a text input is not specified: compared only when the script sets it",
		"one subprocess per case (~15 ms)")
	dir, err := os.MkdirTemp("", "c20-bin")
	if err != nil {
		fmt.Println("cannot create temp dir:", err)
		os.Exit(2)
	}
	binary = filepath.Join(dir, "platypus")
	cmd := exec.Command("go", "build", "-o", binary, "./cmd/platypus")
	cmd.Dir = evid.Repo()
	if out, err := cmd.CombinedOutput(); err != nil {
		fmt.Printf("cannot build cmd/platypus: %v\n%s\n", err, out)
		os.RemoveAll(dir)
		os.Exit(2)
	}
	code := m.Run()
	evid.Flush(code == 0)
	os.RemoveAll(dir)
	os.Exit(code)
}

type tcase struct {
	Scripts  map[string]string `json:"scripts"` // workspace content (name -> text); the script to run is Name
	Other    map[string]string `json:"other_files,omitempty"`
	Name     string            `json:"name"`
	Mode     string            `json:"mode"`  // workspace | file-bare | file-path
	Input    string            `json:"input"` // text | lineprotocol | none
	Data     string            `json:"data"`
	Format   string            `json:"format"` // json | lineprotocol
	Missing  bool              `json:"selected_script_missing,omitempty"`
	Symlinks bool              `json:"scripts_are_symlinks,omitempty"`
	// TZ is the zone of the binary's process ("" = UTC); WsDir names the workspace directory ("" = "ws"), Decoys are
	// sibling directories of the workspace holding scripts of their own
	// InputVia: how the input reaches the binary: "" = a regular file, "stdin" = -i /dev/stdin, "fifo" = a named pipe
	InputVia string `json:"input_via,omitempty"`
	// WsLink: the workspace path given to the binary is a symbolic link to the directory that holds the scripts
	WsLink bool     `json:"workspace_is_symlink,omitempty"`
	TZ     string   `json:"process_zone,omitempty"`
	WsDir  string   `json:"workspace_directory,omitempty"`
	Decoys []string `json:"sibling_directories,omitempty"`
	// Namesakes: the directory the binary is started in (not the workspace) holds files named like the scripts of the
	// workspace, with other texts, and the workspace holds a file named like the input; the input path is given
	// relative to the starting directory
	Namesakes bool `json:"namesakes_in_current_directory_and_workspace,omitempty"`
}

type libOut struct {
	loadErr error
	runErr  error
	meas    string
	tags    map[string]string
	fields  map[string]any
	tm      time.Time
	fixedTm bool // the time is determined by the input or the script
}

var call, check = impl.FuncTables(nil, nil)

// library computes what the library API yields for the same script and input.
func library(c *tcase) libOut {
	var o libOut
	scripts := map[string]string{}
	if c.Mode == "workspace" {
		for k, v := range c.Scripts {
			scripts[k] = v
		}
	} else {
		scripts[c.Name] = c.Scripts[c.Name]
	}
	ok, errs, crash := impl.LoadV1(scripts, call, check)
	if crash != nil {
		o.loadErr = fmt.Errorf("loader panicked: %s", crash.Value)
		return o
	}
	if e, bad := errs[c.Name]; bad {
		o.loadErr = e
		return o
	}
	s := ok[c.Name]
	if s == nil {
		o.loadErr = fmt.Errorf("script %s not found", c.Name)
		return o
	}
	if c.Input == "none" {
		return o
	}
	var meas string
	var tags map[string]string
	var fields map[string]any
	tn := time.Now()
	switch c.Input {
	case "lineprotocol":
		def := time.Now()
		pts, err := models.ParsePointsWithPrecision([]byte(c.Data), def, "")
		if err != nil || len(pts) == 0 {
			o.runErr = fmt.Errorf("parse line protocol error")
			return o
		}
		pt := influxdb.NewPointFrom(pts[0])
		f, err := pt.Fields()
		if err != nil {
			o.runErr = err
			return o
		}
		fields, tags, meas, tn = f, pt.Tags(), pt.Name(), pt.Time()
		o.fixedTm = !pt.Time().Equal(def) // an explicit timestamp in the input
	default:
		meas = "default_name"
		fields = map[string]any{"message": c.Data}
	}
	pt := &input.Point{}
	input.InitPt(pt, meas, tags, fields, tn)
	rerr, crash := impl.RunV1(s, pt, nil)
	if crash != nil {
		o.runErr = fmt.Errorf("run panicked: %s", crash.Value)
		return o
	}
	if rerr != nil {
		o.runErr = rerr
		return o
	}
	o.meas, o.tags, o.fields, o.tm = pt.Measurement, pt.Tags, pt.Fields, pt.Time
	if !pt.Time.Equal(tn) {
		o.fixedTm = true
	}
	return o
}

func runBinary(c *tcase) (stdout string, before, after time.Time, err error) {
	dir, err := os.MkdirTemp("", "c20-ws")
	if err != nil {
		return "", before, after, err
	}
	defer os.RemoveAll(dir)
	wsName := "ws"
	if c.WsDir != "" {
		wsName = c.WsDir
	}
	ws := filepath.Join(dir, wsName)
	if c.WsLink {
		real := filepath.Join(dir, "real-"+strings.NewReplacer("[", "", "]", "", "\\", "", "*", "", "?", "").Replace(wsName))
		_ = os.MkdirAll(real, 0o755)
		_ = os.Symlink(real, ws)
	} else {
		_ = os.MkdirAll(ws, 0o755)
	}
	for _, d := range c.Decoys {
		// a sibling directory with a namesake of the selected script: not the workspace
		_ = os.MkdirAll(filepath.Join(dir, d), 0o755)
		_ = os.WriteFile(filepath.Join(dir, d, c.Name), []byte("add_key(from_sibling_directory, 1)\nset_measurement(\"decoy\")"), 0o644)
	}
	if c.Namesakes && c.Mode == "workspace" {
		for n := range c.Scripts {
			_ = os.WriteFile(filepath.Join(dir, n), []byte("add_key(from_current_directory, 1)\nset_measurement(\"decoy-cwd\")\nuse(\"no-such-script.p\")"), 0o644)
		}
		for n := range c.Other {
			if !strings.Contains(n, "/") {
				_ = os.WriteFile(filepath.Join(dir, n), []byte("add_key(from_current_directory, 2)"), 0o644)
			}
		}
		decoy := "data of a namesake of the input file inside the workspace\n"
		if c.Input == "lineprotocol" {
			decoy = "decoy,from=workspace v=1i 1500000000000000000\n"
		}
		_ = os.WriteFile(filepath.Join(ws, "input.dat"), []byte(decoy), 0o644)
	}
	store := filepath.Join(dir, "store")
	_ = os.MkdirAll(store, 0o755)
	for n, s := range c.Scripts {
		if c.Mode != "workspace" && n != c.Name {
			continue
		}
		if c.Symlinks {
			// the script is a symbolic link to a regular file kept elsewhere (a mounted configuration)
			_ = os.WriteFile(filepath.Join(store, n), []byte(s), 0o644)
			_ = os.Symlink(filepath.Join(store, n), filepath.Join(ws, n))
			continue
		}
		_ = os.WriteFile(filepath.Join(ws, n), []byte(s), 0o644)
	}
	for n, s := range c.Other {
		_ = os.MkdirAll(filepath.Dir(filepath.Join(ws, n)), 0o755)
		_ = os.WriteFile(filepath.Join(ws, n), []byte(s), 0o644)
	}
	args := []string{"run"}
	cwd := dir
	switch c.Mode {
	case "workspace":
		args = append(args, "-s", c.Name, "-w", ws)
	case "file-bare":
		args = append(args, "-s", c.Name, "-w", "")
		cwd = ws
	default:
		args = append(args, "-s", filepath.Join(wsName, c.Name), "-w", "")
	}
	var stdin io.Reader
	if c.Input != "none" {
		in := filepath.Join(dir, "input.dat")
		switch c.InputVia {
		case "stdin":
			in = "/dev/stdin"
			stdin = strings.NewReader(c.Data)
		case "fifo":
			in = filepath.Join(dir, "input.fifo")
			if err := syscall.Mkfifo(in, 0o644); err != nil {
				return "", before, after, err
			}
			go func(path, data string) {
				// the writer side of the pipe: opens once the binary has opened it for reading (non-blocking attempts,
				// given up when the pipe is gone: the binary may finish without ever opening its input)
				for i := 0; i < 12000; i++ {
					fd, err := syscall.Open(path, syscall.O_WRONLY|syscall.O_NONBLOCK, 0)
					if err == syscall.ENXIO {
						time.Sleep(5 * time.Millisecond)
						continue
					}
					if err != nil {
						return
					}
					_ = syscall.SetNonblock(fd, false)
					f := os.NewFile(uintptr(fd), path)
					_, _ = f.WriteString(data)
					_ = f.Close()
					return
				}
			}(in, c.Data)
		default:
			_ = os.WriteFile(in, []byte(c.Data), 0o644)
			if c.Namesakes && c.Mode == "workspace" {
				in = "input.dat" // relative to the directory the binary is started in
			}
		}
		args = append(args, "-i", in, "-t", c.Input)
	}
	args = append(args, "--output-type", c.Format)
	cmd := exec.Command(binary, args...)
	cmd.Dir = cwd
	tz := "UTC"
	if c.TZ != "" {
		tz = c.TZ
	}
	cmd.Env = append(os.Environ(), "TZ="+tz)
	var buf bytes.Buffer
	cmd.Stdout = &buf
	cmd.Stderr = &buf
	if stdin != nil {
		cmd.Stdin = stdin
	}
	before = time.Now()
	done := make(chan error, 1)
	if err := cmd.Start(); err != nil {
		return "", before, after, err
	}
	go func() { done <- cmd.Wait() }()
	select {
	case <-done:
	case <-time.After(60 * time.Second):
		_ = cmd.Process.Kill()
		return buf.String(), before, time.Now(), fmt.Errorf("binary did not finish within 60 s")
	}
	after = time.Now()
	return buf.String(), before, after, nil
}

func firstLine(s string) string {
	if i := strings.Index(s, "\n"); i >= 0 {
		return s[:i]
	}
	return s
}

func setsMeasurement(src string) bool { return strings.Contains(src, "set_measurement(") }

func jsonEqualNumber(n json.Number, v any) bool {
	switch x := v.(type) {
	case int64:
		return n.String() == strconv.FormatInt(x, 10)
	case float64:
		f, err := strconv.ParseFloat(n.String(), 64)
		return err == nil && f == x
	}
	return false
}

func judge(t rk.Failer, slot string, c *tcase, nontrivial bool, labels ...string) {
	lib := library(c)
	out, before, after, err := runBinary(c)
	if err != nil {
		rk.Fail(t, slot, c, "running the binary failed: %v\n%s", err, clip(out))
	}
	idx := strings.Index(out, marker)
	block := ""
	if idx >= 0 {
		block = strings.TrimRight(out[idx+len(marker):], "\n")
	}
	fail := func(format string, a ...any) {
		rk.Fail(t, slot, c, "%s\nscript %s:\n%s\ninput(%s): %q\nbinary output:\n%s", fmt.Sprintf(format, a...), c.Name, c.Scripts[c.Name], c.Input, c.Data, clip(out))
	}
	switch {
	case c.Missing:
		if idx >= 0 {
			fail("the selected script does not exist but the binary printed an output block")
		}
		if !strings.Contains(out, "ERROR") && !strings.Contains(strings.ToLower(out), "not found") && !strings.Contains(strings.ToLower(out), "no such file") {
			fail("the selected script does not exist and the binary reported no error")
		}
		labels = append(labels, "outcome/missing-script")
	case lib.loadErr != nil:
		if idx >= 0 {
			fail("the library rejects the script at load (%v) but the binary printed an output block", lib.loadErr)
		}
		if !strings.Contains(out, firstLine(lib.loadErr.Error())) {
			fail("the binary does not report the load error %q", firstLine(lib.loadErr.Error()))
		}
		labels = append(labels, "outcome/load-error")
	case c.Input == "none":
		if idx >= 0 {
			fail("no input file was given but the binary printed an output block")
		}
		if strings.Contains(out, "\tERROR\t") {
			fail("no input file and a valid script, but the binary reported an error")
		}
		labels = append(labels, "outcome/check-only")
	case lib.runErr != nil:
		if idx >= 0 {
			fail("the library run fails (%v) but the binary printed an output block", lib.runErr)
		}
		if !strings.Contains(out, firstLine(lib.runErr.Error())) {
			fail("the binary does not report the run error %q", firstLine(lib.runErr.Error()))
		}
		labels = append(labels, "outcome/run-error")
	default:
		if idx < 0 {
			// the library may be unable to encode the point as line protocol too
			if c.Format == "lineprotocol" {
				if _, e := influxdb.NewPoint(lib.meas, lib.tags, lib.fields, lib.tm); e != nil {
					labels = append(labels, "outcome/unencodable")
					break
				}
			}
			fail("the library run succeeds but the binary printed no output block")
		}
		cmpMeas := c.Input == "lineprotocol" || setsMeasurement(c.Scripts[c.Name])
		if c.Format == "lineprotocol" {
			// the timestamp is the last token of the line-protocol text
			sp := strings.LastIndex(block, " ")
			ns, terr := strconv.ParseInt(block[sp+1:], 10, 64)
			if sp < 0 || terr != nil {
				fail("the line-protocol output has no trailing timestamp")
			}
			gotTime := time.Unix(0, ns)
			tmForExpected := lib.tm
			if !lib.fixedTm {
				tmForExpected = gotTime
				if gotTime.Before(before.Add(-time.Second)) || gotTime.After(after.Add(time.Second)) {
					fail("output time %v is neither fixed by input/script nor inside the run window [%v, %v]", gotTime, before, after)
				}
			}
			if cmpMeas {
				want, werr := influxdb.NewPoint(lib.meas, lib.tags, lib.fields, tmForExpected)
				if werr != nil {
					fail("harness: cannot encode the library's point: %v", werr)
				}
				if want.String() != block {
					fail("line-protocol output differs from what the library yields:\n binary : %s\n library: %s", block, want.String())
				}
			} else {
				// the measurement of a text input is not specified: compare everything after it
				want, werr := influxdb.NewPoint("M", lib.tags, lib.fields, tmForExpected)
				if werr != nil {
					fail("harness: cannot encode the library's point: %v", werr)
				}
				rest := want.String()[1:]
				if !strings.HasSuffix(block, rest) || len(block) <= len(rest) {
					fail("line-protocol output differs from what the library yields:\n binary : %s\n library: <measurement>%s", block, rest)
				}
			}
		} else {
			dec := json.NewDecoder(strings.NewReader(block))
			dec.UseNumber()
			var got struct {
				Measurement string                 `json:"measurement"`
				Tags        map[string]string      `json:"tags"`
				Fields      map[string]interface{} `json:"fields"`
				Time        time.Time              `json:"time"`
			}
			if derr := dec.Decode(&got); derr != nil {
				fail("the JSON output does not parse: %v", derr)
			}
			if cmpMeas && got.Measurement != lib.meas {
				fail("measurement in the output is %q, the script left %q", got.Measurement, lib.meas)
			}
			if len(got.Tags) != len(lib.tags) {
				fail("tags in the output %v, the script left %v", got.Tags, lib.tags)
			}
			for k, v := range lib.tags {
				if g, ok := got.Tags[k]; !ok || g != v {
					fail("tag %q in the output is %q (present %v), the script left %q", k, g, ok, v)
				}
			}
			if len(got.Fields) != len(lib.fields) {
				fail("fields in the output %v, the script left %v", keysOf(got.Fields), keysOfAny(lib.fields))
			}
			for k, v := range lib.fields {
				g, ok := got.Fields[k]
				if !ok {
					fail("field %q is missing from the output", k)
				}
				same := false
				switch x := v.(type) {
				case nil:
					same = g == nil
				case string:
					gs, isS := g.(string)
					wantS := strings.ToValidUTF8(x, "�")
					same = isS && (gs == x || gs == wantS)
				case bool:
					gb, isB := g.(bool)
					same = isB && gb == x
				default:
					if n, isN := g.(json.Number); isN {
						same = jsonEqualNumber(n, v)
					}
				}
				if !same {
					fail("field %q in the output is %v (%T), the script left %v (%T)", k, g, g, v, v)
				}
			}
			if lib.fixedTm {
				if !got.Time.Equal(lib.tm) {
					fail("time in the output is %v, input/script fix it to %v", got.Time.UTC(), lib.tm.UTC())
				}
			} else if got.Time.Before(before.Add(-time.Second)) || got.Time.After(after.Add(time.Second)) {
				fail("output time %v is neither fixed by input/script nor inside the run window", got.Time)
			}
		}
		labels = append(labels, "outcome/output")
	}
	labels = append(labels, "mode/"+c.Mode, "input/"+c.Input, "format/"+c.Format)
	evid.Case(fmt.Sprint(c.Scripts[c.Name], "|", c.Mode, c.Input, c.Format, c.Data), nontrivial, labels...)
	if nontrivial && len(c.Scripts[c.Name])%3 == 0 {
		evid.Sample(map[string]any{"script": c.Scripts[c.Name], "mode": c.Mode, "input": c.Input, "format": c.Format, "data": c.Data, "output_block": clip(block)})
	}
}

func keysOf(m map[string]interface{}) []string {
	var k []string
	for x := range m {
		k = append(k, x)
	}
	sort.Strings(k)
	return k
}

func keysOfAny(m map[string]any) []string { return keysOf(m) }

func clip(s string) string {
	if len(s) > 1500 {
		return s[:1500] + "..."
	}
	return s
}

// ------------------------------------------------------------------ generators

var stmtPool = []string{
	"add_key(a, 1)", "add_key(b, 2.5)", "add_key(c, \"str\")", "add_key(d, true)", "add_key(e, [1, \"x\"])", "add_key(big, 9007199254740993)",
	"set_tag(message)", "set_tag(host, \"h2\")", "set_tag(newtag, \"v\")", "drop_key(message)", "drop_key(usage)", "rename(msg2, message)", "rename(u2, usage)",
	"cast(n, \"str\")", "cast(n, \"float\")", "uppercase(message)", "trim(message)", "replace(message, \"o\", \"0\")", "strfmt(fmtd, \"%v-%v\", n, host)",
	"set_measurement(\"newm\")", "set_measurement(host, true)", "set_measurement(message)", "set_measurement(nokey)", "set_measurement(\"\")", "add_key(em, \"\")\nset_measurement(em, true)", "set_measurement(\" \")", "set_measurement(\"default_name\")",
	"add_key(ts, \"2021-05-27 06:54:14.760 UTC\")\ndefault_time(ts)", "add_key(ts, \"1600000123\")\ndefault_time(ts)", "add_key(ts, \"2014-04-26 13:13:43 +0800\")\ndefault_time(ts, \"+8\")", "default_time(message)",
	"x = len(message)\nadd_key(x)", "if n == 3 { add_key(three, true) } else { add_key(three, false) }", "for i in [1, 2] { add_key(last, i) }",
	"add_key(time, 1600000000123456789)", "add_key(time, \"not an int\")", "rename(time, n)", "cast(time, \"int\")",
	"add_key(ml, '''a\r\nb\r\n''')", "add_key(mlen, len(\"\"\"\r\n\r\n\"\"\"))", "if message == \"\"\"x\r\ny\"\"\" { add_key(crlf_match, true) }", "replace(message, '''\r\n''', \"|\")", "add_key(cr, \"a\\rb\")\r\nadd_key(after_crlf_line, 1)",
	"add_key(amp, \"a & b < c > d\")", "add_key(esc, \"\\\\u0026 \\\\u003c \\\\u003e\")", "set_tag(amptag, \"x&y<z>\")", "set_measurement(\"m&<>\")", "add_key(ctl, \"tab\\there\\nline\")",
	"add_key(nilkey, nil)", "nv = nil\nadd_key(nv)", "add_key(emptystr, \"\")", "add_key(zero, 0)", "add_key(f0, 0.0)", "add_key(no, false)", "add_key(m, {\"a\": nil})", "add_key(message, nil)", "set_tag(emptytag, \"\")",
	"grok(_, \"%{WORD:w1} %{WORD:w2}\")", "grok(msg, \"%{WORD:first}\")", "printf(\"%v\\n\", message)", "exit()\nadd_key(never, 1)",
}

var failingRun = []string{"x = 1 + \"a\"", "l = [1]\ny = l[5]", "z = 0\nq = 1 / z", "load_json(\"{bad\")"}
var failingLoad = []string{"nosuch()", "add_key()", "cast(a, \"zzz\")", "x = = 1", "break", "grok(_, \"%{NOSUCH}\")"}

var lpInputs = []string{
	"m,k=a k=1i,f=2i 1609459200000000001\n", "m,host=h1,n=tagn n=3i,host=\"fieldhost\" 1609459200000000002\n",
	"cpu,host=h1 usage=1.5,n=3i 1600000000000000000\nthis line is garbage\n", "garbage first\ncpu,host=h1 usage=2.5,n=3i 1600000000000000001\n", "cpu,host=h1 usage=1.5 1\ncpu,host=h2 usage= 2\nmem used=1i 3\n", "cpu usage=1i 1\n\n\x00\n",
	"cpu,host=h1 msg=\"a & b < c > \\\\u0026\",n=3i 1600000000000000000\n",
	"", "not line protocol at all", "cpu,host=h1", "cpu usage=", "# only a comment\n",
	"cpu,host=h1 usage=1.5,n=3i,msg=\"x y\",ok=true 1600000000000000000\n",
	"mem used=10i\n",
	"disk,host=a,path=/ free=0.25,message=\"two words\",n=3i 1234567890123456789\ncpu second=1i 1\n",
	"m,t1=v1,t2=v2 message=\"hello world\",big=9007199254740993i,neg=-1i,f=-0.5 1609459200000000000\n",
	"weird\\ name,ta\\,g=v\\ 1 fi\\ eld=\"q\\\"uote\",n=3i 42\n",
	// explicit timestamps at, before and right after the epoch
	"cpu,host=h1 v=1i,n=3i 0\n", "cpu,host=h1 v=1i,n=3i -1500000000\n", "cpu,host=h1 v=1i,n=3i 1\n", "cpu,host=h1 v=1i,n=3i -1\n", "cpu,host=h1 v=1i,n=3i -9223372036854775806\n",
	// every escape the measurement, a tag key, a tag value and a field key admit
	"cpu\\=total,host=h1 usage=7i 1600000000000000001\n", "m\\\"q,host=h1 v=1i 1600000000000000002\n", "cpu\\,x\\ y\\=z,ho\\=st=h\\=1,a\\ b=c\\,d v\\=w=1i,n=3i 1600000000000000003\n", "back\\\\slash,host=h1 n=3i 5\n",
	"# a leading comment line\ncpu,host=h1 usage=1.5,n=3i 1600000000000000000\n",
	"\n\ncpu,host=h1 usage=2.5,n=3i 1600000000000000001\n",
	"logs,host=h1 message=\"first line\nsecond line\",n=3i 1600000000000000002\n",
	"ev,host=h1 time=1600000000000000000i,n=3i,message=\"has a time field\" 1600000000000000003\n",
	"ev time=5i\n",
}

var textInputs = []string{"{\"url\":\"/q?a=1\\u0026b=2\",\"t\":\"\\u003cb\\u003e\"}", "a & b < c > d \\u0026 \\\\u003e", "tab\there \"quoted\" back\\slash \x7f \u2028 \u00e9 \U0001F600", "\\n literal backslash-n and a real one:\n.", "</script><!-- & -->", "x\r\ny", "line1\r\nline2\r\n", "hello world", "two words here", "", "  padded  ", "héllo wörld", "line1\nline2", "42"}

func genCase(t *rapid.T) (*tcase, bool, []string) {
	c := &tcase{Scripts: map[string]string{}, Other: map[string]string{}}
	ext := rapid.SampledFrom([]string{".p", ".ppl"}).Draw(t, "ext")
	c.Name = rapid.SampledFrom([]string{"main", "main", "main.v2", "x.y.z", "my-script_1", "UPPER", ".hidden", ".#main", "..main", "~main"}).Draw(t, "base") + ext
	var lines []string
	nontrivial := false
	var labels []string
	n := rapid.IntRange(1, 5).Draw(t, "nstmts")
	for i := 0; i < n; i++ {
		s := rapid.SampledFrom(stmtPool).Draw(t, "stmt")
		lines = append(lines, s)
		if strings.Contains(s, "set_measurement") || strings.Contains(s, "default_time") || strings.Contains(s, "set_tag") {
			nontrivial = true
		}
	}
	c.Mode = rapid.SampledFrom([]string{"workspace", "workspace", "file-bare", "file-path"}).Draw(t, "mode")
	if c.Mode != "workspace" && rapid.IntRange(0, 3).Draw(t, "oddname") == 0 {
		// a single script file is whatever file the user names: no extension, another extension, a backup name
		c.Name = rapid.SampledFrom([]string{"rules.txt", "pipeline", "main.p.bak", "script.PPL", ".hidden", "a b.conf"}).Draw(t, "filename")
		labels = append(labels, "script/file-name-without-script-extension")
		nontrivial = true
	}
	switch rapid.IntRange(0, 9).Draw(t, "special") {
	case 0:
		lines = append(lines, rapid.SampledFrom(failingRun).Draw(t, "runfail"))
		nontrivial = true
		labels = append(labels, "script/fails-at-run")
	case 1:
		lines = append(lines, rapid.SampledFrom(failingLoad).Draw(t, "loadfail"))
		nontrivial = true
		labels = append(labels, "script/fails-at-load")
	case 2, 3:
		if c.Mode == "workspace" {
			sib := rapid.SampledFrom([]string{"sib", "sib.lib", "main.sib", ".shared", ".base.v2"}).Draw(t, "sibbase") + rapid.SampledFrom([]string{".p", ".ppl"}).Draw(t, "sibext")
			c.Scripts[sib] = rapid.SampledFrom([]string{"add_key(from_sibling, 1)\nset_measurement(\"sibm\")", "set_tag(sibtag, \"s\")", "x = 1 + \"a\"", "exit()\nadd_key(never2, 1)", "add_key(ts2, \"1600000999\")\ndefault_time(ts2)"}).Draw(t, "sibbody")
			at := rapid.IntRange(0, len(lines)).Draw(t, "useat")
			// the use call in one of its valid spellings
			useText := fmt.Sprintf("use(%q)", sib)
			switch rapid.IntRange(0, 7).Draw(t, "usespelling") {
			case 0:
				useText = fmt.Sprintf("use (%q)", sib)
			case 1:
				useText = fmt.Sprintf("use(\n  %q\n)", sib)
			case 2:
				useText = "use(\"\"\"" + sib + "\"\"\")"
			case 3:
				useText = "use('" + sib + "')"
			case 4:
				useText = fmt.Sprintf("use(%q)", strings.Replace(sib, ".", "\\x2e", 1))
				useText = strings.ReplaceAll(useText, "\\\\x2e", "\\x2e")
			case 5:
				useText = fmt.Sprintf("if true { use(%q) }", sib)
			}
			lines = append(lines[:at:at], append([]string{useText}, lines[at:]...)...)
			nontrivial = true
			labels = append(labels, "script/uses-sibling")
		}
	case 5:
		// the selected script does not exist (the workspace holds other scripts)
		c.Scripts["present"+ext] = strings.Join(lines, "\n")
		c.Missing = true
		nontrivial = true
		labels = append(labels, "script/selected-script-missing")
	case 4:
		if c.Mode == "workspace" {
			lines = append(lines, "use(\"missing.p\")")
			nontrivial = true
			labels = append(labels, "script/uses-missing")
		}
	}
	if !c.Missing {
		c.Scripts[c.Name] = strings.Join(lines, "\n") + rapid.SampledFrom([]string{"", "\n"}).Draw(t, "eol")
	}
	if c.Mode == "workspace" {
		if rapid.Bool().Draw(t, "unrelated") {
			c.Scripts["unrelated.p"] = "add_key(unrelated, 1)"
		}
		if rapid.Bool().Draw(t, "broken") {
			c.Scripts["broken.ppl"] = "x = = 1"
			labels = append(labels, "workspace/broken-sibling")
		}
		if rapid.Bool().Draw(t, "notscript") {
			c.Other["notes.txt"] = "not a script = ="
			c.Other["main.txt"] = "nosuch()"
		}
		if rapid.IntRange(0, 2).Draw(t, "subdir") == 0 {
			// sub-directories are not part of the workspace: namesakes of the selected script and of a sibling,
			// a script that exists only there, a directory whose name looks like a script
			sub := rapid.SampledFrom([]string{"old", "zz", "vendor", "a", "~bak", "main.p.d"}).Draw(t, "subname")
			c.Other[sub+"/"+c.Name] = "add_key(from_subdir, 1)\nset_measurement(\"subdir\")"
			c.Other[sub+"/sib.p"] = "add_key(from_subdir_sib, 1)"
			c.Other[sub+"/only_here.p"] = "add_key(only_here, 1)"
			c.Other[sub+"/deeper/"+c.Name] = "nosuch()"
			labels = append(labels, "workspace/sub-directory-with-namesakes")
			if rapid.IntRange(0, 3).Draw(t, "use-only-here") == 0 {
				lines = append(lines, "use(\"only_here.p\")")
				c.Scripts[c.Name] = strings.Join(lines, "\n")
				labels = append(labels, "script/uses-script-of-sub-directory")
				nontrivial = true
			}
		}
		if rapid.IntRange(0, 3).Draw(t, "decoy") == 0 {
			c.Scripts["a"+c.Name] = "add_key(decoy, 1)"
			c.Scripts["main2.p"] = "add_key(decoy2, 1)"
		}
	}
	c.Input = rapid.SampledFrom([]string{"text", "text", "lineprotocol", "lineprotocol", "none"}).Draw(t, "input")
	switch c.Input {
	case "text":
		c.Data = rapid.SampledFrom(textInputs).Draw(t, "text")
		if rapid.IntRange(0, 9).Draw(t, "bigtext") == 0 {
			// sizes around the usual buffer limits
			n := rapid.SampledFrom([]int{4095, 4096, 4097, 65535, 65536, 65537, 70000, 1<<20 + 1}).Draw(t, "textsize")
			c.Data = strings.Repeat("0123456789 abcdef\n", n/18+1)[:n]
			labels = append(labels, "input/large-text")
		}
	case "lineprotocol":
		c.Data = rapid.SampledFrom(lpInputs).Draw(t, "lp")
		if rapid.IntRange(0, 9).Draw(t, "biglp") == 0 {
			n := rapid.SampledFrom([]int{4000, 65500, 65536, 70000, 300000}).Draw(t, "lpsize")
			first := "big,host=h1 message=\"" + strings.Repeat("x", n) + "\",n=3i 1600000000000000000\n"
			if rapid.Bool().Draw(t, "manylines") {
				first = "cpu,host=h1 usage=1.5,n=3i,message=\"first\" 1600000000000000000\n" + strings.Repeat("cpu,host=h2 usage=2.5,n=4i 1600000000000000001\n", n/46+1)
			}
			c.Data = first
			labels = append(labels, "input/large-line-protocol")
		}
	}
	c.Format = rapid.SampledFrom([]string{"json", "lineprotocol"}).Draw(t, "format")
	if rapid.IntRange(0, 5).Draw(t, "wslink") == 0 {
		c.WsLink = true
		labels = append(labels, "workspace/is-a-symbolic-link")
		nontrivial = true
	}
	// the input reaches the binary through something that is not a regular file
	if c.Input != "none" && rapid.IntRange(0, 4).Draw(t, "via") == 0 {
		c.InputVia = rapid.SampledFrom([]string{"stdin", "fifo"}).Draw(t, "inputvia")
		labels = append(labels, "input/via-"+c.InputVia)
		nontrivial = true
	}
	// the workspace directory's own name: blanks, brackets and other characters that mean something to a pattern matcher
	if rapid.IntRange(0, 2).Draw(t, "wsdir") == 0 {
		c.WsDir = rapid.SampledFrom([]string{"ws[1]", "ws[x", "ws\\1", "w s", "ws*", "ws?", "{ws}", "ws]", "wé", "ws[a-z]", "%ws", "ws.p"}).Draw(t, "wsname")
		if rapid.Bool().Draw(t, "decoys") {
			c.Decoys = []string{"ws1", "wsa", "ws", "wsx"}
		}
		labels = append(labels, "workspace/unusual-directory-name")
		nontrivial = true
	}
	// the zone of the process: what the script computes from zone-less text depends on it, so only scripts that do not
	// format or read times get another zone; the instant printed must be the one the input fixed, or the run's own
	scriptText := ""
	for _, sc := range c.Scripts {
		scriptText += sc
	}
	if !strings.Contains(scriptText, "default_time") && !strings.Contains(scriptText, "datetime") && rapid.IntRange(0, 2).Draw(t, "tz") == 0 {
		c.TZ = rapid.SampledFrom([]string{"Asia/Tokyo", "America/New_York", "Asia/Kolkata", "Pacific/Chatham"}).Draw(t, "zone")
		labels = append(labels, "process-zone/"+c.TZ)
		nontrivial = true
	}
	// script files that begin with blank lines (LF or CR LF) and an indented first line: the file is the script, byte for
	// byte, so the positions in what the binary reports are those of the file
	if rapid.IntRange(0, 3).Draw(t, "leading-blank") == 0 {
		pre := rapid.SampledFrom([]string{"\n\n", "\r\n\r\n\r\n", "\n   ", "  \t", "\n\n\n\n\t "}).Draw(t, "prefix")
		for n, sc := range c.Scripts {
			c.Scripts[n] = pre + sc
		}
		labels = append(labels, "script/leading-blank-lines")
		nontrivial = true
	}
	if c.Mode == "workspace" && rapid.IntRange(0, 2).Draw(t, "namesakes") == 0 {
		c.Namesakes = true
		labels = append(labels, "workspace/namesakes-in-the-current-directory")
		nontrivial = true
	}
	if rapid.IntRange(0, 4).Draw(t, "symlinks") == 0 {
		c.Symlinks = true
		labels = append(labels, "workspace/scripts-are-symlinks")
	}
	return c, nontrivial, labels
}

func TestGeneratedCases(t *testing.T) {
	rk.Check(t, "cli", 1, evid.Scale(250, 1500), func(t *rapid.T) {
		c, nt, labels := genCase(t)
		judge(t, "cli", c, nt, labels...)
	})
}

func TestFixedCases(t *testing.T) {
	cases := []*tcase{
		{Scripts: map[string]string{"s.p": "set_measurement(\"newm\")\nadd_key(a, 1)"}, Name: "s.p", Mode: "workspace", Input: "text", Data: "hello", Format: "json"},
		{Scripts: map[string]string{"s.p": "add_key(ts, \"2021-05-27 06:54:14.760 UTC\")\ndefault_time(ts)"}, Name: "s.p", Mode: "workspace", Input: "text", Data: "hello", Format: "lineprotocol"},
		{Scripts: map[string]string{"s.p": "set_measurement(host, true)"}, Name: "s.p", Mode: "file-bare", Input: "lineprotocol", Data: lpInputs[0], Format: "json"},
		{Scripts: map[string]string{"s.p": "add_key(a, 1)"}, Name: "s.p", Mode: "file-path", Input: "text", Data: "hello", Format: "json"},
		{Scripts: map[string]string{"s.p": "add_key(a, 1)"}, Name: "s.p", Mode: "file-path", Input: "none", Format: "json"},
		{Scripts: map[string]string{"s.p": "nosuch()"}, Name: "s.p", Mode: "file-path", Input: "none", Format: "json"},
		// long runs: a few hundred thousand, and well over a million, statements before the effects that show in the output
		{Scripts: map[string]string{"s.p": "n = 0\nfor i = 0; i < 600000; i = i + 1 {\n  n = n + 1\n}\nadd_key(n, n)\nset_measurement(\"done\")"}, Name: "s.p", Mode: "file-path", Input: "lineprotocol", Data: lpInputs[0], Format: "lineprotocol"},
		{Scripts: map[string]string{"s.p": "n = 0\nfor i = 0; i < 300000; i = i + 1 {\n  n = n + 1\n}\nuse(\"lib.p\")\nadd_key(n, n)\nset_tag(finished, \"yes\")", "lib.p": "m = 0\nfor x in [1, 2, 3] {\n  for j = 0; j < 120000; j = j + 1 {\n    m = m + 1\n  }\n}\nadd_key(m, m)"}, Name: "s.p", Mode: "workspace", Input: "text", Data: "hello", Format: "json"},
		{Scripts: map[string]string{"s.p": "n = 0\nfor i = 0; i < 2100000; i = i + 1 {\n  n = n + 1\n}\nadd_key(n, n)"}, Name: "s.p", Mode: "file-bare", Input: "text", Data: "x", Format: "json"},
	}
	for _, c := range cases {
		judge(t, "fixed", c, true, "fixed")
	}
}

func TestReplays(t *testing.T) {
	files, _ := filepath.Glob(filepath.Join(evid.Dir(), "replays", prop, "*.json"))
	if r := os.Getenv("VERIF_REPLAY"); r != "" {
		files = []string{r}
	}
	for _, f := range files {
		b, err := os.ReadFile(f)
		if err != nil {
			continue
		}
		var r struct {
			Case tcase `json:"case"`
		}
		if json.Unmarshal(b, &r) != nil || r.Case.Name == "" {
			continue
		}
		c := r.Case
		t.Run(filepath.Base(f), func(t *testing.T) { judge(t, "replay", &c, true, "replay") })
	}
}
