package c05

import (
	"encoding/json"
	"fmt"
	"github.com/GuanceCloud/platypus/pkg/errchain"
	"go/ast"
	goparser "go/parser"
	"go/token"
	"os"
	"path/filepath"
	"runtime/debug"
	"strconv"
	"strings"
	"testing"
	"unicode/utf8"

	"github.com/GuanceCloud/platypus/pkg/parser"
	"pgregory.net/rapid"
	"verifharness/evid"
	"verifharness/gen"
	"verifharness/impl"
	"verifharness/rk"
)

const prop = "C05"

var stderrFile *os.File
var stderrOff int64

func TestMain(m *testing.M) {
	evid.Init(prop, "exploration",
		"inputs: random bytes over a syntax-biased alphabet, random token sequences, generated valid programs with one token deleted/duplicated/replaced/swapped, unterminated strings and escapes, malformed numbers, nesting to depth 2000, script literals harvested from the repository's tests with the same mutations. Oracle: ParsePipeline returns exactly one of (non-nil statement list with non-nil nodes, nil error) or (*errchain.PlError naming the script, 0<=Pos<=len(src), Ln/Col = independent computation); nothing printed by the parser's internal recover; lexer items cover the source in order without overlap, gaps only blanks. Non-trivial: rejected with a diagnostic, or accepted with >=3 tokens; distinct by token-kind sequence.",
		"Go runtime stack limits are not platypus behaviour: nesting bounded at 2000",
		"termination: a lex/parse call still running after 30 s (expected: microseconds) is recorded as a violation with its input by a watchdog goroutine")
	f, err := os.CreateTemp("", "c05-stderr")
	if err == nil {
		stderrFile = f
		os.Stderr = f
	}
	impl.DisturbEvery = 3 // every third parse/load is preceded by a parse of an unrelated malformed text
	code := m.Run()
	evid.Flush(code == 0)
	if stderrFile != nil {
		_ = os.Remove(stderrFile.Name())
	}
	os.Exit(code)
}

// stderrNew returns what was written to the (redirected) stderr since the last call.
func stderrNew() string {
	if stderrFile == nil {
		return ""
	}
	st, err := stderrFile.Stat()
	if err != nil || st.Size() == stderrOff {
		return ""
	}
	buf := make([]byte, st.Size()-stderrOff)
	_, _ = stderrFile.ReadAt(buf, stderrOff)
	stderrOff = st.Size()
	return string(buf)
}

type replay struct {
	Src string `json:"src"`
	Hex string `json:"hex,omitempty"`
}

func mkReplay(src string) replay {
	r := replay{Src: src}
	if !utf8.ValidString(src) {
		r.Hex = fmt.Sprintf("%x", src)
	}
	return r
}

// checkLexer drives the exported lexer and returns "" or a description of the
// first violated covering rule, plus the token kind sequence.
func checkLexer(src string) (msg string, kindSeq string, ntok int) {
	defer func() {
		if r := recover(); r != nil {
			msg = fmt.Sprintf("the lexer panicked: %v\n%s", r, firstLines(string(debug.Stack()), 16))
		}
	}()
	return checkLexer1(src)
}

func firstLines(s string, n int) string {
	l := strings.Split(s, "\n")
	if len(l) > n {
		l = l[:n]
	}
	return strings.Join(l, "\n")
}

func checkLexer1(src string) (string, string, int) {
	l := parser.Lex(src)
	var it parser.Item
	prevEnd := 0
	var kinds strings.Builder
	n := 0
	for i := 0; ; i++ {
		if i > len(src)+1 {
			return fmt.Sprintf("lexer emitted more than len(src)+1=%d items", len(src)+1), kinds.String(), n
		}
		l.NextItem(&it)
		pos := int(it.Pos)
		if it.Typ == parser.ERROR {
			if pos < 0 || pos > len(src) {
				return fmt.Sprintf("ERROR item at %d outside [0,%d]", pos, len(src)), kinds.String(), n
			}
			kinds.WriteString("E")
			return "", kinds.String(), n
		}
		if pos < prevEnd {
			return fmt.Sprintf("item %d (%q) at %d overlaps previous item ending at %d", i, it.Val, pos, prevEnd), kinds.String(), n
		}
		if pos > len(src) || pos+len(it.Val) > len(src) {
			return fmt.Sprintf("item %d at %d len %d beyond source len %d", i, pos, len(it.Val), len(src)), kinds.String(), n
		}
		if src[pos:pos+len(it.Val)] != it.Val {
			return fmt.Sprintf("item %d value %q differs from source text %q at %d", i, it.Val, src[pos:pos+len(it.Val)], pos), kinds.String(), n
		}
		for _, c := range []byte(src[prevEnd:pos]) {
			if c != ' ' && c != '\t' && c != '\r' {
				return fmt.Sprintf("gap [%d,%d) before item %d contains non-blank byte %q", prevEnd, pos, i, c), kinds.String(), n
			}
		}
		prevEnd = pos + len(it.Val)
		if it.Typ == parser.EOF {
			if prevEnd != len(src) {
				return fmt.Sprintf("EOF item at %d but source has %d bytes", prevEnd, len(src)), kinds.String(), n
			}
			return "", kinds.String(), n
		}
		if len(it.Val) == 0 {
			return fmt.Sprintf("empty non-EOF item %d of type %d at %d", i, it.Typ, pos), kinds.String(), n
		}
		n++
		fmt.Fprintf(&kinds, "%d,", int(it.Typ))
	}
}

// checkParse evaluates the C05 oracle on one input. It returns "" if it holds.
var names = []string{"c05.p", "other.ppl", "dir/é script.p", "a.p"}
var nameTurn int

func checkParse(src string) (msg string, accepted bool) {
	nameTurn++
	name := names[nameTurn%len(names)]
	msg, accepted = checkParseAs(name, src)
	if msg == "" && nameTurn%3 == 0 && len(src) < 4096 {
		// the outcome of parsing a text belongs to the text: the same text offered again under the same name, after an
		// unrelated text went through the parser in between, is accepted or rejected as before, with the same diagnostic
		first := outcomeOf(name, src)
		between := awkward[(nameTurn/3)%len(awkward)]
		_, _, _ = impl.Parse("between.p", between)
		_ = stderrNew()
		if again := outcomeOf(name, src); again != first {
			return fmt.Sprintf("the same text, offered again under the same name after an unrelated parse (of %q), has another outcome: first %q, then %q", between, first, again), accepted
		}
	}
	if msg == "" && !accepted {
		// the diagnostic of a rejected text names the script it was offered as - also when the very same
		// text was rejected under another name just before
		if m2, _ := checkParseAs(names[(nameTurn+1)%len(names)], src); m2 != "" {
			return "second parse of the same text under another name: " + m2, false
		}
	}
	return msg, accepted
}

// awkward are the unrelated texts parsed between two parses of one text: valid and rejected ones, every quoting form,
// unclosed brackets, escapes that only one quoting form knows.
var awkward = []string{
	"`a b` = 1", "x = 'a\\`b'", "`q` = \"\\`\"", "s = \"\\\x00\"", "x = '''a\\'''", "x = \"\"\"a\nb\"\"\"", "f(a, g(b", "x = [1, {\"k\": [2, 3", "a[", "if a { f(\"abc) }", "x = 1e", "x = 0x",
	"`unclosed", "'''never closed", "\"\\u12\"", "x = \"a\\tb \ufffd\"", "# \u0130stanbul\nx = y", "IF a { }", "x = TRUE", "a = 1 @ 2", "x = 1 y = 2 (", "k = a[1:2:3:4]", "else { }", "x = `a` + `b`",
	"x = 'it\\'s'", "x = \"\\x41\\101\\u00e9\"", "a.b.c[1].d = 2", ".[0][1].name", "for ;; { break }", "x = -9223372036854775808", "\xff\xfe", "x = \"\\", "x = [\n1,\n2\n",
}

// outcomeOf renders what parsing src under name yields: the diagnostic text, or the number of statements.
func outcomeOf(name, src string) string {
	stmts, err, crash := impl.Parse(name, src)
	_ = stderrNew()
	switch {
	case crash != nil:
		return "panic: " + crash.Value
	case err != nil:
		return "rejected: " + err.Error()
	}
	return fmt.Sprintf("accepted: %d statements", len(stmts))
}

// kept holds the last few diagnostics as they were when they were returned: a diagnostic belongs to its caller and
// must not change when the parser is used again.
type keptDiag struct {
	pe   *errchain.PlError
	text string
	file string
	pos  int
	ln   int
	col  int
	src  string
}

var kept []keptDiag

func recheckKept() string {
	for _, k := range kept {
		if len(k.pe.PosChain) == 0 {
			return fmt.Sprintf("a diagnostic returned earlier (for %q) lost its position after later parses", clip(k.src))
		}
		p := k.pe.PosChain[0]
		if k.pe.Error() != k.text || p.File != k.file || p.Pos != k.pos || p.Ln != k.ln || p.Col != k.col {
			return fmt.Sprintf("a diagnostic returned earlier changed after later parses: it read %q (%s offset %d), now it reads %q (%s offset %d); its text was %q", k.text, k.file, k.pos, k.pe.Error(), p.File, p.Pos, clip(k.src))
		}
	}
	return ""
}

func checkParseAs(name, src string) (msg string, accepted bool) {
	msg, accepted = checkParseAs1(name, src)
	if msg == "" {
		if m := recheckKept(); m != "" {
			kept = nil
			return m, accepted
		}
	}
	return msg, accepted
}

func checkParseAs1(name, src string) (msg string, accepted bool) {
	stmts, err, crash := impl.Parse(name, src)
	serr := stderrNew()
	if crash != nil {
		return "ParsePipeline panicked: " + crash.Value, false
	}
	if strings.Contains(serr, "parser panic") {
		first := serr
		if i := strings.Index(first, "\n"); i > 0 {
			first = first[:i]
		}
		return "parser crashed internally (recovered): " + first, false
	}
	if err == nil {
		if stmts == nil {
			return "neither a tree nor an error was returned", false
		}
		for i, s := range stmts {
			if s == nil {
				return fmt.Sprintf("statement %d of the returned tree is nil", i), true
			}
		}
		return "", true
	}
	pe := impl.PlErr(err)
	if pe == nil {
		return fmt.Sprintf("error is not a positioned diagnostic: %T %q", err, err.Error()), false
	}
	if stmts != nil {
		return "both a tree and an error were returned", false
	}
	if len(pe.PosChain) == 0 {
		return "diagnostic without position", false
	}
	p := pe.PosChain[0]
	if p.File != name {
		return fmt.Sprintf("diagnostic names %q, want %q", p.File, name), false
	}
	if p.Pos < 0 || p.Pos > len(src) {
		return fmt.Sprintf("diagnostic position %d outside [0,%d] (ln %d col %d): %s", p.Pos, len(src), p.Ln, p.Col, pe.Err), false
	}
	ln, col := impl.LnCol(src, p.Pos)
	if ln != p.Ln || col != p.Col {
		return fmt.Sprintf("diagnostic at offset %d says %d:%d, offset is at %d:%d", p.Pos, p.Ln, p.Col, ln, col), false
	}
	if pe.Err == "" {
		return "diagnostic without message", false
	}
	if len(src) < 4096 {
		kept = append(kept, keptDiag{pe: pe, text: pe.Error(), file: p.File, pos: p.Pos, ln: p.Ln, col: p.Col, src: src})
		if len(kept) > 6 {
			kept = kept[1:]
		}
	}
	return "", false
}

var heartbeat string

func one(t rk.Failer, slot, class, src string) {
	if heartbeat == "" {
		heartbeat = filepath.Join(evid.OutDir(), fmt.Sprintf("heartbeat-%d.json", evid.Shard()))
	}
	if len(src) > 2048 { // only large inputs can plausibly hang for long; keep the common path cheap
		b, _ := json.Marshal(mkReplay(src))
		_ = os.WriteFile(heartbeat, b, 0o644)
	}
	evid.Watch(slot, "lexing / parsing", mkReplay(src))
	lmsg, kinds, ntok := checkLexer(src)
	if lmsg != "" {
		evid.Unwatch()
		rk.Fail(t, slot, mkReplay(src), "lexer: %s", lmsg)
	}
	msg, accepted := checkParse(src)
	evid.Unwatch()
	if msg != "" {
		rk.Fail(t, slot, mkReplay(src), "%s", msg)
	}
	if accepted && strings.HasSuffix(kinds, "E") {
		// the two halves of the property meet here: a text the lexer refuses has no tree
		rk.Fail(t, slot, mkReplay(src), "the lexer refuses the text (its %d. item is an ERROR item) but ParsePipeline returned a tree and no error: what follows the refused place was dropped silently", ntok+1)
	}
	nontrivial := !accepted || ntok >= 3
	lab := class + "/rejected"
	if accepted {
		lab = class + "/accepted"
	}
	evid.Case(kinds, nontrivial, lab)
	if nontrivial {
		evid.Sample(map[string]any{"class": class, "src": clip(src), "accepted": accepted})
	}
}

func clip(s string) string {
	if len(s) > 160 {
		return s[:160] + fmt.Sprintf("...(%d bytes)", len(s))
	}
	return s
}

// ---------------------------------------------------------------- generators

var alphabet = []string{
	"a", "b", "_", "x1", "if", "elif", "else", "for", "in", "break", "continue", "true", "false", "nil", "null",
	"TRUE", "Nil", "inf", "nan", "while", "return", "str", "int", "map", "list", "float", "bool", "identifier",
	"0", "1", "42", "0x", "0x1F", "0X", "1e", "1e5", "1E+", "1.", ".5", "1.5", "1..2", "9223372036854775807", "9223372036854775808", "08", "1a", "0b1",
	"\"s\"", "'s'", "\"", "'", "`", "`q`", "\"\"", "''", "\"\"\"", "'''", "\"\"\"m\"\"\"", "'''m'''", "\"\\", "\"\\x", "\"\\x4", "\"\\u12", "\"\\U0011FFFF\"", "\"\\777\"", "\"\\q\"", "'\\''", "\"\\\"\"",
	"+", "-", "*", "/", "%", "=", "==", "!=", "<", "<=", ">", ">=", "!", "&&", "||", "&", "|", "+=", "-=", "*=", "/=", "%=",
	"(", ")", "[", "]", "{", "}", ",", ":", ";", ".", ".[", "\n", "\r\n", "\r", " ", "\t", "#", "#c\n", "# c",
	"\x00", "\xff", "\xc3", "é", "\u00e9x", "\U0001F44D", "\ufffd", "@", "$", "~", "^", "?", "\\",
	// names made of bytes that are not the start of a character, long names, line-separator characters that are not line ends
	"\x80\x80\x80\x80\x80\x80\x80\x80\x80\x80\x80", "\xbf\xbf\xbf\xbf\xbf\xbf\xbf\xbf\xbf\xbf\xbf\xbfz", "a\x80\x81\x82\x83\x84\x85\x86\x87\x88\x89\x8a\x8b", "ééééééé", "a_very_long_identifier_name_1234567890", "\U0001F600\U0001F600\U0001F600\U0001F600",
	"\u2028", "\u2029", "\u0085", "\u00a0", "\"a\u2028b\"", "'''x\u2029y'''", "# c\u2028d\n", "n\u2028m", "\ufeff", "\v", "\f",
}

func init() {
	// every odd character alone, glued to a name, and inside a literal and a comment
	for _, r := range gen.OddRunes {
		alphabet = append(alphabet, string(r), "n"+string(r), string(r)+"m")
	}
	alphabet = append(alphabet, gen.CaseShiftingWords()...)
	// multi-line literals whose body ends in a lone CR, signs in front of postfix forms with ill-typed bounds
	alphabet = append(alphabet, "'''x\ny\r'''", "\"\"\"a\\b\r\"\"\"", "'''q'\r'''", "'''\r'''", "-a[1.5:]", "+a[:\"k\"]", "-f(1)[:2.5]", "-\"abc\"[1.0:]", "-a[b[1.5:]]", "!a[1.5:]", "-a[[1]:]", "-a[::1.5]", "- -a[nil:]", "-a[1.5]", "-a[\"k\":][0]")
	for i, r := range gen.OddRunes {
		if i%4 == 0 {
			alphabet = append(alphabet, "\""+string(r)+"\"", "# "+string(r)+"\n", "`"+string(r)+"`")
		}
	}
}

func genTokens(t *rapid.T) string {
	n := rapid.IntRange(0, 24).Draw(t, "n")
	var b strings.Builder
	for i := 0; i < n; i++ {
		b.WriteString(rapid.SampledFrom(alphabet).Draw(t, "tok"))
		if rapid.IntRange(0, 3).Draw(t, "sp") == 0 {
			b.WriteByte(' ')
		}
	}
	return b.String()
}

func genBytes(t *rapid.T) string {
	bs := rapid.SliceOfN(rapid.OneOf(
		rapid.SampledFrom([]byte("ab_x019.eE+-*/%=!<>&|()[]{},:;#\"'`\\ \t\r\n")),
		rapid.Byte(),
	), 0, 48).Draw(t, "bytes")
	return string(bs)
}

// lexSpans splits src into the lexer's items (text only); used for token-level mutation.
func lexSpans(src string) (out [][2]int) {
	defer func() { _ = recover() }() // a lexer panic is reported by checkLexer on the same text
	l := parser.Lex(src)
	var it parser.Item
	for i := 0; i <= len(src)+1; i++ {
		l.NextItem(&it)
		if it.Typ == parser.ERROR || it.Typ == parser.EOF {
			break
		}
		p := int(it.Pos)
		if p < 0 || p+len(it.Val) > len(src) || len(it.Val) == 0 {
			break
		}
		out = append(out, [2]int{p, p + len(it.Val)})
	}
	return out
}

func mutate(t *rapid.T, src string) (string, string) {
	sp := lexSpans(src)
	if len(sp) == 0 {
		return src, "none"
	}
	i := rapid.IntRange(0, len(sp)-1).Draw(t, "at")
	a, b := sp[i][0], sp[i][1]
	switch rapid.IntRange(0, 4).Draw(t, "mut") {
	case 0:
		return src[:a] + src[b:], "delete"
	case 1:
		return src[:b] + " " + src[a:b] + src[b:], "duplicate"
	case 2:
		return src[:a] + rapid.SampledFrom(alphabet).Draw(t, "repl") + src[b:], "replace"
	case 3:
		j := rapid.IntRange(0, len(sp)-1).Draw(t, "with")
		if j == i {
			return src, "none"
		}
		if j < i {
			i, j = j, i
		}
		a, b = sp[i][0], sp[i][1]
		c, d := sp[j][0], sp[j][1]
		return src[:a] + src[c:d] + src[b:c] + src[a:b] + src[d:], "swap"
	default:
		return src[:a] + rapid.SampledFrom(alphabet).Draw(t, "ins") + " " + src[a:], "insert"
	}
}

func genNesting(t *rapid.T) string {
	d := rapid.OneOf(rapid.IntRange(1, 40), rapid.IntRange(41, 2000)).Draw(t, "depth")
	unbalance := rapid.IntRange(-1, 1).Draw(t, "unbalance")
	if rapid.IntRange(0, 3).Draw(t, "bal") != 0 {
		unbalance = 0
	}
	closeN := d + unbalance
	if closeN < 0 {
		closeN = 0
	}
	switch rapid.IntRange(0, 8).Draw(t, "shape") {
	case 0:
		return strings.Repeat("(", d) + "1" + strings.Repeat(")", closeN)
	case 1:
		return "x = " + strings.Repeat("[", d) + "1" + strings.Repeat("]", closeN)
	case 2:
		return "x = " + strings.Repeat("{\"a\":", d) + "1" + strings.Repeat("}", closeN)
	case 3:
		return strings.Repeat("-", d) + "a"
	case 4:
		return strings.Repeat("!", d) + "a"
	case 5:
		return "a" + strings.Repeat("[0]", d)
	case 6:
		return strings.Repeat("if a {\n", d) + "b\n" + strings.Repeat("}\n", closeN)
	case 7:
		return strings.Repeat("f(", d) + "1" + strings.Repeat(")", closeN)
	default:
		return "a" + strings.Repeat(" + 1", d)
	}
}

func genStringish(t *rapid.T) string {
	q := rapid.SampledFrom([]string{"\"", "'", "`", "\"\"\"", "'''"}).Draw(t, "q")
	body := rapid.SliceOfN(rapid.SampledFrom([]string{
		"a", "\\", "\\n", "\\x", "\\x4", "\\x41", "\\u", "\\u00e", "\\u00e9", "\\U0001F44", "\\U0001F44D", "\\7", "\\77", "\\101", "\\8",
		"\"", "'", "`", "\n", "\r", "\x00", "é", "\xff", "\\\"", "\\'", "\\`", "\\q", " ", "#",
		// characters a decoder may mistake for "undecodable" or whose case mapping changes their length, next to escapes
		"\ufffd", "\U0001F600", "\u2028", "\ufeff", "\u00a0", "\u0130", "\u212a", "\u1e9e", "\U0010FFFF", "\\t", "\\\\", "\\x00", "\\ufffd", "\\0",
	}), 0, 8).Draw(t, "body")
	closeq := q
	switch rapid.IntRange(0, 5).Draw(t, "close") {
	case 0:
		closeq = ""
	case 1:
		closeq = rapid.SampledFrom([]string{"\"", "'", "`", "\"\"", "''", "\"'\"", "'\"'"}).Draw(t, "cq")
	}
	pre := rapid.SampledFrom([]string{"", "x = ", "f(", "a["}).Draw(t, "pre")
	post := rapid.SampledFrom([]string{"", "\n", " + 1", ")", "]"}).Draw(t, "post")
	return pre + q + strings.Join(body, "") + closeq + post
}

func genNumberish(t *rapid.T) string {
	parts := rapid.SliceOfN(rapid.SampledFrom([]string{
		"0", "1", "9", "0x", "0X", "x", "e", "E", "+", "-", ".", "f", "F", "_", "a", "inf", "nan", "9223372036854775807", "18446744073709551616",
	}), 1, 6).Draw(t, "parts")
	pre := rapid.SampledFrom([]string{"", "-", "+", "x = ", "for a in ", "1/", "1%", "a[", "a[:"}).Draw(t, "pre")
	post := rapid.SampledFrom([]string{"", "\n", " {}", "]", " * 2"}).Draw(t, "post")
	return pre + strings.Join(parts, "") + post
}

// ---------------------------------------------------------------- corpus

var corpus []string

// harvest collects raw string literals from the repository's own tests and the
// code blocks of its syntax reference: realistic scripts to mutate.
func harvest() []string {
	if corpus != nil {
		return corpus
	}
	seen := map[string]bool{}
	add := func(s string) {
		if len(s) == 0 || len(s) > 4096 || seen[s] {
			return
		}
		seen[s] = true
		corpus = append(corpus, s)
	}
	root := evid.Repo()
	_ = filepath.Walk(filepath.Join(root, "pkg"), func(p string, info os.FileInfo, err error) error {
		if err != nil || info.IsDir() || !strings.HasSuffix(p, "_test.go") {
			return nil
		}
		fs := token.NewFileSet()
		f, err := goparser.ParseFile(fs, p, nil, 0)
		if err != nil {
			return nil
		}
		ast.Inspect(f, func(n ast.Node) bool {
			if bl, ok := n.(*ast.BasicLit); ok && bl.Kind == token.STRING {
				if s, err := strconv.Unquote(bl.Value); err == nil && (strings.ContainsAny(s, "(=") || strings.HasPrefix(bl.Value, "`")) {
					add(s)
				}
			}
			return true
		})
		return nil
	})
	if b, err := os.ReadFile(filepath.Join(root, "docs/src/references/01-syntax-spec.md")); err == nil {
		blocks := strings.Split(string(b), "```")
		for i := 1; i < len(blocks); i += 2 {
			body := blocks[i]
			if j := strings.Index(body, "\n"); j >= 0 {
				add(body[j+1:])
			}
		}
	}
	for _, s := range hostile {
		add(s)
	}
	return corpus
}

var hostile = []string{
	"", " ", "\n", ";", "#c", "#c\n", "-0x", "0x", "1e", "for a in 1e {}", "for x in 1/0 {}", "1/0", "1%0.0", ".[0]", ".[", "a.b", "a.b.c[1].d",
	"\"\\x", "\"\"\"", "'''abc", "`", "`a", "a[", "a[1", "a[1:", "f(", "f(a=", "{", "{\"a\"", "{\"a\":", "[", "[1,", ")", "]", "}", "\x00", "\xff\xfe",
	"if", "if a", "if a {", "for", "for ;", "for ;;", "for ;; {", "for a in", "a, b = 1", "a = b = 3", "a +", "!", "x = -", "a in", "a[::", "a[::]", "\"a\"[0:1]",
	"for a = 0; a < 10; a = a + 1 { break }", "f(1,)", "f(a=1,\n b=2)", "[1,\n2,\n]", "{\"a\": 1,\n}", "a = 1; b = 2;", ";;a", "a\r\nb", "a # c\nb",
	"if a {} elif b {} else {}", "x = a[1][\"k\"][-1]", "x = [1,2,3][::-1]", "x = f(1)[1:2]", "a.b = 1", "`a b` = 1", "x = 1 in [1] == true",
}

// ---------------------------------------------------------------- tests

func TestReplays(t *testing.T) {
	files, _ := filepath.Glob(filepath.Join(evid.Dir(), "replays", prop, "*.json"))
	for _, f := range files {
		b, err := os.ReadFile(f)
		if err != nil {
			continue
		}
		var r struct {
			Case replay `json:"case"`
		}
		if json.Unmarshal(b, &r) != nil {
			continue
		}
		src := r.Case.Src
		if r.Case.Hex != "" {
			var raw []byte
			_, _ = fmt.Sscanf(r.Case.Hex, "%x", &raw)
			src = string(raw)
		}
		t.Run(filepath.Base(f), func(t *testing.T) { one(t, "replay", "replay", src) })
	}
}

func TestHostileAndCorpus(t *testing.T) {
	for _, s := range harvest() {
		one(t, "corpus", "corpus", s)
	}
	evid.Extra("corpus_size", len(harvest()))
}

func TestRandomBytes(t *testing.T) {
	rk.Check(t, "bytes", 1, evid.Scale(6000, 100000), func(t *rapid.T) { one(t, "bytes", "bytes", genBytes(t)) })
}

func TestTokenSequences(t *testing.T) {
	rk.Check(t, "tokens", 2, evid.Scale(6000, 100000), func(t *rapid.T) { one(t, "tokens", "tokens", genTokens(t)) })
}

func TestStringsAndNumbers(t *testing.T) {
	rk.Check(t, "stringish", 3, evid.Scale(3000, 50000), func(t *rapid.T) { one(t, "stringish", "stringish", genStringish(t)) })
	rk.Check(t, "numberish", 4, evid.Scale(3000, 50000), func(t *rapid.T) { one(t, "numberish", "numberish", genNumberish(t)) })
}

func TestNesting(t *testing.T) {
	rk.Check(t, "nesting", 5, evid.Scale(300, 3000), func(t *rapid.T) { one(t, "nesting", "nesting", genNesting(t)) })
}

func TestMutatedCorpus(t *testing.T) {
	c := harvest()
	rk.Check(t, "mutcorpus", 6, evid.Scale(4000, 60000), func(t *rapid.T) {
		src := rapid.SampledFrom(c).Draw(t, "base")
		k := rapid.IntRange(1, 2).Draw(t, "k")
		kind := ""
		for i := 0; i < k; i++ {
			var m string
			src, m = mutate(t, src)
			kind += m
		}
		one(t, "mutcorpus", "mutated-corpus/"+kind, src)
	})
}

func TestMutatedGenerated(t *testing.T) {
	rk.Check(t, "mutgen", 7, evid.Scale(3000, 60000), func(t *rapid.T) {
		prog := gen.Program(t, gen.ProfileSyntax())
		src := gen.Print(prog, gen.RandomLayout(t))
		if rapid.IntRange(0, 4).Draw(t, "keep") == 0 {
			one(t, "mutgen", "generated", src)
			return
		}
		src, kind := mutate(t, src)
		one(t, "mutgen", "mutated-generated/"+kind, src)
	})
}

var badAtoms = []string{"0x", "0X", "1e", "1e+", "1.2.3", "1a", "\"\\q\"", "\"abc", "'", "`", "`a", ".[", ".[]", "\"\\x4\"", "\"\\u12\"", "08e", "0xg", "@", "$x", "1..2", "(", ")", "[", "{", "a[", "f(", "a[1:", "\"\"\"x", "1/0", "1%0.0", "a in", "!", "-"}

// TestMalformedOperandTable: a malformed atom in every operand position, bare and inside 1..2 pairs of parentheses.
func TestMalformedOperandTable(t *testing.T) {
	ops := []string{"+", "-", "*", "/", "%", "==", "!=", "<", "<=", ">", ">=", "&&", "||", "in"}
	n := 0
	wrap := func(a string, k int) string { return strings.Repeat("(", k) + a + strings.Repeat(")", k) }
	for _, bad := range badAtoms {
		for k := 0; k <= 2; k++ {
			b := wrap(bad, k)
			var forms []string
			for _, op := range ops {
				forms = append(forms, "x = a "+op+" "+b, "x = "+b+" "+op+" a", "x = a "+op+" "+b+" "+op+" c", "a "+op[:1]+"= "+b)
			}
			forms = append(forms, "x = -"+b, "x = !"+b, "x = +"+b, "f("+b+")", "f(1, "+b+")", "f(k = "+b+")", "x = a["+b+"]", "x = a["+b+":]", "x = a[:"+b+"]", "x = a[::"+b+"]",
				"x = ["+b+"]", "x = [1, "+b+", 2]", "x = {\"k\": "+b+"}", "x = {"+b+": 1}", "if "+b+" { }", "if a { } elif "+b+" { }", "for x in "+b+" { }", "for ; "+b+"; { }",
				"for i = "+b+"; i < 1; i = i + 1 { }", "for ;; i = "+b+" { }", "a, b = 1, "+b, "a["+b+"] = 1", b, b+"\nx = 1", "x = 1\n"+b, "x = a."+b, "x = "+b+"[0]", "x = "+b+"[1:2]", "x = len("+b+")[0:1]")
			for _, f := range forms {
				one(t, "badoperand", "malformed-operand", f)
				n++
			}
		}
	}
	// literals of a type a slice bound does not admit, in every bound position and with the other bounds present / omitted
	for _, lit := range []string{"2.5", "\"s\"", "[1]", "{}", "nil", "true", "1e3", "-2.5", "'x'", "0.0", "[]"} {
		for _, obj := range []string{"a", "\"abc\"", "f()", "a[0]"} {
			for _, form := range []string{"%s[%s:]", "%s[:%s]", "%s[::%s]", "%s[1::%s]", "%s[:2:%s]", "%s[1:2:%s]", "%s[%s:2]", "%s[1:%s]", "%s[%s::]", "%s[:%s:]"} {
				one(t, "badoperand", "typed-literal-as-slice-bound", "x = "+fmt.Sprintf(form, obj, lit))
				one(t, "badoperand", "typed-literal-as-slice-bound", "y = 1\nif y { z = "+fmt.Sprintf(form, obj, lit)+" }\nw = 2")
				n += 2
				// the same under a sign or a negation, as the index of another element, as an operand
				for _, pre := range []string{"-", "+", "!", "- -", "-(", "1 + -"} {
					e := fmt.Sprintf(form, obj, lit)
					post := ""
					if pre == "-(" {
						post = ")"
					}
					one(t, "badoperand", "typed-literal-as-slice-bound", "x = "+pre+e+post)
					one(t, "badoperand", "typed-literal-as-slice-bound", "x = "+pre+"b["+e+"]"+post)
					n += 2
				}
			}
		}
	}
	// a construct that is cut off by the end of the text, with the last line a comment (with and without its line break)
	for _, cut := range []string{"if x {", "a = [1,", "f(", "a = 1 +", "x = {\"k\":", "for i in [1] {\n  y = 1", "a = (", "if a {\n} elif b {", "x = a[1:", "s = \"abc"} {
		for _, tail := range []string{"\n# c", "\n# c\n", " # c", "\n#", "\n\n  # trailing é", "\n# a\n# b", "#"} {
			one(t, "badoperand", "cut-off-construct-before-trailing-comment", cut+tail)
			n++
		}
	}
	evid.Exhaustive("malformed atom x operand position x parenthesis depth", n)
}

// TestRepetitionAndSize: the same (malformed or valid) statement repeated k times, k across small counts and the
// powers of two, and texts of growing size up to several MiB (a limit on the number of recorded errors, on the
// nesting depth or on the text size must still end in a tree or a positioned diagnostic - and must not disturb the
// parse that follows).
func TestRepetitionAndSize(t *testing.T) {
	stmts := []string{"x = 1 / 0", "x = 1 % 0", "a = [1e, 1e]", "y = 0x", "z = \"\\q\"", "x = (", "f(", "a = = 1", "x = 1", "f(a, b)", "if a { b = 1 }", "x = 1..2", "a[", "-", "x = a in", "k = {\"a\": }"}
	seps := []string{"\n", "\n\n", " ", ";", "\r\n"}
	counts := []int{2, 3, 5, 8, 9, 10, 11, 12, 13, 16, 17, 20, 31, 32, 33, 50, 64, 65, 100, 128, 129, 200, 256, 257, 500, 1000}
	n := 0
	for si, st := range stmts {
		for _, k := range counts {
			for pi, sep := range seps {
				if (si+pi)%evid.NShards() != evid.Shard() {
					continue
				}
				if k > 200 && pi > 1 {
					continue
				}
				one(t, "repeat", "repeated-statement", strings.Repeat(st+sep, k))
				// the same with one valid statement in front and behind
				one(t, "repeat", "repeated-statement", "v = 1\n"+strings.Repeat(st+sep, k)+"w = 2")
				n += 2
			}
		}
	}
	// errors spread over the operands of one expression / the elements of one literal
	for _, k := range counts {
		if k > 300 {
			continue
		}
		one(t, "repeat", "repeated-operand", "x = "+strings.Repeat("1 / 0 + ", k)+"1")
		one(t, "repeat", "repeated-operand", "x = ["+strings.Repeat("1 % 0, ", k)+"1]")
		one(t, "repeat", "repeated-operand", "f("+strings.Repeat("1e, ", k)+"1)")
		one(t, "repeat", "repeated-operand", "x = "+strings.Repeat("(", k)+"1 / 0"+strings.Repeat(")", k))
		n += 4
	}
	// size: valid and invalid texts from 64 KiB to beyond 4 MiB and 8 MiB, each followed by a small parse
	if evid.Shard() == 0 {
		line := "add_key(some_key_name, \"a value that makes the line a bit longer\") # comment\n"
		for _, size := range []int{1 << 16, 1 << 20, 1<<22 - 100, 1<<22 + 1, 1<<22 + 70000, 1<<23 + 5} {
			for _, tail := range []string{"", "x = = 1", "\"unterminated"} {
				src := strings.Repeat(line, size/len(line)+1)[:size-len(tail)] + tail
				if i := strings.LastIndex(src[:len(src)-len(tail)], "\n"); tail != "" && i > 0 {
					src = src[:i+1] + strings.Repeat(" ", len(src)-len(tail)-i-1) + tail
				}
				one(t, "size", "large-text", src)
				one(t, "size", "after-large-text", "x = 1\nf(x)")
				one(t, "size", "after-large-text", "x = [")
				n += 3
			}
		}
		// one very long line, one very long string literal, one very long identifier list
		one(t, "size", "large-text", "x = \""+strings.Repeat("ab\\n", 1<<20)+"\"")
		one(t, "size", "large-text", "x = ["+strings.Repeat("1, ", 1<<19)+"1]")
		one(t, "size", "large-text", strings.Repeat("a = 1; ", 1<<18))
		one(t, "size", "after-large-text", "x = 1")
		n += 4
	}
	evid.Exhaustive("statement x separator x repetition count; error-per-operand chains; text sizes to 8 MiB", n)
}

// TestMalformedLeaves: a generated valid program in which one leaf token is replaced by a malformed atom.
// TestEscapesNextToOddCharacters: a quoted literal that holds a backslash escape (which sends the decoder down its slow
// path) and one character of every odd class - U+FFFD validly encoded, characters outside the BMP, separators, format
// characters, letters whose case mapping changes their length - before it, after it, and alone: parsing ends.
func TestEscapesNextToOddCharacters(t *testing.T) {
	runes := append([]rune{0xFFFD, 0x130, 0x212A, 0x212B, 0x1E9E, 0x2028, 0xFEFF, 0x1F600, 0x10FFFF, 0xE000, 0xD7FF, 0x7F, 0x80}, gen.OddRunes...)
	escs := []string{"", "\\t", "\\\\", "\\x41", "\\u00e9", "\\101", "\\\"", "\\'", "\\q", "\\"}
	n := 0
	for ri, r := range runes {
		for _, e := range escs {
			for _, q := range []string{"\"", "'", "\"\"\"", "'''", "`"} {
				for bi, body := range []string{e + string(r), string(r) + e, "a" + e + "b" + string(r) + "c", string(r) + e + string(r)} {
					if (ri+bi)%evid.NShards() != evid.Shard() {
						continue
					}
					for _, ctx := range []string{"x = %s", "x = %s\ny = 1", "# %s\nmsg = x"} {
						one(t, "escape-odd", "escape-next-to-odd-character", fmt.Sprintf(ctx, q+body+q))
						n++
					}
				}
			}
		}
	}
	evid.Exhaustive("odd character x escape x quoting form x arrangement x context", n)
}

// TestCommentEndings: a # comment ended by every kind of line end (LF, CR LF, a lone CR, end of text) and followed by
// every kind of character - ASCII, two-, three- and four-byte characters, odd characters, invalid bytes: the comment
// token ends where the line ends, the tokens cover the text, parsing ends with a tree or a positioned diagnostic.
func TestCommentEndings(t *testing.T) {
	next := []string{"", "a = 2\n", "é = 2\n", "中 = 2\n", "\U0001F600 = 2\n", "\xff", "\x80\x80", " 中", " ", "\ufeffb = 1", "#\r中", "\r中 = 1"}
	for _, r := range gen.OddRunes {
		next = append(next, string(r)+" = 2\n")
	}
	n := 0
	for _, pre := range []string{"", "a = 1\n", "a = 1 ", "x = [1, ", "if a {\n"} {
		for _, body := range []string{"", "x", " note ab", " 中文", "#", " c \\", strings.Repeat("c", 17), " \"q"} {
			for _, end := range []string{"\n", "\r\n", "\r", "", "\r\r", "\n\r"} {
				for ni, nx := range next {
					if (n+ni)%evid.NShards() != evid.Shard() {
						continue
					}
					one(t, "comment-endings", "comment-ending", pre+"#"+body+end+nx)
				}
				n++
			}
		}
	}
	evid.Exhaustive("context x comment body x line end x following character", n*len(next))
}

func TestMalformedLeaves(t *testing.T) {
	rk.Check(t, "badleaf", 8, evid.Scale(4000, 60000), func(t *rapid.T) {
		prog := gen.Program(t, gen.ProfileSyntax())
		src := gen.Print(prog, gen.RandomLayout(t))
		var leaves [][2]int
		gen.WalkAll(prog, func(n *gen.Node) {
			switch n.Kind {
			case gen.Ident, gen.Str, gen.Int, gen.Float, gen.Bool, gen.Nil:
				if n.P.Start >= 0 && n.P.End > n.P.Start && n.P.End <= len(src) {
					leaves = append(leaves, [2]int{n.P.Start, n.P.End})
				}
			}
		})
		if len(leaves) == 0 {
			return
		}
		l := leaves[rapid.IntRange(0, len(leaves)-1).Draw(t, "leaf")]
		bad := rapid.SampledFrom(badAtoms).Draw(t, "bad")
		if rapid.IntRange(0, 2).Draw(t, "paren") == 0 {
			bad = "(" + bad + ")"
		}
		one(t, "badleaf", "malformed-leaf", src[:l[0]]+bad+src[l[1]:])
	})
}

// FuzzParse is the native coverage-guided target (thorough tier only).
func FuzzParse(f *testing.F) {
	for _, s := range harvest() {
		f.Add([]byte(s))
	}
	f.Fuzz(func(t *testing.T, b []byte) {
		if len(b) > 4096 {
			return
		}
		one(t, "fuzz", "fuzz", string(b))
	})
}
