package c08

import (
	"encoding/json"
	"fmt"
	plrt "github.com/GuanceCloud/platypus/pkg/engine/runtime"
	"os"
	"path/filepath"
	"strings"
	"testing"

	"github.com/GuanceCloud/platypus/pkg/ast"
	"github.com/GuanceCloud/platypus/pkg/engine/runtimev2"
	"github.com/GuanceCloud/platypus/pkg/errchain"
	"pgregory.net/rapid"
	"verifharness/evid"
	"verifharness/gen"
	"verifharness/impl"
	"verifharness/rk"
	"verifharness/sem"
	"verifharness/sgen"
)

const prop = "C08"

func TestMain(m *testing.M) {
	evid.Init(prop, "exploration",
		"valid base programs (generated control flow, collections, slices, probe and builtin calls) x every expression position in them (conditions, each for clause, for-in iterable, list elements, map keys and values, each index, every slice bound and step, positional and named call arguments, both sides of every assignment kind, both operands of binary/in expressions, unary operand, parenthesised, statement level) x offender kinds: call of an unregistered function; for each builtin each way its documented argument rules can be broken (too few / too many arguments, wrong literal kind in a literal-only position, unknown cast type, unknown grok pattern, ...); break / continue at every statement position outside loops (top level, inside branches, after a loop ended); for v2 additionally random function tables (functions with random parameter lists checked by CheckPassParam) and binding violations. Oracle: the base program is accepted by ParseScript and by ParseV2; every mutated program is rejected by both, by a positioned error whose first position lies inside the offender's span, and the loader returns rather than panics. Non-trivial: offender at nesting depth >= 2 or in a slot other than a statement-level call; distinct by (slot path, offender kind).",
		"offenders that are only dynamically wrong are not offenders: every offender here violates a load-time rule stated in fn.md / the checkers' documented argument rules")
	impl.DisturbEvery = 3 // every third parse/load is preceded by a parse of an unrelated malformed text
	code := m.Run()
	evid.Flush(code == 0)
	os.Exit(code)
}

func id(s string) *gen.Node  { return gen.NIdent(s) }
func str(s string) *gen.Node { return gen.NStr(s) }
func i64(i int64) *gen.Node  { return gen.NInt(i) }

type replay struct {
	Src      string `json:"src"`
	Offender string `json:"offender,omitempty"`
	Span     [2]int `json:"span,omitempty"`
	V2       bool   `json:"v2,omitempty"`
	Expect   string `json:"expect"`
	Table    string `json:"function_table,omitempty"`
}

var call1, check1 = sem.V1Tables()

// loadBoth returns the load errors of v1 and v2 (nil = accepted); fns is the v2 table.
func loadV1(src string) (error, *impl.Crash) {
	_, err, crash := impl.Load1("c08.p", src, call1, check1)
	return err, crash
}

func loadV2(src string, fns map[string]*runtimev2.Fn) (error, *impl.Crash) {
	_, err, crash := impl.LoadV2("c08.p", src, fns)
	return err, crash
}

func checkRejected(t rk.Failer, slot string, rp replay, who string, err error, crash *impl.Crash, span [2]int) {
	if crash != nil {
		rk.Fail(t, slot, rp, "%s loader panicked on offender %s: %s\nscript:\n%s", who, rp.Offender, crash.Value, rp.Src)
	}
	if err == nil {
		rk.Fail(t, slot, rp, "%s accepted a script containing the invalid construct %s at [%d,%d)\nscript:\n%s", who, rp.Offender, span[0], span[1], rp.Src)
	}
	pe := impl.PlErr(err)
	if pe == nil || len(pe.PosChain) == 0 {
		rk.Fail(t, slot, rp, "%s: rejection is not a positioned error: %v", who, err)
	}
	p := pe.PosChain[0]
	if p.File != "c08.p" {
		rk.Fail(t, slot, rp, "%s: error names %q", who, p.File)
	}
	if p.Pos < span[0] || p.Pos >= span[1] {
		rk.Fail(t, slot, rp, "%s: error %q at offset %d (%d:%d) does not point at the offending construct %s [%d,%d)\nscript:\n%s", who, pe.Err, p.Pos, p.Ln, p.Col, rp.Offender, span[0], span[1], rp.Src)
	}
	ln, col := impl.LnCol(rp.Src, p.Pos)
	if ln != p.Ln || col != p.Col {
		rk.Fail(t, slot, rp, "%s: error offset %d says %d:%d, is at %d:%d", who, p.Pos, p.Ln, p.Col, ln, col)
	}
}

// ---------------------------------------------------------------- offenders

type offender struct {
	name string
	v1   bool // applies to the v1 builtin table
	v2   bool // applies to the v2 probe table
	e    func() *gen.Node
}

var offenders = []offender{
	{"unknown-func", true, true, func() *gen.Node { return gen.NCall("nosuch", i64(1)) }},
	{"unknown-func-noargs", true, true, func() *gen.Node { return gen.NCall("nosuch2") }},
	{"unknown-func-nested-arg", true, true, func() *gen.Node { return gen.NCall("pval", gen.NCall("nosuch3", id("a"))) }},
	// function names are matched exactly: a registered name in another letter case is not registered
	{"unknown-func-case-upper", true, true, func() *gen.Node { return gen.NCall("PVAL", i64(1)) }},
	{"unknown-func-case-title", true, true, func() *gen.Node { return gen.NCall("Pval", i64(1)) }},
	{"unknown-func-case-len", true, false, func() *gen.Node { return gen.NCall("LEN", gen.NList(i64(1))) }},
	{"unknown-func-case-builtin", true, false, func() *gen.Node { return gen.NCall("Add_Key", id("k"), i64(1)) }},
	{"unknown-func-prefix", true, true, func() *gen.Node { return gen.NCall("pva", i64(1)) }},
	{"unknown-func-suffix", true, true, func() *gen.Node { return gen.NCall("pvals", i64(1)) }},
	{"pval-argc0", true, true, func() *gen.Node { return gen.NCall("pval") }},
	{"pval-argc2", true, true, func() *gen.Node { return gen.NCall("pval", i64(1), i64(2)) }},
	{"probe-missing-label", false, true, func() *gen.Node { return gen.NCall("probe") }},
	{"pval-unknown-name", false, true, func() *gen.Node {
		return gen.NCall("pval", gen.NAssign("=", []*gen.Node{id("zz")}, []*gen.Node{i64(1)}))
	}},
	{"pvoid-surplus-arg", false, true, func() *gen.Node { return gen.NCall("pvoid", i64(1)) }},
	{"probe-named-with-variadic", false, true, func() *gen.Node {
		return gen.NCall("probe", gen.NAssign("=", []*gen.Node{id("label")}, []*gen.Node{str("x")}))
	}},
	{"add_key-argc0", true, false, func() *gen.Node { return gen.NCall("add_key") }},
	{"add_key-argc3", true, false, func() *gen.Node { return gen.NCall("add_key", id("k"), i64(1), i64(2)) }},
	{"add_key-key-kind", true, false, func() *gen.Node { return gen.NCall("add_key", i64(1), i64(2)) }},
	{"get_key-argc0", true, false, func() *gen.Node { return gen.NCall("get_key") }},
	{"get_key-key-kind", true, false, func() *gen.Node { return gen.NCall("get_key", gen.NBin("+", i64(1), i64(1))) }},
	{"set_tag-argc0", true, false, func() *gen.Node { return gen.NCall("set_tag") }},
	{"set_tag-argc3", true, false, func() *gen.Node { return gen.NCall("set_tag", id("k"), str("v"), str("w")) }},
	{"set_tag-value-kind", true, false, func() *gen.Node { return gen.NCall("set_tag", id("k"), i64(1)) }},
	{"drop_key-argc0", true, false, func() *gen.Node { return gen.NCall("drop_key") }},
	{"drop_key-argc2", true, false, func() *gen.Node { return gen.NCall("drop_key", id("k"), id("j")) }},
	{"rename-argc1", true, false, func() *gen.Node { return gen.NCall("rename", id("k")) }},
	{"rename-old-kind", true, false, func() *gen.Node { return gen.NCall("rename", id("k"), str("old")) }},
	{"cast-argc1", true, false, func() *gen.Node { return gen.NCall("cast", id("k")) }},
	{"cast-unknown-type", true, false, func() *gen.Node { return gen.NCall("cast", id("k"), str("zzz")) }},
	{"cast-type-kind", true, false, func() *gen.Node { return gen.NCall("cast", id("k"), id("t")) }},
	{"set_measurement-argc0", true, false, func() *gen.Node { return gen.NCall("set_measurement") }},
	{"set_measurement-flag-kind", true, false, func() *gen.Node { return gen.NCall("set_measurement", id("k"), i64(1)) }},
	{"len-argc0", true, false, func() *gen.Node { return gen.NCall("len") }},
	{"len-argc2", true, true, func() *gen.Node { return gen.NCall("len", id("a"), id("b")) }},
	{"load_json-argc0", true, false, func() *gen.Node { return gen.NCall("load_json") }},
	{"strfmt-argc1", true, false, func() *gen.Node { return gen.NCall("strfmt", id("k")) }},
	{"strfmt-fmt-kind", true, false, func() *gen.Node { return gen.NCall("strfmt", id("k"), id("f"), i64(1)) }},
	{"printf-argc0", true, false, func() *gen.Node { return gen.NCall("printf") }},
	{"trim-argc0", true, false, func() *gen.Node { return gen.NCall("trim") }},
	{"trim-argc3", true, false, func() *gen.Node { return gen.NCall("trim", id("k"), str("x"), str("y")) }},
	{"trim-cutset-kind", true, false, func() *gen.Node { return gen.NCall("trim", id("k"), i64(1)) }},
	{"uppercase-argc0", true, false, func() *gen.Node { return gen.NCall("uppercase") }},
	{"uppercase-argc2", true, false, func() *gen.Node { return gen.NCall("uppercase", id("k"), id("j")) }},
	{"replace-argc2", true, false, func() *gen.Node { return gen.NCall("replace", id("k"), str("x")) }},
	{"replace-pattern-kind", true, false, func() *gen.Node { return gen.NCall("replace", id("k"), id("p"), str("c")) }},
	{"url_decode-argc0", true, false, func() *gen.Node { return gen.NCall("url_decode") }},
	{"grok-argc1", true, false, func() *gen.Node { return gen.NCall("grok", id("k")) }},
	{"grok-pattern-kind", true, false, func() *gen.Node { return gen.NCall("grok", id("k"), id("p")) }},
	{"grok-unknown-pattern", true, false, func() *gen.Node { return gen.NCall("grok", id("k"), str("%{NOSUCHPATTERN:x}")) }},
	{"grok-flag-kind", true, false, func() *gen.Node { return gen.NCall("grok", id("k"), str("%{INT:x}"), i64(1)) }},
	{"add_pattern-argc1", true, false, func() *gen.Node { return gen.NCall("add_pattern", str("x")) }},
	{"add_pattern-name-kind", true, false, func() *gen.Node { return gen.NCall("add_pattern", id("x"), str("y")) }},
	{"add_pattern-unknown-ref", true, false, func() *gen.Node { return gen.NCall("add_pattern", str("x"), str("%{NOSUCHPATTERN}")) }},
	{"xml-argc2", true, false, func() *gen.Node { return gen.NCall("xml", id("k"), str("/a")) }},
	{"xml-xpath-kind", true, false, func() *gen.Node { return gen.NCall("xml", id("k"), id("x"), id("d")) }},
	{"datetime-argc2", true, false, func() *gen.Node { return gen.NCall("datetime", id("k"), str("s")) }},
	{"datetime-precision-kind", true, false, func() *gen.Node { return gen.NCall("datetime", id("k"), id("p"), str("RFC3339")) }},
	{"default_time-argc0", true, false, func() *gen.Node { return gen.NCall("default_time") }},
	{"default_time-zone-kind", true, false, func() *gen.Node { return gen.NCall("default_time", id("k"), id("z")) }},
	// the kind rule of an argument holds whatever follows it in the call
	{"default_time-zone-kind-surplus-1", true, false, func() *gen.Node { return gen.NCall("default_time", id("k"), i64(8), str("Asia/Shanghai")) }},
	{"default_time-zone-kind-surplus-2", true, false, func() *gen.Node { return gen.NCall("default_time", id("k"), id("z"), str("UTC")) }},
	{"default_time-zone-kind-surplus-3", true, false, func() *gen.Node { return gen.NCall("default_time", id("k"), gen.NNil(), i64(1), i64(2)) }},
	{"grok-pattern-kind-with-flag", true, false, func() *gen.Node { return gen.NCall("grok", id("k"), id("p"), gen.NBool(true)) }},
	{"use-argc0", true, false, func() *gen.Node { return gen.NCall("use") }},
	{"use-name-kind", true, false, func() *gen.Node { return gen.NCall("use", id("k")) }},
	{"sql_cover-argc0", true, false, func() *gen.Node { return gen.NCall("sql_cover") }},
	{"map-key-literal-int", true, true, func() *gen.Node { return gen.NMap(i64(1), i64(2)) }},
	{"map-key-literal-list", true, true, func() *gen.Node { return gen.NMap(gen.NList(), i64(2)) }},
}

// A literal argument that must be one of a documented list of words (the type name of cast) is compared as a whole word:
// pieces of a name, two names at once, other letter cases, names with blanks and the empty text are all unknown types.
func init() {
	for _, ty := range []string{"", " ", "in", "nt", "oat", "ring", "boo", "st", "t s", "l i", "int float", "bool int float str", "int,float", "int|float", "Int", "INT", "Bool", "FLOAT", "Str", " int", "int ", "int\n", "integer", "boolean", "float64", "int64", "strs", "i", "b"} {
		ty := ty
		offenders = append(offenders, offender{fmt.Sprintf("cast-type-near-miss-%q", ty), true, false, func() *gen.Node { return gen.NCall("cast", id("k"), str(ty)) }})
	}
}

// ---------------------------------------------------------------- base programs

func genBase(t *rapid.T) ([]*gen.Node, *sgen.G) {
	g := sgen.New(t)
	g.Probes = true
	g.Loops = true
	g.Slices = true
	g.Hostile = 0
	g.EmptyBlocks = rapid.Bool().Draw(t, "emptyblocks") // bodies and branches without statements
	g.MaxDepth = rapid.IntRange(2, 3).Draw(t, "depth")
	named := func(g *sgen.G, d int) *gen.Node {
		// a call with a named argument and one with a trailing comma: positions of their own
		c := gen.NCall("pval", gen.NAssign("=", []*gen.Node{id("v")}, []*gen.Node{g.ExprOf(sgen.TInt, 1)}))
		return c
	}
	g.Calls = []func(*sgen.G, int) *gen.Node{named}
	prog := g.Program(rapid.IntRange(2, 6).Draw(t, "size"), rapid.IntRange(1, 3).Draw(t, "nest"))
	return prog, g
}

func mutate(base []*gen.Node, slotIdx int, off *gen.Node) (string, [2]int, gen.Slot, bool) {
	prog := gen.CloneProg(base)
	slots := gen.ExprSlots(prog)
	if slotIdx >= len(slots) {
		return "", [2]int{}, gen.Slot{}, false
	}
	s := slots[slotIdx]
	s.Set(off)
	src := gen.Print(prog, gen.Minimal{})
	return src, [2]int{off.P.Start, off.P.End}, s, true
}

func TestBaseAndOffenders(t *testing.T) {
	v2fns := sem.V2Fns()
	rk.Check(t, "slots", 1, evid.Scale(70, 45), func(t *rapid.T) {
		base, _ := genBase(t)
		src := gen.Print(gen.CloneProg(base), gen.RandomLayout(t))
		if err, crash := loadV1(src); err != nil || crash != nil {
			rk.Fail(t, "slots", replay{Src: src, Expect: "accepted"}, "v1 rejected a script made only of valid constructs: %v %v\nscript:\n%s", err, crash, src)
		}
		if err, crash := loadV2(src, v2fns); err != nil || crash != nil {
			rk.Fail(t, "slots", replay{Src: src, V2: true, Expect: "accepted"}, "v2 rejected a script made only of valid constructs: %v %v\nscript:\n%s", err, crash, src)
		}
		evid.Case("base:"+gen.Skeleton(base), false, "base-accepted")
		nslots := len(gen.ExprSlots(gen.CloneProg(base)))
		if nslots == 0 {
			return
		}
		// quick: a random 1/8 of the (slot, offender) pairs; thorough: all pairs
		all := evid.Thorough()
		for si := 0; si < nslots; si++ {
			for oi := range offenders {
				if !all && rapid.IntRange(0, 7).Draw(t, "pick") != 0 {
					continue
				}
				o := offenders[oi]
				msrc, span, s, ok := mutate(base, si, o.e())
				if !ok {
					continue
				}
				rp := replay{Src: msrc, Offender: o.name + "@" + s.Path, Span: span, Expect: "rejected"}
				if o.v1 {
					err, crash := loadV1(msrc)
					checkRejected(t, "slots", rp, "v1", err, crash, span)
				}
				if o.v2 {
					rp.V2 = true
					err, crash := loadV2(msrc, v2fns)
					checkRejected(t, "slots", rp, "v2", err, crash, span)
				}
				nt := s.Depth >= 2 || !strings.HasSuffix(s.Path, ".stmt")
				evid.Case(s.Path+"|"+o.name, nt, "offender/"+o.name, "slot/"+lastSeg(s.Path))
				if nt && (si*len(offenders)+oi)%701 == 0 {
					evid.Sample(map[string]any{"offender": o.name, "slot": s.Path, "script": msrc, "offender_span": span})
				}
			}
		}
		// an offender as a surplus value of an assignment (more values than targets is accepted by the grammar)
		{
			count := 0
			gen.WalkAll(gen.CloneProg(base), func(n *gen.Node) {
				if n.Kind == gen.Assign && n.Op == "=" {
					count++
				}
			})
			for k := 0; k < count; k++ {
				for oi := range offenders {
					if !all && rapid.IntRange(0, 15).Draw(t, "pick-surplus") != 0 {
						continue
					}
					o := offenders[oi]
					p2 := gen.CloneProg(base)
					off := o.e()
					seen := 0
					gen.WalkAll(p2, func(n *gen.Node) {
						if n.Kind == gen.Assign && n.Op == "=" {
							if seen == k {
								n.Rhs = append(n.Rhs, off)
							}
							seen++
						}
					})
					p2 = gen.FixAll(p2)
					msrc := gen.Print(p2, gen.Minimal{})
					span := [2]int{off.P.Start, off.P.End}
					if span[0] < 0 || span[1] <= span[0] || span[1] > len(msrc) {
						continue
					}
					rp := replay{Src: msrc, Offender: o.name + "@surplus-value-of-assignment", Span: span, Expect: "rejected"}
					if o.v1 {
						err, crash := loadV1(msrc)
						checkRejected(t, "slots", rp, "v1", err, crash, span)
					}
					if o.v2 {
						rp.V2 = true
						err, crash := loadV2(msrc, v2fns)
						checkRejected(t, "slots", rp, "v2", err, crash, span)
					}
					evid.Case(fmt.Sprintf("surplus|%d|%s", k, o.name), true, "offender/"+o.name, "slot/surplus-value")
				}
			}
		}
		// break / continue at every statement position outside loops
		prog := gen.CloneProg(base)
		for i, ss := range gen.StmtSlots(&prog) {
			if ss.InLoop {
				continue
			}
			for _, kw := range []string{"break", "continue"} {
				p2 := gen.CloneProg(base)
				sl := gen.StmtSlots(&p2)[i]
				bc := gen.NBreak()
				if kw == "continue" {
					bc = gen.NContinue()
				}
				l := *sl.List
				*sl.List = append(append(append([]*gen.Node{}, l[:sl.At]...), bc), l[sl.At:]...)
				msrc := gen.Print(p2, gen.Minimal{})
				span := [2]int{bc.P.Start, bc.P.End}
				rp := replay{Src: msrc, Offender: kw + "@" + sl.Path, Span: span, Expect: "rejected"}
				err, crash := loadV1(msrc)
				checkRejected(t, "slots", rp, "v1", err, crash, span)
				rp.V2 = true
				err, crash = loadV2(msrc, v2fns)
				checkRejected(t, "slots", rp, "v2", err, crash, span)
				evid.Case(sl.Path+"|"+kw+fmt.Sprint(sl.At), sl.Depth >= 1, "offender/"+kw+"-outside-loop")
			}
		}
	})
}

func lastSeg(p string) string {
	if i := strings.LastIndex(p, "/"); i >= 0 {
		return p[i+1:]
	}
	return p
}

// ---------------------------------------------------------------- the builtins' own valid shapes are never rejected

func TestValidBuiltinCallsAccepted(t *testing.T) {
	rk.Check(t, "valid-builtins", 2, evid.Scale(2000, 15000), func(t *rapid.T) {
		g := sgen.New(t)
		g.Hostile = rapid.SampledFrom([]int{0, 40}).Draw(t, "hostile") // ill-typed but statically valid
		g.Probes = true
		g.Loops = true
		g.Slices = true
		g.AddKey = true
		g.Exit = true
		builtin := func(g *sgen.G, d int) *gen.Node { return g.BuiltinCall(d) }
		g.Calls = []func(*sgen.G, int) *gen.Node{builtin, builtin}
		prog := g.Program(rapid.IntRange(1, 6).Draw(t, "size"), rapid.IntRange(1, 3).Draw(t, "nest"))
		src := gen.Print(prog, gen.RandomLayout(t))
		if err, crash := loadV1(src); err != nil || crash != nil {
			rk.Fail(t, "valid-builtins", replay{Src: src, Expect: "accepted"}, "v1 rejected a script made only of valid constructs: %v %v\nscript:\n%s", err, crash, src)
		}
		evid.Case("valid:"+gen.Skeleton(prog), len(g.Feat) > 6, "valid-accepted")
	})
}

// ---------------------------------------------------------------- arbitrary registered function tables (v2)

type fdef struct {
	name   string
	params []*runtimev2.Param
	nreq   int
}

func genTable(t *rapid.T) []fdef {
	n := rapid.IntRange(1, 3).Draw(t, "nfuncs")
	var out []fdef
	for i := 0; i < n; i++ {
		f := fdef{name: []string{"fn%d", "toUpper%d", "ParseDuration%d", "x_Y%d"}[rapid.IntRange(0, 3).Draw(t, "namecase")]}
		f.name = fmt.Sprintf(f.name, i)
		np := rapid.IntRange(0, 3).Draw(t, "nparams")
		optional := false
		for j := 0; j < np; j++ {
			p := &runtimev2.Param{Name: fmt.Sprintf("p%d", j)}
			switch {
			case j == np-1 && !optional && rapid.IntRange(0, 3).Draw(t, "variadic") == 0:
				p.Variable = true
			case optional || rapid.IntRange(0, 2).Draw(t, "optional") == 0:
				optional = true
				p.Val = func() any { return int64(0) }
			default:
				f.nreq++
			}
			f.params = append(f.params, p)
		}
		out = append(out, f)
	}
	return out
}

func tableFns(tab []fdef) (map[string]*runtimev2.Fn, string) {
	fns := map[string]*runtimev2.Fn{}
	for k, v := range sem.V2Fns() {
		fns[k] = v
	}
	var desc []string
	for _, f := range tab {
		params := f.params
		fns[f.name] = &runtimev2.Fn{
			CallCheck: func(ctx *runtimev2.Task, e *ast.CallExpr) *errchain.PlError {
				return runtimev2.CheckPassParam(ctx, e, params)
			},
			Call: func(ctx *runtimev2.Task, e *ast.CallExpr) *errchain.PlError { return nil },
			Desc: runtimev2.FnDesc{Name: f.name, Params: params},
		}
		desc = append(desc, runtimev2.FnDesc{Name: f.name, Params: params}.Signature())
	}
	return fns, strings.Join(desc, "; ")
}

func TestRandomFunctionTables(t *testing.T) {
	rk.Check(t, "tables", 3, evid.Scale(400, 4000), func(t *rapid.T) {
		tab := genTable(t)
		fns, desc := tableFns(tab)
		base, _ := genBase(t)
		// valid calls of the table's functions, appended as statements and nested as arguments
		validCall := func(f fdef) *gen.Node {
			c := gen.NCall(f.name)
			for j := 0; j < f.nreq; j++ {
				c.Args = append(c.Args, i64(int64(j)))
			}
			return c
		}
		for _, f := range tab {
			base = append(base, validCall(f))
			// the same call with its trailing required parameters passed by name, in reverse order, and one optional named
			if f.nreq > 0 && !f.params[len(f.params)-1].Variable {
				c := gen.NCall(f.name)
				k := rapid.IntRange(0, f.nreq).Draw(t, "npositional")
				for j := 0; j < k; j++ {
					c.Args = append(c.Args, i64(int64(j)))
				}
				for j := f.nreq - 1; j >= k; j-- {
					c.Args = append(c.Args, gen.NAssign("=", []*gen.Node{id(f.params[j].Name)}, []*gen.Node{i64(int64(j))}))
				}
				if k < f.nreq {
					for _, p := range f.params {
						if p.Val != nil && !p.Variable {
							c.Args = append(c.Args, gen.NAssign("=", []*gen.Node{id(p.Name)}, []*gen.Node{i64(7)}))
							break
						}
					}
				}
				base = append(base, c)
			}
		}
		src := gen.Print(gen.CloneProg(base), gen.Minimal{})
		if err, crash := loadV2(src, fns); err != nil || crash != nil {
			rk.Fail(t, "tables", replay{Src: src, V2: true, Expect: "accepted", Table: desc}, "v2 rejected valid calls against the table [%s]: %v %v\nscript:\n%s", desc, err, crash, src)
		}
		nslots := len(gen.ExprSlots(gen.CloneProg(base)))
		for k := 0; k < evid.Scale(12, 40) && nslots > 0; k++ {
			f := tab[rapid.IntRange(0, len(tab)-1).Draw(t, "f")]
			hasVar := len(f.params) > 0 && f.params[len(f.params)-1].Variable
			var off *gen.Node
			kind := ""
			switch rapid.IntRange(0, 7).Draw(t, "violation") {
			case 6:
				// the last required parameter is missing although an optional one is given by name
				oi := -1
				for j, p := range f.params {
					if p.Val != nil && !p.Variable {
						oi = j
						break
					}
				}
				if f.nreq == 0 || oi < 0 {
					continue
				}
				off, kind = gen.NCall(f.name), "missing-required-but-optional-named"
				for j := 0; j < f.nreq-1; j++ {
					off.Args = append(off.Args, i64(1))
				}
				off.Args = append(off.Args, gen.NAssign("=", []*gen.Node{id(f.params[oi].Name)}, []*gen.Node{i64(5)}))
			case 7:
				// every required parameter but the first is given by name
				if f.nreq < 2 {
					continue
				}
				off, kind = gen.NCall(f.name), "first-required-missing-others-named"
				for j := 1; j < f.nreq; j++ {
					off.Args = append(off.Args, gen.NAssign("=", []*gen.Node{id(f.params[j].Name)}, []*gen.Node{i64(int64(j))}))
				}
			case 0:
				off, kind = gen.NCall(f.name+"x", i64(1)), "unregistered-name"
				if alt := strings.ToLower(f.name); alt != f.name && rapid.Bool().Draw(t, "lowercased") {
					off, kind = gen.NCall(alt, i64(1)), "registered-name-in-another-letter-case"
				} else if alt := strings.ToUpper(f.name); alt != f.name && rapid.Bool().Draw(t, "uppercased") {
					off, kind = gen.NCall(alt, i64(1)), "registered-name-in-another-letter-case"
				}
			case 1:
				if f.nreq == 0 {
					continue
				}
				off, kind = gen.NCall(f.name), "missing-required"
				for j := 0; j < f.nreq-1; j++ {
					off.Args = append(off.Args, i64(1))
				}
			case 2:
				if hasVar {
					continue
				}
				off, kind = validCall(f), "too-many-arguments"
				for j := f.nreq; j <= len(f.params); j++ {
					off.Args = append(off.Args, i64(9))
				}
			case 3:
				off, kind = validCall(f), "unknown-named-argument"
				off.Args = append(off.Args, gen.NAssign("=", []*gen.Node{id("nope")}, []*gen.Node{i64(1)}))
			case 4:
				if len(f.params) == 0 || hasVar {
					continue
				}
				off, kind = gen.NCall(f.name, gen.NAssign("=", []*gen.Node{id("p0")}, []*gen.Node{i64(1)}), i64(2)), "positional-after-named"
			default:
				if f.nreq == 0 || hasVar {
					continue
				}
				off, kind = validCall(f), "duplicate-named-argument"
				off.Args = append(off.Args, gen.NAssign("=", []*gen.Node{id("p0")}, []*gen.Node{i64(1)}))
			}
			si := rapid.IntRange(0, nslots-1).Draw(t, "slot")
			msrc, span, s, ok := mutate(base, si, off)
			if !ok {
				continue
			}
			rp := replay{Src: msrc, Offender: kind + "@" + s.Path, Span: span, V2: true, Expect: "rejected", Table: desc}
			err, crash := loadV2(msrc, fns)
			checkRejected(t, "tables", rp, "v2[table "+desc+"]", err, crash, span)
			evid.Case(desc+"|"+s.Path+"|"+kind, true, "table-violation/"+kind)
		}
	})
}

// TestDeepNesting: the offending call under n enclosing constructs (calls, list literals, map literals,
// parentheses, index expressions), n from 1 to 48: rejected, and the error still points at the offender.
func TestDeepNesting(t *testing.T) {
	v2fns := sem.V2Fns()
	n := 0
	offenders := []func() *gen.Node{
		func() *gen.Node { return gen.NCall("nosuch") },
		func() *gen.Node { return gen.NCall("pval") },
		func() *gen.Node { return gen.NCall("pval", i64(1), i64(2)) },
	}
	for depth := 1; depth <= 48; depth++ {
		for wi := 0; wi < 5; wi++ {
			for oi, mk := range offenders {
				off := mk()
				e := off
				for d := 0; d < depth; d++ {
					kind := wi
					if wi == 4 {
						kind = d % 4
					}
					switch kind {
					case 0:
						e = gen.NCall("pval", e)
					case 1:
						e = gen.NList(i64(0), e)
					case 2:
						e = gen.NMap(str("k"), e)
					default:
						e = gen.NParen(e)
					}
				}
				prog := gen.FixAll([]*gen.Node{gen.NSet("a", i64(1)), gen.NSet("x", e), gen.NCall("probe", str("end"), id("x"))})
				src := gen.Print(prog, gen.Minimal{})
				span := [2]int{off.P.Start, off.P.End}
				if span[0] < 0 || span[1] <= span[0] {
					at := strings.Index(src, off.Name+"(")
					span = [2]int{at, at + len(off.Name) + 1}
				}
				rp := replay{Src: src, Offender: fmt.Sprintf("%s under %d enclosing constructs (kind %d)", off.Name, depth, wi), Span: span, Expect: "rejected"}
				err, crash := loadV1(src)
				checkRejected(t, "deep", rp, "v1", err, crash, span)
				rp.V2 = true
				err, crash = loadV2(src, v2fns)
				checkRejected(t, "deep", rp, "v2", err, crash, span)
				evid.Case(fmt.Sprintf("deep/%d/%d/%d", depth, wi, oi), depth >= 3, "deep-nesting")
				n++
			}
		}
	}
	evid.Exhaustive("offender x enclosing construct kind x nesting depth 1..48, v1 and v2", n)
}

// TestSameTextOtherTable: the verdict on a text depends on the function tables it is loaded with - the same
// name and text loaded under a table that lacks a function the text calls is rejected, whatever was loaded before.
func TestSameTextOtherTable(t *testing.T) {
	// which: 0 = absent from both tables, 1 = absent from the call table only, 2 = absent from the check table only
	less := func(drop string, which int) (map[string]plrt.FuncCall, map[string]plrt.FuncCheck) {
		c, k := map[string]plrt.FuncCall{}, map[string]plrt.FuncCheck{}
		for n, f := range call1 {
			if n != drop || which == 2 {
				c[n] = f
			}
		}
		for n, f := range check1 {
			if n != drop || which == 1 {
				k[n] = f
			}
		}
		return c, k
	}
	rk.Check(t, "other-table", 5, evid.Scale(300, 3000), func(t *rapid.T) {
		base, _ := genBase(t)
		drop := rapid.SampledFrom([]string{"pval", "probe", "len", "add_key"}).Draw(t, "drop")
		use := gen.NCall(drop, i64(1))
		switch drop {
		case "probe":
			use = gen.NCall("probe", str("end"), i64(1))
		case "len":
			use = gen.NSet("n", gen.NCall("len", str("abc")))
		case "add_key":
			use = gen.NCall("add_key", id("k"), i64(1))
		}
		base = append(base, use)
		src := gen.Print(gen.CloneProg(base), gen.Minimal{})
		at := strings.Index(src, drop+"(")
		span := [2]int{at, len(src)}
		which := rapid.IntRange(0, 2).Draw(t, "absent-from")
		lc, lk := less(drop, which)
		order := rapid.IntRange(0, 2).Draw(t, "order")
		full := func(when string) {
			if _, err, crash := impl.Load1("c08.p", src, call1, check1); err != nil || crash != nil {
				rk.Fail(t, "other-table", replay{Src: src, Expect: "accepted"}, "valid text rejected under the full tables (%s): %v %v\nscript:\n%s", when, err, crash, src)
			}
		}
		lacking := func(when string) {
			_, err, crash := impl.Load1("c08.p", src, lc, lk)
			checkRejected(t, "other-table", replay{Src: src, Offender: drop + " not registered (" + when + ")", Span: span, Expect: "rejected", Table: "builtins without " + drop + []string{"", " in the call table", " in the check table"}[which]}, "v1[tables without "+drop+[]string{"", " in the call table", " in the check table"}[which]+", "+when+"]", err, crash, span)
		}
		switch order {
		case 0:
			full("first load")
			lacking("after the same name and text was accepted under the full tables")
			full("after the rejection")
		case 1:
			lacking("first load")
			full("after the same name and text was rejected under smaller tables")
			lacking("again")
		default:
			full("first load")
			full("second load")
			lacking("after two accepting loads")
		}
		// v2: the same with a one-function table
		fn := map[string]*runtimev2.Fn{}
		for k, v := range sem.V2Fns() {
			fn[k] = v
		}
		src2 := "x = pval(1)\nprobe(\"p\", x)\ny = pval(x)"
		if err, crash := loadV2(src2, fn); err != nil || crash != nil {
			rk.Fail(t, "other-table", replay{Src: src2, V2: true, Expect: "accepted"}, "v2 rejected a valid text: %v %v", err, crash)
		}
		delete(fn, "pval")
		err, crash := loadV2(src2, fn)
		checkRejected(t, "other-table", replay{Src: src2, V2: true, Offender: "pval not registered", Span: [2]int{4, 11}, Expect: "rejected", Table: "probes without pval"}, "v2[table without pval]", err, crash, [2]int{4, 11})
		evid.Case(fmt.Sprintf("other-table/%s/%d/%d/%d", drop, order, which, len(src)), true, "same-text-other-table", fmt.Sprintf("absent-from/%d", which))
	})
}

// ---------------------------------------------------------------- fixed regressions

// TestContextTable: every composite form of the grammar as the place of an offender. The context with a harmless
// value in the hole must load; with an offender in the hole it must be rejected, the error pointing into the offender.
func TestContextTable(t *testing.T) {
	contexts := []string{
		"x = a.b[@]", "x = a[@].b", "x = a.b[1][@]", "x = a.`b c`[@]", "x = a.b.c[@]", "x = a[@].b[2].c", "add_key(abc.def[@], 1)", "if a.b[@] { }", "x = [a.b[@]]",
		"x = .[@]", "x = .[0][@]", "x = m[@][\"k\"]", "x = m[\"k\"][@]", "x = (@)", "x = -@", "x = !@", "x = [@]", "x = [1, [2, @]]", "x = {\"k\": @}", "x = {\"k\": 1, \"j\": [@]}",
		"x = {\"k\": @, \"k\": 1}", "x = {\"a\": 0, \"k\": [@], \"b\": 2, \"k\": 1}",
		"x = s[@:]", "x = s[:@]", "x = s[::@]", "x = s[1:2][@:]", "x = \"abc\"[@:]", "x = [1, 2][:@:]", "x = pval(@)", "x = pval(v = @)", "x = pval(pval(@))", "x = 1 + @", "x = @ + 1", "x = @ in [1]", "x = 1 in @",
		"x = 1 < @", "x = true && @", "x = @ || false",
		"for i = @; i < 1; i = i + 1 { }", "for ; @; { break }", "for ;; @ { break }", "for i = 0; i < 1; i = @ { }", "for x in @ { }", "for x in [@] { }", "if @ { }", "if true { } elif @ { }",
		"if true { x = @ } elif true { } elif true { }", "if false { } elif true { x = @ } elif true { }", "if false { } elif false { } elif true { x = @ }", "if false { } else { x = @ }",
		"if true { if true { x = @ } elif true { } } elif true { }", "for x in [1] { if true { @ } elif true { } }", "for ;; { if true { x = @ } elif true { }\n break }",
		"x = 1\nx += @", "x = 1\nx -= @", "l = [1]\nl[@] = 1", "m = {}\nm[\"k\"] = [1]\nm[\"k\"][@] += 1", "l = [1]\nl[0] = @", "@", "x = @", "x = 1\n@\ny = 2",
		"x, y = 1, @", "x, y = @, 1", "l = [1, 2]\nl[0], l[@] = 1, 2",
		// the hole is, or sits inside, the target of an assignment (the grammar takes any expression there)
		"@ = 5", "pval(@) = 5", "[1, @] = 3", "(@) = 1", "a = [1, 2]\na[1:@] = 0", "@ += 1", "a, @ = 1, 2", "@, a = 1, 2", "for @ = 0; false; { }", "-@ = 1", "@ + 1 = 2", "{\"k\": @} = 1",
		"a = [[1]]\na[0][@] = 1", "a = [1]\na[@] += 1", "if true { @ = 1 }", "for x in [1] { (@) -= 1 }", "a.b[@] = 1", "x = 1\n!@ = 2",
	}
	type off struct {
		text   string
		v1, v2 bool
	}
	offs := []off{{"nosuch()", true, true}, {"len()", true, false}, {"NoSuch(1, 2)", true, true}, {"pval(w = 1)", false, true}, {"pval()", false, true}, {"pval(1, 2)", false, true}, {"len(1, 2, 3)", true, false}}
	v2fns := sem.V2Fns()
	n, inapplicable := 0, 0
	for ci, ctx := range contexts {
		base := strings.Replace(ctx, "@", "1", 1)
		okV1, okV2 := false, false
		if err, crash := loadV1(base); err == nil && crash == nil {
			okV1 = true
		}
		if err, crash := loadV2(base, v2fns); err == nil && crash == nil {
			okV2 = true
		}
		if !okV1 && !okV2 {
			inapplicable++
			evid.Label("context-table/context-not-loadable-with-a-harmless-value")
			continue
		}
		for oi, o := range offs {
			src := strings.Replace(ctx, "@", o.text, 1)
			at := strings.Index(ctx, "@")
			span := [2]int{at, at + len(o.text)}
			rp := replay{Src: src, Offender: o.text, Span: span, Expect: "rejected"}
			if o.v1 && okV1 {
				err, crash := loadV1(src)
				checkRejected(t, "context-table", rp, "v1", err, crash, span)
				n++
			}
			if o.v2 && okV2 {
				rp.V2 = true
				err, crash := loadV2(src, v2fns)
				checkRejected(t, "context-table", rp, "v2", err, crash, span)
				n++
			}
			evid.Case(fmt.Sprintf("ctxtable/%d/%d", ci, oi), true, "context-table")
		}
	}
	evid.Exhaustive(fmt.Sprintf("context (%d, %d not loadable) x offender, both loaders", len(contexts), inapplicable), n)
}

// TestAliasEnvironments: whether a grok pattern that names a user alias is valid depends on the add_pattern calls in
// scope where it stands, not on what the same pattern text meant in a script (or block) checked earlier in the process.
func TestAliasEnvironments(t *testing.T) {
	n := 0
	for round, order := range [][]int{{0, 1, 2, 3, 4, 5, 6, 7, 8, 9, 10, 11, 12, 13, 14}, {1, 0, 3, 2, 5, 4, 6, 11, 10, 9, 8, 7, 14, 13, 12}, {3, 4, 0, 6, 12, 1, 2, 5, 8, 13, 10, 7, 11, 9, 14}, {14, 13, 12, 11, 10, 9, 8, 7, 6, 5, 4, 3, 2, 1, 0}} {
		al := fmt.Sprintf("al%d", round)
		g := "grok(_, \"%{" + al + ":n}\")"
		scripts := []struct {
			src   string
			valid bool
		}{
			{"add_pattern(\"" + al + "\", \"\\\\d+\")\nif true { " + g + " }", true},
			{"if true { " + g + " }", false},
			{"add_pattern(\"" + al + "\", \"[a-z]+\")\nfor i in [1] { if true { " + g + " } }", true},
			{"if true { add_pattern(\"" + al + "\", \"x\") }\nif true { " + g + " }", false},
			{"x = 1\n" + g, false},
			{"add_pattern(\"" + al + "\", \"%{INT}\")\nx = 1\n" + g, true},
			{"for i in [1] { add_pattern(\"" + al + "\", \"y\") }\nfor i in [1] { " + g + " }", false},
			// the enclosing frame has aliases of its own; the alias in question is defined in a block and used after it,
			// in a sibling branch, after a loop; an inner redefinition does not reach the outer use
			{"add_pattern(\"outer" + al + "\", \"x\")\nif true { add_pattern(\"" + al + "\", \"y\") }\n" + g, false},
			{"add_pattern(\"outer" + al + "\", \"x\")\nif true { add_pattern(\"" + al + "\", \"y\") } else { " + g + " }", false},
			{"add_pattern(\"outer" + al + "\", \"x\")\nfor i in [1] { add_pattern(\"" + al + "\", \"y\") }\nif true { " + g + " }", false},
			{"add_pattern(\"" + al + "\", \"[a-z]+\")\nif true { add_pattern(\"" + al + "\", \"(\") }\n" + g, true},
			// an alias defined inside a condition (of an if, an elif, a loop) belongs to that statement
			{"if add_pattern(\"" + al + "\", \"\\\\d+\") { }\n" + g, false},
			{"if false { } elif add_pattern(\"" + al + "\", \"x\") == nil { }\nif true { " + g + " }", false},
			{"for ; add_pattern(\"" + al + "\", \"x\"); { break }\n" + g, false},
			{"add_pattern(\"" + al + "\", \"[a-z]+\")\nfor i in [1] { if true { add_pattern(\"" + al + "\", \"\\\\d\") } }\nif true { " + g + " }", true},
		}
		for _, k := range order {
			sc := scripts[k]
			err, crash := loadV1(sc.src)
			at := strings.Index(sc.src, g)
			span := [2]int{at, at + len(g)}
			rp := replay{Src: sc.src, Offender: g, Span: span, Expect: map[bool]string{true: "accepted", false: "rejected"}[sc.valid]}
			if sc.valid {
				if crash != nil || err != nil {
					rk.Fail(t, "alias-env", rp, "v1 rejected a script whose grok pattern names an alias defined in scope (%v %v), after %d other scripts using the same pattern text were checked\nscript:\n%s", err, crash, n, sc.src)
				}
			} else {
				checkRejected(t, "alias-env", rp, "v1", err, crash, span)
			}
			evid.Case(fmt.Sprintf("aliasenv/%d/%d", round, k), true, "alias-environments")
			n++
		}
	}
	evid.Exhaustive("one pattern text x 15 alias environments x 4 check orders", n)
}

// TestFaultingCheckFunction: a registered function whose check function faults (it looks at its first argument before
// it looks at the argument count) on some call shape: such a call was never validated, so the script that holds it is
// not handed back as loaded - the fault reaches the host, or the load fails; it is never accepted silently.
func TestFaultingCheckFunction(t *testing.T) {
	v1call, v1check := impl.FuncTables(map[string]plrt.FuncCall{
		"first": func(ctx *plrt.Task, e *ast.CallExpr) *errchain.PlError { return nil },
	}, map[string]plrt.FuncCheck{
		"first": func(ctx *plrt.Task, e *ast.CallExpr) *errchain.PlError {
			if e.Param[0].NodeType == ast.TypeNilLiteral { // index out of range for first()
				return plrt.NewRunError(ctx, "first(nil)", e.NamePos)
			}
			return nil
		},
	})
	v2 := map[string]*runtimev2.Fn{}
	for k, f := range sem.V2Fns() {
		v2[k] = f
	}
	v2["first"] = &runtimev2.Fn{
		CallCheck: func(ctx *runtimev2.Task, e *ast.CallExpr) *errchain.PlError {
			if e.Param[0].NodeType == ast.TypeNilLiteral {
				return runtimev2.NewRunError(ctx, "first(nil)", e.NamePos)
			}
			return nil
		},
		Call: func(ctx *runtimev2.Task, e *ast.CallExpr) *errchain.PlError { return nil },
	}
	contexts := []string{"@", "x = @", "x = [1, @]", "if @ { }", "for ;; @ { break }", "x = {\"k\": @}", "x = 1\nif true { y = [@] } elif true { }", "for e in [1] { @ }", "x = (@)", "x = 1 + len([@])"}
	n := 0
	for ci, ctx := range contexts {
		// the well-formed call loads; the faulting shape does not
		okSrc := strings.Replace(ctx, "@", "first(1)", 1)
		badSrc := strings.Replace(ctx, "@", "first()", 1)
		for _, who := range []string{"v1", "v2"} {
			load := func(src string) (bool, string) {
				if who == "v1" {
					s, err, crash := impl.Load1("c08.p", src, v1call, v1check)
					return s != nil && err == nil && crash == nil, fmt.Sprint(err, crash != nil)
				}
				s, err, crash := impl.LoadV2("c08.p", src, v2)
				return s != nil && err == nil && crash == nil, fmt.Sprint(err, crash != nil)
			}
			if ok, why := load(okSrc); !ok {
				if who == "v2" && (strings.Contains(ctx, "len(") || strings.HasPrefix(ctx, "for e in")) {
					continue // not a v2 program
				}
				rk.Fail(t, "faulting-check", replay{Src: okSrc, Expect: "accepted", V2: who == "v2"}, "%s rejected a valid call of a registered function: %s", who, why)
			}
			if ok, _ := load(badSrc); ok {
				rk.Fail(t, "faulting-check", replay{Src: badSrc, Expect: "not accepted", V2: who == "v2", Offender: "first()"}, "%s handed back a loaded script although the check function of first() faulted on the call first() (the call was never validated)\nscript:\n%s", who, badSrc)
			}
			n++
		}
		evid.Case(fmt.Sprintf("faultingcheck/%d", ci), true, "faulting-check-function")
	}
	evid.Exhaustive("context x loader: a call on which the registered check function faults", n)
}

// TestArgumentKindPositions: a builtin call whose argument is of the wrong kind is rejected with an error that points
// at the call or at that very argument - not at a neighbouring argument, not at another line.
func TestArgumentKindPositions(t *testing.T) {
	cases := []struct{ pre, bad, post string }{
		{"replace(key, ", "1", ", \"b\")"}, {"replace(key, \"a\", ", "true", ")"}, {"replace(key, ", "k2", ", \"b\")"}, {"replace(key, \"a\", ", "[1]", ")"},
		{"datetime(t, \"ms\", ", "-1.5", ")"}, {"datetime(t, ", "5", ", \"RFC3339\")"}, {"datetime(t, \"ms\", ", "fmt", ")"},
		{"xml(doc, ", "nil", ", field)"}, {"xml(doc, \"/a\", ", "5", ")"}, {"xml(doc, ", "xp", ", field)"},
		{"grok(_, ", "5", ")"}, {"cast(k, ", "5", ")"}, {"add_pattern(", "1", ", \"x\")"}, {"add_pattern(\"a\", ", "2", ")"}, {"default_time(k, ", "5", ")"}, {"strfmt(k, ", "5", ", 1)"}, {"use(", "1", ")"},
		{"set_measurement(k, ", "\"yes\"", ")"}, {"rename(", "5", ", k)"}, {"rename(k, ", "5", ")"},
	}
	layouts := []func(pre, bad, post string) string{
		func(a, b, c string) string { return a + b + c },
		func(a, b, c string) string { return "x = 1\nif x == 1 {\n  " + a + b + c + "\n}" },
		func(a, b, c string) string { return strings.ReplaceAll(a, ", ", ",\n   ") + b + strings.ReplaceAll(c, ", ", ",\n   ") },
		func(a, b, c string) string { return "y = [0, len([" + a + b + c + "])]" },
	}
	n := 0
	for ci, c := range cases {
		for li, lay := range layouts {
			src := lay(c.pre, c.bad, c.post)
			marker := lay(c.pre, "\x00", c.post)
			at := strings.Index(marker, "\x00")
			fname := c.pre[:strings.Index(c.pre, "(")]
			callAt := strings.LastIndex(src[:at], fname+"(")
			err, crash := loadV1(src)
			rp := replay{Src: src, Offender: c.bad, Span: [2]int{at, at + len(c.bad)}, Expect: "rejected"}
			if crash != nil {
				rk.Fail(t, "arg-positions", rp, "v1 loader panicked: %s", crash.Value)
			}
			if err == nil {
				evid.Discard("argument-kind-accepted:" + fname)
				continue // whether this kind is admitted there is the offender table's business
			}
			pe := impl.PlErr(err)
			if pe == nil || len(pe.PosChain) == 0 {
				rk.Fail(t, "arg-positions", rp, "rejection without a position: %v", err)
			}
			p := pe.PosChain[0]
			inArg := p.Pos >= at && p.Pos < at+len(c.bad)
			if !inArg && p.Pos != callAt {
				rk.Fail(t, "arg-positions", rp, "v1: the error %q is reported at offset %d (%d:%d); the offending argument %s is at [%d,%d), the call at %d\nscript:\n%s", pe.Err, p.Pos, p.Ln, p.Col, c.bad, at, at+len(c.bad), callAt, src)
			}
			if ln, col := impl.LnCol(src, p.Pos); ln != p.Ln || col != p.Col {
				rk.Fail(t, "arg-positions", rp, "v1: error offset %d says %d:%d, is at %d:%d", p.Pos, p.Ln, p.Col, ln, col)
			}
			evid.Case(fmt.Sprintf("argpos/%d/%d", ci, li), true, "argument-kind-positions")
			n++
		}
	}
	evid.Exhaustive("builtin argument of the wrong kind x layout: where the error points", n)
}

func TestFixedOffenders(t *testing.T) {
	cases := []struct {
		src  string
		frag string
		v1   bool
		v2   bool
	}{
		{"a = [1,2,3]\nb = a[::nosuch()]", "nosuch()", true, true},
		{"default_time(time, 8, \"Asia/Shanghai\")", "default_time(time, 8, \"Asia/Shanghai\")", true, false},
		{"tz = \"UTC\"\ndefault_time(time, tz, \"UTC\")", "default_time(time, tz, \"UTC\")", true, false},
		{"if true { default_time(time, nil, 1, 2) }", "default_time(time, nil, 1, 2)", true, false},
		{"grok(_, pat, true)", "grok(_, pat, true)", true, false},
		{"a = [1,2,3]\nb = a[1::nosuch()]", "nosuch()", true, true},
		{"a = [1,2,3]\nb = a[:2:nosuch()]", "nosuch()", true, true},
		{"cast(1, .[0])", "cast(1, .[0])", true, false},
		{"x = 1 in nosuch()", "nosuch()", true, true},
		{"x = nosuch() in [1]", "nosuch()", true, true},
		{"for ;; nosuch() { break }", "nosuch()", true, true},
		{"for i = 0; i < 1; i = i + 1 { }\nbreak", "break", true, true},
		{"if true { continue }", "continue", true, true},
		{"for x in [1] { }\nif false { } else { break }", "break", true, true},
		{"m = {\"a\": [1, {\"b\": nosuch()}]}", "nosuch()", true, true},
		{"len(a = nosuch())", "nosuch()", true, false},
		{"for x in [1, 2] { }\nbreak", "break", true, true},
		{"for x in [] { }\nif true { continue }", "continue", true, true},
		{"if true { for k in {\"a\": 1} { } }\nx = 1\nbreak", "break", true, true},
		{"for ;; {\n for y in \"ab\" { }\n break\n}\ncontinue", "continue", true, true},
		{"for i = 0; i < 1; i = i + 1 { }\nfor e in [1] { }\nif false { } else { break }", "break", true, true},
		{"a = 1, nosuch()", "nosuch()", true, true},
		{"a, b = 1, 2,\n nosuch(3)", "nosuch(3)", false, true},
		{"for a = 0, nosuch(); a < 1; a = a + 1 {}", "nosuch()", true, true},
		{"a = 1, [1, {\"k\": pval()}]", "pval()", true, true},
		// a pattern alias defined in one branch is not visible in a sibling branch, after the block, or before its definition
		{"x = 1\nif x == 1 { add_pattern(\"my_num\", \"\\\\d+\") } else { grok(_, \"%{my_num:n}\") }", "grok(_, \"%{my_num:n}\")", true, false},
		{"x = 1\nif x == 1 { add_pattern(\"my_num\", \"\\\\d+\") } elif x == 2 { y = 1 } else { z = grok(_, \"%{my_num:n}\") }", "grok(_, \"%{my_num:n}\")", true, false},
		{"if true { add_pattern(\"my_num\", \"\\\\d+\") }\ngrok(_, \"%{my_num:n}\")", "grok(_, \"%{my_num:n}\")", true, false},
		{"for i in [1] { add_pattern(\"my_num\", \"\\\\d+\") }\ngrok(_, \"%{my_num:n}\")", "grok(_, \"%{my_num:n}\")", true, false},
		{"grok(_, \"%{my_num:n}\")\nadd_pattern(\"my_num\", \"\\\\d+\")", "grok(_, \"%{my_num:n}\")", true, false},
		{"if false { } elif true { add_pattern(\"a1\", \"x\") } elif true { grok(_, \"%{a1}\") }", "grok(_, \"%{a1}\")", true, false},
		// a slice of a slice (of a slice): the offender in the inner slice's bounds, step or object
		{"a = [1,2,3]\nb = a[nosuch():][1:]", "nosuch()", true, true},
		{"a = [1,2,3]\nb = a[:nosuch()][1:]", "nosuch()", true, true},
		{"a = [1,2,3]\nb = a[::nosuch()][0:2]", "nosuch()", true, true},
		{"b = nosuch()[1:][0:1]", "nosuch()", true, true},
		{"a = [1,2,3]\nb = a[pval():][::2]", "pval()", true, true},
		{"a = [1,2,3]\nb = a[0:nosuch()][0:][0:]", "nosuch()", true, true},
		{"a = [1,2,3]\nb = a[0:][0:nosuch()][0:]", "nosuch()", true, true},
		{"a = [1,2,3]\nif a[1:][nosuch():] { }", "nosuch()", true, true},
		{"a = [1,2,3]\nb = [1, nosuch()][0:][0:]", "nosuch()", true, true},
		{"b = \"abc\"[nosuch():][0:]", "nosuch()", true, true},
		{"a = [1,2,3]\nb = pval(a[nosuch():][1:])[0:]", "nosuch()", true, true},
		// an alias declared in the body of a three-clause for is not visible in the header of that for (nor in a for-in's iterable)
		{"for i = 0; i < 1; grok(_, \"%{X13:n}\") { add_pattern(\"X13\", \"\\\\d+\")\n i = i + 1 }", "grok(_, \"%{X13:n}\")", true, false},
		{"for i = 0; grok(_, \"%{X13:n}\"); i = i + 1 { add_pattern(\"X13\", \"\\\\d+\")\n break }", "grok(_, \"%{X13:n}\")", true, false},
		{"for ok = grok(_, \"%{X13:n}\"); false; { add_pattern(\"X13\", \"\\\\d+\") }", "grok(_, \"%{X13:n}\")", true, false},
		{"for x in [grok(_, \"%{X13:n}\")] { add_pattern(\"X13\", \"\\\\d+\") }", "grok(_, \"%{X13:n}\")", true, false},
		{"for i = 0; i < 1; i = i + 1 { for j = 0; j < 1; grok(_, \"%{X13:n}\") { add_pattern(\"X13\", \"a\")\n j = j + 1 } }", "grok(_, \"%{X13:n}\")", true, false},
	}
	for _, o := range offenders {
		if strings.HasPrefix(o.name, "cast-type-near-miss") {
			frag := gen.Print([]*gen.Node{o.e()}, gen.Minimal{})
			cases = append(cases, struct {
				src  string
				frag string
				v1   bool
				v2   bool
			}{"k = \"12\"\n" + frag, frag, true, false}, struct {
				src  string
				frag string
				v1   bool
				v2   bool
			}{"k = \"12\"\nif true { x = [1, " + frag + "] }", frag, true, false})
		}
	}
	v2fns := sem.V2Fns()
	for i, c := range cases {
		at := strings.Index(c.src, c.frag)
		span := [2]int{at, at + len(c.frag)}
		rp := replay{Src: c.src, Offender: c.frag, Span: span, Expect: "rejected"}
		if c.v1 {
			err, crash := loadV1(c.src)
			checkRejected(t, "fixed", rp, "v1", err, crash, span)
		}
		if c.v2 {
			rp.V2 = true
			err, crash := loadV2(c.src, v2fns)
			checkRejected(t, "fixed", rp, "v2", err, crash, span)
		}
		evid.Case(fmt.Sprint("fixed/", i), true, "fixed")
	}
}

func TestReplays(t *testing.T) {
	files, _ := filepath.Glob(filepath.Join(evid.Dir(), "replays", prop, "*.json"))
	if r := os.Getenv("VERIF_REPLAY"); r != "" {
		files = []string{r}
	}
	v2fns := sem.V2Fns()
	for _, f := range files {
		b, err := os.ReadFile(f)
		if err != nil {
			continue
		}
		var r struct {
			Case replay `json:"case"`
		}
		if json.Unmarshal(b, &r) != nil || r.Case.Src == "" || r.Case.Table != "" {
			continue
		}
		c := r.Case
		t.Run(filepath.Base(f), func(t *testing.T) {
			if c.Expect == "accepted" {
				if c.V2 {
					if err, crash := loadV2(c.Src, v2fns); err != nil || crash != nil {
						rk.Fail(t, "replay", c, "v2 rejected a valid script: %v %v", err, crash)
					}
				} else if err, crash := loadV1(c.Src); err != nil || crash != nil {
					rk.Fail(t, "replay", c, "v1 rejected a valid script: %v %v", err, crash)
				}
			} else {
				if c.V2 {
					err, crash := loadV2(c.Src, v2fns)
					checkRejected(t, "replay", c, "v2", err, crash, c.Span)
				} else {
					err, crash := loadV1(c.Src)
					checkRejected(t, "replay", c, "v1", err, crash, c.Span)
				}
			}
			evid.Case("replay:"+c.Src, true, "replay")
		})
	}
}
