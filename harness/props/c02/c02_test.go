package c02

import (
	"strings"
	"sort"
	"encoding/json"
	"fmt"
	"os"
	"path/filepath"
	"testing"

	"pgregory.net/rapid"
	"verifharness/bmodel"
	"verifharness/evid"
	"verifharness/gen"
	"verifharness/rk"
	"verifharness/sem"
	"verifharness/sgen"
)

const prop = "C02"

func TestMain(m *testing.M) {
	evid.Init(prop, "exploration",
		"(1) exhaustive table: every binary operator (+ - * / % == != < <= > >= && || in) x every ordered pair of 33 operand values (nil; both bools; ints 0, +-1, +-2, 7, +-2^53, +-(2^53+1), max/min int64; floats 0.0, -0.0, 0.5, -2.5, 2^53, 1e308, +Inf, NaN; strings \"\", a, ab, 1; lists [], [1], [1.0], [a]; maps {}, {a:1}), every unary operator x every value, operands delivered as literals, script variables and point keys (scalars), plus the five compound assignments; each result observed through the variadic probe (value and Go type) and through the field written by add_key(r, <expr>); (2) random expression trees of depth<=4 with pval() probes around operands, so order, exactly-once evaluation and short-circuiting are visible in the trace. Oracle: reference model of the operator semantics; rows the reference leaves open (bool in arithmetic/comparison, float %, bool==number, int==float equal only through rounding, numbers of different type inside collections) accept either documented alternative. Non-trivial: the reference gives one definite value or error (no open row consulted); distinct by (operator, operand classes, delivery) resp. expression skeleton.",
		"literal zero divisors are rejected by the parser: accepted as 'error at load'",
		"errors are compared by presence and location (inside the statement), never by message text")
	code := m.Run()
	evid.Flush(code == 0)
	os.Exit(code)
}

var binOps = []string{"+", "-", "*", "/", "%", "==", "!=", "<", "<=", ">", ">=", "&&", "||", "in"}

func id(s string) *gen.Node { return gen.NIdent(s) }

func judge(t rk.Failer, slot string, c *sem.Case, key string, labels ...string) {
	c.Print(nil)
	v := sem.Decide(c, func() sem.ImplOut { return sem.RunV1(c, 0) }, nil, true, true)
	if v.Discard != nil {
		evid.Discard(v.Discard.Error())
		return
	}
	if v.Msg != "" {
		rk.Fail(t, slot, c.Replay(""), "%s\nscript: %q", v.Msg, c.Texts[c.Root])
	}
	lab := "definite"
	if v.Weak {
		lab = "open-row"
	}
	evid.Case(key, !v.Weak, append(labels, lab)...)
	if !v.Weak && (len(key)%7 == 0) {
		out := "value"
		if v.Model.Err != nil {
			out = "error"
		}
		tr := ""
		if len(v.Model.Trace) > 0 {
			tr = v.Model.Trace[len(v.Model.Trace)-1].String()
		}
		evid.Sample(map[string]any{"script": c.Texts[c.Root], "outcome": out, "last_probe": tr})
	}
}

func zeroLit(v any) bool {
	switch x := v.(type) {
	case int64:
		return x == 0
	case float64:
		return x == 0
	}
	return false
}

func TestOperatorTable(t *testing.T) {
	vals := sgen.OperandValues()
	n := 0
	idx := 0
	for _, op := range binOps {
		for _, l := range vals {
			for _, r := range vals {
				idx++
				if idx%evid.NShards() != evid.Shard() {
					continue
				}
				key := fmt.Sprintf("%s/%s/%s", op, sgen.Class(l), sgen.Class(r))
				// delivery 1: literals (a literal zero divisor is rejected by the parser: skip, it is C07/C05 territory)
				if !((op == "/" || op == "%") && zeroLit(r)) {
					e := gen.NBin(op, sgen.Lit(l), sgen.Lit(r))
					c := sem.NewCase(gen.FixAll([]*gen.Node{
						gen.NCall("probe", gen.NStr("r"), e.Clone()),
						gen.NCall("add_key", id("r"), e.Clone()),
					}))
					judge(t, "table", c, key+"/lit", "delivery/literal")
					n++
				}
				// delivery 2: script variables
				{
					e := gen.NBin(op, id("x"), id("y"))
					c := sem.NewCase(gen.FixAll([]*gen.Node{
						gen.NSet("x", sgen.Lit(l)), gen.NSet("y", sgen.Lit(r)),
						gen.NCall("probe", gen.NStr("r"), e.Clone()),
						gen.NCall("add_key", id("r"), e.Clone()),
					}))
					judge(t, "table", c, key+"/var", "delivery/variable")
					n++
				}
				// delivery 2b: the variables got their values (of these types) in a nested block, after holding values of another type
				if idx%3 == 0 {
					other := func(v any) *gen.Node {
						switch v.(type) {
						case string:
							return gen.NInt(1)
						case int64:
							return gen.NFloat(2.5)
						}
						return gen.NStr("before")
					}
					e := gen.NBin(op, id("x"), id("y"))
					c := sem.NewCase(gen.FixAll([]*gen.Node{
						gen.NSet("x", other(l)), gen.NSet("y", other(r)),
						gen.NIf([]*gen.Node{gen.NBool(true)}, [][]*gen.Node{{gen.NSet("x", sgen.Lit(l)), gen.NForIn("e", gen.NList(gen.NInt(1)), []*gen.Node{gen.NSet("y", sgen.Lit(r))})}}, nil, false),
						gen.NCall("probe", gen.NStr("r"), e.Clone()),
						gen.NCall("add_key", id("r"), e.Clone()),
					}))
					judge(t, "table", c, key+"/retyped-in-block", "delivery/variable-retyped-in-nested-block")
					n++
				}
				// delivery 3: point keys (scalars only)
				if sgen.IsScalar(l) && sgen.IsScalar(r) {
					e := gen.NBin(op, id("p1"), id("p2"))
					c := sem.NewCase(gen.FixAll([]*gen.Node{
						gen.NCall("probe", gen.NStr("r"), e.Clone()),
						gen.NCall("add_key", id("r"), e.Clone()),
					}))
					c.Fields = map[string]any{"p1": l, "p2": r}
					judge(t, "table", c, key+"/point", "delivery/point-key")
					n++
				}
				// compound assignment x op= y
				switch op {
				case "+", "-", "*", "/", "%":
					if (op == "/" || op == "%") && zeroLit(r) {
						c := sem.NewCase(gen.FixAll([]*gen.Node{
							gen.NSet("x", sgen.Lit(l)), gen.NSet("y", sgen.Lit(r)),
							gen.NAssign(op+"=", []*gen.Node{id("x")}, []*gen.Node{id("y")}),
							gen.NCall("probe", gen.NStr("r"), id("x")),
						}))
						judge(t, "table", c, key+"/compound-var", "delivery/compound")
					} else {
						c := sem.NewCase(gen.FixAll([]*gen.Node{
							gen.NSet("x", sgen.Lit(l)),
							gen.NAssign(op+"=", []*gen.Node{id("x")}, []*gen.Node{sgen.Lit(r)}),
							gen.NCall("probe", gen.NStr("r"), id("x")),
							gen.NCall("add_key", id("r"), id("x")),
						}))
						judge(t, "table", c, key+"/compound", "delivery/compound")
					}
					n++
					// compound assignment whose target exists only as a key of the point
					if sgen.IsScalar(l) && !((op == "/" || op == "%") && zeroLit(r)) {
						c := sem.NewCase(gen.FixAll([]*gen.Node{
							gen.NAssign(op+"=", []*gen.Node{id("p1")}, []*gen.Node{sgen.Lit(r)}),
							gen.NCall("probe", gen.NStr("r"), id("p1")),
							gen.NCall("add_key", id("r"), id("p1")),
						}))
						c.Fields = map[string]any{"p1": l}
						judge(t, "table", c, key+"/compound-point-key", "delivery/compound-on-point-key")
						n++
					}
					// element compound: l[0] op= r
					c := sem.NewCase(gen.FixAll([]*gen.Node{
						gen.NSet("l", gen.NList(sgen.Lit(l))), gen.NSet("y", sgen.Lit(r)),
						gen.NAssign(op+"=", []*gen.Node{gen.NIndex(id("l"), gen.NInt(0))}, []*gen.Node{id("y")}),
						gen.NCall("probe", gen.NStr("r"), id("l")),
					}))
					judge(t, "table", c, key+"/compound-elem", "delivery/compound-element")
					n++
				}
			}
		}
	}
	for _, op := range []string{"-", "+", "!"} {
		for _, v := range vals {
			key := fmt.Sprintf("u%s/%s", op, sgen.Class(v))
			c := sem.NewCase(gen.FixAll([]*gen.Node{
				gen.NCall("probe", gen.NStr("r"), gen.NUnary(op, gen.NParen(sgen.Lit(v)))),
				gen.NCall("add_key", id("r"), gen.NUnary(op, gen.NParen(sgen.Lit(v)))),
			}))
			judge(t, "table", c, key+"/lit", "unary")
			c = sem.NewCase(gen.FixAll([]*gen.Node{
				gen.NSet("x", sgen.Lit(v)),
				gen.NCall("probe", gen.NStr("r"), gen.NUnary(op, id("x"))),
				gen.NCall("add_key", id("r"), gen.NUnary(op, id("x"))),
			}))
			judge(t, "table", c, key+"/var", "unary")
			n += 2
			if sgen.IsScalar(v) {
				c = sem.NewCase(gen.FixAll([]*gen.Node{
					gen.NCall("probe", gen.NStr("r"), gen.NUnary(op, id("p1"))),
					gen.NCall("add_key", id("r"), gen.NUnary(op, id("p1"))),
				}))
				c.Fields = map[string]any{"p1": v}
				judge(t, "table", c, key+"/point", "unary")
				n++
			}
		}
	}
	evid.Exhaustive("operator-x-operand-pair-table", n)
}

// TestSameNodeManyOperands: one operator node is evaluated several times in one run (in a loop) with operands
// whose types change from pass to pass; each evaluation follows the row for its own operand types.
func TestSameNodeManyOperands(t *testing.T) {
	nums := []any{int64(1), 0.5, int64(7), -2.5, int64(1)<<53 + 1, 1e308, int64(-1), 0.0, int64(0)}
	strs := []any{"a", "", "ab", "1"}
	all := append(append([]any{nil, true, false}, nums...), strs...)
	n := 0
	for _, op := range binOps {
		var seq, rights []any
		switch op {
		case "+", "-", "*", "/", "%", "<", "<=", ">", ">=":
			seq, rights = nums, []any{int64(2), 2.5, int64(-3), int64(1) << 53}
		default:
			seq, rights = all, []any{nil, true, int64(1), 1.0, "a", "", int64(0)}
		}
		if op == "in" {
			rights = []any{"a1", []any{int64(1), "a", 0.5}, []any{1.0, nil, true}}
		}
		for _, r := range rights {
			for rot := 0; rot < len(seq); rot++ {
				for side := 0; side < 2; side++ {
					if op == "in" && side == 1 {
						continue
					}
					var elems []*gen.Node
					for i := range seq {
						elems = append(elems, sgen.Lit(seq[(i+rot)%len(seq)]))
					}
					e := gen.NBin(op, id("v"), id("y"))
					if side == 1 {
						e = gen.NBin(op, id("y"), id("v"))
					}
					c := sem.NewCase(gen.FixAll([]*gen.Node{
						gen.NSet("y", sgen.Lit(r)),
						gen.NForIn("v", gen.NList(elems...), []*gen.Node{gen.NCall("probe", gen.NStr("r"), e)}),
					}))
					judge(t, "same-node", c, fmt.Sprintf("loop/%s/%s/%d/%d", op, sgen.Class(r), rot, side), "delivery/same-node-in-loop")
					n++
				}
			}
		}
	}
	evid.Exhaustive("one operator node evaluated in a loop over operands of changing types", n)
}

// TestLongChains: one un-parenthesised chain of n binary operators, n from 1 to several hundred: every operand is
// evaluated once, in order, and contributes to the result (size boundaries such as 32 / 64 / 128 / 256 included).
func TestLongChains(t *testing.T) {
	lengths := []int{}
	for n := 1; n <= 70; n++ {
		lengths = append(lengths, n)
	}
	lengths = append(lengths, 95, 96, 97, 98, 99, 100, 127, 128, 129, 130, 200, 255, 256, 257, 258, 300)
	kinds := []string{"sum", "mixed", "concat", "probed", "logic", "div0-late", "float"}
	n := 0
	for li, ln := range lengths {
		for ki, kind := range kinds {
			if (li+ki)%evid.NShards() != evid.Shard() {
				continue
			}
			var e *gen.Node
			operand := func(i int) *gen.Node {
				switch kind {
				case "concat":
					return gen.NStr(fmt.Sprintf("%d,", i))
				case "probed":
					if i%5 == 0 {
						return gen.NCall("pval", gen.NInt(int64(i)))
					}
					return gen.NInt(int64(i))
				case "logic":
					return gen.NCall("pval", gen.NBool(i != ln-1))
				case "float":
					return gen.NFloat(float64(i) + 0.5)
				case "div0-late":
					return gen.NInt(int64(i%7 + 1))
				}
				return gen.NInt(int64(i%9 + 1))
			}
			op := func(i int) string {
				switch kind {
				case "mixed":
					return []string{"+", "-", "*", "+", "-"}[i%5]
				case "logic":
					return "&&"
				case "div0-late":
					if i == ln-1 {
						return "/"
					}
					return "+"
				}
				return "+"
			}
			e = operand(0)
			for i := 1; i <= ln; i++ {
				r := operand(i)
				if kind == "div0-late" && i == ln {
					r = gen.NParen(gen.NBin("-", gen.NInt(1), gen.NInt(1)))
				}
				e = gen.NBin(op(i-1), e, r)
			}
			prog := []*gen.Node{gen.NCall("probe", gen.NStr("r"), e), gen.NCall("probe", gen.NStr("after"))}
			if kind == "sum" && ln%3 == 0 {
				// the same chain as the right operand of a product and inside a list
				prog = []*gen.Node{gen.NCall("probe", gen.NStr("r"), gen.NBin("*", gen.NInt(2), gen.NParen(e)), gen.NList(e.Clone()))}
			}
			c := sem.NewCase(gen.FixAll(prog))
			judge(t, "chains", c, fmt.Sprintf("chain/%s/%d", kind, ln), "long-chain/"+kind)
			n++
		}
	}
	evid.Exhaustive("operator chains of 1..70 and boundary lengths up to 300 x 7 chain kinds", n)
}

// TestShortCircuitTable: && and || with probes on both sides over all operand pairs.
func TestShortCircuitTable(t *testing.T) {
	vals := sgen.OperandValues()
	n := 0
	for _, op := range []string{"&&", "||"} {
		for _, l := range vals {
			for _, r := range vals {
				e := gen.NBin(op, gen.NCall("pval", sgen.Lit(l)), gen.NCall("pval", sgen.Lit(r)))
				c := sem.NewCase(gen.FixAll([]*gen.Node{gen.NCall("probe", gen.NStr("r"), e)}))
				judge(t, "shortcircuit", c, fmt.Sprintf("sc/%s/%s/%s", op, sgen.Class(l), sgen.Class(r)), "short-circuit")
				n++
			}
		}
	}
	evid.Exhaustive("short-circuit-table", n)
}

// TestInListLiteral: `x in [e1, e2, e3]` written with a list LITERAL: every element is evaluated exactly once, in order,
// whether or not an earlier element already matched; a failing later element is an error.
func TestInListLiteral(t *testing.T) {
	dom := []any{int64(1), "a", nil, 1.5, true, []any{int64(1)}}
	n := 0
	for _, l := range dom {
		for _, e1 := range dom {
			for _, e2 := range dom {
				for tail := 0; tail < 4; tail++ {
					elems := []*gen.Node{gen.NCall("pval", sgen.Lit(e1)), gen.NCall("pval", sgen.Lit(e2))}
					var prog []*gen.Node
					switch tail {
					case 1:
						elems = append(elems, gen.NCall("pval", sgen.Lit(l)))
					case 2: // a later element that fails at run time
						prog = append(prog, gen.NSet("z", gen.NInt(0)))
						elems = append(elems, gen.NBin("/", gen.NInt(1), id("z")))
					case 3: // a later element with a side effect on the point
						elems = append(elems, gen.NCall("pval", gen.NCall("len", gen.NStr("abc"))))
						elems = append([]*gen.Node{elems[0], gen.NCall("pval", sgen.Lit(l))}, elems[1:]...)
					}
					e := gen.NBin("in", gen.NCall("pval", sgen.Lit(l)), gen.NList(elems...))
					prog = append(prog, gen.NCall("probe", gen.NStr("r"), e.Clone()), gen.NCall("add_key", id("r"), e.Clone()))
					judge(t, "inlist", sem.NewCase(gen.FixAll(prog)), fmt.Sprintf("inlist/%s/%s/%s/%d", sgen.Class(l), sgen.Class(e1), sgen.Class(e2), tail), "in-list-literal")
					n++
				}
			}
		}
	}
	evid.Exhaustive("in over list literals with probed elements", n)
}

// TestEmptyValuesByEveryRoute: an empty list (string, map) is the same value whatever expression produced it - a literal,
// a slice of any form that selects nothing, a slice of a literal, a variable - so == / != / in over any two routes, also
// nested in a list or map literal, follow the rows for two equal collections; add_key stores the JSON text of an empty one.
func TestEmptyValuesByEveryRoute(t *testing.T) {
	sl := func(obj *gen.Node, lo, hi, step *gen.Node, c2 bool) *gen.Node { return gen.NSlice(obj, lo, hi, step, c2) }
	i := gen.NInt
	lists := func() []*gen.Node {
		return []*gen.Node{
			gen.NList(), id("e"), sl(id("l"), i(3), nil, nil, false), sl(id("l"), i(3), nil, i(2), true), sl(id("l"), i(1), i(1), nil, false),
			sl(id("l"), nil, i(0), nil, false), sl(id("l"), i(0), nil, i(-1), true), sl(id("l"), i(-1), i(-3), nil, false), sl(id("e"), nil, nil, nil, false),
			sl(id("e"), nil, nil, i(-1), true), sl(gen.NList(i(1), i(2)), i(5), nil, nil, false), sl(sl(id("l"), i(1), nil, nil, false), i(9), nil, nil, false),
			sl(id("l"), i(2), i(1), i(1), true),
		}
	}
	strs := func() []*gen.Node {
		return []*gen.Node{gen.NStr(""), id("es"), sl(id("s"), i(3), nil, nil, false), sl(id("s"), i(1), i(1), nil, false), sl(id("s"), i(3), nil, i(2), true),
			sl(gen.NStr("ab"), i(5), nil, nil, false), sl(id("es"), nil, nil, i(-1), true), gen.NBin("+", gen.NStr(""), id("es"))}
	}
	setup := func() []*gen.Node {
		return []*gen.Node{gen.NSet("l", gen.NList(i(1), i(2), i(3))), gen.NSet("e", gen.NList()), gen.NSet("s", gen.NStr("abc")), gen.NSet("es", gen.NStr(""))}
	}
	n := 0
	for fam, mk := range map[string]func() []*gen.Node{"list": lists, "string": strs} {
		k := len(mk())
		for a := 0; a < k; a++ {
			for b := 0; b < k; b++ {
				for w := 0; w < 6; w++ {
					x, y := mk()[a], mk()[b]
					var e *gen.Node
					switch w {
					case 0:
						e = gen.NBin("==", x, y)
					case 1:
						e = gen.NBin("!=", x, y)
					case 2:
						e = gen.NBin("in", x, gen.NList(i(0), y))
					case 3:
						e = gen.NBin("==", gen.NList(x), gen.NList(y))
					case 4:
						e = gen.NBin("==", gen.NMap(gen.NStr("k"), x), gen.NMap(gen.NStr("k"), y))
					case 5:
						e = gen.NBin("in", gen.NMap(gen.NStr("k"), x), gen.NList(gen.NMap(gen.NStr("k"), y)))
					}
					prog := append(setup(), gen.NCall("probe", gen.NStr("r"), e.Clone(), x.Clone()), gen.NCall("add_key", id("r"), e.Clone()), gen.NCall("add_key", id("xs"), x.Clone()))
					judge(t, "emptyroutes", sem.NewCase(gen.FixAll(prog)), fmt.Sprintf("emptyroutes/%s/%d/%d/%d", fam, a, b, w), "empty-value-by-route/"+fam)
					n++
				}
			}
		}
	}
	evid.Exhaustive("empty lists and strings produced by every route, compared pairwise", n)
}

// TestLiteralListsThatJoinAlike: membership in a list literal is decided by the elements, not by any text made of them:
// pairs of literal lists whose elements joined by some separator (or by nothing) give the same text must still answer for
// their own elements - in one script, in either order, and in two scripts loaded one after the other.
func TestLiteralListsThatJoinAlike(t *testing.T) {
	groups := [][][]string{
		{{"a,b", "c"}, {"a", "b", "c"}, {"a", "b,c"}, {"a,b,c"}},
		{{"GET,HEAD", "POST"}, {"GET", "HEAD,POST"}},
		{{"ab", "c"}, {"a", "bc"}, {"abc"}, {"a", "b", "c"}},
		{{"a b", "c"}, {"a", "b c"}},
		{{"a|b", "c"}, {"a", "b|c"}},
		{{"a\x00b", "c"}, {"a", "b\x00c"}},
		{{"a\nb", "c"}, {"a", "b\nc"}},
		{{"", "a"}, {"a", ""}, {"a"}, {"", "", "a"}},
		{{"1", "2"}, {"12"}, {"1,2"}},
	}
	lit := func(el []string) *gen.Node {
		l := gen.NList()
		for _, e := range el {
			l.Args = append(l.Args, gen.NStr(e))
		}
		return l
	}
	n := 0
	for gi, g := range groups {
		needles := map[string]bool{}
		for _, el := range g {
			for _, e := range el {
				needles[e] = true
			}
		}
		var ns []string
		for e := range needles {
			ns = append(ns, e)
		}
		sort.Strings(ns)
		for a := range g {
			for b := range g {
				if a == b {
					continue
				}
				var prog []*gen.Node
				for _, nd := range ns {
					prog = append(prog, gen.NCall("probe", gen.NStr("first"), gen.NBin("in", gen.NStr(nd), lit(g[a]))))
					prog = append(prog, gen.NCall("probe", gen.NStr("second"), gen.NBin("in", gen.NStr(nd), lit(g[b]))))
				}
				prog = append(prog, gen.NCall("probe", gen.NStr("eq"), gen.NBin("==", lit(g[a]), lit(g[b])), gen.NBin("in", lit(g[a]), gen.NList(lit(g[b])))))
				judge(t, "joinalike", sem.NewCase(gen.FixAll(prog)), fmt.Sprintf("joinalike/%d/%d/%d", gi, a, b), "literal-lists-that-join-alike/one-script")
				n++
				// the two lists in two scripts, loaded and run one after the other (each case is a load of its own)
				for _, which := range []int{a, b} {
					var p2 []*gen.Node
					for _, nd := range ns {
						p2 = append(p2, gen.NCall("probe", gen.NStr("only"), gen.NBin("in", gen.NStr(nd), lit(g[which]))))
					}
					judge(t, "joinalike", sem.NewCase(gen.FixAll(p2)), fmt.Sprintf("joinalike/%d/%d/%d/alone%d", gi, a, b, which), "literal-lists-that-join-alike/two-loads")
					n++
				}
			}
		}
	}
	evid.Exhaustive("pairs of literal lists whose joined texts coincide", n)
}

// TestEvaluationOrderOfComposites: sgen.OrderCases - every composite form with a probed operand in every child position,
// alone and next to a failing sibling - under the v1 interpreter: children are evaluated in text order, each once, and a
// failure ends the statement with exactly the earlier siblings evaluated.
func TestEvaluationOrderOfComposites(t *testing.T) {
	cases := sgen.OrderCases()
	var names []string
	for k := range cases {
		names = append(names, k)
	}
	sort.Strings(names)
	for _, name := range names {
		judge(t, "order", sem.NewCase(gen.FixAll(gen.CloneProg(cases[name]))), "order/"+name, "evaluation-order/"+strings.SplitN(name, "/", 2)[0])
	}
	evid.Exhaustive("composite form x probed child positions x failing sibling (v1)", len(names))
}

// TestSelfUpdateForms: `t = t op e`, `t = e op t`, `t = t op t` and `t op= e` evaluate their operands like any other
// expression: what t is (a variable, a point key, nothing at all, a name whose block was left) decides the outcome.
func TestSelfUpdateForms(t *testing.T) {
	n := 0
	for _, op := range []string{"+", "-", "*", "/", "%"} {
		for form := 0; form < 5; form++ {
			for sit := 0; sit < 5; sit++ {
				var prog []*gen.Node
				c := sem.NewCase(nil)
				c.Fields = map[string]any{"other": int64(4)}
				switch sit {
				case 0: // nothing of that name exists
				case 1:
					c.Fields["t"] = int64(6)
				case 2:
					prog = append(prog, gen.NSet("t", gen.NInt(6)))
				case 3: // assigned only in a block that was left
					prog = append(prog, gen.NIf([]*gen.Node{gen.NBool(true)}, [][]*gen.Node{{gen.NSet("t", gen.NInt(6))}}, nil, false))
				default: // a string key: another operand type
					c.Fields["t"] = "six"
				}
				var st *gen.Node
				switch form {
				case 0:
					st = gen.NSet("t", gen.NBin(op, id("t"), gen.NInt(2)))
				case 1:
					st = gen.NSet("t", gen.NBin(op, gen.NInt(20), id("t")))
				case 2:
					st = gen.NSet("t", gen.NBin(op, id("t"), id("t")))
				case 3:
					st = gen.NAssign(op+"=", []*gen.Node{id("t")}, []*gen.Node{gen.NInt(2)})
				default:
					st = gen.NSet("t", gen.NBin(op, gen.NBin(op, id("t"), gen.NInt(2)), gen.NInt(3)))
				}
				prog = append(prog, gen.NCall("probe", gen.NStr("before"), id("t")), st, gen.NCall("probe", gen.NStr("after"), id("t")), gen.NCall("add_key", id("seen"), id("t")))
				c.Scripts[c.Root] = gen.FixAll(prog)
				judge(t, "selfupdate", c, fmt.Sprintf("selfupdate/%s/%d/%d", op, form, sit), "self-update")
				n++
			}
		}
	}
	evid.Exhaustive("operator x {t=t op e, t=e op t, t=t op t, t op= e, t=t op e op e} x what t is", n)
}

// TestMembershipAfterMutation: `x in l` looks at the list as it is now - also a long list, also after an element was
// replaced through another path to the same list (an alias, a container that holds it, a compound assignment).
func TestMembershipAfterMutation(t *testing.T) {
	n := 0
	for _, size := range []int{3, 15, 16, 17, 32, 64, 300} {
		for via := 0; via < 5; via++ {
			for _, kind := range []string{"int", "str"} {
				var elems []*gen.Node
				for i := 0; i < size; i++ {
					if kind == "int" {
						elems = append(elems, gen.NInt(int64(i)))
					} else {
						elems = append(elems, gen.NStr(fmt.Sprint("s", i)))
					}
				}
				oldV, newV := gen.NInt(0), gen.NInt(1000)
				if kind == "str" {
					oldV, newV = gen.NStr("s0"), gen.NStr("fresh")
				}
				prog := []*gen.Node{gen.NSet("big", gen.NList(elems...)),
					gen.NCall("probe", gen.NStr("first"), gen.NBin("in", oldV.Clone(), id("big")), gen.NBin("in", newV.Clone(), id("big")))}
				var write *gen.Node
				switch via {
				case 0:
					write = gen.NAssign("=", []*gen.Node{gen.NIndex(id("big"), gen.NInt(0))}, []*gen.Node{newV.Clone()})
				case 1:
					prog = append(prog, gen.NSet("al", id("big")))
					write = gen.NAssign("=", []*gen.Node{gen.NIndex(id("al"), gen.NInt(0))}, []*gen.Node{newV.Clone()})
				case 2:
					prog = append(prog, gen.NSet("holder", gen.NMap(gen.NStr("l"), id("big"))))
					write = gen.NAssign("=", []*gen.Node{gen.NIndex(id("holder"), gen.NStr("l"), gen.NInt(0))}, []*gen.Node{newV.Clone()})
				case 3:
					prog = append(prog, gen.NSet("rows", gen.NList(id("big"))))
					if kind == "int" {
						write = gen.NAssign("+=", []*gen.Node{gen.NIndex(id("rows"), gen.NInt(0), gen.NInt(0))}, []*gen.Node{gen.NInt(1000)})
					} else {
						write = gen.NAssign("=", []*gen.Node{gen.NIndex(id("rows"), gen.NInt(0), gen.NInt(0))}, []*gen.Node{newV.Clone()})
					}
				default:
					prog = append(prog, gen.NSet("rows", gen.NList(gen.NMap(gen.NStr("k"), id("big")))))
					write = gen.NAssign("=", []*gen.Node{gen.NIndex(id("rows"), gen.NInt(0), gen.NStr("k"), gen.NInt(int64(-size)))}, []*gen.Node{newV.Clone()})
				}
				prog = append(prog, write, gen.NCall("probe", gen.NStr("second"), gen.NBin("in", oldV.Clone(), id("big")), gen.NBin("in", newV.Clone(), id("big")), gen.NIndex(id("big"), gen.NInt(0))))
				c := sem.NewCase(gen.FixAll(prog))
				c.Fuel = 200000
				judge(t, "membership", c, fmt.Sprintf("membership/%d/%d/%s", size, via, kind), "membership-after-mutation")
				n++
			}
		}
	}
	evid.Exhaustive("list size x path of the write x element kind: in before and after", n)
}

// TestExpressionPositions: an operator expression means the same wherever it is evaluated: as the source of an
// assignment, as the condition of an if / elif / for, in parentheses, as an argument, a list element, an index key.
// Operand pairs: non-bool operands of && and ||, integers beyond 2^53 that differ by one, mixed int / float at the
// precision boundary, nil, strings.
func TestExpressionPositions(t *testing.T) {
	big := int64(9007199254740992)
	exprs := []func() *gen.Node{
		func() *gen.Node { return gen.NBin("&&", gen.NInt(1), gen.NBool(true)) },
		func() *gen.Node { return gen.NBin("&&", id("n"), id("ok")) },
		func() *gen.Node { return gen.NBin("||", gen.NStr("s"), gen.NBool(false)) },
		func() *gen.Node { return gen.NBin("||", gen.NNil(), gen.NBool(true)) },
		func() *gen.Node { return gen.NBin("&&", gen.NInt(0), gen.NCall("pval", gen.NBool(true))) },
		func() *gen.Node { return gen.NBin("||", gen.NBool(true), gen.NCall("pval", gen.NInt(1))) },
		func() *gen.Node { return gen.NBin("&&", gen.NBool(false), gen.NCall("pval", gen.NInt(1))) },
		func() *gen.Node { return gen.NBin("&&", gen.NParen(gen.NBin("&&", gen.NBool(true), gen.NInt(2))), gen.NBool(true)) },
		func() *gen.Node { return gen.NBin("<", gen.NInt(big), gen.NInt(big+1)) },
		func() *gen.Node { return gen.NBin("<=", gen.NInt(big+1), gen.NInt(big)) },
		func() *gen.Node { return gen.NBin(">", id("b1"), id("b0")) },
		func() *gen.Node { return gen.NBin(">=", id("b0"), id("b1")) },
		func() *gen.Node { return gen.NBin("==", gen.NInt(big+1), gen.NFloat(float64(big))) },
		func() *gen.Node { return gen.NBin("<", gen.NInt(big+1), gen.NFloat(float64(big))) },
		func() *gen.Node { return gen.NBin("<", gen.NInt(1600000000000000000), gen.NInt(1600000000000000001)) },
		func() *gen.Node { return gen.NBin("<", gen.NStr("a"), gen.NStr("b")) },
		func() *gen.Node { return gen.NBin("<", gen.NNil(), gen.NInt(1)) },
		func() *gen.Node { return gen.NBin("==", gen.NNil(), gen.NBool(false)) },
		func() *gen.Node { return gen.NUnary("!", gen.NInt(1)) },
		func() *gen.Node { return gen.NBin("in", gen.NInt(1), gen.NList(gen.NInt(1))) },
	}
	n := 0
	for ei, mk := range exprs {
		for pos := 0; pos < 9; pos++ {
			pre := []*gen.Node{gen.NSet("n", gen.NInt(3)), gen.NSet("ok", gen.NBool(true)), gen.NSet("b0", gen.NInt(big)), gen.NSet("b1", gen.NInt(big+1)), gen.NSet("cnt", gen.NInt(0))}
			then := []*gen.Node{gen.NCall("probe", gen.NStr("then"))}
			els := []*gen.Node{gen.NCall("probe", gen.NStr("else"))}
			var st []*gen.Node
			switch pos {
			case 0:
				st = []*gen.Node{gen.NSet("r", mk()), gen.NCall("probe", gen.NStr("r"), id("r"))}
			case 1:
				st = []*gen.Node{gen.NIf([]*gen.Node{mk()}, [][]*gen.Node{then}, els, true)}
			case 2:
				st = []*gen.Node{gen.NIf([]*gen.Node{gen.NBool(false), mk()}, [][]*gen.Node{{gen.NCall("probe", gen.NStr("first"))}, then}, els, true)}
			case 3:
				st = []*gen.Node{gen.NIf([]*gen.Node{gen.NParen(mk())}, [][]*gen.Node{then}, els, true)}
			case 4: // a for condition: the body runs while it holds (at most three passes)
				st = []*gen.Node{gen.NFor(nil, gen.NBin("&&", gen.NBin("<", id("cnt"), gen.NInt(3)), gen.NParen(mk())), nil, []*gen.Node{gen.NSet("cnt", gen.NBin("+", id("cnt"), gen.NInt(1))), gen.NCall("probe", gen.NStr("pass"), id("cnt"))})}
			case 5: // the condition itself, un-parenthesised; the body ends the loop
				st = []*gen.Node{gen.NFor(nil, mk(), nil, []*gen.Node{gen.NCall("probe", gen.NStr("pass")), gen.NBreak()}), gen.NCall("probe", gen.NStr("after-loop"))}
			case 6:
				st = []*gen.Node{gen.NCall("probe", gen.NStr("arg"), mk(), gen.NList(mk()))}
			case 7:
				st = []*gen.Node{gen.NSet("m", gen.NMap(gen.NStr("k"), mk())), gen.NCall("add_key", id("out"), mk()), gen.NCall("probe", gen.NStr("m"), id("m"))}
			default:
				st = []*gen.Node{gen.NFor(gen.NSet("i", gen.NInt(0)), gen.NBin("<", id("i"), gen.NInt(2)), gen.NSet("i", gen.NBin("+", id("i"), gen.NInt(1))), []*gen.Node{gen.NIf([]*gen.Node{mk()}, [][]*gen.Node{then}, els, true)})}
			}
			judge(t, "positions", sem.NewCase(gen.FixAll(append(pre, st...))), fmt.Sprintf("exprpos/%d/%d", ei, pos), "expression-positions")
			n++
		}
	}
	evid.Exhaustive("operator expression x evaluation position", n)
}

// TestStringMembership: `needle in haystack` on strings is byte-wise containment - also for needles that are a lone
// byte of a character (a byte-wise slice), U+FFFD, parts of characters and the characters a for-in delivers.
func TestStringMembership(t *testing.T) {
	strs := []string{"", "a", "abc", "caf\xc3\xa9", "\xff", "\xfe", "a\xfeb", "x\xfe", "\xc3", "\xa9", "\xef\xbf\xbd", "a\xef\xbf\xbdb", "\xf0\x9f\x98\x80", "\xf0\x9f", "\x98\x80", "\x00", "a\x00b", "é", "e", "\xe6\x97\xa5", "\xe6"}
	n := 0
	for _, needle := range strs {
		for _, hay := range strs {
			prog := []*gen.Node{gen.NCall("probe", gen.NStr("in"), gen.NBin("in", gen.NStr(needle), gen.NStr(hay))),
				gen.NSet("nd", gen.NStr(needle)), gen.NSet("hs", gen.NStr(hay)), gen.NCall("probe", gen.NStr("in-vars"), gen.NBin("in", id("nd"), id("hs")))}
			if len(hay) > 0 {
				// the first byte of the haystack, sliced off byte-wise, is in the haystack
				prog = append(prog, gen.NCall("probe", gen.NStr("first-byte"), gen.NBin("in", gen.NSlice(id("hs"), gen.NInt(0), gen.NInt(1), nil, false), id("hs")), gen.NBin("in", gen.NSlice(id("hs"), gen.NInt(0), gen.NInt(1), nil, false), gen.NStr(needle))))
			}
			judge(t, "string-in", sem.NewCase(gen.FixAll(prog)), fmt.Sprintf("strin/%x/%x", needle, hay), "string-membership")
			n++
		}
		var body []*gen.Node
		for hi, hay := range strs {
			body = append(body, gen.NCall("probe", gen.NStr(fmt.Sprint("c-in-", hi)), id("c"), gen.NBin("in", id("c"), gen.NStr(hay))))
		}
		if needle != "" {
			judge(t, "string-in", sem.NewCase(gen.FixAll([]*gen.Node{gen.NForIn("c", gen.NStr(needle), body)})), fmt.Sprintf("strin-forin/%x", needle), "string-membership")
			n++
		}
	}
	evid.Exhaustive("needle x haystack over valid, invalid and partial encodings; byte slices and for-in characters as needles", n)
}

// TestRetypedKeys: the operand kinds an operator sees are those of the value a point key holds NOW: a key whose value
// was replaced by one of another type (rename over an existing key, add_key, cast, set_tag) is read with its new type.
func TestRetypedKeys(t *testing.T) {
	olds := []any{1.5, "old", true, nil, int64(3)}
	news := []any{int64(7), 2.5, "new", false, nil}
	extra := bmodel.Field()
	n := 0
	for oi, old := range olds {
		for ni, nw := range news {
			for how := 0; how < 5; how++ {
				c := sem.NewCase(nil)
				c.Fields = map[string]any{"k": old, "other": int64(1)}
				var prog []*gen.Node
				switch how {
				case 0: // rename an existing field of another type over it
					c.Fields["src"] = nw
					prog = append(prog, gen.NCall("rename", id("k"), id("src")))
				case 1:
					prog = append(prog, gen.NCall("add_key", id("k"), sgen.Lit(nw)))
				case 2:
					c.Fields["src"] = nw
					prog = append(prog, gen.NCall("drop_key", id("k")), gen.NCall("rename", id("k"), id("src")))
				case 3: // a tag renamed over a field
					if s, ok := nw.(string); ok {
						c.Tags = map[string]string{"src": s}
						prog = append(prog, gen.NCall("rename", id("k"), id("src")))
					} else {
						continue
					}
				default:
					c.Fields["src"] = nw
					prog = append(prog, gen.NCall("rename", id("tmp"), id("src")), gen.NCall("rename", id("k"), id("tmp")))
				}
				reads := [][]*gen.Node{
					{gen.NCall("probe", gen.NStr("div"), gen.NBin("/", id("k"), gen.NInt(2)))},
					{gen.NCall("probe", gen.NStr("add"), gen.NBin("+", id("k"), gen.NInt(1)))},
					{gen.NCall("probe", gen.NStr("mul"), gen.NBin("*", id("k"), gen.NFloat(1.5)))},
					{gen.NCall("probe", gen.NStr("cmp"), gen.NBin("==", id("k"), sgen.Lit(nw)), gen.NBin("==", id("k"), sgen.Lit(old)), gen.NBin("==", id("k"), gen.NNil()), gen.NBin("!=", id("k"), gen.NInt(7)))},
					{gen.NCall("probe", gen.NStr("less"), gen.NBin("<", id("k"), gen.NInt(5)))},
					{gen.NCall("probe", gen.NStr("concat"), gen.NBin("+", id("k"), gen.NStr("x")))},
					{gen.NCall("probe", gen.NStr("in"), gen.NBin("in", gen.NStr("e"), id("k")))},
					{gen.NCall("probe", gen.NStr("neg"), gen.NUnary("-", id("k")))},
					{gen.NCall("probe", gen.NStr("not"), gen.NUnary("!", id("k")))},
					{gen.NCall("probe", gen.NStr("logic"), gen.NBin("&&", id("k"), gen.NBool(true)), gen.NBin("||", id("k"), gen.NBool(false)))},
					{gen.NAssign("+=", []*gen.Node{id("k")}, []*gen.Node{gen.NInt(1)}), gen.NCall("probe", gen.NStr("compound"), id("k"))},
				}
				for ri, rd := range reads {
					full := append(append([]*gen.Node{}, prog...), rd...)
					cl := make([]*gen.Node, len(full))
					for i, x := range full {
						cl[i] = x.Clone()
					}
					cc := sem.NewCase(gen.FixAll(cl))
					cc.Fields, cc.Tags = map[string]any{}, map[string]string{}
					for k, v := range c.Fields {
						cc.Fields[k] = v
					}
					for k, v := range c.Tags {
						cc.Tags[k] = v
					}
					cc.Print(nil)
					v := sem.Decide(cc, func() sem.ImplOut { return sem.RunV1(cc, 0) }, extra, true, true)
					if v.Discard != nil {
						evid.Discard(v.Discard.Error())
						continue
					}
					if v.Msg != "" {
						rk.Fail(t, "retyped-key", cc.Replay(""), "%s\nscript: %q", v.Msg, cc.Texts[cc.Root])
					}
					evid.Case(fmt.Sprintf("retyped/%d/%d/%d/%d", oi, ni, how, ri), !v.Weak, "retyped-key")
					n++
				}
			}
		}
	}
	evid.Exhaustive("old value type x new value type x way the key was rewritten, read by every operator family", n)
}

// TestConstantTails: `x + c1 + c2` is ((x + c1) + c2): float addition is not associative, so the grouping shows in the
// value when x is a float at the precision boundary - as a variable, a point key, a call result.
func TestConstantTails(t *testing.T) {
	xs := []any{9007199254740992.0, 5e-7, 1e16, 0.1, -9007199254740992.0, 4503599627370497.0, 1e-300, int64(9007199254740992), int64(5), "s", nil}
	n := 0
	for xi, x := range xs {
		for _, ops := range [][2]string{{"+", "+"}, {"+", "-"}, {"-", "+"}, {"-", "-"}, {"*", "*"}, {"*", "/"}, {"/", "*"}, {"+", "*"}} {
			for _, cs := range [][2]int64{{1, 1}, {1, 2}, {3, 1}, {2, 2}} {
				for src := 0; src < 3; src++ {
					var prog []*gen.Node
					c := sem.NewCase(nil)
					c.Fields = map[string]any{"other": int64(1)}
					var xn *gen.Node
					switch src {
					case 0:
						prog = append(prog, gen.NSet("x", sgen.Lit(x)))
						xn = id("x")
					case 1:
						if !sgen.IsScalar(x) {
							continue
						}
						c.Fields["x"] = x
						xn = id("x")
					default:
						xn = gen.NCall("pval", sgen.Lit(x))
					}
					e := gen.NBin(ops[1], gen.NBin(ops[0], xn, gen.NInt(cs[0])), gen.NInt(cs[1]))
					e4 := gen.NBin(ops[0], gen.NBin(ops[1], gen.NBin(ops[0], xn.Clone(), gen.NInt(cs[0])), gen.NInt(cs[1])), gen.NInt(cs[0]))
					prog = append(prog, gen.NCall("probe", gen.NStr("r"), e, e4), gen.NCall("add_key", id("out"), e.Clone()))
					c.Scripts[c.Root] = gen.FixAll(prog)
					judge(t, "consttail", c, fmt.Sprintf("consttail/%d/%s%s/%d%d/%d", xi, ops[0], ops[1], cs[0], cs[1], src), "constant-tail")
					n++
				}
			}
		}
	}
	evid.Exhaustive("left operand (floats at the precision boundary, ints, others) x operator pair x constants x where x comes from", n)
}

// TestNestedLogicalChains: a chain of && (or ||) one of whose operands holds another chain - in parentheses, as a call
// argument, a list element, a comparison operand: every assignment of truth values, plus operands that are not bools.
func TestNestedLogicalChains(t *testing.T) {
	shapes := []func(outer, inner string, v []*gen.Node) *gen.Node{
		func(o, i string, v []*gen.Node) *gen.Node { // a o (b i c i d) o e
			return gen.NBin(o, gen.NBin(o, v[0], gen.NParen(gen.NBin(i, gen.NBin(i, v[1], v[2]), v[3]))), v[4])
		},
		func(o, i string, v []*gen.Node) *gen.Node { // (b i c i d) o a o e
			return gen.NBin(o, gen.NBin(o, gen.NParen(gen.NBin(i, gen.NBin(i, v[1], v[2]), v[3])), v[0]), v[4])
		},
		func(o, i string, v []*gen.Node) *gen.Node { // a o pval(b i c i d) o e
			return gen.NBin(o, gen.NBin(o, v[0], gen.NCall("pval", gen.NBin(i, gen.NBin(i, v[1], v[2]), v[3]))), v[4])
		},
		func(o, i string, v []*gen.Node) *gen.Node { // a o ((b i c i d) == true) o e
			return gen.NBin(o, gen.NBin(o, v[0], gen.NParen(gen.NBin("==", gen.NParen(gen.NBin(i, gen.NBin(i, v[1], v[2]), v[3])), gen.NBool(true)))), v[4])
		},
		func(o, i string, v []*gen.Node) *gen.Node { // a o (true in [b i c i d]) o e
			return gen.NBin(o, gen.NBin(o, v[0], gen.NParen(gen.NBin("in", gen.NBool(true), gen.NList(gen.NBin(i, gen.NBin(i, v[1], v[2]), v[3]))))), v[4])
		},
		func(o, i string, v []*gen.Node) *gen.Node { // a o b o (c i d i e)  - the inner chain last
			return gen.NBin(o, gen.NBin(o, v[0], v[1]), gen.NParen(gen.NBin(i, gen.NBin(i, v[2], v[3]), v[4])))
		},
	}
	n := 0
	for si, sh := range shapes {
		for _, ops := range [][2]string{{"&&", "||"}, {"||", "&&"}, {"&&", "&&"}, {"||", "||"}} {
			for mask := 0; mask < 32; mask++ {
				var pre, v []*gen.Node
				for k := 0; k < 5; k++ {
					nm := string(rune('a' + k))
					pre = append(pre, gen.NSet(nm, gen.NBool(mask&(1<<k) != 0)))
					v = append(v, id(nm))
				}
				e := sh(ops[0], ops[1], v)
				prog := append(pre, gen.NCall("probe", gen.NStr("r"), e), gen.NIf([]*gen.Node{e.Clone()}, [][]*gen.Node{{gen.NCall("probe", gen.NStr("then"))}}, []*gen.Node{gen.NCall("probe", gen.NStr("else"))}, true))
				judge(t, "nested-logic", sem.NewCase(gen.FixAll(prog)), fmt.Sprintf("nestedlogic/%d/%s%s/%d", si, ops[0], ops[1], mask), "nested-logical-chain")
				n++
			}
			// a non-bool as the last operand of the outer chain
			var pre, v []*gen.Node
			for k := 0; k < 4; k++ {
				nm := string(rune('a' + k))
				pre = append(pre, gen.NSet(nm, gen.NBool(ops[0] == "&&")))
				v = append(v, id(nm))
			}
			v = append(v, gen.NInt(5))
			prog := append(pre, gen.NCall("probe", gen.NStr("r"), sh(ops[0], ops[1], v)))
			judge(t, "nested-logic", sem.NewCase(gen.FixAll(prog)), fmt.Sprintf("nestedlogic/%d/%s%s/nonbool", si, ops[0], ops[1]), "nested-logical-chain")
			n++
		}
	}
	evid.Exhaustive("shape of the nesting x operator pair x all 32 truth assignments (+ a non-bool operand)", n)
}

func genCase(t *rapid.T) (*sem.Case, *sgen.G) {
	g := sgen.New(t)
	g.Probes = true
	g.Hostile = rapid.SampledFrom([]int{0, 10, 40}).Draw(t, "hostile")
	g.MaxDepth = rapid.IntRange(2, 4).Draw(t, "depth")
	g.Slices = false
	g.AddKey = true
	// the point overlaps the name pool
	fields := map[string]any{}
	if rapid.Bool().Draw(t, "k1") {
		fields["k1"] = rapid.SampledFrom([]any{int64(3), 2.5, "s", true, nil}).Draw(t, "k1v")
		switch fields["k1"].(type) {
		case int64:
			g.Env["k1"] = sgen.TInt
		case float64:
			g.Env["k1"] = sgen.TFloat
		case string:
			g.Env["k1"] = sgen.TStr
		case bool:
			g.Env["k1"] = sgen.TBool
		}
	}
	var prog []*gen.Node
	n := rapid.IntRange(1, 5).Draw(t, "nstmts")
	for i := 0; i < n; i++ {
		ty := []sgen.Ty{sgen.TInt, sgen.TInt, sgen.TFloat, sgen.TBool, sgen.TBool, sgen.TStr, sgen.TAny}[rapid.IntRange(0, 6).Draw(t, "ty")]
		e := g.ExprOf(ty, g.MaxDepth)
		switch rapid.IntRange(0, 3).Draw(t, "form") {
		case 0:
			prog = append(prog, gen.NCall("probe", gen.NStr(fmt.Sprint("e", i)), e))
		case 1:
			name := g.Names[rapid.IntRange(0, len(g.Names)-1).Draw(t, "name")]
			prog = append(prog, gen.NSet(name, e), gen.NCall("probe", gen.NStr(fmt.Sprint("v", i)), id(name)))
			g.Env[name] = ty
			g.Defined[name] = true
		case 2:
			prog = append(prog, gen.NCall("add_key", id(fmt.Sprint("out", i)), e))
		default:
			prog = append(prog, g.Stmt(0)...)
		}
	}
	c := sem.NewCase(gen.FixAll(prog))
	c.Fields = fields
	c.Tags = map[string]string{"t1": "tagv"}
	return c, g
}

func TestRandomExpressions(t *testing.T) {
	rk.Check(t, "random", 1, evid.Scale(4000, 30000), func(t *rapid.T) {
		c, g := genCase(t)
		labels := []string{}
		for f := range g.Feat {
			labels = append(labels, "feat/"+f)
		}
		judge(t, "random", c, "rnd:"+gen.Skeleton(c.Scripts[c.Root]), labels...)
	})
}

func TestReplays(t *testing.T) {
	files, _ := filepath.Glob(filepath.Join(evid.Dir(), "replays", prop, "*.json"))
	if r := os.Getenv("VERIF_REPLAY"); r != "" {
		files = []string{r}
	}
	for _, f := range files {
		b, err := os.ReadFile(f)
		if err != nil {
			continue
		}
		var r struct {
			Case sem.Replay `json:"case"`
		}
		if json.Unmarshal(b, &r) != nil || len(r.Case.Texts) == 0 {
			continue
		}
		t.Run(filepath.Base(f), func(t *testing.T) {
			c, err := sem.FromReplay(r.Case)
			if err != nil {
				t.Skipf("replay not loadable: %v", err)
			}
			v := sem.Decide(c, func() sem.ImplOut { return sem.RunV1(c, 0) }, nil, true, true)
			if v.Msg != "" {
				rk.Fail(t, "replay", r.Case, "%s\nscript: %q", v.Msg, c.Texts[c.Root])
			}
			evid.Case("replay:"+c.Texts[c.Root], true, "replay")
		})
	}
}
