package c01

import (
	"encoding/json"
	"fmt"
	"github.com/GuanceCloud/platypus/pkg/inimpl/guancecloud/input"
	"math"
	"os"
	"path/filepath"
	"strings"
	"testing"
	"time"
	"unicode/utf8"

	"pgregory.net/rapid"
	"verifharness/conv"
	"verifharness/evid"
	"verifharness/gen"
	"verifharness/impl"
	"verifharness/model"
	"verifharness/probe"
	"verifharness/rk"
	"verifharness/sem"
	"verifharness/sgen"
)

const prop = "C01"

var devnull *os.File
var realStdout = os.Stdout

func TestMain(m *testing.M) {
	evid.Init(prop, "exploration",
		"load-accepted programs over the whole statement/expression grammar under a hostile profile (operands of every type in every operator slot; integer constants at 0, +-1, +-2^31, +-2^53+-1, max/min int64; slices with omitted, negative, reversed, extreme bounds and steps; index chains with wrong and out-of-range keys; object-less `.[i]`; attribute expressions and calls of value-less functions in value position; every builtin of the function table in every argument shape its checker accepts) x random points (0..6 fields of types nil/bool/int64/float64/string incl. empty and non-UTF-8 strings, 0..3 tags, keys overlapping the identifiers of the program); second generator (thorough): native coverage-guided fuzzing of source text through the real loader. Oracle: Script.Run returns (no panic reaches the harness); a returned error is a *PlError whose first position names the script and lies inside the source with consistent Ln/Col. Non-trivial: accepted at load, executes >= 1 statement, contains a hostile feature; distinct by program skeleton + point shape.",
		"memory exhaustion by exponential string growth and Go stack exhaustion by deep nesting are resource limits, not platypus logic: excluded by a size budget evaluated on the reference model before the implementation is run, and by bounded nesting",
		"non-terminating programs are bounded by a counting signal (20000 polls)")
	devnull, _ = os.OpenFile(os.DevNull, os.O_WRONLY, 0)
	code := m.Run()
	evid.Flush(code == 0)
	os.Exit(code)
}

// opaque models every builtin the reference model does not know as "no value": the model is used here
// only as the fuel/size guard, never as an oracle.
func opaque(in *model.Interp, call *gen.Node) (any, error) {
	for _, a := range call.Args {
		if a.Kind == gen.Assign {
			continue
		}
		if _, err := in.Eval(a); err != nil {
			if _, ok := err.(*model.Err); ok {
				continue
			}
			return nil, err
		}
	}
	return model.Void, nil
}

var extra = func() map[string]func(*model.Interp, *gen.Node) (any, error) {
	m := map[string]func(*model.Interp, *gen.Node) (any, error){}
	for _, n := range []string{"set_tag", "drop_key", "rename", "cast", "set_measurement", "strfmt", "printf", "trim", "uppercase", "url_decode", "sql_cover", "replace", "grok", "xml", "datetime", "default_time", "add_pattern"} {
		m[n] = opaque
	}
	return m
}()

type replay struct {
	sem.Replay
	Hex map[string]string `json:"fields_hex,omitempty"`
}

func mkReplay(c *sem.Case) replay {
	r := replay{Replay: c.Replay("")}
	for k, v := range c.Fields {
		if s, ok := v.(string); ok && !utf8.ValidString(s) {
			if r.Hex == nil {
				r.Hex = map[string]string{}
			}
			r.Hex[k] = fmt.Sprintf("%x", s)
		}
	}
	return r
}

// guard returns false when the case must be dropped (resource budgets).
func guard(c *sem.Case) bool {
	m := sem.RunModel(c, map[string]int{}, extra)
	if m.Discard == model.ErrFuel || m.Discard == model.ErrSize {
		evid.Discard(m.Discard.Error())
		return false
	}
	return true
}

func checkErr(c *sem.Case, io sem.ImplOut) string {
	if io.Err == nil {
		return ""
	}
	e := io.Err
	if len(e.PosChain) == 0 {
		return fmt.Sprintf("script error %q carries no position", e.Err)
	}
	p := e.PosChain[0]
	src, ok := c.Texts[p.File]
	if !ok {
		return fmt.Sprintf("script error %q names %q, which is not a loaded script", e.Err, p.File)
	}
	if p.Pos < 0 || p.Pos > len(src) {
		return fmt.Sprintf("script error %q at offset %d (%d:%d) lies outside the source of %s (len %d)", e.Err, p.Pos, p.Ln, p.Col, p.File, len(src))
	}
	ln, col := impl.LnCol(src, p.Pos)
	if ln != p.Ln || col != p.Col {
		return fmt.Sprintf("script error %q: offset %d says %d:%d, is at %d:%d", e.Err, p.Pos, p.Ln, p.Col, ln, col)
	}
	return ""
}

func runCase(t rk.Failer, slot string, c *sem.Case, hostile bool, key string, labels ...string) {
	if c.Texts == nil {
		if (len(key)+len(labels))%3 == 1 {
			// every third case is printed with each operand on the line below its operator
			c.Print(func() gen.Layout { return gen.Broken{} })
			labels = append(labels, "layout/operands-on-the-next-line")
		} else {
			c.Print(nil)
		}
	}
	if !guard(c) {
		return
	}
	old := os.Stdout
	if devnull != nil {
		os.Stdout = devnull // printf() output
	}
	evid.Current(slot, mkReplay(c)) // a fatal error (stack overflow) kills the process: the driver attributes it to this case
	// the run must come back: a run still going after 60 s (the signal fires after 20000 polls) has not returned control
	var io sem.ImplOut
	done := make(chan struct{})
	go func() {
		defer close(done)
		io = sem.RunV1(c, 20000)
	}()
	select {
	case <-done:
	case <-time.After(60 * time.Second):
		os.Stdout = old
		rk.Fail(t, slot, mkReplay(c), "Script.Run has not returned after 60 s (the exit signal has been true since its 20000th poll, exit() ends a run)\nscript:\n%s", c.Texts[c.Root])
	}
	evid.ClearCurrent()
	os.Stdout = old
	if io.Crash != nil {
		rk.Fail(t, slot, mkReplay(c), "Script.Run panicked: %s\n%s\nscript:\n%s", io.Crash.Value, firstLines(io.Crash.Stack, 18), c.Texts[c.Root])
	}
	if len(io.LoadErrs) > 0 {
		evid.Discard("rejected-at-load")
		return
	}
	if msg := checkErr(c, io); msg != "" {
		rk.Fail(t, slot, mkReplay(c), "%s\nscript:\n%s", msg, c.Texts[c.Root])
	}
	out := "outcome/ok"
	if io.Err != nil {
		out = "outcome/error"
	}
	evid.Case(key, hostile, append(labels, out)...)
	if hostile && len(key)%5 == 0 {
		s := map[string]any{"script": clip(c.Texts[c.Root]), "outcome": out}
		if io.Err != nil {
			s["error"] = io.Err.Error()
		}
		evid.Sample(s)
	}
}

func clip(s string) string {
	if len(s) > 400 {
		return s[:400] + "..."
	}
	return s
}

func firstLines(s string, n int) string {
	l := strings.Split(s, "\n")
	if len(l) > n {
		l = l[:n]
	}
	return strings.Join(l, "\n")
}

func genPoint(t *rapid.T, c *sem.Case) string {
	c.Fields = map[string]any{}
	c.Tags = map[string]string{}
	shape := ""
	nf := rapid.IntRange(0, 6).Draw(t, "nfields")
	for i := 0; i < nf; i++ {
		k := rapid.SampledFrom(sgen.KeyPool).Draw(t, "fkey")
		var v any
		switch rapid.IntRange(0, 6).Draw(t, "fkind") {
		case 0:
			v = nil
		case 1:
			v = rapid.Bool().Draw(t, "fb")
		case 2:
			v = rapid.SampledFrom([]int64{0, 1, -1, 1 << 53, -(1 << 62), 9223372036854775807, -9223372036854775808, 1600000000}).Draw(t, "fi")
		case 3:
			v = rapid.SampledFrom([]float64{0, 1.5, -2.5, 1e308, 1e-320, math.NaN(), math.Inf(1), math.Inf(-1), math.Copysign(0, -1), 9223372036854775808.0, -1e19}).Draw(t, "ff")
		case 4:
			v = rapid.SampledFrom([]string{"", "a", "hello world 42", "héllo", "\xff\xfe", "a\x00b", "{\"a\":[1,2]}", "<a><b id=\"7\">t</b></a>", "2021-05-27 06:54:14.760 UTC", "%zz", "select * from t where id=1", "127.0.0.1 GET 200", "1600000000", "NaN", "-Inf", "1e400", "0x1F", "9223372036854775808", "a\U0001F600"}).Draw(t, "fs")
		default:
			v = rapid.String().Draw(t, "fany")
		}
		c.Fields[k] = v
		shape += fmt.Sprintf("%s:%T,", k, v)
	}
	nt := rapid.IntRange(0, 3).Draw(t, "ntags")
	for i := 0; i < nt; i++ {
		k := rapid.SampledFrom(sgen.KeyPool).Draw(t, "tkey")
		if _, dup := c.Fields[k]; dup {
			continue // a key is never both tag and field in an input point
		}
		c.Tags[k] = rapid.SampledFrom([]string{"", "tv", "é", "42", "true"}).Draw(t, "tval")
		shape += k + ":tag,"
	}
	return shape
}

func genProgram(t *rapid.T, fields map[string]any) ([]*gen.Node, *sgen.G) {
	g := sgen.New(t)
	for k, v := range fields {
		switch v.(type) {
		case int64:
			g.Env[k] = sgen.TInt
		case float64:
			g.Env[k] = sgen.TFloat
		case string:
			g.Env[k] = sgen.TStr
		case bool:
			g.Env[k] = sgen.TBool
		}
	}
	g.Hostile = rapid.SampledFrom([]int{25, 60, 90}).Draw(t, "hostile")
	g.Probes = rapid.Bool().Draw(t, "probes")
	g.Slices = true
	g.AddKey = true
	g.Loops = true
	g.Exit = true
	g.MaxDepth = rapid.IntRange(2, 4).Draw(t, "depth")
	g.Names = []string{"a", "b", "k1", "message"}
	builtin := func(g *sgen.G, d int) *gen.Node { return g.BuiltinCall(d) }
	voidUse := func(g *sgen.G, d int) *gen.Node {
		v := g.ValuelessExpr()
		switch rapid.IntRange(0, 6).Draw(g.T, "voiduse") {
		case 0:
			return v
		case 1:
			return gen.NSet("a", v)
		case 2:
			return gen.NSet("b", gen.NBin(rapid.SampledFrom([]string{"+", "==", "<", "&&", "in"}).Draw(g.T, "vop"), v, g.ExprOf(sgen.TAny, 1)))
		case 3:
			return gen.NIf([]*gen.Node{v}, [][]*gen.Node{{gen.NSet("a", gen.NInt(1))}}, nil, false)
		case 4:
			return gen.NCall("add_key", gen.NIdent("out"), v)
		case 5:
			return gen.NSet("b", gen.NList(v, gen.NUnary("-", v.Clone())))
		default:
			return gen.NForIn("q", gen.NList(v), nil)
		}
	}
	// keyUse reads a point key / variable in the positions that care about its run-time type
	keyUse := func(g *sgen.G, d int) *gen.Node {
		k := gen.NIdent(rapid.SampledFrom(sgen.KeyPool[:6]).Draw(g.T, "usekey"))
		g.Feat["typed-use-of-key"] = true
		switch rapid.IntRange(0, 7).Draw(g.T, "keyuse") {
		case 0:
			return gen.NSet("n", gen.NCall("len", k))
		case 1:
			return gen.NSet("s", gen.NSlice(k, gen.NInt(0), gen.NInt(1), nil, false))
		case 2:
			return gen.NForIn("ch", k, []*gen.Node{gen.NSet("last", gen.NIdent("ch"))})
		case 3:
			return gen.NSet("s", gen.NBin("+", k, gen.NStr("s")))
		case 4:
			return gen.NSet("s", gen.NBin("in", k, gen.NStr("abc")))
		case 5:
			return gen.NSet("s", gen.NBin("+", k, gen.NInt(1)))
		case 6:
			return gen.NIf([]*gen.Node{gen.NUnary("-", k)}, [][]*gen.Node{{gen.NSet("s", gen.NUnary("!", k.Clone()))}}, nil, false)
		default:
			return gen.NSet("s", gen.NBin("<", k, gen.NFloat(1.5)))
		}
	}
	// indexUse reads / writes list and map elements with keys around the boundaries
	indexUse := func(g *sgen.G, d int) *gen.Node {
		n := rapid.IntRange(0, 4).Draw(g.T, "listlen")
		l := gen.NList()
		for i := 0; i < n; i++ {
			l.Args = append(l.Args, gen.NInt(int64(i)))
		}
		g.Feat["boundary-index"] = true
		key := sgen.Lit(int64(rapid.IntRange(-n-2, n+2).Draw(g.T, "bkey")))
		if rapid.IntRange(0, 5).Draw(g.T, "oddkey") == 0 {
			key = g.ExprOf(sgen.TAny, 1)
		}
		switch rapid.IntRange(0, 4).Draw(g.T, "indexuse") {
		case 0:
			return gen.NIf([]*gen.Node{gen.NBool(true)}, [][]*gen.Node{{gen.NSet("il", l), gen.NSet("iv", gen.NIndex(gen.NIdent("il"), key))}}, nil, false)
		case 1:
			return gen.NIf([]*gen.Node{gen.NBool(true)}, [][]*gen.Node{{gen.NSet("il", l), gen.NAssign("=", []*gen.Node{gen.NIndex(gen.NIdent("il"), key)}, []*gen.Node{gen.NInt(1)})}}, nil, false)
		case 2:
			return gen.NIf([]*gen.Node{gen.NBool(true)}, [][]*gen.Node{{gen.NSet("il", gen.NList(l, l.Clone())), gen.NAssign("+=", []*gen.Node{gen.NIndex(gen.NIdent("il"), gen.NInt(0), key)}, []*gen.Node{gen.NInt(1)})}}, nil, false)
		case 3:
			return gen.NIf([]*gen.Node{gen.NBool(true)}, [][]*gen.Node{{gen.NSet("im", gen.NMap(gen.NStr("k"), l)), gen.NSet("iv", gen.NIndex(gen.NIdent("im"), gen.NStr("k"), key))}}, nil, false)
		default:
			return gen.NIf([]*gen.Node{gen.NBool(true)}, [][]*gen.Node{{gen.NSet("il", l), gen.NSet("iv", gen.NSlice(gen.NIdent("il"), key, nil, nil, false))}}, nil, false)
		}
	}
	// storeThenUse writes a value into a point key (incl. collections JSON cannot encode: inf / nan inside) and reads the key back
	// in the positions that care about its run-time type
	storeThenUse := func(g *sgen.G, d int) *gen.Node {
		k := rapid.SampledFrom(sgen.KeyPool[:6]).Draw(g.T, "stkey")
		g.Feat["store-then-typed-use"] = true
		var v *gen.Node
		switch rapid.IntRange(0, 6).Draw(g.T, "stval") {
		case 0:
			v = gen.NList(gen.NInt(1), gen.NBin("*", gen.NFloat(1e308), gen.NFloat(10)))
		case 1:
			v = gen.NMap(gen.NStr("a"), gen.NIdent("nan"))
		case 2:
			v = gen.NList(gen.NList(gen.NIdent("inf")))
		case 3:
			v = gen.NAttr(gen.NIdent("a"), gen.NIdent("b"))
		case 4:
			v = g.LitOf(sgen.TList, 2)
		case 5:
			v = g.LitOf(sgen.TMap, 2)
		default:
			v = g.ExprOf(sgen.TAny, 2)
		}
		store := gen.NCall("add_key", gen.NIdent(k), v)
		if rapid.IntRange(0, 3).Draw(g.T, "viatag") == 0 {
			store = gen.NCall("set_tag", gen.NIdent(k), gen.NStr("tv"))
		}
		var use *gen.Node
		kn := gen.NIdent(k)
		switch rapid.IntRange(0, 5).Draw(g.T, "stuse") {
		case 0:
			use = gen.NSet("n", gen.NCall("len", kn))
		case 1:
			use = gen.NSet("s", gen.NSlice(kn, gen.NInt(0), gen.NInt(1), nil, false))
		case 2:
			use = gen.NForIn("ch", kn, []*gen.Node{gen.NSet("last", gen.NIdent("ch"))})
		case 3:
			use = gen.NSet("s", gen.NBin("in", gen.NStr("a"), kn))
		case 4:
			use = gen.NCall("uppercase", kn)
		default:
			use = gen.NSet("s", gen.NBin("+", kn, gen.NStr("x")))
		}
		return gen.NIf([]*gen.Node{gen.NBool(true)}, [][]*gen.Node{{store, use}}, nil, false)
	}
	// selfContaining builds a list / map that contains itself and hands it to the constructs that walk a value
	selfContaining := func(g *sgen.G, d int) *gen.Node {
		g.Feat["self-containing-collection"] = true
		var mk []*gen.Node
		switch rapid.IntRange(0, 2).Draw(g.T, "cyckind") {
		case 0:
			mk = []*gen.Node{gen.NSet("cy", gen.NList(gen.NInt(1))), gen.NAssign("=", []*gen.Node{gen.NIndex(gen.NIdent("cy"), gen.NInt(0))}, []*gen.Node{gen.NIdent("cy")})}
		case 1:
			mk = []*gen.Node{gen.NSet("cy", gen.NMap(gen.NStr("k"), gen.NInt(1))), gen.NAssign("=", []*gen.Node{gen.NIndex(gen.NIdent("cy"), gen.NStr("self"))}, []*gen.Node{gen.NIdent("cy")})}
		default:
			mk = []*gen.Node{gen.NSet("cy", gen.NList(gen.NMap(gen.NStr("k"), gen.NInt(1)))), gen.NAssign("=", []*gen.Node{gen.NIndex(gen.NIdent("cy"), gen.NInt(0), gen.NStr("up"))}, []*gen.Node{gen.NIdent("cy")})}
		}
		// ... or a fresh collection that merely holds such a value, once or twice removed; or two collections holding each other
		for w, nw := 0, rapid.IntRange(0, 2).Draw(g.T, "wraps"); w < nw; w++ {
			g.Feat["self-containing-collection-wrapped"] = true
			switch rapid.IntRange(0, 3).Draw(g.T, "wrapkind") {
			case 0:
				mk = append(mk, gen.NSet("cy", gen.NList(gen.NIdent("cy"))))
			case 1:
				mk = append(mk, gen.NSet("cy", gen.NList(gen.NInt(0), gen.NIdent("cy"))))
			case 2:
				mk = append(mk, gen.NSet("cy", gen.NMap(gen.NStr("inner"), gen.NIdent("cy"))))
			default:
				mk = append(mk, gen.NSet("other", gen.NList(gen.NIdent("cy"))), gen.NSet("cy", gen.NMap(gen.NStr("a"), gen.NIdent("other"), gen.NStr("b"), gen.NIdent("other"))))
			}
		}
		if rapid.IntRange(0, 5).Draw(g.T, "mutual") == 0 {
			mk = []*gen.Node{gen.NSet("pp", gen.NList(gen.NInt(1))), gen.NSet("cy", gen.NList(gen.NIdent("pp"))), gen.NAssign("=", []*gen.Node{gen.NIndex(gen.NIdent("pp"), gen.NInt(0))}, []*gen.Node{gen.NIdent("cy")})}
		}
		cy := gen.NIdent("cy")
		var use *gen.Node
		if rapid.IntRange(0, 3).Draw(g.T, "twin") == 0 {
			// a second, separately built value of the same shape, compared with the first
			g.Feat["self-containing-twins-compared"] = true
			n0 := len(mk)
			for _, st := range mk[:n0] {
				tw := st.Clone()
				gen.WalkAll([]*gen.Node{tw}, func(x *gen.Node) {
					if x.Kind == gen.Ident {
						switch x.Name {
						case "cy":
							x.Name = "cz"
						case "pp":
							x.Name = "pz"
						case "other":
							x.Name = "otherz"
						}
					}
				})
				mk = append(mk, tw)
			}
			cz := gen.NIdent("cz")
			switch rapid.IntRange(0, 4).Draw(g.T, "twinuse") {
			case 0:
				use = gen.NSet("eq", gen.NBin("==", cy, cz))
			case 1:
				use = gen.NSet("eq", gen.NBin("!=", cy, cz))
			case 2:
				use = gen.NSet("eq", gen.NBin("in", cy, gen.NList(gen.NInt(1), cz)))
			case 3:
				use = gen.NIf([]*gen.Node{gen.NBin("==", gen.NList(cy), gen.NList(cz))}, [][]*gen.Node{{gen.NSet("eq", gen.NInt(1))}}, nil, false)
			default:
				use = gen.NSet("eq", gen.NBin("in", cz, cy))
			}
			return gen.NIf([]*gen.Node{gen.NBool(true)}, [][]*gen.Node{append(mk, use)}, nil, false)
		}
		switch rapid.IntRange(0, 9).Draw(g.T, "cycuse") {
		case 0:
			use = gen.NCall("strfmt", gen.NIdent("out"), gen.NStr("%v"), cy)
		case 1:
			use = gen.NCall("printf", gen.NStr("%v %d\n"), cy, cy.Clone())
		case 2:
			use = gen.NCall("add_key", gen.NIdent("out"), cy)
		case 3:
			use = gen.NSet("eq", gen.NBin("==", cy, cy.Clone()))
		case 4:
			use = gen.NSet("eq", gen.NBin("in", cy, gen.NList(cy.Clone())))
		case 5:
			use = gen.NCall("set_tag", gen.NIdent("out"), cy)
		case 6:
			use = gen.NSet("n", gen.NCall("len", cy))
		case 7:
			use = gen.NForIn("e", cy, []*gen.Node{gen.NSet("last", gen.NIdent("e"))})
		case 8:
			use = gen.NCall("strfmt", gen.NIdent("out"), gen.NStr("%s|%q|%x"), cy, cy.Clone(), cy.Clone())
		default:
			use = gen.NCall("cast", gen.NIdent("cy"), gen.NStr("str"))
		}
		return gen.NIf([]*gen.Node{gen.NBool(true)}, [][]*gen.Node{append(mk, use)}, nil, false)
	}
	g.Calls = []func(*sgen.G, int) *gen.Node{builtin, builtin, builtin, voidUse, keyUse, indexUse, storeThenUse, selfContaining}
	prog := g.Program(rapid.IntRange(1, 8).Draw(t, "size"), rapid.IntRange(1, 3).Draw(t, "nest"))
	return prog, g
}

func TestHostilePrograms(t *testing.T) {
	rk.Check(t, "hostile", 1, evid.Scale(6000, 40000), func(t *rapid.T) {
		c := sem.NewCase(nil)
		shape := genPoint(t, c)
		prog, g := genProgram(t, c.Fields)
		c.Scripts[c.Root] = prog
		var labels []string
		for f := range g.Feat {
			labels = append(labels, "feat/"+f)
		}
		runCase(t, "hostile", c, true, gen.Skeleton(prog)+"|"+shape, labels...)
	})
}

// TestBuiltinShapes: every builtin in every accepted argument shape, alone, on random points.
func TestBuiltinShapes(t *testing.T) {
	rk.Check(t, "builtins", 2, evid.Scale(8000, 60000), func(t *rapid.T) {
		g := sgen.New(t)
		g.Hostile = 50
		g.Names = []string{"a", "b", "k1", "message"}
		var prog []*gen.Node
		if rapid.Bool().Draw(t, "shadow") {
			// a script variable of the same name as the key
			prog = append(prog, gen.NSet(rapid.SampledFrom(sgen.KeyPool[:6]).Draw(t, "shadowname"), g.LitOf(sgen.TAny, 2)))
			g.Feat["variable-shadows-key"] = true
		}
		n := rapid.IntRange(1, 4).Draw(t, "ncalls")
		for i := 0; i < n; i++ {
			prog = append(prog, g.BuiltinCall(2))
		}
		c := sem.NewCase(gen.FixAll(prog))
		shape := genPoint(t, c)
		var labels []string
		for f := range g.Feat {
			labels = append(labels, "feat/"+f)
		}
		runCase(t, "builtins", c, true, gen.ShapeAll(prog)+"|"+shape, labels...)
	})
}

// TestPointOpSequences: sequences of the builtins that move, create, retype and delete keys of the point over a
// small key set, followed by type-directed uses of those keys (length, slice, iteration, arithmetic, index): the
// interpreter trusts the point's index for the type of a key, so a stale or recycled index entry shows as a crash.
func TestPointOpSequences(t *testing.T) {
	keys := []string{"a", "b", "c1", "c2", "message", "t1"}
	rk.Check(t, "pointops", 6, evid.Scale(8000, 60000), func(t *rapid.T) {
		key := func(l string) string { return rapid.SampledFrom(keys).Draw(t, l) }
		val := func() *gen.Node {
			return sgen.Lit(rapid.SampledFrom([]any{int64(5), 2.5, "x", "", true, nil, []any{int64(1), "a"}, map[string]any{"k": int64(1)}}).Draw(t, "val"))
		}
		var prog []*gen.Node
		n := rapid.IntRange(2, 8).Draw(t, "nops")
		kinds := ""
		for i := 0; i < n; i++ {
			switch k := rapid.IntRange(0, 19).Draw(t, "op"); {
			case k < 5:
				prog = append(prog, gen.NCall("rename", gen.NIdent(key("new")), gen.NIdent(key("old"))))
				kinds += "r"
			case k < 11:
				prog = append(prog, gen.NCall("add_key", gen.NIdent(key("k")), val()))
				kinds += "a"
			case k < 13:
				prog = append(prog, gen.NCall("drop_key", gen.NIdent(key("k"))))
				kinds += "d"
			case k < 15:
				prog = append(prog, gen.NCall("set_tag", gen.NIdent(key("k"))))
				kinds += "t"
			case k < 16:
				prog = append(prog, gen.NCall("set_tag", gen.NIdent(key("k")), val()))
				kinds += "T"
			case k < 18:
				prog = append(prog, gen.NCall("cast", gen.NIdent(key("k")), gen.NStr(rapid.SampledFrom([]string{"int", "float", "str", "bool"}).Draw(t, "ty"))))
				kinds += "c"
			case k < 19:
				prog = append(prog, gen.NCall("set_measurement", gen.NIdent(key("k")), gen.NBool(true)))
				kinds += "m"
			default:
				prog = append(prog, gen.NCall("default_time", gen.NIdent(key("k"))))
				kinds += "z"
			}
		}
		m := rapid.IntRange(1, 3).Draw(t, "nuses")
		for i := 0; i < m; i++ {
			k := gen.NIdent(key("use"))
			switch rapid.IntRange(0, 6).Draw(t, "use") {
			case 0:
				prog = append(prog, gen.NSet("u", gen.NCall("len", k)))
			case 1:
				prog = append(prog, gen.NSet("u", gen.NSlice(k, gen.NInt(0), gen.NInt(1), nil, false)))
			case 2:
				prog = append(prog, gen.NForIn("ch", k, []*gen.Node{gen.NSet("u", gen.NIdent("ch"))}))
			case 3:
				prog = append(prog, gen.NSet("u", gen.NBin("+", k, gen.NInt(1))))
			case 4:
				prog = append(prog, gen.NSet("u", gen.NBin("+", k, gen.NStr("s"))))
			case 5:
				prog = append(prog, gen.NCall("uppercase", k), gen.NCall("strfmt", gen.NIdent("out"), gen.NStr("%v|%d|%s"), k.Clone(), k.Clone(), k.Clone()))
			default:
				prog = append(prog, gen.NSet("u", gen.NBin("==", k, gen.NCall("get_key", k.Clone()))), gen.NSet("w", gen.NBin("<", k.Clone(), gen.NInt(3))))
			}
		}
		c := sem.NewCase(gen.FixAll(prog))
		c.Fields = map[string]any{"a": rapid.SampledFrom([]any{int64(5), 2.5, "str", true}).Draw(t, "a"), "message": "hello 42"}
		c.Tags = map[string]string{"t1": "tv"}
		if rapid.Bool().Draw(t, "b") {
			c.Fields["b"] = rapid.SampledFrom([]any{int64(7), "bs", nil}).Draw(t, "bv")
		}
		if rapid.Bool().Draw(t, "t2") {
			c.Tags["c2"] = "tag c2"
		}
		runCase(t, "pointops", c, true, gen.ShapeAll(prog), "point-op-sequence/"+fmt.Sprint(len(kinds)))
	})
}

// TestReinitialisedPointKinds: a host that keeps one Point object and initialises it again for every record (without
// handing it back to the pool), with field values of every Go kind - also kinds the point does not index: scripts
// that look at such keys in type-directed ways return, whatever the same key held in the record before.
func TestReinitialisedPointKinds(t *testing.T) {
	records := []map[string]any{
		{"k": "a string", "j": int64(1), "message": "hello 42"},
		{"k": []byte("bytes"), "j": []string{"x"}, "message": []byte("<a/>")},
		{"k": int64(7), "j": "now a string", "message": time.Second},
		{"k": []any{int64(1)}, "j": map[string]any{"a": int64(1)}, "message": uint8(3)},
		{"k": float32(1.5), "j": nil, "message": "again a string"},
		{"k": struct{ A int }{1}, "j": int32(-5), "message": []string{"a", "b"}},
		{"k": "str again", "j": 2.5},
		{},
	}
	scripts := []string{
		"n = len(k)\nm = len(j)\nprobe(\"len\", n, m)", "a = k[0:1]\nb = message[1:]", "d = load_json(k)\ne = load_json(message)", "for x in k { y = x }\nfor x in j { y = x }", "a = k + 1\nb = j + \"s\"",
		"uppercase(k)\ntrim(message)\nreplace(j, \"a\", \"b\")", "cast(k, \"int\")\ncast(j, \"str\")\ncast(message, \"bool\")", "strfmt(out, \"%v|%s|%d\", k, j, message)", "grok(_, \"%{WORD:w}\")\nxml(k, \"/a\", o)\nsql_cover(j)",
		"rename(k2, k)\nset_tag(j)\ndrop_key(message)\nadd_key(k)", "default_time(k)\ndatetime(j, \"ms\", \"RFC3339\")", "if k { a = 1 }\nif j == nil { b = 1 }\nc = k in [1, \"a string\"]\nd = get_key(k)",
	}
	call, check := sem.V1Tables()
	n := 0
	for si, src := range scripts {
		s, lerr, crash := impl.Load1("main.p", src, call, check)
		if lerr != nil || crash != nil {
			t.Fatalf("harness: script %d does not load: %v %v", si, lerr, crash)
		}
		for start := 0; start < len(records); start++ {
			pt := input.GetPoint()
			var hist []string
			for step := 0; step < 4; step++ {
				rec := records[(start+step*3)%len(records)]
				fields := map[string]any{}
				for k, v := range rec {
					fields[k] = v
				}
				var tags map[string]string
				if step%2 == 0 {
					tags = map[string]string{"t1": "tv"}
				}
				input.InitPt(pt, "m", tags, fields, impl.FixedTime())
				hist = append(hist, fmt.Sprintf("InitPt(fields %v)", rec))
				if _, crash := impl.RunV1(s, pt, &probe.Sig{FireAt: 20000}); crash != nil {
					rk.Fail(t, "reinit-kinds", map[string]any{"script": src, "records": hist}, "Script.Run panicked on a point initialised for the %d. time: %s\n%s\nscript:\n%s\nrecords: %v", step+1, crash.Value, firstLines(crash.Stack, 14), src, hist)
				}
				n++
			}
			input.PutPoint(pt)
			evid.Case(fmt.Sprintf("reinitkinds/%d/%d", si, start), true, "reinitialised-point-kinds")
		}
	}
	evid.Exhaustive("type-directed script x start record: four records of other Go kinds on one Point object", n)
}

// TestLiteralArgumentTables: the literal arguments of the builtins over their whole pools, each with subjects of the
// kinds that make the builtin do its work: every XPath form on XML documents, every zone spelling on texts of every
// time layout, format strings of every shape (a lone % at the end, missing and surplus verbs, widths, indexes) with
// arguments of every kind, precisions x layouts, replacement templates.
func TestLiteralArgumentTables(t *testing.T) {
	n := 0
	run := func(key, src string, fields map[string]any) {
		stmts, err, _ := impl.Parse("main.p", src)
		if err != nil {
			t.Fatalf("harness: %q does not parse: %v", src, err)
		}
		tree, cv := conv.Stmts(stmts)
		if cv.Err != nil {
			t.Fatalf("harness: %v", cv.Err)
		}
		c := sem.NewCase(tree)
		c.Fields = fields
		c.Tags = map[string]string{"t1": "tv"}
		c.Texts = map[string]string{"main.p": src}
		runCase(t, "literal-args", c, true, key, "literal-argument-table")
		n++
	}
	docs := []string{"<a id=\"1\"><b id=\"1\">t</b><b>u<c>v</c></b><!-- c --><?pi x?></a>", "<a/>", "<r xmlns:n=\"u\"><n:b>1</n:b></r>"}
	for xi, xp := range sgen.XPaths {
		for di, d := range docs {
			if (xi+di)%evid.NShards() != evid.Shard() {
				continue
			}
			run(fmt.Sprintf("xml/%d/%d", xi, di), fmt.Sprintf("xml(message, %s, out)\nxml(message, %s, t1)", gen.QuoteDouble(xp), gen.QuoteDouble(xp)), map[string]any{"message": d})
		}
	}
	times := []string{"2021-05-27 06:54:14.760 UTC", "27/May/2021:06:54:14 +0800", "06 Jan 2017 16:16:37.000", "28 Feb 10:07:45.525", "171113 14:14:20", "2021/02/27 - 14:14:20", "Wed Jan 25 09:20:30.123456 2017", "2017-01-25 09:20:30.123 UTC",
		"2021-05-27 06:54:14", "2021-05-27T06:54:14Z", "May 27, 2021 6:54:14 AM", "1622098454", "31/12/2021 10:00:00", "12/31/2021", "not a time", ""}
	for zi, z := range sgen.ZoneArgs {
		for ti, tm := range times {
			if (zi+ti)%evid.NShards() != evid.Shard() {
				continue
			}
			run(fmt.Sprintf("deftime/%d/%d", zi, ti), fmt.Sprintf("default_time(ts, %s)", gen.QuoteDouble(z)), map[string]any{"ts": tm})
		}
	}
	formats := []string{"%", "%%", "%d%", "%.1f%", "%v: %v%", "%d", "%5d|%-5d|%05d", "%s %s %s", "%[2]d %[1]d", "%[9]d", "%!", "%z", "%*d", "%.*f", "%+v %#v %T", "%q %x %X %o %b %c %U", "%e %g %G", "%t", "%p", "plain", "", "%d %d", "%s", "%10.3f%%", "%[1]*[2]d", "%[3]*.[2]*[1]f", "%\x00", "%é", "%v%v%v%v%v%v%v%v%v%v", "100%"}
	argSets := []string{"", ", 12", ", 12.5", ", 2.0", ", \"s\"", ", nil", ", true", ", [1, 2.5]", ", {\"k\": 1.5}", ", 1, 2.5, \"x\"", ", 2.5, 1", ", f1", ", message, f1, t1, nokey", ", 1.0e308 * 10.0", ", 9223372036854775807", ", -0.0"}
	for fi, f := range formats {
		for ai, a := range argSets {
			if (fi+ai)%evid.NShards() != evid.Shard() {
				continue
			}
			run(fmt.Sprintf("strfmt/%d/%d", fi, ai), fmt.Sprintf("strfmt(out, %s%s)\nprintf(%s%s)", gen.QuoteDouble(f), a, gen.QuoteDouble(f+"\n"), a), map[string]any{"message": "m", "f1": 2.5})
		}
	}
	// grok expressions whose named captures need not take part in a match (optional groups, alternatives, repetitions)
	groks := []string{"(?:%{INT:code:int} )?%{WORD:w}", "%{WORD:verb} (?:%{NUMBER:bytes:int}|-)", "%{WORD:a}(?: %{WORD:b})?$", "^(?:%{INT:x:float}|%{WORD:y:bool})$", "(%{INT:n:int})*%{WORD:w}", "%{WORD:a}(?: (?:%{INT:deep})?)?",
		"(?P<p>a)?b", "((?P<q>x)|y)+", "%{DATA:d}(?:,%{DATA:e:str})?$", "(?:(?:%{IP:ip})|(?:%{WORD:host}))"}
	subjects := []string{"hello", "42 hello", "GET -", "GET 17", "one", "one two", "12", "word", "b", "ab", "y", "xy", "a,b", "1.2.3.4", "", " "}
	for gi, g := range groks {
		for si, sb := range subjects {
			if (gi+si)%evid.NShards() != evid.Shard() {
				continue
			}
			run(fmt.Sprintf("grok-optional/%d/%d", gi, si), fmt.Sprintf("ok = grok(_, %s)\ngrok(t1, %s, false)\nadd_key(ok)", gen.QuoteDouble(g), gen.QuoteDouble(g)), map[string]any{"message": sb})
		}
	}
	evid.Exhaustive("xpath x document; zone x time text; format x arguments; grok with optional captures x subject", n)
}

func TestFixedHostile(t *testing.T) {
	progs := []string{
		"a = [1,2,3]\nb = a[2:1]", "inf2 = 1.0e308 * 10.0\nadd_key(k, [1, inf2])\nn = len(k)", "add_key(k, {\"a\": nan})\nx = k[0:1]", "l = [1,2,3]\nx = l[3]", "l = [1,2,3]\nl[3] = 1", "l = [1,2,3]\nx = l[-4]", "l = []\nx = l[0]", "l = [[1]]\nl[0][1] += 1", "m = {\"k\": [1]}\nx = m[\"k\"][1]", "x = \"abc\"[1:3:9223372036854775807]", ".[0]", "a = .[0] + 1", ".[0] = 1", "a.b", "a = a.b", "l = [1]\nx = l[-9223372036854775807 - 1]",
		"rename(message, a)\nn = len(message)", "rename(a, message)\nuppercase(a)", "a = 9223372036854775807 + 1\nb = (-9223372036854775807 - 1) / (0 - 1)\nc = (-9223372036854775807 - 1) % (0 - 1)",
		"x = [1,2][::-9223372036854775807 - 1]", "x = \"abc\"[-9223372036854775807 - 1:9223372036854775807:9223372036854775807]",
		"for x in message { add_key(message, x) }", "m = {}\nm[\"a\"] = m\nadd_key(k, m)\nb = m == m", "a = [1]\na[0] = a\nstrfmt(k, \"%v\", a)", "m = {}\nm[\"a\"] = m\nprintf(\"%v\", m)", "l = [1]\nl[0] = l\nprobe(\"l\", l)\nn = len(l)",
		"cast(message, \"int\")\ncast(message, \"bool\")\ncast(message, \"float\")\nuppercase(message)", "set_tag(message)\nset_tag(message, \"x\")\nadd_key(message, 1.5)\ntrim(message)",
		"strfmt(a, \"%d %s %v %[9]d %!\", 1.5, nil, [1])", "default_time(f1, \"+8\")\ndefault_time(message)", "datetime(f1, \"ms\", \"RFC3339\")\ndatetime(message, \"s\", \"ANSIC\")",
		"grok(_, \"%{INT:f1:int} %{WORD:t1}\")\ngrok(f1, \"%{NUMBER:message:float}\", false)", "xml(message, \"//b/@id\", a.b)\nxml(f1, \"(\", x)", "a = -true\nb = +false\nadd_key(a)\nadd_key(b)",
		"if len() {\n}", "if true {\n} elif load_json() {\n}", "if trim() { }", "if false { } elif len(load_json()) > 0 { }\nx = 1", "for ; len(); { }", "for x in trim() { }",
		"datetime(f1, \"S\", \"RFC3339\")", "datetime(f1, \"MS\", \"ANSIC\")", "datetime(message, \"Ms\", \"RFC3339\")\ndatetime(a, \"mS\", \"RFC822\")", "datetime(f1, \"\", \"\")",
		"inf2 = 1.0e308 * 10.0\nadd_key(k, inf2 - inf2)\ncast(k, \"int\")\ncast(k, \"str\")\ncast(k, \"bool\")", "cast(message, \"int\")\ncast(f1, \"int\")\ncast(a, \"int\")", "nn = nan\nadd_key(k, nn)\ncast(k, \"int\")\nx = nn <= 1\ny = inf - inf",
		"z = 0\nfor a in [[1,2]] { for b in a { c = b / z } }", "l1 = [1]\nfor a in \"ab\" { for b in {\"k\": 1} { if true { c = l1[5] } } }", "for a in [1] { if true { for b in [2] { for c in \"x\" { d = 1 + \"s\" } } } }",
		"for ;; exit() { }\nadd_key(after, 1)", "for i = 0; i < 10; exit() { }", "for ; true; { }", "for ;; { }", "for x = 0; ; x += 1 { }", "for ;; { if false { } }", "for ;; { if true { } else { x = 1 } }",
		"for i = 0; i < 3; i = i + 1 { }\nfor ;; exit() { if false { x = 1 } }", "if true { for ;; exit() { } }\nadd_key(after, 1)",
		"xml(message, \"true()\", out)\nxml(message, \"concat('a','b')\", out)", 
		"a = [1, 2, 3]\na[-1] += 4\na[-3] *= 2\na[-2] %= 5\nm = {\"k\": [1, 2]}\nm[\"k\"][-2] -= 1\nm[\"k\"][-1] /= 1\nprobe(\"a\", a, m)", "l = [[1, 2], [3]]\nl[-1][-1] += 1\nl[-2][-2] *= 3\nl[0][-1] -= l[-1][0]",
		"a = 1\na += \"s\"", "a = nil\na -= 1", "u %= 0 - 0", "l = [0]\nl[0] /= l[0]", "set_measurement(message, true)\nset_measurement(a.b, true)\nset_measurement(1 + 1)",
	}
	points := []map[string]any{{}, {"message": "NaN", "a": math.NaN(), "f1": math.Inf(-1), "k1": "-Infinity"}, {"message": "str", "a": int64(5), "f1": 2.5}, {"message": "hello 42", "f1": int64(1600000000)}, {"message": int64(5), "f1": "2021-05-27 06:54:14.760 UTC", "a": nil}, {"message": "\xff<a><b id=\"1\"/></a>", "k1": 1.5}}
	for i, src := range progs {
		stmts, err, _ := impl.Parse("main.p", src)
		if err != nil {
			t.Fatalf("harness: fixed program %d does not parse: %v", i, err)
		}
		tree, cv := conv.Stmts(stmts)
		if cv.Err != nil {
			t.Fatalf("harness: %v", cv.Err)
		}
		for j, f := range points {
			c := sem.NewCase(tree)
			c.Fields = f
			c.Tags = map[string]string{"t1": "tv"}
			if _, dup := f["t1"]; dup {
				c.Tags = nil
			}
			c.Texts = map[string]string{"main.p": src}
			runCase(t, "fixed", c, true, fmt.Sprintf("fixed/%d/%d", i, j), "fixed")
		}
	}
}

var fuzzPoints = []map[string]any{
	{},
	{"message": "hello 42 world", "f1": int64(1600000000), "a": 1.5},
	{"message": int64(7), "k1": "<a><b id=\"1\">t</b></a>", "b": nil, "a": true},
}

func runText(t rk.Failer, slot, src string) {
	call, check := sem.V1Tables()
	s, lerr, crash := impl.Load1("main.p", src, call, check)
	if crash != nil || lerr != nil || s == nil {
		return // load-time behaviour belongs to C05/C08
	}
	stmts, err, _ := impl.Parse("main.p", src)
	if err != nil {
		return
	}
	tree, cv := conv.Stmts(stmts)
	if cv.Err != nil {
		return
	}
	for i, f := range fuzzPoints {
		c := sem.NewCase(tree)
		c.Fields = f
		c.Tags = map[string]string{"t1": "tv"}
		c.Texts = map[string]string{"main.p": src}
		runCase(t, slot, c, true, fmt.Sprintf("%s/%d", src, i), "text")
	}
}

func TestReplays(t *testing.T) {
	files, _ := filepath.Glob(filepath.Join(evid.Dir(), "replays", prop, "*.json"))
	if r := os.Getenv("VERIF_REPLAY"); r != "" {
		files = []string{r}
	}
	for _, f := range files {
		b, err := os.ReadFile(f)
		if err != nil {
			continue
		}
		var r struct {
			Case replay `json:"case"`
		}
		if json.Unmarshal(b, &r) != nil || len(r.Case.Texts) == 0 {
			continue
		}
		t.Run(filepath.Base(f), func(t *testing.T) {
			c, err := sem.FromReplay(r.Case.Replay)
			if err != nil {
				t.Skipf("replay not loadable: %v", err)
			}
			for k, h := range r.Case.Hex {
				var raw []byte
				if _, err := fmt.Sscanf(h, "%x", &raw); err == nil {
					c.Fields[k] = string(raw)
				}
			}
			runCase(t, "replay", c, true, "replay:"+c.Texts[c.Root], "replay")
		})
	}
}

// FuzzRun: native coverage-guided fuzzing of source text through the real loader (thorough tier).
func FuzzRun(f *testing.F) {
	for _, s := range []string{"a = [1,2,3][::-1]", "for x in [1,2] { add_key(k, x) }", "if a == nil { exit() }", "grok(_, \"%{INT:n}\")", "m = {\"a\": [1]}\nm[\"a\"][0] += 1",
		"a = load_json(\"[1]\")\nb = a[0:1][0]", "cast(message, \"int\")\nrename(x, message)", "strfmt(k, \"%v\", a.b)", "x = .[0]", "a, b = 1, 2"} {
		f.Add(s)
	}
	f.Fuzz(func(t *testing.T, src string) {
		if len(src) > 512 || strings.Count(src, "for") > 3 {
			return
		}
		runText(t, "fuzz", src)
	})
}

var _ = probe.Render
