package c03

import (
	"encoding/json"
	"fmt"
	"os"
	"path/filepath"
	"testing"

	"pgregory.net/rapid"
	"verifharness/bmodel"
	"verifharness/evid"
	"verifharness/gen"
	"verifharness/probe"
	"verifharness/rk"
	"verifharness/sem"
	"verifharness/sgen"
)

const prop = "C03"

func TestMain(m *testing.M) {
	evid.Init(prop, "exploration",
		"programs of nested if/elif/else, three-clause for in all 8 clause shapes (termination by a fresh counter / break under a counter test), for-in over list, string (incl. multi-byte), map and point values, break/continue at any depth, assignments and compound assignments to new, outer and shadowing names from a 4-name pool that overlaps the point's keys, conditions from every truthiness class, a probe after almost every statement and inside loops. Oracle: the reference model's ordered probe trace (values and Go types), error/no error and final point must equal the implementation's; traces of programs that iterate a map with >=2 keys are compared as multisets. Non-trivial: a loop with break/continue under a branch, an assignment inside a block to a name defined in an enclosing block, a read of a name after the block that defined it closed, or a for-in loop variable that names an outer variable; distinct by program skeleton.",
		"map iteration order is unspecified: bodies of loops over maps with >=2 keys are generated order-insensitive",
		"a compound assignment to an undefined name is accepted as no-op or error (open row)")
	code := m.Run()
	evid.Flush(code == 0)
	os.Exit(code)
}

func id(s string) *gen.Node { return gen.NIdent(s) }

// analyze finds the scoping features the non-triviality rule names.
func analyze(prog []*gen.Node) (outerAssign, readAfterClose bool) {
	type frame map[string]bool
	var stack []frame
	closed := map[string]bool{}
	defined := func(n string) int {
		for i := len(stack) - 1; i >= 0; i-- {
			if stack[i][n] {
				return i
			}
		}
		return -1
	}
	var expr func(n *gen.Node)
	expr = func(n *gen.Node) {
		gen.Walk(n, func(x *gen.Node) {
			if x.Kind == gen.Ident && defined(x.Name) < 0 && closed[x.Name] {
				readAfterClose = true
			}
		})
	}
	var stmts func(l []*gen.Node)
	block := func(l []*gen.Node) {
		stack = append(stack, frame{})
		stmts(l)
		for n := range stack[len(stack)-1] {
			closed[n] = true
		}
		stack = stack[:len(stack)-1]
	}
	assign := func(s *gen.Node) {
		for _, r := range s.Rhs {
			expr(r)
		}
		for _, l := range s.Args {
			if l.Kind == gen.Ident {
				d := defined(l.Name)
				if d >= 0 && d < len(stack)-1 {
					outerAssign = true
				}
				if d < 0 && s.Op == "=" {
					stack[len(stack)-1][l.Name] = true
				}
			} else {
				expr(l)
			}
		}
	}
	stmts = func(l []*gen.Node) {
		for _, s := range l {
			switch s.Kind {
			case gen.Assign:
				assign(s)
			case gen.If:
				for i, c := range s.Conds {
					expr(c)
					block(s.Blocks[i])
				}
				if s.HasElse {
					block(s.Else)
				}
			case gen.For:
				stack = append(stack, frame{})
				for _, c := range []*gen.Node{s.Lo, s.Hi, s.Step} {
					if c == nil {
						continue
					}
					if c.Kind == gen.Assign {
						assign(c)
					} else {
						expr(c)
					}
				}
				block(s.Body)
				for n := range stack[len(stack)-1] {
					closed[n] = true
				}
				stack = stack[:len(stack)-1]
			case gen.ForIn:
				expr(s.Y)
				stack = append(stack, frame{})
				if d := defined(s.X.Name); d >= 0 {
					outerAssign = true
				} else {
					stack[len(stack)-1][s.X.Name] = true
				}
				stmts(s.Body)
				for n := range stack[len(stack)-1] {
					closed[n] = true
				}
				stack = stack[:len(stack)-1]
			default:
				expr(s)
			}
		}
	}
	stack = []frame{{}}
	stmts(prog)
	return
}

// builtinModels: the reference models of the field builtins (only the cases that call them need it).
var builtinModels = bmodel.Field()

func judge(t rk.Failer, slot string, c *sem.Case, nontrivial bool, labels ...string) {
	c.Print(nil)
	v := sem.Decide(c, func() sem.ImplOut { return sem.RunV1(c, 0) }, builtinModels, true, true)
	if v.Discard != nil {
		evid.Discard(v.Discard.Error())
		return
	}
	if v.Msg != "" {
		rk.Fail(t, slot, c.Replay(""), "%s\nscript:\n%s", v.Msg, c.Texts[c.Root])
	}
	if v.Weak {
		labels = append(labels, "open-row")
	}
	if v.Model.Err != nil {
		labels = append(labels, "outcome/error")
	} else {
		labels = append(labels, "outcome/ok")
	}
	labels = append(labels, fmt.Sprintf("trace-len/%d", bucket(len(v.Model.Trace))))
	evid.Case(gen.Skeleton(c.Scripts[c.Root]), nontrivial, labels...)
	if nontrivial && len(v.Model.Trace) > 2 {
		tr := []string{}
		for i, r := range v.Model.Trace {
			if i >= 6 {
				tr = append(tr, "...")
				break
			}
			tr = append(tr, r.String())
		}
		evid.Sample(map[string]any{"script": c.Texts[c.Root], "reference_trace": tr})
	}
}

func bucket(n int) int {
	switch {
	case n == 0:
		return 0
	case n < 4:
		return 1
	case n < 16:
		return 4
	case n < 64:
		return 16
	}
	return 64
}

// mapLoop: a loop over a map with >= 2 keys whose body is order-insensitive.
func mapLoop(g *sgen.G, d int) *gen.Node {
	g.Feat["for-in-map-multikey"] = true
	m := gen.NMap(gen.NStr("k"), gen.NInt(2), gen.NStr("é"), gen.NInt(5), gen.NStr("z"), gen.NInt(-1))
	switch rapid.IntRange(0, 3).Draw(g.T, "mapnest") {
	case 0:
		// a map loop inside a map loop: every outer pass sees its own key in every inner pass
		g.Feat["for-in-map-nested"] = true
		m2 := gen.NMap(gen.NStr("yy"), gen.NInt(1), gen.NStr("xx"), gen.NInt(2))
		return gen.NForIn("mk", m, []*gen.Node{gen.NCall("probe", gen.NStr("outer"), id("mk")),
			gen.NForIn("mk2", m2, []*gen.Node{gen.NCall("probe", gen.NStr("inner"), id("mk"), id("mk2"))}), gen.NCall("probe", gen.NStr("outer-after-inner"), id("mk"))})
	case 1:
		// both loops over the same map value, the inner one under a list loop
		g.Feat["for-in-map-nested"] = true
		return gen.NIf([]*gen.Node{gen.NBool(true)}, [][]*gen.Node{{gen.NSet("mm", m), gen.NForIn("mk", id("mm"), []*gen.Node{
			gen.NForIn("li", gen.NList(gen.NInt(1), gen.NInt(2)), []*gen.Node{gen.NForIn("mk2", id("mm"), []*gen.Node{gen.NCall("probe", gen.NStr("pair"), id("mk"), id("li"), id("mk2"))})}),
			gen.NCall("probe", gen.NStr("outer-end"), id("mk"))})}}, nil, false)
	}
	return gen.NForIn("mk", m, []*gen.Node{gen.NCall("probe", gen.NStr("mapkey"), id("mk"))})
}

// pointLoop: for-in over a point value (string field / tag).
func pointLoop(g *sgen.G, d int) *gen.Node {
	g.Feat["for-in-point-value"] = true
	key := []string{"message", "t1", "k1"}[rapid.IntRange(0, 2).Draw(g.T, "pkey")]
	return gen.NForIn("pc", id(key), []*gen.Node{gen.NCall("probe", gen.NStr("pchar"), id("pc")), gen.NSet("last", id("pc"))})
}

func genCase(t *rapid.T) (*sem.Case, *sgen.G) {
	g := sgen.New(t)
	g.Probes = true
	g.Loops = true
	g.EmptyBlocks = true
	g.Exit = rapid.IntRange(0, 4).Draw(t, "exit") == 0
	g.AddKey = rapid.Bool().Draw(t, "addkey")
	g.Hostile = rapid.SampledFrom([]int{0, 0, 8}).Draw(t, "hostile")
	g.MaxDepth = 2
	g.Calls = []func(*sgen.G, int) *gen.Node{mapLoop, pointLoop}
	fields := map[string]any{"message": rapid.SampledFrom([]any{"héllo", "ab", ""}).Draw(t, "msg")}
	if rapid.Bool().Draw(t, "hask1") {
		v := rapid.SampledFrom([]any{int64(3), int64(0), 2.5, "s", "", true, false, nil}).Draw(t, "k1v")
		fields["k1"] = v
		g.PointKeys = map[string]bool{"k1": true}
		switch v.(type) {
		case int64:
			g.Env["k1"] = sgen.TInt
		case float64:
			g.Env["k1"] = sgen.TFloat
		case string:
			g.Env["k1"] = sgen.TStr
		case bool:
			g.Env["k1"] = sgen.TBool
		}
	}
	prog := g.Program(rapid.IntRange(2, 7).Draw(t, "size"), rapid.IntRange(1, 3).Draw(t, "nest"))
	c := sem.NewCase(prog)
	c.Fields = fields
	c.Tags = map[string]string{"t1": "tv"}
	return c, g
}

func TestRandomPrograms(t *testing.T) {
	rk.Check(t, "random", 1, evid.Scale(10000, 40000), func(t *rapid.T) {
		c, g := genCase(t)
		oa, rac := analyze(c.Scripts[c.Root])
		nt := oa || rac || g.Feat["break/continue-under-branch"] || g.Feat["for-in-var-from-pool"]
		var labels []string
		for f := range g.Feat {
			labels = append(labels, "feat/"+f)
		}
		if oa {
			labels = append(labels, "scope/assign-to-outer-name")
		}
		if rac {
			labels = append(labels, "scope/read-after-block-closed")
		}
		judge(t, "random", c, nt, labels...)
	})
}

// TestTruthinessTable: every truthiness class as if / elif / for condition.
func TestTruthinessTable(t *testing.T) {
	vals := sgen.OperandValues()
	n := 0
	for _, v := range vals {
		for form := 0; form < 4; form++ {
			var prog []*gen.Node
			cond := func() *gen.Node { return gen.NParen(sgen.Lit(v)) }
			switch form {
			case 0:
				prog = []*gen.Node{gen.NIf([]*gen.Node{cond()}, [][]*gen.Node{{gen.NCall("probe", gen.NStr("then"))}}, []*gen.Node{gen.NCall("probe", gen.NStr("else"))}, true)}
			case 1:
				prog = []*gen.Node{gen.NSet("x", sgen.Lit(v)), gen.NIf([]*gen.Node{gen.NBool(false), id("x"), gen.NBool(true)},
					[][]*gen.Node{{gen.NCall("probe", gen.NStr("b0"))}, {gen.NCall("probe", gen.NStr("b1"))}, {gen.NCall("probe", gen.NStr("b2"))}}, []*gen.Node{gen.NCall("probe", gen.NStr("else"))}, true)}
			case 2:
				prog = []*gen.Node{gen.NSet("x", sgen.Lit(v)), gen.NSet("n", gen.NInt(0)),
					gen.NFor(nil, id("x"), nil, []*gen.Node{gen.NCall("probe", gen.NStr("body"), id("n")), gen.NSet("n", gen.NBin("+", id("n"), gen.NInt(1))),
						gen.NIf([]*gen.Node{gen.NBin(">=", id("n"), gen.NInt(2))}, [][]*gen.Node{{gen.NBreak()}}, nil, false)}),
					gen.NCall("probe", gen.NStr("after"), id("n"))}
			default:
				if !sgen.IsScalar(v) {
					continue
				}
				prog = []*gen.Node{gen.NIf([]*gen.Node{id("pk")}, [][]*gen.Node{{gen.NCall("probe", gen.NStr("then"))}}, []*gen.Node{gen.NCall("probe", gen.NStr("else"))}, true)}
			}
			c := sem.NewCase(gen.FixAll(prog))
			if form == 3 {
				c.Fields = map[string]any{"pk": v}
			}
			judge(t, "truthiness", c, true, "truthiness-table")
			n++
		}
	}
	evid.Exhaustive("truthiness classes x {if, elif, for condition, point key}", n)
}

// TestLoopScopeTable: every loop kind x escape kind x escape moment: a body-local name is probed before it is assigned in
// each pass (it must be nil / the point's key in every pass), assigned, and the pass ends normally, by continue or by break.
func TestLoopScopeTable(t *testing.T) {
	type loopKind struct {
		name string
		mk   func(body []*gen.Node) []*gen.Node
		cnt  *gen.Node // expression giving the current pass number (1-based) inside the body
	}
	inc := func(n string) *gen.Node { return gen.NSet(n, gen.NBin("+", id(n), gen.NInt(1))) }
	pass := id("pass")
	withPass := func(body []*gen.Node) []*gen.Node { return append([]*gen.Node{inc("pass")}, body...) }
	kinds := []loopKind{
		{"for-in-list", func(b []*gen.Node) []*gen.Node {
			return []*gen.Node{gen.NForIn("e", gen.NList(gen.NInt(10), gen.NInt(20), gen.NInt(30)), withPass(b))}
		}, pass},
		{"for-in-string", func(b []*gen.Node) []*gen.Node { return []*gen.Node{gen.NForIn("e", gen.NStr("aé!"), withPass(b))} }, pass},
		{"for-in-point-string", func(b []*gen.Node) []*gen.Node { return []*gen.Node{gen.NForIn("e", id("message"), withPass(b))} }, pass},
		{"for-in-map1", func(b []*gen.Node) []*gen.Node {
			return []*gen.Node{gen.NForIn("e", gen.NMap(gen.NStr("k"), gen.NInt(1)), withPass(b))}
		}, pass},
		{"for-in-list-var", func(b []*gen.Node) []*gen.Node {
			return []*gen.Node{gen.NSet("lv", gen.NList(gen.NInt(1), gen.NInt(2), gen.NInt(3))), gen.NForIn("e", id("lv"), withPass(b))}
		}, pass},
	}
	for shape := 0; shape < 8; shape++ {
		shape := shape
		kinds = append(kinds, loopKind{fmt.Sprintf("for-shape-%d", shape), func(b []*gen.Node) []*gen.Node {
			var pre []*gen.Node
			var init, cond, loop *gen.Node
			body := []*gen.Node{}
			if shape&1 != 0 {
				init = gen.NSet("i", gen.NInt(0))
			} else {
				pre = append(pre, gen.NSet("i", gen.NInt(0)))
			}
			if shape&4 != 0 {
				loop = inc("i")
			} else {
				body = append(body, inc("i"))
			}
			if shape&2 != 0 {
				cond = gen.NBin("<", id("i"), gen.NInt(3))
			} else if shape&4 != 0 {
				body = append(body, gen.NIf([]*gen.Node{gen.NBin(">=", id("i"), gen.NInt(3))}, [][]*gen.Node{{gen.NBreak()}}, nil, false))
			} else {
				body = append(body, gen.NIf([]*gen.Node{gen.NBin(">", id("i"), gen.NInt(3))}, [][]*gen.Node{{gen.NBreak()}}, nil, false))
			}
			body = append(body, withPass(b)...)
			return append(pre, gen.NFor(init, cond, loop, body))
		}, pass})
	}
	n := 0
	for _, k := range kinds {
		for _, esc := range []string{"none", "continue", "break"} {
			for when := 1; when <= 3; when++ {
				for _, nested := range []bool{false, true} {
					var escStmt *gen.Node
					switch esc {
					case "continue":
						escStmt = gen.NContinue()
					case "break":
						escStmt = gen.NBreak()
					}
					body := []*gen.Node{
						gen.NCall("probe", gen.NStr("pre"), id("e"), id("loc"), id("k1")),
						gen.NSet("loc", gen.NBin("*", k.cnt.Clone(), gen.NInt(100))),
						gen.NSet("k1", gen.NStr("shadow")),
					}
					if escStmt != nil {
						cond := gen.NBin("==", k.cnt.Clone(), gen.NInt(int64(when)))
						if nested {
							body = append(body, gen.NIf([]*gen.Node{gen.NBool(true)}, [][]*gen.Node{{gen.NIf([]*gen.Node{cond}, [][]*gen.Node{{escStmt}}, nil, false)}}, nil, false))
						} else {
							body = append(body, gen.NIf([]*gen.Node{cond}, [][]*gen.Node{{escStmt}}, nil, false))
						}
					} else if when > 1 || nested {
						continue
					}
					body = append(body, gen.NCall("probe", gen.NStr("post"), id("e"), id("loc"), id("k1")))
					prog := append([]*gen.Node{gen.NSet("pass", gen.NInt(0))}, k.mk(body)...)
					prog = append(prog, gen.NCall("probe", gen.NStr("after"), id("e"), id("loc"), id("k1"), id("i"), id("pass")))
					// the same loop nested inside an outer loop: break/continue must stay in the inner one
					outer := []*gen.Node{gen.NForIn("o", gen.NList(gen.NInt(1), gen.NInt(2)), append(gen.CloneProg(prog), gen.NCall("probe", gen.NStr("outer"), id("o"))))}
					for vi, p := range [][]*gen.Node{prog, outer} {
						c := sem.NewCase(gen.FixAll(gen.CloneProg(p)))
						c.Fields = map[string]any{"message": "xyz", "k1": "from point"}
						judge(t, "loopscope", c, true, "loop-scope-table/"+k.name, "escape/"+esc)
						_ = vi
						n++
					}
				}
			}
		}
	}
	evid.Exhaustive("loop kind x escape x moment x nesting", n)
}

// TestCompoundOnPointKey: a compound assignment to a name that has no variable but names a key of the point
// reads the key's value and leaves the result in a variable of the current block; the point keeps its value.
func TestCompoundOnPointKey(t *testing.T) {
	type pv struct {
		v  any
		rs []*gen.Node
	}
	vals := []pv{
		{int64(3), []*gen.Node{gen.NInt(4), gen.NFloat(0.5)}},
		{int64(0), []*gen.Node{gen.NInt(2)}},
		{2.5, []*gen.Node{gen.NInt(2), gen.NFloat(1.5)}},
		{"s", []*gen.Node{gen.NStr("x")}},
		{"", []*gen.Node{gen.NStr("abc")}},
	}
	n := 0
	for _, val := range vals {
		for _, r := range val.rs {
			for _, op := range []string{"+=", "-=", "*=", "/=", "%="} {
				if _, isStr := val.v.(string); isStr && op != "+=" {
					continue
				}
				if _, isF := val.v.(float64); (isF || r.Kind == gen.Float) && op == "%=" {
					continue
				}
				for ctx := 0; ctx < 5; ctx++ {
					stmt := func() []*gen.Node {
						return []*gen.Node{gen.NCall("probe", gen.NStr("before"), id("k1")), gen.NAssign(op, []*gen.Node{id("k1")}, []*gen.Node{r.Clone()}), gen.NCall("probe", gen.NStr("in"), id("k1"))}
					}
					var prog []*gen.Node
					switch ctx {
					case 0:
						prog = stmt()
					case 1:
						prog = []*gen.Node{gen.NIf([]*gen.Node{gen.NBool(true)}, [][]*gen.Node{stmt()}, nil, false)}
					case 2:
						prog = []*gen.Node{gen.NForIn("e", gen.NList(gen.NInt(1), gen.NInt(2)), stmt())}
					case 3:
						prog = []*gen.Node{gen.NFor(gen.NSet("i", gen.NInt(0)), gen.NBin("<", id("i"), gen.NInt(2)), gen.NSet("i", gen.NBin("+", id("i"), gen.NInt(1))), stmt())}
					default:
						prog = append(stmt(), stmt()...)
					}
					prog = append(prog, gen.NCall("probe", gen.NStr("after"), id("k1")), gen.NCall("add_key", id("k2"), id("k1")))
					c := sem.NewCase(gen.FixAll(prog))
					c.Fields = map[string]any{"message": "m", "k1": val.v}
					judge(t, "compound-on-key", c, true, "compound-on-point-key")
					n++
				}
			}
		}
	}
	evid.Exhaustive("compound assignment on a point key: value types x operators x {top level, if, for-in, for, twice}", n)
}

// TestDeepAndLongRuns: blocks nested up to 40 deep with an assignment and a read at every level, loops of up to
// 70000 passes (a counter, an accumulator, a break in the last pass, a body-local name), loops nested 6 deep.
func TestDeepAndLongRuns(t *testing.T) {
	n := 0
	inc := func(v string) *gen.Node { return gen.NSet(v, gen.NBin("+", id(v), gen.NInt(1))) }
	for _, d := range []int{2, 8, 15, 16, 17, 31, 32, 33, 40} {
		// level i assigns o<i> (new at that level), updates top (outer), reads everything above
		body := []*gen.Node{gen.NCall("probe", gen.NStr("innermost"), id("top"), id("o0"), id(fmt.Sprintf("o%d", d-1)))}
		for i := d - 1; i >= 0; i-- {
			lvl := []*gen.Node{gen.NSet(fmt.Sprintf("o%d", i), gen.NInt(int64(i))), inc("top")}
			var blk *gen.Node
			switch i % 3 {
			case 0:
				blk = gen.NIf([]*gen.Node{gen.NBool(true)}, [][]*gen.Node{body}, nil, false)
			case 1:
				blk = gen.NForIn("e", gen.NList(gen.NInt(1)), body)
			default:
				blk = gen.NFor(gen.NSet(fmt.Sprintf("c%d", i), gen.NInt(0)), gen.NBin("<", id(fmt.Sprintf("c%d", i)), gen.NInt(1)), inc(fmt.Sprintf("c%d", i)), body)
			}
			lvl = append(lvl, blk, gen.NCall("probe", gen.NStr(fmt.Sprintf("after-level-%d", i)), id("top"), id(fmt.Sprintf("o%d", i)), id(fmt.Sprintf("o%d", minInt(i+1, d-1)))))
			body = lvl
		}
		c := sem.NewCase(gen.FixAll(append([]*gen.Node{gen.NSet("top", gen.NInt(0))}, body...)))
		judge(t, "deep", c, true, "deep-blocks")
		n++
	}
	for _, passes := range []int64{255, 256, 257, 4095, 4096, 4097, 8193, 70000} {
		for form := 0; form < 4; form++ {
			var prog []*gen.Node
			last := gen.NInt(passes - 1)
			body := []*gen.Node{gen.NSet("acc", gen.NBin("+", id("acc"), id("i"))), gen.NIf([]*gen.Node{gen.NBin("==", id("loc"), gen.NNil())}, [][]*gen.Node{{inc("fresh")}}, nil, false), gen.NSet("loc", id("i")),
				gen.NIf([]*gen.Node{gen.NBin("==", gen.NBin("%", id("i"), gen.NInt(1000)), gen.NInt(999))}, [][]*gen.Node{{gen.NCall("probe", gen.NStr("mark"), id("i"), id("acc"))}}, nil, false)}
			switch form {
			case 0:
				prog = []*gen.Node{gen.NFor(gen.NSet("i", gen.NInt(0)), gen.NBin("<", id("i"), gen.NInt(passes)), inc("i"), body)}
			case 1:
				prog = []*gen.Node{gen.NSet("i", gen.NInt(-1)), gen.NFor(nil, nil, nil, append([]*gen.Node{inc("i")}, append(body, gen.NIf([]*gen.Node{gen.NBin(">=", id("i"), last)}, [][]*gen.Node{{gen.NBreak()}}, nil, false))...))}
			case 2:
				prog = []*gen.Node{gen.NSet("i", gen.NInt(-1)), gen.NFor(nil, gen.NBin("<", id("i"), last), nil, append([]*gen.Node{inc("i"), gen.NIf([]*gen.Node{gen.NBin("==", gen.NBin("%", id("i"), gen.NInt(2)), gen.NInt(1))}, [][]*gen.Node{{gen.NContinue()}}, nil, false)}, body...))}
			default:
				if passes > 9000 {
					continue
				}
				// for-in over a string of that many characters
				prog = []*gen.Node{gen.NSet("i", gen.NInt(-1)), gen.NSet("s", gen.NStr("ab")), gen.NFor(nil, gen.NBin("<", gen.NCall("len", id("s")), gen.NInt(passes)), nil, []*gen.Node{gen.NSet("s", gen.NBin("+", id("s"), id("s")))}),
					gen.NForIn("ch", gen.NSlice(id("s"), nil, gen.NInt(passes), nil, false), append([]*gen.Node{inc("i")}, body...))}
			}
			prog = append([]*gen.Node{gen.NSet("acc", gen.NInt(0)), gen.NSet("fresh", gen.NInt(0))}, prog...)
			prog = append(prog, gen.NCall("probe", gen.NStr("end"), id("i"), id("acc"), id("fresh"), id("loc")))
			c := sem.NewCase(gen.FixAll(prog))
			c.Fuel = 3_000_000
			judge(t, "long", c, true, "long-loops")
			n++
		}
	}
	// more than a million passes of one loop (a short body: the count is what matters), v1; C18 runs the same on v2
	for _, passes := range []int64{1048575, 1048577, 1300000} {
		for form := 0; form < 2; form++ {
			var prog []*gen.Node
			if form == 0 {
				prog = []*gen.Node{gen.NSet("acc", gen.NInt(0)), gen.NFor(gen.NSet("i", gen.NInt(0)), gen.NBin("<", id("i"), gen.NInt(passes)), inc("i"), []*gen.Node{inc("acc")}), gen.NCall("probe", gen.NStr("end"), id("acc"))}
			} else {
				prog = []*gen.Node{gen.NSet("acc", gen.NInt(0)), gen.NFor(nil, nil, nil, []*gen.Node{inc("acc"), gen.NIf([]*gen.Node{gen.NBin(">=", id("acc"), gen.NInt(passes))}, [][]*gen.Node{{gen.NBreak()}}, nil, false)}), gen.NCall("probe", gen.NStr("end"), id("acc"))}
			}
			c := sem.NewCase(gen.FixAll(prog))
			c.Fuel = 12_000_000
			c.NoHistory = true
			judge(t, "long", c, true, "million-pass-loops")
			n++
		}
	}
	evid.Exhaustive("blocks nested 2..40 deep; loops of 255..70000 passes in 4 forms; loops of more than 2^20 passes", n)
}

func minInt(a, b int) int {
	if a < b {
		return a
	}
	return b
}

// TestLoopClauseScope: the loop clause of a three-clause for runs in the scope of the for statement, not in the
// body's: a name it creates lives until the loop ends (later passes and later clause runs see it), a name the
// body created is gone when the clause runs, a name that only exists as a point key is read from the point once.
func TestLoopClauseScope(t *testing.T) {
	inc := func(v string) *gen.Node { return gen.NSet(v, gen.NBin("+", id(v), gen.NInt(1))) }
	pr := func(l string, vs ...string) *gen.Node {
		a := []*gen.Node{gen.NStr(l)}
		for _, v := range vs {
			a = append(a, id(v))
		}
		return gen.NCall("probe", a...)
	}
	type tc struct {
		name   string
		fields map[string]any
		prog   []*gen.Node
	}
	cases := []tc{
		{"clause-creates-name", nil, []*gen.Node{gen.NFor(gen.NSet("i", gen.NInt(0)), gen.NBin("<", id("i"), gen.NInt(4)), gen.NSet("n", gen.NBin("*", id("i"), gen.NInt(10))), []*gen.Node{pr("body", "i", "n"), inc("i")}), pr("after", "i", "n")}},
		{"clause-accumulates-new-name", nil, []*gen.Node{gen.NFor(gen.NSet("i", gen.NInt(0)), gen.NBin("<", id("i"), gen.NInt(4)), gen.NSet("acc", gen.NBin("+", gen.NCall("len", id("acc")), id("i"))), []*gen.Node{pr("body", "i", "acc"), inc("i")}), pr("after", "acc")}},
		{"clause-updates-point-key", map[string]any{"total": int64(100)}, []*gen.Node{gen.NFor(gen.NSet("i", gen.NInt(0)), gen.NBin("<", id("i"), gen.NInt(4)), gen.NSet("total", gen.NBin("+", id("total"), id("i"))), []*gen.Node{pr("body", "i", "total"), inc("i")}), pr("after", "total"), gen.NCall("add_key", id("seen"), id("total"))}},
		{"clause-compound-on-point-key", map[string]any{"total": int64(100)}, []*gen.Node{gen.NFor(gen.NSet("i", gen.NInt(0)), gen.NBin("<", id("i"), gen.NInt(4)), gen.NAssign("+=", []*gen.Node{id("total")}, []*gen.Node{id("i")}), []*gen.Node{pr("body", "i", "total"), inc("i")}), pr("after", "total")}},
		{"clause-reads-body-local", nil, []*gen.Node{gen.NFor(gen.NSet("i", gen.NInt(0)), gen.NBin("<", id("i"), gen.NInt(6)), gen.NSet("i", gen.NBin("+", gen.NBin("+", id("i"), gen.NInt(1)), gen.NCall("len", id("tmp")))), []*gen.Node{gen.NSet("tmp", gen.NStr("xx")), pr("body", "i", "tmp")}), pr("after", "i")}},
		{"clause-reads-body-local-shadowing-key", map[string]any{"tmp": "k"}, []*gen.Node{gen.NFor(gen.NSet("i", gen.NInt(0)), gen.NBin("<", id("i"), gen.NInt(6)), gen.NSet("i", gen.NBin("+", gen.NBin("+", id("i"), gen.NInt(1)), gen.NCall("len", id("tmp")))), []*gen.Node{pr("before", "i", "tmp"), gen.NSet("tmp", gen.NStr("xxx")), pr("body", "i", "tmp")}), pr("after", "i", "tmp")}},
		{"cond-reads-clause-name", nil, []*gen.Node{gen.NSet("i", gen.NInt(0)), gen.NFor(nil, gen.NBin("!=", id("stop"), gen.NBool(true)), gen.NSet("stop", gen.NBin(">=", id("i"), gen.NInt(3))), []*gen.Node{inc("i"), pr("body", "i", "stop")}), pr("after", "i", "stop")}},
		{"init-name-visible-in-clause-and-body", nil, []*gen.Node{gen.NFor(gen.NSet("j", gen.NInt(5)), gen.NBin(">", id("j"), gen.NInt(2)), gen.NSet("j", gen.NBin("-", id("j"), gen.NInt(1))), []*gen.Node{pr("body", "j"), gen.NSet("j2", id("j"))}), pr("after", "j", "j2")}},
		{"nested-inner-clause-creates-name", nil, []*gen.Node{gen.NForIn("o", gen.NList(gen.NInt(1), gen.NInt(2)), []*gen.Node{gen.NFor(gen.NSet("i", gen.NInt(0)), gen.NBin("<", id("i"), gen.NInt(2)), gen.NSet("m", gen.NBin("+", id("o"), id("i"))), []*gen.Node{pr("inner", "o", "i", "m"), inc("i")}), pr("outer", "o", "m")})}},
		{"clause-with-continue-in-body", nil, []*gen.Node{gen.NFor(gen.NSet("i", gen.NInt(0)), gen.NBin("<", id("i"), gen.NInt(4)), gen.NSet("c", gen.NBin("+", gen.NCall("len", id("c")), gen.NInt(1))), []*gen.Node{inc("i"), gen.NIf([]*gen.Node{gen.NBin("==", id("i"), gen.NInt(2))}, [][]*gen.Node{{gen.NContinue()}}, nil, false), pr("body", "i", "c")}), pr("after", "c")}},
	}
	for _, c := range cases {
		cs := sem.NewCase(gen.FixAll(c.prog))
		cs.Fields = c.fields
		judge(t, "clause-scope", cs, true, "loop-clause-scope/"+c.name)
	}
	evid.Exhaustive("loop clause scope cases", len(cases))
}

// TestPointKeyAfterBuiltinWrite: a name that has no variable is read from the point every time - also right after a
// builtin rewrote that key (with an argument that mentions the key itself), without any call in between.
func TestPointKeyAfterBuiltinWrite(t *testing.T) {
	writes := []func() *gen.Node{
		func() *gen.Node { return gen.NCall("add_key", id("k"), gen.NBin("+", id("k"), gen.NInt(1))) },
		func() *gen.Node { return gen.NCall("add_key", id("k"), gen.NCall("len", id("k"))) },
		func() *gen.Node { return gen.NCall("add_key", id("k"), gen.NList(id("k"), id("k"))) },
		func() *gen.Node { return gen.NCall("cast", id("k"), gen.NStr("str")) },
		func() *gen.Node { return gen.NCall("strfmt", id("k"), gen.NStr("%v.local"), id("k")) },
		func() *gen.Node { return gen.NCall("rename", id("k"), id("k2")) },
		func() *gen.Node { return gen.NCall("drop_key", id("k")) },
		func() *gen.Node { return gen.NCall("set_tag", id("k"), gen.NStr("tv")) },
	}
	reads := []func() []*gen.Node{
		func() []*gen.Node {
			return []*gen.Node{gen.NSet("x", id("k")), gen.NCall("probe", gen.NStr("x"), id("x"))}
		},
		func() []*gen.Node {
			return []*gen.Node{gen.NIf([]*gen.Node{gen.NBin("==", id("k"), gen.NInt(2))}, [][]*gen.Node{{gen.NSet("hit", gen.NBool(true))}}, []*gen.Node{gen.NSet("hit", gen.NBool(false))}, true), gen.NCall("probe", gen.NStr("hit"), id("hit"))}
		},
		func() []*gen.Node {
			return []*gen.Node{gen.NSet("x", gen.NList(id("k"), id("k2"))), gen.NCall("probe", gen.NStr("pair"), id("x"))}
		},
		func() []*gen.Node {
			return []*gen.Node{gen.NAssign("+=", []*gen.Node{id("acc")}, []*gen.Node{id("k")}), gen.NCall("probe", gen.NStr("acc"), id("acc"))}
		},
	}
	n := 0
	for wi, w := range writes {
		for ri, r := range reads {
			for _, kv := range []any{int64(1), "s", 2.5, nil} {
				for ctx := 0; ctx < 3; ctx++ {
					body := append([]*gen.Node{gen.NSet("before", id("k")), w()}, r()...)
					var prog []*gen.Node
					switch ctx {
					case 0:
						prog = append([]*gen.Node{gen.NSet("acc", gen.NInt(0))}, body...)
					case 1:
						prog = []*gen.Node{gen.NSet("acc", gen.NInt(0)), gen.NForIn("e", gen.NList(gen.NInt(1), gen.NInt(2)), body)}
					default:
						// the key drives a loop condition
						prog = []*gen.Node{gen.NSet("acc", gen.NInt(0)), gen.NSet("n", gen.NInt(0)), gen.NFor(nil, gen.NBin("<", id("n"), gen.NInt(3)), nil, append(body, gen.NSet("n", gen.NBin("+", id("n"), gen.NInt(1)))))}
					}
					c := sem.NewCase(gen.FixAll(prog))
					c.Fields = map[string]any{"k": kv, "k2": "second"}
					judge(t, "key-after-write", c, true, "point-key-after-builtin-write")
					n++
				}
			}
			_ = wi
			_ = ri
		}
	}
	// the loop of the report: the condition reads the key the body rewrites
	c := sem.NewCase(gen.FixAll([]*gen.Node{gen.NFor(nil, gen.NBin("<", id("k"), gen.NInt(5)), nil, []*gen.Node{gen.NCall("add_key", id("k"), gen.NBin("+", id("k"), gen.NInt(1)))}), gen.NSet("x", id("k")), gen.NCall("probe", gen.NStr("end"), id("x"))}))
	c.Fields = map[string]any{"k": int64(1)}
	judge(t, "key-after-write", c, true, "point-key-after-builtin-write")
	evid.Exhaustive("builtin write x bare read x key value x context", n+1)
}

// TestMessageAlias: the name `_` and the name `message` are one name - as a variable (created by =, op=, a for-in
// loop variable, a loop clause) and as a key of the point; whichever spelling wrote, both spellings read it.
func TestMessageAlias(t *testing.T) {
	writes := []struct {
		name string
		mk   func(w string) []*gen.Node
	}{
		{"assign", func(w string) []*gen.Node { return []*gen.Node{gen.NSet(w, gen.NStr("var"))} }},
		{"compound", func(w string) []*gen.Node {
			return []*gen.Node{gen.NAssign("+=", []*gen.Node{id(w)}, []*gen.Node{gen.NStr("-a")}), gen.NAssign("+=", []*gen.Node{id(w)}, []*gen.Node{gen.NStr("-b")})}
		}},
		{"for-in-variable", func(w string) []*gen.Node {
			return []*gen.Node{gen.NSet("s", gen.NStr("")), gen.NForIn(w, gen.NList(gen.NStr("a"), gen.NStr("b"), gen.NStr("c")), []*gen.Node{gen.NSet("s", gen.NBin("+", id("s"), id("_"))), gen.NCall("probe", gen.NStr("in-loop"), id("_"), id("message"))}), gen.NCall("probe", gen.NStr("s"), id("s"))}
		}},
		{"in-block", func(w string) []*gen.Node {
			return []*gen.Node{gen.NIf([]*gen.Node{gen.NBool(true)}, [][]*gen.Node{{gen.NSet(w, gen.NInt(5)), gen.NCall("probe", gen.NStr("inside"), id("_"), id("message"))}}, nil, false)}
		}},
		{"loop-clause", func(w string) []*gen.Node {
			return []*gen.Node{gen.NFor(gen.NSet("i", gen.NInt(0)), gen.NBin("<", id("i"), gen.NInt(2)), gen.NSet(w, id("i")), []*gen.Node{gen.NSet("i", gen.NBin("+", id("i"), gen.NInt(1))), gen.NCall("probe", gen.NStr("pass"), id("_"), id("message"))})}
		}},
		{"add_key", func(w string) []*gen.Node { return []*gen.Node{gen.NCall("add_key", id(w), gen.NStr("from add_key"))} }},
	}
	n := 0
	for _, w := range writes {
		for _, spelling := range []string{"_", "message"} {
			for _, msg := range []any{"raw", nil, int64(7), "absent"} {
				prog := append([]*gen.Node{gen.NCall("probe", gen.NStr("before"), id("_"), id("message"))}, w.mk(spelling)...)
				prog = append(prog, gen.NCall("probe", gen.NStr("after"), id("_"), id("message")),
					gen.NIf([]*gen.Node{gen.NBin("==", id("_"), id("message"))}, [][]*gen.Node{{gen.NCall("probe", gen.NStr("same"))}}, []*gen.Node{gen.NCall("probe", gen.NStr("different"))}, true),
					gen.NSet("copy", id("_")), gen.NCall("add_key", id("seen"), id("copy")))
				c := sem.NewCase(gen.FixAll(prog))
				c.Fields = map[string]any{"other": "o"}
				if msg != "absent" {
					c.Fields["message"] = msg
				}
				judge(t, "alias", c, true, "message-alias/"+w.name)
				n++
			}
		}
	}
	evid.Exhaustive("write form x spelling x message value: reads through both spellings", n)
}

// TestForInPassScope: what a pass of a for-in leaves behind - one name, two names, a name made in a nested block - is
// gone when the next pass begins, also when the loop variable is not new: it existed in an enclosing block (an outer
// variable, the variable of an enclosing loop), so that the loop's own scope holds nothing but the body's names.
func TestForInPassScope(t *testing.T) {
	iters := []func() *gen.Node{
		func() *gen.Node { return gen.NList(gen.NInt(1), gen.NInt(2), gen.NInt(3)) },
		func() *gen.Node { return gen.NStr("abc") },
		func() *gen.Node { return gen.NMap(gen.NStr("only"), gen.NInt(1)) }, // a single key: a second loop round comes from the enclosing loop
	}
	bodies := []struct {
		name string
		b    func() []*gen.Node
	}{
		{"one-name", func() []*gen.Node {
			return []*gen.Node{gen.NCall("probe", gen.NStr("before"), id("tt")), gen.NSet("tt", gen.NBin("+", gen.NStr("-"), gen.NStr("x")))}
		}},
		{"two-names", func() []*gen.Node {
			return []*gen.Node{gen.NCall("probe", gen.NStr("before"), id("tt"), id("uu")), gen.NSet("tt", gen.NInt(1)), gen.NSet("uu", gen.NInt(2))}
		}},
		{"compound", func() []*gen.Node {
			return []*gen.Node{gen.NAssign("+=", []*gen.Node{id("tt")}, []*gen.Node{gen.NInt(1)}), gen.NCall("probe", gen.NStr("after"), id("tt"))}
		}},
		{"nested-block-name", func() []*gen.Node {
			return []*gen.Node{gen.NCall("probe", gen.NStr("before"), id("tt")), gen.NIf([]*gen.Node{gen.NBool(true)}, [][]*gen.Node{{gen.NSet("tt", gen.NInt(5)), gen.NSet("inner", gen.NInt(1))}}, nil, false), gen.NSet("tt", gen.NInt(7))}
		}},
		{"nested-first-in-later-pass", func() []*gen.Node {
			// the first pass assigns the name at body level; later passes assign it first inside a nested block and read it
			// after that block: it was local to the block
			return []*gen.Node{gen.NSet("cnt", gen.NBin("+", id("cnt"), gen.NInt(1))),
				gen.NIf([]*gen.Node{gen.NBin(">", id("cnt"), gen.NInt(1))}, [][]*gen.Node{{gen.NIf([]*gen.Node{gen.NBool(true)}, [][]*gen.Node{{gen.NSet("tt", gen.NInt(5)), gen.NCall("probe", gen.NStr("in-block"), id("tt"))}}, nil, false), gen.NCall("probe", gen.NStr("after-block"), id("tt"))}}, nil, false),
				gen.NSet("tt", id("cnt")), gen.NCall("probe", gen.NStr("end-of-pass"), id("tt"))}
		}},
		{"nested-loop-first-in-later-pass", func() []*gen.Node {
			return []*gen.Node{gen.NSet("cnt", gen.NBin("+", id("cnt"), gen.NInt(1))),
				gen.NIf([]*gen.Node{gen.NBin(">", id("cnt"), gen.NInt(1))}, [][]*gen.Node{{gen.NForIn("q", gen.NList(gen.NInt(1)), []*gen.Node{gen.NAssign("+=", []*gen.Node{id("tt")}, []*gen.Node{gen.NInt(5)})}), gen.NCall("probe", gen.NStr("after-loop"), id("tt"))}}, nil, false),
				gen.NSet("tt", id("cnt"))}
		}},
		{"conditional-first-pass", func() []*gen.Node {
			return []*gen.Node{gen.NIf([]*gen.Node{gen.NBin("==", id("cnt"), gen.NInt(0))}, [][]*gen.Node{{gen.NSet("cnt", gen.NInt(1))}}, nil, false), gen.NCall("probe", gen.NStr("tt"), id("tt")), gen.NSet("tt", id("cnt"))}
		}},
	}
	n := 0
	for ii, it := range iters {
		for _, bd := range bodies {
			for pre := 0; pre < 5; pre++ {
				for _, ptKey := range []bool{false, true} {
					var prog []*gen.Node
					loop := func(v string) *gen.Node { return gen.NForIn(v, it(), bd.b()) }
					switch pre {
					case 0: // the loop variable is new
						prog = append(prog, gen.NSet("cnt", gen.NInt(0)), loop("x"))
					case 1: // it exists at the top level
						prog = append(prog, gen.NSet("cnt", gen.NInt(0)), gen.NSet("x", gen.NInt(0)), loop("x"))
					case 2: // it is the variable of an enclosing loop
						prog = append(prog, gen.NSet("cnt", gen.NInt(0)), gen.NForIn("x", gen.NList(gen.NInt(10), gen.NInt(20)), []*gen.Node{loop("x"), gen.NCall("probe", gen.NStr("outer-x"), id("x"))}))
					case 3: // it exists in an enclosing block
						prog = append(prog, gen.NSet("cnt", gen.NInt(0)), gen.NIf([]*gen.Node{gen.NBool(true)}, [][]*gen.Node{{gen.NSet("x", gen.NStr("blk")), loop("x"), gen.NCall("probe", gen.NStr("blk-x"), id("x"))}}, nil, false))
					default: // the loop runs twice (an enclosing three-clause loop), its variable made before
						prog = append(prog, gen.NSet("cnt", gen.NInt(0)), gen.NSet("x", gen.NNil()), gen.NFor(gen.NSet("o", gen.NInt(0)), gen.NBin("<", id("o"), gen.NInt(2)), gen.NSet("o", gen.NBin("+", id("o"), gen.NInt(1))), []*gen.Node{loop("x")}))
					}
					prog = append(prog, gen.NCall("probe", gen.NStr("end"), id("tt"), id("x")))
					c := sem.NewCase(gen.FixAll(prog))
					c.Fields = map[string]any{"other": "o"}
					if ptKey {
						c.Fields["tt"] = "from the point"
					}
					judge(t, "pass-scope", c, true, "for-in-pass-scope/"+bd.name)
					n++
					// the same program on the v2 interpreter where the name is defined (v2: an undefined name is an error)
				}
			}
		}
		_ = ii
	}
	evid.Exhaustive("iterable kind x body x where the loop variable comes from x point key of the body's name", n)
}

// TestIterableExpressions: the iterable of a for-in is an expression like any other: a concatenation, a variable, a
// call result, an element, a slice - it is evaluated once, and the body runs for what it yields.
func TestIterableExpressions(t *testing.T) {
	iters := []func() *gen.Node{
		func() *gen.Node { return gen.NBin("+", gen.NStr("ab"), gen.NStr("cd")) },
		func() *gen.Node { return gen.NParen(gen.NBin("+", gen.NStr("ab"), gen.NStr("cd"))) },
		func() *gen.Node { return gen.NBin("+", id("sa"), id("sb")) },
		func() *gen.Node { return gen.NBin("+", id("_"), gen.NStr("!")) },
		func() *gen.Node { return gen.NBin("+", gen.NBin("+", gen.NStr("a"), id("sa")), gen.NStr("z")) },
		func() *gen.Node { return gen.NCall("pval", gen.NStr("xy")) },
		func() *gen.Node { return gen.NIndex(id("ll"), gen.NInt(0)) },
		func() *gen.Node { return gen.NSlice(id("sa"), gen.NInt(1), nil, nil, false) },
		func() *gen.Node { return gen.NIndex(id("mm"), gen.NStr("k")) },
		func() *gen.Node { return gen.NCall("load_json", gen.NStr("[1, \"two\"]")) },
		func() *gen.Node { return gen.NBin("*", id("sa"), gen.NInt(2)) },
		func() *gen.Node { return gen.NBin("-", gen.NInt(3), gen.NInt(1)) },
		func() *gen.Node { return gen.NBin("==", id("sa"), id("sb")) },
	}
	n := 0
	for ii, it := range iters {
		for place := 0; place < 3; place++ {
			pre := []*gen.Node{gen.NSet("sa", gen.NStr("pq")), gen.NSet("sb", gen.NStr("r")), gen.NSet("ll", gen.NList(gen.NList(gen.NInt(7), gen.NInt(8)), gen.NInt(9))), gen.NSet("mm", gen.NMap(gen.NStr("k"), gen.NStr("uv")))}
			loop := gen.NForIn("c", it(), []*gen.Node{gen.NCall("probe", gen.NStr("c"), id("c"))})
			var prog []*gen.Node
			switch place {
			case 0:
				prog = append(pre, loop, gen.NCall("probe", gen.NStr("after")))
			case 1: // in a branch that is not taken: the script still loads
				prog = append(pre, gen.NIf([]*gen.Node{gen.NBool(false)}, [][]*gen.Node{{loop}}, nil, false), gen.NCall("probe", gen.NStr("after")))
			default:
				prog = append(pre, gen.NForIn("o", gen.NList(gen.NInt(1), gen.NInt(2)), []*gen.Node{loop}), gen.NCall("probe", gen.NStr("after")))
			}
			c := sem.NewCase(gen.FixAll(prog))
			c.Fields = map[string]any{"message": "msg"}
			judge(t, "iterable-expr", c, true, "iterable-expression")
			n++
		}
		_ = ii
	}
	evid.Exhaustive("iterable expression form x place of the loop", n)
}

// TestSlicedIterables: a slice expression yields a new list: a loop over `l[:]` delivers the elements the list had when
// the loop began whatever its body writes into `l`, and a name bound to a slice and the list it was taken from are two
// lists - for every slice form.
func TestSlicedIterables(t *testing.T) {
	i := gen.NInt
	slices := []func(o string) *gen.Node{
		func(o string) *gen.Node { return gen.NSlice(id(o), nil, nil, nil, false) },
		func(o string) *gen.Node { return gen.NSlice(id(o), i(1), nil, nil, false) },
		func(o string) *gen.Node { return gen.NSlice(id(o), i(0), i(2), nil, false) },
		func(o string) *gen.Node { return gen.NSlice(id(o), nil, i(3), nil, false) },
		func(o string) *gen.Node { return gen.NSlice(id(o), nil, nil, i(1), true) },
		func(o string) *gen.Node { return gen.NSlice(id(o), nil, nil, i(2), true) },
		func(o string) *gen.Node { return gen.NSlice(id(o), i(-3), nil, nil, false) },
		func(o string) *gen.Node { return gen.NSlice(id(o), i(0), i(4), i(1), true) },
	}
	n := 0
	for si, sl := range slices {
		progs := [][]*gen.Node{
			// the body overwrites the element that comes next in the original
			{gen.NSet("l", gen.NList(i(1), i(2), i(3), i(4))), gen.NSet("p", i(0)), gen.NSet("total", i(0)),
				gen.NForIn("x", sl("l"), []*gen.Node{gen.NCall("probe", gen.NStr("x"), id("x")), gen.NAssign("+=", []*gen.Node{id("total")}, []*gen.Node{id("x")}),
					gen.NIf([]*gen.Node{gen.NBin("<", id("p"), i(3))}, [][]*gen.Node{{gen.NAssign("=", []*gen.Node{gen.NIndex(id("l"), gen.NBin("+", id("p"), i(1)))}, []*gen.Node{gen.NBin("+", id("x"), i(100))})}}, nil, false),
					gen.NSet("p", gen.NBin("+", id("p"), i(1)))}),
				gen.NCall("probe", gen.NStr("after"), id("l"), id("total"))},
			// two names
			{gen.NSet("orig", gen.NList(i(1), i(2), i(3), i(4))), gen.NSet("work", sl("orig")),
				gen.NAssign("=", []*gen.Node{gen.NIndex(id("work"), i(0))}, []*gen.Node{i(9)}), gen.NCall("probe", gen.NStr("wrote-work"), id("orig"), id("work")),
				gen.NAssign("=", []*gen.Node{gen.NIndex(id("orig"), i(1))}, []*gen.Node{i(7)}), gen.NAssign("+=", []*gen.Node{gen.NIndex(id("orig"), i(2))}, []*gen.Node{i(70)}),
				gen.NCall("probe", gen.NStr("wrote-orig"), id("orig"), id("work"))},
			// written from inside a nested block, the slice of a nested list
			{gen.NSet("box", gen.NMap(gen.NStr("k"), gen.NList(i(1), i(2), i(3), i(4)))), gen.NSet("inner", gen.NIndex(id("box"), gen.NStr("k"))), gen.NSet("work", sl("inner")),
				gen.NIf([]*gen.Node{gen.NBool(true)}, [][]*gen.Node{{gen.NForIn("q", gen.NList(i(0), i(1)), []*gen.Node{gen.NAssign("=", []*gen.Node{gen.NIndex(id("work"), id("q"))}, []*gen.Node{gen.NBin("*", id("q"), i(11))})})}}, nil, false),
				gen.NCall("probe", gen.NStr("nested"), id("box"), id("work"))},
			// a loop over the slice whose body writes through the slice's own name
			{gen.NSet("l", gen.NList(i(1), i(2), i(3), i(4))), gen.NSet("w", sl("l")),
				gen.NForIn("x", id("w"), []*gen.Node{gen.NAssign("=", []*gen.Node{gen.NIndex(id("l"), i(0))}, []*gen.Node{gen.NBin("+", gen.NIndex(id("l"), i(0)), id("x"))})}),
				gen.NCall("probe", gen.NStr("l-w"), id("l"), id("w"))},
		}
		for pi, prog := range progs {
			judge(t, "sliced-iterable", sem.NewCase(gen.FixAll(prog)), true, "sliced-iterable")
			n++
			_ = pi
		}
		_ = si
	}
	evid.Exhaustive("slice form x (loop over the slice while the list is written, two names, nested writer, loop writing through the other name)", n)
}

// TestEmptyValuedKeys: a key of the point whose value is empty ("" as a tag, "" as a field, nil as a field) is still a
// key of the point: its bare name reads that value - not the value of a missing key - in conditions, as an iterable,
// as an operand; whether the host supplied it or the script made it.
func TestEmptyValuedKeys(t *testing.T) {
	makes := []struct {
		name string
		tags map[string]string
		flds map[string]any
		pre  func() []*gen.Node
	}{
		{"host-empty-tag", map[string]string{"t": ""}, nil, nil},
		{"host-empty-field", nil, map[string]any{"t": ""}, nil},
		{"host-nil-field", nil, map[string]any{"t": nil}, nil},
		{"host-blank-tag", map[string]string{"t": " "}, nil, nil},
		{"absent", nil, nil, nil},
		{"set_tag-empty", nil, nil, func() []*gen.Node { return []*gen.Node{gen.NCall("set_tag", id("t"), gen.NStr(""))} }},
		{"set_tag-over-tag", map[string]string{"t": "was"}, nil, func() []*gen.Node { return []*gen.Node{gen.NCall("set_tag", id("t"), gen.NStr(""))} }},
		{"add_key-nil-over-tag", map[string]string{"t": "was"}, nil, func() []*gen.Node { return []*gen.Node{gen.NCall("add_key", id("t"), gen.NNil())} }},
		{"add_key-empty-over-tag", map[string]string{"t": "was"}, nil, func() []*gen.Node { return []*gen.Node{gen.NCall("add_key", id("t"), gen.NStr(""))} }},
		{"add_key-empty", nil, nil, func() []*gen.Node { return []*gen.Node{gen.NCall("add_key", id("t"), gen.NStr(""))} }},
		{"trim-to-empty", map[string]string{"t": "  "}, nil, func() []*gen.Node { return []*gen.Node{gen.NCall("trim", id("t"))} }},
	}
	reads := []func() []*gen.Node{
		func() []*gen.Node {
			return []*gen.Node{gen.NIf([]*gen.Node{gen.NBin("==", id("t"), gen.NNil()), gen.NBin("==", id("t"), gen.NStr(""))}, [][]*gen.Node{{gen.NCall("probe", gen.NStr("is-nil"))}, {gen.NCall("probe", gen.NStr("is-empty"))}}, []*gen.Node{gen.NCall("probe", gen.NStr("neither"))}, true)}
		},
		func() []*gen.Node {
			return []*gen.Node{gen.NForIn("c", id("t"), []*gen.Node{gen.NCall("probe", gen.NStr("c"), id("c"))}), gen.NCall("probe", gen.NStr("after-loop"))}
		},
		func() []*gen.Node {
			return []*gen.Node{gen.NSet("x", gen.NBin("+", gen.NBin("+", gen.NStr("["), id("t")), gen.NStr("]"))), gen.NCall("probe", gen.NStr("x"), id("x"))}
		},
		func() []*gen.Node {
			return []*gen.Node{gen.NSet("x", id("t")), gen.NCall("probe", gen.NStr("x"), id("x"), gen.NBin("!=", id("t"), gen.NNil()), gen.NCall("len", id("t")))}
		},
		func() []*gen.Node {
			return []*gen.Node{gen.NFor(nil, id("t"), nil, []*gen.Node{gen.NCall("probe", gen.NStr("truthy")), gen.NBreak()}), gen.NCall("probe", gen.NStr("in"), gen.NBin("in", id("t"), gen.NList(gen.NStr(""), gen.NInt(1))), gen.NBin("in", id("t"), gen.NList(gen.NNil())))}
		},
		func() []*gen.Node {
			return []*gen.Node{gen.NAssign("+=", []*gen.Node{id("t")}, []*gen.Node{gen.NStr("more")}), gen.NCall("probe", gen.NStr("compound"), id("t"))}
		},
	}
	n := 0
	for _, mk := range makes {
		for ri, rd := range reads {
			var prog []*gen.Node
			if mk.pre != nil {
				prog = append(prog, mk.pre()...)
			}
			prog = append(prog, rd()...)
			c := sem.NewCase(gen.FixAll(prog))
			c.Fields = map[string]any{"other": int64(1)}
			for k, v := range mk.flds {
				c.Fields[k] = v
			}
			c.Tags = map[string]string{"keeptag": "kt"}
			for k, v := range mk.tags {
				c.Tags[k] = v
			}
			judge(t, "empty-valued-key", c, true, "empty-valued-key")
			n++
			_ = ri
		}
	}
	evid.Exhaustive("how the empty-valued key came about x way its bare name is read", n)
}

// TestValuelessAssignment: `NAME = <expression without a value>` is an assignment like any other: NAME becomes (or
// stays) a variable of the current block that reads as nil - it hides a point key of that name, is what nested
// blocks update, and vanishes with its block.
func TestValuelessAssignment(t *testing.T) {
	voids := []struct {
		name string
		e    func() *gen.Node
	}{
		{"pvoid()", func() *gen.Node { return gen.NCall("pvoid") }},
		{"probe()", func() *gen.Node { return gen.NCall("probe", gen.NStr("as-value")) }},
		{"drop_key", func() *gen.Node { return gen.NCall("drop_key", id("other")) }},
		{"add_key", func() *gen.Node { return gen.NCall("add_key", id("made"), gen.NInt(1)) }},
		{"set_tag", func() *gen.Node { return gen.NCall("set_tag", id("tg"), gen.NStr("v")) }},
		{"attribute", func() *gen.Node { return gen.NAttr(id("o"), id("fld")) }},
	}
	reads := func(n string) []*gen.Node {
		return []*gen.Node{gen.NCall("probe", gen.NStr("read"), id(n)),
			gen.NIf([]*gen.Node{id(n), gen.NBin("==", id(n), gen.NNil())}, [][]*gen.Node{{gen.NCall("probe", gen.NStr("truthy"))}, {gen.NCall("probe", gen.NStr("is-nil"))}}, []*gen.Node{gen.NCall("probe", gen.NStr("neither"))}, true),
			gen.NCall("add_key", id("seen"), id(n))}
	}
	blocks := []func(b []*gen.Node) *gen.Node{
		func(b []*gen.Node) *gen.Node { return gen.NIf([]*gen.Node{gen.NBool(true)}, [][]*gen.Node{b}, nil, false) },
		func(b []*gen.Node) *gen.Node { return gen.NForIn("it", gen.NList(gen.NInt(1), gen.NInt(2)), b) },
		func(b []*gen.Node) *gen.Node {
			return gen.NFor(gen.NSet("it", gen.NInt(0)), gen.NBin("<", id("it"), gen.NInt(2)), gen.NSet("it", gen.NBin("+", id("it"), gen.NInt(1))), b)
		},
	}
	n := 0
	for _, v := range voids {
		for _, name := range []string{"k", "fresh"} { // k is a key of the point, fresh is not
			for form := 0; form < 5; form++ {
				var prog []*gen.Node
				switch form {
				case 0: // at the top level, read afterwards
					prog = append([]*gen.Node{gen.NSet(name, v.e())}, reads(name)...)
				case 1, 2, 3: // a nested block assigns the name: it updates the variable made by the value-less assignment
					prog = append([]*gen.Node{gen.NSet(name, v.e()), blocks[form-1]([]*gen.Node{gen.NSet(name, gen.NInt(2)), gen.NCall("probe", gen.NStr("inside"), id(name))})}, reads(name)...)
				default: // made inside a block: gone after it; an existing variable is overwritten with nil
					prog = append([]*gen.Node{gen.NSet("v0", gen.NInt(5)), gen.NIf([]*gen.Node{gen.NBool(true)}, [][]*gen.Node{{gen.NSet(name, v.e()), gen.NSet("v0", v.e()), gen.NCall("probe", gen.NStr("inside"), id(name), id("v0"))}}, nil, false), gen.NCall("probe", gen.NStr("v0"), id("v0"))}, reads(name)...)
				}
				c := sem.NewCase(gen.FixAll(prog))
				c.Fields = map[string]any{"k": int64(7), "other": "o"}
				judge(t, "valueless-assign", c, true, "valueless-assignment/"+v.name)
				n++
			}
		}
	}
	evid.Exhaustive("value-less right side x {point key, fresh name} x {top level, updated from if / for-in / for, made inside a block}", n)
}

// TestEmptyBranchTable: a truthy branch with an empty block still ends the statement.
func TestEmptyBranchTable(t *testing.T) {
	n := 0
	conds := []*gen.Node{gen.NBool(true), gen.NInt(1), gen.NStr("x"), gen.NBool(false), gen.NInt(0), gen.NNil()}
	for _, c1 := range conds {
		for _, c2 := range conds {
			for mask := 0; mask < 8; mask++ { // which of block1, block2, else are empty
				blk := func(label string, empty bool) []*gen.Node {
					if empty {
						return nil
					}
					return []*gen.Node{gen.NCall("probe", gen.NStr(label))}
				}
				prog := []*gen.Node{
					gen.NIf([]*gen.Node{c1.Clone(), c2.Clone()}, [][]*gen.Node{blk("b1", mask&1 != 0), blk("b2", mask&2 != 0)}, blk("else", mask&4 != 0), true),
					gen.NCall("probe", gen.NStr("end")),
					gen.NForIn("x", gen.NList(gen.NInt(1), gen.NInt(0), gen.NInt(2)), []*gen.Node{gen.NIf([]*gen.Node{id("x")}, [][]*gen.Node{blk("t", mask&1 != 0)}, blk("f", mask&2 != 0), true)}),
				}
				cs := sem.NewCase(gen.FixAll(prog))
				judge(t, "emptybranch", cs, true, "empty-branch-table")
				n++
			}
		}
	}
	evid.Exhaustive("if/elif/else with empty blocks", n)
}

// TestMapGrownWhileIterated: a for-in over a map whose body stores new keys into that map (directly, through another
// name, through the map that holds it). Whether a key stored during the loop is delivered is not specified - but every
// key the map had when the loop began is delivered exactly once, in every run, and no key is delivered twice. The run is
// repeated because the order in which a map delivers its keys changes from run to run.
func TestMapGrownWhileIterated(t *testing.T) {
	mapLit := func(n int) *gen.Node {
		m := gen.NMap()
		for i := 0; i < n; i++ {
			m.Args = append(m.Args, gen.NStr(string(rune('a'+i))), gen.NInt(int64(i)))
		}
		return m
	}
	grow := func(target *gen.Node) *gen.Node {
		// only the original (one-letter) keys add a key, so the loop ends
		return gen.NIf([]*gen.Node{gen.NBin("==", gen.NCall("len", id("k")), gen.NInt(1))}, [][]*gen.Node{{
			gen.NAssign("=", []*gen.Node{gen.NIndex(target, gen.NBin("+", id("k"), id("k")))}, []*gen.Node{gen.NInt(0)}),
			gen.NAssign("=", []*gen.Node{gen.NIndex(target.Clone(), gen.NBin("+", gen.NStr("z"), id("k")))}, []*gen.Node{gen.NInt(0)})}}, nil, false)
	}
	n := 0
	for size := 2; size <= 9; size++ {
		progs := map[string][]*gen.Node{
			"direct":        {gen.NSet("m", mapLit(size)), gen.NForIn("k", id("m"), []*gen.Node{gen.NCall("probe", gen.NStr("k"), id("k")), grow(id("m"))}), gen.NCall("probe", gen.NStr("after"), gen.NCall("len", id("m")))},
			"through-alias": {gen.NSet("m", mapLit(size)), gen.NSet("al", id("m")), gen.NForIn("k", id("m"), []*gen.Node{gen.NCall("probe", gen.NStr("k"), id("k")), grow(id("al"))}), gen.NCall("probe", gen.NStr("after"), gen.NCall("len", id("m")))},
			"through-holder": {gen.NSet("h", gen.NList(mapLit(size))), gen.NSet("m", gen.NIndex(id("h"), gen.NInt(0))), gen.NForIn("k", id("m"), []*gen.Node{gen.NCall("probe", gen.NStr("k"), id("k")), grow(gen.NIndex(id("h"), gen.NInt(0)))}), gen.NCall("probe", gen.NStr("after"), gen.NCall("len", id("m")))},
			"grow-then-probe": {gen.NSet("m", mapLit(size)), gen.NForIn("k", id("m"), []*gen.Node{grow(id("m")), gen.NCall("probe", gen.NStr("k"), id("k"))}), gen.NCall("probe", gen.NStr("after"), gen.NCall("len", id("m")))},
		}
		for name, p := range progs {
			for _, v2 := range []bool{false, true} {
				c := &sem.Case{Scripts: map[string][]*gen.Node{"main.p": gen.FixAll(gen.CloneProg(p))}, Root: "main.p", Meas: "m", V2: v2}
				c.Print(nil)
				who := map[bool]string{false: "v1", true: "v2"}[v2]
				for rep := 0; rep < evid.Scale(25, 200); rep++ {
					var o sem.ImplOut
					if v2 {
						o = sem.RunV2(c, &probe.Sig{})
					} else {
						o = sem.RunV1(c, 0)
					}
					rp := c.Replay("a map that grows while it is iterated: every key it had at the start is delivered exactly once")
					if o.Crash != nil || o.Err != nil || len(o.LoadErrs) > 0 {
						rk.Fail(t, "mapgrown", rp, "%s: the run failed: crash %v, error %v, load %v\nscript:\n%s", who, o.Crash, o.Err, o.LoadErrs, c.Texts[c.Root])
					}
					seen := map[string]int{}
					for _, r := range o.Trace {
						if r.Label == "k" && len(r.Vals) == 1 {
							seen[r.Vals[0]]++
						}
					}
					for i := 0; i < size; i++ {
						key := probe.Render(string(rune('a' + i)))
						if seen[key] != 1 {
							rk.Fail(t, "mapgrown", rp, "%s: key %s, which the map held when the loop began, was delivered %d times (run %d of the same script); delivered: %v\nscript:\n%s", who, key, seen[key], rep+1, seen, c.Texts[c.Root])
						}
					}
					for k, cnt := range seen {
						if cnt > 1 {
							rk.Fail(t, "mapgrown", rp, "%s: key %s was delivered %d times; delivered: %v\nscript:\n%s", who, k, cnt, seen, c.Texts[c.Root])
						}
					}
					if last := o.Trace[len(o.Trace)-1]; last.Label != "after" || len(last.Vals) != 1 || last.Vals[0] != probe.Render(int64(3*size)) {
						rk.Fail(t, "mapgrown", rp, "%s: after the loop the map should hold %d keys, the last record is %v\nscript:\n%s", who, 3*size, last, c.Texts[c.Root])
					}
					n++
				}
				evid.Case(fmt.Sprintf("mapgrown/%s/%d/%s", name, size, who), true, "map-grown-while-iterated/"+who)
			}
		}
	}
	evid.Exhaustive("map sizes 2..9 x way of storing the new keys x interpreter, each run repeatedly", n)
}

func TestReplays(t *testing.T) {
	files, _ := filepath.Glob(filepath.Join(evid.Dir(), "replays", prop, "*.json"))
	if r := os.Getenv("VERIF_REPLAY"); r != "" {
		files = []string{r}
	}
	for _, f := range files {
		b, err := os.ReadFile(f)
		if err != nil {
			continue
		}
		var r struct {
			Case sem.Replay `json:"case"`
		}
		if json.Unmarshal(b, &r) != nil || len(r.Case.Texts) == 0 {
			continue
		}
		t.Run(filepath.Base(f), func(t *testing.T) {
			c, err := sem.FromReplay(r.Case)
			if err != nil {
				t.Skipf("replay not loadable: %v", err)
			}
			v := sem.Decide(c, func() sem.ImplOut { return sem.RunV1(c, 0) }, nil, true, true)
			if v.Msg != "" {
				rk.Fail(t, "replay", r.Case, "%s\nscript: %q", v.Msg, c.Texts[c.Root])
			}
			evid.Case("replay:"+c.Texts[c.Root], true, "replay")
		})
	}
}
