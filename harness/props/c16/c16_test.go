package c16

import (
	"encoding/json"
	"fmt"
	"github.com/GuanceCloud/platypus/pkg/ast"
	"github.com/GuanceCloud/platypus/pkg/errchain"
	"os"
	"path/filepath"
	"runtime"
	"sort"
	"strings"
	"sync"
	"sync/atomic"
	"testing"
	"time"

	plrt "github.com/GuanceCloud/platypus/pkg/engine/runtime"
	"github.com/GuanceCloud/platypus/pkg/inimpl/guancecloud/input"
	"pgregory.net/rapid"
	"verifharness/conv"
	"verifharness/evid"
	"verifharness/gen"
	"verifharness/impl"
	"verifharness/probe"
	"verifharness/rk"
	"verifharness/sem"
	"verifharness/sgen"
)

const prop = "C16"

func TestMain(m *testing.M) {
	evid.Init(prop, "exploration",
		"test binary built with -race. Scenarios drawn by rapid: 2..16 goroutines, each a parser of generated sources or a runner of one of 1..3 shared loaded scripts (using grok, add_pattern, use(), loops, collections, builtins) on private points taken from the point pool; per-goroutine start offsets are spin counts drawn by the generator; every scenario is repeated (20x quick) under GOMAXPROCS in {2, 4, 16}. Oracle: (a) the race detector reports nothing (GORACE=halt_on_error=1: the process exits with code 66, the driver stores the scenario that was running together with the detector's report); (b) every run's final point, probe trace and error equal the result of the same (script, point) executed alone before the goroutines started, and every parse equals the sequential parse. Non-trivial: >= 2 runners share one script that contains a grok or use() call while >= 1 parser is active; distinct by scenario shape.",
		"generated workloads do not control the scheduler: the race detector's happens-before analysis finds unsynchronised conflicting accesses on executed paths without needing the bad interleaving to occur; a race on a path no scenario executes is missed",
		"-race is the Go toolchain's detector (trusted)")
	code := m.Run()
	evid.Flush(code == 0)
	os.Exit(code)
}

var v1call, v1check = sem.V1Tables()

type job struct {
	Kind   string            `json:"kind"` // parse | run
	Text   string            `json:"text,omitempty"`
	Set    int               `json:"set"`
	Fields map[string]string `json:"fields,omitempty"`
	Tags   map[string]string `json:"tags,omitempty"`
	Spin   int               `json:"spin"`
	want   string
}

type scenario struct {
	Sets  []map[string]string `json:"script_sets"`
	Jobs  []*job              `json:"jobs"`
	Procs int                 `json:"gomaxprocs"`
	Reps  int                 `json:"repetitions"`
}

func doParse(text string) string {
	stmts, err, crash := impl.Parse("p.p", text)
	if crash != nil {
		return "CRASH " + crash.Value
	}
	if err != nil {
		return "ERR " + err.Error()
	}
	tree, c := conv.Stmts(stmts)
	if c.Err != nil {
		return "MALFORMED"
	}
	return "OK " + gen.ShapeAll(tree) + "\n" + gen.Print(tree, gen.Minimal{})
}

// doLoad loads a script set and returns the per-script verdicts.
func doLoad(set map[string]string) string {
	ok, errs, crash := impl.LoadV1(set, v1call, v1check)
	if crash != nil {
		return "CRASH " + crash.Value
	}
	var names []string
	for n := range ok {
		names = append(names, n+"=ok")
	}
	for n, e := range errs {
		names = append(names, n+"=ERR:"+e.Error())
	}
	sort.Strings(names)
	out := strings.Join(names, "\n")
	// what was loaded is what runs: the goroutine runs its own main.p on its own point
	if m := ok["main.p"]; m != nil {
		out += "\nRUN " + doRun(m, &job{Fields: map[string]string{"message": "s:\"hello 42\""}, Tags: map[string]string{}})
	}
	return out
}

// loadSets: script sets for concurrent loads: the same alias name bound differently, bound at top level, inside a
// block, not at all (a load error), and sets with parse / check errors.
var loadSets = []map[string]string{
	{"main.p": "add_pattern(\"tok\", \"[a-z]+\")\nok = grok(_, \"%{tok:val}\")\nprobe(\"tok\", ok, val)"},
	{"main.p": "add_pattern(\"tok\", \"\\\\d+\")\nok = grok(_, \"%{tok:val}\")\nprobe(\"tok\", ok, val)"},
	{"main.p": "ok = grok(_, \"%{tok:val}\")\nprobe(\"tok\", ok, val)", "other.p": "add_key(o, 1)"},
	{"main.p": "if true {\n add_pattern(\"tok\", \"x\")\n grok(_, \"%{tok:val}\")\n}\nuse(\"lib.p\")", "lib.p": "add_pattern(\"lib_tok\", \"%{WORD}\")\ngrok(_, \"%{lib_tok:w}\")"},
	{"main.p": "use(\"b.p\")\nuse(\"c.p\")", "b.p": "use(\"c.p\")", "c.p": "add_key(c, \"s\\t\\u00e9\")"},
	{"main.p": "use(\"b.p\")", "b.p": "use(\"main.p\")", "c.p": "x = = 1", "d.p": "nosuch()"},
	{"main.p": "a = \"esc \\n \\t \\\\ \\\" \\x41 \\u00e9\"\nb = 'single \\' \\101'\nadd_key(k, a + b)"},
	// the same caller text with three different callees of the same name
	{"main.p": "use(\"lib.p\")\nprobe(\"m\", v)", "lib.p": "add_key(v, \"one\")"},
	{"main.p": "use(\"lib.p\")\nprobe(\"m\", v)", "lib.p": "add_key(v, \"two\")\nprobe(\"lib\", 2)"},
	{"main.p": "use(\"lib.p\")\nprobe(\"m\", v)", "lib.p": "add_key(v, 3)\nuse(\"deep.p\")", "deep.p": "add_key(d, true)"},
	// one pattern, captures of different types
	{"main.p": "ok = grok(_, \"%{WORD:w} %{INT:n}\")\nprobe(\"g\", ok, w, n)"},
	{"main.p": "ok = grok(_, \"%{WORD:w} %{INT:n:int}\")\nprobe(\"g\", ok, w, n)"},
	{"main.p": "ok = grok(_, \"%{WORD:w} %{INT:n:float}\")\nprobe(\"g\", ok, w, n)"},
	// a callee that fails the check with an error of three positions, used by several scripts
	{"main.p": "use(\"u1.p\")", "bad.p": "add_key(n, len(load_json()))", "u1.p": "use(\"bad.p\")", "u2.p": "x = 1\nuse(\"bad.p\")", "u3.p": "if true {\n use(\"bad.p\")\n}", "u4.p": "use(\"u3.p\")"},
}

// literalTexts: sources whose string literals contain escape sequences (the parser decodes them).
var literalTexts = []string{
	"a = \"tab\\there \\u00e9 \\x41\\n\"\nb = 'q\\'q \\\\ \\101'\nf(\"%{WORD:w} \\\\d+\", a, b)",
	"grok(_, \"%{IP:ip} \\\\[%{HTTPDATE:t}\\\\] \\\"%{WORD:m}\\\"\")\nk = {\"key\\t1\": \"v\\n1\", 'k\\x322': \"\\u4e2d\\u6587\"}",
	"x = [\"\\a\\b\\f\\v\", \"\\U0001F600 long long long long long long long long long long long long long long long long long long long long long long long long long long long long long long long long long long long long long long long long long long long long long long long long long long long long long long long long\"]",
	"s = \"one\\ttwo\"\nt = \"three\\nfour\"\nu = \"five\\\\six\"\nv = \"\\\"seven\\\"\"\nw = '\\'eight\\''\nif s == \"one\\ttwo\" { add_key(z, \"\\x7a\") }",
	"m = \"\\xe4\\xb8\\xad\"\nn = \"\\344\\270\\255\"\no = \"\\u4e2d\"",
}

func doRun(s *plrt.Script, j *job) string {
	fields := map[string]any{}
	for k, v := range j.Fields {
		x, _ := sem.ParseRendered(v)
		fields[k] = x
	}
	// a point without tags is created with a nil tag map, as a host does that has none
	var tags map[string]string
	for k, v := range j.Tags {
		if tags == nil {
			tags = map[string]string{}
		}
		tags[k] = v
	}
	pt := input.GetPoint()
	input.InitPt(pt, "m", tags, fields, impl.FixedTime())
	sig := &probe.Sig{}
	// every run is given the host's private values: one map, shared by all goroutines, which the interpreter only reads
	var rerr *errchain.PlError
	var crash *impl.Crash
	func() {
		defer func() {
			if r := recover(); r != nil {
				crash = &impl.Crash{Value: fmt.Sprint(r)}
			}
		}()
		rerr = s.Run(pt, sig, plrt.WithPrivate(sharedPrivate))
	}()
	var b strings.Builder
	if crash != nil {
		fmt.Fprintf(&b, "CRASH %s\n", crash.Value)
	}
	if rerr != nil {
		fmt.Fprintf(&b, "ERR %s\n", rerr.Error())
	}
	fmt.Fprintf(&b, "meas=%s time=%d\n", pt.Measurement, pt.Time.UnixNano())
	var ks []string
	for k, v := range pt.Tags {
		ks = append(ks, fmt.Sprintf("tag %s=%q", k, v))
	}
	for k, v := range pt.Fields {
		ks = append(ks, fmt.Sprintf("field %s=%s", k, probe.Render(v)))
	}
	sort.Strings(ks)
	b.WriteString(strings.Join(ks, "\n"))
	for _, r := range sig.Trace {
		b.WriteString("\n" + r.String())
	}
	if tags != nil {
		// the tag map the caller passed in stays the caller's: what it holds now is what it holds for good
		keptMu.Lock()
		if len(kept) < 4096 {
			kept = append(kept, keptMap{tags, fmt.Sprint(tags)})
		}
		keptMu.Unlock()
	}
	input.PutPoint(pt)
	return b.String()
}

// sharedPrivate is the host's private-values map handed to every run.
var sharedPrivate = map[string]any{"host": "h1", "tenant": 7}

type keptMap struct {
	m    map[string]string
	want string
}

var (
	keptMu sync.Mutex
	kept   []keptMap
)

// hostStateIntact checks what belongs to the host after runs: the private-values map and the tag maps of finished points.
func hostStateIntact() string {
	if len(sharedPrivate) != 2 || sharedPrivate["host"] != "h1" || sharedPrivate["tenant"] != 7 {
		return fmt.Sprintf("the host's private-values map was written to during the runs: %v", sharedPrivate)
	}
	keptMu.Lock()
	defer keptMu.Unlock()
	for _, k := range kept {
		if got := fmt.Sprint(k.m); got != k.want {
			return fmt.Sprintf("the tag map a finished run left to its caller changed afterwards: %s -> %s", k.want, got)
		}
	}
	kept = kept[:0]
	return ""
}

var zoneNames = []string{"Asia/Shanghai", "Asia/Tokyo", "Asia/Kolkata", "Asia/Dubai", "Asia/Seoul", "Asia/Singapore", "Asia/Bangkok", "Asia/Jakarta", "Asia/Karachi", "Asia/Tehran", "Asia/Kathmandu",
	"Europe/London", "Europe/Berlin", "Europe/Paris", "Europe/Moscow", "Europe/Madrid", "Europe/Rome", "Europe/Kiev", "Europe/Lisbon", "Europe/Oslo", "Europe/Athens",
	"America/New_York", "America/Chicago", "America/Denver", "America/Los_Angeles", "America/Sao_Paulo", "America/Mexico_City", "America/Bogota", "America/Lima", "America/Toronto", "America/Halifax", "America/St_Johns",
	"Africa/Cairo", "Africa/Lagos", "Africa/Nairobi", "Africa/Johannesburg", "Australia/Sydney", "Australia/Perth", "Australia/Adelaide", "Pacific/Auckland", "Pacific/Honolulu", "Pacific/Fiji", "Atlantic/Reykjavik",
	"UTC", "+1", "+2", "-4", "+5:30", "-9", "+12", "+13", "-11", "Nowhere/City", "Mars/Olympus", "+99"}

var sharedTemplates = []map[string]string{
	// formatting calls that stop half-way, and formatting calls that work
	{"main.p": "l = [1]\nprintf(\"%d %s\\n\", 7, l[5])\nprobe(\"never\")"},
	{"main.p": "a = [1]\na[0] = a\nstrfmt(k, \"%s %d %v\", \"stale\", 1, a)"},
	{"main.p": "strfmt(out, \"%v|%s|%v\", n1, message, 7)\nprobe(\"o\", out)\nstrfmt(out2, \"%s\", message)"},
	// a chain of three scripts: use() inside a script that was itself reached through use()
	{"main.p": "probe(\"main\")\nuse(\"mid.p\")\nadd_key(done, 1)", "mid.p": "add_key(mid, len(message))\nuse(\"leaf.p\")\nuse(\"leaf.p\")", "leaf.p": "strfmt(lf, \"%v|%v\", message, n1)\nfor i in [1, 2] { use(\"deep.p\") }", "deep.p": "add_key(deep, true)"},
	{"main.p": "grok(_, \"%{WORD:w1} %{INT:n:int}\")\nadd_key(copy, w1)\nprobe(\"g\", w1, n)\nfor i in [1, 2, 3] { add_key(last, i) }"},
	{"main.p": "add_pattern(\"mine\", \"[a-z]+\")\nif true {\n add_pattern(\"inner\", \"%{mine}\\\\d\")\n ok = grok(_, \"%{inner:x}\")\n probe(\"ok\", ok, x)\n}\nuse(\"lib.p\")", "lib.p": "add_key(from_lib, len(message))\ngrok(_, \"%{NOTSPACE:first}\")\nset_tag(libtag, \"v\")"},
	{"main.p": "a = [3, 2, 1][::-1]\nm = {\"k\": a}\nm[\"k\"][0] = len(message)\nprobe(\"m\", m)\nadd_key(js, m)\nuse(\"lib.p\")\nuse(\"lib.p\")", "lib.p": "x = 0\nfor ; x < 3; x = x + 1 { add_key(cnt, x) }\nuppercase(message)\nrename(msg2, message)"},
	{"main.p": "cast(n1, \"str\")\nstrfmt(s, \"%v-%v\", n1, message)\nreplace(message, \"[0-9]+\", \"#\")\nadd_key(ts, \"2021-05-27 06:54:14.760 UTC\")\ndefault_time(ts)\nset_measurement(\"mm\")\nxml(x, \"//b/@id\", xid)\nsql_cover(q)"},
	{"main.p": "v = 1\nw = \"top\"\nl5 = [1]\nif n1 == 5 {\n x = 1 + \"a\"\n}\nfor i in [1, 2] {\n if message == \"\" { y = l5[5] }\n}\nadd_key(ok, v)"},
	{"main.p": "probe(\"names\", v, w, x, y, i)\nadd_key(seen_v, v)\nadd_key(seen_w, w)"},
	{"main.p": "a = [0, 0]\na[0] = len(message)\na[1] += 7\nh = [[0], [1]]\nh[0][0] += len(message)\nm = {\"k\": [0]}\nm[\"k\"][0] = len(message)\nprobe(\"a\", a, h, m)\nadd_key(sum, a[0] + a[1] + h[0][0] + m[\"k\"][0])"},
	// builtins with an optional argument that selects shared lookup data (time zones), each set with other zones
	{"main.p": "add_key(ts, \"2021-05-27 06:54:14\")\nif n1 == 5 {\n default_time(ts, \"Asia/Shanghai\")\n} elif n1 == \"s\" {\n default_time(ts, \"America/New_York\")\n} else {\n default_time(ts, \"+3\")\n}\nadd_key(ts2, \"2021-05-27 06:54:14\")\ndefault_time(ts2, \"Europe/Berlin\")"},
	{"main.p": "add_key(ts, \"2021-05-27 06:54:14\")\ndefault_time(ts, \"Asia/Tokyo\")\nadd_key(t2, \"2021-05-27 06:54:14\")\ndefault_time(t2, \"Nowhere/City\")\nadd_key(t3, \"2021-05-27 06:54:14\")\ndefault_time(t3, \"Australia/Sydney\")\ndatetime(n1, \"ms\", \"RFC3339\")"},
	{"main.p": "add_key(ts, \"2021-05-27 06:54:14\")\ndefault_time(ts, \"Africa/Cairo\")\nsql_cover(q)\nadd_key(q2, \"SELECT * FROM files WHERE dir = 'C:\\\\' -- user's home\\nAND owner = 7\")\nsql_cover(q2)\nadd_key(q3, \"SELECT * FROM files WHERE dir = 'C:\\\\'\")\nsql_cover(q3)"},
	{"main.p": "add_key(before, 1)\nuse(\"lib.p\")\nadd_key(never, 1)", "lib.p": "replace(message, \"a(b\", \"x\")"},
	{"main.p": "add_key(a.b, message)\nrename(dst, a.b)\nxml(x, \"//b/@id\", o.p)\nset_tag(o.p)\nadd_key(c.d.e, 1)\ndrop_key(c.d.e)\nuppercase(dst)"},
	{"main.p": "if n1 == 5 { x = 1 + \"a\" }\nadd_key(ok, true)\nuse(\"lib.p\")", "lib.p": "if message == \"\" { exit() }\ngrok(_, \"%{GREEDYDATA:all}\")\nadd_key(seen, all)"},
	// collections that start empty and are filled by the run (every evaluation of {} or [] belongs to its run), documents
	// with empty objects decoded and written into, patterns declared in blocks that declare nothing else
	{"main.p": "m = {}\nm[message] = len(message)\nfor c in message { m[c] = 1 }\nseen = {}\nprobe(\"m\", len(m), len(seen), message in {})\nadd_key(js, m)\nuse(\"lib.p\")", "lib.p": "d = load_json(\"{\\\"labels\\\": {}, \\\"l\\\": []}\")\nd[\"labels\"][message] = 1\ncnt = {}\ncnt[message] = 1\nadd_key(lib_n, len(d[\"labels\"]) + len(cnt))"},
	{"main.p": "if true {\n add_pattern(\"NUMBER\", \"[a-z]+\")\n}\nif true {\n ok = grok(_, \"%{NUMBER:num}\")\n probe(\"stock\", ok, num)\n}\nfor i in [1] {\n add_pattern(\"own\", \"[0-9]+\")\n}\nuse(\"lib.p\")", "lib.p": "if true {\n ok = grok(_, \"%{WORD:w} %{NUMBER:n2}\")\n add_key(lib_ok, ok)\n}"},
}

func genScenario(t *rapid.T) (*scenario, bool) {
	sc := &scenario{Procs: rapid.SampledFrom([]int{2, 4, 16}).Draw(t, "procs"), Reps: evid.Scale(20, 40)}
	nsets := rapid.IntRange(1, 3).Draw(t, "nsets")
	usesGrokOrUse := map[int]bool{}
	for i := 0; i < nsets; i++ {
		if rapid.IntRange(0, 5).Draw(t, "zones") == 0 {
			// a set that names time zones this process may not have looked up yet
			var b strings.Builder
			for z, nz := 0, rapid.IntRange(2, 5).Draw(t, "nzones"); z < nz; z++ {
				zone := rapid.SampledFrom(zoneNames).Draw(t, "zone")
				fmt.Fprintf(&b, "add_key(ts%d, \"2021-05-27 06:54:14\")\nif len(message) %% %d == 0 {\n default_time(ts%d, %q)\n}\n", z, z+1, z, zone)
			}
			sc.Sets = append(sc.Sets, map[string]string{"main.p": b.String()})
			usesGrokOrUse[i] = true
		} else if rapid.IntRange(0, 3).Draw(t, "generated") == 0 {
			g := sgen.New(t)
			g.Probes, g.Loops, g.Slices, g.AddKey = true, true, true, true
			g.Calls = []func(*sgen.G, int) *gen.Node{func(g *sgen.G, d int) *gen.Node { return g.BuiltinCall(d) }}
			prog := g.Program(rapid.IntRange(2, 6).Draw(t, "size"), 2)
			src := gen.Print(prog, gen.Minimal{})
			sc.Sets = append(sc.Sets, map[string]string{"main.p": src})
			usesGrokOrUse[i] = strings.Contains(src, "grok(")
		} else {
			sc.Sets = append(sc.Sets, sharedTemplates[rapid.IntRange(0, len(sharedTemplates)-1).Draw(t, "template")])
			usesGrokOrUse[i] = true
		}
	}
	n := rapid.IntRange(2, 16).Draw(t, "goroutines")
	runnersPerSet := map[int]int{}
	parsers, loaders := 0, 0
	for i := 0; i < n; i++ {
		j := &job{Spin: rapid.IntRange(0, 2000).Draw(t, "spin")}
		if k := rapid.IntRange(0, 7).Draw(t, "parser"); k == 2 || k == 3 {
			// a load of a whole script set, concurrent with everything else
			j.Kind = "load"
			j.Set = rapid.IntRange(0, len(loadSets)-1).Draw(t, "loadset")
			loaders++
		} else if k <= 1 {
			j.Kind = "parse"
			if lk := rapid.IntRange(0, 3).Draw(t, "literals"); lk == 0 {
				j.Text = literalTexts[rapid.IntRange(0, len(literalTexts)-1).Draw(t, "littext")]
			} else if lk == 1 {
				// keywords in letter-case patterns this process may not have lexed yet
				kw := func(w string) string {
					b := []byte(w)
					for i := range b {
						if rapid.Bool().Draw(t, "upper") {
							b[i] = b[i] - 'a' + 'A'
						}
					}
					return string(b)
				}
				j.Text = fmt.Sprintf("x = %s\ny = [%s, %s, %s]\n%s x == %s {\n  z = 1\n} %s y {\n  z = 2\n} %s {\n  z = 3\n}\n%s e %s y {\n  %s z { %s }\n  %s\n}\n",
					kw("true"), kw("false"), kw("nil"), kw("null"), kw("if"), kw("true"), kw("elif"), kw("else"), kw("for"), kw("in"), kw("if"), kw("break"), kw("continue"))
			} else if rapid.Bool().Draw(t, "badsrc") {
				// rejected texts, among them texts whose offending token is a back-quoted name, a triple-quoted or an ordinary string
				j.Text = rapid.SampledFrom([]string{"x = = 1", "-0x", "a[", "\"\\q\"", "for a in 1e {}", "if a {", "a = 1 `x`", "a = 1 '''x'''", "f(1 `q`)", "a = 1 \"\"\"m\"\"\"", "b `if`", "x = \"a\" \"b\"", "a = 1 `x`", "a = 1 '''x'''"}).Draw(t, "bad")
			} else {
				g := sgen.New(t)
				g.Loops, g.Slices = true, true
				j.Text = gen.Print(g.Program(4, 2), gen.RandomLayout(t))
			}
			parsers++
		} else {
			j.Kind = "run"
			j.Set = rapid.IntRange(0, nsets-1).Draw(t, "set")
			runnersPerSet[j.Set]++
			f := map[string]any{"message": rapid.SampledFrom([]string{"hello 42", "abc1 x", "", "two words 7"}).Draw(t, "msg")}
			if rapid.Bool().Draw(t, "n1") {
				f["n1"] = rapid.SampledFrom([]any{int64(5), 2.5, "s"}).Draw(t, "n1v")
			}
			if rapid.Bool().Draw(t, "x") {
				f["x"] = "<a><b id=\"7\">t</b></a>"
				f["q"] = "select * from t where id = 5"
			}
			j.Fields = map[string]string{}
			for k, v := range f {
				j.Fields[k] = probe.Render(v)
			}
			if rapid.Bool().Draw(t, "tag") {
				j.Tags = map[string]string{"t1": "tv"}
			}
		}
		sc.Jobs = append(sc.Jobs, j)
	}
	nt := false
	for s, c := range runnersPerSet {
		if c >= 2 && usesGrokOrUse[s] && parsers >= 1 {
			nt = true
		}
	}
	if loaders >= 2 {
		nt = true
	}
	return sc, nt
}

var current string

func saveCurrent(sc *scenario) {
	if current == "" {
		current = filepath.Join(evid.OutDir(), fmt.Sprintf("current-%d.json", evid.Shard()))
	}
	b, _ := json.Marshal(map[string]any{"slot": "race", "message": "the race detector stopped the process while this scenario was running (see the log for its report)", "case": sc})
	_ = os.WriteFile(current, b, 0o644)
}

func clearCurrent() {
	if current != "" {
		_ = os.Remove(current)
	}
}

var sink int64

func execute(t rk.Failer, slot string, sc *scenario) {
	// load every set once and compute the sequential references before any goroutine starts
	loaded := make([]map[string]*plrt.Script, len(sc.Sets))
	for i, set := range sc.Sets {
		ok, errs, crash := impl.LoadV1(set, v1call, v1check)
		if crash != nil || len(errs) > 0 {
			rk.Fail(t, slot, sc, "harness: script set %d does not load: %v %v", i, errs, crash)
		}
		loaded[i] = ok
	}
	saveCurrent(sc)
	old := runtime.GOMAXPROCS(sc.Procs)
	defer runtime.GOMAXPROCS(old)
	var mu sync.Mutex
	var failures []string
	// the concurrent executions come first (whatever is initialised lazily is initialised under concurrency);
	// the sequential references are computed afterwards
	results := make([][]string, len(sc.Jobs))
	for rep := 0; rep < sc.Reps; rep++ {
		var wg sync.WaitGroup
		start := make(chan struct{})
		for ji, j := range sc.Jobs {
			wg.Add(1)
			go func(ji int, j *job) {
				defer wg.Done()
				<-start
				x := int64(0)
				for s := 0; s < j.Spin; s++ {
					x += int64(s)
				}
				atomic.AddInt64(&sink, x)
				var got string
				switch j.Kind {
				case "parse":
					got = doParse(j.Text)
				case "load":
					got = doLoad(loadSets[j.Set])
				default:
					got = doRun(loaded[j.Set]["main.p"], j)
				}
				mu.Lock()
				results[ji] = append(results[ji], got)
				mu.Unlock()
			}(ji, j)
		}
		close(start)
		// all of them finish: runs and loads wait for nothing but each other's short critical sections
		fin := make(chan struct{})
		go func() { wg.Wait(); close(fin) }()
		select {
		case <-fin:
		case <-time.After(120 * time.Second):
			clearCurrent()
			rk.Fail(t, slot, sc, "the goroutines of the scenario had not all finished after 120 s (each job takes milliseconds alone): some run or load waits for another forever")
		}
	}
	for _, j := range sc.Jobs {
		switch j.Kind {
		case "parse":
			j.want = doParse(j.Text)
		case "load":
			j.want = doLoad(loadSets[j.Set])
		default:
			j.want = doRun(loaded[j.Set]["main.p"], j)
		}
	}
	for ji, j := range sc.Jobs {
		for rep, got := range results[ji] {
			if got != j.want && len(failures) == 0 {
				failures = append(failures, fmt.Sprintf("goroutine %d (%s, repetition %d) differs from its sequential result\nalone:      %s\nconcurrent: %s", ji, j.Kind, rep, clip(j.want), clip(got)))
			}
		}
	}
	if msg := hostStateIntact(); msg != "" && len(failures) == 0 {
		failures = append(failures, msg)
	}
	clearCurrent()
	if len(failures) > 0 {
		rk.Fail(t, slot, sc, "%s", failures[0])
	}
}

func clip(s string) string {
	if len(s) > 500 {
		return s[:500] + "..."
	}
	return s
}

func TestScenarios(t *testing.T) {
	rk.Check(t, "scenarios", 1, evid.Scale(100, 300), func(t *rapid.T) {
		sc, nt := genScenario(t)
		execute(t, "scenarios", sc)
		shape := fmt.Sprintf("sets=%d jobs=%d procs=%d", len(sc.Sets), len(sc.Jobs), sc.Procs)
		kinds := ""
		for _, j := range sc.Jobs {
			kinds += j.Kind[:1] + fmt.Sprint(j.Set)
		}
		evid.Case(shape+kinds+fmt.Sprint(sc.Sets), nt, fmt.Sprintf("gomaxprocs/%d", sc.Procs), fmt.Sprintf("goroutines/%d", (len(sc.Jobs)+3)/4*4))
		evid.LabelN("goroutine-executions", len(sc.Jobs)*sc.Reps)
		if nt {
			evid.Sample(map[string]any{"script_sets": sc.Sets, "goroutines": kinds, "gomaxprocs": sc.Procs, "repetitions": sc.Reps})
		}
	})
}

// TestManyRunsInsideOneCallee: the harness owns the schedule: n runs - of one caller, of two callers of the same
// used script, directly of that script - are held inside the used script by a host function until all n have entered
// it; then they go on. Every one of them must end like the same run alone (n = 1).
func TestManyRunsInsideOneCallee(t *testing.T) {
	var need, arrived int64
	var gate chan struct{}
	var gmu sync.Mutex
	call, check := map[string]plrt.FuncCall{}, map[string]plrt.FuncCheck{}
	for k, v := range v1call {
		call[k] = v
	}
	for k, v := range v1check {
		check[k] = v
	}
	call["pgate"] = func(ctx *plrt.Task, e *ast.CallExpr) *errchain.PlError {
		gmu.Lock()
		g := gate
		arrived++
		if arrived == need {
			close(g)
		}
		gmu.Unlock()
		select {
		case <-g:
		case <-time.After(90 * time.Second):
		}
		return nil
	}
	check["pgate"] = func(ctx *plrt.Task, e *ast.CallExpr) *errchain.PlError { return nil }
	set := map[string]string{
		"a.p":   "probe(\"a-start\", k)\nva = 1\nuse(\"lib.p\")\nprobe(\"a-after\", va, seen)\nadd_key(done_a, true)",
		"b.p":   "l = [k, \"b\"]\nuse(\"lib.p\")\nuse(\"lib.p\")\nprobe(\"b-after\", l)\nset_tag(done_b, \"yes\")",
		"lib.p": "probe(\"lib\", k, seen)\npgate()\nadd_key(seen, k)\nuse(\"leaf.p\")",
		"leaf.p": "add_key(leaf, k + 1)",
	}
	ok, errs, crash := impl.LoadV1(set, call, check)
	if crash != nil || len(errs) > 0 {
		rk.Fail(t, "many-inside", set, "harness: the script set does not load: %v %v", errs, crash)
	}
	roots := []string{"a.p", "b.p", "lib.p"}
	passes := map[string]int64{"a.p": 1, "b.p": 2, "lib.p": 1} // gate passages of one run
	runOne := func(root string, k int64) string {
		return doRun(ok[root], &job{Kind: "run", Fields: map[string]string{"k": probe.Render(k)}, Tags: map[string]string{"host": "h"}})
	}
	arm := func(n int64) {
		gmu.Lock()
		need, arrived, gate = n, 0, make(chan struct{})
		gmu.Unlock()
	}
	total := 0
	for _, n := range []int{2, 8, 31, 32, 33, 34, 40, 64, 100, 300} {
		for mix := 0; mix < 3; mix++ { // all a.p / a.p and b.p / all three roots
			jobsRoot := make([]string, n)
			for i := range jobsRoot {
				jobsRoot[i] = roots[i%(mix+1)]
			}
			// b.p passes the gate twice: the first passage of every run is the one all wait in
			arm(int64(n))
			got := make([]string, n)
			var wg sync.WaitGroup
			for i := 0; i < n; i++ {
				wg.Add(1)
				go func(i int) {
					defer wg.Done()
					got[i] = runOne(jobsRoot[i], int64(i))
				}(i)
			}
			fin := make(chan struct{})
			go func() { wg.Wait(); close(fin) }()
			select {
			case <-fin:
			case <-time.After(200 * time.Second):
				rk.Fail(t, "many-inside", map[string]any{"scripts": set, "runs": n, "roots": jobsRoot}, "%d runs held inside lib.p had not all finished after 200 s", n)
			}
			for i := 0; i < n; i++ {
				arm(1)
				_ = passes
				want := runOne(jobsRoot[i], int64(i))
				if got[i] != want {
					rk.Fail(t, "many-inside", map[string]any{"scripts": set, "runs": n, "roots": jobsRoot, "run": i}, "with %d runs inside lib.p at the same moment, run %d (%s) ends differently from the same run alone\nalone:\n%s\namong %d:\n%s", n, i, jobsRoot[i], clip(want), n, clip(got[i]))
				}
			}
			evid.Case(fmt.Sprintf("many-inside/%d/%d", n, mix), true, "many-runs-inside-one-callee")
			evid.LabelN("goroutine-executions", n)
			total++
		}
	}
	if msg := hostStateIntact(); msg != "" {
		rk.Fail(t, "many-inside", set, "%s", msg)
	}
	evid.Exhaustive("number of runs held inside the used script at once x mix of callers", total)
}

// TestPrintfOutputIsContiguous: standard output is one of the places a run leaves its result. Several goroutines run
// scripts whose printf calls print long texts (beyond 4096 and 65536 bytes) at the same time, one letter per goroutine:
// every line that arrives consists of one letter and has the length that was printed - the text of one call is never cut
// by the text of another - and every goroutine's lines are all there, as when the runs are executed alone.
func TestPrintfOutputIsContiguous(t *testing.T) {
	set := map[string]string{"main.p": "printf(\"%s\\n\", big)\nuse(\"lib.p\")\nprintf(\"%v%v\\n\", big, big)", "lib.p": "printf(\"%s\\n\", big)"}
	ok, errs, crash := impl.LoadV1(set, v1call, v1check)
	if crash != nil || len(errs) > 0 {
		t.Fatalf("harness: %v %v", errs, crash)
	}
	const G, R = 8, 6
	n := 0
	for _, size := range []int{100, 4097, 20000, 70000} {
		f, err := os.CreateTemp("", "c16stdout")
		if err != nil {
			t.Fatalf("harness: %v", err)
		}
		old := os.Stdout
		os.Stdout = f
		var wg sync.WaitGroup
		var mu sync.Mutex
		var failure string
		for g := 0; g < G; g++ {
			wg.Add(1)
			go func(g int) {
				defer wg.Done()
				big := strings.Repeat(string(rune('a'+g)), size)
				for r := 0; r < R; r++ {
					pt := impl.NewPoint("m", nil, map[string]any{"big": big})
					rerr, crash := impl.RunV1(ok["main.p"], pt, nil)
					impl.ReleasePoint(pt)
					if rerr != nil || crash != nil {
						mu.Lock()
						failure = fmt.Sprintf("run failed: %v %v", rerr, crash)
						mu.Unlock()
					}
				}
			}(g)
		}
		wg.Wait()
		os.Stdout = old
		_ = f.Close()
		data, _ := os.ReadFile(f.Name())
		_ = os.Remove(f.Name())
		rp := map[string]any{"scripts": set, "goroutines": G, "runs_each": R, "text_bytes": size}
		if failure != "" {
			rk.Fail(t, "printf-contiguous", rp, "%s", failure)
		}
		count := map[byte]int{}
		lines := strings.Split(strings.TrimSuffix(string(data), "\n"), "\n")
		for li, line := range lines {
			if len(line) != size && len(line) != 2*size {
				rk.Fail(t, "printf-contiguous", rp, "line %d of the captured standard output has %d bytes; every printf call printed %d or %d bytes and a line end (%d goroutines printing at the same time)", li+1, len(line), size, 2*size, G)
			}
			if strings.Trim(line, line[:1]) != "" {
				rk.Fail(t, "printf-contiguous", rp, "line %d of the captured standard output mixes the texts of two printf calls (letters %q ... ): the text of one call was cut by another goroutine's", li+1, clip(strings.Trim(line, line[:1])))
			}
			count[line[0]]++
		}
		for g := 0; g < G; g++ {
			if count[byte('a'+g)] != 3*R {
				rk.Fail(t, "printf-contiguous", rp, "goroutine %d made %d printf calls, %d of its lines arrived", g, 3*R, count[byte('a'+g)])
			}
		}
		evid.Case(fmt.Sprintf("printf-contiguous/%d", size), size > 4096, "printf-output-under-concurrency")
		n += G * R * 3
	}
	evid.Exhaustive("text size x 8 goroutines x 6 runs x 3 printf calls, captured standard output", n)
}

func TestReplays(t *testing.T) {
	files, _ := filepath.Glob(filepath.Join(evid.Dir(), "replays", prop, "*.json"))
	if r := os.Getenv("VERIF_REPLAY"); r != "" {
		files = []string{r}
	}
	for _, f := range files {
		b, err := os.ReadFile(f)
		if err != nil {
			continue
		}
		var r struct {
			Case scenario `json:"case"`
		}
		if json.Unmarshal(b, &r) != nil || len(r.Case.Jobs) == 0 {
			continue
		}
		sc := r.Case
		t.Run(filepath.Base(f), func(t *testing.T) {
			sc.Reps = 50
			execute(t, "replay", &sc)
			evid.Case("replay:"+filepath.Base(f), true, "replay")
		})
	}
}
