package c12

import (
	"encoding/json"
	"fmt"
	"math"
	"os"
	"path/filepath"
	"strings"
	"testing"
	"time"

	"pgregory.net/rapid"
	"verifharness/bmodel"
	"verifharness/evid"
	"verifharness/gen"
	"verifharness/impl"
	"verifharness/model"
	"verifharness/probe"
	"verifharness/rk"
	"verifharness/sem"
	"verifharness/sgen"
)

const prop = "C12"

func TestMain(m *testing.M) {
	evid.Init(prop, "exploration",
		"grok: scripts with nested blocks (if/elif/else, loops) in which uniquely named add_pattern definitions are placed at random positions and grok() calls at random positions reference visible and invisible names and global patterns, typed captures :int :float :bool :str, trim_space true/false/omitted, subjects that are fields, tags, variables, non-strings, absent, matching and non-matching; datetime: epoch values x {s, ms, other} x the 15 documented layout names x unknown layout; default_time: instants 1971..2100 rendered in 16 unambiguous layouts of the documented table (incl. the 7 house patterns and epoch digit strings) x zone argument {absent, +h, -h:mm, IANA name, invalid}; xml: documents from a small tree grammar x XPath queries selecting an element, attribute, text, nothing, or malformed; sql_cover: SQL-like strings from a grammar and garbage. Oracle: grok - the harness resolves every pattern with the same grok library against its own lexical scope model (visible after the defining statement, inside its block and nested blocks, then the global table): unknown name => load error, else RunWithTypeInfo on the subject's string form gives captures, types and the boolean result; datetime - time.Unix(v).Format(layout) from an independent copy of the documented table; default_time - round trip: the point time equals the rendered instant and the key is gone, failures leave the point unchanged except the pl_msg note; xml / sql_cover - the same third-party engine applied in the harness. The whole final point is compared. Non-trivial: grok with a pattern defined in another block, a typed capture or a non-string subject; time with a non-UTC zone argument or house layout; xml attribute or nested selection. Distinct by case text.",
		"third-party engines (grok, dateparse, xmlquery, obfuscate, spf13/cast) are trusted and used inside the oracle",
		"the process runs with TZ=UTC (set by the driver); the year-less house layout uses the current year, read once",
		"shadowing / redefinition of a pattern name is not generated (fn.md and the tests disagree about it)")
	code := m.Run()
	evid.Flush(code == 0)
	os.Exit(code)
}

func id(s string) *gen.Node  { return gen.NIdent(s) }
func str(s string) *gen.Node { return gen.NStr(s) }

const failPrefix = "time convert failed:"

func extraFor(prog []*gen.Node) (map[string]func(*model.Interp, *gen.Node) (any, error), *bmodel.GrokStatic) {
	gs := bmodel.AnalyzeGrok(prog)
	m := bmodel.Field()
	for k, v := range bmodel.Extraction(gs) {
		m[k] = v
	}
	return m, gs
}

// judge compares the implementation with the model (incl. point time and load verdict).
func judge(t rk.Failer, slot string, c *sem.Case, key string, nontrivial bool, labels ...string) *sem.Verdict {
	c.Print(nil)
	extra, gs := extraFor(c.Scripts[c.Root])
	if gs.LoadErr != "" {
		io := sem.RunV1(c, 0)
		if io.Crash != nil {
			rk.Fail(t, slot, c.Replay(""), "loader panicked: %s", io.Crash.Value)
		}
		if len(io.LoadErrs) == 0 {
			rk.Fail(t, slot, c.Replay(""), "script references a pattern that is not visible at that point (%s) but was accepted at load\nscript:\n%s", gs.LoadErr, c.Texts[c.Root])
		}
		evid.Case(key, nontrivial, append(labels, "load-rejected")...)
		return nil
	}
	var io sem.ImplOut
	run := func() sem.ImplOut {
		io = sem.RunV1(c, 0)
		normFail(&io)
		if ag := io.Again; ag != nil {
			io.Again = func(f map[string]any) sem.ImplOut { o := ag(f); normFail(&o); return o }
		}
		return io
	}
	normalise := func(in *model.Interp, call *gen.Node) (any, error) { return nil, nil }
	_ = normalise
	v := sem.Decide(c, run, wrapFail(extra), true, false)
	if v.Discard != nil {
		evid.Discard(v.Discard.Error())
		return nil
	}
	if v.Msg != "" {
		rk.Fail(t, slot, c.Replay(""), "%s\nscript:\n%s\npoint: tags %v fields %v", v.Msg, c.Texts[c.Root], c.Tags, c.Fields)
	}
	want := impl.FixedTime()
	if v.Model.Pt.Time != 0 {
		want = time.Unix(0, v.Model.Pt.Time)
	}
	if !io.Time.Equal(want) {
		rk.Fail(t, slot, c.Replay(""), "point time is %v, reference predicts %v\nscript:\n%s\nfields %v", io.Time.UTC(), want.UTC(), c.Texts[c.Root], c.Fields)
	}
	evid.Case(key, nontrivial, labels...)
	return &v
}

// normFail cuts the failure note of default_time down to its fixed prefix.
func normFail(io *sem.ImplOut) {
	if s, ok := io.Fields["pl_msg"].(string); ok && strings.HasPrefix(s, failPrefix) {
		f := map[string]any{}
		for k, v := range io.Fields {
			f[k] = v
		}
		f["pl_msg"] = failPrefix
		io.Fields = f
	}
}

// wrapFail normalises the failure note text of default_time in the model.
func wrapFail(extra map[string]func(*model.Interp, *gen.Node) (any, error)) map[string]func(*model.Interp, *gen.Node) (any, error) {
	out := map[string]func(*model.Interp, *gen.Node) (any, error){}
	for k, f := range extra {
		out[k] = f
	}
	dt := extra["default_time"]
	out["default_time"] = func(in *model.Interp, c *gen.Node) (any, error) {
		v, err := dt(in, c)
		if pk, ok := in.Pt.Keys["pl_msg"]; ok {
			if s, ok := pk.V.(string); ok && strings.HasPrefix(s, failPrefix) {
				pk.V = failPrefix
			}
		}
		return v, err
	}
	return out
}

// ------------------------------------------------------------------ grok

type patDef struct {
	regex    string
	examples []string
}

var catalog = []patDef{
	{"[a-z]+", []string{"abc", "x", "hello"}},
	{"\\d+", []string{"42", "007", "9"}},
	{"[0-9]+\\.[0-9]+", []string{"3.14", "0.5"}},
	{"(true|false)", []string{"true", "false"}},
	{"\\s*\\w+\\s*", []string{" pad ", "w", "  lead"}},
	// numbers and truth values with padding: a typed capture is converted from the trimmed text when trim_space is on
	{"\\s*[0-9.]+\\s*", []string{" 42 ", "1.5 ", "  7", "3"}},
	{"\\s*(true|false)\\s*", []string{" true ", "false  ", " false"}},
	{"\\s*-?[0-9]+\\t?", []string{" -12\t", "8\t", "  0"}},
}

var globals = []patDef{
	{"INT", []string{"-12", "7"}}, {"WORD", []string{"word", "W0rd"}}, {"NUMBER", []string{"2.5", "10"}}, {"NOTSPACE", []string{"a,b", "x"}}, {"IP", []string{"10.0.0.1"}},
}

type grokGen struct {
	t        *rapid.T
	defined  int
	visible  [][]string          // lexical scopes of defined custom names
	examples map[string][]string // name -> example matches
	all      []string            // every custom name defined anywhere (so calls can reference invisible ones)
	feat     map[string]bool
	nProbe   int
	exs      []map[string][]string // per scope: examples of the definitions made in it
}

func (g *grokGen) n(l string, lo, hi int) int { return rapid.IntRange(lo, hi).Draw(g.t, l) }

func (g *grokGen) push() {
	g.visible = append(g.visible, nil)
	g.exs = append(g.exs, map[string][]string{})
}

func (g *grokGen) pop() {
	g.visible = g.visible[:len(g.visible)-1]
	g.exs = g.exs[:len(g.exs)-1]
}

// ex returns the example subjects of the definition of name that is visible here (innermost scope first).
func (g *grokGen) ex(name string) []string {
	for i := len(g.exs) - 1; i >= 0; i-- {
		if e, ok := g.exs[i][name]; ok {
			return e
		}
	}
	if e, ok := g.examples[name]; ok {
		return e
	}
	return []string{"###"}
}

func (g *grokGen) visibleNames() []string {
	var out []string
	for _, s := range g.visible {
		out = append(out, s...)
	}
	return out
}

func (g *grokGen) addPattern() *gen.Node {
	g.defined++
	name := fmt.Sprintf("p%d", g.defined)
	if len(g.all) > 0 && g.n("redefine", 0, 2) == 0 {
		// an existing name again: redefined in the same block or shadowed in a nested one - the enclosing
		// definition is back in force when the block ends
		name = g.all[g.n("redefname", 0, len(g.all)-1)]
		g.feat["pattern-name-redefined-or-shadowed"] = true
	} else if g.n("shadow-default", 0, 5) == 0 {
		// a name of the default table, redefined for this block only
		name = globals[g.n("defname", 0, len(globals)-1)].regex
		g.feat["default-pattern-name-redefined"] = true
	}
	var regex string
	var ex []string
	vis := g.visibleNames()
	if len(vis) > 0 && g.n("compose", 0, 2) == 0 {
		base := vis[g.n("base", 0, len(vis)-1)]
		regex = "%{" + base + "}"
		ex = g.ex(base)
		g.feat["pattern-composed-of-custom"] = true
	} else if g.n("useglobal", 0, 3) == 0 {
		gl := globals[g.n("gl", 0, len(globals)-1)]
		regex, ex = "%{"+gl.regex+"}", gl.examples
	} else {
		p := catalog[g.n("cat", 0, len(catalog)-1)]
		regex, ex = p.regex, p.examples
	}
	g.examples[name] = ex // fallback for references from where no definition is visible
	g.exs[len(g.exs)-1][name] = ex
	g.visible[len(g.visible)-1] = append(g.visible[len(g.visible)-1], name)
	g.all = append(g.all, name)
	return gen.NCall("add_pattern", str(name), str(regex))
}

var subjects = []string{"message", "f1", "t1", "v1", "nokey", "n1", "x1", "_var", "_pt"}

func (g *grokGen) grokCall(fields map[string]any, tags map[string]string) []*gen.Node {
	nItems := g.n("nitems", 1, 3)
	usedCaps := map[string]bool{}
	var parts, example []string
	usedInvisible := false
	for i := 0; i < nItems; i++ {
		var name string
		var ex []string
		vis := g.visibleNames()
		switch {
		case len(g.all) > 0 && g.n("custom", 0, 2) != 0:
			if len(vis) > 0 && g.n("visible", 0, 3) != 0 {
				name = vis[g.n("vis", 0, len(vis)-1)]
				g.feat["custom-pattern"] = true
			} else {
				name = g.all[g.n("any", 0, len(g.all)-1)]
				inVis := false
				for _, v := range vis {
					if v == name {
						inVis = true
					}
				}
				if !inVis {
					usedInvisible = true
				}
			}
			ex = g.ex(name)
		default:
			gl := globals[g.n("gl", 0, len(globals)-1)]
			name, ex = gl.regex, gl.examples
		}
		item := "%{" + name
		if g.n("capture", 0, 4) != 0 {
			// capture names of one expression name distinct keys (two captures for one key: which one wins is unspecified)
			capName := fmt.Sprintf("c%d", i)
			switch g.n("capname", 0, 11) {
			case 0:
				if !usedCaps["message"] {
					capName = "_" // the message alias as a capture name
					usedCaps["message"] = true
					g.feat["capture-named-like-the-message-alias"] = true
				}
			case 1:
				if sj := subjects[g.n("capsubj", 0, len(subjects)-1)]; !usedCaps[sj] {
					capName = sj // an existing key / variable / tag name
					usedCaps[sj] = true
					g.feat["capture-named-like-an-existing-key"] = true
				}
			}
			item += ":" + capName
			if g.n("typed", 0, 1) == 0 {
				item += ":" + []string{"int", "float", "bool", "str"}[g.n("ty", 0, 3)]
				g.feat["typed-capture"] = true
			}
		}
		item += "}"
		parts = append(parts, item)
		example = append(example, ex[g.n("ex", 0, len(ex)-1)])
	}
	sep := []string{" ", "-", ","}[g.n("sep", 0, 2)]
	pattern := strings.Join(parts, sep)
	subj := subjects[g.n("subj", 0, len(subjects)-1)]
	text := strings.Join(example, sep)
	if g.n("mismatch", 0, 4) == 0 {
		text = "###"
		g.feat["non-matching-subject"] = true
	}
	var pre []*gen.Node
	switch subj {
	case "message", "f1":
		fields[subj] = text
	case "t1":
		tags[subj] = text
		g.feat["tag-subject"] = true
	case "v1":
		pre = append(pre, gen.NSet("v1", str(text)))
		g.feat["variable-subject"] = true
	case "_var":
		// the variable behind the spelling _ hides the point's message
		pre = append(pre, gen.NSet([]string{"_", "message"}[g.n("uspelling", 0, 1)], str(text)))
		if _, has := fields["message"]; !has {
			fields["message"] = "### the point's own message"
		}
		subj = "_"
		g.feat["underscore-variable-subject"] = true
	case "_pt":
		fields["message"] = text
		subj = "_"
		g.feat["underscore-subject"] = true
	case "n1":
		fields[subj] = int64(42)
		g.feat["non-string-subject"] = true
	case "x1":
		// a float subject: its string form is what the pattern sees (small, large, non-finite and ordinary values)
		fields[subj] = []any{5e-7, 1e21, math.NaN(), math.Inf(-1), 2.5, -0.0, 1e-7, 123456789012345678.0, float64(1 << 53)}[g.n("floatsubj", 0, 8)]
		g.feat["float-subject"] = true
	}
	if usedInvisible {
		g.feat["invisible-pattern"] = true
	}
	args := []*gen.Node{id(subj), str(pattern)}
	switch g.n("trim", 0, 2) {
	case 0:
		args = append(args, gen.NBool(true))
	case 1:
		args = append(args, gen.NBool(false))
		g.feat["trim_space=false"] = true
	}
	g.nProbe++
	call := gen.NCall("grok", args...)
	if g.n("asvalue", 0, 1) == 0 {
		return append(pre, gen.NSet("ok", call), gen.NCall("probe", str(fmt.Sprint("grok", g.nProbe)), id("ok")))
	}
	return append(pre, call)
}

func (g *grokGen) block(depth int, fields map[string]any, tags map[string]string) []*gen.Node {
	var out []*gen.Node
	n := g.n("nstmt", 1, 4)
	for i := 0; i < n; i++ {
		switch k := g.n("kind", 0, 9); {
		case k <= 2:
			out = append(out, g.addPattern())
		case k <= 5:
			out = append(out, g.grokCall(fields, tags)...)
		case k <= 7 && depth > 0:
			nb := g.n("nbranch", 1, 2)
			var conds []*gen.Node
			var blocks [][]*gen.Node
			for b := 0; b < nb; b++ {
				conds = append(conds, gen.NBool(g.n("condv", 0, 2) != 0))
				g.push()
				blocks = append(blocks, g.block(depth-1, fields, tags))
				g.pop()
			}
			hasElse := g.n("else", 0, 1) == 0
			var els []*gen.Node
			if hasElse {
				g.push()
				els = g.block(depth-1, fields, tags)
				g.pop()
			}
			g.feat["branch"] = true
			out = append(out, gen.NIf(conds, blocks, els, hasElse))
		case k == 8 && depth > 0:
			g.push()
			body := g.block(depth-1, fields, tags)
			g.pop()
			g.feat["loop"] = true
			out = append(out, gen.NForIn("it", gen.NList(gen.NInt(1)), body))
		default:
			out = append(out, g.grokCall(fields, tags)...)
		}
	}
	return out
}

func TestGrokScopes(t *testing.T) {
	rk.Check(t, "grok", 1, evid.Scale(2500, 20000), func(t *rapid.T) {
		g := &grokGen{t: t, visible: [][]string{nil}, exs: []map[string][]string{{}}, examples: map[string][]string{}, feat: map[string]bool{}}
		fields := map[string]any{"keep": int64(1)}
		tags := map[string]string{"keeptag": "kt"}
		prog := g.block(rapid.IntRange(0, 3).Draw(t, "depth"), fields, tags)
		c := sem.NewCase(gen.FixAll(prog))
		c.Fields, c.Tags = fields, tags
		var labels []string
		for f := range g.feat {
			labels = append(labels, "grok/"+f)
		}
		nt := g.feat["pattern-name-redefined-or-shadowed"] || g.feat["default-pattern-name-redefined"] || g.feat["typed-capture"] || g.feat["non-string-subject"] || (g.feat["custom-pattern"] && (g.feat["branch"] || g.feat["loop"])) || g.feat["invisible-pattern"]
		v := judge(t, "grok", c, "grok:"+gen.ShapeAll(prog), nt, labels...)
		if v != nil && nt {
			evid.Sample(map[string]any{"script": c.Texts[c.Root], "fields": fmt.Sprint(c.Fields), "reference_fields": fmt.Sprint(v.Model.Pt.Fields())})
		}
	})
}

// TestGrokSizes: many captures in one expression (past 9, 32, 64), alias chains 2..40 deep, subjects of 70000 bytes,
// capture names that collide with existing keys of every kind.
func TestGrokSizes(t *testing.T) {
	n := 0
	run := func(key string, fields map[string]any, tags map[string]string, prog ...*gen.Node) {
		c := sem.NewCase(gen.FixAll(prog))
		c.Fields, c.Tags = fields, tags
		judge(t, "groksize", c, key, true, "grok-sizes")
		n++
	}
	for _, k := range []int{1, 9, 10, 11, 31, 32, 33, 64, 65, 100} {
		var pat, subj []string
		for i := 0; i < k; i++ {
			ty := []string{":int", ":float", ":str", "", ":bool"}[i%5]
			base := []string{"INT", "NUMBER", "WORD", "NOTSPACE", "WORD"}[i%5]
			pat = append(pat, fmt.Sprintf("%%{%s:c%d%s}", base, i, ty))
			subj = append(subj, []string{fmt.Sprint(i), fmt.Sprintf("%d.5", i), "w", "x-y", "true"}[i%5])
		}
		run(fmt.Sprintf("captures/%d", k), map[string]any{"message": strings.Join(subj, " "), "c0": "was here", "c2": int64(7)}, map[string]string{"c1": "tag", "c3": "tag3"},
			gen.NSet("ok", gen.NCall("grok", id("_"), str(strings.Join(pat, " ")))), gen.NCall("probe", str("ok"), id("ok"), id("c0"), id(fmt.Sprintf("c%d", k-1))))
	}
	for _, d := range []int{2, 9, 10, 16, 17, 33, 40} {
		prog := []*gen.Node{gen.NCall("add_pattern", str("p0"), str("\\d+"))}
		for i := 1; i <= d; i++ {
			prog = append(prog, gen.NCall("add_pattern", str(fmt.Sprintf("p%d", i)), str(fmt.Sprintf("x?%%{p%d}", i-1))))
		}
		prog = append(prog, gen.NSet("ok", gen.NCall("grok", id("_"), str(fmt.Sprintf("%%{WORD:w} %%{p%d:val:int}", d)))), gen.NCall("probe", str("ok"), id("ok"), id("val"), id("w")))
		run(fmt.Sprintf("alias-depth/%d", d), map[string]any{"message": "abc 12345"}, map[string]string{}, prog...)
	}
	for _, ln := range []int{255, 4096, 65536, 70000} {
		long := strings.Repeat("ab ", ln/3)
		run(fmt.Sprintf("long-subject/%d", ln), map[string]any{"message": "head 42 " + long}, map[string]string{},
			gen.NSet("ok", gen.NCall("grok", id("_"), str("%{WORD:h} %{INT:n:int} %{GREEDYDATA:rest}"))), gen.NCall("probe", str("ok"), id("ok"), id("h"), id("n"), gen.NCall("len", id("rest"))))
		run(fmt.Sprintf("long-subject-nomatch/%d", ln), map[string]any{"message": long}, map[string]string{},
			gen.NSet("ok", gen.NCall("grok", id("_"), str("^%{INT:n:int}$"))), gen.NCall("probe", str("ok"), id("ok"), id("n")))
	}
	evid.Exhaustive("captures per expression 1..100; alias chains 2..40; subjects to 70000 bytes", n)
}

// TestGrokAbsentCaptures: a named capture that takes no part in the match - it sits in an optional group that was
// skipped, in an alternative that was not taken - is written like a capture that matched the empty text, for every
// declared type; the captures that did take part are written as usual.
func TestGrokAbsentCaptures(t *testing.T) {
	n := 0
	for _, ty := range []string{"", ":int", ":float", ":str", ":bool"} {
		pats := []struct {
			pat   string
			subjs []string
		}{
			{"(?:%{INT:code" + ty + "} )?%{WORD:w}", []string{"hello", "42 hello", " hello", "42"}},
			{"%{WORD:verb} (?:%{NUMBER:bytes" + ty + "}|-)", []string{"GET -", "GET 17", "GET 1.5", "GET"}},
			{"%{WORD:a}(?: %{WORD:b" + ty + "})?$", []string{"one", "one two", "one true", "one 2"}},
			{"^(?:%{INT:x" + ty + "}|%{WORD:y" + ty + "})$", []string{"12", "word", "true", "-"}},
			{"%{WORD:a}(?: (?:%{INT:deep" + ty + "})?)?", []string{"one", "one ", "one 5"}},
			{"(%{INT:n" + ty + "})*%{WORD:w}", []string{"abc", "12abc"}},
		}
		for pi, pc := range pats {
			for si, subj := range pc.subjs {
				for form := 0; form < 2; form++ {
					g := gen.NCall("grok", id("_"), str(pc.pat))
					if form == 1 {
						g = gen.NCall("grok", id("_"), str(pc.pat), gen.NBool(false))
					}
					c := sem.NewCase(gen.FixAll([]*gen.Node{gen.NSet("ok", g),
						gen.NCall("probe", str("ok"), id("ok"), gen.NCall("get_key", str("code")), gen.NCall("get_key", str("bytes")), gen.NCall("get_key", str("b")), gen.NCall("get_key", str("x")), gen.NCall("get_key", str("y")), gen.NCall("get_key", str("deep")), gen.NCall("get_key", str("n")), gen.NCall("get_key", str("w")))}))
					c.Fields = map[string]any{"message": subj, "keep": int64(42)}
					judge(t, "grok-absent", c, fmt.Sprintf("grokabsent/%s/%d/%d/%d", ty, pi, si, form), true, "grok-absent-capture")
					n++
				}
			}
		}
	}
	evid.Exhaustive("declared type x pattern with an optional / alternative named capture x subject x trim flag", n)
}

// ------------------------------------------------------------------ datetime

func TestDatetime(t *testing.T) {
	var names []string
	for n := range bmodel.DateLayouts {
		names = append(names, n)
	}
	names = append(names, "nope", "", "rfc3339")
	rk.Check(t, "datetime", 2, evid.Scale(2500, 20000), func(t *rapid.T) {
		var v any
		switch rapid.IntRange(0, 7).Draw(t, "vkind") {
		case 6, 7:
			// calendar corners (see cornerInstants), as seconds, milliseconds, microseconds or nanoseconds
			sec := cornerInstants[rapid.IntRange(0, len(cornerInstants)-1).Draw(t, "cornerinst")] + rapid.SampledFrom([]int64{0, 0, -1, 1}).Draw(t, "corneroff")
			v = sec * rapid.SampledFrom([]int64{1, 1000, 1000, 1000000, 1000000000}).Draw(t, "unit")
			if rapid.IntRange(0, 3).Draw(t, "frac") == 0 {
				v = v.(int64) + rapid.SampledFrom([]int64{1, 999, 500}).Draw(t, "fracv")
			}
			evid.Label("datetime/corner-instant")
		case 0, 1, 2:
			v = rapid.Int64Range(-1, 4102444800000).Draw(t, "epoch")
		case 3:
			v = fmt.Sprint(rapid.Int64Range(0, 4102444800).Draw(t, "epochs"))
		case 4:
			v = rapid.SampledFrom([]any{1.5e9, "abc", nil, true, ""}).Draw(t, "odd")
		default:
			v = rapid.Int64().Draw(t, "any")
		}
		prec := rapid.SampledFrom([]string{"s", "ms", "ms", "s", "us", "", "S", "MS", "Ms", "mS", "ns", "sec", " ms", "m"}).Draw(t, "prec")
		layout := rapid.SampledFrom(names).Draw(t, "layout")
		sit := rapid.SampledFrom([]string{"field", "variable", "tag", "absent"}).Draw(t, "situation")
		var prog []*gen.Node
		c := sem.NewCase(nil)
		c.Fields = map[string]any{"keep": "k"}
		c.Tags = map[string]string{}
		switch sit {
		case "field":
			c.Fields["ts"] = v
		case "variable":
			prog = append(prog, gen.NSet("ts", sgen.Lit(v)))
		case "tag":
			c.Tags["ts"] = fmt.Sprint(v)
		}
		prog = append(prog, gen.NCall("datetime", id("ts"), str(prec), str(layout)))
		c.Scripts[c.Root] = gen.FixAll(prog)
		_, known := bmodel.DateLayouts[layout]
		judge(t, "datetime", c, fmt.Sprintf("dt/%v/%s/%s/%s", v, prec, layout, sit), true, "datetime/"+sit, map[bool]string{true: "datetime/known-layout", false: "datetime/unknown-layout"}[known])
	})
}

// ------------------------------------------------------------------ default_time

type tlayout struct {
	layout   string
	house    bool
	zoned    bool // the text carries its own offset
	prec     time.Duration
	yearless bool
}

var tlayouts = []tlayout{
	{"2006-01-02 15:04:05.000000000", false, false, time.Nanosecond, false},
	{"2006-01-02 15:04:05.000", false, false, time.Millisecond, false},
	{"2006-01-02 15:04:05", false, false, time.Second, false},
	{"2006-01-02 15:04", false, false, time.Minute, false},
	{"2006-01-02 15:04:05 -0700", false, true, time.Second, false},
	{"2006-01-02 15:04:05 -07:00", false, true, time.Second, false},
	{"Mon, 02 Jan 2006 15:04:05 -0700", false, true, time.Second, false},
	{"Jan 2, 2006 3:04:05 PM", false, false, time.Second, false},
	{"02/Jan/2006:15:04:05 -0700", true, true, time.Second, false},
	{"02 Jan 2006 15:04:05.000", true, false, time.Millisecond, false},
	{"02 Jan 15:04:05.000", true, false, time.Millisecond, true},
	{"060102 15:04:05", true, false, time.Second, false},
	{"2006/01/02 - 15:04:05", true, false, time.Second, false},
	{"Mon Jan 2 15:04:05.000000 2006", true, false, time.Microsecond, false},
	{"2006-01-02 15:04:05.000 UTC", true, false, time.Millisecond, false},
	{"epoch", false, true, time.Second, false},
}

var zones = append([]string{"", "", "+8", "-5", "+5:30", "-3:30", "+0", "Asia/Shanghai", "America/New_York", "UTC", "Europe/London", "+99", "Nowhere/City", "-0",
	"", "+8", "-5", "Asia/Shanghai", "America/New_York", "UTC", "Europe/London", "+5:30"}, sgen.ZoneArgs...)

func zoneLabel(z string) string {
	if len(z) > 14 {
		return "zone/(long)"
	}
	for _, r := range z {
		if r < ' ' || r > '~' {
			return "zone/(non-ascii)"
		}
	}
	return "zone/" + z
}

var thisYear = time.Now().Year()

var cornerInstants = func() []int64 {
	var out []int64
	for _, d := range []string{
		"2000-02-29 00:00:00", "2000-02-29 23:59:59", "2024-02-29 12:00:00", "2100-02-28 23:59:59", "2100-03-01 00:00:00", "1900-03-01 00:00:00",
		"1999-12-31 23:59:59", "2000-01-01 00:00:00", "2021-12-31 23:59:59", "2022-01-01 00:00:00", "2016-12-31 23:59:59",
		"2021-01-31 23:59:59", "2021-04-30 23:59:59", "2021-06-15 12:00:00", "2021-06-15 00:00:00", "2021-06-15 12:59:59", "2021-06-15 00:59:59", "2021-06-15 11:59:59",
		"2021-03-14 06:59:59", "2021-03-14 07:00:00", "2021-03-14 02:30:00", "2021-11-07 05:59:59", "2021-11-07 06:00:00", "2021-11-07 01:30:00",
		"2021-03-28 00:59:59", "2021-03-28 01:00:00", "2021-03-28 01:30:00", "2021-10-31 00:59:59", "2021-10-31 01:00:00", "2021-10-31 01:30:00",
		"1986-05-03 16:00:00", "1986-05-04 02:30:00", "1986-09-13 15:00:00", "1991-04-14 02:00:00", "1988-07-01 12:00:00",
		"2038-01-19 03:14:07", "2038-01-19 03:14:08", "2001-09-09 01:46:40", "1971-01-01 00:00:00", "2099-12-31 23:59:59",
	} {
		tm, err := time.Parse("2006-01-02 15:04:05", d)
		if err != nil {
			panic(err)
		}
		out = append(out, tm.Unix())
	}
	return out
}()

func TestDefaultTime(t *testing.T) {
	rk.Check(t, "default_time", 3, evid.Scale(3000, 25000), func(t *rapid.T) {
		now := time.Now()
		if now.Month() == time.December && now.Day() == 31 && now.Hour() == 23 || now.Month() == time.January && now.Day() == 1 && now.Hour() == 0 {
			t.Skip("within an hour of New Year: the year-less layout is ambiguous")
		}
		tl := tlayouts[rapid.IntRange(0, len(tlayouts)-1).Draw(t, "layout")]
		zone := rapid.SampledFrom(zones).Draw(t, "zone")
		sec := rapid.Int64Range(31536000, 4102444800).Draw(t, "sec")
		nsec := rapid.Int64Range(0, 999999999).Draw(t, "nsec")
		if rapid.IntRange(0, 2).Draw(t, "corner") == 0 {
			// calendar and clock corners: leap days, year and month ends, noon / midnight, daylight-saving changes of the
			// named zones (New York 2021-03-14 / 2021-11-07, London 2021-03-28 / 2021-10-31, Shanghai 1986..1991), 2038
			sec = cornerInstants[rapid.IntRange(0, len(cornerInstants)-1).Draw(t, "cornerinst")] + rapid.SampledFrom([]int64{0, 0, -1, 1, 1800, -1800, 3600, -3600}).Draw(t, "corneroff")
			nsec = rapid.SampledFrom([]int64{0, 999999999, 1, 500000000, 999000000, 1000000}).Draw(t, "cornernsec")
			evid.Label("default_time/corner-instant")
		}
		inst := time.Unix(sec, nsec).UTC()
		if tl.yearless {
			inst = time.Date(thisYear, inst.Month(), inst.Day(), inst.Hour(), inst.Minute(), inst.Second(), inst.Nanosecond(), time.UTC)
		}
		// the text is written in some zone of its own
		writeLoc := time.UTC
		if tl.zoned && tl.layout != "epoch" {
			writeLoc = time.FixedZone("", []int{0, 8 * 3600, -5 * 3600, 5*3600 + 1800}[rapid.IntRange(0, 3).Draw(t, "textzone")])
			if tl.house {
				writeLoc = time.FixedZone("", []int{0, 8 * 3600, 3600, -5 * 3600, -(3*3600 + 1800), 5*3600 + 1800, -11 * 3600}[rapid.IntRange(0, 6).Draw(t, "textzone+")])
			}
		}
		var text string
		if tl.layout == "epoch" {
			switch rapid.IntRange(0, 2).Draw(t, "epochunit") {
			case 0:
				text = fmt.Sprint(inst.Unix())
			case 1:
				text = fmt.Sprint(inst.UnixNano() / 1e6)
			default:
				text = fmt.Sprint(inst.UnixNano())
			}
		} else {
			text = inst.In(writeLoc).Format(tl.layout)
			// the same instant written with a one-digit hour / day where the clock shows one
			if h := inst.In(writeLoc).Hour(); h < 10 && strings.Contains(tl.layout, "15") && rapid.IntRange(0, 2).Draw(t, "shorthour") == 0 {
				alt := strings.Replace(tl.layout, "15", "\x01", 1)
				text = strings.Replace(inst.In(writeLoc).Format(alt), "\x01", fmt.Sprint(h), 1)
				evid.Label("default_time/one-digit-hour")
			}
		}
		if rapid.IntRange(0, 9).Draw(t, "garbage") == 0 {
			text = rapid.SampledFrom([]string{"not a time", "", "2021-13-45 99:99:99", "12345", "yesterday"}).Draw(t, "garbagetext")
		}
		sit := rapid.SampledFrom([]string{"field", "field", "variable", "tag", "absent", "underscore-variable", "variable@outer-block"}).Draw(t, "situation")
		c := sem.NewCase(nil)
		c.Fields = map[string]any{"keep": "k"}
		c.Tags = map[string]string{}
		var prog []*gen.Node
		subj := id("ts")
		switch sit {
		case "field":
			c.Fields["ts"] = text
			if rapid.IntRange(0, 5).Draw(t, "intsubject") == 0 {
				// an integer-typed subject: its decimal string form is what is parsed (9..19 digits, also the compact
				// date layout yyyymmddhhmmss, negatives)
				c.Fields["ts"] = rapid.SampledFrom([]int64{999999999, 1600000000, 16000000000, 160000000000, 1600000000000, 16000000000000, 20140722105203, 19991231235959, 160000000000000,
					1600000000000000, 16000000000000000, 160000000000000000, 1600000000000000000, 9223372036854775807, -1600000000, 0, 20210527}).Draw(t, "intts")
				evid.Label("default_time/integer-subject")
			}
		case "variable", "variable@outer-block":
			prog = append(prog, gen.NSet("ts", str(text)), gen.NCall("add_key", id("ts")))
		case "tag":
			c.Tags["ts"] = text
		case "underscore-variable":
			// the variable behind the spelling _ (it is called message) hides the point's message
			c.Fields["message"] = "the point's own message"
			prog = append(prog, gen.NSet(rapid.SampledFrom([]string{"_", "message"}).Draw(t, "uspelling"), str(text)))
			subj = id("_")
		}
		var call *gen.Node
		if zone == "" && rapid.Bool().Draw(t, "omitzone") {
			call = gen.NCall("default_time", subj)
		} else {
			call = gen.NCall("default_time", subj, str(zone))
		}
		// an earlier default_time on another key of the same point: failing (its note stays whatever happens later) or succeeding
		switch rapid.IntRange(0, 5).Draw(t, "earlier") {
		case 0:
			c.Fields["ts0"] = rapid.SampledFrom([]string{"not a time at all", "", "99/99/9999"}).Draw(t, "ts0bad")
			prog = append([]*gen.Node{gen.NCall("default_time", id("ts0"))}, prog...)
			evid.Label("default_time/after-a-failed-call")
		case 1:
			c.Fields["ts0"] = "2021-05-27 06:54:14"
			prog = append([]*gen.Node{gen.NCall("default_time", id("ts0"), str("Mars/Olympus"))}, prog...)
			evid.Label("default_time/after-a-failed-call")
		case 2:
			c.Fields["ts0"] = "2019-01-02 03:04:05"
			prog = append([]*gen.Node{gen.NCall("default_time", id("ts0"), str("UTC"))}, prog...)
			evid.Label("default_time/after-a-successful-call")
		}
		if sit == "variable@outer-block" {
			// the variable lives in a block between the top level and the block of the call
			prog = []*gen.Node{gen.NIf([]*gen.Node{gen.NBool(true)}, [][]*gen.Node{append(prog, gen.NIf([]*gen.Node{gen.NBool(true)}, [][]*gen.Node{{call}}, nil, false))}, nil, false)}
		} else {
			prog = append(prog, call)
		}
		c.Scripts[c.Root] = gen.FixAll(prog)
		nt := tl.house || (zone != "" && zone != "UTC" && zone != "+0")
		v := judge(t, "default_time", c, fmt.Sprintf("deft/%s/%s/%s/%s", tl.layout, zone, text, sit), nt, "default_time/"+sit, zoneLabel(zone), map[bool]string{true: "layout/house", false: "layout/general"}[tl.house])
		if v != nil && nt && v.Model.Pt.Time != 0 {
			evid.Sample(map[string]any{"script": c.Texts[c.Root], "subject": text, "reference_time": time.Unix(0, v.Model.Pt.Time).UTC().String()})
		}
		// round-trip strength: when the reference itself reads the text back to the instant, the point must carry that instant
		if v != nil && sit != "absent" && v.Model.Pt.Time != 0 && (tl.zoned || zone == "" || zone == "UTC") && !strings.Contains(text, "not") {
			want := inst.Truncate(tl.prec)
			if tl.layout != "epoch" && !time.Unix(0, v.Model.Pt.Time).Equal(want) {
				evid.Label("roundtrip/reference-differs-from-instant") // e.g. two-digit years, zone-less text read in a zone: not a violation, just counted
			} else {
				evid.Label("roundtrip/exact")
			}
		}
	})
}

// ------------------------------------------------------------------ xml

func genXML(t *rapid.T, depth int) string {
	tags := []string{"a", "b", "c", "item"}
	tag := rapid.SampledFrom(tags).Draw(t, "tag")
	attr := ""
	if rapid.Bool().Draw(t, "attr") {
		attr = fmt.Sprintf(" id=%q", rapid.SampledFrom([]string{"1", "x", "é", ""}).Draw(t, "attrv"))
	}
	var body strings.Builder
	n := rapid.IntRange(0, 3).Draw(t, "nchildren")
	for i := 0; i < n; i++ {
		if depth > 0 && rapid.Bool().Draw(t, "elem") {
			body.WriteString(genXML(t, depth-1))
		} else {
			body.WriteString(rapid.SampledFrom([]string{"text", " ", "42", "é&amp;", "<![CDATA[raw <x>]]>"}).Draw(t, "text"))
		}
	}
	return fmt.Sprintf("<%s%s>%s</%s>", tag, attr, body.String(), tag)
}

func TestXML(t *testing.T) {
	xpaths := sgen.XPaths
	rk.Check(t, "xml", 4, evid.Scale(1500, 12000), func(t *rapid.T) {
		doc := genXML(t, 3)
		switch rapid.IntRange(0, 9).Draw(t, "breakdoc") {
		case 0:
			doc = doc[:len(doc)/2]
		case 1:
			doc = "plain text"
		case 2:
			doc = "<?xml version=\"1.0\"?>" + doc
		case 3, 4:
			// what may stand before the root element: a byte order mark, blanks, a declaration, a comment, a
			// processing instruction, a DOCTYPE, plain text (a log line with an XML payload), and what may follow it
			pre := rapid.SampledFrom([]string{"\ufeff", "\ufeff<?xml version=\"1.0\" encoding=\"UTF-8\"?>", " \n\t", "<!-- c -->", "<?pi x?>", "<!DOCTYPE a>", "2021-01-01 INFO payload=", "x", "\u00a0", "\r\n", "]]>", "&amp;"}).Draw(t, "prefix")
			post := rapid.SampledFrom([]string{"", "", "\n", " trailing text", "<!-- end -->", "<b>second root</b>"}).Draw(t, "suffix")
			doc = pre + doc + post
			evid.Label("xml/prefixed-document")
		}
		xp := rapid.SampledFrom(xpaths).Draw(t, "xpath")
		sit := rapid.SampledFrom([]string{"field", "field", "variable", "tag", "absent", "non-string", "underscore-variable", "variable@for-in"}).Draw(t, "situation")
		dst := rapid.SampledFrom([]*gen.Node{id("out"), str("out"), gen.NAttr(id("o"), id("p")), id("src"), id("keeptag")}).Draw(t, "dst")
		c := sem.NewCase(nil)
		c.Fields = map[string]any{"keep": "k"}
		c.Tags = map[string]string{"keeptag": "kt"}
		var prog []*gen.Node
		switch sit {
		case "field":
			c.Fields["src"] = doc
		case "variable":
			prog = append(prog, gen.NSet("src", str(doc)))
		case "tag":
			c.Tags["src"] = doc
		case "non-string":
			c.Fields["src"] = int64(5)
		}
		switch sit {
		case "underscore-variable":
			c.Fields["message"] = "<a>the point's own message</a>"
			prog = append(prog, gen.NSet(rapid.SampledFrom([]string{"_", "message"}).Draw(t, "uspelling"), str(doc)), gen.NCall("xml", id("_"), str(xp), dst.Clone()))
		case "variable@for-in":
			// the subject is the variable of a loop, the call sits in a block of the loop body
			prog = append(prog, gen.NForIn("src", gen.NList(str(doc)), []*gen.Node{gen.NIf([]*gen.Node{gen.NBool(true)}, [][]*gen.Node{{gen.NCall("xml", id("src"), str(xp), dst.Clone())}}, nil, false)}))
		default:
			prog = append(prog, gen.NCall("xml", id("src"), str(xp), dst.Clone()))
		}
		c.Scripts[c.Root] = gen.FixAll(prog)
		nt := strings.Contains(xp, "@") || strings.Count(xp, "/") >= 2
		v := judge(t, "xml", c, "xml/"+doc+"/"+xp+"/"+sit+gen.PrintExpr(dst), nt, "xml/"+sit)
		if v != nil && nt && len(v.Model.Pt.Keys) > 3 {
			evid.Sample(map[string]any{"script": c.Texts[c.Root], "document": doc, "reference_fields": fmt.Sprint(v.Model.Pt.Fields())})
		}
	})
}

// ------------------------------------------------------------------ sql_cover

func genSQL(t *rapid.T) string {
	if rapid.IntRange(0, 4).Draw(t, "garbage") == 0 {
		return rapid.SampledFrom([]string{"", "not sql at all !!", "'unterminated", "\x00\x01", "SELECT", "é注", "select 'a''b' from", "/* c */", "-- only a comment"}).Draw(t, "garbagesql")
	}
	col := rapid.SampledFrom([]string{"*", "id", "a, b", "count(*)"}).Draw(t, "col")
	tbl := rapid.SampledFrom([]string{"t", "users", "db.tbl", "`q t`"}).Draw(t, "tbl")
	val := rapid.SampledFrom([]string{"1", "'x'", "3.5", "'it''s'", "NULL", "(1, 2, 3)", "?", "'backslash\\'", "'a\\'b'", "'c:\\dir\\'", "'\\\\'", "\"dq\\\"", "'x\\' AND id ='1234'", "$1", "'é'"}).Draw(t, "val")
	switch rapid.IntRange(0, 6).Draw(t, "stmt") {
	case 4:
		// a string literal followed by a comment that holds a quote: how the text splits into tokens depends on
		// whether a backslash escapes the quote
		cm := rapid.SampledFrom([]string{"-- ', b\n", "/* ' */, b ", "-- x\n", "# ' \n", "/* '' */ "}).Draw(t, "comment")
		return fmt.Sprintf("SELECT %s %sFROM %s", val, cm, tbl)
	case 5, 6:
		// token soup
		frags := []string{"SELECT ", "FROM t", " WHERE ", "a", ", b", " = ", "'a\\'", "'x'", " -- ", "'", "\n", "/* ", " */", "1", " AND id ='1234'", "'backslash\\'", "''", "\\", "\"", " ", "`", "$tag$", "N'x'", "0x1F", ";", "(", ")"}
		var b strings.Builder
		for i, n := 0, rapid.IntRange(2, 9).Draw(t, "nfrag"); i < n; i++ {
			b.WriteString(frags[rapid.IntRange(0, len(frags)-1).Draw(t, "frag")])
		}
		return b.String()
	case 0:
		return fmt.Sprintf("SELECT %s FROM %s WHERE id = %s", col, tbl, val)
	case 1:
		return fmt.Sprintf("insert into %s values (%s, %s)", tbl, val, val)
	case 2:
		return fmt.Sprintf("UPDATE %s SET a = %s WHERE b IN %s -- trailing", tbl, val, "(1,2)")
	default:
		return fmt.Sprintf("select %s from %s where name like %s and n > %s limit 10", col, tbl, "'%abc%'", val)
	}
}

func TestSQLCover(t *testing.T) {
	rk.Check(t, "sql", 5, evid.Scale(800, 6000), func(t *rapid.T) {
		sql := genSQL(t)
		sit := rapid.SampledFrom([]string{"field", "field", "variable", "tag", "absent", "underscore", "underscore-variable", "variable@for-init"}).Draw(t, "situation")
		c := sem.NewCase(nil)
		c.Fields = map[string]any{"keep": "k"}
		c.Tags = map[string]string{"keeptag": "kt"}
		var prog []*gen.Node
		key := id("q")
		switch sit {
		case "field":
			c.Fields["q"] = sql
		case "variable":
			prog = append(prog, gen.NSet("q", str(sql)))
		case "tag":
			c.Tags["q"] = sql
		case "underscore":
			c.Fields["message"] = sql
			key = id("_")
		case "underscore-variable":
			c.Fields["message"] = "select 'the point''s own message'"
			prog = append(prog, gen.NSet(rapid.SampledFrom([]string{"_", "message"}).Draw(t, "uspelling"), str(sql)))
			key = id("_")
		}
		if sit == "variable@for-init" {
			prog = append(prog, gen.NSet("pass", gen.NInt(0)), gen.NFor(gen.NSet("q", str(sql)), gen.NBin("<", id("pass"), gen.NInt(1)), gen.NSet("pass", gen.NInt(1)),
				[]*gen.Node{gen.NIf([]*gen.Node{gen.NBool(true)}, [][]*gen.Node{{gen.NCall("sql_cover", key)}}, nil, false)}))
		} else {
			prog = append(prog, gen.NCall("sql_cover", key))
		}
		c.Scripts[c.Root] = gen.FixAll(prog)
		v := judge(t, "sql", c, "sql/"+sql+"/"+sit, true, "sql/"+sit)
		if v != nil && sit == "field" {
			evid.Sample(map[string]any{"subject": sql, "reference_fields": fmt.Sprint(v.Model.Pt.Fields())})
		}
	})
}

// TestCollectionSubjects: a list or map used as the subject of an extraction builtin is seen as its JSON text - the
// text add_key would store for it - also when its strings hold characters that encoders treat specially.
func TestCollectionSubjects(t *testing.T) {
	vals := []func() *gen.Node{
		func() *gen.Node { return gen.NList(str("<b>7</b>"), str("x & y"), gen.NInt(3)) },
		func() *gen.Node { return gen.NMap(str("k<"), str("v>"), str("amp"), str("a&b")) },
		func() *gen.Node { return gen.NList(str("select * from t where a <> 3 and b = 'x'")) },
		func() *gen.Node { return gen.NList(str("2021-05-27 06:54:14")) },
		func() *gen.Node { return gen.NList(gen.NList(str("é\"q\"\\")), gen.NMap(str("n"), gen.NNil())) },
		func() *gen.Node { return gen.NList() },
	}
	calls := []func() []*gen.Node{
		func() []*gen.Node { return []*gen.Node{gen.NSet("ok", gen.NCall("grok", id("cv"), str("%{GREEDYDATA:all}"))), gen.NCall("probe", str("ok"), id("ok"))} },
		func() []*gen.Node { return []*gen.Node{gen.NSet("ok", gen.NCall("grok", id("cv"), str("<b>%{INT:n:int}</b>"))), gen.NCall("probe", str("ok"), id("ok"))} },
		func() []*gen.Node { return []*gen.Node{gen.NSet("ok", gen.NCall("grok", id("cv"), str("u003cb.u003e%{INT:n:int}"))), gen.NCall("probe", str("ok"), id("ok"))} },
		func() []*gen.Node { return []*gen.Node{gen.NSet("ok", gen.NCall("grok", id("cv"), str("^\\\\[%{DATA:inner}\\\\]$"))), gen.NCall("probe", str("ok"), id("ok"))} },
		func() []*gen.Node { return []*gen.Node{gen.NCall("sql_cover", id("cv"))} },
		func() []*gen.Node { return []*gen.Node{gen.NCall("xml", id("cv"), str("/b"), id("out"))} },
		func() []*gen.Node { return []*gen.Node{gen.NCall("default_time", id("cv"))} },
		func() []*gen.Node { return []*gen.Node{gen.NCall("add_key", id("snap"), id("cv")), gen.NCall("set_tag", id("tg"), id("cv"))} },
	}
	n := 0
	for vi, v := range vals {
		for ci, mk := range calls {
			prog := append([]*gen.Node{gen.NSet("cv", v())}, mk()...)
			c := sem.NewCase(gen.FixAll(prog))
			c.Fields = map[string]any{"keep": "k"}
			c.Tags = map[string]string{}
			judge(t, "collection-subject", c, fmt.Sprintf("collsubj/%d/%d", vi, ci), true, "collection-subject")
			n++
		}
	}
	// two extraction calls on two collections, one after the other: what the first one stored stays what it was
	firsts := []func() []*gen.Node{
		func() []*gen.Node {
			return []*gen.Node{gen.NSet("a", gen.NList(str("alpha beta"), str("gamma"))), gen.NCall("grok", id("a"), str("%{WORD:first} %{WORD:second}"))}
		},
		func() []*gen.Node {
			return []*gen.Node{gen.NSet("a", gen.NMap(str("k"), str("alpha beta gamma"))), gen.NCall("grok", id("a"), str("%{WORD:first} %{WORD:second:str} %{WORD:third}"), gen.NBool(false))}
		},
		func() []*gen.Node {
			return []*gen.Node{gen.NSet("a", gen.NList(str("keep this text"), gen.NInt(12345))), gen.NCall("grok", id("a"), str("%{GREEDYDATA:whole}"))}
		},
	}
	seconds := []func() []*gen.Node{
		func() []*gen.Node { return []*gen.Node{gen.NSet("b", gen.NList(str("XXXXXXXXXXXXXXXXXXXXXXXXXX"))), gen.NCall("sql_cover", id("b"))} },
		func() []*gen.Node { return []*gen.Node{gen.NSet("b", gen.NList(str("YYYYY YYYY"), str("ZZZZZ"))), gen.NCall("grok", id("b"), str("%{WORD:other}"))} },
		func() []*gen.Node { return []*gen.Node{gen.NSet("b", gen.NMap(str("q"), str("WWWWWWWWWWWWWWWWWWWW"))), gen.NCall("xml", id("b"), str("/a"), id("out"))} },
		func() []*gen.Node { return []*gen.Node{gen.NSet("b", gen.NList(str("VVVVVVVVVVVVVVVVVVVVVVVVVVVVVV"))), gen.NCall("default_time", id("b"))} },
		func() []*gen.Node { return []*gen.Node{gen.NSet("b", gen.NList(str("UUUUU UUUUUUUUU UUUU"))), gen.NCall("grok", id("b"), str("%{NOTSPACE:n1} %{NOTSPACE:n2}"))} },
	}
	for fi, f := range firsts {
		for si, sc := range seconds {
			prog := append(f(), sc()...)
			prog = append(prog, gen.NCall("probe", str("stored"), id("first"), id("second"), id("third"), id("whole")))
			c := sem.NewCase(gen.FixAll(prog))
			c.Fields = map[string]any{"keep": "k"}
			c.Tags = map[string]string{}
			judge(t, "collection-subject", c, fmt.Sprintf("collsubj2/%d/%d", fi, si), true, "collection-subject-sequence")
			n++
		}
	}
	evid.Exhaustive("collection value x extraction builtin; capture from one collection, then another extraction on another collection", n)
}

// TestProcessZone: a zone argument that is absent or the empty string means the zone of the process; a host runs
// pipelines wherever it is. The process zone is set to three zones other than UTC for the duration of this test.
func TestProcessZone(t *testing.T) {
	old := time.Local
	defer func() { time.Local = old }()
	texts := []string{"2021-05-27 06:54:14", "2021-05-27 06:54:14.760", "06 Jan 2017 16:16:37.000", "171113 14:14:20", "2021/02/27 - 14:14:20", "Wed Jan 25 09:20:30.123456 2017", "May 27, 2021 6:54:14 AM",
		"2021-05-27T06:54:14Z", "27/May/2021:06:54:14 +0800", "2021-05-27 06:54:14 -0700", "1622098454", "2021-05-27 06:54:14.760 UTC", "not a time"}
	n := 0
	for _, zn := range []string{"Asia/Kolkata", "America/New_York", "America/St_Johns", "UTC"} {
		loc, err := time.LoadLocation(zn)
		if err != nil {
			t.Fatalf("harness: %v", err)
		}
		time.Local = loc
		for ti, text := range texts {
			for form := 0; form < 4; form++ {
				c := sem.NewCase(nil)
				c.Fields = map[string]any{"keep": "k", "ts": text}
				c.Tags = map[string]string{}
				var call *gen.Node
				switch form {
				case 0:
					call = gen.NCall("default_time", id("ts"))
				case 1:
					call = gen.NCall("default_time", id("ts"), str(""))
				case 2:
					call = gen.NCall("default_time", id("ts"), str("+8"))
				default:
					call = gen.NCall("default_time", id("ts"), str("Local"))
				}
				c.Scripts[c.Root] = gen.FixAll([]*gen.Node{call})
				judge(t, "process-zone", c, fmt.Sprintf("proczone/%s/%d/%d", zn, ti, form), zn != "UTC", "process-zone/"+zn)
				n++
			}
		}
	}
	time.Local = old
	evid.Exhaustive("process zone x time text x {no zone argument, empty, offset, Local}", n)
}

// TestProcessZoneChangesBetweenRuns: the zone of the process is not part of a loaded script. One loaded script is run in
// one process zone, the host changes the zone (time.Local), and the same loaded script runs again on an equal point: the
// second run reads zone-less text in the zone that holds now - exactly what a script loaded afresh in that zone gives.
func TestProcessZoneChangesBetweenRuns(t *testing.T) {
	old := time.Local
	defer func() { time.Local = old }()
	texts := []string{"2021-05-27 06:54:14", "2021-05-27 06:54:14.760", "06 Jan 2017 16:16:37.000", "171113 14:14:20", "2021/02/27 - 14:14:20", "Wed Jan 25 09:20:30.123456 2017", "May 27, 2021 6:54:14 AM",
		"2021-05-27T06:54:14Z", "27/May/2021:06:54:14 +0800", "1622098454", "not a time"}
	zones := []string{"Asia/Kolkata", "America/New_York", "UTC", "Pacific/Chatham", "Asia/Kolkata"}
	n := 0
	for ti, text := range texts {
		for form := 0; form < 3; form++ {
			c := sem.NewCase(nil)
			c.Fields = map[string]any{"keep": "k", "ts": text}
			c.Tags = map[string]string{}
			var call *gen.Node
			switch form {
			case 0:
				call = gen.NCall("default_time", id("ts"))
			case 1:
				call = gen.NCall("default_time", id("ts"), str(""))
			default:
				call = gen.NCall("default_time", id("ts"), str("+8"))
			}
			c.Scripts[c.Root] = gen.FixAll([]*gen.Node{call, gen.NCall("probe", str("after"), gen.NCall("get_key", str("ts")))})
			c.Print(nil)
			var kept sem.ImplOut
			for zi, zn := range zones {
				loc, err := time.LoadLocation(zn)
				if err != nil {
					t.Fatalf("harness: %v", err)
				}
				time.Local = loc
				fresh := sem.RunV1(c, 0) // loaded in this zone
				if zi == 0 {
					kept = fresh
					continue
				}
				again := kept.Again(c.Fields) // loaded in the first zone, run now
				normFail(&fresh)
				normFail(&again)
				rp := c.Replay(fmt.Sprintf("loaded while the process zone was %s, run again after it became %s", zones[0], zn))
				if again.Crash != nil || fresh.Crash != nil {
					rk.Fail(t, "zone-change", rp, "run panicked: %v %v", again.Crash, fresh.Crash)
				}
				if !again.Time.Equal(fresh.Time) || fmt.Sprint(renderF(again.Fields)) != fmt.Sprint(renderF(fresh.Fields)) || (again.Err == nil) != (fresh.Err == nil) {
					rk.Fail(t, "zone-change", rp, "a script loaded while the process zone was %s and run after the zone became %s gives time %v fields %v; the same script loaded afresh gives time %v fields %v\nscript:\n%s\nsubject: %q",
						zones[0], zn, again.Time.UTC(), renderF(again.Fields), fresh.Time.UTC(), renderF(fresh.Fields), c.Texts[c.Root], text)
				}
				n++
			}
			evid.Case(fmt.Sprintf("zonechange/%d/%d", ti, form), true, "process-zone/changed-between-runs")
		}
	}
	time.Local = old
	evid.Exhaustive("time text x zone argument x sequence of process zones, one loaded script", n)
}

func renderF(f map[string]any) map[string]string {
	out := map[string]string{}
	for k, v := range f {
		out[k] = probe.Render(v)
	}
	return out
}

func TestReplays(t *testing.T) {
	files, _ := filepath.Glob(filepath.Join(evid.Dir(), "replays", prop, "*.json"))
	if r := os.Getenv("VERIF_REPLAY"); r != "" {
		files = []string{r}
	}
	for _, f := range files {
		b, err := os.ReadFile(f)
		if err != nil {
			continue
		}
		var r struct {
			Case sem.Replay `json:"case"`
		}
		if json.Unmarshal(b, &r) != nil || len(r.Case.Texts) == 0 {
			continue
		}
		t.Run(filepath.Base(f), func(t *testing.T) {
			c, err := sem.FromReplay(r.Case)
			if err != nil {
				// a script the loader rejects: the expectation is exactly that
				if _, lerr, _ := impl.Load1(r.Case.Root, r.Case.Texts[r.Case.Root], nil, nil); lerr != nil {
					t.Skipf("replay not loadable: %v", err)
				}
				t.Skipf("replay not loadable: %v", err)
			}
			texts := c.Texts
			judgeKeepText(t, c, texts)
		})
	}
}

func judgeKeepText(t rk.Failer, c *sem.Case, texts map[string]string) {
	extra, gs := extraFor(c.Scripts[c.Root])
	if gs.LoadErr != "" {
		io := sem.RunV1(c, 0)
		if len(io.LoadErrs) == 0 {
			rk.Fail(t, "replay", c.Replay(""), "script references an invisible pattern (%s) but was accepted at load", gs.LoadErr)
		}
		return
	}
	var io sem.ImplOut
	v := sem.Decide(c, func() sem.ImplOut {
		io = sem.RunV1(c, 0)
		normFail(&io)
		if ag := io.Again; ag != nil {
			io.Again = func(f map[string]any) sem.ImplOut { o := ag(f); normFail(&o); return o }
		}
		return io
	}, wrapFail(extra), true, false)
	if v.Msg != "" {
		rk.Fail(t, "replay", c.Replay(""), "%s\nscript:\n%s", v.Msg, c.Texts[c.Root])
	}
	evid.Case("replay:"+c.Texts[c.Root], true, "replay")
}
