package c19

import (
	"encoding/json"
	"fmt"
	"github.com/GuanceCloud/platypus/pkg/token"
	"math"
	"os"
	"path/filepath"
	"reflect"
	"strings"
	"testing"
	"unicode"
	"unicode/utf8"

	"github.com/GuanceCloud/platypus/pkg/ast"
	"github.com/GuanceCloud/platypus/pkg/engine/runtimev2"
	"github.com/GuanceCloud/platypus/pkg/errchain"
	"pgregory.net/rapid"
	"verifharness/evid"
	"verifharness/gen"
	"verifharness/impl"
	"verifharness/probe"
	"verifharness/rk"
	"verifharness/sem"
)

const prop = "C19"

func TestMain(m *testing.M) {
	evid.Init(prop, "exploration",
		"parameter lists of length 0..3 (all 3616) and sampled lists of length 4 over {required, optional-with-default, variadic} x names {a, b, c, 1x, \"\"} (duplicates arise when a name is drawn twice) are validated; every valid list is installed as the parameter list of a probe function whose CallCheck is CheckPassParam and whose Call reads every parameter with GetParam, and crossed with call shapes of 0..4 arguments, each positional or named with a name from {a, b, c, z} (781 shapes; 5-argument shapes sampled). Oracle: a reference binder written from the property's two sentences: validation fails iff duplicate/invalid name, required after optional, variadic not last, two variadics, variadic mixed with optional; a call is rejected at load iff unknown or duplicate name, missing required parameter, positional after named, named together with variadic, more positional arguments than parameters without a variadic; otherwise every parameter receives exactly the value bound by the reference (defaults for omitted optionals, ordered tail for the variadic). Typed getters are checked with well- and ill-typed arguments. Non-trivial: the call mixes positional and named arguments, hits a default, a variadic tail or a rejection rule; distinct by (signature, call shape).",
		"argument values are distinct integer literals so that each received value identifies its argument")
	code := m.Run()
	evid.Flush(code == 0)
	os.Exit(code)
}

type pkind int

const (
	req pkind = iota
	opt
	vari
	varopt // variadic and with a default at once: never valid
)

type pdef struct {
	K    pkind
	Name string
}

func (p pdef) String() string { return []string{"", "?", "...", "?..."}[p.K] + p.Name }

var pnames = []string{"a", "b", "c", "1x", "", "A"}

func validName(n string) bool {
	if n == "" {
		return false
	}
	if !utf8.ValidString(n) {
		return false
	}
	for i, r := range n {
		// a name is a letter or an underscore followed by letters, digits and underscores - of any script
		letter := r == '_' || unicode.IsLetter(r)
		digit := unicode.IsDigit(r)
		if i == 0 && !letter {
			return false
		}
		if !letter && !digit {
			return false
		}
	}
	return true
}

// refValid is the reference validation of a parameter list.
func refValid(l []pdef) bool {
	seen := map[string]bool{}
	optional, variadic := false, false
	for i, p := range l {
		if !validName(p.Name) || seen[p.Name] {
			return false
		}
		seen[p.Name] = true
		switch p.K {
		case opt:
			optional = true
		case req:
			if optional {
				return false
			}
		case vari:
			if optional || variadic || i != len(l)-1 {
				return false
			}
			variadic = true
		case varopt:
			return false
		}
	}
	return true
}

type arg struct {
	Name string // "" = positional
	Val  int64
	Nil  bool // the argument is the literal nil (or an expression evaluating to nil)
	Quote bool // the name is written back-quoted (a must for names spelled like reserved words)
}

func (a arg) String() string {
	v := fmt.Sprint(a.Val)
	if a.Nil {
		v = "nil"
	}
	if a.Name == "" {
		return v
	}
	if a.Quote {
		return fmt.Sprintf("`%s`=%s", a.Name, v)
	}
	return fmt.Sprintf("%s=%s", a.Name, v)
}

func (a arg) value() any {
	if a.Nil {
		return nil
	}
	return a.Val
}

// refBind is the reference binder: ok=false means the call must be rejected at load.
func refBind(l []pdef, call []arg) (vals []string, ok bool) {
	hasVar := len(l) > 0 && l[len(l)-1].K == vari
	bound := make([]*arg, len(l))
	var tail []arg
	named := false
	pos := 0
	for i := range call {
		a := call[i]
		if a.Name != "" {
			if hasVar {
				return nil, false // named together with variadic
			}
			named = true
			idx := -1
			for j, p := range l {
				if p.Name == a.Name {
					idx = j
				}
			}
			if idx < 0 {
				return nil, false // unknown name
			}
			if bound[idx] != nil {
				return nil, false // duplicate
			}
			v := a
			bound[idx] = &v
			continue
		}
		if named {
			return nil, false // positional after named
		}
		if hasVar && pos >= len(l)-1 {
			tail = append(tail, a)
			pos++
			continue
		}
		if pos >= len(l) {
			return nil, false // more arguments than parameters
		}
		v := a
		bound[pos] = &v
		pos++
	}
	for j, p := range l {
		switch p.K {
		case req:
			if bound[j] == nil {
				return nil, false // missing required
			}
			vals = append(vals, probe.Render(bound[j].value()))
		case opt:
			if bound[j] == nil {
				vals = append(vals, probe.Render("default-"+p.Name))
			} else {
				vals = append(vals, probe.Render(bound[j].value())) // a given nil is nil, not the default
			}
		case vari:
			lst := make([]any, 0, len(tail))
			for _, x := range tail {
				lst = append(lst, x.value())
			}
			vals = append(vals, probe.Render(lst))
		}
	}
	return vals, true
}

func mkParams(l []pdef) []*runtimev2.Param {
	out := make([]*runtimev2.Param, len(l))
	for i, p := range l {
		pp := &runtimev2.Param{Name: p.Name}
		switch p.K {
		case opt:
			name := p.Name
			pp.Val = func() any { return "default-" + name }
		case vari:
			pp.Variable = true
		case varopt:
			name := p.Name
			pp.Variable = true
			pp.Val = func() any { return "default-" + name }
		}
		out[i] = pp
	}
	return out
}

type replay struct {
	Sig  string `json:"signature"`
	Call string `json:"call"`
	Src  string `json:"script"`
}

func sigText(l []pdef) string {
	var p []string
	for _, x := range l {
		p = append(p, x.String())
	}
	return "f(" + strings.Join(p, ", ") + ")"
}

func callText(c []arg) string {
	var p []string
	for _, x := range c {
		p = append(p, x.String())
	}
	return "f(" + strings.Join(p, ", ") + ")"
}

// runCall installs the list and loads + runs `f(...)`.
func runCall(l []pdef, call []arg) (loadErr error, runErr *errchain.PlError, got []string, crash *impl.Crash) {
	return runCallParams(mkParams(l), call)
}

// runCallParams does the same with a parameter slice the caller made (it may share its array with other slices).
func runCallParams(params []*runtimev2.Param, call []arg) (loadErr error, runErr *errchain.PlError, got []string, crash *impl.Crash) {
	var rec []string
	fn := &runtimev2.Fn{
		CallCheck: func(ctx *runtimev2.Task, e *ast.CallExpr) *errchain.PlError {
			return runtimev2.CheckPassParam(ctx, e, params)
		},
		Call: func(ctx *runtimev2.Task, e *ast.CallExpr) *errchain.PlError {
			for i := range params {
				v, err := runtimev2.GetParam(ctx, e, params, i)
				if err != nil {
					return err
				}
				if v == nil && params[i].Variable {
					v = []any{}
				}
				if lst, ok := v.([]any); ok && lst == nil {
					v = []any{}
				}
				rec = append(rec, probe.Render(v))
			}
			return nil
		},
		Desc: runtimev2.FnDesc{Name: "f", Params: params},
	}
	src := callText(call)
	s, err, cr := impl.LoadV2("c19.p", src, map[string]*runtimev2.Fn{"f": fn})
	if cr != nil {
		return nil, nil, nil, cr
	}
	if err != nil {
		return err, nil, nil, nil
	}
	rerr, cr := impl.RunV2(s, nil)
	return nil, rerr, rec, cr
}

func callNontrivial(l []pdef, call []arg, ok bool) bool {
	if !ok {
		return true
	}
	pos, named := 0, 0
	for _, a := range call {
		if a.Name == "" {
			pos++
		} else {
			named++
		}
	}
	if pos > 0 && named > 0 {
		return true
	}
	for j, p := range l {
		if p.K == opt && j >= pos {
			used := false
			for _, a := range call {
				if a.Name == p.Name {
					used = true
				}
			}
			if !used {
				return true // default
			}
		}
		if p.K == vari && pos > len(l)-1 {
			return true
		}
	}
	return false
}

func checkCall(t rk.Failer, slot string, l []pdef, call []arg) {
	want, ok := refBind(l, call)
	rp := replay{Sig: sigText(l), Call: callText(call), Src: callText(call)}
	lerr, rerr, got, crash := runCall(l, call)
	if crash != nil {
		rk.Fail(t, slot, rp, "binding %s to %s panicked: %s", rp.Call, rp.Sig, crash.Value)
	}
	if !ok {
		if lerr == nil {
			rk.Fail(t, slot, rp, "call %s cannot be bound to %s but was accepted at load (received %v, run error %v)", rp.Call, rp.Sig, got, rerr)
		}
		if pe := impl.PlErr(lerr); pe == nil || len(pe.PosChain) == 0 || pe.PosChain[0].Pos < 0 || pe.PosChain[0].Pos >= len(rp.Src) {
			rk.Fail(t, slot, rp, "rejection of %s against %s is not a positioned error inside the call: %v", rp.Call, rp.Sig, lerr)
		}
	} else {
		if lerr != nil {
			rk.Fail(t, slot, rp, "call %s binds to %s (%v) but was rejected at load: %v", rp.Call, rp.Sig, want, lerr)
		}
		if rerr != nil {
			rk.Fail(t, slot, rp, "call %s binds to %s (%v) but reading the parameters failed: %v", rp.Call, rp.Sig, want, rerr)
		}
		if strings.Join(got, " | ") != strings.Join(want, " | ") {
			rk.Fail(t, slot, rp, "call %s against %s: parameters received [%s], want [%s]", rp.Call, rp.Sig, strings.Join(got, " | "), strings.Join(want, " | "))
		}
	}
	nt := callNontrivial(l, call, ok)
	lab := "bind/accepted"
	if !ok {
		lab = "bind/rejected"
	}
	evid.Case(rp.Sig+" <- "+rp.Call, nt, lab)
	if nt && (len(rp.Sig)+len(rp.Call))%11 == 0 {
		evid.Sample(map[string]any{"signature": rp.Sig, "call": rp.Call, "bindable": ok, "received": want})
	}
}

func checkList(t rk.Failer, slot string, l []pdef) bool {
	want := refValid(l)
	var err error
	func() {
		defer func() {
			if r := recover(); r != nil {
				err = fmt.Errorf("panic: %v", r)
				rk.Fail(t, slot, replay{Sig: sigText(l)}, "CheckFnParamDef panicked on %s: %v", sigText(l), r)
			}
		}()
		err = runtimev2.CheckFnParamDef(mkParams(l))
	}()
	if want && err != nil {
		rk.Fail(t, slot, replay{Sig: sigText(l)}, "well-formed parameter list %s was rejected: %v", sigText(l), err)
	}
	if !want && err == nil {
		rk.Fail(t, slot, replay{Sig: sigText(l)}, "malformed parameter list %s passed validation", sigText(l))
	}
	lab := "list/valid"
	if !want {
		lab = "list/invalid"
	}
	evid.Case("list:"+sigText(l), !want || len(l) >= 2, lab)
	return want
}

func allLists(maxLen int, f func(l []pdef)) {
	var rec func(cur []pdef)
	rec = func(cur []pdef) {
		f(append([]pdef{}, cur...))
		if len(cur) == maxLen {
			return
		}
		for k := req; k <= varopt; k++ {
			for _, n := range pnames {
				rec(append(cur, pdef{k, n}))
			}
		}
	}
	rec(nil)
}

var argNames = []string{"", "a", "b", "c", "z", "A"}

func allCalls(maxLen int, f func(c []arg)) {
	var rec func(cur []arg)
	rec = func(cur []arg) {
		f(append([]arg{}, cur...))
		if len(cur) == maxLen {
			return
		}
		for _, n := range argNames {
			rec(append(cur, arg{Name: n, Val: int64(10 + len(cur))}))
		}
	}
	rec(nil)
}

func TestExhaustive(t *testing.T) {
	maxList, maxCall := 3, 4
	nl, nc, idx := 0, 0, 0
	var valid [][]pdef
	allLists(maxList, func(l []pdef) {
		nl++
		if checkList(t, "lists", l) {
			valid = append(valid, l)
		}
	})
	if evid.Thorough() {
		// all lists of length 4 are validated too (not crossed with calls)
		n4 := 0
		allLists(4, func(l []pdef) {
			if len(l) == 4 {
				n4++
				if n4%evid.NShards() == evid.Shard() {
					checkList(t, "lists", l)
				}
			}
		})
		evid.Exhaustive("parameter lists of length 4 (validation only)", n4/evid.NShards())
		maxCall = 5
	}
	for _, l := range valid {
		allCalls(maxCall, func(c []arg) {
			idx++
			if idx%evid.NShards() != evid.Shard() {
				return
			}
			checkCall(t, "calls", l, c)
			nc++
		})
	}
	evid.Exhaustive("parameter lists of length<=3", nl)
	evid.Exhaustive(fmt.Sprintf("valid lists (%d) x call shapes of <=%d arguments", len(valid), maxCall), nc)
}

func TestRandomLarger(t *testing.T) {
	rk.Check(t, "random", 1, evid.Scale(20000, 100000), func(t *rapid.T) {
		n := rapid.IntRange(0, 4).Draw(t, "nparams")
		l := make([]pdef, n)
		for i := range l {
			l[i] = pdef{pkind(rapid.SampledFrom([]int{0, 0, 0, 1, 1, 1, 2, 2, 2, 3}).Draw(t, "kind")), rapid.SampledFrom(pnames).Draw(t, "pname")}
			// bias towards well-formed lists so that calls get exercised
			if rapid.IntRange(0, 3).Draw(t, "wf") != 0 {
				l[i].Name = [][]string{{"a", "b", "c", "d"}, {"a", "A", "b", "B"}, {"Sep", "sep", "SEP", "d"}}[rapid.SampledFrom([]int{0, 0, 1, 2}).Draw(t, "nameset")][i]
				if i < n-1 && l[i].K == vari {
					l[i].K = req
				}
			}
		}
		if !checkList(t, "random", l) {
			return
		}
		m := rapid.IntRange(0, 5).Draw(t, "nargs")
		call := make([]arg, m)
		for i := range call {
			call[i] = arg{Name: rapid.SampledFrom([]string{"", "", "a", "b", "c", "d", "z", "A", "B", "sep", "Sep", "SEP"}).Draw(t, "aname"), Val: int64(10 + i), Nil: rapid.IntRange(0, 5).Draw(t, "nil") == 0}
		}
		checkCall(t, "random", l, call)
	})
}

// ---------------------------------------------------------------- several calls in one run

// ncall is a call whose arguments may be calls themselves.
type ncall struct {
	Fn   int // index into the function table of the case
	Args []narg
	pos  int // offset of the function name in the printed script
}

type narg struct {
	Name string
	Lit  int64
	Nil  bool
	Call *ncall
}

// refEval computes, bottom-up, what every call site receives; want[pos] = rendered parameter values.
func refEval(lists [][]pdef, c *ncall, want map[int][]string) int64 {
	flat := make([]arg, len(c.Args))
	for i, a := range c.Args {
		v := a.Lit
		if a.Call != nil {
			v = refEval(lists, a.Call, want)
		}
		flat[i] = arg{Name: a.Name, Val: v, Nil: a.Nil}
	}
	vals, ok := refBind(lists[c.Fn], flat)
	if !ok {
		panic("harness: generated an unbindable call")
	}
	want[c.pos] = vals
	// the function's result: 1 + the sum of the integer arguments it was given
	sum := int64(1)
	for _, a := range flat {
		if !a.Nil {
			sum += a.Val
		}
	}
	return sum
}

func printCall(b *strings.Builder, c *ncall) {
	c.pos = b.Len()
	fmt.Fprintf(b, "fn%d(", c.Fn)
	for i, a := range c.Args {
		if i > 0 {
			b.WriteString(", ")
		}
		if a.Name != "" {
			b.WriteString(a.Name + " = ")
		}
		switch {
		case a.Call != nil:
			printCall(b, a.Call)
		case a.Nil:
			b.WriteString("nil")
		default:
			fmt.Fprint(b, a.Lit)
		}
	}
	b.WriteString(")")
}

func sumInts(v any) int64 {
	switch x := v.(type) {
	case int64:
		return x
	case []any:
		var s int64
		for _, e := range x {
			s += sumInts(e)
		}
		return s
	}
	return 0
}

// TestCallSequences: several calls - nested in each other's arguments and one after the other - in ONE run. Each
// call site must receive exactly its own arguments, also when looked at after all other calls have run (the
// values are kept by reference and rendered at the end of the run).
func TestCallSequences(t *testing.T) {
	rk.Check(t, "sequences", 7, evid.Scale(4000, 40000), func(t *rapid.T) {
		nf := rapid.IntRange(1, 3).Draw(t, "nfuncs")
		lists := make([][]pdef, nf)
		for f := range lists {
			n := rapid.IntRange(0, 4).Draw(t, "nparams")
			l := make([]pdef, n)
			seenOpt := false
			for i := range l {
				k := pkind(rapid.IntRange(0, 2).Draw(t, "kind"))
				if k == vari && i < n-1 {
					k = req
				}
				if k == vari && seenOpt {
					k = opt // a variadic tail after optional parameters is not a valid list
				}
				if seenOpt && k == req {
					k = opt
				}
				if k == opt {
					seenOpt = true
				}
				l[i] = pdef{k, []string{"a", "b", "c", "d"}[i]}
			}
			if !refValid(l) {
				l = []pdef{{req, "a"}, {vari, "b"}}
			}
			lists[f] = l
		}
		nid := int64(10)
		nested, variadicNested, nilArgs := false, false, false
		var genCall func(depth int) *ncall
		genCall = func(depth int) *ncall {
			f := rapid.IntRange(0, nf-1).Draw(t, "fn")
			l := lists[f]
			c := &ncall{Fn: f}
			hasVar := len(l) > 0 && l[len(l)-1].K == vari
			nreq, nfix := 0, len(l)
			for _, p := range l {
				if p.K == req {
					nreq++
				}
			}
			if hasVar {
				nfix--
			}
			val := func() narg {
				nid++
				if depth > 0 && rapid.IntRange(0, 2).Draw(t, "nest") == 0 {
					nested = true
					return narg{Call: genCall(depth - 1)}
				}
				if rapid.IntRange(0, 7).Draw(t, "nilarg") == 0 {
					nilArgs = true
					return narg{Nil: true}
				}
				return narg{Lit: nid}
			}
			if hasVar {
				npos := rapid.IntRange(nreq, nfix+4).Draw(t, "npos")
				for i := 0; i < npos; i++ {
					a := val()
					if a.Call != nil && i > 0 && len(lists[a.Call.Fn]) > 0 && lists[a.Call.Fn][len(lists[a.Call.Fn])-1].K == vari {
						variadicNested = true
					}
					c.Args = append(c.Args, a)
				}
				return c
			}
			npos := rapid.IntRange(0, nfix).Draw(t, "npos")
			for i := 0; i < npos; i++ {
				c.Args = append(c.Args, val())
			}
			// the remaining required parameters by name (in a drawn order), optional ones by name sometimes
			var rest []int
			for i := npos; i < nfix; i++ {
				if l[i].K == req || rapid.Bool().Draw(t, "giveopt") {
					rest = append(rest, i)
				}
			}
			if len(rest) > 1 && rapid.Bool().Draw(t, "reverse") {
				for i, j := 0, len(rest)-1; i < j; i, j = i+1, j-1 {
					rest[i], rest[j] = rest[j], rest[i]
				}
			}
			for _, i := range rest {
				a := val()
				a.Name = l[i].Name
				c.Args = append(c.Args, a)
			}
			return c
		}
		nst := rapid.IntRange(2, 5).Draw(t, "nstmts")
		var calls []*ncall
		var b strings.Builder
		// script variables spelled like the parameters: passing a parameter by name must not touch them
		withVars := rapid.Bool().Draw(t, "scriptvars")
		if withVars {
			b.WriteString("a = 901\nb = 902\nc = 903\nd = 904\n")
		}
		// how each call statement is placed: at top level, or in a loop body after a conditional continue / break
		// ... or in a branch that is followed by further elif / else branches, in a middle elif, in the else, nested
		placeOpen := []string{"", "for it in [1] {\n  if it == 2 { continue }\n  ", "for it = 0; it < 1; it = it + 1 {\n  if it == 5 { break } elif it == 6 { continue } else { q = 1 }\n  ", "if true {\n  ",
			"if true {\n  ", "if false { q = 1 } elif true {\n  ", "if false { q = 1 } elif false { q = 2 } else {\n  ", "if true { if true {\n  ", "for it in {\"k\": 1} {\n  if false { q = 0 } elif true {\n  "}
		placeClose := []string{"", "\n}", "\n}", "\n}",
			"\n} elif true { q = 2 } elif false { q = 3 }", "\n} elif true { q = 2 } else { q = 3 }", "\n}", "\n} elif true { q = 1 } } elif true { q = 2 } else { q = 3 }", "\n} elif true { q = 4 } }"}
		places := make([]int, nst)
		for i := 0; i < nst; i++ {
			c := genCall(2)
			calls = append(calls, c)
			places[i] = rapid.IntRange(0, len(placeOpen)-1).Draw(t, "place")
			b.WriteString(placeOpen[places[i]])
			fmt.Fprintf(&b, "x%d = ", i)
			printCall(&b, c)
			b.WriteString(placeClose[places[i]])
			b.WriteString("\n")
		}
		if withVars {
			b.WriteString("zz = show(a, b, c, d)\n")
		}
		src := b.String()
		want := map[int][]string{}
		for _, c := range calls {
			refEval(lists, c, want)
		}
		// the implementation side
		kept := map[int][]any{}
		immediate := map[int][]string{}
		fns := map[string]*runtimev2.Fn{}
		var sigs []string
		for f, l := range lists {
			params := mkParams(l)
			for pi, pd := range l {
				if pd.K == opt {
					// the declared default is a factory: every use yields a fresh collection
					name := pd.Name
					params[pi].Val = func() any { return map[string]any{"default": name} }
				}
			}
			sigs = append(sigs, fmt.Sprintf("fn%d%s", f, strings.TrimPrefix(sigText(l), "f")))
			fns[fmt.Sprintf("fn%d", f)] = &runtimev2.Fn{
				CallCheck: func(ctx *runtimev2.Task, e *ast.CallExpr) *errchain.PlError {
					return runtimev2.CheckPassParam(ctx, e, params)
				},
				Call: func(ctx *runtimev2.Task, e *ast.CallExpr) *errchain.PlError {
					at := int(e.NamePos.Pos)
					sum := int64(1)
					kept[at], immediate[at] = []any{}, []string{}
					for i := range params {
						v, err := runtimev2.GetParam(ctx, e, params, i)
						if err != nil {
							return err
						}
						if lst, ok := v.([]any); (ok && lst == nil) || (v == nil && params[i].Variable) {
							v = []any{}
						}
						immediate[at] = append(immediate[at], probe.Render(v))
						if dm, isDefault := v.(map[string]any); isDefault {
							// what a function does with a collection it was handed: write to it
							dm["touched-by-call-at"] = int64(at)
							v = "default (written to by the callee)"
						}
						kept[at] = append(kept[at], v)
						sum += sumInts(v)
					}
					ctx.Regs.ReturnAppend(runtimev2.V{V: sum, T: ast.Int})
					return nil
				},
				Desc: runtimev2.FnDesc{Name: fmt.Sprintf("fn%d", f), Params: params},
			}
		}
		var shown []string
		showParams := []*runtimev2.Param{{Name: "v", Variable: true}}
		fns["show"] = &runtimev2.Fn{
			CallCheck: func(ctx *runtimev2.Task, e *ast.CallExpr) *errchain.PlError {
				return runtimev2.CheckPassParam(ctx, e, showParams)
			},
			Call: func(ctx *runtimev2.Task, e *ast.CallExpr) *errchain.PlError {
				v, err := runtimev2.GetParam(ctx, e, showParams, 0)
				if err != nil {
					return err
				}
				shown = append(shown, probe.Render(v))
				ctx.Regs.ReturnAppend(runtimev2.V{V: int64(0), T: ast.Int})
				return nil
			},
			Desc: runtimev2.FnDesc{Name: "show", Params: showParams},
		}
		rp := replay{Sig: strings.Join(sigs, "; "), Src: src}
		// the same script with one call made unbindable (an unknown parameter name) is rejected at load, wherever the call sits
		if len(calls) > 0 {
			var all []*ncall
			var collect func(c *ncall)
			collect = func(c *ncall) {
				all = append(all, c)
				for _, a := range c.Args {
					if a.Call != nil {
						collect(a.Call)
					}
				}
			}
			for _, c := range calls {
				collect(c)
			}
			victim := all[rapid.IntRange(0, len(all)-1).Draw(t, "victim")]
			victim.Args = append(victim.Args, narg{Name: "zz_unknown", Lit: 1})
			var bb strings.Builder
			for i, c := range calls {
				bb.WriteString(placeOpen[places[i]])
				fmt.Fprintf(&bb, "x%d = ", i)
				printCall(&bb, c)
				bb.WriteString(placeClose[places[i]])
				bb.WriteString("\n")
			}
			bad := bb.String()
			victim.Args = victim.Args[:len(victim.Args)-1]
			// restore the recorded offsets
			var rb strings.Builder
			if withVars {
				rb.WriteString("a = 901\nb = 902\nc = 903\nd = 904\n")
			}
			for i, c := range calls {
				rb.WriteString(placeOpen[places[i]])
				fmt.Fprintf(&rb, "x%d = ", i)
				printCall(&rb, c)
				rb.WriteString(placeClose[places[i]])
				rb.WriteString("\n")
			}
			if _, lerr, crash := impl.LoadV2("c19.p", bad, fns); lerr == nil || crash != nil {
				rk.Fail(t, "sequences", replay{Sig: rp.Sig, Src: bad}, "a script with an unbindable call (unknown parameter name zz_unknown) was accepted at load (%v)\nfunctions: %s\nscript:\n%s", crash, rp.Sig, bad)
			}
			evid.Label("sequence/one-call-made-unbindable")
		}
		sc, lerr, crash := impl.LoadV2("c19.p", src, fns)
		if crash != nil {
			rk.Fail(t, "sequences", rp, "loading panicked: %s\nscript:\n%s", crash.Value, src)
		}
		if lerr != nil {
			rk.Fail(t, "sequences", rp, "a script of bindable calls was rejected at load: %v\nfunctions: %s\nscript:\n%s", lerr, rp.Sig, src)
		}
		// a loaded script may be checked again (the exported Check): it is still accepted and still binds the same way
		if rapid.Bool().Draw(t, "check-again") {
			for k := 0; k < 2; k++ {
				var cerr *errchain.PlError
				func() {
					defer func() {
						if r := recover(); r != nil {
							cerr = errchain.NewErr("c19.p", token.LnColPos{}, fmt.Sprint("panic: ", r))
						}
					}()
					cerr = sc.Check()
				}()
				if cerr != nil {
					rk.Fail(t, "sequences", rp, "checking the accepted script once more fails: %v\nfunctions: %s\nscript:\n%s", cerr, rp.Sig, src)
				}
			}
			evid.Label("sequence/checked-again-before-run")
		}
		rerr, crash := impl.RunV2(sc, nil)
		if crash != nil || rerr != nil {
			rk.Fail(t, "sequences", rp, "running a script of bindable calls failed: %v %v\nfunctions: %s\nscript:\n%s", rerr, crash, rp.Sig, src)
		}
		for at, w := range want {
			for wi := range w {
				for _, nm := range []string{"a", "b", "c", "d"} {
					if w[wi] == probe.Render("default-"+nm) {
						w[wi] = probe.Render(map[string]any{"default": nm})
					}
				}
			}
			if got := strings.Join(immediate[at], " | "); got != strings.Join(w, " | ") {
				rk.Fail(t, "sequences", rp, "the call at offset %d received [%s], want [%s]\nfunctions: %s\nscript:\n%s", at, got, strings.Join(w, " | "), rp.Sig, src)
			}
			var late, wlate []string
			for vi, v := range kept[at] {
				if v == "default (written to by the callee)" {
					continue
				}
				late = append(late, probe.Render(v))
				wlate = append(wlate, w[vi])
			}
			if got := strings.Join(late, " | "); got != strings.Join(wlate, " | ") {
				rk.Fail(t, "sequences", rp, "the values the call at offset %d received read [%s] at the end of the run, it was given [%s]\nfunctions: %s\nscript:\n%s", at, got, strings.Join(w, " | "), rp.Sig, src)
			}
		}
		if withVars {
			if len(shown) != 1 || shown[0] != "[i:901 i:902 i:903 i:904]" {
				rk.Fail(t, "sequences", rp, "the script variables a, b, c, d read %v after the calls, they were set to 901..904 and never assigned again\nfunctions: %s\nscript:\n%s", shown, rp.Sig, src)
			}
		}
		if len(immediate) != len(want) {
			rk.Fail(t, "sequences", rp, "%d call sites executed, the script has %d\nscript:\n%s", len(immediate), len(want), src)
		}
		labels := []string{"sequence"}
		if nested {
			labels = append(labels, "sequence/nested-call-argument")
		}
		if variadicNested {
			labels = append(labels, "sequence/variadic-call-inside-variadic-tail")
		}
		if nilArgs {
			labels = append(labels, "sequence/nil-argument")
		}
		evid.Case(rp.Sig+"|"+src, nested, labels...)
		if variadicNested && len(src)%7 == 0 {
			evid.Sample(map[string]any{"functions": rp.Sig, "script": src})
		}
	})
}

// TestManyParameters: parameter lists and argument lists far beyond the exhaustive bound (8 .. 100 parameters, up to
// 300 variadic arguments): every parameter still receives exactly its own argument.
// TestLiteralArgumentsEachEvaluation: a call that is evaluated several times in one run binds, each time, the value
// its argument expression has at that time: a list or map literal is a new collection on every evaluation, whatever
// the function or the script did with the one received before.
func TestLiteralArgumentsEachEvaluation(t *testing.T) {
	id, i, s := gen.NIdent, gen.NInt, gen.NStr
	set := func(tg, v *gen.Node) *gen.Node { return gen.NAssign("=", []*gen.Node{tg}, []*gen.Node{v}) }
	bodies := []struct {
		name string
		b    func() []*gen.Node
	}{
		{"list-positional", func() []*gen.Node {
			return []*gen.Node{gen.NSet("r", gen.NCall("pval", gen.NList(i(1), i(2)))), gen.NCall("probe", s("got"), id("r")), set(gen.NIndex(id("r"), i(0)), gen.NBin("+", gen.NIndex(id("r"), i(0)), i(10)))}
		}},
		{"map-positional", func() []*gen.Node {
			return []*gen.Node{gen.NSet("m", gen.NCall("pval", gen.NMap(s("level"), i(1)))), gen.NCall("probe", s("got"), id("m")), set(gen.NIndex(id("m"), s("extra")), id("it"))}
		}},
		{"nested-literal", func() []*gen.Node {
			return []*gen.Node{gen.NSet("r", gen.NCall("pval", gen.NList(gen.NList(i(1)), gen.NMap(s("k"), gen.NList(i(2)))))), gen.NCall("probe", s("got"), id("r")), set(gen.NIndex(id("r"), i(0), i(0)), i(9)), set(gen.NIndex(id("r"), i(1), s("k"), i(0)), id("it"))}
		}},
		{"multi-value", func() []*gen.Node {
			return []*gen.Node{gen.NAssign("=", []*gen.Node{id("a"), id("b")}, []*gen.Node{gen.NCall("pmulti", gen.NList(i(1), i(2)), gen.NMap(s("x"), i(0)))}), gen.NCall("probe", s("got"), id("a"), id("b")),
				set(gen.NIndex(id("a"), i(1)), id("it")), set(gen.NIndex(id("b"), s("x")), id("it"))}
		}},
		{"call-in-call", func() []*gen.Node {
			return []*gen.Node{gen.NSet("r", gen.NCall("pval", gen.NCall("pval", gen.NList(s("a"), s("b"))))), set(gen.NIndex(id("r"), i(1)), gen.NBin("+", gen.NIndex(id("r"), i(1)), s("!")))}
		}},
		{"variadic-probe", func() []*gen.Node {
			return []*gen.Node{gen.NSet("r", gen.NCall("pval", gen.NList(i(0)))), gen.NCall("probe", s("args"), gen.NList(i(5)), gen.NMap(s("k"), i(6)), id("r")), set(gen.NIndex(id("r"), i(0)), id("it"))}
		}},
	}
	loops := []func(b []*gen.Node) []*gen.Node{
		func(b []*gen.Node) []*gen.Node { return []*gen.Node{gen.NForIn("it", gen.NList(i(1), i(2), i(3)), b)} },
		func(b []*gen.Node) []*gen.Node {
			return []*gen.Node{gen.NFor(gen.NSet("it", i(0)), gen.NBin("<", id("it"), i(3)), gen.NSet("it", gen.NBin("+", id("it"), i(1))), b)}
		},
		func(b []*gen.Node) []*gen.Node {
			return []*gen.Node{gen.NForIn("o", gen.NList(i(1), i(2)), []*gen.Node{gen.NForIn("it", gen.NStr("ab"), []*gen.Node{gen.NIf([]*gen.Node{gen.NBool(true)}, [][]*gen.Node{b}, nil, false)})})}
		},
	}
	n := 0
	for _, bd := range bodies {
		for li, lp := range loops {
			if li == 2 && bd.name == "map-positional" {
				continue // the pass variable is a character there; covered by the others
			}
			prog := lp(bd.b())
			c := sem.NewCase(gen.FixAll(prog))
			c.V2 = true
			c.Print(nil)
			v := sem.Decide(c, func() sem.ImplOut { return sem.RunV2(c, &probe.Sig{}) }, nil, false, true)
			if v.Discard != nil {
				evid.Discard(v.Discard.Error())
				continue
			}
			if v.Msg != "" {
				rk.Fail(t, "literal-args", replay{Src: c.Texts[c.Root], Sig: "pval(v) / pmulti(vals...) / probe(label, vals...)", Call: bd.name}, "v2: %s\nscript:\n%s", v.Msg, c.Texts[c.Root])
			}
			evid.Case(fmt.Sprintf("literalargs/%s/%d", bd.name, li), true, "literal-argument-each-evaluation")
			n++
		}
	}
	evid.Exhaustive("collection-literal argument x loop form: every evaluation binds a new collection", n)
}

// TestRepeatedCallSites: a call site that is executed several times in one run binds, every time, the values its
// argument expressions have at that time - positional, by name, in the variadic tail - also when an argument expression
// has an effect of its own (a counter, a request to end the run): the call that is still made is made with the
// arguments the script gave. Reference: a direct evaluation of the few expression forms used, in the order the probe
// function asks for its parameters.
func TestRepeatedCallSites(t *testing.T) {
	exprs := []string{"it", "it * 10", "next()", "acc", "7", "stop(it)"}
	type shape struct {
		fn    string
		param []int // which parameter (index) every argument is bound to; for vrec: position
		text  string
	}
	shapes := []shape{
		{"rec", []int{0, 1}, "rec(%s, %s)"},
		{"rec", []int{0, 1}, "rec(%s, b = %s)"},
		{"rec", []int{1, 0}, "rec(b = %s, a = %s)"},
		{"rec", []int{0, 2}, "rec(%s, c = %s)"},
		{"rec", []int{0, 1, 2}, "rec(%s, %s, c = %s)"},
		{"rec", []int{0, 2, 1}, "rec(a = %s, c = %s, b = %s)"},
		{"vrec", []int{0, 1, 2}, "vrec(%s, %s, %s)"},
		{"vrec", []int{0}, "vrec(%s)"},
	}
	loops := []struct {
		open, close string
		its         []int64
	}{
		{"for it in [1, 2, 3] {\n", "}\n", []int64{1, 2, 3}},
		{"for it = 1; it <= 3; it = it + 1 {\n", "}\n", []int64{1, 2, 3}},
		{"for o in [1, 2] {\nfor it in [o, o + 5] {\n", "}\n}\n", []int64{1, 6, 2, 7}},
	}
	n := 0
	var rec func(sh shape, chosen []int)
	run := func(sh shape, chosen []int) {
		for li, lp := range loops {
			args := make([]any, len(chosen))
			for i, e := range chosen {
				args[i] = exprs[e]
			}
			call := fmt.Sprintf(sh.text, args...)
			src := "acc = 0\n" + lp.open + "acc = acc + it\n" + call + "\n" + lp.close + "rec(100, 200)\n"
			// reference
			var want []string
			counter, acc, stopped := int64(0), int64(0), false
			eval := func(e int, it int64) any {
				switch e {
				case 0:
					return it
				case 1:
					return it * 10
				case 2:
					counter++
					return counter
				case 3:
					return acc
				case 4:
					return int64(7)
				default:
					stopped = true
					want = append(want, "stop: "+probe.Render(it))
					return it
				}
			}
			for _, it := range lp.its {
				acc += it
				if sh.fn == "rec" {
					vals := []any{nil, "db", "dc"}
					for pi := 0; pi < 3; pi++ { // the probe asks for a, b, c in this order
						for ai, p := range sh.param {
							if p == pi {
								vals[pi] = eval(chosen[ai], it)
							}
						}
					}
					want = append(want, "rec: "+probe.Render(vals[0])+" "+probe.Render(vals[1])+" "+probe.Render(vals[2]))
				} else {
					first := eval(chosen[0], it)
					rest := []any{}
					for _, e := range chosen[1:] {
						rest = append(rest, eval(e, it))
					}
					want = append(want, "vrec: "+probe.Render(first)+" "+probe.Render(rest))
				}
				if stopped {
					break
				}
			}
			if !stopped {
				want = append(want, "rec: "+probe.Render(int64(100))+" "+probe.Render(int64(200))+" "+probe.Render("dc"))
			}
			// implementation
			var got []string
			var cnt int64
			recParams := []*runtimev2.Param{{Name: "a"}, {Name: "b", Val: func() any { return "db" }}, {Name: "c", Val: func() any { return "dc" }}}
			vrecParams := []*runtimev2.Param{{Name: "first"}, {Name: "rest", Variable: true}}
			stopParams := []*runtimev2.Param{{Name: "code", Val: func() any { return int64(0) }}}
			none := []*runtimev2.Param{}
			chk := func(ps []*runtimev2.Param) runtimev2.FnCall {
				return func(ctx *runtimev2.Task, e *ast.CallExpr) *errchain.PlError { return runtimev2.CheckPassParam(ctx, e, ps) }
			}
			record := func(name string, ps []*runtimev2.Param) runtimev2.FnCall {
				return func(ctx *runtimev2.Task, e *ast.CallExpr) *errchain.PlError {
					line := name + ":"
					for i := range ps {
						v, err := runtimev2.GetParam(ctx, e, ps, i)
						if err != nil {
							return err
						}
						if lst, ok := v.([]any); (ok && lst == nil) || (v == nil && ps[i].Variable) {
							v = []any{}
						}
						line += " " + probe.Render(v)
					}
					got = append(got, line)
					return nil
				}
			}
			fns := map[string]*runtimev2.Fn{
				"rec":  {CallCheck: chk(recParams), Call: record("rec", recParams), Desc: runtimev2.FnDesc{Name: "rec", Params: recParams}},
				"vrec": {CallCheck: chk(vrecParams), Call: record("vrec", vrecParams), Desc: runtimev2.FnDesc{Name: "vrec", Params: vrecParams}},
				"next": {CallCheck: chk(none), Call: func(ctx *runtimev2.Task, e *ast.CallExpr) *errchain.PlError {
					cnt++
					ctx.Regs.ReturnAppend(runtimev2.V{V: cnt, T: ast.Int})
					return nil
				}, Desc: runtimev2.FnDesc{Name: "next", Params: none}},
				"stop": {CallCheck: chk(stopParams), Call: func(ctx *runtimev2.Task, e *ast.CallExpr) *errchain.PlError {
					ctx.SetExit() // asks for the end of the run first, reads its own argument afterwards
					v, err := runtimev2.GetParam(ctx, e, stopParams, 0)
					if err != nil {
						return err
					}
					got = append(got, "stop: "+probe.Render(v))
					ctx.Regs.ReturnAppend(runtimev2.V{V: v, T: ast.Int})
					return nil
				}, Desc: runtimev2.FnDesc{Name: "stop", Params: stopParams}},
			}
			rp := replay{Sig: "rec(a, b?, c?) / vrec(first, rest...) / next() / stop(code?)", Call: call, Src: src}
			sc, lerr, crash := impl.LoadV2("c19.p", src, fns)
			if crash != nil || lerr != nil {
				rk.Fail(t, "repeated-sites", rp, "a script of bindable calls was not loaded: %v %v\nscript:\n%s", lerr, crash, src)
				continue
			}
			for pass := 0; pass < 2; pass++ { // the loaded script run twice: the second run binds like the first
				got, cnt = nil, 0
				rerr, crash := impl.RunV2(sc, nil)
				if crash != nil || rerr != nil {
					rk.Fail(t, "repeated-sites", rp, "run %d failed: %v %v\nscript:\n%s", pass+1, rerr, crash, src)
					break
				}
				if strings.Join(got, "\n") != strings.Join(want, "\n") {
					rk.Fail(t, "repeated-sites", rp, "run %d: the functions received\n  %s\nthe script gave\n  %s\nscript:\n%s", pass+1, strings.Join(got, "\n  "), strings.Join(want, "\n  "), src)
					break
				}
			}
			labels := []string{"repeated-call-site"}
			if strings.Contains(call, "=") {
				labels = append(labels, "repeated-call-site/named-argument")
			}
			if stopped {
				labels = append(labels, "repeated-call-site/exit-requested-inside-an-argument")
			}
			evid.Case(fmt.Sprintf("repeated/%s/%d", call, li), true, labels...)
			n++
		}
	}
	rec = func(sh shape, chosen []int) {
		if len(chosen) == len(sh.param) {
			run(sh, chosen)
			return
		}
		for e := range exprs {
			rec(sh, append(append([]int{}, chosen...), e))
		}
	}
	for _, sh := range shapes {
		rec(sh, nil)
	}
	evid.Exhaustive("call shape (positional / named / variadic) x argument expression forms x loop form, each script run twice", n)
}

// TestSharedDeclarations: the parameter list a call is bound against is the slice the function was registered with:
// its length and its elements at the time of the load - also when several functions are declared as prefixes of one
// array of parameters, in whichever order they are loaded, and when a list is edited between two loads.
func TestSharedDeclarations(t *testing.T) {
	full := []pdef{{req, "a"}, {req, "b"}, {opt, "c"}, {opt, "d"}}
	calls := [][]arg{
		{{Val: 1}, {Val: 2}}, {{Val: 1}, {Name: "b", Val: 2}}, {{Name: "a", Val: 1}, {Name: "b", Val: 2}}, {{Name: "b", Val: 2}, {Name: "a", Val: 1}},
		{{Val: 1}, {Val: 2}, {Name: "c", Val: 3}}, {{Val: 1}, {Val: 2}, {Name: "d", Val: 4}}, {{Val: 1}, {Name: "b", Val: 2}, {Name: "d", Val: 4}, {Name: "c", Val: 3}},
		{{Val: 1}, {Val: 2}, {Val: 3}}, {{Val: 1}, {Val: 2}, {Val: 3}, {Val: 4}}, {{Val: 1}, {Name: "c", Val: 3}}, {{Name: "a", Val: 1}, {Name: "b", Val: 2}, {Name: "c", Val: 3}, {Name: "d", Val: 4}},
	}
	n := 0
	check := func(slot string, l []pdef, params []*runtimev2.Param, call []arg, note string) {
		want, ok := refBind(l, call)
		rp := replay{Sig: sigText(l) + " " + note, Call: callText(call), Src: callText(call)}
		lerr, rerr, got, crash := runCallParams(params, call)
		switch {
		case crash != nil:
			rk.Fail(t, slot, rp, "binding %s to %s panicked: %s", rp.Call, rp.Sig, crash.Value)
		case !ok && lerr == nil:
			rk.Fail(t, slot, rp, "call %s cannot be bound to %s but was accepted at load (received %v)", rp.Call, rp.Sig, got)
		case ok && (lerr != nil || rerr != nil):
			rk.Fail(t, slot, rp, "call %s binds to %s (%v) but was refused: %v %v", rp.Call, rp.Sig, want, lerr, rerr)
		case ok && strings.Join(got, " | ") != strings.Join(want, " | "):
			rk.Fail(t, slot, rp, "call %s against %s: parameters received [%s], want [%s]", rp.Call, rp.Sig, strings.Join(got, " | "), strings.Join(want, " | "))
		}
		evid.Case(slot+"/"+rp.Sig+" <- "+rp.Call, true, "shared-declarations")
		n++
	}
	for _, order := range [][]int{{2, 3, 4}, {4, 3, 2}, {3, 2, 4, 2}, {2, 4, 2, 3}} {
		all := mkParams(full) // one array; every function of this round is a prefix of it
		for _, k := range order {
			for _, c := range calls {
				check("prefixes", full[:k], all[:k:k], c, fmt.Sprintf("(first %d of one shared array of %d, load order %v)", k, len(full), order))
				check("prefixes", full[:k], all[:k], c, fmt.Sprintf("(first %d of one shared array of %d, spare capacity, load order %v)", k, len(full), order))
			}
		}
	}
	// a list edited between two loads: a slot replaced, a name changed
	for round := 0; round < 3; round++ {
		l := []pdef{{req, "a"}, {req, "b"}, {opt, "c"}}
		params := mkParams(l)
		for _, c := range calls {
			check("edited", l, params, c, "(before the edit)")
		}
		switch round {
		case 0:
			l[1].Name = "z"
			params[1] = &runtimev2.Param{Name: "z"}
		case 1:
			l[1].Name = "z"
			params[1].Name = "z"
		default:
			l[0], l[1] = l[1], l[0]
			params[0], params[1] = params[1], params[0]
		}
		edited := append(append([][]arg{}, calls...), []arg{{Val: 1}, {Name: "z", Val: 2}}, []arg{{Name: "z", Val: 2}, {Name: "a", Val: 1}}, []arg{{Name: "b", Val: 2}, {Name: "a", Val: 1}, {Name: "c", Val: 0}})
		for _, c := range edited {
			check("edited", l, params, c, fmt.Sprintf("(after edit %d of the same slice)", round))
		}
	}
	evid.Exhaustive("prefix length x load order x call; list edited in place x call", n)
}

// TestParameterNames: names beyond ASCII: a letter or underscore of any script followed by letters, digits and
// underscores is a name; anything else is not. A valid name binds by name.
func TestParameterNames(t *testing.T) {
	names := []string{"größe", "éa", "é", "tamaño", "a名前", "名前", "x_é", "n٣", "_x", "_", "_1", "Ωmega", "a\u0301b", "a˵", "a͵", "ab֪", "x⪪", "٣a", "a-b", "a b", "a.b", "1a", "é1", "a\u200bb", "\ufeffa", "a\U0001F600", "\U00010400a", "a\U00010400", "a\xffb", "\xffa",
		// names spelled like the reserved words of the language, in any letter case
		"map", "in", "if", "nil", "int", "true", "inf", "nan", "for", "list", "str", "Map", "IF", "NULL", "Break", "elif", "while", "return", "identifier", "float", "bool", "continue", "else", "null", "false"}
	n := 0
	for _, nm := range names {
		for _, l := range [][]pdef{{{req, nm}}, {{req, "a"}, {opt, nm}}, {{req, nm}, {req, "b"}}, {{vari, nm}}} {
			if !checkList(t, "names", l) {
				n++
				continue
			}
			n++
			if !utf8.ValidString(nm) || (!gen.PlainIdent(nm) && !gen.IsReserved(nm)) {
				continue // cannot be written as a named argument
			}
			var call []arg
			for i, p := range l {
				if p.K == vari {
					call = append(call, arg{Val: int64(10 + i)})
				} else {
					// a name spelled like a reserved word is written back-quoted; it names the parameter all the same
					call = append(call, arg{Name: p.Name, Val: int64(10 + i), Quote: gen.IsReserved(p.Name)})
				}
			}
			if gen.IsReserved(nm) {
				evid.Label("names/reserved-word-back-quoted")
				// the same name twice, and next to a name that is not declared
				checkCall(t, "names", l, append(append([]arg{}, call...), arg{Name: nm, Val: 99, Quote: true}))
				checkCall(t, "names", l, []arg{{Name: nm + "x", Val: 1}})
			}
			checkCall(t, "names", l, call)
			if len(l) == 2 {
				checkCall(t, "names", l, []arg{call[1], call[0]})
			}
			n++
		}
	}
	evid.Exhaustive("parameter name over scripts and character categories x position in the list; bound by name", n)
}

// TestMultiValueArguments: an argument expression that yields several values (a host function that returns two or
// three) is not "the argument given for" any parameter: the call fails - at load or when the parameter is read - whether
// the argument is positional, named or part of the variadic tail, and wherever it stands. It is never cut down to its
// first value. A host function that returns exactly one value through the same mechanism binds normally.
func TestMultiValueArguments(t *testing.T) {
	lists := [][]pdef{{{req, "a"}}, {{req, "a"}, {req, "b"}}, {{req, "a"}, {opt, "b"}}, {{opt, "a"}, {opt, "b"}}, {{vari, "r"}}, {{req, "a"}, {vari, "r"}}, {{req, "a"}, {req, "b"}, {opt, "c"}}}
	n := 0
	for _, l := range lists {
		for _, multi := range []string{"two()", "three()", "one()"} {
			var calls []string
			switch {
			case len(l) == 1 && l[0].K == vari:
				calls = []string{"f(%s)", "f(1, %s)", "f(%s, 4)", "f(1, %s, 4)", "f(1, 2, 3, %s)"}
			case l[len(l)-1].K == vari:
				calls = []string{"f(%s)", "f(1, %s)", "f(%s, 2)", "f(1, 2, %s, 4)"}
			case len(l) == 1:
				calls = []string{"f(%s)", "f(a = %s)"}
			case len(l) == 2:
				calls = []string{"f(%s, 2)", "f(1, %s)", "f(a = %s, b = 2)", "f(b = %s, a = 1)", "f(1, b = %s)"}
			default:
				calls = []string{"f(%s, 2, 3)", "f(1, 2, %s)", "f(1, 2, c = %s)", "f(1, b = %s)", "f(1, %s)"}
			}
			for _, ct := range calls {
				src := "x = 7\n" + fmt.Sprintf(ct, multi)
				checkMultiValue(t, "multivalue", l, src)
				rp := replay{Sig: sigText(l), Call: src, Src: src}
				evid.Case("multivalue:"+rp.Sig+" <- "+src, true, "bind/multi-value-argument")
				n++
			}
		}
	}
	evid.Exhaustive("parameter list x argument position x host function returning 1, 2 or 3 values", n)
}

// checkMultiValue loads and runs src (a call of f with an argument that is a call of two(), three() or one()) against
// the parameter list l and applies the oracle of TestMultiValueArguments.
func checkMultiValue(t rk.Failer, slot string, l []pdef, src string) {
	params := mkParams(l)
	ret := func(name string, vals ...int64) *runtimev2.Fn {
		return &runtimev2.Fn{
			CallCheck: func(ctx *runtimev2.Task, e *ast.CallExpr) *errchain.PlError { return runtimev2.CheckPassParam(ctx, e, nil) },
			Call: func(ctx *runtimev2.Task, e *ast.CallExpr) *errchain.PlError {
				var out []runtimev2.V
				for _, v := range vals {
					out = append(out, runtimev2.V{V: v, T: ast.Int})
				}
				ctx.Regs.ReturnAppend(out...)
				return nil
			},
			Desc: runtimev2.FnDesc{Name: name},
		}
	}
		var rec []string
		fn := &runtimev2.Fn{
			CallCheck: func(ctx *runtimev2.Task, e *ast.CallExpr) *errchain.PlError { return runtimev2.CheckPassParam(ctx, e, params) },
			Call: func(ctx *runtimev2.Task, e *ast.CallExpr) *errchain.PlError {
				for i := range params {
					v, err := runtimev2.GetParam(ctx, e, params, i)
					if err != nil {
						return err
					}
					rec = append(rec, probe.Render(v))
				}
				return nil
			},
			Desc: runtimev2.FnDesc{Name: "f", Params: params},
		}
		rp := replay{Sig: sigText(l), Call: src, Src: src}
		sc, lerr, cr := impl.LoadV2("c19.p", src, map[string]*runtimev2.Fn{"f": fn, "two": ret("two", 10, 20), "three": ret("three", 10, 20, 30), "one": ret("one", 10)})
		if cr != nil {
			rk.Fail(t, slot, rp, "loading %q against %s panicked: %s", src, rp.Sig, cr.Value)
		}
		var rerr *errchain.PlError
		if lerr == nil {
			rerr, cr = impl.RunV2(sc, nil)
			if cr != nil {
				rk.Fail(t, slot, rp, "running %q against %s panicked: %s", src, rp.Sig, cr.Value)
			}
		}
		if strings.Contains(src, "one()") {
			if lerr != nil || rerr != nil || !strings.Contains(strings.Join(rec, " "), "i:10") {
				rk.Fail(t, slot, rp, "%q against %s: a host function returning one value is an ordinary argument, got load error %v, run error %v, received %v", src, rp.Sig, lerr, rerr, rec)
			}
		} else if lerr == nil && rerr == nil {
			rk.Fail(t, slot, rp, "%q against %s: an argument that yields several values was bound (received %v) instead of failing the call", src, rp.Sig, rec)
		}
}

// TestCollectionDefaults: an omitted optional parameter takes its declared default - the very value the declaration
// yields, with the Go types it has (integers stay integers, also beyond 2^53, typed slices stay what they are) - and
// parameters that declare their types accept a literal given by name wherever it stands in the call.
func TestCollectionDefaults(t *testing.T) {
	defaults := []func() any{
		func() any { return map[string]any{"n": int64(7), "big": int64(9007199254740993), "f": 2.5, "s": "x"} },
		func() any { return []any{int64(1), int64(-2), 2.0, "s", nil, true} },
		func() any { return map[string]any{"l": []any{int64(1), map[string]any{"k": int64(2)}}} },
		func() any { return []string{"a", "b"} },
		func() any { return map[string]int64{"a": 1} },
		func() any { return int64(9007199254740993) },
		func() any { return []any{} },
		func() any { return map[string]any{} },
	}
	n := 0
	for di, mk := range defaults {
		var received []any
		params := []*runtimev2.Param{{Name: "key", Typs: []ast.DType{ast.String}}, {Name: "opts", Val: mk}, {Name: "unit", Typs: []ast.DType{ast.String}, Val: func() any { return "ms" }}, {Name: "keep", Typs: []ast.DType{ast.Bool}, Val: func() any { return false }}}
		fn := &runtimev2.Fn{
			CallCheck: func(ctx *runtimev2.Task, e *ast.CallExpr) *errchain.PlError {
				return runtimev2.CheckPassParam(ctx, e, params)
			},
			Call: func(ctx *runtimev2.Task, e *ast.CallExpr) *errchain.PlError {
				var got []any
				for i := range params {
					v, err := runtimev2.GetParam(ctx, e, params, i)
					if err != nil {
						return err
					}
					got = append(got, v)
				}
				received = append(received, got)
				return nil
			},
		}
		calls := []struct {
			src  string
			want func() []any
		}{
			{"f(\"k\")", func() []any { return []any{"k", mk(), "ms", false} }},
			{"f(\"k\", unit = \"s\")", func() []any { return []any{"k", mk(), "s", false} }},
			{"f(unit = \"s\", key = \"k\")", func() []any { return []any{"k", mk(), "s", false} }},
			{"f(\"k\", keep = true, unit = \"us\")", func() []any { return []any{"k", mk(), "us", true} }},
			{"f(keep = true, key = \"k\")", func() []any { return []any{"k", mk(), "ms", true} }},
			{"for i in [1, 2] {\n  f(\"k\")\n}", func() []any { return []any{"k", mk(), "ms", false} }},
		}
		for ci, c := range calls {
			received = nil
			rp := replay{Sig: "f(key: str, opts = <collection>, unit: str = \"ms\", keep: bool = false)", Call: c.src, Src: c.src}
			s, err, crash := impl.LoadV2("c19.p", c.src, map[string]*runtimev2.Fn{"f": fn})
			if crash != nil || err != nil {
				rk.Fail(t, "defaults", rp, "a bindable call was refused at load: %v %v", err, crash)
			}
			if rerr, crash := impl.RunV2(s, nil); rerr != nil || crash != nil {
				rk.Fail(t, "defaults", rp, "run failed: %v %v", rerr, crash)
			}
			if len(received) == 0 {
				rk.Fail(t, "defaults", rp, "the function was not called")
			}
			for _, got := range received {
				want := c.want()
				if !reflect.DeepEqual(got, want) {
					rk.Fail(t, "defaults", rp, "parameters received %#v, want %#v (the omitted parameter takes the declared default as declared)", got, want)
				}
			}
			evid.Case(fmt.Sprintf("defaults/%d/%d", di, ci), true, "collection-defaults")
			n++
		}
	}
	evid.Exhaustive("declared default (collections with integers, typed collections, scalars) x call shape with typed parameters", n)
}

// TestRecheckAgainstOtherSignature: a host that checks a loaded script again - against another function table, which
// rejects it - still has the script it loaded: running it binds every call as it was bound at load. (A second check
// that accepts the call binds it anew, to the table of that check; that is not examined here.)
func TestRecheckAgainstOtherSignature(t *testing.T) {
	mkFn := func(l []pdef, rec *[]string) *runtimev2.Fn {
		params := mkParams(l)
		return &runtimev2.Fn{
			CallCheck: func(ctx *runtimev2.Task, e *ast.CallExpr) *errchain.PlError {
				return runtimev2.CheckPassParam(ctx, e, params)
			},
			Call: func(ctx *runtimev2.Task, e *ast.CallExpr) *errchain.PlError {
				for i := range params {
					v, err := runtimev2.GetParam(ctx, e, params, i)
					if err != nil {
						return err
					}
					if v == nil && params[i].Variable {
						v = []any{}
					}
					*rec = append(*rec, probe.Render(v))
				}
				return nil
			},
		}
	}
	p1s := [][]pdef{{{req, "a"}, {opt, "b"}}, {{req, "a"}, {req, "b"}, {opt, "c"}}, {{req, "a"}, {opt, "b"}, {opt, "c"}}}
	p2s := [][]pdef{{{req, "z"}}, {{req, "b"}}, {{req, "a"}}, {{req, "z"}, {req, "y"}}, {{opt, "b"}, {opt, "a"}}, {}}
	calls := [][]arg{{{Name: "a", Val: 1}}, {{Val: 1}, {Name: "b", Val: 2}}, {{Name: "b", Val: 2}, {Name: "a", Val: 1}}, {{Val: 1}}, {{Val: 1}, {Val: 2}}}
	n := 0
	for _, l1 := range p1s {
		for _, call := range calls {
			want, ok := refBind(l1, call)
			if !ok {
				continue
			}
			for _, l2 := range p2s {
				if _, accepted := refBind(l2, call); accepted {
					continue // a second check that accepts the call binds it anew: the host asked for that
				}
				var rec []string
				src := callText(call)
				rp := replay{Sig: sigText(l1) + ", checked again against " + sigText(l2), Call: src, Src: src}
				s, err, crash := impl.LoadV2("c19.p", src, map[string]*runtimev2.Fn{"f": mkFn(l1, &rec)})
				if err != nil || crash != nil {
					rk.Fail(t, "recheck", rp, "a bindable call was refused: %v %v", err, crash)
				}
				run := func(when string) {
					rec = nil
					if rerr, crash := impl.RunV2(s, nil); rerr != nil || crash != nil {
						rk.Fail(t, "recheck", rp, "%s: run failed: %v %v", when, rerr, crash)
					}
					if strings.Join(rec, " | ") != strings.Join(want, " | ") {
						rk.Fail(t, "recheck", rp, "%s: parameters received [%s], want [%s]", when, strings.Join(rec, " | "), strings.Join(want, " | "))
					}
				}
				run("first run")
				var rec2 []string
				other := &runtimev2.Script{Name: "c19.p", Stmts: s.Stmts, Fn: map[string]*runtimev2.Fn{"f": mkFn(l2, &rec2)}}
				func() {
					defer func() { _ = recover() }()
					_ = other.Check()
				}()
				run("after the same statements were checked against another signature")
				evid.Case("recheck/"+rp.Sig+" <- "+src, true, "recheck-against-other-signature")
				n++
			}
		}
	}
	evid.Exhaustive("signature at load x call x signature of the second check", n)
}

func TestManyParameters(t *testing.T) {
	n := 0
	for _, np := range []int{8, 15, 16, 17, 31, 32, 33, 63, 64, 65, 100} {
		for shape := 0; shape < 4; shape++ {
			var l []pdef
			nreq := np
			switch shape {
			case 1:
				nreq = np / 2 // the rest optional
			case 2:
				nreq = np - 1 // last one variadic
			case 3:
				nreq = 1
			}
			for i := 0; i < np; i++ {
				k := req
				if i >= nreq {
					k = opt
				}
				if shape == 2 && i == np-1 {
					k = vari
				}
				l = append(l, pdef{k, fmt.Sprintf("p%d", i)})
			}
			if !checkList(t, "many", l) {
				rk.Fail(t, "many", replay{Sig: sigText(l)}, "harness: generated list is not valid")
			}
			pos := func(k int) []arg {
				var c []arg
				for i := 0; i < k; i++ {
					c = append(c, arg{Val: int64(1000 + i), Nil: i%11 == 10})
				}
				return c
			}
			calls := [][]arg{pos(nreq), pos(np)}
			if shape == 2 {
				calls = append(calls, pos(np-1), pos(np+1), pos(np+31), pos(np+32), pos(np+33), pos(np+300))
			} else {
				// the second half by name, in reverse order
				c := pos(nreq / 2)
				for i := nreq - 1; i >= nreq/2; i-- {
					c = append(c, arg{Name: l[i].Name, Val: int64(2000 + i)})
				}
				calls = append(calls, c)
				// every parameter by name, odd ones first
				var c2 []arg
				for i := 1; i < np; i += 2 {
					c2 = append(c2, arg{Name: l[i].Name, Val: int64(3000 + i)})
				}
				for i := 0; i < np; i += 2 {
					c2 = append(c2, arg{Name: l[i].Name, Val: int64(3000 + i)})
				}
				calls = append(calls, c2, pos(np+1), pos(nreq-1))
			}
			for _, c := range calls {
				checkCall(t, "many", l, c)
				n++
			}
		}
	}
	evid.Exhaustive("8..100 parameters x {all required, half optional, variadic tail, one required} x call shapes", n)
}

// TestTypedGetters: each typed getter with well- and ill-typed arguments.
// TestTypedGettersOnDefaults: a declared default of a narrower Go number kind reaches the typed getter as the number
// it is: the float64 that equals the float32 exactly, the int64 that equals the int / uint32.
func TestTypedGettersOnDefaults(t *testing.T) {
	n := 0
	f32s := []float32{0.1, 1.0 / 3.0, 5e-7, 1e21, math.MaxFloat32, math.SmallestNonzeroFloat32, 1.5, 0.25, -2, 65536, 16777217, float32(math.Inf(1)), -0.0}
	for _, f := range f32s {
		f := f
		params := []*runtimev2.Param{{Name: "x", Val: func() any { return f }}}
		var got float64
		var gerr *errchain.PlError
		fn := &runtimev2.Fn{
			CallCheck: func(ctx *runtimev2.Task, e *ast.CallExpr) *errchain.PlError {
				return runtimev2.CheckPassParam(ctx, e, params)
			},
			Call: func(ctx *runtimev2.Task, e *ast.CallExpr) *errchain.PlError {
				got, gerr = runtimev2.GetParamFloat(ctx, e, params, 0)
				return gerr
			},
		}
		rp := replay{Sig: fmt.Sprintf("f(?x = float32(%v)) read with GetParamFloat", f), Call: "f()", Src: "f()"}
		s, err, crash := impl.LoadV2("c19.p", "f()", map[string]*runtimev2.Fn{"f": fn})
		if err != nil || crash != nil {
			rk.Fail(t, "getters-defaults", rp, "harness: %v %v", err, crash)
		}
		if rerr, crash := impl.RunV2(s, nil); rerr != nil || crash != nil {
			rk.Fail(t, "getters-defaults", rp, "run failed: %v %v", rerr, crash)
		}
		if math.Float64bits(got) != math.Float64bits(float64(f)) {
			rk.Fail(t, "getters-defaults", rp, "GetParamFloat returned %v (bits %x), the declared default float32(%v) is exactly %v (bits %x)", got, math.Float64bits(got), f, float64(f), math.Float64bits(float64(f)))
		}
		evid.Case(rp.Sig, true, "typed-getter-on-default")
		n++
	}
	for _, v := range []any{int(7), int(-9007199254740993), uint32(4294967295), int64(9223372036854775807)} {
		v := v
		params := []*runtimev2.Param{{Name: "x", Val: func() any { return v }}}
		var got int64
		fn := &runtimev2.Fn{
			CallCheck: func(ctx *runtimev2.Task, e *ast.CallExpr) *errchain.PlError {
				return runtimev2.CheckPassParam(ctx, e, params)
			},
			Call: func(ctx *runtimev2.Task, e *ast.CallExpr) *errchain.PlError {
				var gerr *errchain.PlError
				got, gerr = runtimev2.GetParamInt(ctx, e, params, 0)
				return gerr
			},
		}
		rp := replay{Sig: fmt.Sprintf("f(?x = %T(%v)) read with GetParamInt", v, v), Call: "f()", Src: "f()"}
		s, err, crash := impl.LoadV2("c19.p", "f()", map[string]*runtimev2.Fn{"f": fn})
		if err != nil || crash != nil {
			rk.Fail(t, "getters-defaults", rp, "harness: %v %v", err, crash)
		}
		if rerr, crash := impl.RunV2(s, nil); rerr != nil || crash != nil {
			rk.Fail(t, "getters-defaults", rp, "run failed: %v %v", rerr, crash)
		}
		if fmt.Sprint(got) != fmt.Sprint(v) {
			rk.Fail(t, "getters-defaults", rp, "GetParamInt returned %d, the declared default is %v", got, v)
		}
		evid.Case(rp.Sig, true, "typed-getter-on-default")
		n++
	}
	evid.Exhaustive("declared default of a narrower number kind x typed getter", n)
}

func TestTypedGetters(t *testing.T) {
	params := []*runtimev2.Param{{Name: "v"}}
	values := []string{"5", "1.5", "true", `"s"`, "[1, 2]", `{"k": 1}`, "nil"}
	getters := []struct {
		name string
		ok   string // the literal kinds it must accept
		get  func(ctx *runtimev2.Task, e *ast.CallExpr) (any, *errchain.PlError)
	}{
		{"GetParamInt", "5", func(ctx *runtimev2.Task, e *ast.CallExpr) (any, *errchain.PlError) {
			return runtimev2.GetParamInt(ctx, e, params, 0)
		}},
		{"GetParamFloat", "1.5", func(ctx *runtimev2.Task, e *ast.CallExpr) (any, *errchain.PlError) {
			return runtimev2.GetParamFloat(ctx, e, params, 0)
		}},
		{"GetParamBool", "true", func(ctx *runtimev2.Task, e *ast.CallExpr) (any, *errchain.PlError) {
			return runtimev2.GetParamBool(ctx, e, params, 0)
		}},
		{"GetParamString", `"s"`, func(ctx *runtimev2.Task, e *ast.CallExpr) (any, *errchain.PlError) {
			return runtimev2.GetParamString(ctx, e, params, 0)
		}},
		{"GetParamList", "[1, 2]", func(ctx *runtimev2.Task, e *ast.CallExpr) (any, *errchain.PlError) {
			return runtimev2.GetParamList(ctx, e, params, 0)
		}},
		{"GetParamMap", `{"k": 1}`, func(ctx *runtimev2.Task, e *ast.CallExpr) (any, *errchain.PlError) {
			return runtimev2.GetParamMap(ctx, e, params, 0)
		}},
	}
	want := map[string]string{"5": "i:5", "1.5": "f:1.5", "true": "b:true", `"s"`: `s:"s"`, "[1, 2]": "[i:1 i:2]", `{"k": 1}`: `{"k":i:1}`}
	for _, g := range getters {
		for _, v := range values {
			var got any
			var gerr *errchain.PlError
			g := g
			fn := &runtimev2.Fn{
				CallCheck: func(ctx *runtimev2.Task, e *ast.CallExpr) *errchain.PlError {
					return runtimev2.CheckPassParam(ctx, e, params)
				},
				Call: func(ctx *runtimev2.Task, e *ast.CallExpr) *errchain.PlError {
					got, gerr = g.get(ctx, e)
					return gerr
				},
			}
			src := "f(" + v + ")"
			rp := replay{Sig: g.name, Call: src, Src: src}
			s, err, crash := impl.LoadV2("c19.p", src, map[string]*runtimev2.Fn{"f": fn})
			if crash != nil || err != nil {
				rk.Fail(t, "getters", rp, "harness: %v %v", err, crash)
			}
			rerr, crash := impl.RunV2(s, nil)
			if crash != nil {
				rk.Fail(t, "getters", rp, "%s on %s panicked: %s", g.name, v, crash.Value)
			}
			if v == g.ok {
				if rerr != nil || probe.Render(got) != want[v] {
					rk.Fail(t, "getters", rp, "%s on %s returned %s, err %v; want %s", g.name, v, probe.Render(got), rerr, want[v])
				}
			} else if rerr == nil {
				rk.Fail(t, "getters", rp, "%s accepted the ill-typed argument %s (returned %s)", g.name, v, probe.Render(got))
			}
			evid.Case(g.name+"/"+v, true, "typed-getter")
		}
	}
}

func TestReplays(t *testing.T) {
	files, _ := filepath.Glob(filepath.Join(evid.Dir(), "replays", prop, "*.json"))
	if r := os.Getenv("VERIF_REPLAY"); r != "" {
		files = []string{r}
	}
	for _, f := range files {
		b, err := os.ReadFile(f)
		if err != nil {
			continue
		}
		var r struct {
			Case replay `json:"case"`
		}
		if json.Unmarshal(b, &r) != nil || r.Case.Sig == "" || !strings.HasPrefix(r.Case.Sig, "f(") {
			continue
		}
		t.Run(filepath.Base(f), func(t *testing.T) {
			l, ok1 := parseSig(r.Case.Sig)
			c, ok2 := parseCall(r.Case.Call)
			if !ok1 {
				t.Skip("unparsable replay")
			}
			if strings.Contains(r.Case.Call, "\n") && (strings.Contains(r.Case.Call, "two()") || strings.Contains(r.Case.Call, "three()") || strings.Contains(r.Case.Call, "one()")) {
				checkMultiValue(t, "replay", l, r.Case.Call)
				return
			}
			if checkList(t, "replay", l) && ok2 && r.Case.Call != "" {
				checkCall(t, "replay", l, c)
			}
		})
	}
}

func parseSig(s string) ([]pdef, bool) {
	s = strings.TrimSuffix(strings.TrimPrefix(s, "f("), ")")
	if s == "" {
		return nil, true
	}
	var out []pdef
	for _, p := range strings.Split(s, ", ") {
		switch {
		case strings.HasPrefix(p, "?..."):
			out = append(out, pdef{varopt, p[4:]})
		case strings.HasPrefix(p, "..."):
			out = append(out, pdef{vari, p[3:]})
		case strings.HasPrefix(p, "?"):
			out = append(out, pdef{opt, p[1:]})
		default:
			out = append(out, pdef{req, p})
		}
	}
	return out, true
}

func parseCall(s string) ([]arg, bool) {
	if !strings.HasPrefix(s, "f(") {
		return nil, false
	}
	s = strings.TrimSuffix(strings.TrimPrefix(s, "f("), ")")
	if s == "" {
		return nil, true
	}
	var out []arg
	for _, p := range strings.Split(s, ", ") {
		a := arg{}
		if i := strings.Index(p, "="); i >= 0 {
			a.Name = p[:i]
			if len(a.Name) >= 2 && a.Name[0] == '`' {
				a.Name, a.Quote = a.Name[1:len(a.Name)-1], true
			}
			p = p[i+1:]
		}
		if p == "nil" {
			a.Nil = true
		} else {
			fmt.Sscanf(p, "%d", &a.Val)
		}
		out = append(out, a)
	}
	return out, true
}
