package c15

import (
	"encoding/json"
	"fmt"
	"os"
	"os/exec"
	"path/filepath"
	"sort"
	"strings"
	"sync"
	"testing"
	"time"

	plrt "github.com/GuanceCloud/platypus/pkg/engine/runtime"
	"github.com/GuanceCloud/platypus/pkg/inimpl/guancecloud/input"
	"pgregory.net/rapid"
	"verifharness/conv"
	"verifharness/evid"
	"verifharness/gen"
	"verifharness/impl"
	"verifharness/probe"
	"verifharness/rk"
	"verifharness/sem"
	"verifharness/sgen"
)

const prop = "C15"

func TestMain(m *testing.M) {
	if p := os.Getenv("VERIF_C15_CHILD"); p != "" {
		childMain(p)
		return
	}
	evid.Init(prop, "exploration",
		"a pool of operations generated per run - parse(text), load(script set) and run(script set, point, cancel-at-poll k) over script sets that succeed, fail in the middle of a loop, exit(), get cancelled, are syntactically invalid, fail the load-time check, use grok / add_pattern / use() - and random histories (interleavings of length <= 60 quick / <= 400 thorough) of pool operations executed in one process on one goroutine, with points taken from and returned to the point pool. Oracle: for every pool operation the reference result is computed by a fresh child process (the test binary re-executes itself and performs the operation as its first and only one); every occurrence of the operation inside a history must give an equal result: load verdicts and error texts, parsed tree, final measurement / tags / fields (Go types) / time, probe trace, returned error chain. Non-trivial: the operation is preceded in its history by a failing, exiting or cancelled run, a rejected load or a parse error; distinct by (operation, predecessor kind).",
		"map-order dependent scripts are not generated (single-key map loops only)",
		"the child process is the same binary: differences between fresh and used process state are what is observed")
	code := m.Run()
	evid.Flush(code == 0)
	os.Exit(code)
}

// Op is one operation of the pool.
type Op struct {
	Kind    string            `json:"kind"` // parse | load | run
	Text    string            `json:"text,omitempty"`
	Scripts map[string]string `json:"scripts,omitempty"`
	Root    string            `json:"root,omitempty"`
	Tags    map[string]string `json:"tags,omitempty"`
	Fields  map[string]string `json:"fields,omitempty"` // rendered (probe.Render)
	FireAt  int               `json:"fire_at,omitempty"`
	Class   string            `json:"class"` // ok | run-error | exit | cancelled | load-error | parse-error
	// Time of the input point: "" = a fixed instant in 2020, "zero" = the zero time.Time, "epoch", "before-epoch", "far"
	Time string `json:"point_time,omitempty"`
}

func opTime(o *Op) time.Time {
	switch o.Time {
	case "zero":
		return time.Time{}
	case "epoch":
		return time.Unix(0, 0)
	case "before-epoch":
		return time.Unix(-1, 500)
	case "far":
		return time.Date(2261, 12, 31, 23, 59, 59, 999999999, time.UTC)
	}
	return impl.FixedTime()
}

var v1call, v1check = sem.V1Tables()

// loadedSets caches loaded script sets inside one process (a history loads once and runs many times).
type state struct {
	loaded map[string]map[string]*plrt.Script
	errs   map[string]map[string]error
	// the tag and field maps of the last few finished points, as the host holds on to them after giving the point
	// object back to the pool, with their rendering at that moment: a result belongs to its run for good
	held []heldResult
}

type heldResult struct {
	tags   map[string]string
	fields map[string]any
	text   string
}

func renderMaps(tags map[string]string, fields map[string]any) string {
	var ks []string
	for tk, tv := range tags {
		ks = append(ks, fmt.Sprintf("tag %s=%q", tk, tv))
	}
	for fk, fv := range fields {
		ks = append(ks, fmt.Sprintf("field %s=%s", fk, probe.Render(fv)))
	}
	sort.Strings(ks)
	return strings.Join(ks, "\n")
}

func newState() *state {
	return &state{loaded: map[string]map[string]*plrt.Script{}, errs: map[string]map[string]error{}}
}

func setKey(o *Op) string {
	b, _ := json.Marshal(o.Scripts)
	return string(b)
}

func verdicts(ok map[string]*plrt.Script, errs map[string]error) string {
	var names []string
	for n := range ok {
		names = append(names, n+"=ok")
	}
	for n, e := range errs {
		names = append(names, n+"=ERR:"+e.Error())
	}
	sort.Strings(names)
	return strings.Join(names, "\n")
}

// perform executes one operation and returns its canonical result.
func perform(st *state, o *Op) string {
	switch o.Kind {
	case "parse":
		stmts, err, crash := impl.Parse("p.p", o.Text)
		if crash != nil {
			return "CRASH " + crash.Value
		}
		if err != nil {
			return "ERR " + err.Error()
		}
		tree, c := conv.Stmts(stmts)
		if c.Err != nil {
			return "MALFORMED " + c.Err.Error()
		}
		return "OK " + gen.ShapeAll(tree)
	case "load":
		ok, errs, crash := impl.LoadV1(o.Scripts, v1call, v1check)
		if crash != nil {
			return "CRASH " + crash.Value
		}
		st.loaded[setKey(o)], st.errs[setKey(o)] = ok, errs
		return verdicts(ok, errs)
	case "run":
		k := setKey(o)
		if _, have := st.loaded[k]; !have {
			ok, errs, crash := impl.LoadV1(o.Scripts, v1call, v1check)
			if crash != nil {
				return "CRASH " + crash.Value
			}
			st.loaded[k], st.errs[k] = ok, errs
		}
		s := st.loaded[k][o.Root]
		if s == nil {
			return "NOTLOADED " + verdicts(st.loaded[k], st.errs[k])
		}
		fields := map[string]any{}
		for fk, fv := range o.Fields {
			v, err := sem.ParseRendered(fv)
			if err != nil {
				return "HARNESS " + err.Error()
			}
			fields[fk] = v
		}
		var tags map[string]string // a point without tags is made without a tag map
		for tk, tv := range o.Tags {
			if tags == nil {
				tags = map[string]string{}
			}
			tags[tk] = tv
		}
		pt := input.GetPoint()
		input.InitPt(pt, "m", tags, fields, opTime(o))
		sig := &probe.Sig{FireAt: o.FireAt}
		rerr, crash := impl.RunV1(s, pt, sig)
		var b strings.Builder
		if crash != nil {
			fmt.Fprintf(&b, "CRASH %s\n", crash.Value)
		}
		if rerr != nil {
			fmt.Fprintf(&b, "ERR %s\n", rerr.Error())
		}
		fmt.Fprintf(&b, "meas=%s time=%d zero=%v drop=%v\n", pt.Measurement, pt.Time.UnixNano(), pt.Time.IsZero(), pt.Drop)
		var ks []string
		for tk, tv := range pt.Tags {
			ks = append(ks, fmt.Sprintf("tag %s=%q", tk, tv))
		}
		for fk, fv := range pt.Fields {
			ks = append(ks, fmt.Sprintf("field %s=%s", fk, probe.Render(fv)))
		}
		sort.Strings(ks)
		b.WriteString(strings.Join(ks, "\n"))
		b.WriteString("\n")
		for _, r := range sig.Trace {
			b.WriteString(r.String())
			b.WriteString("\n")
		}
		fmt.Fprintf(&b, "polls=%d", sig.Polls)
		outTags, outFields := pt.Tags, pt.Fields
		input.PutPoint(pt)
		for _, h := range st.held {
			if now := renderMaps(h.tags, h.fields); now != h.text {
				fmt.Fprintf(&b, "\nAN EARLIER RESULT CHANGED: the tags and fields of an earlier finished point read\n%s\nwhen its run returned and now read\n%s", h.text, now)
				st.held = nil
				break
			}
		}
		st.held = append(st.held, heldResult{outTags, outFields, renderMaps(outTags, outFields)})
		if len(st.held) > 6 {
			st.held = st.held[1:]
		}
		return b.String()
	}
	return "HARNESS unknown op"
}

func childMain(path string) {
	b, err := os.ReadFile(path)
	if err != nil {
		os.Exit(3)
	}
	var o Op
	if json.Unmarshal(b, &o) != nil {
		os.Exit(3)
	}
	res := perform(newState(), &o)
	if os.WriteFile(path+".out", []byte(res), 0o644) != nil {
		os.Exit(3)
	}
	os.Exit(0)
}

// reference computes the result of op in a fresh process.
func reference(o *Op, dir string, i int) (string, error) {
	p := filepath.Join(dir, fmt.Sprintf("op-%d.json", i))
	b, _ := json.Marshal(o)
	if err := os.WriteFile(p, b, 0o644); err != nil {
		return "", err
	}
	cmd := exec.Command(os.Args[0], "-test.run", "^$")
	cmd.Env = append(os.Environ(), "VERIF_C15_CHILD="+p)
	out, err := cmd.CombinedOutput()
	if err != nil {
		return "", fmt.Errorf("child failed: %v: %s", err, out)
	}
	r, err := os.ReadFile(p + ".out")
	return string(r), err
}

// ------------------------------------------------------------------ pool generation

func renderFields(f map[string]any) map[string]string {
	out := map[string]string{}
	for k, v := range f {
		out[k] = probe.Render(v)
	}
	return out
}

var templates = []struct {
	class string
	src   string
}{
	{"run-error", "for i in [1, 2, 3] {\n add_key(k, i)\n probe(\"it\", i)\n if i == 2 { x = 1 + \"a\" }\n}\nprobe(\"never\")"},
	{"run-error", "l = [1, 2]\nfor j = 0; j < 5; j = j + 1 {\n probe(\"j\", j)\n y = l[j]\n}"},
	{"exit", "add_key(before, 1)\nfor i in [1, 2, 3] {\n if i == 2 { exit() }\n probe(\"it\", i)\n}\nadd_key(after, 1)"},
	{"exit", "if true { exit() }\nadd_key(never, 1)"},
	{"ok", "grok(_, \"%{WORD:w1} %{INT:n:int}\")\nadd_key(m2, w1)\nprobe(\"g\", w1, n)"},
	{"ok", "add_pattern(\"mine\", \"[a-z]+\")\nif true {\n add_pattern(\"inner\", \"%{mine}\\\\d\")\n ok = grok(_, \"%{inner:x}\")\n probe(\"ok\", ok, x)\n}"},
	{"ok", "for c in \"aé\" { probe(\"c\", c) }\nm = {\"k\": 1}\nfor k in m { probe(\"k\", k) }\nset_tag(t2, \"v\")\nrename(r2, message)\ncast(n1, \"str\")"},
	{"ok", "a = [3, 2, 1][::-1]\nb = a[1:]\nb[0] = 9\nprobe(\"ab\", a, b)\nadd_key(js, {\"a\": a})\nset_measurement(\"mm\")"},
	{"ok", "add_key(ts, \"2021-05-27 06:54:14.760 UTC\")\ndefault_time(ts)\nstrfmt(s, \"%v|%v\", 1, \"x\")\nuppercase(message)"},
	{"run-error", "probe(\"start\")\nload_json(\"{bad\")\nprobe(\"never\")"},
	{"run-error", "url_decode(bad)\nadd_key(after, 1)"},
	{"ok", "x = 0\nfor ;; {\n x = x + 1\n probe(\"x\", x)\n if x >= 4 { break }\n continue\n}\nprobe(\"done\", x)"},
	// a run that leaves names behind when it ends abnormally inside a block, and runs that read such names unassigned
	{"run-error", "v = 1\nw = \"top\"\na = [1]\nb = {\"k\": 1}\nc = 2.5\nk1 = true\nif true {\n i = 7\n x = 1 + \"a\"\n}"},
	{"exit", "v = 2\nw = \"top2\"\na = \"s\"\nfor i in [1, 2] {\n x = i\n if i == 2 { exit() }\n}"},
	{"ok", "probe(\"names\", v, w, x, i, a, b, c, k1, j, l, m)"},
	{"ok", "if v == nil { probe(\"v is nil\") } else { probe(\"v has a value\", v) }\nfor q in [1] { probe(\"inner\", w, x) }"},
	// literals that are written through: every run (and every pass of a loop) starts from the literal as written
	{"ok", "x = [[1], [2]]\nx[0][0] += 10\nprobe(\"x\", x)\nn = 0\nfor e in [[1], [2]] {\n e[0] *= 3\n n += e[0]\n}\nprobe(\"n\", n)"},
	{"ok", "hits = [0]\nif len(message) > 3 { hits[0] += 1 }\nm = {\"k\": {\"c\": 0}}\nm[\"k\"][\"c\"] += len(message)\nprobe(\"hits\", hits, m)\nd = 10 / (2 - hits[0])"},
	// the same grok expression text under different alias definitions (and under none: see badLoads)
	{"ok", "add_pattern(\"tok\", \"[a-z]+\")\nok = grok(_, \"%{tok:val}\")\nprobe(\"tok\", ok, val)"},
	{"ok", "add_pattern(\"tok\", \"\\\\d+\")\nok = grok(_, \"%{tok:val}\")\nprobe(\"tok\", ok, val)"},
	{"ok", "add_pattern(\"tok\", \"\\\\w+ \\\\w+\")\nok = grok(_, \"%{tok:val}\")\nprobe(\"tok\", ok, val)"},
	{"ok", "if true {\n add_pattern(\"tok\", \"[a-z]\")\n ok = grok(_, \"%{tok:val}\")\n probe(\"in\", ok, val)\n}\nadd_pattern(\"tok\", \"[0-9]\")\nok = grok(_, \"%{tok:val}\")\nprobe(\"out\", ok, val)"},
	{"ok", "add_pattern(\"WORD\", \"x+\")\nok = grok(_, \"%{WORD:w1} %{INT:n:int}\")\nprobe(\"shadowed-global\", ok, w1, n)"},
	// builtins whose arguments are only examined at run time
	{"run-error", "probe(\"s\")\nreplace(message, \"(\", \"x\")\nprobe(\"never\")"},
	{"ok", "replace(message, \"[a-z]+\", \"<$0>\")\nreplace(message, \"l\", \"L\")\nprobe(\"m\", message)"},
	{"ok", "datetime(n1, \"ms\", \"nosuch layout\")\nprobe(\"d\", n1)"},
	{"ok", "datetime(n1, \"s\", \"RFC3339\")\nprobe(\"d\", n1)\nsql_cover(_)\nprobe(\"q\", message)"},
	{"ok", "strfmt(s, \"%d|%s\", \"x\", 2)\nprobe(\"s\", s)\nxml(_, \"/a/b\", v)\nprobe(\"v\", v)"},
	{"ok", "cast(n1, \"int\")\ncast(message, \"bool\")\nprobe(\"c\", n1, message)"},
	// formatting calls that stop half-way (a later operand fails, or cannot be formatted) and formatting calls that work
	{"run-error", "l = [1]\nprintf(\"%d %s\\n\", 7, l[5])\nprobe(\"never\")"},
	{"run-error", "a = [1]\na[0] = a\nstrfmt(k, \"%d %v\", 1, a)"},
	{"run-error", "l = [1]\nstrfmt(k, \"%s-%s-%d\", \"stale-1\", \"stale-2\", l[5])"},
	{"ok", "strfmt(out, \"%d|%s\", 7, \"seven\")\nprobe(\"o\", out)\nprintf(\"%v %v\\n\", 1, message)"},
	{"ok", "strfmt(out, \"%v\", n1)\nstrfmt(out2, \"no operands\")\nprobe(\"o\", out, out2)"},
	// keys that collide: a rename onto an existing field / tag, a key dropped and made again with another type or kind;
	// and a reader that uses several keys of different types and kinds in type-sensitive ways
	{"ok", "add_key(a1, 1)\nadd_key(b1, \"s\")\nrename(b1, a1)\nprobe(\"r\", a1, b1)"},
	{"ok", "set_tag(tg1, \"t\")\nadd_key(f1, 2)\nrename(tg1, f1)\nprobe(\"r\", tg1, f1)\nadd_key(f2, 2.5)\nrename(f2, tg1)\nprobe(\"r2\", tg1, f2)"},
	{"ok", "rename(message, n1)\nprobe(\"m\", message, n1)\nrename(n1, message)\nprobe(\"m2\", message, n1)"},
	{"ok", "add_key(i1, 1)\nadd_key(s1, \"x\")\nadd_key(fl, 2.5)\nadd_key(bo, true)\nset_tag(tg1, \"t\")\nprobe(\"types\", i1 + 1, s1 + \"y\", fl * 2, tg1 + \"z\", bo && true)\ncast(i1, \"str\")\nprobe(\"after\", i1 + \"s\")"},
	{"ok", "add_key(k9, 1)\ndrop_key(k9)\nadd_key(k9, \"s\")\nset_tag(k9)\nadd_key(k9, 2)\nprobe(\"k9\", k9)\ndrop_key(k9)\nprobe(\"gone\", k9)"},
	{"ok", "probe(\"in\", message + \"!\", n1, t1)\nadd_key(z1, 1)\nadd_key(z2, \"two\")\nprobe(\"z\", z1 + 1, z2 + \"2\")"},
	// values that become tag text: floats and collections, another one in each script (a finished point keeps its own text)
	{"ok", "x = 1.5\nset_tag(ft, x)\nprobe(\"ft\", ft)"},
	{"ok", "x = 2.25\nset_tag(ft, x)\ny = 0.125\nset_tag(ft2, y)\nprobe(\"ft\", ft, ft2)"},
	{"ok", "add_key(fl, 12.5)\nset_tag(fl)\nset_tag(t3, \"s\")\nadd_key(t3, 0.5)\nprobe(\"t\", fl, t3)"},
	{"ok", "v = [\"alpha\", \"beta\", \"gamma\"]\nset_tag(ct, v)\nprobe(\"ct\", ct)"},
	{"ok", "v = {\"x\": 1}\nset_tag(ct, v)\nw = [1, 2]\nset_tag(ct2, w)\nprobe(\"ct\", ct, ct2)"},
	{"ok", "v = load_json(\"{\\\"k\\\": [1, 2, {\\\"z\\\": null}]}\")\nset_tag(ct, v)\nadd_key(cf, v)\nprobe(\"c\", ct, cf)"},
}

var badParses = []string{"b = 'x\\`y'", "b = \"x\\`y\"", "b = \"x\\\x00y\"", "b = 'x\\\x00y'", "x = \"\\x4\"", "x = '\\u12'", "x = \"\\U00110000\"", "x = \"\\777\"", "x = \"\\ud800\"", "`a\nb` = 1", "b `if`", "x '''abc'''", "a `k`\nb `q`", "f(a) \"\"\"m\"\"\"", "1 `x y`", "a = 1 `b`", "x = '''t''' '''u'''",
	"x = = 1", "-0x", "for a in 1e {}", "\"unterminated", "a[", "if a {", "x = 1 +", "f(", "`", "\"\\q\"", "a = 1; b = ;", "{\"a\": }", "for ;; ", ")", "x = \"a\" \"b\""}
var badLoads = []string{"for i in [1] { nosuch() }", "for ;; { add_key() }", "for x in [1] { for y in [2] { cast(a, \"zzz\") } }", "for i in [1] { break }\nbreak", "if true { for ;; { } continue }", "for k in {\"a\": 1} { grok(_, \"%{NOSUCH:x}\") }\ncontinue",
	"ok = grok(_, \"%{tok:val}\")", "grok(_, \"%{inner:x}\")", "if true { grok(_, \"%{inner:x}\") }", "for i in [1] { if true { ok = grok(_, \"%{tok:val}\") } }", "if false { } else { grok(_, \"%{mine}\") }", "nosuch()", "add_key()", "break", "cast(a, \"zzz\")", "grok(_, \"%{NOSUCH:x}\")", "if true { continue }", "x = [1, nosuch2()]", "use(1)"}

func genPool(t *rapid.T, n int) []*Op {
	var pool []*Op
	point := func() (map[string]string, map[string]string) {
		f := map[string]any{"message": rapid.SampledFrom([]string{"hello 42", "abc1 x", "", "two words", "SELECT 'backslash\\' AND id ='1234'", "SELECT 'a\\' -- ', b\nFROM t", "<a><b>t</b></a>"}).Draw(t, "msg")}
		if rapid.Bool().Draw(t, "n1") {
			f["n1"] = rapid.SampledFrom([]any{int64(5), 2.5, true, nil, "s"}).Draw(t, "n1v")
		}
		if rapid.Bool().Draw(t, "bad") {
			f["bad"] = "%zz"
		}
		tags := map[string]string{}
		if rapid.Bool().Draw(t, "t1") {
			tags["t1"] = "tv"
		}
		return tags, renderFields(f)
	}
	// every template once on its own and once as the callee of a use() call; the rest of the pool is random
	for ti, tp := range templates {
		tags, fields := point()
		pool = append(pool, &Op{Kind: "run", Scripts: map[string]string{"main.p": tp.src}, Root: "main.p", Tags: tags, Fields: fields, Class: tp.class})
		tags, fields = point()
		pool = append(pool, &Op{Kind: "run", Scripts: map[string]string{"main.p": "probe(\"caller-start\")\nv = 1\nuse(\"c.p\")\nprobe(\"caller-end\", v)\nadd_key(done, true)", "c.p": tp.src}, Root: "main.p", Tags: tags, Fields: fields, Class: tp.class})
		if ti%3 == 0 {
			// the callee's script set also loaded with the callee as the root (run directly after / before the caller ran it)
			pool = append(pool, &Op{Kind: "run", Scripts: map[string]string{"main.p": "probe(\"caller-start\")\nv = 1\nuse(\"c.p\")\nprobe(\"caller-end\", v)\nadd_key(done, true)", "c.p": tp.src}, Root: "c.p", Tags: tags, Fields: fields, Class: tp.class})
		}
	}
	// builtins whose engine keeps adaptive or memoised state: every subject / argument of a small set once
	for _, q := range []string{"SELECT * FROM files WHERE dir = 'C:\\'", "SELECT * FROM files WHERE dir = 'C:\\' -- user's home\nAND owner = 7", "SELECT 'backslash\\' AND id ='1234'", "SELECT 'a\\' -- ', b\nFROM t", "select 1", "SELECT * FROM logs WHERE dir = 'C:\\' -- the user's root\nAND level = 'warn'"} {
		pool = append(pool, &Op{Kind: "run", Scripts: map[string]string{"main.p": "sql_cover(_)\nprobe(\"q\", message)"}, Root: "main.p", Tags: map[string]string{}, Fields: renderFields(map[string]any{"message": q}), Class: "ok"})
	}
	for _, z := range []string{"Asia/Tokyo", "Mars/Olympus_Mons", "America/New_York", "+8", "Nowhere/City", "", "UTC", "-3:30", "+99"} {
		pool = append(pool, &Op{Kind: "run", Scripts: map[string]string{"main.p": fmt.Sprintf("add_key(ts, \"2021-05-27 06:54:14\")\ndefault_time(ts, %q)\nprobe(\"ts\", ts)", z)}, Root: "main.p", Tags: map[string]string{}, Fields: renderFields(map[string]any{"message": "m"}), Class: "ok"})
	}
	for _, lay := range []string{"RFC3339", "ANSIC", "nosuch layout", "2006-01-02", ""} {
		pool = append(pool, &Op{Kind: "run", Scripts: map[string]string{"main.p": fmt.Sprintf("datetime(n1, \"ms\", %q)\nprobe(\"d\", n1)", lay)}, Root: "main.p", Tags: map[string]string{}, Fields: renderFields(map[string]any{"n1": int64(1622098454760)}), Class: "ok"})
	}
	for _, doc := range []string{"{}", "{\"labels\": {}, \"n\": 1}", "{\"labels\": {\"deep\": {}}}", "[{}, {}]"} {
		// documents with empty objects, written into by the script
		pool = append(pool, &Op{Kind: "run", Scripts: map[string]string{"main.p": "d = load_json(_)\nprobe(\"first\", d)\nfor k in d {\n  if k == \"labels\" { d[k][\"x\"] = 1 }\n}\nif len(d) == 0 { d[\"extra\"] = true }\nprobe(\"after\", d)"}, Root: "main.p", Tags: map[string]string{}, Fields: renderFields(map[string]any{"message": doc}), Class: "ok"})
	}
	for _, msg := range []string{"k1", "k2", "another key"} {
		// an empty map literal that the script fills: every evaluation of {} is a new, empty map
		pool = append(pool, &Op{Kind: "run", Scripts: map[string]string{"main.p": "m = {}\nm[message] = 1\nprobe(\"m\", m, len({}), message in {})\nl = []\nprobe(\"l\", l, len([]))\nset_tag(seen, \"yes\")"}, Root: "main.p", Tags: map[string]string{}, Fields: renderFields(map[string]any{"message": msg}), Class: "ok"})
	}
	for _, doc := range []string{"{\"a\": 1, \"items\": [1, 2]}", "[1, 2]", "{bad"} {
		pool = append(pool, &Op{Kind: "run", Scripts: map[string]string{"main.p": "d = load_json(_)\nprobe(\"first\", d)\nif true { d[\"extra\"] = true }\nd2 = load_json(_)\nprobe(\"again\", d2)"}, Root: "main.p", Tags: map[string]string{}, Fields: renderFields(map[string]any{"message": doc}), Class: "ok"})
	}
	for _, txt := range badParses {
		pool = append(pool, &Op{Kind: "parse", Text: txt, Class: "parse-error"})
	}
	for _, txt := range []string{"`a b` = 1\nx = `a b` + `c`", "x = 'it\\'s'\ny = \"\\\"q\\\"\"\nz = \"\"\"m\"\"\"", "x = [1, 2][0]\ny = {\"a\": (1 + 2)}", "f(a, b)\nif a { b = \"s\" }", "for i = 0; i < 3; i = i + 1 {\n  g(i)\n}\n"} {
		pool = append(pool, &Op{Kind: "parse", Text: txt, Class: "ok"})
	}
	for _, src := range badLoads {
		pool = append(pool, &Op{Kind: "load", Scripts: map[string]string{"main.p": src, "other.p": "add_key(o, 1)"}, Root: "main.p", Class: "load-error"})
	}
	n += len(pool)
	for len(pool) < n {
		switch rapid.IntRange(0, 9).Draw(t, "opkind") {
		case 0:
			pool = append(pool, &Op{Kind: "parse", Text: rapid.SampledFrom(badParses).Draw(t, "badparse"), Class: "parse-error"})
		case 1:
			g := sgen.New(t)
			g.Probes, g.Loops, g.Slices = true, true, true
			prog := g.Program(4, 2)
			pool = append(pool, &Op{Kind: "parse", Text: gen.Print(prog, gen.RandomLayout(t)), Class: "ok"})
		case 2:
			src := rapid.SampledFrom(badLoads).Draw(t, "badload")
			if rapid.Bool().Draw(t, "pre") {
				src = "a = 1\n" + src
			}
			pool = append(pool, &Op{Kind: "load", Scripts: map[string]string{"main.p": src, "other.p": "add_key(o, 1)"}, Root: "main.p", Class: "load-error"})
		case 3:
			pool = append(pool, &Op{Kind: "load", Scripts: map[string]string{"main.p": "use(\"b.p\")", "b.p": rapid.SampledFrom([]string{"use(\"main.p\")", "x = = 1", "add_key(b, 1)", "nosuch()"}).Draw(t, "bbody")}, Root: "main.p", Class: "load-error"})
		case 4, 5:
			tp := templates[rapid.IntRange(0, len(templates)-1).Draw(t, "template")]
			tags, fields := point()
			op := &Op{Kind: "run", Scripts: map[string]string{"main.p": tp.src}, Root: "main.p", Tags: tags, Fields: fields, Class: tp.class}
			if rapid.IntRange(0, 3).Draw(t, "cancel") == 0 {
				op.FireAt = rapid.IntRange(1, 6).Draw(t, "k")
				op.Class = "cancelled"
			}
			pool = append(pool, op)
		case 6:
			// use(): caller and callee
			callee := templates[rapid.IntRange(0, len(templates)-1).Draw(t, "callee")]
			tags, fields := point()
			op := &Op{Kind: "run", Scripts: map[string]string{"main.p": "probe(\"caller-start\")\nv = 1\nuse(\"c.p\")\nprobe(\"caller-end\", v)\nadd_key(done, true)", "c.p": callee.src}, Root: "main.p", Tags: tags, Fields: fields, Class: callee.class}
			if rapid.IntRange(0, 3).Draw(t, "cancel") == 0 {
				op.FireAt = rapid.IntRange(1, 8).Draw(t, "k")
				op.Class = "cancelled"
			}
			pool = append(pool, op)
		default:
			g := sgen.New(t)
			g.Probes, g.Loops, g.Slices, g.AddKey, g.Exit = true, true, true, true, true
			g.Hostile = rapid.SampledFrom([]int{0, 30}).Draw(t, "hostile")
			g.UniqueOrder = true // two executions are compared verbatim: no loop over a map of several keys
			g.Calls = []func(*sgen.G, int) *gen.Node{func(g *sgen.G, d int) *gen.Node { return g.BuiltinCall(d) }}
			prog := g.Program(rapid.IntRange(2, 6).Draw(t, "size"), 2)
			tags, fields := point()
			op := &Op{Kind: "run", Scripts: map[string]string{"main.p": gen.Print(prog, gen.Minimal{})}, Root: "main.p", Tags: tags, Fields: fields, Class: "generated"}
			if rapid.IntRange(0, 4).Draw(t, "cancel") == 0 {
				op.FireAt = rapid.IntRange(1, 10).Draw(t, "k")
				op.Class = "cancelled"
			}
			pool = append(pool, op)
		}
	}
	// the time of the input point: mostly a fixed instant; the zero time, the epoch, instants before it and far away
	for _, o := range pool {
		if o.Kind == "run" {
			o.Time = rapid.SampledFrom([]string{"", "", "", "zero", "epoch", "before-epoch", "far"}).Draw(t, "ptime")
		}
	}
	return pool
}

type replay struct {
	History []*Op  `json:"history"`
	At      int    `json:"failing_index"`
	Want    string `json:"fresh_process_result"`
	Got     string `json:"result_in_history"`
}

func classOf(o *Op, result string) string {
	switch {
	case strings.HasPrefix(result, "ERR") || strings.Contains(result, "=ERR:"):
		if o.Kind == "parse" {
			return "parse-error"
		}
		if o.Kind == "load" {
			return "load-error"
		}
		return "run-error"
	case o.FireAt > 0:
		return "cancelled"
	case o.Class == "exit":
		return "exit"
	}
	return "ok"
}

func TestHistories(t *testing.T) {
	var pool []*Op
	rk.Check(t, "pool", 1, 1, func(t *rapid.T) { pool = genPool(t, evid.Scale(48, 300)) })
	if len(pool) == 0 {
		t.Fatalf("harness: empty pool")
	}
	dir, err := os.MkdirTemp("", "c15")
	if err != nil {
		t.Fatal(err)
	}
	defer os.RemoveAll(dir)
	refs := make([]string, len(pool))
	errs := make([]error, len(pool))
	var wg sync.WaitGroup
	sem := make(chan struct{}, 12)
	t0 := time.Now()
	for i := range pool {
		wg.Add(1)
		sem <- struct{}{}
		go func(i int) {
			defer wg.Done()
			defer func() { <-sem }()
			refs[i], errs[i] = reference(pool[i], dir, i)
		}(i)
	}
	wg.Wait()
	for i, e := range errs {
		if e != nil {
			t.Fatalf("harness: reference for op %d: %v", i, e)
		}
	}
	evid.Extra("pool_size", len(pool))
	evid.Extra("reference_processes_seconds", time.Since(t0).Seconds())
	// an operation performed twice in fresh state must equal itself (self-check of the canonical form)
	for i := range pool {
		if r := perform(newState(), pool[i]); r != refs[i] {
			// the very first in-process execution already differs from the fresh process: the in-process
			// state before it is only what the harness itself did (loading the pool) - report as a violation
			rk.Fail(t, "histories", replay{History: []*Op{pool[i]}, At: 0, Want: refs[i], Got: r}, "operation gives a different result in this process than in a fresh process\nfresh: %s\nhere:  %s", clip(refs[i]), clip(r))
		}
	}
	byCat := map[string][]int{}
	for i, o := range pool {
		k := o.Kind + "/" + o.Class
		if o.Kind == "run" && o.Class != "generated" && o.Class != "cancelled" {
			k = "run/template"
			if _, uses := o.Scripts["c.p"]; uses {
				k = "run/template-through-use"
			}
		}
		byCat[k] = append(byCat[k], i)
	}
	var catNames []string
	for k := range byCat {
		catNames = append(catNames, k)
	}
	sort.Strings(catNames)
	var cats [][]int
	for _, k := range catNames {
		cats = append(cats, byCat[k])
		evid.Extra("pool/"+k, len(byCat[k]))
	}
	maxLen := evid.Scale(60, 400)
	rk.Check(t, "histories", 2, evid.Scale(400, 1500), func(t *rapid.T) {
		n := rapid.IntRange(2, maxLen).Draw(t, "len")
		// category first, then a member: the fixed templates do not crowd out parses and generated programs
		idx := make([]int, n)
		for k := range idx {
			if k > 0 && rapid.IntRange(0, 3).Draw(t, "again") == 0 {
				// an operation of this history once more (a loaded script is run many times)
				idx[k] = idx[rapid.IntRange(0, k-1).Draw(t, "which")]
				continue
			}
			cat := cats[rapid.IntRange(0, len(cats)-1).Draw(t, "category")]
			idx[k] = cat[rapid.IntRange(0, len(cat)-1).Draw(t, "member")]
		}
		st := newState()
		prevClass := "none"
		for pos, i := range idx {
			o := pool[i]
			got := perform(st, o)
			if got != refs[i] {
				var hist []*Op
				for _, j := range idx[:pos+1] {
					hist = append(hist, pool[j])
				}
				rk.Fail(t, "histories", replay{History: hist, At: pos, Want: refs[i], Got: got}, "operation %d of the history (%s, preceded by a %s operation) gives a different result than in a fresh process\nfresh: %s\nhere:  %s", pos, o.Kind, prevClass, clip(refs[i]), clip(got))
			}
			nt := prevClass != "none" && prevClass != "ok"
			evid.Case(fmt.Sprintf("%d<-%s", i, prevClass), nt, "op/"+o.Kind, "after/"+prevClass)
			prevClass = classOf(o, got)
		}
	})
	for i := 0; i < len(pool) && i < 6; i++ {
		evid.Sample(map[string]any{"operation": pool[i], "fresh_process_result": clip(refs[i])})
	}
}

func clip(s string) string {
	if len(s) > 600 {
		return s[:600] + "..."
	}
	return s
}

// TestManyDistinctArguments: the result of an operation does not depend on how many different arguments of its kind
// the process has seen in between: the first operation of a family is repeated after 15, 16, 17, 63, 64, 65, 70, 129, 300
// others with pairwise different patterns / names / texts, and gives what it gave at first (as do some of the others).
func TestManyDistinctArguments(t *testing.T) {
	run := func(src string, msg string) *Op {
		return &Op{Kind: "run", Scripts: map[string]string{"main.p": src}, Root: "main.p", Tags: map[string]string{}, Fields: renderFields(map[string]any{"message": msg}), Class: "ok"}
	}
	families := []struct {
		name string
		mk   func(i int) *Op
	}{
		{"replace-pattern", func(i int) *Op {
			return run(fmt.Sprintf("replace(message, \"id%d=[0-9]+\", \"X%d\")\nprobe(\"m\", message)", i, i), fmt.Sprintf("id0=4711 id%d=12 id1=5", i))
		}},
		{"grok-pattern", func(i int) *Op {
			return run(fmt.Sprintf("ok = grok(_, \"w%d %%{INT:n%d:int}\")\nprobe(\"g\", ok, n%d)", i, i, i), fmt.Sprintf("w%d %d", i, i+40))
		}},
		{"grok-capture-type", func(i int) *Op {
			ty := []string{"", ":int", ":float", ":str", ":bool"}[i%5]
			return run(fmt.Sprintf("ok = grok(_, \"v%d=%%{NUMBER:val%s}\")\nprobe(\"g\", ok, val)", i/5, ty), fmt.Sprintf("v%d=42", i/5))
		}},
		{"add_pattern-alias", func(i int) *Op {
			return run(fmt.Sprintf("add_pattern(\"al%d\", \"[a-z]{%d}\")\nok = grok(_, \"%%{al%d:w}\")\nprobe(\"g\", ok, w)", i, i%5+1, i), "abcdefgh")
		}},
		{"xml-xpath", func(i int) *Op {
			return run(fmt.Sprintf("xml(_, \"/a/b[%d]\", out)\nprobe(\"x\", out)", i%3+1), fmt.Sprintf("<a><b>one%d</b><b>two</b><b>three</b></a>", i))
		}},
		{"xml-same-expression-other-documents", func(i int) *Op {
			// one expression with a numeric predicate; every second document holds text where the number should be
			price := fmt.Sprint(10 + i)
			if i%2 == 0 {
				price = "n/a"
			}
			return run("xml(_, \"//order[price > 10]/id/text()\", out)\nxml(_, \"substring(//id, 3, 1)\", out2)\nprobe(\"x\", out, out2)", fmt.Sprintf("<r><order><price>%s</price><id>id%d</id></order></r>", price, i))
		}},
		{"datetime-neighbouring-instants", func(i int) *Op {
			// instants of the same second and of the next one, one precision, one layout that shows the fraction
			n1 := int64(1610960605001) + int64((i*7)%13) + 1000*int64(i%2)
			return &Op{Kind: "run", Scripts: map[string]string{"main.p": "datetime(n1, \"ms\", \"RFC3339Nano\")\nprobe(\"d\", n1)"}, Root: "main.p", Tags: map[string]string{}, Fields: renderFields(map[string]any{"n1": n1}), Class: "ok"}
		}},
		{"datetime-around-the-epoch", func(i int) *Op {
			n1 := int64(-1000) + 250*int64(i%9)
			lay := []string{"RFC3339", "ANSIC", "2006-01-02 15:04:05"}[(i/9)%3]
			return &Op{Kind: "run", Scripts: map[string]string{"main.p": fmt.Sprintf("datetime(n1, \"ms\", %q)\nprobe(\"d\", n1)", lay)}, Root: "main.p", Tags: map[string]string{}, Fields: renderFields(map[string]any{"n1": n1}), Class: "ok"}
		}},
		{"datetime-precisions", func(i int) *Op {
			prec := []string{"s", "ms", "us", "ns"}[i%4]
			n1 := []int64{1610960605, 1610960605001, 1610960605001002, 1610960605001002003}[i%4] + int64(i/4)
			lay := []string{"RFC3339Nano", "StampMicro", "RFC1123"}[(i/4)%3]
			return &Op{Kind: "run", Scripts: map[string]string{"main.p": fmt.Sprintf("datetime(n1, %q, %q)\nprobe(\"d\", n1)", prec, lay)}, Root: "main.p", Tags: map[string]string{}, Fields: renderFields(map[string]any{"n1": n1}), Class: "ok"}
		}},
		{"strfmt-format", func(i int) *Op {
			return run(fmt.Sprintf("strfmt(out, \"%%d-f%d-%%s\", %d, \"s\")\nprobe(\"s\", out)", i, i), "m")
		}},
		{"sql", func(i int) *Op {
			return run("sql_cover(_)\nprobe(\"q\", message)", fmt.Sprintf("select c%d from t%d where id = %d and name = 'n%d'", i, i, i, i))
		}},
		{"parse-text", func(i int) *Op {
			return &Op{Kind: "parse", Text: fmt.Sprintf("name%d = fn%d(arg%d, \"s%d\")\nif name%d { other%d = [%d] }", i, i, i, i, i, i, i), Class: "ok"}
		}},
		{"parse-error-text", func(i int) *Op {
			return &Op{Kind: "parse", Text: fmt.Sprintf("name%d = = %d `q%d`", i, i, i), Class: "parse-error"}
		}},
		{"load-set", func(i int) *Op {
			return &Op{Kind: "run", Scripts: map[string]string{"main.p": fmt.Sprintf("use(\"lib%d.p\")\nprobe(\"m\", v)", i), fmt.Sprintf("lib%d.p", i): fmt.Sprintf("add_key(v, %d)", i)}, Root: "main.p", Tags: map[string]string{}, Fields: renderFields(map[string]any{"message": "m"}), Class: "ok"}
		}},
		{"same-caller-other-callee", func(i int) *Op {
			return &Op{Kind: "run", Scripts: map[string]string{"main.p": "use(\"lib.p\")\nprobe(\"m\", v)", "lib.p": fmt.Sprintf("add_key(v, %d)", i)}, Root: "main.p", Tags: map[string]string{}, Fields: renderFields(map[string]any{"message": "m"}), Class: "ok"}
		}},
	}
	n := 0
	for _, fam := range families {
		st := newState()
		first := map[int]string{}
		var hist []*Op
		do := func(i int) string {
			o := fam.mk(i)
			hist = append(hist, o)
			return perform(st, o)
		}
		first[0] = do(0)
		next := 1
		for _, target := range []int{15, 16, 17, 63, 64, 65, 70, 129, 300} {
			for ; next <= target; next++ {
				first[next] = do(next)
			}
			for _, back := range []int{0, 1, target / 2, target} {
				got := do(back)
				if got != first[back] {
					h := hist
					if len(h) > 6 {
						h = append([]*Op{hist[0]}, hist[len(hist)-3:]...)
					}
					rk.Fail(t, "many-"+fam.name, replay{History: h, At: len(h) - 1, Want: first[back], Got: got}, "family %s: operation %d gives a different result after %d other operations with different arguments\nfirst:\n%s\nnow:\n%s", fam.name, back, target, clipS(first[back]), clipS(got))
				}
				n++
			}
		}
		// and what the first few gave in this process is what a fresh process gives for them
		dir, derr := os.MkdirTemp("", "c15m")
		if derr == nil {
			t.Cleanup(func() { _ = os.RemoveAll(dir) })
			for i := 0; i < 7; i++ {
				ref, rerr := reference(fam.mk(i), dir, i)
				if rerr != nil {
					continue
				}
				if ref != first[i] {
					rk.Fail(t, "many-"+fam.name, replay{History: hist[:i+1], At: i, Want: ref, Got: first[i]}, "family %s: operation %d gave another result in this process (after %d operations with other arguments) than in a fresh process\nfresh:\n%s\nhere:\n%s", fam.name, i, i, clipS(ref), clipS(first[i]))
				}
				n++
			}
			_ = os.RemoveAll(dir)
		}
		evid.Case("many/"+fam.name, true, "many-distinct-arguments")
	}
	evid.Exhaustive("operation family x number of distinct arguments seen in between x operation repeated", n)
}

func clipS(s string) string {
	if len(s) > 400 {
		return s[:400] + "..."
	}
	return s
}

func TestReplays(t *testing.T) {
	files, _ := filepath.Glob(filepath.Join(evid.Dir(), "replays", prop, "*.json"))
	if r := os.Getenv("VERIF_REPLAY"); r != "" {
		files = []string{r}
	}
	for _, f := range files {
		b, err := os.ReadFile(f)
		if err != nil {
			continue
		}
		var r struct {
			Case replay `json:"case"`
		}
		if json.Unmarshal(b, &r) != nil || len(r.Case.History) == 0 {
			continue
		}
		t.Run(filepath.Base(f), func(t *testing.T) {
			dir, _ := os.MkdirTemp("", "c15r")
			defer os.RemoveAll(dir)
			last := r.Case.History[len(r.Case.History)-1]
			ref, err := reference(last, dir, 0)
			if err != nil {
				t.Fatalf("harness: %v", err)
			}
			st := newState()
			var got string
			for _, o := range r.Case.History {
				got = perform(st, o)
			}
			if got != ref {
				rk.Fail(t, "replay", r.Case, "last operation of the history differs from its fresh-process result\nfresh: %s\nhere:  %s", clip(ref), clip(got))
			}
			evid.Case("replay:"+filepath.Base(f), true, "replay")
		})
	}
}
